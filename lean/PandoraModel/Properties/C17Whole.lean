/-
  C17 — whole-function theorems for `check_input_section`, for the model `Model/Config.lean`
  instantiated with the input schemas and defaults regenerated from `pandora/check_configuration.py`
  (`Generated/Schemas.lean`), against the specification `Model/InputSpec.lean` (`inputVerdict`).

  `Properties/C17.lean` proves the pieces (every schema entry for all values, both custom checks).
  Here they are wired together:

    1. `check_input_section` = `update_conf(defaults, user)` followed by a validation of the merged
       section (`checkInputSection_eq`, `validateInput`)
    2. the schemas of the source, entry by entry, for ALL values (`*_entry` lemmas on the literal
       schema terms; `generated_input_schemas` ties them to the generated tables)
    3. the validation of a completed section, as a declarative predicate (`formOk`,
       `validateInput_ok_iff`)
    4. the merge of the two sides with the documented defaults (`mergeSide_*`)
    5. `checkInputSection_ok_iff` (accepted ⇔ both sides are dictionaries, nothing else is given, the
       merges succeed and the completed section has a documented form; the result is the completed
       section), `checkInputSection_completed` (the result is the user's section completed with the
       documented defaults), `checkInputSection_idempotent`
    6. against the documentation: `accepted_of_documented`, `refused_of_documented_reject`
       (`inputVerdict`), with the two places where a hypothesis is needed shown necessary by
       counterexamples
-/
import PandoraModel.Properties.C17
import PandoraModel.Lemmas.ConfigMerge

namespace Pandora.C17W
open Pandora Pandora.Config Pandora.ConfigSpec Pandora.InputSpec Pandora.Generated.Schemas

/-! ### 1. Merge, then validate -/

/-- the part of `check_input_section` that follows `update_conf` -/
def validateInput (files : Files) (sch : InputSchemas) (cfg : Dict) : Except Err Dict :=
  match subscript (.obj cfg) "input" with
  | .error e => .error e
  | .ok input =>
    match subscript input "left", subscript input "right" with
    | .error e, _ => .error e
    | .ok left, rightR =>
      match subscript left "disp" with
      | .error e => .error e
      | .ok ldisp =>
        let sel : Except Err (List (String × Bool × Schema) × List (String × Bool × Schema)) :=
          if ldisp.isList then .ok (sch.integerLeft, sch.integerRight)
          else
            match rightR with
            | .error e => .error e
            | .ok right =>
              match subscript right "disp" with
              | .error e => .error e
              | .ok rdisp =>
                if rdisp.isStr then .ok (sch.gridGridLeft, sch.gridGridRight)
                else .ok (sch.gridNoneLeft, sch.gridNoneRight)
        match sel with
        | .error e => .error e
        | .ok (sl, sr) =>
          let schema : Schema := .dict [("input", false, .dict [
            ("left", false, .dict (schemaUpdate sch.baseLeft sl)),
            ("right", false, .dict (schemaUpdate sch.baseRight sr))])]
          if !(Schema.accepts (fileOracle files) schema (.obj cfg)) then .error .checker
          else
            match rightR with
            | .error e => .error e
            | .ok right =>
              match subscript left "img", subscript right "img", subscript right "disp" with
              | .ok limg, .ok rimg, .ok rdisp =>
                match checkDisparitiesFromInput files ldisp limg with
                | .error e => .error e
                | .ok () =>
                  match checkDisparitiesFromInput files rdisp rimg with
                  | .error e => .error e
                  | .ok () =>
                    match checkImages files left right with
                    | .error e => .error e
                    | .ok () => .ok cfg
              | _, _, _ => .error .other

theorem checkInputSection_eq (files : Files) (fl : MachineFlags) (sch : InputSchemas) (user : Dict) :
    checkInputSection files fl sch user =
      match updateConf fl.strictMerge sch.defaults user with
      | .error e => .error e
      | .ok cfg => validateInput files sch cfg := by
  unfold checkInputSection validateInput
  rfl

/-! ### 2. The schemas of the source -/

def imgS : Schema := .all [.type .str, .oracle "rasterio_can_open_mandatory"]
def nodataS : Schema := .any [.type .int, .func (.and (.npIsscalar .var) (.npIsnan .var))]
def auxS : Schema := .all [.any [.type .str, .func (.isNone .var)], .oracle "rasterio_can_open"]
def rangeS : Schema := .all [.listOf [.type .int, .type .int], .func (.cmp .eq (.len .var) (.lit (.int 2)))]
def gridS : Schema := .all [.type .str, .oracle "rasterio_can_open"]
def noneS : Schema := .func (.isNone .var)

def baseEntries : List (String × Bool × Schema) :=
  [("img", false, imgS), ("nodata", false, nodataS), ("mask", false, auxS), ("classif", false, auxS),
   ("segm", false, auxS)]

/-- the documented defaults of the two sides -/
def dL : Dict := [("nodata", .int (-9999)), ("mask", .null), ("classif", .null), ("segm", .null)]
def dR : Dict := [("nodata", .int (-9999)), ("mask", .null), ("classif", .null), ("segm", .null), ("disp", .null)]

/-- what the source says (regenerated on every run) is what the lemmas below are about: the five
    common entries, the three disparity completions selected by the type of the disparities, and
    the defaults `nodata` −9999, `mask` / `classif` / `segm` `None`, right `disp` `None` -/
theorem generated_input_schemas :
    inputSchemas.baseLeft = baseEntries ∧ inputSchemas.baseRight = baseEntries ∧
    inputSchemas.integerLeft = [("disp", false, rangeS)] ∧ inputSchemas.integerRight = [("disp", false, noneS)] ∧
    inputSchemas.gridNoneLeft = [("disp", false, gridS)] ∧ inputSchemas.gridNoneRight = [("disp", false, noneS)] ∧
    inputSchemas.gridGridLeft = [("disp", false, gridS)] ∧ inputSchemas.gridGridRight = [("disp", false, gridS)] ∧
    inputSchemas.defaults = [("input", .obj [("left", .obj dL), ("right", .obj dR)])] := by decide

theorem schemaUpdate_disp (s : Schema) :
    schemaUpdate baseEntries [("disp", false, s)] = baseEntries ++ [("disp", false, s)] := by
  simp [schemaUpdate, baseEntries]

macro "entry_simp" : tactic => `(tactic|
  simp [imgS, nodataS, auxS, rangeS, gridS, noneS, Schema.accepts, Schema.acceptsAll, Schema.acceptsAny,
    Schema.keptByOr, Schema.acceptsZip, PyType.isInstance, PyType.isExactly, Expr.holds, Expr.eval, JVal.truthy,
    JVal.isNull, JVal.isList, JVal.isObj, JVal.isStr, fileOracle, npIsnanTruth, npArray, fIsNan, npIsscalarVal,
    pyCmp, pyEq, JVal.toNum?, Num.eq])

/-- `img`: a string naming a file rasterio can open -/
def imgSchemaOk (files : Files) : Option JVal → Bool
  | some (.str p) => (files p).isSome
  | _ => false

theorem img_entry (files : Files) (v : JVal) :
    Schema.accepts (fileOracle files) imgS v = imgSchemaOk files (some v) := by
  cases v <;> entry_simp <;> (try simp [imgSchemaOk])

theorem all2 (o : Oracle) (a b : Schema) (v : JVal) :
    Schema.accepts o (.all [a, b]) v = (Schema.accepts o a v && Schema.accepts o b v) := by
  conv => lhs; rw [Schema.accepts]
  simp [Schema.acceptsAll]

theorem func_accepts (o : Oracle) (e : Expr) (v : JVal) : Schema.accepts o (.func e) v = e.holds v := by
  rw [Schema.accepts]

theorem listOf_not_list (o : Oracle) (l : List Schema) (v : JVal) (h : v.isList = false) :
    Schema.accepts o (.listOf l) v = false := by
  cases v <;> simp [JVal.isList] at h <;> rw [Schema.accepts] <;> intro items h <;> cases h

/-- `nodata`: an integer or NaN — for ALL values: a list holding NaN is refused (the source tests
    `np.isscalar(x) and np.isnan(x)`), and so is a bool (`Or` keeps the alternatives of exactly the
    value's type: `True` is not tried against `int`) -/
def nodataOk : JVal → Bool
  | .int _ => true
  | .float .nan => true
  | _ => false

theorem nodata_entry (o : Oracle) (v : JVal) : Schema.accepts o nodataS v = nodataOk v := by
  cases v <;> entry_simp <;> (try simp [nodataOk])
  rename_i f; cases f <;> simp [nodataOk]

/-- `mask` / `classif` / `segm`: `None`, or a string that is `"none"` or names a readable file -/
def auxSchemaOk (files : Files) : Option JVal → Bool
  | some .null => true
  | some (.str p) => p == "none" || (files p).isSome
  | _ => false

theorem aux_entry (files : Files) (v : JVal) :
    Schema.accepts (fileOracle files) auxS v = auxSchemaOk files (some v) := by
  cases v <;> entry_simp <;> (try simp [auxSchemaOk])

theorem none_entry (o : Oracle) (v : JVal) : Schema.accepts o noneS v = v.isNull := by
  cases v <;> entry_simp

theorem grid_entry (files : Files) (v : JVal) :
    Schema.accepts (fileOracle files) gridS v = (auxSchemaOk files (some v) && v.isStr) := by
  cases v <;> entry_simp <;> (try simp [auxSchemaOk])

/-- `[int, int]` with `len(x) == 2`: exactly the two-element lists of integers (bools included) -/
def twoInts : JVal → Bool
  | .list [a, b] => (intOf? a).isSome && (intOf? b).isSome
  | _ => false

theorem range_entry (o : Oracle) (v : JVal) : Schema.accepts o rangeS v = twoInts v := by
  rw [rangeS, all2, func_accepts]
  cases v with
  | list items =>
    rw [C17.accepts_int_int o items]
    have hlen : (Expr.cmp .eq (.len .var) (.lit (.int 2))).holds (.list items) = decide (items.length = 2) := by
      simp [Expr.holds, Expr.eval, pyCmp, pyEq, JVal.toNum?, Num.eq, JVal.truthy]
      omega
    rw [hlen]
    match items with
    | [] => simp [twoInts]
    | [a] => simp [twoInts]
    | [a, b] => cases a <;> cases b <;> simp [twoInts, C17.allInts, intOf?]
    | a :: b :: c :: rest => simp [twoInts]
  | null => rw [listOf_not_list _ _ _ rfl]; rfl
  | bool _ => rw [listOf_not_list _ _ _ rfl]; rfl
  | int _ => rw [listOf_not_list _ _ _ rfl]; rfl
  | float _ => rw [listOf_not_list _ _ _ rfl]; rfl
  | str _ => rw [listOf_not_list _ _ _ rfl]; rfl
  | obj _ => rw [listOf_not_list _ _ _ rfl]; rfl

/-! ### 3. The validation of a completed section -/

theorem top_accepts_iff (o : Oracle) (sL sR : List (String × Bool × Schema)) (I : Dict) :
    Schema.accepts o (.dict [("input", false, .dict [("left", false, .dict sL), ("right", false, .dict sR)])])
      (.obj [("input", .obj I)]) = true ↔
    ((∃ lv, Dict.lookup I "left" = some lv ∧ Schema.accepts o (.dict sL) lv = true) ∧
     (∃ rv, Dict.lookup I "right" = some rv ∧ Schema.accepts o (.dict sR) rv = true) ∧
     ∀ kv ∈ I, kv.1 = "left" ∨ kv.1 = "right") := by
  rw [Merge.dict_accepts_iff]
  simp only [List.mem_singleton, forall_eq, Dict.lookup, if_true, exists_eq_left, and_true]
  rw [Merge.dict_accepts_iff]
  simp only [List.mem_cons, List.mem_nil_iff, or_false, forall_eq_or_imp, forall_eq, exists_eq_or_imp,
    exists_eq_left]
  constructor
  · intro ⟨⟨h1, h2⟩, h3⟩
    refine ⟨?_, ?_, fun kv hkv => ?_⟩
    · cases hl : Dict.lookup I "left" with
      | none => simp [hl] at h1
      | some lv => simp only [hl] at h1; exact ⟨lv, rfl, h1⟩
    · cases hl : Dict.lookup I "right" with
      | none => simp [hl] at h2
      | some rv => simp only [hl] at h2; exact ⟨rv, rfl, h2⟩
    · rcases h3 kv hkv with h | h
      · exact Or.inl h.symm
      · exact Or.inr h.symm
  · intro ⟨⟨lv, hl, hla⟩, ⟨rv, hr, hra⟩, h3⟩
    refine ⟨⟨by simp only [hl]; exact hla, by simp only [hr]; exact hra⟩, fun kv hkv => ?_⟩
    rcases h3 kv hkv with h | h
    · exact Or.inl h.symm
    · exact Or.inr h.symm

def optAccepts (o : Oracle) (s : Schema) : Option JVal → Bool
  | some v => Schema.accepts o s v
  | none => false

/-- the schema of one side (five common entries + the selected `disp` entry) on a dictionary -/
theorem side_accepts_iff (files : Files) (ds : Schema) (S : Dict) :
    Schema.accepts (fileOracle files) (.dict (baseEntries ++ [("disp", false, ds)])) (.obj S) = true ↔
      (imgSchemaOk files (Dict.lookup S "img") = true ∧
       optAccepts (fileOracle files) nodataS (Dict.lookup S "nodata") = true ∧
       auxSchemaOk files (Dict.lookup S "mask") = true ∧
       auxSchemaOk files (Dict.lookup S "classif") = true ∧
       auxSchemaOk files (Dict.lookup S "segm") = true ∧
       optAccepts (fileOracle files) ds (Dict.lookup S "disp") = true ∧
       S.all (fun kv => sideKeys.contains kv.1) = true) := by
  rw [Merge.dict_accepts_iff']
  simp only [baseEntries, List.cons_append, List.nil_append, List.mem_cons, List.mem_nil_iff, or_false,
    forall_eq_or_imp, forall_eq, exists_eq_or_imp, exists_eq_left]
  have e1 : Merge.entryOk (fileOracle files) S ("img", false, imgS) = true ↔
      imgSchemaOk files (Dict.lookup S "img") = true := by
    unfold Merge.entryOk
    cases Dict.lookup S "img" with
    | none => simp [imgSchemaOk]
    | some v => simp only [img_entry]
  have e2 : ∀ k, Merge.entryOk (fileOracle files) S (k, false, auxS) = true ↔
      auxSchemaOk files (Dict.lookup S k) = true := by
    intro k
    unfold Merge.entryOk
    cases Dict.lookup S k with
    | none => simp [auxSchemaOk]
    | some v => simp only [aux_entry]
  have e3 : ∀ (s : Schema) k, Merge.entryOk (fileOracle files) S (k, false, s) = true ↔
      optAccepts (fileOracle files) s (Dict.lookup S k) = true := by
    intro s k
    unfold Merge.entryOk
    cases Dict.lookup S k <;> simp [optAccepts]
  rw [e1, e2, e2, e2, e3, e3]
  simp only [and_assoc]
  refine and_congr_right (fun _ => and_congr_right (fun _ => and_congr_right (fun _ => and_congr_right (fun _ =>
    and_congr_right (fun _ => and_congr_right (fun _ => ?_))))))
  simp only [List.all_eq_true, sideKeys, List.contains_eq_mem, List.mem_cons, List.mem_nil_iff, or_false,
    decide_eq_true_eq]
  constructor
  · intro h kv hkv
    rcases h kv hkv with h | h | h | h | h | h <;> simp [← h]
  · intro h kv hkv
    rcases h kv hkv with h | h | h | h | h | h <;> simp [h]

/-- the file `img` of a side names -/
def imgOf (files : Files) (S : Dict) : Option FileInfo :=
  match Dict.lookup S "img" with
  | some (.str p) => files p
  | _ => none

/-- `mask` / `classif` / `segm` of a completed side: `None`, or a readable image of the size of `img` -/
def auxOk (files : Files) (im : FileInfo) : Option JVal → Bool
  | some .null => true
  | some (.str p) =>
    match files p with
    | some a => a.width == im.width && a.height == im.height
    | none => false
  | _ => false

/-- `[min, max]`: exactly two integers (Python: bools too), `min ≤ max` -/
def rangeOk : JVal → Bool
  | .list [a, b] =>
    match intOf? a, intOf? b with
    | some x, some y => decide (x ≤ y)
    | _, _ => false
  | _ => false

/-- the documented pairs of disparities: `[min, max]` / `None`; grid / `None`; grid / grid -/
def dispsOk (files : Files) (iml imr : FileInfo) : Option JVal → Option JVal → Bool
  | some (.list items), some .null => rangeOk (.list items)
  | some (.str p), some .null => gridOk files (some iml) p
  | some (.str p), some (.str q) => gridOk files (some iml) p && gridOk files (some imr) q
  | _, _ => false

def sideBaseOk (files : Files) (S : Dict) (im : FileInfo) : Bool :=
  S.all (fun kv => sideKeys.contains kv.1) &&
  (match Dict.lookup S "nodata" with | some v => nodataOk v | none => false) &&
  auxOk files im (Dict.lookup S "mask") && auxOk files im (Dict.lookup S "classif") &&
  auxOk files im (Dict.lookup S "segm")

/-- **the documented forms of a completed input section** (every key present): both images
    readable and of the same size; on each side only the six documented keys, `nodata` an integer
    or NaN, `mask` / `classif` / `segm` `None` or a readable image of the size of the side's image;
    the disparities `[min, max]` (two integers in order) with no right disparity, or a grid (readable,
    two bands, the image's size, min ≤ max everywhere) with no right disparity or a right grid -/
def formOk (files : Files) (L R : Dict) : Bool :=
  match imgOf files L, imgOf files R with
  | some iml, some imr =>
    (iml.width == imr.width && iml.height == imr.height) &&
    sideBaseOk files L iml && sideBaseOk files R imr &&
    dispsOk files iml imr (Dict.lookup L "disp") (Dict.lookup R "disp")
  | _, _ => false

/-- the custom checks that follow the schema validation -/
def tailChecks (files : Files) (L R : Dict) (ld rd : JVal) : Except Err Unit :=
  match Dict.lookup L "img", Dict.lookup R "img" with
  | some limg, some rimg =>
    match checkDisparitiesFromInput files ld limg with
    | .error e => .error e
    | .ok () =>
      match checkDisparitiesFromInput files rd rimg with
      | .error e => .error e
      | .ok () => checkImages files (.obj L) (.obj R)
  | _, _ => .error .other

def selL (ld : JVal) : Schema := if ld.isList then rangeS else gridS
def selR (ld rd : JVal) : Schema := if ld.isList then noneS else if rd.isStr then gridS else noneS

def topSchema (dsL dsR : Schema) : Schema :=
  .dict [("input", false, .dict [("left", false, .dict (baseEntries ++ [("disp", false, dsL)])),
                                  ("right", false, .dict (baseEntries ++ [("disp", false, dsR)]))])]



theorem tail_eq (files : Files) (I L R : Dict) (ld rd : JVal) :
    (match
          (match Dict.lookup L "img" with
          | some x => Except.ok x
          | none => Except.error Err.key : Except Err JVal),
          (match Dict.lookup R "img" with
          | some x => Except.ok x
          | none => Except.error Err.key : Except Err JVal),
          (Except.ok rd : Except Err JVal) with
        | Except.ok limg, Except.ok rimg, Except.ok rdisp =>
          match checkDisparitiesFromInput files ld limg with
          | Except.error e => Except.error e
          | Except.ok PUnit.unit =>
            match checkDisparitiesFromInput files rdisp rimg with
            | Except.error e => Except.error e
            | Except.ok PUnit.unit =>
              match checkImages files (JVal.obj L) (JVal.obj R) with
              | Except.error e => Except.error e
              | Except.ok PUnit.unit => Except.ok [("input", JVal.obj I)]
        | _, _, _ => Except.error Err.other) =
      match tailChecks files L R ld rd with
      | Except.error e => Except.error e
      | Except.ok PUnit.unit => Except.ok [("input", JVal.obj I)] := by
  unfold tailChecks
  cases Dict.lookup L "img" <;> cases Dict.lookup R "img" <;> simp
  rename_i limg rimg
  cases checkDisparitiesFromInput files ld limg <;> simp
  cases checkDisparitiesFromInput files rd rimg <;> simp

/-- the validation, once both sides are known to be dictionaries holding a `disp` -/
theorem validate_eq (files : Files) (I L R : Dict) (ld rd : JVal)
    (hL : Dict.lookup I "left" = some (.obj L)) (hR : Dict.lookup I "right" = some (.obj R))
    (hld : Dict.lookup L "disp" = some ld) (hrd : Dict.lookup R "disp" = some rd) :
    validateInput files inputSchemas [("input", .obj I)] =
      if Schema.accepts (fileOracle files) (topSchema (selL ld) (selR ld rd)) (.obj [("input", .obj I)]) then
        match tailChecks files L R ld rd with
        | .error e => .error e
        | .ok () => .ok [("input", .obj I)]
      else .error .checker := by
  obtain ⟨g1, g2, g3, g4, g5, g6, g7, g8, _⟩ := generated_input_schemas
  unfold validateInput
  simp only [subscript, Dict.lookup, if_true, hL, hR, hld, hrd, g1, g2, g3, g4, g5, g6, g7, g8]
  by_cases hlist : ld.isList = true
  · simp only [hlist, if_true, selL, selR, topSchema, schemaUpdate_disp]
    split <;> simp_all <;> exact tail_eq files I L R ld rd
  · simp only [hlist, Bool.false_eq_true, if_false, selL, selR, topSchema]
    by_cases hstr : rd.isStr = true
    · simp only [hstr, if_true, schemaUpdate_disp]
      split <;> simp_all <;> exact tail_eq files I L R ld rd
    · simp only [hstr, Bool.false_eq_true, if_false, schemaUpdate_disp]
      split <;> simp_all <;> exact tail_eq files I L R ld rd


theorem checkDisp_range (files : Files) (v img : JVal) (h : twoInts v = true) :
    checkDisparitiesFromInput files v img = .ok () ↔ rangeOk v = true := by
  cases v with
  | list items =>
    match items with
    | [a, b] =>
      cases a <;> cases b <;> simp [twoInts, intOf?] at h <;>
        simp [checkDisparitiesFromInput, rangeOk, intOf?, JVal.toNum?, Num.lt]
      all_goals (try (rename_i x y; cases x <;> cases y <;> simp))
      all_goals (try (rename_i x y; cases x <;> simp <;> omega))
      all_goals (try omega)
    | [] => simp [twoInts] at h
    | [_] => simp [twoInts] at h
    | _ :: _ :: _ :: _ => simp [twoInts] at h
  | _ => simp [twoInts] at h

theorem aux_combined (files : Files) (im : FileInfo) (S : Dict) (k : String) :
    (auxSchemaOk files (Dict.lookup S k) = true ∧ checkAux files im (.obj S) k = .ok ()) ↔
      auxOk files im (Dict.lookup S k) = true := by
  simp only [checkAux]
  cases hl : Dict.lookup S k with
  | none => simp [auxSchemaOk, auxOk]
  | some v =>
    cases v <;> simp [auxSchemaOk, auxOk]
    rename_i p
    cases hf : files p with
    | none => simp
    | some a =>
      by_cases h1 : a.width = im.width <;> by_cases h2 : a.height = im.height <;> simp [h1, h2]

theorem checkImages_ok_iff (files : Files) (L R : Dict) :
    checkImages files (.obj L) (.obj R) = .ok () ↔
      ∃ iml imr, imgOf files L = some iml ∧ imgOf files R = some imr ∧
        iml.width = imr.width ∧ iml.height = imr.height ∧
        checkAux files iml (.obj L) "mask" = .ok () ∧ checkAux files imr (.obj R) "mask" = .ok () ∧
        checkAux files iml (.obj L) "classif" = .ok () ∧ checkAux files imr (.obj R) "classif" = .ok () ∧
        checkAux files iml (.obj L) "segm" = .ok () ∧ checkAux files imr (.obj R) "segm" = .ok () := by
  unfold checkImages imgOf
  simp only [subscript]
  cases hl : Dict.lookup L "img" with
  | none => simp
  | some lv =>
    cases hr : Dict.lookup R "img" with
    | none => cases lv <;> simp
    | some rv =>
      cases lv <;> cases rv <;> simp
      rename_i lp rp
      cases hfl : files lp with
      | none => simp
      | some iml =>
        cases hfr : files rp with
        | none => simp
        | some imr =>
          simp only [Option.some.injEq, exists_and_left, exists_eq_left']
          by_cases h1 : iml.width = imr.width <;> by_cases h2 : iml.height = imr.height <;> simp [h1, h2]
          simp only [checkAuxAll]
          cases checkAux files iml (.obj L) "mask" <;> simp
          cases checkAux files imr (.obj R) "mask" <;> simp
          cases checkAux files iml (.obj L) "classif" <;> simp
          cases checkAux files imr (.obj R) "classif" <;> simp
          cases checkAux files iml (.obj L) "segm" <;> simp
          cases checkAux files imr (.obj R) "segm" <;> simp


theorem imgOf_some (files : Files) (S : Dict) (im : FileInfo) :
    imgOf files S = some im ↔ ∃ p, Dict.lookup S "img" = some (.str p) ∧ files p = some im := by
  unfold imgOf
  cases Dict.lookup S "img" with
  | none => simp
  | some v => cases v <;> simp

theorem imgSchemaOk_iff (files : Files) (S : Dict) :
    imgSchemaOk files (Dict.lookup S "img") = true ↔ ∃ im, imgOf files S = some im := by
  unfold imgOf imgSchemaOk
  cases Dict.lookup S "img" with
  | none => simp
  | some v =>
    cases v <;> simp
    rename_i p
    cases files p <;> simp

theorem nodata_opt (o : Oracle) (x : Option JVal) :
    optAccepts o nodataS x = (match x with | some v => nodataOk v | none => false) := by
  cases x <;> simp [optAccepts, nodata_entry]

theorem optAccepts_some (o : Oracle) (s : Schema) (v : JVal) :
    optAccepts o s (some v) = Schema.accepts o s v := rfl

theorem isNull_iff (v : JVal) : v.isNull = true ↔ v = .null := by cases v <;> simp [JVal.isNull]
theorem isStr_iff (v : JVal) : v.isStr = true ↔ ∃ p, v = .str p := by cases v <;> simp [JVal.isStr]

theorem twoInts_list {v : JVal} (h : twoInts v = true) : ∃ items, v = .list items := by
  cases v <;> simp [twoInts] at h
  exact ⟨_, rfl⟩

theorem rangeOk_twoInts {v : JVal} (h : rangeOk v = true) : twoInts v = true := by
  cases v with
  | list items =>
    match items with
    | [a, b] =>
      simp only [rangeOk] at h
      simp only [twoInts]
      cases ha : intOf? a <;> cases hb : intOf? b <;> simp [ha, hb] at h ⊢
    | [] => simp [rangeOk] at h
    | [_] => simp [rangeOk] at h
    | _ :: _ :: _ :: _ => simp [rangeOk] at h
  | _ => simp [rangeOk] at h

theorem gridOk_files {files : Files} {im : FileInfo} {p : String} (h : gridOk files (some im) p = true) :
    (files p).isSome = true := by
  unfold gridOk at h
  cases hf : files p <;> simp [hf] at h ⊢

/-- schema of both sides + custom checks = the documented forms of a completed section -/
theorem core_iff (files : Files) (L R : Dict) (ld rd : JVal)
    (hld : Dict.lookup L "disp" = some ld) (hrd : Dict.lookup R "disp" = some rd) :
    (Schema.accepts (fileOracle files) (.dict (baseEntries ++ [("disp", false, selL ld)])) (.obj L) = true ∧
     Schema.accepts (fileOracle files) (.dict (baseEntries ++ [("disp", false, selR ld rd)])) (.obj R) = true ∧
     tailChecks files L R ld rd = .ok ()) ↔ formOk files L R = true := by
  rw [side_accepts_iff, side_accepts_iff]
  simp only [hld, hrd, nodata_opt, optAccepts_some]
  constructor
  · intro ⟨⟨hli, hln, hlm, hlc, hls, hlds, hlk⟩, ⟨hri, hrn, hrm, hrc, hrs, hrds, hrk⟩, htail⟩
    obtain ⟨iml, himl⟩ := (imgSchemaOk_iff files L).1 hli
    obtain ⟨imr, himr⟩ := (imgSchemaOk_iff files R).1 hri
    obtain ⟨lp, hlp, hfl⟩ := (imgOf_some files L iml).1 himl
    obtain ⟨rp, hrp, hfr⟩ := (imgOf_some files R imr).1 himr
    simp only [tailChecks, hlp, hrp] at htail
    cases hc1 : checkDisparitiesFromInput files ld (.str lp) with
    | error e => simp [hc1] at htail
    | ok u1 =>
      cases hc2 : checkDisparitiesFromInput files rd (.str rp) with
      | error e => simp [hc1, hc2] at htail
      | ok u2 =>
        simp only [hc1, hc2] at htail
        obtain ⟨iml', imr', h1, h2, hw, hh, a1, a2, a3, a4, a5, a6⟩ := (checkImages_ok_iff files L R).1 htail
        rw [himl] at h1; cases h1
        rw [himr] at h2; cases h2
        unfold formOk
        simp only [himl, himr, sideBaseOk, hlk, hrk, Bool.and_eq_true, beq_iff_eq, hw, hh, true_and]
        refine ⟨⟨⟨⟨⟨hln, (aux_combined files iml L "mask").1 ⟨hlm, a1⟩⟩, (aux_combined files iml L "classif").1 ⟨hlc, a3⟩⟩,
          (aux_combined files iml L "segm").1 ⟨hls, a5⟩⟩,
          ⟨⟨hrn, (aux_combined files imr R "mask").1 ⟨hrm, a2⟩⟩, (aux_combined files imr R "classif").1 ⟨hrc, a4⟩⟩,
          (aux_combined files imr R "segm").1 ⟨hrs, a6⟩⟩, ?_⟩
        -- the disparities
        rw [hld, hrd]
        by_cases hlist : ld.isList = true
        · simp only [selL, selR, hlist, if_true, range_entry, none_entry] at hlds hrds
          obtain ⟨items, rfl⟩ := twoInts_list hlds
          rw [(isNull_iff rd).1 hrds]
          simp only [dispsOk]
          exact (checkDisp_range files _ _ hlds).1 hc1
        · simp only [selL, selR, hlist, Bool.false_eq_true, if_false, grid_entry, Bool.and_eq_true] at hlds hrds
          obtain ⟨p, rfl⟩ := (isStr_iff ld).1 hlds.2
          have g1 := ((C17.checkDisparities_grid files p lp).1 hc1).2
          rw [hfl] at g1
          by_cases hstr : rd.isStr = true
          · simp only [hstr, if_true, grid_entry, Bool.and_eq_true] at hrds
            obtain ⟨q, rfl⟩ := (isStr_iff rd).1 hstr
            have g2 := ((C17.checkDisparities_grid files q rp).1 hc2).2
            rw [hfr] at g2
            simp [dispsOk, g1, g2]
          · simp only [hstr, Bool.false_eq_true, if_false, none_entry] at hrds
            rw [(isNull_iff rd).1 hrds]
            simp [dispsOk, g1]
  · intro h
    unfold formOk at h
    cases himl : imgOf files L with
    | none => simp [himl] at h
    | some iml =>
      cases himr : imgOf files R with
      | none => simp [himl, himr] at h
      | some imr =>
        simp only [himl, himr, sideBaseOk, Bool.and_eq_true, beq_iff_eq] at h
        obtain ⟨⟨⟨⟨hw, hh⟩, ⟨⟨⟨hlk, hln⟩, hlm⟩, hlc⟩, hls⟩, ⟨⟨⟨hrk, hrn⟩, hrm⟩, hrc⟩, hrs⟩, hd⟩ := h
        obtain ⟨lp, hlp, hfl⟩ := (imgOf_some files L iml).1 himl
        obtain ⟨rp, hrp, hfr⟩ := (imgOf_some files R imr).1 himr
        obtain ⟨b1, a1⟩ := (aux_combined files iml L "mask").2 hlm
        obtain ⟨b3, a3⟩ := (aux_combined files iml L "classif").2 hlc
        obtain ⟨b5, a5⟩ := (aux_combined files iml L "segm").2 hls
        obtain ⟨b2, a2⟩ := (aux_combined files imr R "mask").2 hrm
        obtain ⟨b4, a4⟩ := (aux_combined files imr R "classif").2 hrc
        obtain ⟨b6, a6⟩ := (aux_combined files imr R "segm").2 hrs
        have hci : checkImages files (.obj L) (.obj R) = .ok () :=
          (checkImages_ok_iff files L R).2 ⟨iml, imr, himl, himr, hw, hh, a1, a2, a3, a4, a5, a6⟩
        have hLi := (imgSchemaOk_iff files L).2 ⟨iml, himl⟩
        have hRi := (imgSchemaOk_iff files R).2 ⟨imr, himr⟩
        rw [hld, hrd] at hd
        -- the three documented pairs
        have key : Schema.accepts (fileOracle files) (selL ld) ld = true ∧
            Schema.accepts (fileOracle files) (selR ld rd) rd = true ∧
            checkDisparitiesFromInput files ld (.str lp) = .ok () ∧
            checkDisparitiesFromInput files rd (.str rp) = .ok () := by
          cases ld with
          | list items =>
            cases rd <;> simp [dispsOk] at hd
            have ht := rangeOk_twoInts hd
            refine ⟨by simp [selL, JVal.isList, range_entry, ht], by simp [selR, JVal.isList, none_entry, JVal.isNull],
              (checkDisp_range files _ _ ht).2 hd, by simp [checkDisparitiesFromInput]⟩
          | str p =>
            cases rd <;> simp [dispsOk] at hd
            · have hf := gridOk_files hd
              refine ⟨by simp [selL, JVal.isList, grid_entry, auxSchemaOk, hf, JVal.isStr],
                by simp [selR, JVal.isList, JVal.isStr, none_entry, JVal.isNull],
                (C17.checkDisparities_grid files p lp).2 ⟨by simp [hfl], by rw [hfl]; exact hd⟩,
                by simp [checkDisparitiesFromInput]⟩
            · rename_i q
              have hf1 := gridOk_files hd.1
              have hf2 := gridOk_files hd.2
              refine ⟨by simp [selL, JVal.isList, grid_entry, auxSchemaOk, hf1, JVal.isStr],
                by simp [selR, JVal.isList, JVal.isStr, grid_entry, auxSchemaOk, hf2],
                (C17.checkDisparities_grid files p lp).2 ⟨by simp [hfl], by rw [hfl]; exact hd.1⟩,
                (C17.checkDisparities_grid files q rp).2 ⟨by simp [hfr], by rw [hfr]; exact hd.2⟩⟩
          | _ => simp [dispsOk] at hd
        obtain ⟨k1, k2, k3, k4⟩ := key
        refine ⟨⟨hLi, hln, b1, b3, b5, k1, hlk⟩, ⟨hRi, hrn, b2, b4, b6, k2, hrk⟩, ?_⟩
        simp [tailChecks, hlp, hrp, k3, k4, hci]


theorem side_accepts_obj {files : Files} {ds : Schema} {v : JVal}
    (h : Schema.accepts (fileOracle files) (.dict (baseEntries ++ [("disp", false, ds)])) v = true) :
    ∃ S d, v = .obj S ∧ Dict.lookup S "disp" = some d := by
  cases hv : v.isObj
  · rw [Merge.dict_accepts_leaf _ _ v hv] at h; cases h
  · cases v <;> simp [JVal.isObj] at hv
    rename_i S
    have := ((side_accepts_iff files ds S).1 h).2.2.2.2.2.1
    cases hd : Dict.lookup S "disp" with
    | none => simp [hd, optAccepts] at this
    | some d => exact ⟨S, d, rfl, hd⟩

/-- a validated section has two dictionary sides, each with a `disp` -/
theorem validate_shape {files : Files} {I out : Dict}
    (h : validateInput files inputSchemas [("input", .obj I)] = .ok out) :
    ∃ L R ld rd, Dict.lookup I "left" = some (.obj L) ∧ Dict.lookup I "right" = some (.obj R) ∧
      Dict.lookup L "disp" = some ld ∧ Dict.lookup R "disp" = some rd := by
  obtain ⟨g1, g2, g3, g4, g5, g6, g7, g8, _⟩ := generated_input_schemas
  unfold validateInput at h
  simp only [subscript, Dict.lookup, if_true, g1, g2, g3, g4, g5, g6, g7, g8] at h
  cases hl : Dict.lookup I "left" with
  | none => simp [hl] at h
  | some lv =>
    cases lv with
    | obj L =>
      simp only [hl] at h
      cases hld : Dict.lookup L "disp" with
      | none => simp [hld] at h
      | some ld =>
        simp only [hld] at h
        by_cases hlist : ld.isList = true
        · simp only [hlist, if_true, schemaUpdate_disp] at h
          split at h
          · cases h
          · rename_i hacc
            simp only [Bool.not_eq_true', Bool.not_eq_false] at hacc
            obtain ⟨_, ⟨rv, hr, hra⟩, _⟩ := (top_accepts_iff _ _ _ I).1 hacc
            obtain ⟨R, rd, rfl, hrd⟩ := side_accepts_obj hra
            exact ⟨L, R, ld, rd, rfl, hr, hld, hrd⟩
        · simp only [hlist, Bool.false_eq_true, if_false] at h
          cases hr : Dict.lookup I "right" with
          | none => simp [hr] at h
          | some rv =>
            cases rv with
            | obj R =>
              simp only [hr] at h
              cases hrd : Dict.lookup R "disp" with
              | none => simp [hrd] at h
              | some rd => exact ⟨L, R, ld, rd, rfl, rfl, hld, hrd⟩
            | _ => simp [hr] at h
    | _ => simp [hl] at h

/-- **the validation of a merged section**: it returns normally — and then returns the section
    unchanged — exactly when the section consists of a `left` and a `right` dictionary and nothing
    else, and these two have a documented form (`formOk`) -/
theorem validateInput_ok_iff (files : Files) (I out : Dict) :
    validateInput files inputSchemas [("input", .obj I)] = .ok out ↔
      (out = [("input", .obj I)] ∧ ∃ L R, Dict.lookup I "left" = some (.obj L) ∧
        Dict.lookup I "right" = some (.obj R) ∧ (∀ kv ∈ I, kv.1 = "left" ∨ kv.1 = "right") ∧
        formOk files L R = true) := by
  constructor
  · intro h
    obtain ⟨L, R, ld, rd, hL, hR, hld, hrd⟩ := validate_shape h
    rw [validate_eq files I L R ld rd hL hR hld hrd] at h
    split at h
    · rename_i hacc
      cases ht : tailChecks files L R ld rd with
      | error e => simp [ht] at h
      | ok u =>
        simp only [ht, Except.ok.injEq] at h
        obtain ⟨⟨lv, hl', hla⟩, ⟨rv, hr', hra⟩, hkeys⟩ := (top_accepts_iff _ _ _ I).1 hacc
        rw [hL] at hl'; cases hl'
        rw [hR] at hr'; cases hr'
        exact ⟨h.symm, L, R, hL, hR, hkeys, (core_iff files L R ld rd hld hrd).1 ⟨hla, hra, ht⟩⟩
    · cases h
  · intro ⟨hout, L, R, hL, hR, hkeys, hform⟩
    -- a documented form has both disparities
    have hdisp : ∃ ld rd, Dict.lookup L "disp" = some ld ∧ Dict.lookup R "disp" = some rd := by
      unfold formOk at hform
      cases himl : imgOf files L with
      | none => simp [himl] at hform
      | some iml =>
        cases himr : imgOf files R with
        | none => simp [himl, himr] at hform
        | some imr =>
          simp only [himl, himr, Bool.and_eq_true] at hform
          have hd := hform.2
          cases hld : Dict.lookup L "disp" with
          | none => simp [hld, dispsOk] at hd
          | some ld =>
            cases hrd : Dict.lookup R "disp" with
            | none => cases ld <;> simp [hld, hrd, dispsOk] at hd
            | some rd => exact ⟨ld, rd, rfl, rfl⟩
    obtain ⟨ld, rd, hld, hrd⟩ := hdisp
    obtain ⟨hla, hra, ht⟩ := (core_iff files L R ld rd hld hrd).2 hform
    rw [validate_eq files I L R ld rd hL hR hld hrd]
    have hacc := (top_accepts_iff (fileOracle files) _ _ I).2 ⟨⟨_, hL, hla⟩, ⟨_, hR, hra⟩, hkeys⟩
    simp only [topSchema, hacc, if_true, ht, hout]


/-! ### 4. The merge with the documented defaults -/

def dI : Dict := [("left", .obj dL), ("right", .obj dR)]

theorem merge_top (g : Bool) (kvs : Dict) :
    updateConf g inputSchemas.defaults [("input", .obj kvs)] =
      (updateConf g dI kvs).map (fun I => [("input", JVal.obj I)]) := by
  rw [generated_input_schemas.2.2.2.2.2.2.2.2, Merge.updateConf_cons]
  simp only [Dict.lookup, if_true, Merge.updateVal_obj_obj, dI]
  cases updateConf g [("left", .obj dL), ("right", .obj dR)] kvs with
  | error e => simp [Except.map]
  | ok I => simp [Except.map, Dict.setKey, Merge.updateConf_nil]

/-- `check_input_section` on `{"input": kvs}` = merge `kvs` into the two default sides, validate -/
theorem checkInputSection_input (files : Files) (fl : MachineFlags) (kvs : Dict) (out : Dict) :
    checkInputSection files fl inputSchemas [("input", .obj kvs)] = .ok out ↔
      ∃ I, updateConf fl.strictMerge dI kvs = .ok I ∧
        validateInput files inputSchemas [("input", .obj I)] = .ok out := by
  rw [checkInputSection_eq, merge_top]
  cases updateConf fl.strictMerge dI kvs with
  | error e => simp [Except.map]
  | ok I => simp [Except.map]

theorem formOk_img {files : Files} {L R : Dict} (h : formOk files L R = true) :
    ∃ iml imr, imgOf files L = some iml ∧ imgOf files R = some imr := by
  unfold formOk at h
  cases himl : imgOf files L with
  | none => simp [himl] at h
  | some iml =>
    cases himr : imgOf files R with
    | none => simp [himl, himr] at h
    | some imr => exact ⟨iml, imr, rfl, rfl⟩

theorem imgOf_dL (files : Files) : imgOf files dL = none := by simp [imgOf, dL, Dict.lookup]
theorem imgOf_dR (files : Files) : imgOf files dR = none := by simp [imgOf, dR, Dict.lookup]

/-- a dictionary with exactly the keys `left`, `right` -/
theorem two_keys (I : Dict) (a b : JVal) (hk : Dict.keys I = ["left", "right"])
    (ha : Dict.lookup I "left" = some a) (hb : Dict.lookup I "right" = some b) :
    I = [("left", a), ("right", b)] := by
  match I, hk with
  | [(k1, v1), (k2, v2)], hk =>
    simp only [Dict.keys, List.map_cons, List.map_nil, List.cons.injEq, and_true] at hk
    obtain ⟨rfl, rfl⟩ := hk
    simp [Dict.lookup] at ha hb
    rw [ha, hb]

/-- **`check_input_section` returns normally iff** the user's `input` consists of a `left` and a
    `right` dictionary and nothing else, each merges into its documented defaults, and the two
    completed sides have a documented form; the result is `{"input": {"left": …, "right": …}}` with
    the two completed sides -/
theorem checkInputSection_ok_iff (files : Files) (fl : MachineFlags) (kvs out : Dict)
    (hnd : (Dict.keys kvs).Nodup) :
    checkInputSection files fl inputSchemas [("input", .obj kvs)] = .ok out ↔
      ∃ L R L' R', Dict.lookup kvs "left" = some (.obj L) ∧ Dict.lookup kvs "right" = some (.obj R) ∧
        (∀ kv ∈ kvs, kv.1 = "left" ∨ kv.1 = "right") ∧
        updateConf fl.strictMerge dL L = .ok L' ∧ updateConf fl.strictMerge dR R = .ok R' ∧
        formOk files L' R' = true ∧
        out = [("input", .obj [("left", .obj L'), ("right", .obj R')])] := by
  rw [checkInputSection_input]
  constructor
  · intro ⟨I, hI, hv⟩
    obtain ⟨hout, L', R', hIl, hIr, hIk, hform⟩ := (validateInput_ok_iff files I out).1 hv
    obtain ⟨hkeys, hnone, hsome⟩ := Merge.updateConf_inv fl.strictMerge kvs dI I hnd hI
    obtain ⟨iml, imr, himl, himr⟩ := formOk_img hform
    -- the two sides come from the user
    have side : ∀ (k : String) (d S' : Dict), Dict.lookup dI k = some (.obj d) → imgOf files d = none →
        Dict.lookup I k = some (.obj S') → (∃ im, imgOf files S' = some im) →
        ∃ S, Dict.lookup kvs k = some (.obj S) ∧ updateConf fl.strictMerge d S = .ok S' := by
      intro k d S' hd hdi hIk' him
      cases hk : Dict.lookup kvs k with
      | none =>
        rw [hnone k hk, hd] at hIk'
        simp only [Option.some.injEq, JVal.obj.injEq] at hIk'
        subst hIk'
        obtain ⟨im, him⟩ := him
        rw [hdi] at him; cases him
      | some v =>
        obtain ⟨v', hv', hl'⟩ := hsome k v hk
        rw [hIk'] at hl'
        simp only [Option.some.injEq] at hl'
        subst hl'
        rw [hd] at hv'
        cases hvo : v.isObj
        · rw [Merge.updateVal_leaf _ _ v hvo] at hv'
          simp only [Except.ok.injEq] at hv'
          have := Merge.rewriteLeaf_isObj v
          rw [hv', hvo] at this; simp [JVal.isObj] at this
        · cases v <;> simp [JVal.isObj] at hvo
          rename_i S
          rw [Merge.updateVal_obj_obj] at hv'
          cases hu : updateConf fl.strictMerge d S with
          | error e => simp [hu, Except.map] at hv'
          | ok S'' =>
            simp only [hu, Except.map, Except.ok.injEq, JVal.obj.injEq] at hv'
            subst hv'
            exact ⟨S, rfl, hu⟩
    obtain ⟨L, hL, hLm⟩ := side "left" dL L' (by simp [dI, Dict.lookup]) (imgOf_dL files) hIl ⟨iml, himl⟩
    obtain ⟨R, hR, hRm⟩ := side "right" dR R' (by simp [dI, Dict.lookup]) (imgOf_dR files) hIr ⟨imr, himr⟩
    have hkk : ∀ kv ∈ kvs, kv.1 = "left" ∨ kv.1 = "right" := by
      intro kv hkv
      have hin : kv.1 ∈ Dict.keys I := by
        rw [hkeys]
        by_cases hd : kv.1 ∈ Dict.keys dI
        · exact List.mem_append_left _ hd
        · apply List.mem_append_right
          rw [List.mem_filter]
          exact ⟨List.mem_map_of_mem (f := (·.1)) hkv, by simpa using hd⟩
      obtain ⟨kv', hkv', he⟩ := List.mem_map.1 hin
      rw [← he]
      exact hIk kv' hkv'
    have hIkeys : Dict.keys I = ["left", "right"] := by
      rw [hkeys]
      have : (Dict.keys kvs).filter (fun k => !(Dict.keys dI).contains k) = [] := by
        rw [List.filter_eq_nil_iff]
        intro k hk
        obtain ⟨kv, hkv, he⟩ := List.mem_map.1 hk
        rcases hkk kv hkv with h | h <;> simp [← he, h, dI, Dict.keys]
      rw [this]; rfl
    refine ⟨L, R, L', R', hL, hR, hkk, hLm, hRm, hform, ?_⟩
    rw [hout, two_keys I _ _ hIkeys hIl hIr]
  · intro ⟨L, R, L', R', hL, hR, hkk, hLm, hRm, hform, hout⟩
    have hitems : ∀ k v, Dict.lookup kvs k = some v →
        ∃ v', updateVal fl.strictMerge (Dict.lookup dI k) v = .ok v' := by
      intro k v hk
      rcases hkk (k, v) (Merge.mem_of_lookup kvs k v hk) with h | h
      · simp only at h; subst h
        rw [hL] at hk; cases hk
        exact ⟨.obj L', by simp [dI, Dict.lookup, Merge.updateVal_obj_obj, hLm, Except.map]⟩
      · simp only at h; subst h
        rw [hR] at hk; cases hk
        exact ⟨.obj R', by simp [dI, Dict.lookup, Merge.updateVal_obj_obj, hRm, Except.map]⟩
    obtain ⟨I, hI⟩ := Merge.updateConf_intro fl.strictMerge kvs dI hnd hitems
    obtain ⟨hkeys, hnone, hsome⟩ := Merge.updateConf_inv fl.strictMerge kvs dI I hnd hI
    have hIl : Dict.lookup I "left" = some (.obj L') := by
      obtain ⟨v', hv', hl'⟩ := hsome "left" _ hL
      simp [dI, Dict.lookup, Merge.updateVal_obj_obj, hLm, Except.map] at hv'
      rw [hl', ← hv']
    have hIr : Dict.lookup I "right" = some (.obj R') := by
      obtain ⟨v', hv', hl'⟩ := hsome "right" _ hR
      simp [dI, Dict.lookup, Merge.updateVal_obj_obj, hRm, Except.map] at hv'
      rw [hl', ← hv']
    have hIkeys : Dict.keys I = ["left", "right"] := by
      rw [hkeys]
      have : (Dict.keys kvs).filter (fun k => !(Dict.keys dI).contains k) = [] := by
        rw [List.filter_eq_nil_iff]
        intro k hk
        obtain ⟨kv, hkv, he⟩ := List.mem_map.1 hk
        rcases hkk kv hkv with h | h <;> simp [← he, h, dI, Dict.keys]
      rw [this]; rfl
    have hIeq := two_keys I _ _ hIkeys hIl hIr
    refine ⟨I, hI, (validateInput_ok_iff files I out).2 ⟨by rw [hout, hIeq], L', R', hIl, hIr, ?_, hform⟩⟩
    intro kv hkv
    rw [hIeq] at hkv
    simp only [List.mem_cons, List.mem_nil_iff, or_false] at hkv
    rcases hkv with h | h <;> simp [h]


/-! ### 5. Against the documentation (`inputVerdict`) -/

theorem foldl_and_reject (cs : List (String × Dom)) (a : Dom) :
    cs.foldl (fun acc c => Dom.and acc c.2) a = .reject ↔ a = .reject ∨ ∃ c ∈ cs, c.2 = .reject := by
  induction cs generalizing a with
  | nil => simp
  | cons c rest ih =>
    simp only [List.foldl_cons, ih, List.mem_cons, exists_eq_or_imp]
    cases a <;> cases h : c.2 <;> simp [Dom.and]

theorem foldl_and_accept (cs : List (String × Dom)) (a : Dom) :
    cs.foldl (fun acc c => Dom.and acc c.2) a = .accept ↔ a = .accept ∧ ∀ c ∈ cs, c.2 = .accept := by
  induction cs generalizing a with
  | nil => simp
  | cons c rest ih =>
    simp only [List.foldl_cons, ih, List.mem_cons, forall_eq_or_imp]
    cases a <;> cases h : c.2 <;> simp [Dom.and]

/-- what the specification reads of a user side: the value under a key, magic strings rewritten -/
def getU (S : Dict) (k : String) : Option JVal := (Dict.lookup S k).map rewriteLeaf
/-- the image file of a user side -/
def imU (files : Files) (S : Dict) : Option FileInfo :=
  match Dict.lookup S "img" with
  | some v => fileOf files v
  | none => none

theorem sideClauses_eq (files : Files) (side : String) (S : Dict) (lg : Bool) :
    sideClauses files side S lg =
      [ (side ++ ".keys", ofBool (S.all (fun kv => sideKeys.contains kv.1))),
        (side ++ ".img", ofBool (imU files S).isSome),
        (side ++ ".nodata", nodataVerdict (getU S "nodata")),
        (side ++ ".mask", auxVerdict files (imU files S) (getU S "mask")),
        (side ++ ".classif", auxVerdict files (imU files S) (getU S "classif")),
        (side ++ ".segm", auxVerdict files (imU files S) (getU S "segm")),
        (side ++ ".disp", if side == "left" then leftDispVerdict files (imU files S) (getU S "disp")
                          else rightDispVerdict files (imU files S) lg (getU S "disp")) ] := rfl

def leftIsGridU (L : Dict) : Bool := match Dict.lookup L "disp" with | some (.str _) => true | _ => false

theorem inputClauses_sides (files : Files) (kvs L R : Dict)
    (hL : Dict.lookup kvs "left" = some (.obj L)) (hR : Dict.lookup kvs "right" = some (.obj R)) :
    inputClauses files (some (.obj kvs)) =
      [("sections", ofBool (kvs.all (fun kv => kv.1 == "left" || kv.1 == "right")))] ++
      sideClauses files "left" L (leftIsGridU L) ++ sideClauses files "right" R (leftIsGridU L) ++
      [("same_size", match imU files L, imU files R with
                     | some a, some b => ofBool (a.width == b.width && a.height == b.height)
                     | _, _ => .reject)] := by
  simp only [inputClauses, hL, hR, leftIsGridU, imU]
  rfl

theorem verdict_needs_sides (files : Files) (kvs : Dict)
    (h : inputVerdict files (some (.obj kvs)) ≠ .reject) :
    ∃ L R, Dict.lookup kvs "left" = some (.obj L) ∧ Dict.lookup kvs "right" = some (.obj R) := by
  cases hl : Dict.lookup kvs "left" with
  | none => exact absurd (by simp [inputVerdict, inputClauses, hl, Dom.and]) h
  | some lv =>
    cases hr : Dict.lookup kvs "right" with
    | none => exact absurd (by cases lv <;> simp [inputVerdict, inputClauses, hl, hr, Dom.and]) h
    | some rv =>
      cases lv <;> cases rv <;>
        first
        | exact ⟨_, _, rfl, rfl⟩
        | exact absurd (by simp [inputVerdict, inputClauses, hl, hr, Dom.and]) h

theorem ofBool_accept (b : Bool) : ofBool b = .accept ↔ b = true := by cases b <;> simp [ofBool]
theorem ofBool_not_reject (b : Bool) : ofBool b ≠ .reject ↔ b = true := by cases b <;> simp [ofBool]

theorem nodataVerdict_accept (v : JVal) : nodataVerdict (some v) = .accept ↔ nodataOk v = true := by
  cases v <;> simp [nodataVerdict, nodataOk]
  rename_i f; cases f <;> simp [nodataVerdict, nodataOk]

theorem auxVerdict_some (files : Files) (im : FileInfo) (v : JVal) :
    auxVerdict files (some im) (some v) = ofBool (auxOk files im (some v)) := by
  cases v with
  | str p =>
    simp only [auxVerdict, auxOk]
    cases hf : files p with
    | none => simp [ofBool]
    | some a => simp
  | _ => simp [auxVerdict, auxOk, ofBool]

theorem verdict_obj_reject (files : Files) (im : Option FileInfo) (lg : Bool) (s : Dict) :
    nodataVerdict (some (.obj s)) = .reject ∧ auxVerdict files im (some (.obj s)) = .reject ∧
    leftDispVerdict files im (some (.obj s)) = .reject ∧ rightDispVerdict files im lg (some (.obj s)) = .reject := by
  simp [nodataVerdict, auxVerdict, leftDispVerdict, rightDispVerdict]

theorem ite_undecided_ne_accept (c : Prop) [Decidable c]
    (h : (if c then Dom.undecided else Dom.reject) = Dom.accept) : False := by
  split at h <;> cases h

/-- the left disparity the documentation accepts is one the code accepts -/
theorem leftDisp_accept (files : Files) (im : FileInfo) (v : JVal)
    (h : leftDispVerdict files (some im) (some v) = .accept) :
    (∃ items, v = .list items ∧ rangeOk v = true) ∨ (∃ p, v = .str p ∧ gridOk files (some im) p = true) := by
  cases v with
  | list items =>
    left
    refine ⟨items, rfl, ?_⟩
    match items with
    | [a, b] =>
      cases a <;> cases b <;> simp [leftDispVerdict, intOf?, rangeOk, ofBool] at h ⊢
      all_goals first
        | exact h
        | exact (ite_undecided_ne_accept _ h).elim
    | [] => simp [leftDispVerdict] at h
    | [_] => simp [leftDispVerdict] at h
    | _ :: _ :: _ :: _ => simp [leftDispVerdict] at h
  | str p => right; exact ⟨p, rfl, by simpa [leftDispVerdict, ofBool_accept] using h⟩
  | _ => simp [leftDispVerdict] at h



/-- no file is called `NaN`, `inf` or `-inf` (`update_conf` turns these three strings into floats
    wherever they occur, image paths included) -/
def MagicFree (files : Files) : Prop := files "NaN" = none ∧ files "inf" = none ∧ files "-inf" = none

theorem rewriteLeaf_str_file {files : Files} (hm : MagicFree files) {p : String} {im : FileInfo}
    (hf : files p = some im) : rewriteLeaf (.str p) = .str p := by
  unfold rewriteLeaf
  have h1 : p ≠ "NaN" := by intro e; subst e; rw [hm.1] at hf; cases hf
  have h2 : p ≠ "inf" := by intro e; subst e; rw [hm.2.1] at hf; cases hf
  have h3 : p ≠ "-inf" := by intro e; subst e; rw [hm.2.2] at hf; cases hf
  simp [h1, h2, h3]

theorem rewriteLeaf_obj (s : Dict) : rewriteLeaf (.obj s) = .obj s := by simp [rewriteLeaf]

/-- merging a side whose values are all leaves: always succeeds; the defaults keep their place,
    the user's new keys follow; every user value is stored rewritten, every default the user did not
    override is kept -/
theorem merge_leaves (g : Bool) (d S : Dict) (hnd : (Dict.keys S).Nodup)
    (hleaf : ∀ k u, Dict.lookup S k = some u → u.isObj = false) :
    ∃ S', updateConf g d S = .ok S' ∧
      Dict.keys S' = Dict.keys d ++ (Dict.keys S).filter (fun k => !(Dict.keys d).contains k) ∧
      ∀ k, Dict.lookup S' k = match Dict.lookup S k with
                              | some u => some (rewriteLeaf u)
                              | none => Dict.lookup d k := by
  obtain ⟨S', hS'⟩ := Merge.updateConf_intro g S d hnd
    (fun k v hl => ⟨rewriteLeaf v, Merge.updateVal_leaf g _ v (hleaf k v hl)⟩)
  obtain ⟨hk, hnone, hsome⟩ := Merge.updateConf_inv g S d S' hnd hS'
  refine ⟨S', hS', hk, ?_⟩
  intro k
  cases hl : Dict.lookup S k with
  | none => exact hnone k hl
  | some u =>
    obtain ⟨v', hv', hl'⟩ := hsome k u hl
    rw [Merge.updateVal_leaf g _ u (hleaf k u hl)] at hv'
    cases hv'; exact hl'

theorem imU_some {files : Files} {S : Dict} (h : (imU files S).isSome = true) :
    ∃ p im, Dict.lookup S "img" = some (.str p) ∧ files p = some im ∧ imU files S = some im := by
  unfold imU at h ⊢
  cases hl : Dict.lookup S "img" with
  | none => simp [hl] at h
  | some v =>
    cases v <;> simp [hl, fileOf] at h ⊢
    rename_i p
    cases hf : files p with
    | none => simp [hf] at h
    | some im => exact ⟨im, rfl⟩

theorem sideKeys_cases {k : String} (h : sideKeys.contains k = true) :
    k = "img" ∨ k = "nodata" ∨ k = "disp" ∨ k = "mask" ∨ k = "classif" ∨ k = "segm" := by
  simpa [sideKeys] using h

/-- a user side the documentation accepts merges into its defaults, and the completed side passes
    the part of `formOk` that concerns one side -/
theorem side_accept (files : Files) (hm : MagicFree files) (g : Bool) (d S : Dict) (hd : d = dL ∨ d = dR)
    (hnd : (Dict.keys S).Nodup)
    (hkeys : S.all (fun kv => sideKeys.contains kv.1) = true)
    (himg : (imU files S).isSome = true)
    (hnod : nodataVerdict (getU S "nodata") = .accept)
    (hmask : auxVerdict files (imU files S) (getU S "mask") = .accept)
    (hclassif : auxVerdict files (imU files S) (getU S "classif") = .accept)
    (hsegm : auxVerdict files (imU files S) (getU S "segm") = .accept)
    (hdisp : ∀ u, Dict.lookup S "disp" = some u → u.isObj = false) :
    ∃ S' im, updateConf g d S = .ok S' ∧ imU files S = some im ∧ imgOf files S' = some im ∧
      sideBaseOk files S' im = true ∧
      Dict.lookup S' "disp" = (match getU S "disp" with | some v => some v | none => Dict.lookup d "disp") := by
  obtain ⟨p, im, hp, hf, him⟩ := imU_some himg
  rw [him] at hmask hclassif hsegm
  have hdkeys : ∀ k ∈ Dict.keys d, sideKeys.contains k = true := by
    rcases hd with rfl | rfl <;> decide
  have hdnod : Dict.lookup d "nodata" = some (.int (-9999)) := by rcases hd with rfl | rfl <;> rfl
  have hdaux : ∀ k, k = "mask" ∨ k = "classif" ∨ k = "segm" → Dict.lookup d k = some .null := by
    intro k hk; rcases hd with rfl | rfl <;> rcases hk with rfl | rfl | rfl <;> rfl
  have hdimg : Dict.lookup d "img" = none := by rcases hd with rfl | rfl <;> rfl
  -- every value is a leaf
  have hleaf : ∀ k u, Dict.lookup S k = some u → u.isObj = false := by
    intro k u hl
    have hk := sideKeys_cases ((List.all_eq_true.1 hkeys) (k, u) (Merge.mem_of_lookup S k u hl))
    cases hu : u.isObj
    · rfl
    · exfalso
      cases u <;> simp [JVal.isObj] at hu
      rename_i s
      have hr := verdict_obj_reject files (some im) false s
      rcases hk with rfl | rfl | rfl | rfl | rfl | rfl
      · rw [hp] at hl; cases hl
      · simp [getU, hl, rewriteLeaf_obj, hr.1] at hnod
      · exact absurd (hdisp _ hl) (by simp [JVal.isObj])
      · simp [getU, hl, rewriteLeaf_obj, hr.2.1] at hmask
      · simp [getU, hl, rewriteLeaf_obj, hr.2.1] at hclassif
      · simp [getU, hl, rewriteLeaf_obj, hr.2.1] at hsegm
  obtain ⟨S', hS', hk', hlook⟩ := merge_leaves g d S hnd hleaf
  have himg' : imgOf files S' = some im := by
    unfold imgOf
    rw [hlook "img", hp]
    simp only [rewriteLeaf_str_file hm hf, hf]
  -- an auxiliary key
  have haux : ∀ k, k = "mask" ∨ k = "classif" ∨ k = "segm" →
      auxVerdict files (some im) (getU S k) = .accept → auxOk files im (Dict.lookup S' k) = true := by
    intro k hk hv
    rw [hlook k]
    cases hl : Dict.lookup S k with
    | none => simp only [hdaux k hk]; rfl
    | some u =>
      simp only [getU, hl, Option.map_some, auxVerdict_some, ofBool_accept] at hv
      exact hv
  refine ⟨S', im, hS', him, himg', ?_, ?_⟩
  · simp only [sideBaseOk, Bool.and_eq_true]
    refine ⟨⟨⟨⟨?_, ?_⟩, haux _ (Or.inl rfl) hmask⟩, haux _ (Or.inr (Or.inl rfl)) hclassif⟩,
      haux _ (Or.inr (Or.inr rfl)) hsegm⟩
    · rw [List.all_eq_true]
      intro kv hkv
      have hin : kv.1 ∈ Dict.keys S' := List.mem_map_of_mem (f := (·.1)) hkv
      rw [hk'] at hin
      rcases List.mem_append.1 hin with h | h
      · exact hdkeys _ h
      · obtain ⟨kv', hkv', he⟩ := List.mem_map.1 (List.mem_filter.1 h).1
        rw [← he]; exact (List.all_eq_true.1 hkeys) kv' hkv'
    · rw [hlook "nodata"]
      cases hl : Dict.lookup S "nodata" with
      | none => simp only [hdnod]; rfl
      | some u =>
        simp only [getU, hl, Option.map_some, nodataVerdict_accept] at hnod
        exact hnod
  · rw [hlook "disp"]
    cases hl : Dict.lookup S "disp" <;> simp [getU, hl]


theorem rewriteLeaf_list {u : JVal} {items : List JVal} (h : rewriteLeaf u = .list items) : u = .list items := by
  unfold rewriteLeaf at h
  by_cases h1 : u = .str "NaN"
  · simp [h1] at h
  · by_cases h2 : u = .str "inf"
    · simp [h2] at h
    · by_cases h3 : u = .str "-inf"
      · simp [h3] at h
      · simpa [h1, h2, h3] using h

/-- the clauses of the documentation's verdict on a section with two dictionary sides -/
theorem verdict_accept_clauses {files : Files} {kvs L R : Dict}
    (hL : Dict.lookup kvs "left" = some (.obj L)) (hR : Dict.lookup kvs "right" = some (.obj R))
    (h : inputVerdict files (some (.obj kvs)) = .accept) :
    kvs.all (fun kv => kv.1 == "left" || kv.1 == "right") = true ∧
    (L.all (fun kv => sideKeys.contains kv.1) = true ∧ (imU files L).isSome = true ∧
      nodataVerdict (getU L "nodata") = .accept ∧ auxVerdict files (imU files L) (getU L "mask") = .accept ∧
      auxVerdict files (imU files L) (getU L "classif") = .accept ∧
      auxVerdict files (imU files L) (getU L "segm") = .accept ∧
      leftDispVerdict files (imU files L) (getU L "disp") = .accept) ∧
    (R.all (fun kv => sideKeys.contains kv.1) = true ∧ (imU files R).isSome = true ∧
      nodataVerdict (getU R "nodata") = .accept ∧ auxVerdict files (imU files R) (getU R "mask") = .accept ∧
      auxVerdict files (imU files R) (getU R "classif") = .accept ∧
      auxVerdict files (imU files R) (getU R "segm") = .accept ∧
      rightDispVerdict files (imU files R) (leftIsGridU L) (getU R "disp") = .accept) ∧
    (match imU files L, imU files R with
     | some a, some b => ofBool (a.width == b.width && a.height == b.height)
     | _, _ => .reject) = .accept := by
  unfold inputVerdict at h
  rw [inputClauses_sides files kvs L R hL hR, foldl_and_accept] at h
  have hall := h.2
  simp only [sideClauses_eq, List.cons_append, List.nil_append, List.mem_cons, List.mem_nil_iff, or_false,
    forall_eq_or_imp, forall_eq, ofBool_accept] at hall
  obtain ⟨h0, l1, l2, l3, l4, l5, l6, l7, r1, r2, r3, r4, r5, r6, r7, hs⟩ := hall
  exact ⟨h0, ⟨l1, l2, l3, l4, l5, l6, by simpa using l7⟩, ⟨r1, r2, r3, r4, r5, r6, by simpa using r7⟩, hs⟩


/-- the user's dictionaries are JSON dictionaries: no key twice in `input`, `left`, `right` -/
def NodupSection (kvs : Dict) : Prop :=
  (Dict.keys kvs).Nodup ∧ ∀ k S, Dict.lookup kvs k = some (.obj S) → (Dict.keys S).Nodup

/-- **documented ⇒ accepted**: an `input` section the documentation accepts (`inputVerdict = accept`:
    two sides with only documented keys, readable images of one size, `nodata` an integer or NaN,
    auxiliary images absent / `None` / readable and of the image's size, `[min, max]` in order with no
    right disparity or grids of the right shape with min ≤ max) passes `check_input_section`, whatever
    the merge policy of `update_conf` — provided no file is called `NaN` / `inf` / `-inf`. -/
theorem accepted_of_documented (files : Files) (hm : MagicFree files) (fl : MachineFlags) (kvs : Dict)
    (hwf : NodupSection kvs) (h : inputVerdict files (some (.obj kvs)) = .accept) :
    ∃ out, checkInputSection files fl inputSchemas [("input", .obj kvs)] = .ok out := by
  obtain ⟨L, R, hL, hR⟩ := verdict_needs_sides files kvs (by rw [h]; simp)
  obtain ⟨h0, ⟨l1, l2, l3, l4, l5, l6, l7⟩, ⟨r1, r2, r3, r4, r5, r6, r7⟩, hs⟩ := verdict_accept_clauses hL hR h
  have hdl : ∀ u, Dict.lookup L "disp" = some u → u.isObj = false := by
    intro u hu
    cases huo : u.isObj
    · rfl
    · cases u <;> simp [JVal.isObj] at huo
      simp [getU, hu, rewriteLeaf_obj, (verdict_obj_reject files (imU files L) false _).2.2.1] at l7
  have hdr : ∀ u, Dict.lookup R "disp" = some u → u.isObj = false := by
    intro u hu
    cases huo : u.isObj
    · rfl
    · cases u <;> simp [JVal.isObj] at huo
      simp [getU, hu, rewriteLeaf_obj, (verdict_obj_reject files (imU files R) (leftIsGridU L) _).2.2.2] at r7
  obtain ⟨L', iml, hLm, himl, himl', hLb, hLd⟩ := side_accept files hm fl.strictMerge dL L (Or.inl rfl)
    (hwf.2 _ _ hL) l1 l2 l3 l4 l5 l6 hdl
  obtain ⟨R', imr, hRm, himr, himr', hRb, hRd⟩ := side_accept files hm fl.strictMerge dR R (Or.inr rfl)
    (hwf.2 _ _ hR) r1 r2 r3 r4 r5 r6 hdr
  rw [himl] at l7
  rw [himr] at r7
  rw [himl, himr] at hs
  simp only [ofBool_accept] at hs
  -- the disparities
  have hdisp : dispsOk files iml imr (Dict.lookup L' "disp") (Dict.lookup R' "disp") = true := by
    rw [hLd, hRd]
    cases hgl : getU L "disp" with
    | none => simp [hgl, leftDispVerdict] at l7
    | some v =>
      rw [hgl] at l7
      rcases leftDisp_accept files iml v l7 with ⟨items, rfl, hrange⟩ | ⟨p, rfl, hgrid⟩
      · -- `[min, max]`: the left disparity is not a grid, the right one must be absent / None
        have hlu : Dict.lookup L "disp" = some (.list items) := by
          simp only [getU] at hgl
          cases hu : Dict.lookup L "disp" with
          | none => simp [hu] at hgl
          | some u => simp only [hu, Option.map_some, Option.some.injEq] at hgl; rw [rewriteLeaf_list hgl]
        have hlg : leftIsGridU L = false := by simp [leftIsGridU, hlu]
        rw [hlg] at r7
        cases hgr : getU R "disp" with
        | none => simpa [dispsOk, dR, Dict.lookup] using hrange
        | some w =>
          rw [hgr] at r7
          cases w <;> simp [rightDispVerdict, ofBool] at r7
          simpa [dispsOk] using hrange
      · cases hgr : getU R "disp" with
        | none => simpa [dispsOk, dR, Dict.lookup] using hgrid
        | some w =>
          rw [hgr] at r7
          cases w <;> simp [rightDispVerdict, ofBool_accept] at r7
          · simpa [dispsOk] using hgrid
          · simp [dispsOk, hgrid, r7.2]
  have hform : formOk files L' R' = true := by
    simp only [formOk, himl', himr', hLb, hRb, hdisp, hs, Bool.and_self]
  exact ⟨_, (checkInputSection_ok_iff files fl kvs _ hwf.1).2
    ⟨L, R, L', R', hL, hR, by simpa [List.all_eq_true] using h0, hLm, hRm, hform, rfl⟩⟩



theorem rewriteLeaf_inv {u v : JVal} (h : rewriteLeaf u = v) (hv : ∀ f, v ≠ .float f) : u = v := by
  unfold rewriteLeaf at h
  by_cases h1 : u = .str "NaN"
  · simp [h1] at h; exact absurd h.symm (hv _)
  · by_cases h2 : u = .str "inf"
    · simp [h2] at h; exact absurd h.symm (hv _)
    · by_cases h3 : u = .str "-inf"
      · simp [h3] at h; exact absurd h.symm (hv _)
      · simpa [h1, h2, h3] using h

/-- under `strictMerge` a user value is stored rewritten (a leaf) or as a dictionary (a dictionary);
    a key the user omits keeps the default -/
theorem side_rel_true (d S S' : Dict) (hnd : (Dict.keys S).Nodup) (hdl : ∀ k v, Dict.lookup d k = some v → v.isObj = false)
    (h : updateConf true d S = .ok S') :
    (∀ k, Dict.lookup S k = none → Dict.lookup S' k = Dict.lookup d k) ∧
    (∀ k u, Dict.lookup S k = some u → ∃ v', Dict.lookup S' k = some v' ∧
      (u.isObj = true → v'.isObj = true) ∧ (u.isObj = false → v' = rewriteLeaf u)) := by
  obtain ⟨_, hnone, hsome⟩ := Merge.updateConf_inv true S d S' hnd h
  refine ⟨hnone, ?_⟩
  intro k u hk
  obtain ⟨v', hv', hl'⟩ := hsome k u hk
  refine ⟨v', hl', ?_, ?_⟩
  · intro huo
    cases u <;> simp [JVal.isObj] at huo
    rename_i sub
    cases hd : Dict.lookup d k with
    | none =>
      rw [hd, Merge.updateVal_obj_none] at hv'
      cases hu : updateConf true [] sub <;> simp [hu, Except.map] at hv'
      rw [← hv']; rfl
    | some dv =>
      rw [hd, Merge.updateVal_obj_other true dv sub (hdl k dv hd)] at hv'
      simp at hv'
  · intro huo
    rw [Merge.updateVal_leaf true _ u huo] at hv'
    cases hv'; rfl

theorem defaults_leaves : (∀ k v, Dict.lookup dL k = some v → v.isObj = false) ∧
    (∀ k v, Dict.lookup dR k = some v → v.isObj = false) := by
  constructor <;> intro k v h <;> simp only [dL, dR, Dict.lookup] at h <;>
    (repeat (split at h <;> try (cases h; rfl))) <;> cases h

/-- a side `check_input_section` accepted is not rejected by the documentation (one side, all
    clauses but `disp`) -/
theorem side_not_reject (files : Files) (d S S' : Dict) (hd : d = dL ∨ d = dR) (hnd : (Dict.keys S).Nodup)
    (hm : updateConf true d S = .ok S') (im : FileInfo) (himg : imgOf files S' = some im)
    (hb : sideBaseOk files S' im = true) :
    S.all (fun kv => sideKeys.contains kv.1) = true ∧ imU files S = some im ∧
    nodataVerdict (getU S "nodata") = .accept ∧
    auxVerdict files (some im) (getU S "mask") = .accept ∧
    auxVerdict files (some im) (getU S "classif") = .accept ∧
    auxVerdict files (some im) (getU S "segm") = .accept := by
  have hdl : ∀ k v, Dict.lookup d k = some v → v.isObj = false := by
    rcases hd with rfl | rfl
    · exact defaults_leaves.1
    · exact defaults_leaves.2
  have hdimg : Dict.lookup d "img" = none := by rcases hd with rfl | rfl <;> rfl
  obtain ⟨hnone, hsome⟩ := side_rel_true d S S' hnd hdl hm
  simp only [sideBaseOk, Bool.and_eq_true] at hb
  obtain ⟨⟨⟨⟨hkeys, hnod⟩, hmask⟩, hclassif⟩, hsegm⟩ := hb
  have haux : ∀ k, auxOk files im (Dict.lookup S' k) = true → auxVerdict files (some im) (getU S k) = .accept := by
    intro k hk
    cases hl : Dict.lookup S k with
    | none => simp [getU, hl, auxVerdict]
    | some u =>
      obtain ⟨v', hv', ho, hlf⟩ := hsome k u hl
      rw [hv'] at hk
      cases huo : u.isObj
      · rw [hlf huo] at hk
        simp [getU, hl, auxVerdict_some, ofBool_accept, hk]
      · have := ho huo
        cases v' <;> simp [JVal.isObj] at this
        simp [auxOk] at hk
  refine ⟨?_, ?_, ?_, haux _ hmask, haux _ hclassif, haux _ hsegm⟩
  · rw [List.all_eq_true]
    intro kv hkv
    have hl := Merge.lookup_of_mem S kv.1 kv.2 hnd hkv
    obtain ⟨v', hv', _, _⟩ := hsome kv.1 kv.2 hl
    exact (List.all_eq_true.1 hkeys) (kv.1, v') (Merge.mem_of_lookup S' kv.1 v' hv')
  · obtain ⟨p, hp, hf⟩ := (imgOf_some files S' im).1 himg
    cases hl : Dict.lookup S "img" with
    | none => rw [hnone _ hl, hdimg] at hp; cases hp
    | some u =>
      obtain ⟨v', hv', ho, hlf⟩ := hsome _ u hl
      rw [hp] at hv'; cases hv'
      cases huo : u.isObj
      · have := rewriteLeaf_inv (hlf huo).symm (by intro f; simp)
        subst this
        simp [imU, hl, fileOf, hf]
      · have := ho huo; simp [JVal.isObj] at this
  · cases hl : Dict.lookup S "nodata" with
    | none => simp [getU, hl, nodataVerdict]
    | some u =>
      obtain ⟨v', hv', ho, hlf⟩ := hsome _ u hl
      rw [hv'] at hnod
      simp only at hnod
      cases huo : u.isObj
      · rw [hlf huo] at hnod
        simp [getU, hl, nodataVerdict_accept, hnod]
      · have := ho huo
        cases v' <;> simp [JVal.isObj] at this
        simp [nodataOk] at hnod

theorem rangeOk_not_reject (files : Files) (im : FileInfo) (v : JVal) (h : rangeOk v = true) :
    leftDispVerdict files (some im) (some v) ≠ .reject := by
  cases v with
  | list items =>
    match items with
    | [a, b] =>
      cases a <;> cases b <;> simp [rangeOk, intOf?] at h <;> simp [leftDispVerdict, intOf?, ofBool, h]
    | [] => simp [rangeOk] at h
    | [_] => simp [rangeOk] at h
    | _ :: _ :: _ :: _ => simp [rangeOk] at h
  | _ => simp [rangeOk] at h

/-- what a completed `disp` tells about the user's `disp` (under `strictMerge`) -/
theorem disp_back (d S S' : Dict) (hnd : (Dict.keys S).Nodup)
    (hdl : ∀ k v, Dict.lookup d k = some v → v.isObj = false)
    (h : updateConf true d S = .ok S') (v : JVal) (hv : Dict.lookup S' "disp" = some v)
    (hvo : v.isObj = false) (hvf : ∀ f, v ≠ .float f) :
    (Dict.lookup S "disp" = some v ∧ getU S "disp" = some v) ∨
    (Dict.lookup S "disp" = none ∧ getU S "disp" = none ∧ Dict.lookup d "disp" = some v) := by
  obtain ⟨hnone, hsome⟩ := side_rel_true d S S' hnd hdl h
  cases hl : Dict.lookup S "disp" with
  | none =>
    right
    refine ⟨rfl, by simp [getU, hl], ?_⟩
    rw [← hnone _ hl, hv]
  | some u =>
    left
    obtain ⟨v', hv', ho, hlf⟩ := hsome _ u hl
    rw [hv] at hv'; cases hv'
    cases huo : u.isObj
    · have := rewriteLeaf_inv (hlf huo).symm hvf
      subst this
      exact ⟨rfl, by simp [getU, hl, ← hlf huo]⟩
    · rw [ho huo] at hvo; cases hvo

/-- **documented-as-refused ⇒ refused** (with the source's `update_conf`, which refuses a dictionary
    given where the default is not one): an `input` section the documentation rejects
    (`inputVerdict = reject`: a missing / extra section or key, an unreadable image, different sizes,
    a `nodata` that is not an integer or NaN, an auxiliary image that is not `None` / a readable image of
    the right size, a disparity that is not `[min, max]` in order or a well-formed grid, a right
    disparity that does not go with the left one, …) never passes `check_input_section`. -/
theorem refused_of_documented_reject (files : Files) (fl : MachineFlags) (hg : fl.strictMerge = true)
    (kvs : Dict) (hwf : NodupSection kvs) (h : inputVerdict files (some (.obj kvs)) = .reject) (out : Dict) :
    checkInputSection files fl inputSchemas [("input", .obj kvs)] ≠ .ok out := by
  intro hok
  obtain ⟨L, R, L', R', hL, hR, hkk, hLm, hRm, hform, _⟩ :=
    (checkInputSection_ok_iff files fl kvs out hwf.1).1 hok
  rw [hg] at hLm hRm
  obtain ⟨iml, imr, himl', himr'⟩ := formOk_img hform
  simp only [formOk, himl', himr', Bool.and_eq_true, beq_iff_eq] at hform
  obtain ⟨⟨⟨⟨hw, hh⟩, hLb⟩, hRb⟩, hdisp⟩ := hform
  obtain ⟨l1, l2, l3, l4, l5, l6⟩ := side_not_reject files dL L L' (Or.inl rfl) (hwf.2 _ _ hL) hLm iml himl' hLb
  obtain ⟨r1, r2, r3, r4, r5, r6⟩ := side_not_reject files dR R R' (Or.inr rfl) (hwf.2 _ _ hR) hRm imr himr' hRb
  -- the disparities
  have hd : leftDispVerdict files (some iml) (getU L "disp") ≠ .reject ∧
      rightDispVerdict files (some imr) (leftIsGridU L) (getU R "disp") ≠ .reject := by
    have hrnull : Dict.lookup R' "disp" = some .null →
        rightDispVerdict files (some imr) (leftIsGridU L) (getU R "disp") ≠ .reject := by
      intro hr
      rcases disp_back dR R R' (hwf.2 _ _ hR) defaults_leaves.2 hRm .null hr rfl (by intro f; simp) with
        ⟨_, hgu⟩ | ⟨_, hgu, _⟩ <;> simp [hgu, rightDispVerdict]
    cases hld : Dict.lookup L' "disp" with
    | none => simp [hld, dispsOk] at hdisp
    | some ld =>
      cases hrd : Dict.lookup R' "disp" with
      | none => cases ld <;> simp [hld, hrd, dispsOk] at hdisp
      | some rd =>
        rw [hld, hrd] at hdisp
        cases ld with
        | list items =>
          cases rd <;> simp [dispsOk] at hdisp
          rcases disp_back dL L L' (hwf.2 _ _ hL) defaults_leaves.1 hLm _ hld rfl (by intro f; simp) with
            ⟨_, hgu⟩ | ⟨_, _, hdd⟩
          · rw [hgu]
            exact ⟨rangeOk_not_reject files iml _ hdisp, hrnull hrd⟩
          · simp [dL, Dict.lookup] at hdd
        | str p =>
          rcases disp_back dL L L' (hwf.2 _ _ hL) defaults_leaves.1 hLm _ hld rfl (by intro f; simp) with
            ⟨hlu, hgu⟩ | ⟨_, _, hdd⟩
          · rw [hgu]
            cases rd <;> simp [dispsOk] at hdisp
            · exact ⟨by simp [leftDispVerdict, ofBool, hdisp], hrnull hrd⟩
            · rename_i q
              rcases disp_back dR R R' (hwf.2 _ _ hR) defaults_leaves.2 hRm _ hrd rfl (by intro f; simp) with
                ⟨_, hgr⟩ | ⟨_, _, hdd⟩
              · rw [hgr]
                have hlg : leftIsGridU L = true := by simp [leftIsGridU, hlu]
                exact ⟨by simp [leftDispVerdict, ofBool, hdisp.1], by simp [rightDispVerdict, ofBool, hlg, hdisp.2]⟩
              · simp [dR, Dict.lookup] at hdd
          · simp [dL, Dict.lookup] at hdd
        | _ => simp [dispsOk] at hdisp
  -- no clause rejects
  unfold inputVerdict at h
  rw [inputClauses_sides files kvs L R hL hR, foldl_and_reject] at h
  rcases h with h | ⟨c, hc, hcr⟩
  · cases h
  · simp only [sideClauses_eq, List.cons_append, List.nil_append, List.mem_cons, List.mem_nil_iff, or_false] at hc
    have hsec : kvs.all (fun kv => kv.1 == "left" || kv.1 == "right") = true := by
      rw [List.all_eq_true]; intro kv hkv
      rcases hkk kv hkv with e | e <;> simp [e]
    rcases hc with rfl | rfl | rfl | rfl | rfl | rfl | rfl | rfl | rfl | rfl | rfl | rfl | rfl | rfl | rfl | rfl
    · simp [hsec, ofBool] at hcr
    · simp only [l1] at hcr; simp [ofBool] at hcr
    · simp [l2, ofBool] at hcr
    · simp [l3] at hcr
    · simp [l2, l4] at hcr
    · simp [l2, l5] at hcr
    · simp [l2, l6] at hcr
    · simp only [l2] at hcr; exact hd.1 (by simpa using hcr)
    · simp only [r1] at hcr; simp [ofBool] at hcr
    · simp [r2, ofBool] at hcr
    · simp [r3] at hcr
    · simp [r2, r4] at hcr
    · simp [r2, r5] at hcr
    · simp [r2, r6] at hcr
    · simp only [r2] at hcr; exact hd.2 (by simpa using hcr)
    · simp [l2, r2, ofBool, hw, hh] at hcr


deriving instance DecidableEq for Except

/-! ### 6. The result; idempotence; the other forms; findings -/

theorem defaults_fixed : (∀ k v, Dict.lookup dL k = some v → rewriteLeaf v = v) ∧
    (∀ k v, Dict.lookup dR k = some v → rewriteLeaf v = v) := by
  constructor <;> intro k v h <;> simp only [dL, dR, Dict.lookup] at h <;>
    (repeat (split at h <;> try (cases h; rfl))) <;> cases h

/-- every leaf a merged side holds is in the form `update_conf` leaves alone -/
theorem merge_values_fixed (g : Bool) (d S S' : Dict) (hnd : (Dict.keys S).Nodup)
    (hdl : ∀ k v, Dict.lookup d k = some v → v.isObj = false)
    (hdf : ∀ k v, Dict.lookup d k = some v → rewriteLeaf v = v)
    (h : updateConf g d S = .ok S') (k : String) (v : JVal) (hv : Dict.lookup S' k = some v)
    (hvo : v.isObj = false) : rewriteLeaf v = v := by
  obtain ⟨_, hnone, hsome⟩ := Merge.updateConf_inv g S d S' hnd h
  cases hl : Dict.lookup S k with
  | none => rw [hnone k hl] at hv; exact hdf k v hv
  | some u =>
    obtain ⟨v', hv', hl'⟩ := hsome k u hl
    rw [hv] at hl'; cases hl'
    cases huo : u.isObj
    · rw [Merge.updateVal_leaf g _ u huo] at hv'
      cases hv'; exact Merge.rewriteLeaf_idem u
    · cases u <;> simp [JVal.isObj] at huo
      rename_i sub
      cases hd : Dict.lookup d k with
      | none =>
        rw [hd, Merge.updateVal_obj_none] at hv'
        cases hu : updateConf g [] sub <;> simp [hu, Except.map] at hv'
        rw [← hv'] at hvo; cases hvo
      | some dv =>
        rw [hd, Merge.updateVal_obj_other g dv sub (hdl k dv hd)] at hv'
        cases g
        · cases sub with
          | nil => simp at hv'; rw [← hv']; exact hdf k dv hd
          | cons kv rest => obtain ⟨k0, v0⟩ := kv; cases v0 <;> simp at hv'
        · simp at hv'

/-- the values of a side in a documented form are leaves -/
theorem formOk_leaves {files : Files} {L R : Dict} (h : formOk files L R = true)
    (hndL : (Dict.keys L).Nodup) (hndR : (Dict.keys R).Nodup) :
    (∀ kv ∈ L, kv.2.isObj = false) ∧ (∀ kv ∈ R, kv.2.isObj = false) := by
  obtain ⟨iml, imr, himl, himr⟩ := formOk_img h
  simp only [formOk, himl, himr, Bool.and_eq_true] at h
  obtain ⟨⟨⟨_, hLb⟩, hRb⟩, hd⟩ := h
  have side : ∀ (S : Dict) (im : FileInfo), (Dict.keys S).Nodup → imgOf files S = some im →
      sideBaseOk files S im = true → (∀ v, Dict.lookup S "disp" = some v → v.isObj = false) →
      ∀ kv ∈ S, kv.2.isObj = false := by
    intro S im hnd him hb hdisp kv hkv
    simp only [sideBaseOk, Bool.and_eq_true] at hb
    obtain ⟨⟨⟨⟨hkeys, hnod⟩, hmask⟩, hclassif⟩, hsegm⟩ := hb
    have hl := Merge.lookup_of_mem S kv.1 kv.2 hnd hkv
    have haux : ∀ k, Dict.lookup S k = some kv.2 → auxOk files im (Dict.lookup S k) = true → kv.2.isObj = false := by
      intro k hk ha
      rw [hk] at ha
      cases hv : kv.2 <;> simp [hv, auxOk, JVal.isObj] at ha ⊢
    rcases sideKeys_cases ((List.all_eq_true.1 hkeys) kv hkv) with e | e | e | e | e | e
    · obtain ⟨p, hp, _⟩ := (imgOf_some files S im).1 him
      rw [e, hp] at hl
      have : kv.2 = JVal.str p := by simpa using hl.symm
      rw [this]; rfl
    · rw [e] at hl; rw [hl] at hnod
      cases hv : kv.2 <;> simp [hv, nodataOk, JVal.isObj] at hnod ⊢
    · rw [e] at hl; exact hdisp _ hl
    · rw [e] at hl; exact haux _ hl hmask
    · rw [e] at hl; exact haux _ hl hclassif
    · rw [e] at hl; exact haux _ hl hsegm
  constructor
  · apply side L iml hndL himl hLb
    intro v hv
    rw [hv] at hd
    cases v <;> first | rfl | (cases hr : Dict.lookup R "disp" <;> simp [hr, dispsOk] at hd)
  · apply side R imr hndR himr hRb
    intro v hv
    rw [hv] at hd
    cases hl : Dict.lookup L "disp" with
    | none => simp [hl, dispsOk] at hd
    | some ld =>
      rw [hl] at hd
      cases v <;> first | rfl | (cases ld <;> simp [dispsOk] at hd)

theorem merged_keys_nodup (g : Bool) (d S S' : Dict) (hnd : (Dict.keys S).Nodup) (hd : (Dict.keys d).Nodup)
    (h : updateConf g d S = .ok S') : (Dict.keys S').Nodup := by
  obtain ⟨hk, _, _⟩ := Merge.updateConf_inv g S d S' hnd h
  rw [hk, List.nodup_append]
  refine ⟨hd, List.Pairwise.sublist List.filter_sublist hnd, ?_⟩
  intro a ha b hb hab
  subst hab
  have := (List.mem_filter.1 hb).2
  simp [ha] at this

/-- "`S'` is `S` completed with the defaults `d`": the defaults keep their place, the user's new
    keys follow in the user's order; a key the user omitted holds the default, a key the user gave
    holds the user's value (the three magic strings rewritten) -/
def Completed (d S S' : Dict) : Prop :=
  Dict.keys S' = Dict.keys d ++ (Dict.keys S).filter (fun k => !(Dict.keys d).contains k) ∧
  (∀ k, Dict.lookup S k = none → Dict.lookup S' k = Dict.lookup d k) ∧
  (∀ k u, Dict.lookup S k = some u → u.isObj = false → Dict.lookup S' k = some (rewriteLeaf u))

theorem completed_of_merge (g : Bool) (d S S' : Dict) (hnd : (Dict.keys S).Nodup)
    (h : updateConf g d S = .ok S') : Completed d S S' := by
  obtain ⟨hk, hnone, hsome⟩ := Merge.updateConf_inv g S d S' hnd h
  refine ⟨hk, hnone, ?_⟩
  intro k u hl huo
  obtain ⟨v', hv', hl'⟩ := hsome k u hl
  rw [Merge.updateVal_leaf g _ u huo] at hv'
  cases hv'; exact hl'

/-- **the result is the user's section completed with the documented defaults** (`nodata` −9999,
    `mask` / `classif` / `segm` `None`, right `disp` `None`): nothing else is in it; with the source's
    `update_conf` (`strictMerge`) every value the user gave is a leaf and is kept (rewritten) -/
theorem checkInputSection_completed {files : Files} {fl : MachineFlags} {kvs out : Dict}
    (hwf : NodupSection kvs)
    (h : checkInputSection files fl inputSchemas [("input", .obj kvs)] = .ok out) :
    ∃ L R L' R', Dict.lookup kvs "left" = some (.obj L) ∧ Dict.lookup kvs "right" = some (.obj R) ∧
      out = [("input", .obj [("left", .obj L'), ("right", .obj R')])] ∧
      Completed dL L L' ∧ Completed dR R R' ∧
      (fl.strictMerge = true → (∀ kv ∈ L, kv.2.isObj = false) ∧ (∀ kv ∈ R, kv.2.isObj = false)) := by
  obtain ⟨L, R, L', R', hL, hR, _, hLm, hRm, hform, hout⟩ := (checkInputSection_ok_iff files fl kvs out hwf.1).1 h
  have hndL := hwf.2 _ _ hL
  have hndR := hwf.2 _ _ hR
  refine ⟨L, R, L', R', hL, hR, hout, completed_of_merge _ dL L L' hndL hLm, completed_of_merge _ dR R R' hndR hRm, ?_⟩
  intro hg
  rw [hg] at hLm hRm
  obtain ⟨hlv, hrv⟩ := formOk_leaves hform (merged_keys_nodup true dL L L' hndL (by decide) hLm)
    (merged_keys_nodup true dR R R' hndR (by decide) hRm)
  have back : ∀ (d S S' : Dict), (Dict.keys S).Nodup → (∀ k v, Dict.lookup d k = some v → v.isObj = false) →
      updateConf true d S = .ok S' → (∀ kv ∈ S', kv.2.isObj = false) → ∀ kv ∈ S, kv.2.isObj = false := by
    intro d S S' hnd hdl hm hall kv hkv
    obtain ⟨_, hsome⟩ := side_rel_true d S S' hnd hdl hm
    obtain ⟨v', hv', ho, _⟩ := hsome kv.1 kv.2 (Merge.lookup_of_mem S kv.1 kv.2 hnd hkv)
    cases huo : kv.2.isObj
    · rfl
    · have := hall (kv.1, v') (Merge.mem_of_lookup S' kv.1 v' hv')
      rw [ho huo] at this; cases this
  exact ⟨back dL L L' hndL defaults_leaves.1 hLm hlv, back dR R R' hndR defaults_leaves.2 hRm hrv⟩

/-- **idempotence**: the section `check_input_section` returned, checked again, is returned unchanged -/
theorem checkInputSection_idempotent {files : Files} {fl : MachineFlags} {kvs out : Dict}
    (hwf : NodupSection kvs)
    (h : checkInputSection files fl inputSchemas [("input", .obj kvs)] = .ok out) :
    checkInputSection files fl inputSchemas out = .ok out := by
  obtain ⟨L, R, L', R', hL, hR, _, hLm, hRm, hform, hout⟩ := (checkInputSection_ok_iff files fl kvs out hwf.1).1 h
  have hndL' := merged_keys_nodup _ dL L L' (hwf.2 _ _ hL) (by decide) hLm
  have hndR' := merged_keys_nodup _ dR R R' (hwf.2 _ _ hR) (by decide) hRm
  obtain ⟨hlv, hrv⟩ := formOk_leaves hform hndL' hndR'
  have again : ∀ (d S S' : Dict), (Dict.keys S).Nodup → (Dict.keys S').Nodup →
      (∀ k v, Dict.lookup d k = some v → v.isObj = false) →
      (∀ k v, Dict.lookup d k = some v → rewriteLeaf v = v) →
      updateConf fl.strictMerge d S = .ok S' → (∀ kv ∈ S', kv.2.isObj = false) →
      updateConf fl.strictMerge d S' = .ok S' := by
    intro d S S' hnd hnd' hdl hdf hm hall
    obtain ⟨hk, _, _⟩ := Merge.updateConf_inv _ S d S' hnd hm
    apply Merge.updateConf_replace _ d S' _ hnd' hk
    intro k v hv
    have hvo := hall (k, v) (Merge.mem_of_lookup S' k v hv)
    rw [Merge.updateVal_leaf _ _ v hvo, merge_values_fixed _ d S S' hnd hdl hdf hm k v hv hvo]
  rw [hout]
  apply (checkInputSection_ok_iff files fl _ _ (by simp [Dict.keys])).2
  refine ⟨L', R', L', R', rfl, rfl, ?_, again dL L L' (hwf.2 _ _ hL) hndL' defaults_leaves.1 defaults_fixed.1 hLm hlv,
    again dR R R' (hwf.2 _ _ hR) hndR' defaults_leaves.2 defaults_fixed.2 hRm hrv, hform, rfl⟩
  intro kv hkv
  simp only [List.mem_cons, List.mem_nil_iff, or_false] at hkv
  rcases hkv with e | e <;> simp [e]


/-- **`check_input_section` accepts exactly the documented forms**: for every file table without a
    file called `NaN` / `inf` / `-inf`, with the source's `update_conf`, and every `input` dictionary
    (no key twice): accepted when the documentation's verdict is `accept`, refused when it is `reject`
    (nothing is claimed where the documentation is silent: a bool given for an integer) -/
theorem checkInputSection_agrees (files : Files) (hm : MagicFree files) (fl : MachineFlags)
    (hg : fl.strictMerge = true) (kvs : Dict) (hwf : NodupSection kvs) :
    C17.Agrees (C17.okOf (checkInputSection files fl inputSchemas [("input", .obj kvs)]))
      (inputVerdict files (some (.obj kvs))) := by
  cases hv : inputVerdict files (some (.obj kvs)) with
  | accept =>
    obtain ⟨out, h⟩ := accepted_of_documented files hm fl kvs hwf hv
    simp [C17.Agrees, C17.okOf, h]
  | reject =>
    have := refused_of_documented_reject files fl hg kvs hwf hv
    cases h : checkInputSection files fl inputSchemas [("input", .obj kvs)] with
    | ok out => exact absurd h (this out)
    | error e => simp [C17.Agrees, C17.okOf]
  | undecided => trivial

/-- the source's `update_conf` is the strict one -/
theorem generated_strictMerge : machineFlags.strictMerge = true := by decide

/-- the other forms `get_config_input` can deliver are refused: no `input` key … -/
theorem checkInputSection_no_input (files : Files) (fl : MachineFlags) :
    checkInputSection files fl inputSchemas [] = .error .key := by
  rw [checkInputSection_eq, Merge.updateConf_nil, generated_input_schemas.2.2.2.2.2.2.2.2]
  simp [validateInput, subscript, Dict.lookup, dL]

/-- … or an `input` that is not a dictionary -/
theorem checkInputSection_not_dict (files : Files) (fl : MachineFlags) (v : JVal) (hv : v.isObj = false) :
    checkInputSection files fl inputSchemas [("input", v)] = .error .type := by
  rw [checkInputSection_eq, generated_input_schemas.2.2.2.2.2.2.2.2, Merge.updateConf_cons]
  simp only [Dict.lookup, if_true, Merge.updateVal_leaf _ _ v hv, Dict.setKey, Merge.updateConf_nil]
  have h := Merge.rewriteLeaf_isObj v
  rw [hv] at h
  cases hr : rewriteLeaf v <;> simp [hr, JVal.isObj] at h <;> simp [validateInput, subscript, Dict.lookup]

theorem getConfigInput_forms (user : Dict) :
    getConfigInput user = [] ∨ ∃ v, getConfigInput user = [("input", v)] := by
  unfold getConfigInput
  cases Dict.lookup user "input" with
  | none => exact Or.inl rfl
  | some v => exact Or.inr ⟨v, rfl⟩

/-! #### Non-vacuity, and the hypotheses that cannot be dropped -/

def goodUser : Dict :=
  [("left", .obj [("img", .str "l.tif"), ("disp", .str "grid.tif"), ("nodata", .str "NaN"), ("mask", .null)]),
   ("right", .obj [("img", .str "r.tif"), ("disp", .str "grid.tif"), ("classif", .str "l.tif")])]

theorem fs_magicFree : MagicFree C17.fs := ⟨by decide, by decide, by decide⟩

theorem goodUser_nodup : NodupSection goodUser := by
  refine ⟨by decide, ?_⟩
  intro k S h
  simp only [goodUser, Dict.lookup] at h
  split at h
  · cases h; decide
  · split at h
    · cases h; decide
    · cases h

/-- the hypotheses of `accepted_of_documented` hold of a non-trivial section (grids on both sides,
    a `"NaN"` to rewrite, defaults to add), and the result is the completed section -/
example :
    inputVerdict C17.fs (some (.obj goodUser)) = .accept ∧
    checkInputSection C17.fs machineFlags inputSchemas [("input", .obj goodUser)] =
      .ok [("input", .obj [
        ("left", .obj [("nodata", .float .nan), ("mask", .null), ("classif", .null), ("segm", .null),
                       ("img", .str "l.tif"), ("disp", .str "grid.tif")]),
        ("right", .obj [("nodata", .int (-9999)), ("mask", .null), ("classif", .str "l.tif"), ("segm", .null),
                        ("disp", .str "grid.tif"), ("img", .str "r.tif")])])] := by decide

/-- … and those of `refused_of_documented_reject` of a section with a wrong right disparity -/
example :
    let bad : Dict := [("left", .obj [("img", .str "l.tif"), ("disp", .list [.int (-2), .int 2])]),
                       ("right", .obj [("img", .str "r.tif"), ("disp", .str "grid.tif")])]
    inputVerdict C17.fs (some (.obj bad)) = .reject ∧
    C17.okOf (checkInputSection C17.fs machineFlags inputSchemas [("input", .obj bad)]) = false := by decide

/-- **`strictMerge` cannot be dropped** (finding `empty_dict_for_defaulted_key`, repaired in the
    source): with the former `update_conf` an empty dictionary given for `nodata` is silently replaced
    by the default and the section — which the documentation rejects — is accepted -/
theorem empty_dict_counterexample :
    let user : Dict := [("left", .obj [("img", .str "l.tif"), ("disp", .list [.int (-2), .int 2]), ("nodata", .obj [])]),
                        ("right", .obj [("img", .str "r.tif")])]
    inputVerdict C17.fs (some (.obj user)) = .reject ∧
    C17.okOf (checkInputSection C17.fs { strictMerge := false } inputSchemas [("input", .obj user)]) = true ∧
    checkInputSection C17.fs { strictMerge := true } inputSchemas [("input", .obj user)] = .error .type := by
  decide

/-- **`MagicFree` cannot be dropped**: `update_conf` turns the strings `"NaN"`, `"inf"`, `"-inf"` into
    floats under every key, image paths included; an image file that is really called `NaN` is
    documented as acceptable (a path rasterio can open) and is refused (the real
    `check_input_section` raises `CheckerError` on such a file, as the model does) -/
theorem magic_filename_counterexample :
    let files : Files := fun p =>
      if p = "NaN" then some { width := 6, height := 5, count := 1 }
      else if p = "r.tif" then some { width := 6, height := 5, count := 1 } else none
    let user : Dict := [("left", .obj [("img", .str "NaN"), ("disp", .list [.int (-2), .int 2])]),
                        ("right", .obj [("img", .str "r.tif")])]
    inputVerdict files (some (.obj user)) = .accept ∧
    checkInputSection files machineFlags inputSchemas [("input", .obj user)] = .error .checker := by
  decide

/-- where the documentation is silent the code decides either way: `nodata: true` is refused,
    `disp: [true, 2]` is accepted -/
example :
    let u1 : Dict := [("left", .obj [("img", .str "l.tif"), ("disp", .list [.int (-2), .int 2]), ("nodata", .bool true)]),
                      ("right", .obj [("img", .str "r.tif")])]
    let u2 : Dict := [("left", .obj [("img", .str "l.tif"), ("disp", .list [.bool true, .int 2])]),
                      ("right", .obj [("img", .str "r.tif")])]
    inputVerdict C17.fs (some (.obj u1)) = .undecided ∧
    C17.okOf (checkInputSection C17.fs machineFlags inputSchemas [("input", .obj u1)]) = false ∧
    inputVerdict C17.fs (some (.obj u2)) = .undecided ∧
    C17.okOf (checkInputSection C17.fs machineFlags inputSchemas [("input", .obj u2)]) = true := by decide

end Pandora.C17W
