/-
  C17 — whole-function theorems for `check_input_section`, for the model `Model/Config.lean`
  instantiated with the input schemas and defaults regenerated from `pandora/check_configuration.py`
  (`Generated/Schemas.lean`), against the specification `Model/InputSpec.lean` (`inputVerdict`).

  `Properties/C17.lean` proves the pieces (every schema entry for all values, both custom checks).
  Here they are wired together:

    1. `check_input_section` = `update_conf(defaults, user)` followed by a validation of the merged
       section (`checkInputSection_eq`, `validateInput`)
    2. the schemas of the source, entry by entry, for ALL values (`*_entry` lemmas on the literal
       schema terms; `generated_input_schemas` ties them to the generated tables)
    3. the validation of a completed section, as a declarative predicate (`formOk`,
       `validateInput_ok_iff`)
    4. the merge of the two sides with the documented defaults (`mergeSide_*`)
    5. `checkInputSection_ok_iff` (accepted ⇔ both sides are dictionaries, nothing else is given, the
       merges succeed and the completed section has a documented form; the result is the completed
       section), `checkInputSection_completed` (the result is the user's section completed with the
       documented defaults), `checkInputSection_idempotent`
    6. against the documentation: `accepted_of_documented`, `refused_of_documented_reject`
       (`inputVerdict`), with the two places where a hypothesis is needed shown necessary by
       counterexamples
-/
import PandoraModel.Properties.C17
import PandoraModel.Lemmas.ConfigMerge

namespace Pandora.C17W
open Pandora Pandora.Config Pandora.ConfigSpec Pandora.InputSpec Pandora.Generated.Schemas

/-! ### 1. Merge, then validate -/

/-- the part of `check_input_section` that follows `update_conf` -/
def validateInput (files : Files) (sch : InputSchemas) (cfg : Dict) : Except Err Dict :=
  match subscript (.obj cfg) "input" with
  | .error e => .error e
  | .ok input =>
    match subscript input "left", subscript input "right" with
    | .error e, _ => .error e
    | .ok left, rightR =>
      match subscript left "disp" with
      | .error e => .error e
      | .ok ldisp =>
        let sel : Except Err (List (String × Bool × Schema) × List (String × Bool × Schema)) :=
          if ldisp.isList then .ok (sch.integerLeft, sch.integerRight)
          else
            match rightR with
            | .error e => .error e
            | .ok right =>
              match subscript right "disp" with
              | .error e => .error e
              | .ok rdisp =>
                if rdisp.isStr then .ok (sch.gridGridLeft, sch.gridGridRight)
                else .ok (sch.gridNoneLeft, sch.gridNoneRight)
        match sel with
        | .error e => .error e
        | .ok (sl, sr) =>
          let schema : Schema := .dict [("input", false, .dict [
            ("left", false, .dict (schemaUpdate sch.baseLeft sl)),
            ("right", false, .dict (schemaUpdate sch.baseRight sr))])]
          if !(Schema.accepts (fileOracle files) schema (.obj cfg)) then .error .checker
          else
            match rightR with
            | .error e => .error e
            | .ok right =>
              match subscript left "img", subscript right "img", subscript right "disp" with
              | .ok limg, .ok rimg, .ok rdisp =>
                match checkDisparitiesFromInput files ldisp limg with
                | .error e => .error e
                | .ok () =>
                  match checkDisparitiesFromInput files rdisp rimg with
                  | .error e => .error e
                  | .ok () =>
                    match checkImages files left right with
                    | .error e => .error e
                    | .ok () => .ok cfg
              | _, _, _ => .error .other

theorem checkInputSection_eq (files : Files) (fl : MachineFlags) (sch : InputSchemas) (user : Dict) :
    checkInputSection files fl sch user =
      match updateConf fl.strictMerge sch.defaults user with
      | .error e => .error e
      | .ok cfg => validateInput files sch cfg := by
  unfold checkInputSection validateInput
  rfl

/-! ### 2. The schemas of the source -/

def imgS : Schema := .all [.type .str, .oracle "rasterio_can_open_mandatory"]
def nodataS : Schema := .any [.type .int, .func (.and (.npIsscalar .var) (.npIsnan .var))]
def auxS : Schema := .all [.any [.type .str, .func (.isNone .var)], .oracle "rasterio_can_open"]
def rangeS : Schema := .all [.listOf [.type .int, .type .int], .func (.cmp .eq (.len .var) (.lit (.int 2)))]
def gridS : Schema := .all [.type .str, .oracle "rasterio_can_open"]
def noneS : Schema := .func (.isNone .var)

def baseEntries : List (String × Bool × Schema) :=
  [("img", false, imgS), ("nodata", false, nodataS), ("mask", false, auxS), ("classif", false, auxS),
   ("segm", false, auxS)]

/-- the documented defaults of the two sides -/
def dL : Dict := [("nodata", .int (-9999)), ("mask", .null), ("classif", .null), ("segm", .null)]
def dR : Dict := [("nodata", .int (-9999)), ("mask", .null), ("classif", .null), ("segm", .null), ("disp", .null)]

/-- what the source says (regenerated on every run) is what the lemmas below are about: the five
    common entries, the three disparity completions selected by the type of the disparities, and
    the defaults `nodata` −9999, `mask` / `classif` / `segm` `None`, right `disp` `None` -/
theorem generated_input_schemas :
    inputSchemas.baseLeft = baseEntries ∧ inputSchemas.baseRight = baseEntries ∧
    inputSchemas.integerLeft = [("disp", false, rangeS)] ∧ inputSchemas.integerRight = [("disp", false, noneS)] ∧
    inputSchemas.gridNoneLeft = [("disp", false, gridS)] ∧ inputSchemas.gridNoneRight = [("disp", false, noneS)] ∧
    inputSchemas.gridGridLeft = [("disp", false, gridS)] ∧ inputSchemas.gridGridRight = [("disp", false, gridS)] ∧
    inputSchemas.defaults = [("input", .obj [("left", .obj dL), ("right", .obj dR)])] := by decide

theorem schemaUpdate_disp (s : Schema) :
    schemaUpdate baseEntries [("disp", false, s)] = baseEntries ++ [("disp", false, s)] := by
  simp [schemaUpdate, baseEntries]

macro "entry_simp" : tactic => `(tactic|
  simp [imgS, nodataS, auxS, rangeS, gridS, noneS, Schema.accepts, Schema.acceptsAll, Schema.acceptsAny,
    Schema.keptByOr, Schema.acceptsZip, PyType.isInstance, PyType.isExactly, Expr.holds, Expr.eval, JVal.truthy,
    JVal.isNull, JVal.isList, JVal.isObj, JVal.isStr, fileOracle, npIsnanTruth, npArray, fIsNan, npIsscalarVal,
    pyCmp, pyEq, JVal.toNum?, Num.eq])

/-- `img`: a string naming a file rasterio can open -/
def imgSchemaOk (files : Files) : Option JVal → Bool
  | some (.str p) => (files p).isSome
  | _ => false

theorem img_entry (files : Files) (v : JVal) :
    Schema.accepts (fileOracle files) imgS v = imgSchemaOk files (some v) := by
  cases v <;> entry_simp <;> (try simp [imgSchemaOk])

theorem all2 (o : Oracle) (a b : Schema) (v : JVal) :
    Schema.accepts o (.all [a, b]) v = (Schema.accepts o a v && Schema.accepts o b v) := by
  conv => lhs; rw [Schema.accepts]
  simp [Schema.acceptsAll]

theorem func_accepts (o : Oracle) (e : Expr) (v : JVal) : Schema.accepts o (.func e) v = e.holds v := by
  rw [Schema.accepts]

theorem listOf_not_list (o : Oracle) (l : List Schema) (v : JVal) (h : v.isList = false) :
    Schema.accepts o (.listOf l) v = false := by
  cases v <;> simp [JVal.isList] at h <;> rw [Schema.accepts] <;> intro items h <;> cases h

/-- `nodata`: an integer or NaN — for ALL values: a list holding NaN is refused (the source tests
    `np.isscalar(x) and np.isnan(x)`), and so is a bool (`Or` keeps the alternatives of exactly the
    value's type: `True` is not tried against `int`) -/
def nodataOk : JVal → Bool
  | .int _ => true
  | .float .nan => true
  | _ => false

theorem nodata_entry (o : Oracle) (v : JVal) : Schema.accepts o nodataS v = nodataOk v := by
  cases v <;> entry_simp <;> (try simp [nodataOk])
  rename_i f; cases f <;> simp [nodataOk]

/-- `mask` / `classif` / `segm`: `None`, or a string that is `"none"` or names a readable file -/
def auxSchemaOk (files : Files) : Option JVal → Bool
  | some .null => true
  | some (.str p) => p == "none" || (files p).isSome
  | _ => false

theorem aux_entry (files : Files) (v : JVal) :
    Schema.accepts (fileOracle files) auxS v = auxSchemaOk files (some v) := by
  cases v <;> entry_simp <;> (try simp [auxSchemaOk])

theorem none_entry (o : Oracle) (v : JVal) : Schema.accepts o noneS v = v.isNull := by
  cases v <;> entry_simp

theorem grid_entry (files : Files) (v : JVal) :
    Schema.accepts (fileOracle files) gridS v = (auxSchemaOk files (some v) && v.isStr) := by
  cases v <;> entry_simp <;> (try simp [auxSchemaOk])

/-- `[int, int]` with `len(x) == 2`: exactly the two-element lists of integers (bools included) -/
def twoInts : JVal → Bool
  | .list [a, b] => (intOf? a).isSome && (intOf? b).isSome
  | _ => false

theorem range_entry (o : Oracle) (v : JVal) : Schema.accepts o rangeS v = twoInts v := by
  rw [rangeS, all2, func_accepts]
  cases v with
  | list items =>
    rw [C17.accepts_int_int o items]
    have hlen : (Expr.cmp .eq (.len .var) (.lit (.int 2))).holds (.list items) = decide (items.length = 2) := by
      simp [Expr.holds, Expr.eval, pyCmp, pyEq, JVal.toNum?, Num.eq, JVal.truthy]
      omega
    rw [hlen]
    match items with
    | [] => simp [twoInts]
    | [a] => simp [twoInts]
    | [a, b] => cases a <;> cases b <;> simp [twoInts, C17.allInts, intOf?]
    | a :: b :: c :: rest => simp [twoInts]
  | null => rw [listOf_not_list _ _ _ rfl]; rfl
  | bool _ => rw [listOf_not_list _ _ _ rfl]; rfl
  | int _ => rw [listOf_not_list _ _ _ rfl]; rfl
  | float _ => rw [listOf_not_list _ _ _ rfl]; rfl
  | str _ => rw [listOf_not_list _ _ _ rfl]; rfl
  | obj _ => rw [listOf_not_list _ _ _ rfl]; rfl

/-! ### 3. The validation of a completed section -/

theorem top_accepts_iff (o : Oracle) (sL sR : List (String × Bool × Schema)) (I : Dict) :
    Schema.accepts o (.dict [("input", false, .dict [("left", false, .dict sL), ("right", false, .dict sR)])])
      (.obj [("input", .obj I)]) = true ↔
    ((∃ lv, Dict.lookup I "left" = some lv ∧ Schema.accepts o (.dict sL) lv = true) ∧
     (∃ rv, Dict.lookup I "right" = some rv ∧ Schema.accepts o (.dict sR) rv = true) ∧
     ∀ kv ∈ I, kv.1 = "left" ∨ kv.1 = "right") := by
  rw [Merge.dict_accepts_iff]
  simp only [List.mem_singleton, forall_eq, Dict.lookup, if_true, exists_eq_left, and_true]
  rw [Merge.dict_accepts_iff]
  simp only [List.mem_cons, List.mem_nil_iff, or_false, forall_eq_or_imp, forall_eq, exists_eq_or_imp,
    exists_eq_left]
  constructor
  · intro ⟨⟨h1, h2⟩, h3⟩
    refine ⟨?_, ?_, fun kv hkv => ?_⟩
    · cases hl : Dict.lookup I "left" with
      | none => simp [hl] at h1
      | some lv => simp only [hl] at h1; exact ⟨lv, rfl, h1⟩
    · cases hl : Dict.lookup I "right" with
      | none => simp [hl] at h2
      | some rv => simp only [hl] at h2; exact ⟨rv, rfl, h2⟩
    · rcases h3 kv hkv with h | h
      · exact Or.inl h.symm
      · exact Or.inr h.symm
  · intro ⟨⟨lv, hl, hla⟩, ⟨rv, hr, hra⟩, h3⟩
    refine ⟨⟨by simp only [hl]; exact hla, by simp only [hr]; exact hra⟩, fun kv hkv => ?_⟩
    rcases h3 kv hkv with h | h
    · exact Or.inl h.symm
    · exact Or.inr h.symm

def optAccepts (o : Oracle) (s : Schema) : Option JVal → Bool
  | some v => Schema.accepts o s v
  | none => false

/-- the schema of one side (five common entries + the selected `disp` entry) on a dictionary -/
theorem side_accepts_iff (files : Files) (ds : Schema) (S : Dict) :
    Schema.accepts (fileOracle files) (.dict (baseEntries ++ [("disp", false, ds)])) (.obj S) = true ↔
      (imgSchemaOk files (Dict.lookup S "img") = true ∧
       optAccepts (fileOracle files) nodataS (Dict.lookup S "nodata") = true ∧
       auxSchemaOk files (Dict.lookup S "mask") = true ∧
       auxSchemaOk files (Dict.lookup S "classif") = true ∧
       auxSchemaOk files (Dict.lookup S "segm") = true ∧
       optAccepts (fileOracle files) ds (Dict.lookup S "disp") = true ∧
       S.all (fun kv => sideKeys.contains kv.1) = true) := by
  rw [Merge.dict_accepts_iff']
  simp only [baseEntries, List.cons_append, List.nil_append, List.mem_cons, List.mem_nil_iff, or_false,
    forall_eq_or_imp, forall_eq, exists_eq_or_imp, exists_eq_left]
  have e1 : Merge.entryOk (fileOracle files) S ("img", false, imgS) = true ↔
      imgSchemaOk files (Dict.lookup S "img") = true := by
    unfold Merge.entryOk
    cases Dict.lookup S "img" with
    | none => simp [imgSchemaOk]
    | some v => simp only [img_entry]
  have e2 : ∀ k, Merge.entryOk (fileOracle files) S (k, false, auxS) = true ↔
      auxSchemaOk files (Dict.lookup S k) = true := by
    intro k
    unfold Merge.entryOk
    cases Dict.lookup S k with
    | none => simp [auxSchemaOk]
    | some v => simp only [aux_entry]
  have e3 : ∀ (s : Schema) k, Merge.entryOk (fileOracle files) S (k, false, s) = true ↔
      optAccepts (fileOracle files) s (Dict.lookup S k) = true := by
    intro s k
    unfold Merge.entryOk
    cases Dict.lookup S k <;> simp [optAccepts]
  rw [e1, e2, e2, e2, e3, e3]
  simp only [and_assoc]
  refine and_congr_right (fun _ => and_congr_right (fun _ => and_congr_right (fun _ => and_congr_right (fun _ =>
    and_congr_right (fun _ => and_congr_right (fun _ => ?_))))))
  simp only [List.all_eq_true, sideKeys, List.contains_eq_mem, List.mem_cons, List.mem_nil_iff, or_false,
    decide_eq_true_eq]
  constructor
  · intro h kv hkv
    rcases h kv hkv with h | h | h | h | h | h <;> simp [← h]
  · intro h kv hkv
    rcases h kv hkv with h | h | h | h | h | h <;> simp [h]

/-- the file `img` of a side names -/
def imgOf (files : Files) (S : Dict) : Option FileInfo :=
  match Dict.lookup S "img" with
  | some (.str p) => files p
  | _ => none

/-- `mask` / `classif` / `segm` of a completed side: `None`, or a readable image of the size of `img` -/
def auxOk (files : Files) (im : FileInfo) : Option JVal → Bool
  | some .null => true
  | some (.str p) =>
    match files p with
    | some a => a.width == im.width && a.height == im.height
    | none => false
  | _ => false

/-- `[min, max]`: exactly two integers (Python: bools too), `min ≤ max` -/
def rangeOk : JVal → Bool
  | .list [a, b] =>
    match intOf? a, intOf? b with
    | some x, some y => decide (x ≤ y)
    | _, _ => false
  | _ => false

/-- the documented pairs of disparities: `[min, max]` / `None`; grid / `None`; grid / grid -/
def dispsOk (files : Files) (iml imr : FileInfo) : Option JVal → Option JVal → Bool
  | some (.list items), some .null => rangeOk (.list items)
  | some (.str p), some .null => gridOk files (some iml) p
  | some (.str p), some (.str q) => gridOk files (some iml) p && gridOk files (some imr) q
  | _, _ => false

def sideBaseOk (files : Files) (S : Dict) (im : FileInfo) : Bool :=
  S.all (fun kv => sideKeys.contains kv.1) &&
  (match Dict.lookup S "nodata" with | some v => nodataOk v | none => false) &&
  auxOk files im (Dict.lookup S "mask") && auxOk files im (Dict.lookup S "classif") &&
  auxOk files im (Dict.lookup S "segm")

/-- **the documented forms of a completed input section** (every key present): both images
    readable and of the same size; on each side only the six documented keys, `nodata` an integer
    or NaN, `mask` / `classif` / `segm` `None` or a readable image of the size of the side's image;
    the disparities `[min, max]` (two integers in order) with no right disparity, or a grid (readable,
    two bands, the image's size, min ≤ max everywhere) with no right disparity or a right grid -/
def formOk (files : Files) (L R : Dict) : Bool :=
  match imgOf files L, imgOf files R with
  | some iml, some imr =>
    (iml.width == imr.width && iml.height == imr.height) &&
    sideBaseOk files L iml && sideBaseOk files R imr &&
    dispsOk files iml imr (Dict.lookup L "disp") (Dict.lookup R "disp")
  | _, _ => false

/-- the custom checks that follow the schema validation -/
def tailChecks (files : Files) (L R : Dict) (ld rd : JVal) : Except Err Unit :=
  match Dict.lookup L "img", Dict.lookup R "img" with
  | some limg, some rimg =>
    match checkDisparitiesFromInput files ld limg with
    | .error e => .error e
    | .ok () =>
      match checkDisparitiesFromInput files rd rimg with
      | .error e => .error e
      | .ok () => checkImages files (.obj L) (.obj R)
  | _, _ => .error .other

def selL (ld : JVal) : Schema := if ld.isList then rangeS else gridS
def selR (ld rd : JVal) : Schema := if ld.isList then noneS else if rd.isStr then gridS else noneS

def topSchema (dsL dsR : Schema) : Schema :=
  .dict [("input", false, .dict [("left", false, .dict (baseEntries ++ [("disp", false, dsL)])),
                                  ("right", false, .dict (baseEntries ++ [("disp", false, dsR)]))])]



theorem tail_eq (files : Files) (I L R : Dict) (ld rd : JVal) :
    (match
          (match Dict.lookup L "img" with
          | some x => Except.ok x
          | none => Except.error Err.key : Except Err JVal),
          (match Dict.lookup R "img" with
          | some x => Except.ok x
          | none => Except.error Err.key : Except Err JVal),
          (Except.ok rd : Except Err JVal) with
        | Except.ok limg, Except.ok rimg, Except.ok rdisp =>
          match checkDisparitiesFromInput files ld limg with
          | Except.error e => Except.error e
          | Except.ok PUnit.unit =>
            match checkDisparitiesFromInput files rdisp rimg with
            | Except.error e => Except.error e
            | Except.ok PUnit.unit =>
              match checkImages files (JVal.obj L) (JVal.obj R) with
              | Except.error e => Except.error e
              | Except.ok PUnit.unit => Except.ok [("input", JVal.obj I)]
        | _, _, _ => Except.error Err.other) =
      match tailChecks files L R ld rd with
      | Except.error e => Except.error e
      | Except.ok PUnit.unit => Except.ok [("input", JVal.obj I)] := by
  unfold tailChecks
  cases Dict.lookup L "img" <;> cases Dict.lookup R "img" <;> simp
  rename_i limg rimg
  cases checkDisparitiesFromInput files ld limg <;> simp
  cases checkDisparitiesFromInput files rd rimg <;> simp

/-- the validation, once both sides are known to be dictionaries holding a `disp` -/
theorem validate_eq (files : Files) (I L R : Dict) (ld rd : JVal)
    (hL : Dict.lookup I "left" = some (.obj L)) (hR : Dict.lookup I "right" = some (.obj R))
    (hld : Dict.lookup L "disp" = some ld) (hrd : Dict.lookup R "disp" = some rd) :
    validateInput files inputSchemas [("input", .obj I)] =
      if Schema.accepts (fileOracle files) (topSchema (selL ld) (selR ld rd)) (.obj [("input", .obj I)]) then
        match tailChecks files L R ld rd with
        | .error e => .error e
        | .ok () => .ok [("input", .obj I)]
      else .error .checker := by
  obtain ⟨g1, g2, g3, g4, g5, g6, g7, g8, _⟩ := generated_input_schemas
  unfold validateInput
  simp only [subscript, Dict.lookup, if_true, hL, hR, hld, hrd, g1, g2, g3, g4, g5, g6, g7, g8]
  by_cases hlist : ld.isList = true
  · simp only [hlist, if_true, selL, selR, topSchema, schemaUpdate_disp]
    split <;> simp_all <;> exact tail_eq files I L R ld rd
  · simp only [hlist, Bool.false_eq_true, if_false, selL, selR, topSchema]
    by_cases hstr : rd.isStr = true
    · simp only [hstr, if_true, schemaUpdate_disp]
      split <;> simp_all <;> exact tail_eq files I L R ld rd
    · simp only [hstr, Bool.false_eq_true, if_false, schemaUpdate_disp]
      split <;> simp_all <;> exact tail_eq files I L R ld rd

end Pandora.C17W
