/-
  C13 — the composition theorems of `C13Pipeline.lean` restated from a locality statement about the *cost stage*
  (matching cost followed by the aggregation) instead of one about the aggregation step alone.

  `Local.comp` adds the cones of two steps; for an aggregation that reads its two inputs with different radii
  (cross-based aggregation reads the images within `armBound + max 1 off` of the pixel but the cost rows only within
  `armBound`) the sum is not tight: the cost stage `matching cost ; cbca` has the cone
  `armBound + max 1 off ≤ w/2 + armBound + 1` (columns extended by the interval), smaller than
  `mcCone + cbcaCone`.  The theorems below take any cone `Rc` for which the cost stage is local and carry it through
  winner-takes-all, refinement, the median filter and cross-checking exactly as `C13Pipeline.lean` does.
-/
import PandoraModel.Properties.C13Flags

namespace Pandora.C13
open Pandora Pandora.Locality

theorem wtaStage_local_of_cost (C : PipeCfg) {agg : AggStep} {Rc : Cone} (hC : Local Rc (costStage C agg)) :
    Local Rc (wtaStage C agg) := by
  have h := Local.comp hC (wtaStep_local C.isMax C.disps C.invalid)
  refine Local.mono ?_ h
  simp [Cone.add, Cone.zero]

theorem refineStage_local_of_cost (C : PipeCfg) {agg : AggStep} {Rc : Cone} (hC : Local Rc (costStage C agg))
    {flagL : Img McCell → Img Nat} {Rf : Cone} (hF : Local Rf flagL) (doRefine : Bool) :
    Local (Rc.sup Rf) (refineStage C agg flagL doRefine) := by
  have h1 := pairStep_local (pairStep_local hC (wtaStage_local_of_cost C hC)) hF
  have h2 := Local.bind h1 (fun x =>
      if doRefine then
        (Res.toOption (Refinement.refinePixel C.refine (mkPixIn x))).map fun o => (o.d, o.flag)
      else some (x.1.2, x.2))
  refine Local.mono ?_ h2
  simp [Cone.sup]

/-- the cone of the filtered disparity, from the cone `Rc` of the cost stage -/
def filterConeOf (C : PipeCfg) (Rc Rf : Cone) (doMedian : Bool) : Cone :=
  if doMedian then (Rc.sup Rf).add (Cone.square (C.fs / 2)) else Rc.sup Rf

theorem filterStage_local_of_cost (C : PipeCfg) {agg : AggStep} {Rc : Cone} (hC : Local Rc (costStage C agg))
    {flagL : Img McCell → Img Nat} {Rf : Cone} (hF : Local Rf flagL) (doRefine doMedian : Bool) :
    Local (filterConeOf C Rc Rf doMedian) (filterStage C agg flagL doRefine doMedian) := by
  have hr := refineStage_local_of_cost C hC hF doRefine
  cases doMedian with
  | false =>
    unfold filterConeOf filterStage
    simp only [Bool.false_eq_true, if_false]
    exact hr
  | true =>
    have hm := Local.comp hr (medianStep_local C.invalidMask C.fs)
    have h2 := Local.map hr (fun (x : Val × Nat) => x.2)
    have h := pairStep_local hm h2
    unfold filterConeOf filterStage medianStage
    simp only [if_true]
    refine Local.mono ?_ h
    simp [Cone.sup, Cone.add, Cone.square]

/-- the cone of the whole pipeline, from the cone `Rc` of the cost stage -/
def pipeConeOf (C : PipeCfg) (Rc Rf Rr : Cone) (doMedian : Bool) (CP : CrossCheck.Params) : Cone :=
  ((filterConeOf C Rc Rf doMedian).sup Rr).add (ccCone CP)

theorem ccStage_local_of_cost (C : PipeCfg) {agg : AggStep} {Rc : Cone} (hC : Local Rc (costStage C agg))
    {flagL : Img McCell → Img Nat} {Rf : Cone} (hF : Local Rf flagL) (doRefine doMedian : Bool)
    {dispR : Img McCell → Img Val} {Rr : Cone} (hR : Local Rr dispR)
    (V : CrossCheck.Variant) (CP : CrossCheck.Params) :
    Local (pipeConeOf C Rc Rf Rr doMedian CP) (ccStage C agg flagL doRefine doMedian dispR V CP) := by
  have h1 := pairStep_local (filterStage_local_of_cost C hC hF doRefine doMedian) hR
  have h2 := Local.map h1 (fun (x : (Val × Nat) × Val) => ((x.1.1, x.1.2, x.2) : CcCell))
  exact Local.comp h2 (ccStep_local V CP)

theorem rightDisp_local_of_cost (C' : PipeCfg) {agg : AggStep} {Rc : Cone} (hC : Local Rc (costStage C' agg))
    {flagR : Img McCell → Img Nat} {Rf : Cone} (hF : Local Rf flagR) (doRefine doMedian : Bool) :
    Local (filterConeOf C' Rc Rf doMedian) (rightDisp C' agg flagR doRefine doMedian) := by
  have h0 : Local Cone.zero (fun (a : Img McCell) q => (a q).map swapCell) := Local.map id_local swapCell
  have h := Local.map (Local.comp h0 (filterStage_local_of_cost C' hC hF doRefine doMedian)) (fun (x : Val × Nat) => x.1)
  refine Local.mono ?_ h
  simp [Cone.add, Cone.zero]

/-- **Crop run = whole run for the whole pipeline, from the cone of the cost stage.** -/
theorem pipeline_crop_eq_whole_of_cost (C : PipeCfg) {agg : AggStep} {Rc : Cone} (hC : Local Rc (costStage C agg))
    (hAe : Equivariant agg)
    {flagL : Img McCell → Img Nat} {Rf : Cone} (hF : Local Rf flagL) (hFe : Equivariant flagL)
    (doRefine doMedian : Bool)
    {dispR : Img McCell → Img Val} {Rr : Cone} (hR : Local Rr dispR) (hRe : Equivariant dispR)
    (V : CrossCheck.Variant) (CP : CrossCheck.Params)
    (ny nx r0 c0 ny' nx' : Nat) (scene : Nat → Nat → McCell) (hfit : r0 + ny' ≤ ny ∧ c0 + nx' ≤ nx) (p : Px)
    (hcone : ∀ q, inCone (pipeConeOf C Rc Rf Rr doMedian CP) (p.1 + r0, p.2 + c0) q →
      InRect r0 c0 ny' nx' q ∨ ¬ InImage ny nx q) :
    ccStage C agg flagL doRefine doMedian dispR V CP (toImg ny' nx' (cropArr r0 c0 scene)) p
      = ccStage C agg flagL doRefine doMedian dispR V CP (toImg ny nx scene) (p.1 + r0, p.2 + c0) :=
  crop_run_eq_whole (ccStage_local_of_cost C hC hF doRefine doMedian hR V CP)
    (ccStage_equivariant C hAe hFe doRefine doMedian hRe V CP) ny nx r0 c0 ny' nx' scene hfit p hcone

theorem filter_crop_eq_whole_of_cost (C : PipeCfg) {agg : AggStep} {Rc : Cone} (hC : Local Rc (costStage C agg))
    (hAe : Equivariant agg)
    {flagL : Img McCell → Img Nat} {Rf : Cone} (hF : Local Rf flagL) (hFe : Equivariant flagL)
    (doRefine doMedian : Bool)
    (ny nx r0 c0 ny' nx' : Nat) (scene : Nat → Nat → McCell) (hfit : r0 + ny' ≤ ny ∧ c0 + nx' ≤ nx) (p : Px)
    (hcone : ∀ q, inCone (filterConeOf C Rc Rf doMedian) (p.1 + r0, p.2 + c0) q →
      InRect r0 c0 ny' nx' q ∨ ¬ InImage ny nx q) :
    filterStage C agg flagL doRefine doMedian (toImg ny' nx' (cropArr r0 c0 scene)) p
      = filterStage C agg flagL doRefine doMedian (toImg ny nx scene) (p.1 + r0, p.2 + c0) :=
  crop_run_eq_whole (filterStage_local_of_cost C hC hF doRefine doMedian)
    (filterStage_equivariant C hAe hFe doRefine doMedian) ny nx r0 c0 ny' nx' scene hfit p hcone

/-- the statements of `C13Pipeline.lean` are the instance `Rc = costCone C Ra` -/
theorem filterConeOf_costCone (C : PipeCfg) (Ra Rf : Cone) (doMedian : Bool) :
    filterConeOf C (costCone C Ra) Rf doMedian = filterCone C Ra Rf doMedian := rfl

/-- **The documented radii from the cone of the cost stage**: cost stage within `w/2 + A` (columns extended by
    the interval), flags within it, right map within the mirrored cone, no `mask_border` offset in cross-checking,
    cross-checking searching the interval of the pipeline. -/
theorem pipeConeOf_documented (C : PipeCfg) (A : Nat) (CP : CrossCheck.Params) (hoff : CP.offset = 0)
    (Rc Rf Rr : Cone) (hRc : Cone.le Rc (costCone C (Cone.square A))) (hRf : Cone.le Rf (costCone C (Cone.square A)))
    (hRr : Cone.le Rr ⟨MC.half C.mc.w + A + C.fs / 2, MC.half C.mc.w + A + C.fs / 2,
      MC.half C.mc.w + A + C.fs / 2 + C.gmax.toNat, MC.half C.mc.w + A + C.fs / 2 + (-C.gmin).toNat⟩) :
    Cone.le (pipeConeOf C Rc Rf Rr true CP)
      ⟨MC.half C.mc.w + A + C.fs / 2, MC.half C.mc.w + A + C.fs / 2,
       MC.half C.mc.w + A + C.fs / 2 + max (-C.gmin).toNat C.gmax.toNat + (-CP.dmin).toNat,
       MC.half C.mc.w + A + C.fs / 2 + max (-C.gmin).toNat C.gmax.toNat + CP.dmax.toNat⟩ := by
  unfold Cone.le at *
  simp only [pipeConeOf, filterConeOf, costCone, mcCone, ccCone, Cone.add, Cone.sup, Cone.square,
    if_true, hoff] at *
  omega

end Pandora.C13
