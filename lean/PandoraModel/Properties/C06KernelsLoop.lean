/-
  C06 — the per-pixel body of `AbstractRefinement.loop_refinement`, REGENERATED from the Python source
  (`Generated/KernelsRefine.lean: loopRefinementPx`, written by translator/gen_kernels_refine.py), run with the regenerated
  `Vfit` / `Quadratic.refinement_method` (`Generated/Kernels.lean`) as its `method`, is the hand model `Refinement.refinePixel`
  — for every cost row, disparity (NaN included), flag word, interval, sub-pixel factor > 0, method and measure; the map over
  rows and columns is then `Refinement.loopRefinement`, and C06's clauses hold of the GENERATED pixel function.
-/
import PandoraModel.Properties.C06Kernels
import PandoraModel.Generated.KernelsRefine

set_option linter.unusedSimpArgs false
set_option linter.unusedVariables false

namespace Pandora.C06KernelsLoop
open Pandora Pandora.Refinement Pandora.PyExpr Pandora.C06 Pandora.C06Kernels Pandora.Generated.KernelsRefine

/-- what the loop leaves for the pixel, as the generated function returns it: `(itp_coeff, disp, mask)` at `[row, col]` -/
def encPix : Res PixOut → Res (Val × Val × Nat)
  | .ok o => .ok (o.coeff, o.d, o.flag)
  | .err e => .err e

theorem getG_eq (l : List Val) (i : Int) : getG l i = pyGet l i := rfl

@[simp] theorem vsub_nan_left (b : Val) : vsub .nan b = .nan := by cases b <;> rfl
@[simp] theorem vmul_nan_left (b : Val) : vmul .nan b = .nan := by cases b <;> rfl

@[simp] theorem bind_ok {α β : Type} (a : α) (f : α → Res β) : Generated.KernelsRefine.bind (.ok a) f = f a := rfl
@[simp] theorem bind_err {α β : Type} (e : Err) (f : α → Res β) : Generated.KernelsRefine.bind (.err e) f = .err e := rfl

theorem readAt_some (l : List Val) (i : Int) (v : Val) (h : pyGet l i = some v) : readAt l i = .ok v := by
  simp [readAt, getG_eq, h]
theorem readAt_none (l : List Val) (i : Int) (h : pyGet l i = none) : readAt l i = .err .outOfBounds := by
  simp [readAt, getG_eq, h]

/-- **the regenerated pixel body is the hand model's `refinePixel`** — for every cost row, disparity (NaN included), flag word,
    interval, sub-pixel factor > 0 (`x / subpixel` raises on 0), method and measure; the method it calls is the regenerated
    `Vfit` / `Quadratic.refinement_method`.  `hP`: the model follows the variant T11 reads in the source (`|=`, end test on the
    sample index, `alpha == 0` guard). -/
theorem loopRefinementPx_eq (P : Params) (hP : P.variant = sourceVariant) (hsp : 0 < P.subpix) (x : PixIn) :
    loopRefinementPx (kernelMethod P.method) x.costs x.d x.flag P.dmin P.dmax (P.subpix : Int) (measureOf P.isMax)
      = encPix (refinePixel P x) := by
  have hsp' : ((P.subpix : Int) : ℚ) ≠ 0 := by
    have : (0 : ℚ) < ((P.subpix : Int) : ℚ) := by exact_mod_cast hsp
    exact ne_of_gt this
  have hinv : ((x.flag &&& (963 : Nat)) != (0 : Nat)) = Flags.isInvalid x.flag := rfl
  unfold loopRefinementPx refinePixel
  simp only [hinv]
  cases hi : Flags.isInvalid x.flag
  · simp only [Bool.false_eq_true, if_false]
    cases hd : x.d with
    | nan => simp [intOf, encPix]
    | num dv =>
      simp only [vsub_num, vmul_num, intOf, bind_ok, Int.cast_natCast]
      cases hc : pyGet x.costs (pyInt ((dv - P.dmin) * (P.subpix : ℚ))) with
      | none => simp [encPix, readAt_none _ _ hc]
      | some c =>
        rw [readAt_some _ _ _ hc]
        cases c with
        | nan => simp [encPix, Val.isNan, hd]
        | num c1 =>
          simp only [Val.isNan, bind_ok]
          generalize pyInt ((dv - P.dmin) * (P.subpix : ℚ)) = dsp at hc ⊢
          have hE : notAtEnd P x.costs.length dv dsp = (dsp != 0 && dsp != (x.costs.length : Int) - 1) := by
            simp [notAtEnd, hP, sourceVariant, Generated.RefineCC.endTestOnIndex]
          have hO : ∀ v, addFlag P.variant.fixOr x.flag v
              = if Generated.KernelsRefine.flagUpdateIsOr then x.flag ||| v else x.flag + v := by
            intro v
            simp [addFlag, hP, sourceVariant, Generated.RefineCC.flagUpdateIsOr, Generated.KernelsRefine.flagUpdateIsOr]
          have hF : P.variant.fixFlat = sourceVariant.fixFlat := by rw [hP]
          simp only [Bool.not_false, if_true, hE]
          by_cases hg : (dsp != 0 && dsp != (x.costs.length : Int) - 1) = true
          · rw [if_pos (by first | exact hg | (rw [Bool.and_comm]; exact hg)), if_pos hg]
            cases h0 : pyGet x.costs (dsp - 1) with
            | none => simp [encPix, readAt_none _ _ h0]
            | some c0 =>
              rw [readAt_some _ _ _ h0]
              cases h2 : pyGet x.costs (dsp + 1) with
              | none => simp [encPix, readAt_none _ _ h2]
              | some c2 =>
                rw [readAt_some _ _ _ h2]
                simp only [bind_ok, kernelMethod_eq, measureOf_eq, hF]
                cases hr : runMethod sourceVariant.fixFlat P.method P.isMax c0 c1 c2 with
                | err e =>
                  have he := runMethod_err _ _ _ _ _ _ e hr
                  simp [encRes, liftPy, encPix, he]
                | ok r =>
                  have hne : P.subpix ≠ 0 := by omega
                  simp [encRes, encOut, liftPy, divBy, hsp', hne, encPix, hO, Generated.KernelsRefine.flagUpdateIsOr, Nat.or_assoc]
          · rw [if_neg (by first | exact hg | (rw [Bool.and_comm]; exact hg)), if_neg hg]
            simp [encPix, hO, Generated.KernelsRefine.flagUpdateIsOr, stoppedBit, Flags.stoppedInterpolation]
  · simp [encPix]

/-! ## The map over rows and columns -/

/-- the generated pixel function on one pixel of the model's grid, with the regenerated method -/
def pxGen (P : Params) (x : PixIn) : Res (Val × Val × Nat) :=
  loopRefinementPx (kernelMethod P.method) x.costs x.d x.flag P.dmin P.dmax (P.subpix : Int) (measureOf P.isMax)

def encRow : Res (List PixOut) → Res (List (Val × Val × Nat))
  | .ok os => .ok (os.map fun o => (o.coeff, o.d, o.flag))
  | .err e => .err e

def encGrid : Res (List (List PixOut)) → Res (List (List (Val × Val × Nat)))
  | .ok g => .ok (g.map (List.map fun o => (o.coeff, o.d, o.flag)))
  | .err e => .err e

theorem mapRes_encPix (f : PixIn → Res PixOut) (l : List PixIn) :
    mapRes (fun x => encPix (f x)) l = encRow (mapRes f l) := by
  induction l with
  | nil => rfl
  | cons x l ih =>
    simp only [mapRes, ih]
    cases f x with
    | err e => rfl
    | ok o => cases mapRes f l <;> rfl

theorem mapRes_encRow (f : List PixIn → Res (List PixOut)) (g : List (List PixIn)) :
    mapRes (fun r => encRow (f r)) g = encGrid (mapRes f g) := by
  induction g with
  | nil => rfl
  | cons r g ih =>
    simp only [mapRes, ih]
    cases f r with
    | err e => rfl
    | ok o => cases mapRes f g <;> rfl

/-- **the whole `prange` nest, read as a map of the generated pixel function, is the model's `loopRefinement`** (first error
    wins; that the parallel schedule cannot change the result — disjoint write sets — is C18's subject) -/
theorem loopRefinementGen_eq (P : Params) (hP : P.variant = sourceVariant) (hsp : 0 < P.subpix) (g : List (List PixIn)) :
    mapRes (mapRes (pxGen P)) g = encGrid (loopRefinement P g) := by
  have h1 : pxGen P = fun x => encPix (refinePixel P x) := funext (loopRefinementPx_eq P hP hsp)
  have h2 : mapRes (pxGen P) = fun r => encRow (mapRes (refinePixel P) r) := by
    funext r; rw [h1]; exact mapRes_encPix _ r
  rw [h2]
  exact mapRes_encRow _ g

/-! ## C06 for the generated pixel function -/

/-- **C06's clauses hold of the GENERATED pixel function** (`shift_le_half`, `inside_interval`, `only_bit3`, `invalid_untouched`,
    `stopped_iff`, the fitted-point clauses: everything `specOK` evaluates), under the hypotheses of `source_pixel_spec`: the
    function returns the `(itp_coeff, disp, mask)` of an output that satisfies the specification — or it is the unguarded flat
    `quadratic` raising (impossible today: the source carries the `alpha == 0` guard) -/
theorem generated_pixel_spec (P : Params) (x : PixIn) (tol : ℚ) (hP : P.variant = sourceVariant) (hsp : 0 < P.subpix)
    (hp : pixHyp P x = true) (htol : 0 ≤ tol)
    (hnt : P.method = .vfit → tiny ≤ tol ∨ notTinyCosts x.costs = true) :
    (∃ o, pxGen P x = .ok (o.coeff, o.d, o.flag) ∧ specOK P x o tol = true) ∨
    (P.method = .quadratic ∧ P.variant.fixFlat = false ∧ pxGen P x = .err .zeroDivision
      ∧ ∃ d c, classify P x = .refine d c c c) := by
  unfold pxGen
  rw [loopRefinementPx_eq P hP hsp x]
  rcases source_pixel_spec P x tol hP hp htol hnt with ⟨o, ho, hs⟩ | ⟨hm, hf, he, hc⟩
  · exact Or.inl ⟨o, by rw [ho]; rfl, hs⟩
  · exact Or.inr ⟨hm, hf, by rw [he]; rfl, hc⟩

/-- **invalid_untouched, directly on the generated function, for ANY method**: an invalid pixel keeps its disparity and flag
    word, its coefficient is NaN — no read, no call -/
theorem loopRefinementPx_invalid (method : Val → Val → Val → Val → String → PyRes (Val × Val × Int)) (cv : List Val)
    (d : Val) (flag : Nat) (dmin dmax : ℚ) (sp : Int) (measure : String) (h : Flags.isInvalid flag = true) :
    loopRefinementPx method cv d flag dmin dmax sp measure = .ok (.nan, d, flag) := by
  have hinv : ((flag &&& (963 : Nat)) != (0 : Nat)) = Flags.isInvalid flag := rfl
  unfold loopRefinementPx
  simp only [hinv, h, if_true]

/-- the same for the right-map approximation `loop_approximate_refinement` -/
theorem loopApproxRefinementPx_invalid (method : Val → Val → Val → Val → String → PyRes (Val × Val × Int))
    (cvRow : List (List Val)) (col : Int) (d : Val) (flag : Nat) (dmin dmax : ℚ) (sp : Int) (measure : String)
    (h : Flags.isInvalid flag = true) :
    loopApproxRefinementPx method cvRow col d flag dmin dmax sp measure = .ok (.nan, d, flag) := by
  have hinv : ((flag &&& (963 : Nat)) != (0 : Nat)) = Flags.isInvalid flag := rfl
  unfold loopApproxRefinementPx
  simp only [hinv, h, if_true]

/-! ## The right-map approximation -/

theorem readAt2_eq (m : List (List Val)) (i j : Int) :
    readAt2 m i j = match pyGet2 m i j with | some v => .ok v | none => .err .outOfBounds := by
  have hg : getG m i = pyGetG m i := rfl
  unfold readAt2 pyGet2
  rw [hg]
  cases pyGetG m i with
  | none => rfl
  | some l => simp only [readAt, getG_eq]; rfl

theorem readAt2_some (m : List (List Val)) (i j : Int) (v : Val) (h : pyGet2 m i j = some v) : readAt2 m i j = .ok v := by
  rw [readAt2_eq, h]
theorem readAt2_none (m : List (List Val)) (i j : Int) (h : pyGet2 m i j = none) : readAt2 m i j = .err .outOfBounds := by
  rw [readAt2_eq, h]

@[simp] theorem vadd_nan_right (a : Val) : vadd a .nan = .nan := by cases a <;> rfl
@[simp] theorem vneg_nan : vneg .nan = .nan := rfl

/-- **the regenerated pixel body of `loop_approximate_refinement` is the model's `approxPixel`** — for every row of cost rows,
    column, disparity (NaN included), flag word, interval, sub-pixel factor > 0, method and measure -/
theorem loopApproxRefinementPx_eq (P : Params) (hP : P.variant = sourceVariant) (hsp : 0 < P.subpix) (x : ApxIn) :
    loopApproxRefinementPx (kernelMethod P.method) x.rows (x.col : Int) x.d x.flag P.dmin P.dmax (P.subpix : Int)
        (measureOf P.isMax) = encPix (approxPixel P x) := by
  have hsp' : ((P.subpix : Int) : ℚ) ≠ 0 := by
    have : (0 : ℚ) < ((P.subpix : Int) : ℚ) := by exact_mod_cast hsp
    exact ne_of_gt this
  have hinv : ((x.flag &&& (963 : Nat)) != (0 : Nat)) = Flags.isInvalid x.flag := rfl
  unfold loopApproxRefinementPx approxPixel
  simp only [hinv]
  cases hi : Flags.isInvalid x.flag
  · simp only [Bool.false_eq_true, if_false]
    cases hd : x.d with
    | nan => simp [intOf, encPix]
    | num dv =>
      simp only [vneg_num, vsub_num, vmul_num, vadd_num, intOf, bind_ok, Int.cast_natCast, Int.one_mul]
      generalize pyInt ((-dv - P.dmin) * (P.subpix : ℚ)) = dsp
      generalize pyInt ((x.col : ℚ) + dv) = diag
      cases hc : pyGet2 x.rows diag dsp with
      | none => simp [encPix, readAt2_none _ _ _ hc]
      | some c =>
        rw [readAt2_some _ _ _ _ hc]
        cases c with
        | nan => simp [encPix, Val.isNan, hd]
        | num c1 =>
          simp only [Val.isNan, bind_ok]
          have hO : ∀ v, addFlag P.variant.fixOr x.flag v
              = if Generated.KernelsRefine.flagUpdateIsOr then x.flag ||| v else x.flag + v := by
            intro v
            simp [addFlag, hP, sourceVariant, Generated.RefineCC.flagUpdateIsOr, Generated.KernelsRefine.flagUpdateIsOr]
          have hF : P.variant.fixFlat = sourceVariant.fixFlat := by rw [hP]
          simp only [Bool.not_false, if_true]
          by_cases hg : (dv != -P.dmin && dv != -P.dmax && diag != 0 && diag != (x.rows.length : Int) - 1) = true
          · rw [if_pos (by simpa [bne, beq_eq_decide, and_assoc] using hg), if_pos hg]
            cases h0 : pyGet2 x.rows (diag - 1) (dsp + (P.subpix : Int)) with
            | none => simp [encPix, readAt2_none _ _ _ h0]
            | some c0 =>
              rw [readAt2_some _ _ _ _ h0]
              cases h2 : pyGet2 x.rows (diag + 1) (dsp - (P.subpix : Int)) with
              | none => simp [encPix, readAt2_none _ _ _ h2]
              | some c2 =>
                rw [readAt2_some _ _ _ _ h2]
                simp only [bind_ok, kernelMethod_eq, measureOf_eq, hF]
                cases hr : runMethod sourceVariant.fixFlat P.method P.isMax c0 c1 c2 with
                | err e =>
                  have he := runMethod_err _ _ _ _ _ _ e hr
                  simp [encRes, liftPy, encPix, he]
                | ok r =>
                  have hne : P.subpix ≠ 0 := by omega
                  simp [encRes, encOut, liftPy, divBy, hsp', hne, encPix, hO, Generated.KernelsRefine.flagUpdateIsOr,
                    Nat.or_assoc]
          · rw [if_neg (by simpa [bne, beq_eq_decide, and_assoc] using hg), if_neg hg]
            simp [encPix, hO, Generated.KernelsRefine.flagUpdateIsOr, stoppedBit, Flags.stoppedInterpolation]
  · simp [encPix]

/-! ## The specification of the approximation, on the model

  FULL STATEMENT (NOT YET PROVED — kept visible; the proof was started and is about half done):

    theorem approxPixel_spec (P : Params) (hO : P.variant.fixOr = true) (hF : P.variant.fixFlat = true) (hsp : 0 < P.subpix)
        (A B : Int) (hA : P.dmin = A) (hB : P.dmax = B) (x : ApxIn) (n : Nat)
        (hn : (n : Int) = (B - A) * P.subpix + 1) (hrows : ∀ i, i < x.rows.length → (x.rows.getD i []).length = n)
        (tol : ℚ) (htol : 0 ≤ tol) (hc : apxClassify P x ≠ .illFormed) :
        ∃ o, approxPixel P x = .ok o ∧ apxFailing P x o tol = []

  No clause is known to be false of the model: for an INTEGER right disparity strictly inside `[−B, −A]` a shift of at most half a
  sample stays inside the interval (there is no analogue of C06-F5 here), so no counterexample theorem is stated.
  Done below: the alignment lemmas the proof needs (`pyGet2_costAt2`: inside the arrays the unchecked read is the plain read;
  `pyInt_intCast`; `stopped_clauses`: the three clauses of a stopped pixel for the `|=` update) and the case of invalid pixels
  (`approxPixel_spec_partial`).  Missing: the valid pixel — sample index and diagonal as integers (set up in the abandoned
  script: `j = (−k − A)·subpix`, `0 ≤ j < n`), the three reads rewritten by `pyGet2_costAt2`, then `method_stop` / `method_refine`
  (`|shift| ≤ 1/2`, cost not worse) exactly as in `refinePixel_core`. -/

theorem pyGet2_costAt2 (m : List (List Val)) (i j : Int) (n : Nat) (hi : 0 ≤ i) (hi' : i < m.length)
    (hrow : (m.getD i.toNat []).length = n) (hj : 0 ≤ j) (hj' : j < n) :
    pyGet2 m i j = some (costAt2 m i j) := by
  obtain ⟨a, rfl⟩ := Int.eq_ofNat_of_zero_le hi
  obtain ⟨b, rfl⟩ := Int.eq_ofNat_of_zero_le hj
  have ha : a < m.length := by exact_mod_cast hi'
  have hb : b < n := by exact_mod_cast hj'
  simp only [Int.toNat_natCast] at hrow
  have hrow' : (m[a]).length = n := by simpa [List.getD_eq_getElem?_getD, ha] using hrow
  simp [pyGet2, pyGetG, pyGet, costAt2, costAt, ha, List.getD_eq_getElem?_getD, hrow', hb]

theorem pyInt_intCast (z : Int) : pyInt (z : ℚ) = z := by
  unfold pyInt
  split
  · simp
  · have e : (-(z : ℚ)) = ((-z : ℤ) : ℚ) := by push_cast; ring
    rw [e, Rat.floor_intCast]; omega

theorem stopped_clauses (f : Nat) (c1 tol : ℚ) (htol : 0 ≤ tol) (d : Val) :
    (d == d && (addFlag true f stoppedBit) / 8 % 2 == 1) = true ∧
    ((addFlag true f stoppedBit) % 8 == f % 8 && (addFlag true f stoppedBit) / 16 == f / 16) = true ∧
    close c1 c1 tol = true := by
  obtain ⟨h1, h2⟩ := addFlag_stopped true f (Or.inl rfl)
  refine ⟨?_, ?_, ?_⟩
  · simp only [bitAt] at h1
    simp [h1]
  · simpa [sameExceptBit3] using h2
  · simp [close, htol]

/-- the specification holds of the model at every INVALID right pixel (the part of `approxPixel_spec` that is proved) -/
theorem approxPixel_spec_partial (P : Params) (x : ApxIn) (tol : ℚ) (hi : Flags.isInvalid x.flag = true) :
    ∃ o, approxPixel P x = .ok o ∧ apxFailing P x o tol = [] := by
  refine ⟨⟨.nan, x.d, x.flag⟩, by simp [approxPixel, hi], ?_⟩
  simp [apxFailing, apxClauses, apxClassify, hi]

/-- … and of the GENERATED pixel function there, for any `method` (transfer through `loopApproxRefinementPx_invalid`) -/
theorem generated_approx_pixel_spec_partial (P : Params) (x : ApxIn) (tol : ℚ)
    (method : Val → Val → Val → Val → String → PyRes (Val × Val × Int)) (hi : Flags.isInvalid x.flag = true) :
    ∃ o : PixOut, loopApproxRefinementPx method x.rows (x.col : Int) x.d x.flag P.dmin P.dmax (P.subpix : Int)
        (measureOf P.isMax) = .ok (o.coeff, o.d, o.flag) ∧ apxFailing P x o tol = [] := by
  refine ⟨⟨.nan, x.d, x.flag⟩, loopApproxRefinementPx_invalid _ _ _ _ _ _ _ _ _ hi, ?_⟩
  simp [apxFailing, apxClauses, apxClassify, hi]

/-! ## The wiring of the two public methods -/

/-- what `subpixel_refinement` passes to `loop_refinement` and does with its results (locals resolved through their single
    assignment; `CV`, `DISP` the two dataset parameters, `ITP` the returned coefficient array) -/
theorem wiring_subpixel : wiringSubpixelRefinement = [
    ("arg:cv", "CV['cost_volume'].data"), ("arg:disp", "DISP['disparity_map'].data"),
    ("arg:mask", "DISP['validity_mask'].data"), ("arg:d_min", "CV.coords['disp'].data[0]"),
    ("arg:d_max", "CV.coords['disp'].data[-1]"), ("arg:subpixel", "CV.attrs['subpixel']"),
    ("arg:measure", "CV.attrs['type_measure']"), ("arg:method", "self.refinement_method"),
    ("result:itp_coeff", "ITP"), ("result:disp", "DISP['disparity_map'].data"),
    ("result:mask", "DISP['validity_mask'].data"),
    ("store:DISP.attrs['refinement']", "self._refinement_method_name"),
    ("store:DISP['interpolated_coeff']",
     "xr.DataArray(ITP, coords=[('row', DISP.coords['row'].data), ('col', DISP.coords['col'].data)], dims=['row', 'col'])")] := by
  decide +kernel

/-- `approximate_subpixel_refinement` wires `loop_approximate_refinement` the same way (left cost volume, right maps) -/
theorem wiring_approximate : wiringApproximateSubpixelRefinement = wiringSubpixelRefinement := by decide +kernel

end Pandora.C06KernelsLoop
