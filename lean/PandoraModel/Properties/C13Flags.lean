/-
  C13 — the initial validity flags (criteria of the matching-cost step: `Criteria.modelMask`, the model of
  `criteria.py` + `cv_masked` verified by C04, fed with the NaN pattern of the matching-cost model by C04C02)
  as a *local, translation-equivariant* function of the two masks, the two images' extent and the interval.

  The flag word of a pixel `p` reads
    * whether `p` is closer than `w/2` to an image edge (`mask_border`: four probes at distance `w/2`),
    * the left mask on the window of radius `w/2` around `p` (nodata in the window: bit 0; the pixel masked: bit 6),
    * for every integer disparity `d` of the global interval `[gmin, gmax]`: whether the right window around
      `(p.1, p.2 + d)` lies in the image (two probes on the pixel's row: bits 2, 7) and the right mask at its
      centre (bit 7),
    * and whether every cost of the pixel is NaN (bit 1) — a function of the pixel's cost row, i.e. of the
      matching-cost step `mcRowStep` (cone `mcCone`).
  Cone: rows within `w/2`; columns within `w/2` extended by the interval — `mcCone`, the cone of the matching cost.

  `flagStep` is written as a function of the image *re-centred on the pixel* (`atOrigin`), which makes its
  translation equivariance definitional.  `modelMask_is_flagStep` identifies the criteria model with it for every
  array size, measure, window, sub-pixel factor and interval (hypotheses of C04C02: `Shape`, `gridMin ≤ gridMax`);
  `flags_crop_eq_whole` is crop = whole for the models' flag arrays, and `pipeline_crop_eq_whole_flags` discharges
  the hypothesis `flagL` of `pipeline_crop_eq_whole`.
-/
import PandoraModel.Properties.C13Pipeline
import PandoraModel.Properties.C04C02

namespace Pandora.C13
open Pandora Pandora.Locality Pandora.MC

/-! ### steps given by a function of the image re-centred on the pixel -/

theorem shift_shift {α : Type} (p t : Px) (a : Img α) :
    shift p (shift t a) = shift (p.1 + t.1, p.2 + t.2) a := by
  funext q
  simp only [shift, Int.add_assoc]

/-- the step whose value at `p` is `G` of the image re-centred on `p` -/
def atOrigin {α β : Type} (G : Img α → Option β) : Img α → Img β := fun a p => G (shift p a)

/-- **A step defined on the re-centred image does not look at absolute positions.** -/
theorem atOrigin_equivariant {α β : Type} (G : Img α → Option β) : Equivariant (atOrigin G) := by
  intro t a
  funext p
  simp only [atOrigin, shift_shift]
  rfl

/-- … and is local with cone `R` as soon as `G` only reads the cone of the origin. -/
theorem atOrigin_local {α β : Type} {R : Cone} (G : Img α → Option β)
    (h : ∀ a b : Img α, (∀ q, inCone R (0, 0) q → a q = b q) → G a = G b) : Local R (atOrigin G) := by
  intro a b p hab
  apply h
  intro q hq
  apply hab
  unfold inCone at *
  simp only at *
  omega

/-! ### the flag word, read relative to the pixel -/

def isIn0 (b : Img McCell) (i j : Int) : Bool := (b (i, j)).isSome

/-- `mask_border`: the pixel is closer than `o` to an edge of the image -/
def border0 (o : Nat) (b : Img McCell) : Bool :=
  decide (0 < o) && !(isIn0 b (-(o : Int)) 0 && isIn0 b (o : Int) 0 && isIn0 b 0 (-(o : Int)) && isIn0 b 0 (o : Int))

/-- the right window at disparity `d` lies in the image (column-wise; the pixel's row does) -/
def inIdx0 (o : Nat) (b : Img McCell) (d : Int) : Bool := isIn0 b 0 (d - (o : Int)) && isIn0 b 0 (d + (o : Int))

/-- class of a mask code, as `criteria.py` tests it -/
def clsCode (valid nodata code : Int) : Criteria.Cls :=
  if code = nodata then .nodata else if code = valid then .valid else .invalid

/-- the right pixel at disparity `d` is masked (neither valid nor nodata) -/
def rInv0 (P : McParams) (b : Img McCell) (d : Int) : Bool :=
  match b (0, d) with
  | some s => clsCode P.validR P.nodataR s.mr == Criteria.Cls.invalid
  | none => false

/-- some cell of the image inside the left window of the pixel is nodata -/
def nodataNear0 (o : Nat) (nodata : Int) (b : Img McCell) : Bool :=
  (List.range (2 * o + 1)).any fun di => (List.range (2 * o + 1)).any fun dj =>
    match b (-(o : Int) + (di : Int), -(o : Int) + (dj : Int)) with
    | some s => decide (s.ml = nodata)
    | none => false

/-- the flag word of the pixel at the origin of `b`, whose own cell is `s` and whose costs are all NaN iff
    `allNan`: border pixels carry bit 0 only; otherwise each bit is raised by its documented cause -/
def flagWord0 (P : McParams) (gmin gmax : Int) (b : Img McCell) (s : McCell) (allNan : Bool) : Nat :=
  if border0 (half P.w) b then Flags.leftNodataOrBorder
  else
    (P.presentL && nodataNear0 (half P.w) P.nodataL b).toNat
      + 2 * allNan.toNat
      + 4 * (!((Criteria.dispList gmin gmax).filter (inIdx0 (half P.w) b)).isEmpty
              && (Criteria.dispList gmin gmax).any fun d => !inIdx0 (half P.w) b d).toNat
      + 64 * (P.presentL && (clsCode P.validL P.nodataL s.ml == Criteria.Cls.invalid)).toNat
      + 128 * (P.presentR && !((Criteria.dispList gmin gmax).filter (inIdx0 (half P.w) b)).isEmpty
              && ((Criteria.dispList gmin gmax).filter (inIdx0 (half P.w) b)).all (rInv0 P b)).toNat

def flagG (P : McParams) (gmin gmax : Int) (n : Nat) (b : Img McCell) : Option Nat :=
  (b (0, 0)).bind fun s =>
    (mcRowStep P gmin n b (0, 0)).map fun row => flagWord0 P gmin gmax b s (row.all Cell.isNan)

/-- **The validity flags after the matching-cost step, on partial images.** -/
def flagStep (P : McParams) (gmin gmax : Int) (n : Nat) : Img McCell → Img Nat :=
  atOrigin (flagG P gmin gmax n)

/-! ### locality -/

theorem any_congr_mem {α : Type} {l : List α} {f g : α → Bool} (h : ∀ x ∈ l, f x = g x) : l.any f = l.any g := by
  induction l with
  | nil => rfl
  | cons x xs ih =>
    simp only [List.any_cons]
    rw [h x (List.mem_cons_self ..), ih (fun y hy => h y (List.mem_cons_of_mem _ hy))]

theorem all_congr_mem {α : Type} {l : List α} {f g : α → Bool} (h : ∀ x ∈ l, f x = g x) : l.all f = l.all g := by
  induction l with
  | nil => rfl
  | cons x xs ih =>
    simp only [List.all_cons]
    rw [h x (List.mem_cons_self ..), ih (fun y hy => h y (List.mem_cons_of_mem _ hy))]

/-- the flag word only reads the cone of the matching cost around the origin -/
theorem flagWord0_congr (P : McParams) (gmin gmax : Int) (a b : Img McCell) (s : McCell) (allNan : Bool)
    (hq : ∀ i j : Int, -((half P.w : Nat) : Int) ≤ i → i ≤ (half P.w : Nat) →
      -((half P.w : Nat) : Int) - ((-gmin).toNat : Int) ≤ j → j ≤ (half P.w : Nat) + (gmax.toNat : Int) →
      a (i, j) = b (i, j)) :
    flagWord0 P gmin gmax a s allNan = flagWord0 P gmin gmax b s allNan := by
  have hb : border0 (half P.w) a = border0 (half P.w) b := by
    unfold border0 isIn0
    rw [hq _ _ (by omega) (by omega) (by omega) (by omega), hq _ _ (by omega) (by omega) (by omega) (by omega),
      hq _ _ (by omega) (by omega) (by omega) (by omega), hq _ _ (by omega) (by omega) (by omega) (by omega)]
  have hi : ∀ d ∈ Criteria.dispList gmin gmax, inIdx0 (half P.w) a d = inIdx0 (half P.w) b d := by
    intro d hd
    have := C04.mem_dispList.1 hd
    unfold inIdx0 isIn0
    rw [hq _ _ (by omega) (by omega) (by omega) (by omega), hq _ _ (by omega) (by omega) (by omega) (by omega)]
  have hf : (Criteria.dispList gmin gmax).filter (inIdx0 (half P.w) a)
      = (Criteria.dispList gmin gmax).filter (inIdx0 (half P.w) b) := List.filter_congr hi
  have hany : ((Criteria.dispList gmin gmax).any fun d => !inIdx0 (half P.w) a d)
      = ((Criteria.dispList gmin gmax).any fun d => !inIdx0 (half P.w) b d) :=
    any_congr_mem (fun d hd => by rw [hi d hd])
  have hr : ((Criteria.dispList gmin gmax).filter (inIdx0 (half P.w) b)).all (rInv0 P a)
      = ((Criteria.dispList gmin gmax).filter (inIdx0 (half P.w) b)).all (rInv0 P b) := by
    apply all_congr_mem
    intro d hd
    have := C04.mem_dispList.1 (List.mem_filter.1 hd).1
    unfold rInv0
    rw [hq _ _ (by omega) (by omega) (by omega) (by omega)]
  have hn : nodataNear0 (half P.w) P.nodataL a = nodataNear0 (half P.w) P.nodataL b := by
    unfold nodataNear0
    apply any_congr_mem
    intro di hdi
    apply any_congr_mem
    intro dj hdj
    have h1 := List.mem_range.1 hdi
    have h2 := List.mem_range.1 hdj
    rw [hq _ _ (by omega) (by omega) (by omega) (by omega)]
  unfold flagWord0
  rw [hb, hf, hany, hr, hn]

/-- **The initial validity flags are local, with the cone of the matching cost** (rows `w/2`; columns `w/2`
    extended by the disparity interval). -/
theorem flagStep_local (P : McParams) (hsp : 0 < P.sp) (gmin gmax : Int) (n : Nat)
    (hn : ∀ j : Nat, j < n → gmin * (P.sp : Int) + j ≤ gmax * (P.sp : Int)) :
    Local (mcCone P gmin gmax) (flagStep P gmin gmax n) := by
  apply atOrigin_local
  intro a b hab
  have hq : ∀ i j : Int, -((half P.w : Nat) : Int) ≤ i → i ≤ (half P.w : Nat) →
      -((half P.w : Nat) : Int) - ((-gmin).toNat : Int) ≤ j → j ≤ (half P.w : Nat) + (gmax.toNat : Int) →
      a (i, j) = b (i, j) := by
    intro i j h1 h2 h3 h4
    apply hab
    unfold inCone mcCone
    simp only
    omega
  unfold flagG
  rw [hq 0 0 (by omega) (by omega) (by omega) (by omega),
    mcRowStep_local P hsp gmin gmax n hn a b (0, 0) hab]
  congr 1
  funext s
  congr 1
  funext row
  exact flagWord0_congr P gmin gmax a b s _ hq

/-- **The initial validity flags do not look at absolute positions.** -/
theorem flagStep_equivariant (P : McParams) (gmin gmax : Int) (n : Nat) :
    Equivariant (flagStep P gmin gmax n) := atOrigin_equivariant _

/-- the cone of the flags is inside the cone of the cost stage, whatever the aggregation -/
theorem flagCone_le_costCone (C : PipeCfg) (Ra : Cone) : Cone.le (mcCone C.mc C.gmin C.gmax) (costCone C Ra) := by
  unfold Cone.le costCone Cone.add
  simp only
  omega

/-! ### the criteria model is that step -/

theorem isIn0_shift_toImg {ny nx : Nat} (data : Nat → Nat → McCell) (r c : Nat) (i j : Int) :
    isIn0 (shift ((r : Int), (c : Int)) (toImg ny nx data)) i j = true
      ↔ (0 ≤ i + r ∧ i + r < ny ∧ 0 ≤ j + c ∧ j + c < nx) := by
  unfold isIn0 shift
  simp only [Option.isSome_iff_ne_none, ne_eq, toImg_eq_none_iff, InImage, Decidable.not_not]

theorem clsOf_eq_clsCode (m : MC.Mask) (r c : Nat) :
    C04C02.clsOf m r c = clsCode m.valid m.nodata (m.code (r : Int) (c : Int)) := rfl

/-- a flag word below 256 without the bits 3, 4, 5 is the sum of its five bits -/
theorem word_of_bits (f : Nat) (b0 b1 b2 b6 b7 : Bool)
    (h0 : Flags.hasBit f 1 = b0) (h1 : Flags.hasBit f 2 = b1) (h2 : Flags.hasBit f 4 = b2)
    (h6 : Flags.hasBit f 64 = b6) (h7 : Flags.hasBit f 128 = b7) (hlt : f < 256)
    (h3 : Flags.hasBit f 8 = false) (h4 : Flags.hasBit f 16 = false) (h5 : Flags.hasBit f 32 = false) :
    f = b0.toNat + 2 * b1.toNat + 4 * b2.toNat + 64 * b6.toNat + 128 * b7.toNat := by
  rw [C04.hasBit_1] at h0
  rw [C04.hasBit_2] at h1
  rw [C04.hasBit_4] at h2
  rw [C04.hasBit_8] at h3
  rw [C04.hasBit_16] at h4
  rw [C04.hasBit_32] at h5
  rw [C04.hasBit_64] at h6
  rw [C04.hasBit_128] at h7
  subst h0 h1 h2 h6 h7
  simp only [decide_eq_false_iff_not] at h3 h4 h5
  have tn : ∀ n : Nat, (decide (n % 2 = 1)).toNat = n % 2 := by
    intro n
    by_cases h : n % 2 = 1
    · simp [h]
    · have : n % 2 = 0 := by omega
      simp [this]
  rw [tn, tn, tn, tn, tn]
  omega

section Identification
variable (x : MC.Input)

/-- the scene of the input, re-centred on pixel `(r, c)` -/
def sceneAt (r c : Nat) : Img McCell := shift ((r : Int), (c : Int)) (toImg x.L.rows x.L.cols (mcScene x))

theorem sceneAt_read (r c : Nat) (i j : Int) (hi : 0 ≤ i + r ∧ i + r < x.L.rows) (hj : 0 ≤ j + c ∧ j + c < x.L.cols) :
    sceneAt x r c (i, j)
      = some ⟨x.L.px (i + r) (j + c), x.R.px (i + r) (j + c), x.mL.code (i + r) (j + c), x.mR.code (i + r) (j + c),
          x.dminG (i + r) (j + c), x.dmaxG (i + r) (j + c)⟩ := by
  unfold sceneAt shift
  exact mcImg_read x (i + r) (j + c) hi hj

theorem border0_eq (r c : Nat) (hr : r < x.L.rows) (hc : c < x.L.cols) :
    border0 (half x.w) (sceneAt x r c) = Criteria.isBorder (C04C02.toCv x).toInput r c := by
  unfold border0 Criteria.isBorder Criteria.inBorder
  congr 1
  rw [Bool.eq_iff_iff]
  simp only [Bool.not_eq_true', ← Bool.not_eq_true, Bool.and_eq_true, sceneAt, isIn0_shift_toImg,
    Bool.or_eq_true, decide_eq_true_eq]
  simp only [C04C02.toCv]
  omega

theorem inIdx0_eq (r c : Nat) (hr : r < x.L.rows) (d : Int) :
    inIdx0 (half x.w) (sceneAt x r c) d = Criteria.inIdx (C04C02.toCv x).toInput c d := by
  unfold inIdx0 Criteria.inIdx
  rw [Bool.eq_iff_iff]
  simp only [Bool.and_eq_true, sceneAt, isIn0_shift_toImg, decide_eq_true_eq]
  simp only [C04C02.toCv]
  omega

theorem rInv0_eq (r c : Nat) (hr : r < x.L.rows) (d : Int)
    (hd : Criteria.inIdx (C04C02.toCv x).toInput c d = true) :
    rInv0 (paramsOf x) (sceneAt x r c) d = Criteria.rInvAt (C04C02.toCv x).toInput r ((c : Int) + d) := by
  have hd' := (C04.inIdx_iff _ c d).1 hd
  simp only [C04C02.toCv] at hd'
  unfold rInv0 Criteria.rInvAt
  rw [sceneAt_read x r c 0 d (by omega) (by omega)]
  simp only [C04C02.toCv, clsOf_eq_clsCode, paramsOf]
  have e1 : (((((c : Int) + d).toNat : Nat)) : Int) = d + c := by omega
  have e2 : (0 : Int) + (r : Int) = (r : Int) := by omega
  rw [e1, e2]

theorem nodataNear0_eq (r c : Nat) :
    nodataNear0 (half x.w) x.mL.nodata (sceneAt x r c)
      = Criteria.dilated x.L.rows x.L.cols (half x.w) (C04C02.clsOf x.mL) r c := by
  rw [Bool.eq_iff_iff, C04.dilated_iff]
  unfold nodataNear0 C04.NodataNear
  simp only [List.any_eq_true, List.mem_range]
  constructor
  · rintro ⟨di, hdi, dj, hdj, hm⟩
    by_cases hin : (0 ≤ -((half x.w : Nat) : Int) + (di : Int) + r ∧ -((half x.w : Nat) : Int) + (di : Int) + r < x.L.rows)
        ∧ (0 ≤ -((half x.w : Nat) : Int) + (dj : Int) + c ∧ -((half x.w : Nat) : Int) + (dj : Int) + c < x.L.cols)
    · rw [sceneAt_read x r c _ _ hin.1 hin.2] at hm
      simp only [decide_eq_true_eq] at hm
      refine ⟨(-((half x.w : Nat) : Int) + (di : Int) + r).toNat, (-((half x.w : Nat) : Int) + (dj : Int) + c).toNat,
        by omega, by omega, by omega, by omega, by omega, by omega, ?_⟩
      rw [C04C02.clsOf_nodata_iff]
      have e1 : (((-((half x.w : Nat) : Int) + (di : Int) + r).toNat : Nat) : Int) = -((half x.w : Nat) : Int) + (di : Int) + r := by
        omega
      have e2 : (((-((half x.w : Nat) : Int) + (dj : Int) + c).toNat : Nat) : Int) = -((half x.w : Nat) : Int) + (dj : Int) + c := by
        omega
      rw [e1, e2]
      exact hm
    · have hnone : sceneAt x r c (-((half x.w : Nat) : Int) + (di : Int), -((half x.w : Nat) : Int) + (dj : Int)) = none := by
        have := (isIn0_shift_toImg (ny := x.L.rows) (nx := x.L.cols) (mcScene x) r c
          (-((half x.w : Nat) : Int) + (di : Int)) (-((half x.w : Nat) : Int) + (dj : Int))).not.2 (by omega)
        unfold isIn0 at this
        unfold sceneAt
        simpa using this
      rw [hnone] at hm
      cases hm
  · rintro ⟨r', c', h1, h2, h3, h4, h5, h6, hm⟩
    refine ⟨r' + half x.w - r, by omega, c' + half x.w - c, by omega, ?_⟩
    have e1 : -((half x.w : Nat) : Int) + ((r' + half x.w - r : Nat) : Int) = (r' : Int) - r := by omega
    have e2 : -((half x.w : Nat) : Int) + ((c' + half x.w - c : Nat) : Int) = (c' : Int) - c := by omega
    rw [e1, e2, sceneAt_read x r c _ _ (by omega) (by omega)]
    simp only [decide_eq_true_eq]
    have e3 : (r' : Int) - r + r = r' := by omega
    have e4 : (c' : Int) - c + c = c' := by omega
    rw [e3, e4]
    exact (C04C02.clsOf_nodata_iff x.mL r' c').1 hm

theorem valueSpec_isNan (r c k : Int) : (valueSpec x r c k).isNan = false := by
  unfold valueSpec
  cases x.meas with
  | sad => rfl
  | ssd => rfl
  | census => rfl
  | zncc =>
    simp only
    split <;> rfl

theorem specCell_isNan (r c k : Int) : (specCell x r c k).isNan = !decide (cause x r c k = .computable) := by
  unfold specCell
  by_cases hc : cause x r c k = .computable
  · rw [if_pos hc, valueSpec_isNan]; simp [hc]
  · rw [if_neg hc]; simp [hc, Cell.isNan]

/-- the cost row of the matching-cost step at pixel `(r, c)`: the prescribed cells -/
theorem rowStep_at (h : Shape x) (gmin : Int) (n r c : Nat) (hr : r < x.L.rows) (hc : c < x.L.cols) :
    mcRowStep (paramsOf x) gmin n (sceneAt x r c) (0, 0)
      = some ((List.range n).map fun (j : Nat) => specCell x r c (gmin * (x.sp : Int) + j)) := by
  unfold sceneAt
  rw [mcRowStep_equivariant (paramsOf x) gmin n ((r : Int), (c : Int)) (toImg x.L.rows x.L.cols (mcScene x))]
  show mcRowStep (paramsOf x) gmin n (toImg x.L.rows x.L.cols (mcScene x)) ((0 : Int) + r, (0 : Int) + c) = _
  rw [Int.zero_add, Int.zero_add]
  unfold mcRowStep
  rw [toImg_some _ _ _ r c hr hc]
  simp only [Option.map_some]
  congr 1
  apply List.map_congr_left
  intro j _
  have := congrFun (specCell_is_mcCellStep x h (gmin * (x.sp : Int) + j)) ((r : Int), (c : Int))
  rw [toImg_some _ _ _ r c hr hc] at this
  show (mcCellStep (paramsOf x) (gmin * (x.sp : Int) + j) _ _).getD .nan = _
  rw [← this]
  rfl

/-- "every cost of the pixel is NaN", read off the cost row of the step, is C04's all-NaN indicator -/
theorem allNan_eq (h : Shape x)
    (hg : gridMin x.dminG x.L.rows x.L.cols ≤ gridMax x.dmaxG x.L.rows x.L.cols) (r c : Nat) :
    ((List.range (nDisp (gridMin x.dminG x.L.rows x.L.cols) (gridMax x.dmaxG x.L.rows x.L.cols) x.sp)).map
        fun (j : Nat) => specCell x r c (gridMin x.dminG x.L.rows x.L.cols * (x.sp : Int) + j)).all Cell.isNan
      = Criteria.allNanOf (C04C02.toCv x) r c := by
  unfold Criteria.allNanOf
  rw [C04C02.nDisp_eq x h.sp_pos hg, List.all_map]
  apply all_congr_mem
  intro j _
  simp only [Function.comp, specCell_isNan]
  congr 1
  rw [Bool.eq_iff_iff, decide_eq_true_eq]
  exact (C04C02.computable_iff_cause x h r c j).symm

/-- **One pixel: the criteria model's flag word is the relative flag word.** -/
theorem modelMask_eq_flagWord0
    (hg : gridMin x.dminG x.L.rows x.L.cols ≤ gridMax x.dmaxG x.L.rows x.L.cols) (r c : Nat)
    (hr : r < x.L.rows) (hc : c < x.L.cols) (s : McCell) (hs : s.ml = x.mL.code r c) :
    Criteria.modelMask (C04C02.toCv x) r c
      = flagWord0 (paramsOf x) (gridMin x.dminG x.L.rows x.L.cols) (gridMax x.dmaxG x.L.rows x.L.cols)
          (sceneAt x r c) s (Criteria.allNanOf (C04C02.toCv x) r c) := by
  have hd : (C04C02.toCv x).dmin ≤ (C04C02.toCv x).dmax := hg
  have hR : r < (C04C02.toCv x).rows := hr
  have hC : c < (C04C02.toCv x).cols := hc
  have hbe := border0_eq x r c hr hc
  have hidx : inIdx0 (half x.w) (sceneAt x r c) = Criteria.inIdx (C04C02.toCv x).toInput c := by
    funext d; exact inIdx0_eq x r c hr d
  unfold flagWord0
  have hw : half (paramsOf x).w = half x.w := rfl
  rw [hw, hbe, hidx]
  cases hb : Criteria.isBorder (C04C02.toCv x).toInput r c
  · have hI := C04.interior_of_not_border _ r c hR hC hb
    obtain ⟨k0, k6, k1, k2, k7, _, klt, k3, k4, k5⟩ := C04.criteria_interior (C04C02.toCv x) r c hd hI
    have key := word_of_bits _ _ _ _ _ _ k0 k1 k2 k6 k7 klt k3 k4 k5
    rw [key]
    simp only [Bool.false_eq_true, if_false]
    have e0 : Criteria.specBit0 (C04C02.toCv x).toInput r c
        = ((paramsOf x).presentL && nodataNear0 (half x.w) (paramsOf x).nodataL (sceneAt x r c)) := by
      unfold Criteria.specBit0
      rw [hb, ← C04.dilated_eq_nodataInWindow, Bool.false_or]
      show (x.mL.present && Criteria.dilated x.L.rows x.L.cols (half x.w) (C04C02.clsOf x.mL) r c)
        = (x.mL.present && nodataNear0 (half x.w) x.mL.nodata (sceneAt x r c))
      rw [nodataNear0_eq x r c]
    have e6 : Criteria.specBit6 (C04C02.toCv x).toInput r c
        = ((paramsOf x).presentL && (clsCode (paramsOf x).validL (paramsOf x).nodataL s.ml == Criteria.Cls.invalid)) := by
      unfold Criteria.specBit6
      rw [hb, hs]
      rfl
    have e1 : Criteria.specBit1 (C04C02.toCv x) r c = Criteria.allNanOf (C04C02.toCv x) r c := by
      unfold Criteria.specBit1
      rw [hb]; rfl
    have e2 : Criteria.specBit2 (C04C02.toCv x).toInput r c
        = (!((Criteria.dispList (gridMin x.dminG x.L.rows x.L.cols) (gridMax x.dmaxG x.L.rows x.L.cols)).filter
                (Criteria.inIdx (C04C02.toCv x).toInput c)).isEmpty
            && (Criteria.dispList (gridMin x.dminG x.L.rows x.L.cols) (gridMax x.dmaxG x.L.rows x.L.cols)).any
                fun d => !Criteria.inIdx (C04C02.toCv x).toInput c d) := by
      unfold Criteria.specBit2 Criteria.inSet
      rw [hb]; rfl
    have e7 : Criteria.specBit7 (C04C02.toCv x).toInput r c
        = ((paramsOf x).presentR
            && !((Criteria.dispList (gridMin x.dminG x.L.rows x.L.cols) (gridMax x.dmaxG x.L.rows x.L.cols)).filter
                (Criteria.inIdx (C04C02.toCv x).toInput c)).isEmpty
            && ((Criteria.dispList (gridMin x.dminG x.L.rows x.L.cols) (gridMax x.dmaxG x.L.rows x.L.cols)).filter
                (Criteria.inIdx (C04C02.toCv x).toInput c)).all (rInv0 (paramsOf x) (sceneAt x r c))) := by
      unfold Criteria.specBit7 Criteria.inSet
      rw [hb]
      have hall : ((Criteria.dispList (C04C02.toCv x).dmin (C04C02.toCv x).dmax).filter
            (Criteria.inIdx (C04C02.toCv x).toInput c)).all (fun d => Criteria.rInvAt (C04C02.toCv x).toInput r ((c : Int) + d))
          = ((Criteria.dispList (C04C02.toCv x).dmin (C04C02.toCv x).dmax).filter
            (Criteria.inIdx (C04C02.toCv x).toInput c)).all (rInv0 (paramsOf x) (sceneAt x r c)) := by
        apply all_congr_mem
        intro d hd'
        exact (rInv0_eq x r c hr d (List.mem_filter.1 hd').2).symm
      rw [hall]
      rfl
    rw [e0, e1, e2, e6, e7]
  · obtain ⟨hm, _⟩ := C04.criteria_border (C04C02.toCv x) r c hb
    rw [hm]
    simp only [if_true]

/-- **The criteria model (`criteria.py` + `cv_masked`: the validity flags after the matching-cost step) is the
    step `flagStep` on the partial image of the scene**, for every array size, measure, window, sub-pixel factor
    and interval. -/
theorem modelMask_is_flagStep (h : Shape x)
    (hg : gridMin x.dminG x.L.rows x.L.cols ≤ gridMax x.dmaxG x.L.rows x.L.cols) :
    toImg x.L.rows x.L.cols (fun r c => Criteria.modelMask (C04C02.toCv x) r c)
      = flagStep (paramsOf x) (gridMin x.dminG x.L.rows x.L.cols) (gridMax x.dmaxG x.L.rows x.L.cols)
          (nDisp (gridMin x.dminG x.L.rows x.L.cols) (gridMax x.dmaxG x.L.rows x.L.cols) x.sp)
          (toImg x.L.rows x.L.cols (mcScene x)) := by
  funext q
  by_cases hq : InImage x.L.rows x.L.cols q
  · obtain ⟨r, c, rfl, hr, hc⟩ : ∃ r c : Nat, q = ((r : Int), (c : Int)) ∧ r < x.L.rows ∧ c < x.L.cols := by
      unfold InImage at hq
      refine ⟨q.1.toNat, q.2.toNat, ?_, by omega, by omega⟩
      ext <;> simp <;> omega
    rw [toImg_some _ _ _ r c hr hc]
    show _ = flagG _ _ _ _ (sceneAt x r c)
    unfold flagG
    rw [sceneAt_read x r c 0 0 (by omega) (by omega), rowStep_at x h _ _ r c hr hc]
    simp only [Option.bind_some, Option.map_some]
    rw [allNan_eq x h hg r c]
    congr 1
    apply modelMask_eq_flagWord0 x hg r c hr hc
    simp
  · rw [toImg_none _ _ _ q hq]
    show _ = flagG _ _ _ _ (shift q (toImg x.L.rows x.L.cols (mcScene x)))
    unfold flagG
    have : shift q (toImg x.L.rows x.L.cols (mcScene x)) (0, 0) = none := by
      unfold shift
      simp only [Int.zero_add]
      exact toImg_none _ _ _ q hq
    rw [this]
    rfl

/-- … hence also the mask built from the NaN pattern of the matching-cost model's own cost volume (C04 ∘ C02) -/
theorem composedMask_is_flagStep (h : Shape x)
    (hg : gridMin x.dminG x.L.rows x.L.cols ≤ gridMax x.dmaxG x.L.rows x.L.cols) :
    toImg x.L.rows x.L.cols (C04C02.composedMask x)
      = flagStep (paramsOf x) (gridMin x.dminG x.L.rows x.L.cols) (gridMax x.dmaxG x.L.rows x.L.cols)
          (nDisp (gridMin x.dminG x.L.rows x.L.cols) (gridMax x.dmaxG x.L.rows x.L.cols) x.sp)
          (toImg x.L.rows x.L.cols (mcScene x)) := by
  rw [← modelMask_is_flagStep x h hg]
  apply toImg_congr
  intro r c _ _
  exact C04C02.composedMask_eq x h hg r c

end Identification

/-! ### crop = whole for the flag arrays of the models; the hypothesis `flagL` of the pipeline discharged -/

/-- **Initial validity flags: crop run = whole run.**  `x'` is the crop of the scene of `x` starting at `(r0, c0)`
    with the same configuration and the same global disparity range (a scalar interval).  The flag word the
    criteria model attaches to crop pixel `(r, c)` is the one it attaches to pixel `(r + r0, c + c0)` of the
    whole scene, as soon as every pixel of the cone `mcCone` (rows `w/2`; columns `w/2` extended by the interval)
    is in the crop or outside the image. -/
theorem flags_crop_eq_whole (x x' : MC.Input) (h : Shape x) (h' : Shape x')
    (hg : gridMin x.dminG x.L.rows x.L.cols ≤ gridMax x.dmaxG x.L.rows x.L.cols)
    (hp : paramsOf x' = paramsOf x) (r0 c0 : Nat)
    (hcrop : ∀ r c, r < x'.L.rows → c < x'.L.cols → mcScene x' r c = mcScene x (r + r0) (c + c0))
    (hfit : r0 + x'.L.rows ≤ x.L.rows ∧ c0 + x'.L.cols ≤ x.L.cols)
    (hgmin : gridMin x'.dminG x'.L.rows x'.L.cols = gridMin x.dminG x.L.rows x.L.cols)
    (hgmax : gridMax x'.dmaxG x'.L.rows x'.L.cols = gridMax x.dmaxG x.L.rows x.L.cols)
    (r c : Nat) (hr : r < x'.L.rows) (hc : c < x'.L.cols)
    (hcone : ∀ q, inCone (mcCone (paramsOf x) (gridMin x.dminG x.L.rows x.L.cols) (gridMax x.dmaxG x.L.rows x.L.cols))
        ((r : Int) + r0, (c : Int) + c0) q →
      InRect r0 c0 x'.L.rows x'.L.cols q ∨ ¬ InImage x.L.rows x.L.cols q) :
    Criteria.modelMask (C04C02.toCv x') r c = Criteria.modelMask (C04C02.toCv x) (r + r0) (c + c0) := by
  have hsp : x'.sp = x.sp := congrArg McParams.sp hp
  have hg' : gridMin x'.dminG x'.L.rows x'.L.cols ≤ gridMax x'.dmaxG x'.L.rows x'.L.cols := by rw [hgmin, hgmax]; exact hg
  have h1 := modelMask_is_flagStep x' h' hg'
  have h2 := modelMask_is_flagStep x h hg
  have hn : ∀ j : Nat, j < nDisp (gridMin x.dminG x.L.rows x.L.cols) (gridMax x.dmaxG x.L.rows x.L.cols) x.sp →
      gridMin x.dminG x.L.rows x.L.cols * (x.sp : Int) + j ≤ gridMax x.dmaxG x.L.rows x.L.cols * (x.sp : Int) := by
    intro j hj
    rw [nDisp_eq _ _ _ h.sp_pos hg] at hj
    have hs' : (0 : Int) ≤ (x.sp : Int) := Int.natCast_nonneg _
    have hnn : 0 ≤ (gridMax x.dmaxG x.L.rows x.L.cols - gridMin x.dminG x.L.rows x.L.cols) * (x.sp : Int) :=
      Int.mul_nonneg (by omega) hs'
    have : (j : Int) ≤ (gridMax x.dmaxG x.L.rows x.L.cols - gridMin x.dminG x.L.rows x.L.cols) * (x.sp : Int) := by
      omega
    rw [Int.sub_mul] at this
    omega
  have h3 := crop_run_eq_whole
    (flagStep_local (paramsOf x) h.sp_pos (gridMin x.dminG x.L.rows x.L.cols) (gridMax x.dmaxG x.L.rows x.L.cols) _ hn)
    (flagStep_equivariant (paramsOf x) (gridMin x.dminG x.L.rows x.L.cols) (gridMax x.dmaxG x.L.rows x.L.cols)
      (nDisp (gridMin x.dminG x.L.rows x.L.cols) (gridMax x.dmaxG x.L.rows x.L.cols) x.sp))
    x.L.rows x.L.cols r0 c0 x'.L.rows x'.L.cols (mcScene x) hfit ((r : Int), (c : Int)) hcone
  have h4 : toImg x'.L.rows x'.L.cols (mcScene x') = toImg x'.L.rows x'.L.cols (cropArr r0 c0 (mcScene x)) :=
    toImg_congr _ _ _ _ hcrop
  rw [hp, hgmin, hgmax, hsp] at h1
  rw [← h4, ← h1, ← h2, toImg_some _ _ _ r c hr hc] at h3
  have e : (((r : Int) + (r0 : Int), (c : Int) + (c0 : Int)) : Px) = (((r + r0 : Nat) : Int), ((c + c0 : Nat) : Int)) := by
    ext <;> simp
  rw [e, toImg_some _ _ _ (r + r0) (c + c0) (by omega) (by omega)] at h3
  exact Option.some.inj h3

/-- the flags of the pipeline's configuration -/
def pipeFlags (C : PipeCfg) : Img McCell → Img Nat := flagStep C.mc C.gmin C.gmax C.n

/-- with the criteria flags, the cone before the filter is the cost cone: the flags add nothing -/
theorem refineCone_flags (C : PipeCfg) (Ra : Cone) : refineCone C Ra (mcCone C.mc C.gmin C.gmax) = costCone C Ra := by
  unfold refineCone costCone Cone.sup Cone.add
  simp only [Cone.mk.injEq]
  omega

/-- **Crop run = whole run for the whole pipeline with the criteria flags**: the hypothesis `flagL` of
    `pipeline_crop_eq_whole` is discharged by `flagStep` (cone `mcCone`, inside the cost cone). -/
theorem pipeline_crop_eq_whole_flags (C : PipeCfg) (hsp : 0 < C.mc.sp)
    (hn : ∀ j : Nat, j < C.n → C.gmin * (C.mc.sp : Int) + j ≤ C.gmax * (C.mc.sp : Int))
    {agg : AggStep} {Ra : Cone} (hA : Local Ra agg) (hAe : Equivariant agg) (doRefine doMedian : Bool)
    {dispR : Img McCell → Img Val} {Rr : Cone} (hR : Local Rr dispR) (hRe : Equivariant dispR)
    (V : CrossCheck.Variant) (CP : CrossCheck.Params)
    (ny nx r0 c0 ny' nx' : Nat) (scene : Nat → Nat → McCell) (hfit : r0 + ny' ≤ ny ∧ c0 + nx' ≤ nx) (p : Px)
    (hcone : ∀ q, inCone (pipeCone C Ra (mcCone C.mc C.gmin C.gmax) Rr doMedian CP) (p.1 + r0, p.2 + c0) q →
      InRect r0 c0 ny' nx' q ∨ ¬ InImage ny nx q) :
    ccStage C agg (pipeFlags C) doRefine doMedian dispR V CP (toImg ny' nx' (cropArr r0 c0 scene)) p
      = ccStage C agg (pipeFlags C) doRefine doMedian dispR V CP (toImg ny nx scene) (p.1 + r0, p.2 + c0) :=
  pipeline_crop_eq_whole C hsp hn hA hAe (flagStep_local C.mc hsp C.gmin C.gmax C.n hn)
    (flagStep_equivariant C.mc C.gmin C.gmax C.n) doRefine doMedian hR hRe V CP ny nx r0 c0 ny' nx' scene hfit p hcone

/-- … and with the right disparity map computed by the same pipeline on the swapped pair (configuration `C'`:
    mirrored interval), its flags being the criteria flags too: only the aggregation step stays abstract. -/
theorem pipeline_crop_eq_whole_flags_both (C C' : PipeCfg) (hsp : 0 < C.mc.sp) (hsp' : 0 < C'.mc.sp)
    (hn : ∀ j : Nat, j < C.n → C.gmin * (C.mc.sp : Int) + j ≤ C.gmax * (C.mc.sp : Int))
    (hn' : ∀ j : Nat, j < C'.n → C'.gmin * (C'.mc.sp : Int) + j ≤ C'.gmax * (C'.mc.sp : Int))
    {agg : AggStep} {Ra : Cone} (hA : Local Ra agg) (hAe : Equivariant agg) (doRefine doMedian : Bool)
    (V : CrossCheck.Variant) (CP : CrossCheck.Params)
    (ny nx r0 c0 ny' nx' : Nat) (scene : Nat → Nat → McCell) (hfit : r0 + ny' ≤ ny ∧ c0 + nx' ≤ nx) (p : Px)
    (hcone : ∀ q, inCone (pipeCone C Ra (mcCone C.mc C.gmin C.gmax)
        (filterCone C' Ra (mcCone C'.mc C'.gmin C'.gmax) doMedian) doMedian CP) (p.1 + r0, p.2 + c0) q →
      InRect r0 c0 ny' nx' q ∨ ¬ InImage ny nx q) :
    ccStage C agg (pipeFlags C) doRefine doMedian (rightDisp C' agg (pipeFlags C') doRefine doMedian) V CP
        (toImg ny' nx' (cropArr r0 c0 scene)) p
      = ccStage C agg (pipeFlags C) doRefine doMedian (rightDisp C' agg (pipeFlags C') doRefine doMedian) V CP
        (toImg ny nx scene) (p.1 + r0, p.2 + c0) :=
  pipeline_crop_eq_whole_flags C hsp hn hA hAe doRefine doMedian
    (rightDisp_local C' hsp' hn' hA (flagStep_local C'.mc hsp' C'.gmin C'.gmax C'.n hn') doRefine doMedian)
    (rightDisp_equivariant C' hAe (flagStep_equivariant C'.mc C'.gmin C'.gmax C'.n) doRefine doMedian)
    V CP ny nx r0 c0 ny' nx' scene hfit p hcone

/-- the filtered left map with the criteria flags (pipelines without cross-checking) -/
theorem filter_crop_eq_whole_flags (C : PipeCfg) (hsp : 0 < C.mc.sp)
    (hn : ∀ j : Nat, j < C.n → C.gmin * (C.mc.sp : Int) + j ≤ C.gmax * (C.mc.sp : Int))
    {agg : AggStep} {Ra : Cone} (hA : Local Ra agg) (hAe : Equivariant agg) (doRefine doMedian : Bool)
    (ny nx r0 c0 ny' nx' : Nat) (scene : Nat → Nat → McCell) (hfit : r0 + ny' ≤ ny ∧ c0 + nx' ≤ nx) (p : Px)
    (hcone : ∀ q, inCone (filterCone C Ra (mcCone C.mc C.gmin C.gmax) doMedian) (p.1 + r0, p.2 + c0) q →
      InRect r0 c0 ny' nx' q ∨ ¬ InImage ny nx q) :
    filterStage C agg (pipeFlags C) doRefine doMedian (toImg ny' nx' (cropArr r0 c0 scene)) p
      = filterStage C agg (pipeFlags C) doRefine doMedian (toImg ny nx scene) (p.1 + r0, p.2 + c0) :=
  filter_crop_eq_whole C hsp hn hA hAe (flagStep_local C.mc hsp C.gmin C.gmax C.n hn)
    (flagStep_equivariant C.mc C.gmin C.gmax C.n) doRefine doMedian ny nx r0 c0 ny' nx' scene hfit p hcone

/-- the documented radii with the criteria flags: the hypothesis on `Rf` of `pipeConeT_documented` holds -/
theorem pipeConeT_documented_flags (C : PipeCfg) (A : Nat) (CP : CrossCheck.Params) (hoff : CP.offset = 0)
    (hmin : CP.dmin = C.gmin) (hmax : CP.dmax = C.gmax) (Rr : Cone)
    (hRr : Cone.le Rr ⟨MC.half C.mc.w + A + C.fs / 2, MC.half C.mc.w + A + C.fs / 2,
      MC.half C.mc.w + A + C.fs / 2 + C.gmax.toNat, MC.half C.mc.w + A + C.fs / 2 + (-C.gmin).toNat⟩) :
    Cone.le ((filterCone C (Cone.square A) (mcCone C.mc C.gmin C.gmax) true).sup (Rr.add (ccCone CP)))
      ⟨MC.half C.mc.w + A + C.fs / 2, MC.half C.mc.w + A + C.fs / 2,
       MC.half C.mc.w + A + C.fs / 2 + (-C.gmin).toNat + C.gmax.toNat,
       MC.half C.mc.w + A + C.fs / 2 + (-C.gmin).toNat + C.gmax.toNat⟩ :=
  pipeConeT_documented C A CP hoff hmin hmax _ Rr (flagCone_le_costCone C _) hRr

/-! ### Non-vacuity: the 3 × 4 pair of C02 (window 3, subpix 2, masks on both sides, interval [-1, 1]) -/

section Examples
open C02.Example

/-- the hypotheses of `modelMask_is_flagStep` hold of it -/
example : Shape (exIn .sad) ∧ gridMin (exIn .sad).dminG 3 4 ≤ gridMax (exIn .sad).dmaxG 3 4 :=
  ⟨C02.shape_of_wf _ (by decide), by decide⟩

/-- … and the step gives the flag words of the model: row 1 = border, incomplete range (4), left pixel masked
    with all costs NaN (64 + 4 + 2), border -/
example : (List.range 4).map (fun (c : Nat) =>
      flagStep (paramsOf (exIn .sad)) (gridMin (exIn .sad).dminG 3 4) (gridMax (exIn .sad).dmaxG 3 4)
        (nDisp (gridMin (exIn .sad).dminG 3 4) (gridMax (exIn .sad).dmaxG 3 4) (exIn .sad).sp)
        (toImg 3 4 (mcScene (exIn .sad))) (1, (c : Int)))
    = [some 1, some 4, some 70, some 1] := by
  have h := composedMask_is_flagStep (exIn .sad) (C02.shape_of_wf _ (by decide)) (by decide)
  have e : (exIn .sad).L.rows = 3 ∧ (exIn .sad).L.cols = 4 := by decide
  rw [e.1, e.2] at h
  rw [← h]
  decide

/-- the cone of these flags: one row up and down, two columns left and right -/
example : mcCone (paramsOf (exIn .sad)) (-1) 1 = ⟨1, 1, 2, 2⟩ := by decide

end Examples

end Pandora.C13
