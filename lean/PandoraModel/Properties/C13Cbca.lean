/-
  C13 — locality of cross-based cost aggregation (model of C11: `Cbca.aggregate`), for pixels whose cone
  lies inside the crop (the model's arrays carry their sizes: arms stop at the border of the aggregated
  area, the 3×3 pre-filter copies the one-pixel border of the image — border effects are part of the
  function, so the statement is about cone-interior pixels, as in the property's premise).

  With `D = max (cbca_distance - 1) 1` (the longest possible arm):
    * an arm of a pixel reads the filtered image at most `D` pixels away in its direction
      (`armCoded_transport`), a filtered pixel reads the 3×3 masked neighbourhood (`median3_transport`);
    * the aggregated cost of `(y, x)` is the mean of the costs over the region spanned by the vertical arm of
      `(y, x)` and the horizontal arms of the pixels of that arm (C11 `aggOut_spec`): rows and columns
      within `D` for the costs, within `D + 1` for the images (left around `x`, right around `x + d`).
  `cbca_crop_eq_whole`: for a crop of the scene (same configuration), every pixel of the crop whose cone of
  radius `D + 1` (rows; columns around `x` and around `x + d`) lies inside the crop's aggregated area gets the
  aggregated cost of the whole run.
-/
import PandoraModel.Properties.C11

namespace Pandora.C13
open Pandora Pandora.Cbca

/-! ### one plane: the output is the mean over the region -/

/-- the aggregated cell of a plane as the property prescribes it -/
def aggSpec (P : Plane) (y x : Nat) : Val :=
  match P.cv y x with
  | .nan => .nan
  | .num _ => .num (specSum P y x / specCount P y x)

theorem aggOut_eq_aggSpec (P : Plane) (hA : armsInImage P.H P.W P.armsL = true) (hN : nanOutside P = true)
    (y x : Nat) (hy : y < P.H) (hx : x < P.W) : aggOut P y x = aggSpec P y x := by
  have h := C11.aggOut_spec P hA hN y x hy hx
  unfold specCell at h
  unfold aggSpec
  cases hcv : P.cv y x with
  | nan =>
    simp only [hcv] at h
    cases ho : aggOut P y x with
    | nan => rfl
    | num q => simp [ho, Val.isNan] at h
  | num q =>
    simp only [hcv] at h
    cases ho : aggOut P y x with
    | nan => simp [ho, valEq] at h
    | num r =>
      simp only [ho, valEq, decide_eq_true_eq] at h
      rw [h]

theorem sumRange_transport (f g : Nat → Rat) (a a' : Nat) :
    ∀ n, (∀ i, i < n → f (a + i) = g (a' + i)) → C11.sumRange f a n = C11.sumRange g a' n := by
  intro n
  induction n with
  | zero => intro _; rfl
  | succ n ih =>
    intro h
    simp only [C11.sumRange]
    rw [ih (fun i hi => h i (by omega)), h n (by omega)]

theorem sumRangeN_transport (f g : Nat → Nat) (a a' : Nat) :
    ∀ n, (∀ i, i < n → f (a + i) = g (a' + i)) → sumRangeN f a n = sumRangeN g a' n := by
  intro n
  induction n with
  | zero => intro _; rfl
  | succ n ih =>
    intro h
    simp only [sumRangeN]
    rw [ih (fun i hi => h i (by omega)), h n (by omega)]

/-- **The region sum and the region size only read the arms and the costs of the region — wherever the
    pixel is.**  `P'` at `(y, x)` and `P` at `(y + ty, x + tx)` have the same combined arms `a` at the pixel,
    the same combined horizontal arms on the rows of the vertical arm, and the same costs on the region. -/
theorem region_transport (P P' : Plane) (y x ty tx : Nat) (a : Arms)
    (hc' : comb P' y x = some a) (hc : comb P (y + ty) (x + tx) = some a) (htop : a.top ≤ y)
    (hrow : ∀ y', y - a.top ≤ y' → y' ≤ y + a.bot →
      hLeft P (x + tx) (y' + ty) = hLeft P' x y' ∧ hRight P (x + tx) (y' + ty) = hRight P' x y' ∧ hLeft P' x y' ≤ x)
    (hcv : ∀ y' x', y - a.top ≤ y' → y' ≤ y + a.bot → x - hLeft P' x y' ≤ x' → x' ≤ x + hRight P' x y' →
      P.cv (y' + ty) (x' + tx) = P'.cv y' x') :
    specSum P (y + ty) (x + tx) = specSum P' y x ∧ specCount P (y + ty) (x + tx) = specCount P' y x := by
  constructor
  · unfold specSum regionOf
    rw [hc, hc']
    simp only
    rw [C11.sum_region, C11.sum_region]
    have e : y + ty - a.top = (y - a.top) + ty := by omega
    rw [e]
    apply sumRange_transport
    intro i hi
    have hr := hrow (y - a.top + i) (by omega) (by omega)
    have e2 : y - a.top + ty + i = y - a.top + i + ty := by omega
    rw [e2, hr.1, hr.2.1]
    have e3 : x + tx - hLeft P' x (y - a.top + i) = (x - hLeft P' x (y - a.top + i)) + tx := by
      have := hr.2.2; omega
    rw [e3]
    apply sumRange_transport
    intro j hj
    have := hcv (y - a.top + i) (x - hLeft P' x (y - a.top + i) + j) (by omega) (by omega) (by omega)
      (by have := hr.2.2; omega)
    have e4 : x - hLeft P' x (y - a.top + i) + tx + j = x - hLeft P' x (y - a.top + i) + j + tx := by omega
    rw [e4, this]
  · unfold specCount regionOf
    rw [hc, hc']
    simp only
    rw [C11.length_region, C11.length_region]
    have e : y + ty - a.top = (y - a.top) + ty := by omega
    rw [e]
    apply sumRangeN_transport
    intro i hi
    have hr := hrow (y - a.top + i) (by omega) (by omega)
    have e2 : y - a.top + ty + i = y - a.top + i + ty := by omega
    rw [e2, hr.1, hr.2.1]

/-! ### arms -/

theorem armLoop_congr (I : Rat) (px px' : Nat → Val) :
    ∀ fuel k, (∀ j, j ≤ k + fuel → px j = px' j) → armLoop I px fuel k = armLoop I px' fuel k := by
  intro fuel
  induction fuel with
  | zero => intro k _; rfl
  | succ n ih =>
    intro k h
    unfold armLoop
    rw [h 0 (by omega), h (k + 1) (by omega), ih (k + 1) (fun j hj => h j (by omega))]

theorem armLoop_snd_le (I : Rat) (px : Nat → Val) (fuel k : Nat) : (armLoop I px fuel k).2 ≤ k + fuel := by
  rw [C11.armLoop_eq]
  have := C11.cnt_le I px fuel k
  simp only
  split <;> omega

/-- the longest possible arm for `cbca_distance = dist` -/
def armBound (dist : Nat) : Nat := max (dist - 1) 1

/-- **One arm only reads the `armBound` nearest pixels in its direction**, provided there is that much
    room up to the border in both settings. -/
theorem armCoded_transport (mr : MinRule) (I : Rat) (px px' : Nat → Val) (dist room room' : Nat)
    (hroom : armBound dist ≤ room) (hroom' : armBound dist ≤ room')
    (h : ∀ j, j ≤ armBound dist → px j = px' j) :
    armCoded mr I px dist room = armCoded mr I px' dist room' := by
  unfold armBound at *
  unfold armCoded iters
  have e1 : min (dist - 1) room = dist - 1 := by omega
  have e2 : min (dist - 1) room' = dist - 1 := by omega
  rw [e1, e2, armLoop_congr I px px' (dist - 1) 0 (fun j hj => h j (by omega))]
  have hle := armLoop_snd_le I px' (dist - 1) 0
  have d1 : decide (1 ≤ room) = true := by simp; omega
  have d2 : decide (1 ≤ room') = true := by simp; omega
  rw [d1, d2]
  cases mr with
  | loopVar => simp only; rw [h _ (by omega)]
  | neighbour => simp only; rw [h 1 (by omega)]

theorem armCoded_le_bound (mr : MinRule) (I : Rat) (px : Nat → Val) (dist room : Nat) :
    armCoded mr I px dist room ≤ armBound dist := by
  unfold armCoded iters armBound
  rw [C11.armLoop_eq]
  have := C11.cnt_le I px (min (dist - 1) room) 0
  simp only [Nat.zero_add]
  generalize (decide (1 ≤ room) && _) = b
  cases b <;> simp <;> omega

/-- the four arms of a pixel are at most `armBound` long -/
theorem crossSupport_le_bound (mr : MinRule) (H W dist : Nat) (I : Rat) (img : Cbca.Img) (y x : Nat) :
    (crossSupport mr H W dist I img y x).left ≤ armBound dist ∧
    (crossSupport mr H W dist I img y x).right ≤ armBound dist ∧
    (crossSupport mr H W dist I img y x).top ≤ armBound dist ∧
    (crossSupport mr H W dist I img y x).bot ≤ armBound dist := by
  unfold crossSupport
  split
  · exact ⟨armCoded_le_bound .., armCoded_le_bound .., armCoded_le_bound .., armCoded_le_bound ..⟩
  · simp

/-- **The horizontal arms of a pixel only read its row, `armBound` pixels each way.** -/
theorem crossSupport_horizontal_transport (mr : MinRule) (H W H' W' dist : Nat) (I : Rat) (img img' : Cbca.Img)
    (y x ty tx : Nat) (hl : armBound dist ≤ x) (hr : x + armBound dist + 1 ≤ W')
    (hW : x + tx + armBound dist + 1 ≤ W)
    (h : ∀ x', x - armBound dist ≤ x' → x' ≤ x + armBound dist → img' y x' = img (y + ty) (x' + tx)) :
    (crossSupport mr H' W' dist I img' y x).left = (crossSupport mr H W dist I img (y + ty) (x + tx)).left ∧
    (crossSupport mr H' W' dist I img' y x).right = (crossSupport mr H W dist I img (y + ty) (x + tx)).right := by
  unfold crossSupport
  rw [h x (by omega) (by omega)]
  split
  · simp only
    constructor
    · apply armCoded_transport mr I _ _ dist _ _ (by omega) (by omega)
      intro j hj
      rw [h (x - j) (by omega) (by omega)]
      congr 1; omega
    · apply armCoded_transport mr I _ _ dist _ _ (by omega) (by omega)
      intro j hj
      rw [h (x + j) (by omega) (by omega)]
      congr 1; omega
  · simp

/-- **The vertical arms of a pixel only read its column, `armBound` pixels each way.** -/
theorem crossSupport_vertical_transport (mr : MinRule) (H W H' W' dist : Nat) (I : Rat) (img img' : Cbca.Img)
    (y x ty tx : Nat) (hl : armBound dist ≤ y) (hr : y + armBound dist + 1 ≤ H')
    (hH : y + ty + armBound dist + 1 ≤ H)
    (h : ∀ y', y - armBound dist ≤ y' → y' ≤ y + armBound dist → img' y' x = img (y' + ty) (x + tx)) :
    (crossSupport mr H' W' dist I img' y x).top = (crossSupport mr H W dist I img (y + ty) (x + tx)).top ∧
    (crossSupport mr H' W' dist I img' y x).bot = (crossSupport mr H W dist I img (y + ty) (x + tx)).bot := by
  unfold crossSupport
  rw [h y (by omega) (by omega)]
  split
  · simp only
    constructor
    · apply armCoded_transport mr I _ _ dist _ _ (by omega) (by omega)
      intro j hj
      rw [h (y - j) (by omega) (by omega)]
      congr 1; omega
    · apply armCoded_transport mr I _ _ dist _ _ (by omega) (by omega)
      intro j hj
      rw [h (y + j) (by omega) (by omega)]
      congr 1; omega
  · simp

/-! ### the pre-filtered images -/

theorem median3_transport (H W H' W' : Nat) (g g' : Cbca.Img) (y x ty tx : Nat)
    (hin' : 1 ≤ y ∧ y + 1 < H' ∧ 1 ≤ x ∧ x + 1 < W') (hin : y + ty + 1 < H ∧ x + tx + 1 < W)
    (h : ∀ y' x', y - 1 ≤ y' → y' ≤ y + 1 → x - 1 ≤ x' → x' ≤ x + 1 → g' y' x' = g (y' + ty) (x' + tx)) :
    median3 H' W' g' y x = median3 H W g (y + ty) (x + tx) := by
  unfold median3
  have hw : window3 g' y x = window3 g (y + ty) (x + tx) := by
    unfold window3
    have e1 : y + ty - 1 = y - 1 + ty := by omega
    have e2 : x + tx - 1 = x - 1 + tx := by omega
    have e3 : y + ty + 1 = y + 1 + ty := by omega
    have e4 : x + tx + 1 = x + 1 + tx := by omega
    rw [e1, e2, e3, e4,
      h (y - 1) (x - 1) (by omega) (by omega) (by omega) (by omega),
      h (y - 1) x (by omega) (by omega) (by omega) (by omega),
      h (y - 1) (x + 1) (by omega) (by omega) (by omega) (by omega),
      h y (x - 1) (by omega) (by omega) (by omega) (by omega),
      h y x (by omega) (by omega) (by omega) (by omega),
      h y (x + 1) (by omega) (by omega) (by omega) (by omega),
      h (y + 1) (x - 1) (by omega) (by omega) (by omega) (by omega),
      h (y + 1) x (by omega) (by omega) (by omega) (by omega),
      h (y + 1) (x + 1) (by omega) (by omega) (by omega) (by omega)]
  rw [h y x (by omega) (by omega) (by omega) (by omega), hw]
  have c1 : 1 ≤ y ∧ y + 1 < H' ∧ 1 ≤ x ∧ x + 1 < W' := hin'
  have c2 : 1 ≤ y + ty ∧ y + ty + 1 < H ∧ 1 ≤ x + tx ∧ x + tx + 1 < W := by omega
  rw [if_pos c1, if_pos c2]

/-- `inp'` is the crop of the scene of `inp` starting at `(ty, tx)` (full-image coordinates), with the same
    configuration -/
structure CropOf (inp inp' : Input) (ty tx : Nat) : Prop where
  off : inp'.off = inp.off
  dist : inp'.dist = inp.dist
  I : inp'.I = inp.I
  subpix : inp'.subpix = inp.subpix
  mr : inp'.mr = inp.mr
  hasMskL : inp'.hasMskL = inp.hasMskL
  validL : inp'.validL = inp.validL
  hasMskR : inp'.hasMskR = inp.hasMskR
  validR : inp'.validR = inp.validR
  fitH : ty + inp'.H ≤ inp.H
  fitW : tx + inp'.W ≤ inp.W
  imL : ∀ y x, y < inp'.H → x < inp'.W → inp'.imL y x = inp.imL (y + ty) (x + tx)
  mskL : ∀ y x, y < inp'.H → x < inp'.W → inp'.mskL y x = inp.mskL (y + ty) (x + tx)
  imR : ∀ y x, y < inp'.H → x < inp'.W → inp'.imR y x = inp.imR (y + ty) (x + tx)
  mskR : ∀ y x, y < inp'.H → x < inp'.W → inp'.mskR y x = inp.mskR (y + ty) (x + tx)

theorem filteredL_transport {inp inp' : Input} {ty tx : Nat} (hc : CropOf inp inp' ty tx) (y x : Nat)
    (hin : 1 ≤ y ∧ y + 1 < inp'.H ∧ 1 ≤ x ∧ x + 1 < inp'.W) :
    inp'.filteredL y x = inp.filteredL (y + ty) (x + tx) := by
  have h1 := hc.fitH
  have h2 := hc.fitW
  unfold Input.filteredL
  apply median3_transport _ _ _ _ _ _ y x ty tx hin (by omega)
  intro y' x' _ _ _ _
  unfold maskedImg
  rw [hc.hasMskL, hc.validL, hc.imL y' x' (by omega) (by omega), hc.mskL y' x' (by omega) (by omega)]

theorem filteredR_transport {inp inp' : Input} {ty tx : Nat} (hc : CropOf inp inp' ty tx) (k y x : Nat)
    (hin : 1 ≤ y ∧ y + 1 < inp'.H ∧ 1 ≤ x ∧ x + 2 < inp'.W) :
    inp'.filteredR k y x = inp.filteredR k (y + ty) (x + tx) := by
  have h1 := hc.fitH
  have h2 := hc.fitW
  unfold Input.filteredR
  by_cases hk : k = 0
  · rw [if_pos hk, if_pos hk]
    apply median3_transport _ _ _ _ _ _ y x ty tx (by omega) (by omega)
    intro y' x' _ _ _ _
    unfold maskedImg
    rw [hc.hasMskR, hc.validR, hc.imR y' x' (by omega) (by omega), hc.mskR y' x' (by omega) (by omega)]
  · rw [if_neg hk, if_neg hk]
    apply median3_transport _ _ _ _ _ _ y x ty tx (by omega) (by omega)
    intro y' x' _ _ _ _
    unfold shiftedImg
    have e : x' + tx + 1 = x' + 1 + tx := by omega
    rw [hc.hasMskR, hc.validR, hc.subpix, e, hc.imR y' x' (by omega) (by omega),
      hc.mskR y' x' (by omega) (by omega), hc.imR y' (x' + 1) (by omega) (by omega),
      hc.mskR y' (x' + 1) (by omega) (by omega)]

/-! ### the cross supports of the crop are those of the whole, away from the crop's border -/

theorem crossL_horizontal {inp inp' : Input} {ty tx : Nat} (hc : CropOf inp inp' ty tx) (ya xa : Nat)
    (hy : 1 ≤ ya ∧ ya + 1 < inp'.h)
    (hx : armBound inp.dist + 1 ≤ xa ∧ xa + armBound inp.dist + 1 < inp'.w) :
    (inp'.crossL ya xa).left = (inp.crossL (ya + ty) (xa + tx)).left ∧
    (inp'.crossL ya xa).right = (inp.crossL (ya + ty) (xa + tx)).right := by
  have h1 := hc.fitH
  have h2 := hc.fitW
  have ho := hc.off
  unfold Input.h at hy
  unfold Input.w at hx
  unfold Input.crossL Input.h Input.w
  rw [hc.mr, hc.dist, hc.I]
  apply crossSupport_horizontal_transport inp.mr _ _ _ _ inp.dist inp.I _ _ ya xa ty tx (by omega) (by omega)
    (by omega)
  intro x' hx1 hx2
  unfold crop
  rw [filteredL_transport hc (ya + inp'.off) (x' + inp'.off) (by omega), ho]
  congr 1 <;> omega

theorem crossL_vertical {inp inp' : Input} {ty tx : Nat} (hc : CropOf inp inp' ty tx) (ya xa : Nat)
    (hy : armBound inp.dist + 1 ≤ ya ∧ ya + armBound inp.dist + 1 < inp'.h)
    (hx : 1 ≤ xa ∧ xa + 1 < inp'.w) :
    (inp'.crossL ya xa).top = (inp.crossL (ya + ty) (xa + tx)).top ∧
    (inp'.crossL ya xa).bot = (inp.crossL (ya + ty) (xa + tx)).bot := by
  have h1 := hc.fitH
  have h2 := hc.fitW
  have ho := hc.off
  unfold Input.h at hy
  unfold Input.w at hx
  unfold Input.crossL Input.h Input.w
  rw [hc.mr, hc.dist, hc.I]
  apply crossSupport_vertical_transport inp.mr _ _ _ _ inp.dist inp.I _ _ ya xa ty tx (by omega) (by omega)
    (by omega)
  intro y' hy1 hy2
  unfold crop
  rw [filteredL_transport hc (y' + inp'.off) (xa + inp'.off) (by omega), ho]
  congr 1 <;> omega

theorem crossR_horizontal {inp inp' : Input} {ty tx : Nat} (hc : CropOf inp inp' ty tx) (k ya xr : Nat)
    (hy : 1 ≤ ya ∧ ya + 1 < inp'.h)
    (hx : armBound inp.dist + 1 ≤ xr ∧ xr + armBound inp.dist + 2 < inp'.w) :
    (inp'.crossR k ya xr).left = (inp.crossR k (ya + ty) (xr + tx)).left ∧
    (inp'.crossR k ya xr).right = (inp.crossR k (ya + ty) (xr + tx)).right := by
  have h1 := hc.fitH
  have h2 := hc.fitW
  have ho := hc.off
  unfold Input.h at hy
  unfold Input.w at hx
  unfold Input.crossR Input.h Input.wr
  rw [hc.mr, hc.dist, hc.I]
  apply crossSupport_horizontal_transport inp.mr _ _ _ _ inp.dist inp.I _ _ ya xr ty tx (by omega)
    (by split <;> omega) (by split <;> omega)
  intro x' hx1 hx2
  unfold crop
  rw [filteredR_transport hc k (ya + inp'.off) (x' + inp'.off) (by omega), ho]
  congr 1 <;> omega

theorem crossR_vertical {inp inp' : Input} {ty tx : Nat} (hc : CropOf inp inp' ty tx) (k ya xr : Nat)
    (hy : armBound inp.dist + 1 ≤ ya ∧ ya + armBound inp.dist + 1 < inp'.h)
    (hx : 1 ≤ xr ∧ xr + 2 < inp'.w) :
    (inp'.crossR k ya xr).top = (inp.crossR k (ya + ty) (xr + tx)).top ∧
    (inp'.crossR k ya xr).bot = (inp.crossR k (ya + ty) (xr + tx)).bot := by
  have h1 := hc.fitH
  have h2 := hc.fitW
  have ho := hc.off
  unfold Input.h at hy
  unfold Input.w at hx
  unfold Input.crossR Input.h Input.wr
  rw [hc.mr, hc.dist, hc.I]
  apply crossSupport_vertical_transport inp.mr _ _ _ _ inp.dist inp.I _ _ ya xr ty tx (by omega) (by omega)
    (by omega)
  intro y' hy1 hy2
  unfold crop
  rw [filteredR_transport hc k (y' + inp'.off) (xr + inp'.off) (by omega), ho]
  congr 1 <;> omega

/-! ### the facing column -/

theorem floor_add_nat (c : ℚ) (n : Nat) : (c + (n : ℚ)).floor = c.floor + (n : Int) := by
  apply le_antisymm
  · have h := Rat.lt_floor_add_one c
    push_cast at h
    have : (c + (n : ℚ)).floor < c.floor + (n : Int) + 1 :=
      Rat.floor_lt_iff.mpr (by push_cast; linarith)
    omega
  · exact Rat.le_floor_iff.mpr (by push_cast; linarith [Rat.floor_le c])

/-- the facing right column of `x` is `xr`, and that of `x + tx` is `xr + tx` -/
theorem rightCol_transport (d : ℚ) (Wr Wr' x tx : Nat) (h0 : 0 ≤ (x : ℚ) + d)
    (hW' : ((x : ℚ) + d).floor.toNat + 1 ≤ Wr') (hW : ((x : ℚ) + d).floor.toNat + tx + 1 ≤ Wr) :
    rightCol d Wr' x = some ((x : ℚ) + d).floor.toNat ∧
    rightCol d Wr (x + tx) = some (((x : ℚ) + d).floor.toNat + tx) := by
  have hf0 : 0 ≤ ((x : ℚ) + d).floor := Rat.le_floor_iff.mpr (by simpa using h0)
  have hlt := Rat.lt_floor_add_one ((x : ℚ) + d)
  push_cast at hlt
  have hnat : ((((x : ℚ) + d).floor.toNat : Nat) : ℚ) = ((((x : ℚ) + d).floor : Int) : ℚ) := by
    have : ((((x : ℚ) + d).floor.toNat : Nat) : Int) = ((x : ℚ) + d).floor := Int.toNat_of_nonneg hf0
    exact_mod_cast congrArg (fun z : Int => (z : ℚ)) this
  constructor
  · unfold rightCol
    have hlt' : (x : ℚ) + d < (Wr' : ℚ) := by
      have : ((((x : ℚ) + d).floor.toNat + 1 : Nat) : ℚ) ≤ (Wr' : ℚ) := by exact_mod_cast hW'
      push_cast at this
      linarith
    simp only [h0, hlt', and_self, if_true]
  · unfold rightCol
    have e : (((x + tx : Nat) : ℚ) + d) = ((x : ℚ) + d) + (tx : ℚ) := by push_cast; ring
    rw [e]
    have h0' : 0 ≤ (x : ℚ) + d + (tx : ℚ) := by
      have : (0 : ℚ) ≤ (tx : ℚ) := by exact_mod_cast Nat.zero_le tx
      linarith
    have hlt' : (x : ℚ) + d + (tx : ℚ) < (Wr : ℚ) := by
      have : ((((x : ℚ) + d).floor.toNat + tx + 1 : Nat) : ℚ) ≤ (Wr : ℚ) := by exact_mod_cast hW
      push_cast at this
      linarith
    simp only [h0', hlt', and_self, if_true, floor_add_nat]
    congr 1
    omega

theorem hLeft_of_rightCol (P : Plane) (x xr y' : Nat) (h : rightCol P.d P.Wr x = some xr) :
    hLeft P x y' = min (P.armsL y' x).left (P.armsR y' xr).left ∧
    hRight P x y' = min (P.armsL y' x).right (P.armsR y' xr).right := by
  unfold hLeft hRight comb
  simp [h]

/-! ### the whole step -/

/-- **Cross-based aggregation: crop run = whole run on cone-interior pixels.**
    `inp'` is a crop of the scene of `inp` (same configuration, `CropOf`), plane `dsp'` of the crop's volume
    and plane `dsp` of the whole volume are the same disparity and hold the same costs on the crop.
    With `D = armBound cbca_distance`, a pixel `(y, x)` of the crop (full-image coordinates of the crop) such
    that `D + 1` rows above and below it, `D + 1` columns left and right of it, and `D + 1` (`+ 1` for the
    interpolated right image) columns around its facing right column `xr = ⌊x - off + d⌋` lie in the
    aggregated area of the crop gets exactly the aggregated cost of pixel `(y + ty, x + tx)` of the whole
    run.  (`nanOutside`: the costs are NaN where the disparity has no facing column — what the matching cost
    produces; hypothesis of C11's theorem.) -/
theorem cbca_crop_eq_whole (inp inp' : Input) (ty tx : Nat) (hc : CropOf inp inp' ty tx) (dsp dsp' : Nat)
    (hd : inp'.disp dsp' = inp.disp dsp)
    (hcv : ∀ y x, y < inp'.H → x < inp'.W → inp'.cv y x dsp' = inp.cv (y + ty) (x + tx) dsp)
    (hN : nanOutside (inp.plane dsp) = true) (hN' : nanOutside (inp'.plane dsp') = true)
    (y x : Nat)
    (hy : inp.off + armBound inp.dist + 1 ≤ y ∧ y + armBound inp.dist + 1 + inp.off < inp'.H)
    (hx : inp.off + armBound inp.dist + 1 ≤ x ∧ x + armBound inp.dist + 1 + inp.off < inp'.W)
    (hd0 : 0 ≤ ((x - inp.off : Nat) : ℚ) + inp.disp dsp)
    (hxr : armBound inp.dist + 1 ≤ (((x - inp.off : Nat) : ℚ) + inp.disp dsp).floor.toNat ∧
      (((x - inp.off : Nat) : ℚ) + inp.disp dsp).floor.toNat + armBound inp.dist + 2 + 2 * inp.off < inp'.W) :
    aggregate inp' y x dsp' = aggregate inp (y + ty) (x + tx) dsp := by
  have hfH := hc.fitH
  have hfW := hc.fitW
  have ho := hc.off
  -- area coordinates
  obtain ⟨ya, hya⟩ : ∃ ya, y = ya + inp.off := ⟨y - inp.off, by omega⟩
  obtain ⟨xa, hxa⟩ : ∃ xa, x = xa + inp.off := ⟨x - inp.off, by omega⟩
  subst hya hxa
  simp only [Nat.add_sub_cancel] at hd0 hxr
  generalize hxrdef : (((xa : ℚ) + inp.disp dsp).floor.toNat) = xr at hxr
  set D := armBound inp.dist with hD
  have hh' : inp'.h = inp'.H - 2 * inp.off := by unfold Input.h; rw [ho]
  have hw' : inp'.w = inp'.W - 2 * inp.off := by unfold Input.w; rw [ho]
  have hA' : inArea inp' (ya + inp.off) (xa + inp.off) = true := by
    unfold inArea; rw [hh', hw', ho]; simp only [decide_eq_true_eq]; omega
  have hA : inArea inp (ya + inp.off + ty) (xa + inp.off + tx) = true := by
    unfold inArea Input.h Input.w; simp only [decide_eq_true_eq]; omega
  unfold aggregate aggregateWith
  rw [if_pos hA', if_pos hA, ho]
  have ey : ya + inp.off + ty - inp.off = ya + ty := by omega
  have ex : xa + inp.off + tx - inp.off = xa + tx := by omega
  rw [ey, ex, Nat.add_sub_cancel, Nat.add_sub_cancel]
  show aggOut (inp'.plane dsp') ya xa = aggOut (inp.plane dsp) (ya + ty) (xa + tx)
  have hPH' : (inp'.plane dsp').H = inp'.h := rfl
  have hPW' : (inp'.plane dsp').W = inp'.w := rfl
  have hPH : (inp.plane dsp).H = inp.h := rfl
  have hPW : (inp.plane dsp).W = inp.w := rfl
  have hhw : inp.h = inp.H - 2 * inp.off := rfl
  have hww : inp.w = inp.W - 2 * inp.off := rfl
  rw [aggOut_eq_aggSpec _ (C11.crossSupport_in_image _ _ _ _ _ _) hN' ya xa (by rw [hPH', hh']; omega)
      (by rw [hPW', hw']; omega),
    aggOut_eq_aggSpec _ (C11.crossSupport_in_image _ _ _ _ _ _) hN (ya + ty) (xa + tx) (by rw [hPH, hhw]; omega)
      (by rw [hPW, hww]; omega)]
  -- the planes
  set P' := inp'.plane dsp' with hP'
  set P := inp.plane dsp with hP
  set k := iRight inp.subpix (inp.disp dsp) with hk
  have hk' : iRight inp'.subpix (inp'.disp dsp') = k := by rw [hc.subpix, hd]
  have hPd' : P'.d = inp.disp dsp := hd
  have hPd : P.d = inp.disp dsp := rfl
  have hPWr' : P'.Wr = inp'.wr k := by show inp'.wr (iRight inp'.subpix (inp'.disp dsp')) = _; rw [hk']
  have hPWr : P.Wr = inp.wr k := rfl
  have hPaL' : P'.armsL = inp'.crossL := rfl
  have hPaL : P.armsL = inp.crossL := rfl
  have hPaR' : P'.armsR = inp'.crossR k := by show inp'.crossR (iRight inp'.subpix (inp'.disp dsp')) = _; rw [hk']
  have hPaR : P.armsR = inp.crossR k := rfl
  have hPcv' : ∀ a b, P'.cv a b = inp'.cv (a + inp.off) (b + inp.off) dsp' := by
    intro a b; show inp'.cv (a + inp'.off) (b + inp'.off) dsp' = _; rw [ho]
  have hPcv : ∀ a b, P.cv a b = inp.cv (a + inp.off) (b + inp.off) dsp := fun _ _ => rfl
  -- the facing column
  have hwr' : xr + 1 ≤ inp'.wr k := by unfold Input.wr; rw [ho]; split <;> omega
  have hwr : xr + tx + 1 ≤ inp.wr k := by unfold Input.wr; split <;> omega
  have hrc := rightCol_transport (inp.disp dsp) (inp.wr k) (inp'.wr k) xa tx hd0
    (by rw [hxrdef]; exact hwr') (by rw [hxrdef]; exact hwr)
  rw [hxrdef] at hrc
  have hrc' : rightCol P'.d P'.Wr xa = some xr := by rw [hPd', hPWr']; exact hrc.1
  have hrcW : rightCol P.d P.Wr (xa + tx) = some (xr + tx) := by rw [hPd, hPWr]; exact hrc.2
  -- horizontal arms on the rows near the pixel
  have hrows : ∀ y', ya - D ≤ y' → y' ≤ ya + D →
      hLeft P (xa + tx) (y' + ty) = hLeft P' xa y' ∧ hRight P (xa + tx) (y' + ty) = hRight P' xa y' ∧
        hLeft P' xa y' ≤ D ∧ hRight P' xa y' ≤ D := by
    intro y' h1 h2
    have hL := crossL_horizontal hc y' xa (by rw [hh']; omega) (by rw [hw']; omega)
    have hR := crossR_horizontal hc k y' xr (by rw [hh']; omega) (by rw [hw']; omega)
    have e' := hLeft_of_rightCol P' xa xr y' hrc'
    have e := hLeft_of_rightCol P (xa + tx) (xr + tx) (y' + ty) hrcW
    rw [hPaL', hPaR'] at e'
    rw [hPaL, hPaR] at e
    have hb := crossSupport_le_bound inp'.mr inp'.h inp'.w inp'.dist inp'.I (crop inp'.off inp'.filteredL) y' xa
    have hb1 : (inp'.crossL y' xa).left ≤ armBound inp'.dist := hb.1
    have hb2 : (inp'.crossL y' xa).right ≤ armBound inp'.dist := hb.2.1
    rw [hc.dist] at hb1 hb2
    rw [e.1, e.2, e'.1, e'.2, hL.1, hL.2, hR.1, hR.2]
    refine ⟨rfl, rfl, ?_, ?_⟩ <;> omega
  -- the arms of the pixel itself
  have hLh := crossL_horizontal hc ya xa (by rw [hh']; omega) (by rw [hw']; omega)
  have hLv := crossL_vertical hc ya xa (by rw [hh']; omega) (by rw [hw']; omega)
  have hRh := crossR_horizontal hc k ya xr (by rw [hh']; omega) (by rw [hw']; omega)
  have hRv := crossR_vertical hc k ya xr (by rw [hh']; omega) (by rw [hw']; omega)
  have hcomb' : comb P' ya xa = some ⟨min (inp'.crossL ya xa).left (inp'.crossR k ya xr).left,
      min (inp'.crossL ya xa).right (inp'.crossR k ya xr).right,
      min (inp'.crossL ya xa).top (inp'.crossR k ya xr).top,
      min (inp'.crossL ya xa).bot (inp'.crossR k ya xr).bot⟩ := by
    unfold comb; rw [hrc', hPaL', hPaR']
  have hcomb : comb P (ya + ty) (xa + tx) = some ⟨min (inp'.crossL ya xa).left (inp'.crossR k ya xr).left,
      min (inp'.crossL ya xa).right (inp'.crossR k ya xr).right,
      min (inp'.crossL ya xa).top (inp'.crossR k ya xr).top,
      min (inp'.crossL ya xa).bot (inp'.crossR k ya xr).bot⟩ := by
    unfold comb; rw [hrcW, hPaL, hPaR, hLh.1, hLh.2, hLv.1, hLv.2, hRh.1, hRh.2, hRv.1, hRv.2]
  have hbc := crossSupport_le_bound inp'.mr inp'.h inp'.w inp'.dist inp'.I (crop inp'.off inp'.filteredL) ya xa
  have hbt : (inp'.crossL ya xa).top ≤ armBound inp'.dist := hbc.2.2.1
  have hbb : (inp'.crossL ya xa).bot ≤ armBound inp'.dist := hbc.2.2.2
  rw [hc.dist] at hbt hbb
  have hreg := region_transport P P' ya xa ty tx _ hcomb' hcomb (by simp only; omega)
    (by
      intro y' h1 h2
      simp only at h1 h2
      have := hrows y' (by omega) (by omega)
      exact ⟨this.1, this.2.1, by omega⟩)
    (by
      intro y' x' h1 h2 h3 h4
      simp only at h1 h2
      have := hrows y' (by omega) (by omega)
      rw [hPcv, hPcv', hcv (y' + inp.off) (x' + inp.off) (by omega) (by omega)]
      congr 1 <;> omega)
  unfold aggSpec
  have hcell : P'.cv ya xa = P.cv (ya + ty) (xa + tx) := by
    rw [hPcv, hPcv', hcv (ya + inp.off) (xa + inp.off) (by omega) (by omega)]
    congr 1 <;> omega
  rw [hcell, hreg.1, hreg.2]

/-! ### Non-vacuity: a 6 × 8 scene (distance 2, disparity 0) and its 5 × 7 crop starting at (1, 1); pixel
    (2, 2) of the crop satisfies every hypothesis of `cbca_crop_eq_whole` -/

def exWhole : Input where
  H := 6
  W := 8
  off := 0
  imL := fun y x => ((y * x : Nat) : Rat)
  hasMskL := false
  mskL := fun _ _ => 0
  validL := 0
  imR := fun y x => ((y + x : Nat) : Rat)
  hasMskR := false
  mskR := fun _ _ => 0
  validR := 0
  dist := 2
  I := 5
  subpix := 1
  disp := fun _ => 0
  cv := fun y x _ => .num ((y + 2 * x : Nat) : Rat)
  mr := .loopVar

def exCrop : Input :=
  { exWhole with
    H := 5, W := 7
    imL := fun y x => exWhole.imL (y + 1) (x + 1)
    mskL := fun y x => exWhole.mskL (y + 1) (x + 1)
    imR := fun y x => exWhole.imR (y + 1) (x + 1)
    mskR := fun y x => exWhole.mskR (y + 1) (x + 1)
    cv := fun y x d => exWhole.cv (y + 1) (x + 1) d }

theorem exCropOf : CropOf exWhole exCrop 1 1 :=
  ⟨rfl, rfl, rfl, rfl, rfl, rfl, rfl, rfl, rfl, by decide, by decide,
   fun _ _ _ _ => rfl, fun _ _ _ _ => rfl, fun _ _ _ _ => rfl, fun _ _ _ _ => rfl⟩

example : aggregate exCrop 2 2 0 = aggregate exWhole (2 + 1) (2 + 1) 0 :=
  cbca_crop_eq_whole exWhole exCrop 1 1 exCropOf 0 0 rfl (fun _ _ _ _ => rfl)
    (by decide +kernel) (by decide +kernel) 2 2 (by decide) (by decide) (by decide +kernel) (by decide +kernel)

end Pandora.C13
