/- C02 — theorems (placeholder until the property is built). -/
