/-
  C02 — Cost volume holds the configured similarity measure, NaN where not computable.

  Model and specification: `Model/MatchingCost.lean`.  Lemmas: `Lemmas/MC*.lean`.
  The theorems say: for every input of the right shape (odd window, subpix > 0, equal image sizes,
  global min ≤ max), every pixel and every sampled disparity, the cost volume the model computes by following
  the code (shifted images, point intervals, sliding sums / census bit strings / cumulative-sum rasters,
  dilated masks, `dsp` indexing, interval masking) is the cell the statement prescribes: the textbook value
  of the measure when the cost is computable, NaN otherwise.  No size bound appears anywhere.
-/
import PandoraModel.Lemmas.MCMasked
import PandoraModel.Lemmas.MCCensus
import PandoraModel.Generated.MatchingCostConsts

namespace Pandora.C02
open Pandora Pandora.MC

/-! ### 0. What the translator read from the source is what the model uses -/

/-- the bit-trick program of `Census.popcount32b` in the source text is the model's -/
theorem popcount_source_eq_model : Generated.MatchingCostConsts.popcount32b = MC.popcount32b := by
  funext row; rfl

/-- the `type_measure` literals of the three classes are the model's -/
theorem typeMeasure_source_eq_model : Generated.MatchingCostConsts.typeMeasure = MC.typeMeasure := by
  funext m; cases m <;> rfl

/-- the `cmax` expressions of the three classes are the model's -/
theorem cmax_source_eq_model :
    Generated.MatchingCostConsts.cmax = MC.cmaxOf Generated.MatchingCostConsts.cmaxRoundsUp := by
  funext m a b c d w; cases m <;> rfl

/-! ### 1. The cost volume is the specified one -/

/-- From planes that are right before masking (`RawOK`, proved per measure below) to the whole step:
    `compute_cost_volume` followed by `cv_masked` yields, at every pixel `(r, c)` and every sample `j` of the
    disparity range, exactly the cell the statement prescribes (`val` = the value function of the measure). -/
theorem costVolume_eq_specWith_of_raw (x : Input) (h : Shape x) (val : Int → Int → Int → Cell)
    (hg : gridMin x.dminG x.L.rows x.L.cols ≤ gridMax x.dmaxG x.L.rows x.L.cols)
    (hraw : RawOK x val) (r c : Int) (j : Nat)
    (hj : j < nDisp (gridMin x.dminG x.L.rows x.L.cols) (gridMax x.dmaxG x.L.rows x.L.cols) x.sp) :
    costVolume x r c j = specCellWith val x r c (gridMin x.dminG x.L.rows x.L.cols * (x.sp : Int) + j) := by
  have hs := h.sp_pos
  unfold costVolume intervalMask
  simp only
  set gmin := gridMin x.dminG x.L.rows x.L.cols with hgmin
  set gmax := gridMax x.dmaxG x.L.rows x.L.cols with hgmax
  set k : Int := gmin * (x.sp : Int) + j with hk
  have hn := nDisp_eq gmin gmax x.sp hs hg
  have hget := dispRange_getD gmin gmax x.sp hs hg j hj
  rw [dispRange_eq gmin gmax x.sp hs hg] at *
  have hjn : j < ((gmax - gmin) * (x.sp : Int)).toNat + 1 := by omega
  unfold specCellWith
  by_cases h1 : (k < x.dminG r c * (x.sp : Int) ∨ k > x.dmaxG r c * (x.sp : Int))
  · rw [if_pos h1]
    have hc : cause x r c k ≠ .computable := fun hc => ((cause_computable_iff x r c k).mp hc).1 h1
    rw [if_neg hc]
  · rw [if_neg h1, fold_steps x gmin _ _ r c j, if_pos hjn]
    rw [masked_cell x h val hraw gmin _ k r c j (by omega) (by simp only [hget, hk])]
    by_cases hc : cause x r c k = .computable
    · rw [if_pos hc]
      obtain ⟨_, h2, h3, h4, h5⟩ := (cause_computable_iff x r c k).mp hc
      rw [if_pos ⟨h2, h3, h4, h5⟩]
    · rw [if_neg hc]
      have : ¬ (LeftInside x r c ∧ RightInside x c k ∧ maskOk (half x.w) x.mL r c = true ∧ maskOkR x r c k = true) :=
        fun hh => hc ((cause_computable_iff x r c k).mpr ⟨h1, hh⟩)
      rw [if_neg this]

/-- the same with the textbook value function: the model volume is the specified volume -/
theorem costVolume_eq_spec_of_raw (x : Input) (h : Shape x)
    (hg : gridMin x.dminG x.L.rows x.L.cols ≤ gridMax x.dmaxG x.L.rows x.L.cols)
    (hraw : RawOK x (valueSpec x)) (r c : Int) (j : Nat)
    (hj : j < nDisp (gridMin x.dminG x.L.rows x.L.cols) (gridMax x.dmaxG x.L.rows x.L.cols) x.sp) :
    costVolume x r c j = specVolume x r c j :=
  costVolume_eq_specWith_of_raw x h (valueSpec x) hg hraw r c j hj

/-- sad / ssd: the sliding sum over the NaN-padded pixel-wise volume, re-NaN-ed on the border, is the sum of
    absolute / squared differences over the two windows, NaN exactly when a window leaves its image -/
theorem rawOK_sad_ssd (x : Input) (h : Shape x) (hm : x.meas = .sad ∨ x.meas = .ssd) : RawOK x (valueSpec x) := by
  intro k r c
  unfold rawPlane
  rcases hm with hm | hm <;> simp only [hm] <;> exact rawSadSsd_eq x h (by simp [hm]) k r c

/-- zncc: the quotient built from the cumulative-sum mean and variance rasters is the zero-mean normalised
    cross-correlation `cov / √(varL·varR)` (carried symbolically), `0` when a variance vanishes; hypothesis:
    the `1e-15` threshold of `compute_std_raster` does not fire on a non-zero variance -/
theorem rawOK_zncc (x : Input) (h : Shape x) (hm : x.meas = .zncc)
    (hnt : ∀ k r c : Int, NoTiny x x.L.px r c ∧ NoTiny x (fun a b => interpR x.R x.sp k a b) r c) :
    RawOK x (valueSpec x) := by
  intro k r c
  unfold rawPlane
  simp only [hm]
  exact rawZncc_eq x h hm k r c (hnt k r c).1 (hnt k r c).2

/-- **C02, sad and ssd.** -/
theorem costVolume_eq_spec_sad_ssd (x : Input) (h : Shape x) (hm : x.meas = .sad ∨ x.meas = .ssd)
    (hg : gridMin x.dminG x.L.rows x.L.cols ≤ gridMax x.dmaxG x.L.rows x.L.cols) (r c : Int) (j : Nat)
    (hj : j < nDisp (gridMin x.dminG x.L.rows x.L.cols) (gridMax x.dmaxG x.L.rows x.L.cols) x.sp) :
    costVolume x r c j = specVolume x r c j :=
  costVolume_eq_spec_of_raw x h hg (rawOK_sad_ssd x h hm) r c j hj

/-- **C02, zncc.** -/
theorem costVolume_eq_spec_zncc (x : Input) (h : Shape x) (hm : x.meas = .zncc)
    (hnt : ∀ k r c : Int, NoTiny x x.L.px r c ∧ NoTiny x (fun a b => interpR x.R x.sp k a b) r c)
    (hg : gridMin x.dminG x.L.rows x.L.cols ≤ gridMax x.dmaxG x.L.rows x.L.cols) (r c : Int) (j : Nat)
    (hj : j < nDisp (gridMin x.dminG x.L.rows x.L.cols) (gridMax x.dmaxG x.L.rows x.L.cols) x.sp) :
    costVolume x r c j = specVolume x r c j :=
  costVolume_eq_spec_of_raw x h hg (rawOK_zncc x h hm hnt) r c j hj

/-! ### census

  Full-strength statement (not proved in Lean for 25-bit strings):
      `costVolume x r c j = specVolume x r c j`  for `x.meas = .census`,
  i.e. `popcount32b (censusBits w L … ^^^ censusBits w R̃ …) = winCount (fun a b => (L a b > L r c) != (R̃ a b > R̃ r c))`.
  What is proved: everything except that last bit-level identity — the NaN structure (all seven causes), the
  index arithmetic (left window on `(r, c)`, right window on `(r, c + d)` of the interpolated image, truncated
  census coordinates, cropped placement), the masks and the interval — with the value kept in the form the code
  computes it (`valueCensusBits`).  The identity itself is tied to the code by `popcount_9bit` below (every
  argument a 3×3 census can produce, `decide`), by the exhaustive evaluation of the real `Census.popcount32b`
  on all 2^25 arguments (thorough tier; stratified sample in the quick tier) and by the correspondence run, which
  compares the implementation with the textbook Hamming distance (`valueSpec`) cell by cell. -/

theorem rawOK_census (x : Input) (h : Shape x) (hm : x.meas = .census) : RawOK x (valueCensusBits x) := by
  intro k r c
  unfold rawPlane
  simp only [hm]
  exact rawCensus_eq x h k r c

/-- **C02, census (partial: the value is kept as popcount of the xor of the two census strings).** -/
theorem costVolume_eq_spec_census_partial (x : Input) (h : Shape x) (hm : x.meas = .census)
    (hg : gridMin x.dminG x.L.rows x.L.cols ≤ gridMax x.dmaxG x.L.rows x.L.cols) (r c : Int) (j : Nat)
    (hj : j < nDisp (gridMin x.dminG x.L.rows x.L.cols) (gridMax x.dmaxG x.L.rows x.L.cols) x.sp) :
    costVolume x r c j =
      specCellWith (valueCensusBits x) x r c (gridMin x.dminG x.L.rows x.L.cols * (x.sp : Int) + j) :=
  costVolume_eq_specWith_of_raw x h (valueCensusBits x) hg (rawOK_census x h hm) r c j hj

/-- `nan_iff_not_computable` for every measure, zncc included without the variance hypothesis: the cost is NaN
    exactly when one of the causes of the statement holds -/
theorem nan_iff_not_computable (x : Input) (h : Shape x) (val : Int → Int → Int → Cell) (hraw : RawOK x val)
    (hval : ∀ r c k, (val r c k).isNan = false)
    (hg : gridMin x.dminG x.L.rows x.L.cols ≤ gridMax x.dmaxG x.L.rows x.L.cols) (r c : Int) (j : Nat)
    (hj : j < nDisp (gridMin x.dminG x.L.rows x.L.cols) (gridMax x.dmaxG x.L.rows x.L.cols) x.sp) :
    (costVolume x r c j).isNan = true ↔
      cause x r c (gridMin x.dminG x.L.rows x.L.cols * (x.sp : Int) + j) ≠ .computable := by
  rw [costVolume_eq_specWith_of_raw x h val hg hraw r c j hj]
  unfold specCellWith
  split
  · rename_i hc
    simp [hc, hval]
  · rename_i hc
    simp [hc, Cell.isNan]

/-- the Hamming weight computed by `popcount32b` is the number of set bits, for every 9-bit argument
    (everything a 3×3 census xor can produce) -/
def bitCount : Nat → Nat → Nat
  | 0, _ => 0
  | n + 1, x => x % 2 + bitCount n (x / 2)

set_option maxRecDepth 20000 in
theorem popcount_9bit : ∀ x : Fin 512, popcount32b x.val = bitCount 9 x.val := by decide +kernel

end Pandora.C02
