/-
  C02 — Cost volume holds the configured similarity measure, NaN where not computable.

  Model and specification: `Model/MatchingCost.lean`.  Lemmas: `Lemmas/MC*.lean`.
  The theorems say: for every input of the right shape (odd window, subpix > 0, equal image sizes,
  global min ≤ max), every pixel and every sampled disparity, the cost volume the model computes by following
  the code (shifted images, point intervals, sliding sums / census bit strings / cumulative-sum rasters,
  dilated masks, `dsp` indexing, interval masking) is the cell the statement prescribes: the textbook value
  of the measure when the cost is computable, NaN otherwise.  No size bound appears anywhere.
-/
import PandoraModel.Lemmas.MCMasked
import PandoraModel.Lemmas.MCCensus
import PandoraModel.Lemmas.MCCensusBits
import PandoraModel.Lemmas.MCGrid
import PandoraModel.Lemmas.MCCmax
import PandoraModel.Lemmas.MCCauchy
import PandoraModel.Generated.MatchingCostConsts

namespace Pandora.C02
open Pandora Pandora.MC

/-! ### 0. What the translator read from the source is what the model uses -/

/-- the bit-trick program of `Census.popcount32b` in the source text is the model's -/
theorem popcount_source_eq_model : Generated.MatchingCostConsts.popcount32b = MC.popcount32b := by
  funext row; rfl

/-- the `type_measure` literals of the three classes are the model's -/
theorem typeMeasure_source_eq_model : Generated.MatchingCostConsts.typeMeasure = MC.typeMeasure := by
  funext m; cases m <;> rfl

/-- the `cmax` expressions of the three classes are the model's -/
theorem cmax_source_eq_model :
    Generated.MatchingCostConsts.cmax = MC.cmaxOf Generated.MatchingCostConsts.cmaxRoundsUp := by
  funext m a b c d w; cases m <;> rfl

/-! ### 1. The cost volume is the specified one -/

/-- From planes that are right before masking (`RawOK`, proved per measure below) to the whole step:
    `compute_cost_volume` followed by `cv_masked` yields, at every pixel `(r, c)` and every sample `j` of the
    disparity range, exactly the cell the statement prescribes (`val` = the value function of the measure). -/
theorem costVolume_eq_specWith_of_raw (x : Input) (h : Shape x) (val : Int → Int → Int → Cell)
    (hg : gridMin x.dminG x.L.rows x.L.cols ≤ gridMax x.dmaxG x.L.rows x.L.cols)
    (hraw : RawOK x val) (r c : Int) (j : Nat)
    (hj : j < nDisp (gridMin x.dminG x.L.rows x.L.cols) (gridMax x.dmaxG x.L.rows x.L.cols) x.sp) :
    costVolume x r c j = specCellWith val x r c (gridMin x.dminG x.L.rows x.L.cols * (x.sp : Int) + j) := by
  have hs := h.sp_pos
  unfold costVolume intervalMask
  simp only
  set gmin := gridMin x.dminG x.L.rows x.L.cols with hgmin
  set gmax := gridMax x.dmaxG x.L.rows x.L.cols with hgmax
  set k : Int := gmin * (x.sp : Int) + j with hk
  have hn := nDisp_eq gmin gmax x.sp hs hg
  have hget := dispRange_getD gmin gmax x.sp hs hg j hj
  rw [dispRange_eq gmin gmax x.sp hs hg] at *
  have hjn : j < ((gmax - gmin) * (x.sp : Int)).toNat + 1 := by omega
  unfold specCellWith
  by_cases h1 : (k < x.dminG r c * (x.sp : Int) ∨ k > x.dmaxG r c * (x.sp : Int))
  · rw [if_pos h1]
    have hc : cause x r c k ≠ .computable := fun hc => ((cause_computable_iff x r c k).mp hc).1 h1
    rw [if_neg hc]
  · rw [if_neg h1, fold_steps x gmin _ _ r c j, if_pos hjn]
    rw [masked_cell x h val hraw gmin _ k r c j (by omega) (by simp only [hget, hk])]
    by_cases hc : cause x r c k = .computable
    · rw [if_pos hc]
      obtain ⟨_, h2, h3, h4, h5⟩ := (cause_computable_iff x r c k).mp hc
      rw [if_pos ⟨h2, h3, h4, h5⟩]
    · rw [if_neg hc]
      have : ¬ (LeftInside x r c ∧ RightInside x c k ∧ maskOk (half x.w) x.mL r c = true ∧ maskOkR x r c k = true) :=
        fun hh => hc ((cause_computable_iff x r c k).mpr ⟨h1, hh⟩)
      rw [if_neg this]

/-- the same with the textbook value function: the model volume is the specified volume -/
theorem costVolume_eq_spec_of_raw (x : Input) (h : Shape x)
    (hg : gridMin x.dminG x.L.rows x.L.cols ≤ gridMax x.dmaxG x.L.rows x.L.cols)
    (hraw : RawOK x (valueSpec x)) (r c : Int) (j : Nat)
    (hj : j < nDisp (gridMin x.dminG x.L.rows x.L.cols) (gridMax x.dmaxG x.L.rows x.L.cols) x.sp) :
    costVolume x r c j = specVolume x r c j :=
  costVolume_eq_specWith_of_raw x h (valueSpec x) hg hraw r c j hj

/-- sad / ssd: the sliding sum over the NaN-padded pixel-wise volume, re-NaN-ed on the border, is the sum of
    absolute / squared differences over the two windows, NaN exactly when a window leaves its image -/
theorem rawOK_sad_ssd (x : Input) (h : Shape x) (hm : x.meas = .sad ∨ x.meas = .ssd) : RawOK x (valueSpec x) := by
  intro k r c
  unfold rawPlane
  rcases hm with hm | hm <;> simp only [hm] <;> exact rawSadSsd_eq x h (by simp [hm]) k r c

/-- zncc: the quotient built from the cumulative-sum mean and variance rasters is the zero-mean normalised
    cross-correlation `cov / √(varL·varR)` (carried symbolically), `0` when a variance vanishes; hypothesis:
    the `1e-15` threshold of `compute_std_raster` does not fire on a non-zero variance of a window that lies
    in the image -/
theorem rawOK_zncc (x : Input) (h : Shape x) (hm : x.meas = .zncc)
    (hnt : ∀ k r c : Int, LeftInside x r c →
      NoTiny x x.L.px r c ∧ NoTiny x (fun a b => interpR x.R x.sp k a b) r c) :
    RawOK x (valueSpec x) := by
  intro k r c
  unfold rawPlane
  simp only [hm]
  exact rawZncc_eq x h hm k r c (fun hl => (hnt k r c hl).1) (fun hl => (hnt k r c hl).2)

/-- **C02, sad and ssd.** -/
theorem costVolume_eq_spec_sad_ssd (x : Input) (h : Shape x) (hm : x.meas = .sad ∨ x.meas = .ssd)
    (hg : gridMin x.dminG x.L.rows x.L.cols ≤ gridMax x.dmaxG x.L.rows x.L.cols) (r c : Int) (j : Nat)
    (hj : j < nDisp (gridMin x.dminG x.L.rows x.L.cols) (gridMax x.dmaxG x.L.rows x.L.cols) x.sp) :
    costVolume x r c j = specVolume x r c j :=
  costVolume_eq_spec_of_raw x h hg (rawOK_sad_ssd x h hm) r c j hj

/-- **C02, zncc.** -/
theorem costVolume_eq_spec_zncc (x : Input) (h : Shape x) (hm : x.meas = .zncc)
    (hnt : ∀ k r c : Int, LeftInside x r c →
      NoTiny x x.L.px r c ∧ NoTiny x (fun a b => interpR x.R x.sp k a b) r c)
    (hg : gridMin x.dminG x.L.rows x.L.cols ≤ gridMax x.dmaxG x.L.rows x.L.cols) (r c : Int) (j : Nat)
    (hj : j < nDisp (gridMin x.dminG x.L.rows x.L.cols) (gridMax x.dmaxG x.L.rows x.L.cols) x.sp) :
    costVolume x r c j = specVolume x r c j :=
  costVolume_eq_spec_of_raw x h hg (rawOK_zncc x h hm hnt) r c j hj

/-! ### census -/

/-- census, the code's own form of the value: popcount of the xor of the two census strings at the right places -/
theorem rawOK_census_bits (x : Input) (h : Shape x) (hm : x.meas = .census) : RawOK x (valueCensusBits x) := by
  intro k r c
  unfold rawPlane
  simp only [hm]
  exact rawCensus_eq x h k r c

/-- census: bit-packed comparison strings of the (truncated) census images, xor and the `popcount32b` bit
    trick give the Hamming distance of the two strings of comparisons "neighbour > centre"; windows 3 and 5 -/
theorem rawOK_census (x : Input) (h : Shape x) (hm : x.meas = .census) (hw : x.w = 3 ∨ x.w = 5) :
    RawOK x (valueSpec x) := by
  intro k r c
  rw [rawOK_census_bits x h hm k r c]
  split
  · exact valueCensusBits_eq x hm hw r c k
  · rfl

/-- **C02, census.** -/
theorem costVolume_eq_spec_census (x : Input) (h : Shape x) (hm : x.meas = .census) (hw : x.w = 3 ∨ x.w = 5)
    (hg : gridMin x.dminG x.L.rows x.L.cols ≤ gridMax x.dmaxG x.L.rows x.L.cols) (r c : Int) (j : Nat)
    (hj : j < nDisp (gridMin x.dminG x.L.rows x.L.cols) (gridMax x.dmaxG x.L.rows x.L.cols) x.sp) :
    costVolume x r c j = specVolume x r c j :=
  costVolume_eq_spec_of_raw x h hg (rawOK_census x h hm hw) r c j hj

/-- `popcount_correct`: `Census.popcount32b` returns the number of set bits — here for any 32-bit argument
    written with sixteen base-4 digits (`pop2 d` = number of set bits of the digit `d`) -/
theorem popcount_correct (d0 d1 d2 d3 d4 d5 d6 d7 d8 d9 d10 d11 d12 d13 d14 d15 : Nat)
    (h0 : d0 < 4) (h1 : d1 < 4) (h2 : d2 < 4) (h3 : d3 < 4) (h4 : d4 < 4) (h5 : d5 < 4) (h6 : d6 < 4) (h7 : d7 < 4)
    (h8 : d8 < 4) (h9 : d9 < 4) (h10 : d10 < 4) (h11 : d11 < 4) (h12 : d12 < 4) (h13 : d13 < 4) (h14 : d14 < 4)
    (h15 : d15 < 4) :
    popcount32b (Popcount.digits 4 [d0, d1, d2, d3, d4, d5, d6, d7, d8, d9, d10, d11, d12, d13, d14, d15]) =
      Popcount.pop2 d0 + Popcount.pop2 d1 + Popcount.pop2 d2 + Popcount.pop2 d3 + Popcount.pop2 d4 + Popcount.pop2 d5 +
        Popcount.pop2 d6 + Popcount.pop2 d7 + Popcount.pop2 d8 + Popcount.pop2 d9 + Popcount.pop2 d10 +
        Popcount.pop2 d11 + Popcount.pop2 d12 + Popcount.pop2 d13 + Popcount.pop2 d14 + Popcount.pop2 d15 :=
  Popcount.popcount32b_digits d0 d1 d2 d3 d4 d5 d6 d7 d8 d9 d10 d11 d12 d13 d14 d15
    h0 h1 h2 h3 h4 h5 h6 h7 h8 h9 h10 h11 h12 h13 h14 h15

/-- `nan_iff_not_computable` for every measure, zncc included without the variance hypothesis: the cost is NaN
    exactly when one of the causes of the statement holds -/
theorem nan_iff_not_computable (x : Input) (h : Shape x) (val : Int → Int → Int → Cell) (hraw : RawOK x val)
    (hval : ∀ r c k, (val r c k).isNan = false)
    (hg : gridMin x.dminG x.L.rows x.L.cols ≤ gridMax x.dmaxG x.L.rows x.L.cols) (r c : Int) (j : Nat)
    (hj : j < nDisp (gridMin x.dminG x.L.rows x.L.cols) (gridMax x.dmaxG x.L.rows x.L.cols) x.sp) :
    (costVolume x r c j).isNan = true ↔
      cause x r c (gridMin x.dminG x.L.rows x.L.cols * (x.sp : Int) + j) ≠ .computable := by
  rw [costVolume_eq_specWith_of_raw x h val hg hraw r c j hj]
  unfold specCellWith
  split
  · rename_i hc
    simp [hc, hval]
  · rename_i hc
    simp [hc, Cell.isNan]

/-! ### 2. One statement for the executable well-formedness predicate `wfShape` -/

theorem shape_of_wf (x : Input) (h : wfShape x = true) : Shape x := by
  unfold wfShape at h
  simp only [Bool.and_eq_true, decide_eq_true_eq] at h
  obtain ⟨⟨⟨⟨⟨⟨⟨h1, h2⟩, _⟩, h4⟩, h5⟩, h6⟩, _⟩, _⟩ := h
  exact ⟨h1, h2, h5, h6, by omega⟩

theorem gridOK_of_wf (x : Input) (h : wfShape x = true) :
    gridMin x.dminG x.L.rows x.L.cols ≤ gridMax x.dmaxG x.L.rows x.L.cols := by
  have hsh := shape_of_wf x h
  unfold wfShape at h
  simp only [Bool.and_eq_true, decide_eq_true_eq] at h
  obtain ⟨⟨⟨⟨⟨⟨⟨h1, _⟩, h3⟩, _⟩, _⟩, _⟩, h7⟩, _⟩ := h
  have hrows : 0 < x.L.rows := by omega
  apply gridMin_le_gridMax x.dminG x.dmaxG x.L.rows x.L.cols hrows hsh.cols_pos
  unfold gridOrdered at h7
  have h0 := (allZ_iff_int _ _ _).mp h7 0 (le_refl _) (by omega)
  have h00 := (allZ_iff_int _ _ _).mp h0 0 (le_refl _) (by have := hsh.cols_pos; omega)
  simpa using h00

theorem census_window_of_wf (x : Input) (h : wfShape x = true) (hm : x.meas = .census) : x.w = 3 ∨ x.w = 5 := by
  unfold wfShape at h
  simp only [Bool.and_eq_true, Bool.or_eq_true, decide_eq_true_eq] at h
  rcases h.2 with hne | hw
  · simp [hm] at hne
  · exact hw

/-- the zncc hypothesis as the Bool the driver evaluates (`noTinyVariance`, per sampled disparity) -/
theorem noTiny_of_bool (x : Input) (k r c : Int) (hr : 0 ≤ r ∧ r < x.L.rows) (hc : 0 ≤ c ∧ c < x.L.cols)
    (h : noTinyVariance x k = true) :
    NoTiny x x.L.px r c ∧ NoTiny x (fun a b => interpR x.R x.sp k a b) r c := by
  unfold noTinyVariance at h
  have h1 := (allZ_iff_int _ _ _).mp h r hr.1 (by omega)
  have h2 := (allZ_iff_int _ _ _).mp h1 c hc.1 (by omega)
  simp only [Bool.and_eq_true, decide_eq_true_eq] at h2
  exact ⟨h2.1, h2.2⟩

/-- **C02 (all measures).**  For every input accepted by the decidable predicate `wfShape` (odd window, positive
    subpix, images of the same size at least as large as the window, per-pixel `min ≤ max`, census window 3 or 5;
    nothing about where the interval lies)
    — and, for zncc, such that the `1e-15` variance threshold never fires on a non-zero variance
    (`noTinyVariance`, decidable) — the cost volume computed by the model of the code equals, cell by cell, the
    volume the statement prescribes: the textbook measure where the cost is computable, NaN otherwise. -/
theorem costVolume_eq_spec (x : Input) (hwf : wfShape x = true)
    (hz : x.meas = .zncc → ∀ k : Int, noTinyVariance x k = true) (r c : Int) (j : Nat)
    (hj : j < nDisp (gridMin x.dminG x.L.rows x.L.cols) (gridMax x.dmaxG x.L.rows x.L.cols) x.sp) :
    costVolume x r c j = specVolume x r c j := by
  have hsh := shape_of_wf x hwf
  have hg := gridOK_of_wf x hwf
  cases hm : x.meas with
  | sad => exact costVolume_eq_spec_sad_ssd x hsh (Or.inl hm) hg r c j hj
  | ssd => exact costVolume_eq_spec_sad_ssd x hsh (Or.inr hm) hg r c j hj
  | census => exact costVolume_eq_spec_census x hsh hm (census_window_of_wf x hwf hm) hg r c j hj
  | zncc =>
    refine costVolume_eq_spec_zncc x hsh hm ?_ hg r c j hj
    intro k r' c' hl
    obtain ⟨hl1, hl2, hl3, hl4⟩ := hl
    exact noTiny_of_bool x k r' c' ⟨by omega, by omega⟩ ⟨by omega, by omega⟩ (hz hm k)

/-! ### 2b. `cmax_bound` and `type_measure` -/

/-- the quantity whose integer rounding is stored as `cmax` -/
def cmaxExact (x : Input) : Rat :=
  match x.meas with
  | .sad => sadBound x
  | .ssd => ssdBound x
  | .census => (((x.w : Nat) : Rat) * ((x.w : Nat) : Rat))
  | .zncc => 1

theorem cmax_is_rounding (up : Bool) (x : Input) (hm : x.meas = .sad ∨ x.meas = .ssd) :
    cmax up x = roundCmax up (cmaxExact x) := by
  unfold cmax cmaxOf cmaxExact sadBound ssdBound
  rcases hm with hm | hm <;> simp only [hm]

/-- every numeric cost of the volume is bounded by the un-rounded `cmax` expression (sad, ssd, census) -/
theorem cost_le_cmaxExact (x : Input) (hwf : wfShape x = true) (hm : x.meas ≠ .zncc) (r c : Int) (j : Nat)
    (hj : j < nDisp (gridMin x.dminG x.L.rows x.L.cols) (gridMax x.dmaxG x.L.rows x.L.cols) x.sp)
    (q : Rat) (hq : costVolume x r c j = .num q) : q ≤ cmaxExact x := by
  have hsh := shape_of_wf x hwf
  rw [costVolume_eq_spec x hwf (fun h => absurd h hm) r c j hj] at hq
  unfold specVolume specCell at hq
  split at hq
  · rename_i hc
    obtain ⟨_, hl, hr, _, _⟩ := (cause_computable_iff x r c _).mp hc
    unfold cmaxExact
    cases hmeas : x.meas with
    | sad =>
      obtain ⟨q', h1, h2⟩ := sad_value_le x hsh hmeas r c _ hl hr
      rw [h1] at hq
      simp only [Cell.num.injEq] at hq
      simpa [← hq] using h2
    | ssd =>
      obtain ⟨q', h1, h2⟩ := ssd_value_le x hsh hmeas r c _ hl hr
      rw [h1] at hq
      simp only [Cell.num.injEq] at hq
      simpa [← hq] using h2
    | census =>
      unfold valueSpec at hq
      simp only [hmeas, Cell.num.injEq] at hq
      have hw := window_eq x hsh
      have := winCount_le (half x.w) (fun a b => decide (x.L.px a b > x.L.px r c) !=
        decide (interpR x.R x.sp (gridMin x.dminG x.L.rows x.L.cols * (x.sp : Int) + j) a b >
          interpR x.R x.sp (gridMin x.dminG x.L.rows x.L.cols * (x.sp : Int) + j) r c)) r c
      rw [← hw] at this
      rw [← hq]
      simp only
      exact_mod_cast this
    | zncc => exact absurd hmeas hm
  · simp at hq

/-- `cmax_bound` for the code after the proposed fix C02-cmax-ceil (`int(np.ceil(..))`): cost ≤ cmax -/
theorem cmax_bound_up (x : Input) (hwf : wfShape x = true) (hm : x.meas = .sad ∨ x.meas = .ssd) (r c : Int) (j : Nat)
    (hj : j < nDisp (gridMin x.dminG x.L.rows x.L.cols) (gridMax x.dmaxG x.L.rows x.L.cols) x.sp)
    (q : Rat) (hq : costVolume x r c j = .num q) : q ≤ ((cmax true x : Int) : Rat) := by
  have hne : x.meas ≠ .zncc := by rcases hm with h | h <;> simp [h]
  have h1 := cost_le_cmaxExact x hwf hne r c j hj q hq
  rw [cmax_is_rounding true x hm]
  exact le_trans h1 Rat.le_ceil

/-- `cmax_bound` for the code as it stands (`int(..)` truncates): cost < cmax + 1, i.e. cost ≤ cmax whenever the
    un-rounded bound is an integer (integer radiometry at integer disparities); with non-integer radiometry a cost
    can exceed `cmax` by less than one — finding C02-F3 -/
theorem cmax_bound_partial (x : Input) (hwf : wfShape x = true) (hm : x.meas = .sad ∨ x.meas = .ssd) (r c : Int) (j : Nat)
    (hj : j < nDisp (gridMin x.dminG x.L.rows x.L.cols) (gridMax x.dmaxG x.L.rows x.L.cols) x.sp)
    (q : Rat) (hq : costVolume x r c j = .num q) : q < ((cmax false x + 1 : Int) : Rat) := by
  have hne : x.meas ≠ .zncc := by rcases hm with h | h <;> simp [h]
  have h1 := cost_le_cmaxExact x hwf hne r c j hj q hq
  rw [cmax_is_rounding false x hm]
  exact lt_of_le_of_lt h1 (Rat.lt_floor_add_one _)

/-- `cmax_bound`, census: cost ≤ cmax = w² (either rounding) -/
theorem cmax_bound_census (up : Bool) (x : Input) (hwf : wfShape x = true) (hm : x.meas = .census) (r c : Int) (j : Nat)
    (hj : j < nDisp (gridMin x.dminG x.L.rows x.L.cols) (gridMax x.dmaxG x.L.rows x.L.cols) x.sp)
    (q : Rat) (hq : costVolume x r c j = .num q) : q ≤ ((cmax up x : Int) : Rat) := by
  have hne : x.meas ≠ .zncc := by simp [hm]
  have h1 := cost_le_cmaxExact x hwf hne r c j hj q hq
  have hc : cmax up x = ((x.w * x.w : Nat) : Int) := by
    unfold cmax cmaxOf roundCmax
    simp only [hm]
    have : (((x.w : Nat) : Rat) * ((x.w : Nat) : Rat)) = (((x.w * x.w : Nat) : Int) : Rat) := by push_cast; ring
    rw [this, Rat.floor_intCast]
    simp
  rw [hc]
  unfold cmaxExact at h1
  simp only [hm] at h1
  have : (((x.w : Nat) : Rat) * ((x.w : Nat) : Rat)) = ((((x.w * x.w : Nat) : Int)) : Rat) := by push_cast; ring
  rw [this] at h1
  exact h1

/-- `cmax_bound`, zncc: every symbolic cell `cov/√vv` of the volume has `cov² ≤ vv`, i.e. `|zncc| ≤ 1 = cmax`
    (Cauchy–Schwarz over the window) -/
theorem cmax_bound_zncc (x : Input) (hwf : wfShape x = true) (hm : x.meas = .zncc)
    (hz : ∀ k : Int, noTinyVariance x k = true) (r c : Int) (j : Nat)
    (hj : j < nDisp (gridMin x.dminG x.L.rows x.L.cols) (gridMax x.dmaxG x.L.rows x.L.cols) x.sp)
    (cov vv : Rat) (hq : costVolume x r c j = .zn cov vv) : cov * cov ≤ vv := by
  have hsh := shape_of_wf x hwf
  have hw := window_eq x hsh
  rw [costVolume_eq_spec x hwf (fun _ => hz) r c j hj] at hq
  unfold specVolume specCell at hq
  split at hq
  · unfold valueSpec at hq
    simp only [hm] at hq
    split at hq
    · simp at hq
    · simp only [Cell.zn.injEq] at hq
      obtain ⟨h1, h2⟩ := hq
      set k := gridMin x.dminG x.L.rows x.L.cols * (x.sp : Int) + j
      set g : Int → Int → Rat := fun a b => interpR x.R x.sp k a b with hg
      have hcs := cauchy_window (half x.w) x.L.px g r c
      simp only at hcs
      have hN : ((x.w * x.w : Nat) : Rat) = ((2 * half x.w + 1 : Nat) : Rat) * ((2 * half x.w + 1 : Nat) : Rat) := by
        rw [← hw]; push_cast; ring
      set N : Rat := ((2 * half x.w + 1 : Nat) : Rat) * ((2 * half x.w + 1 : Nat) : Rat) with hNdef
      have hNpos : 0 < N := by
        have : (0 : Rat) < ((2 * half x.w + 1 : Nat) : Rat) := by exact_mod_cast Nat.succ_pos _
        exact mul_pos this this
      set Sx := winSum (half x.w) x.L.px r c
      set Sy := winSum (half x.w) g r c
      set Sxy := winSum (half x.w) (fun a b => x.L.px a b * g a b) r c
      set Sxx := winSum (half x.w) (fun a b => x.L.px a b * x.L.px a b) r c
      set Syy := winSum (half x.w) (fun a b => g a b * g a b) r c
      rw [hN] at h1 h2
      have hN0 : N ≠ 0 := ne_of_gt hNpos
      have ecov : cov = (N * Sxy - Sx * Sy) / (N * N) := by rw [← h1]; field_simp
      have evv : vv = ((N * Sxx - Sx * Sx) * (N * Syy - Sy * Sy)) / ((N * N) * (N * N)) := by rw [← h2]; field_simp
      rw [ecov, evv, div_mul_div_comm]
      exact div_le_div_of_nonneg_right hcs (le_of_lt (mul_pos (mul_pos hNpos hNpos) (mul_pos hNpos hNpos)))
  · simp at hq

/-- the truncated `cmax` of the code can be exceeded: radiometry in quarters, window 1 (finding C02-F3) -/
theorem cmax_bound_counterexample :
    ∃ (maxL minL maxR minR : Rat), (cmaxOf false .sad maxL minL maxR minR 1 : Int) = 1 ∧
      ratAbs (maxL - minR) = 3 / 2 := by
  refine ⟨7 / 4, 1 / 4, 7 / 4, 1 / 4, ?_, ?_⟩
  · unfold cmaxOf roundCmax ratMax ratAbs
    have e : ((if ((7 : Rat) / 4 - 1 / 4 < 0) then -((7 : Rat) / 4 - 1 / 4) else (7 : Rat) / 4 - 1 / 4)) = 3 / 2 := by norm_num
    simp only [e, le_refl, if_true, Bool.false_eq_true, if_false]
    have h1 : (1 : Int) ≤ ((3 : Rat) / 2 * (((1 : Nat) : Rat) * ((1 : Nat) : Rat))).floor := Rat.le_floor_iff.mpr (by norm_num)
    have h2 : ((3 : Rat) / 2 * (((1 : Nat) : Rat) * ((1 : Nat) : Rat))).floor < 2 := Rat.floor_lt_iff.mpr (by norm_num)
    omega
  · unfold ratAbs; norm_num

/-! ### 3. Non-vacuity: a concrete input satisfies the hypotheses and has computable and non-computable cells -/

namespace Example

def exL : Img := { rows := 3, cols := 4, px := fun r c => ((r * r + 2 * c : Int) : Rat) }
def exR : Img := { rows := 3, cols := 4, px := fun r c => ((r * r + 2 * c - 1 : Int) : Rat) }
/-- one invalid pixel (code 2) at row 1, column 2 -/
def exMask : Mask := { present := true, code := fun r c => if r = 1 ∧ c = 2 then 2 else 0, valid := 0, nodata := 1 }
/-- 3×4 pair, window 3, subpix 2, per-pixel grids `[-1, 1]` (`[0, 1]` in column 0), masks on both sides -/
def exIn (m : Measure) : Input where
  meas := m
  w := 3
  sp := 2
  L := exL
  R := exR
  mL := exMask
  mR := exMask
  dminG := fun _ c => if c = 0 then 0 else -1
  dmaxG := fun _ _ => 1

example : wf (exIn .sad) = true := by decide
example : wf (exIn .ssd) = true := by decide
example : wf (exIn .census) = true := by decide
example : wf (exIn .zncc) = true := by decide
example : cause (exIn .sad) 1 1 0 = .computable := by decide
example : cause (exIn .sad) 1 1 2 = .maskedRight := by decide
example : cause (exIn .sad) 1 1 (-1) = .windowRight := by decide
example : cause (exIn .sad) 0 1 0 = .windowLeft := by decide
example : cause (exIn .sad) 1 0 (-2) = .outsideInterval := by decide
example : NoTiny (exIn .zncc) (exIn .zncc).L.px 1 1 := by
  unfold NoTiny winSum
  simp only [exIn, exL, half, sumZ, tiny, ratAbs]
  norm_num

end Example

end Pandora.C02
