/-
  C02 — Cost volume holds the configured similarity measure, NaN where not computable.
  (theorems; work in progress)
-/
import PandoraModel.Model.MatchingCost
import PandoraModel.Generated.MatchingCostConsts

namespace Pandora.C02
open Pandora Pandora.MC

/-! ### 0. What the translator read from the source is what the model uses -/

/-- the bit-trick program of `Census.popcount32b` in the source text is the model's -/
theorem popcount_source_eq_model : Generated.MatchingCostConsts.popcount32b = MC.popcount32b := by
  funext row; rfl

/-- the `type_measure` literals of the three classes are the model's -/
theorem typeMeasure_source_eq_model : Generated.MatchingCostConsts.typeMeasure = MC.typeMeasure := by
  funext m; cases m <;> rfl

/-- the `cmax` expressions of the three classes are the model's -/
theorem cmax_source_eq_model :
    Generated.MatchingCostConsts.cmax = MC.cmaxOf Generated.MatchingCostConsts.cmaxRoundsUp := by
  funext m a b c d w; cases m <;> rfl

end Pandora.C02
