/-
  C13 — cross-based cost aggregation at CLIPPED cones, array level (generalises `C13Cbca.lean`).

  `C13Cbca.cbca_crop_eq_whole` is about cone-interior pixels: every arm has `armBound dist` pixels of room, every
  filtered pixel is interior to the 3×3 pre-filter.  Here each of the four sides of the crop is EITHER the border of
  the image itself (then the border rules of the model — arm room up to the border of the aggregated area, copied
  one-pixel border of `median3`, untouched `offset_row_col` margin, right images of width `W - 1`, no facing right
  column — apply identically in both runs) OR far enough from the pixel:

      D  = armBound dist = max (dist - 1) 1                       (longest possible arm)
      Rv = D + max 1 off                                          (rows; `off = offset_row_col`)
      Rl = Rv + (−⌊d⌋)⁺ ,  Rr = Rv + (⌊d⌋ + [d fractional])⁺      (columns, `d` = the disparity of the plane)

  * `specAgg`                 the aggregated cost volume as the property prescribes it (region mean inside the area,
                              untouched margin); `aggregate_eq_specAgg` (from C11) : it is what the model computes;
  * `armCoded_transport'`     an arm reads `min (armBound dist) room` pixels in its direction;
  * `median3_transport'`, `filteredL_transport'`, `filteredR_transport'`   the pre-filter with "same border or interior";
  * `crossSupport_h_transport'`, `crossSupport_v_transport'`, `crossL_h'`, `crossL_v'`, `crossR_h'`, `crossR_v'`;
  * `rightCol_eq`             the facing column in integers; `side_status` : same status (some/none) in crop and whole;
  * `region_transport_arms`, `region_none`, `arms_crop_eq_whole`, `aggSpec_crop_eq_whole` (inside the area);
  * **`specAgg_crop_eq_whole`**  the generalised transport;  **`cbca_crop_eq_whole_clipped`** : for `aggregate`;
  * **`specAgg_cv_congr`**    the costs are read only inside the square of radius `armBound dist`.
-/
import PandoraModel.Properties.C13Cbca

namespace Pandora.C13
open Pandora Pandora.Cbca

/-! ### the specification side of the whole step -/

/-- the aggregated cost volume as the property prescribes it: region mean inside the aggregated area, the margin
    of width `offset_row_col` untouched -/
def specAgg (inp : Input) (y x dsp : Nat) : Val :=
  if inArea inp y x then aggSpec (inp.plane dsp) (y - inp.off) (x - inp.off) else inp.cv y x dsp

/-- **the model computes `specAgg`** (C11: `aggOut_spec`, `crossSupport_in_image`) -/
theorem aggregate_eq_specAgg (inp : Input) (dsp : Nat) (hN : nanOutside (inp.plane dsp) = true) (y x : Nat) :
    aggregate inp y x dsp = specAgg inp y x dsp := by
  unfold aggregate aggregateWith specAgg
  by_cases hA : inArea inp y x = true
  · rw [if_pos hA, if_pos hA]
    obtain ⟨hy, hx⟩ := C11.inArea_spec hA
    exact aggOut_eq_aggSpec (inp.plane dsp) (C11.crossSupport_in_image inp.mr inp.h inp.w inp.dist inp.I _) hN _ _ hy hx
  · rw [if_neg hA, if_neg hA]

/-! ### arms: "same room or enough room" -/

/-- **One arm reads the `min (armBound dist) room` nearest pixels in its direction** — whatever the room. -/
theorem armCoded_transport' (mr : MinRule) (I : Rat) (px px' : Nat → Val) (dist room room' : Nat)
    (hroom : min (armBound dist) room = min (armBound dist) room')
    (h : ∀ j, j ≤ min (armBound dist) room → px j = px' j) :
    armCoded mr I px dist room = armCoded mr I px' dist room' := by
  unfold armBound at *
  unfold armCoded iters
  have e1 : min (dist - 1) room = min (dist - 1) room' := by omega
  rw [← e1, armLoop_congr I px px' (min (dist - 1) room) 0 (fun j hj => h j (by omega))]
  have hle := armLoop_snd_le I px' (min (dist - 1) room) 0
  by_cases h1 : 1 ≤ room
  · have h1' : 1 ≤ room' := by omega
    have d1 : decide (1 ≤ room) = true := by simpa using h1
    have d2 : decide (1 ≤ room') = true := by simpa using h1'
    rw [d1, d2]
    cases mr with
    | loopVar => simp only; rw [h _ (by omega)]
    | neighbour => simp only; rw [h 1 (by omega)]
  · have h1' : ¬ 1 ≤ room' := by omega
    have d1 : decide (1 ≤ room) = false := by simpa using h1
    have d2 : decide (1 ≤ room') = false := by simpa using h1'
    rw [d1, d2]
    simp

/-- the horizontal arms of a pixel: same room (clipped at `armBound`) on both sides, same row within the arms' reach -/
theorem crossSupport_h_transport' (mr : MinRule) (H W H' W' dist : Nat) (I : Rat) (img img' : Cbca.Img)
    (y x ty tx : Nat)
    (hl : min (armBound dist) x = min (armBound dist) (x + tx))
    (hr : min (armBound dist) (W' - 1 - x) = min (armBound dist) (W - 1 - (x + tx)))
    (h : ∀ x', x - min (armBound dist) x ≤ x' → x' ≤ x + min (armBound dist) (W' - 1 - x) →
      img' y x' = img (y + ty) (x' + tx)) :
    (crossSupport mr H' W' dist I img' y x).left = (crossSupport mr H W dist I img (y + ty) (x + tx)).left ∧
    (crossSupport mr H' W' dist I img' y x).right = (crossSupport mr H W dist I img (y + ty) (x + tx)).right := by
  unfold crossSupport
  rw [h x (by omega) (by omega)]
  split
  · simp only
    constructor
    · apply armCoded_transport' mr I _ _ dist _ _ hl
      intro j hj
      rw [h (x - j) (by omega) (by omega)]
      congr 1; omega
    · apply armCoded_transport' mr I _ _ dist _ _ hr
      intro j hj
      rw [h (x + j) (by omega) (by omega)]
      congr 1; omega
  · simp

/-- the vertical arms of a pixel -/
theorem crossSupport_v_transport' (mr : MinRule) (H W H' W' dist : Nat) (I : Rat) (img img' : Cbca.Img)
    (y x ty tx : Nat)
    (hl : min (armBound dist) y = min (armBound dist) (y + ty))
    (hr : min (armBound dist) (H' - 1 - y) = min (armBound dist) (H - 1 - (y + ty)))
    (h : ∀ y', y - min (armBound dist) y ≤ y' → y' ≤ y + min (armBound dist) (H' - 1 - y) →
      img' y' x = img (y' + ty) (x + tx)) :
    (crossSupport mr H' W' dist I img' y x).top = (crossSupport mr H W dist I img (y + ty) (x + tx)).top ∧
    (crossSupport mr H' W' dist I img' y x).bot = (crossSupport mr H W dist I img (y + ty) (x + tx)).bot := by
  unfold crossSupport
  rw [h y (by omega) (by omega)]
  split
  · simp only
    constructor
    · apply armCoded_transport' mr I _ _ dist _ _ hl
      intro j hj
      rw [h (y - j) (by omega) (by omega)]
      congr 1; omega
    · apply armCoded_transport' mr I _ _ dist _ _ hr
      intro j hj
      rw [h (y + j) (by omega) (by omega)]
      congr 1; omega
  · simp

/-! ### the 3×3 pre-filter: "same border or interior" -/

/-- the interior test of `median3` has the same truth value in both settings, the window agrees when it holds, the
    centre always -/
theorem median3_transport' (H W H' W' : Nat) (g g' : Cbca.Img) (y x ty tx : Nat)
    (hin : (1 ≤ y ∧ y + 1 < H' ∧ 1 ≤ x ∧ x + 1 < W') ↔ (1 ≤ y + ty ∧ y + ty + 1 < H ∧ 1 ≤ x + tx ∧ x + tx + 1 < W))
    (h0 : g' y x = g (y + ty) (x + tx))
    (h : (1 ≤ y ∧ y + 1 < H' ∧ 1 ≤ x ∧ x + 1 < W') →
      ∀ y' x', y - 1 ≤ y' → y' ≤ y + 1 → x - 1 ≤ x' → x' ≤ x + 1 → g' y' x' = g (y' + ty) (x' + tx)) :
    median3 H' W' g' y x = median3 H W g (y + ty) (x + tx) := by
  unfold median3
  rw [h0]
  by_cases c1 : 1 ≤ y ∧ y + 1 < H' ∧ 1 ≤ x ∧ x + 1 < W'
  · have c2 := hin.1 c1
    have h := h c1
    have hw : window3 g' y x = window3 g (y + ty) (x + tx) := by
      unfold window3
      have e1 : y + ty - 1 = y - 1 + ty := by omega
      have e2 : x + tx - 1 = x - 1 + tx := by omega
      have e3 : y + ty + 1 = y + 1 + ty := by omega
      have e4 : x + tx + 1 = x + 1 + tx := by omega
      rw [e1, e2, e3, e4,
        h (y - 1) (x - 1) (by omega) (by omega) (by omega) (by omega),
        h (y - 1) x (by omega) (by omega) (by omega) (by omega),
        h (y - 1) (x + 1) (by omega) (by omega) (by omega) (by omega),
        h y (x - 1) (by omega) (by omega) (by omega) (by omega),
        h y x (by omega) (by omega) (by omega) (by omega),
        h y (x + 1) (by omega) (by omega) (by omega) (by omega),
        h (y + 1) (x - 1) (by omega) (by omega) (by omega) (by omega),
        h (y + 1) x (by omega) (by omega) (by omega) (by omega),
        h (y + 1) (x + 1) (by omega) (by omega) (by omega) (by omega)]
    rw [if_pos c1, if_pos c2, hw]
  · have c2 : ¬ (1 ≤ y + ty ∧ y + ty + 1 < H ∧ 1 ≤ x + tx ∧ x + tx + 1 < W) := fun c => c1 (hin.2 c)
    rw [if_neg c1, if_neg c2]

/-- the filtered left image of a crop: each side of the crop is the image's border, or the pixel is not on it -/
theorem filteredL_transport' {inp inp' : Input} {ty tx : Nat} (hc : CropOf inp inp' ty tx) (y x : Nat)
    (hy : y < inp'.H) (hx : x < inp'.W)
    (ht : ty = 0 ∨ 1 ≤ y) (hb : ty + inp'.H = inp.H ∨ y + 1 < inp'.H)
    (hl : tx = 0 ∨ 1 ≤ x) (hr : tx + inp'.W = inp.W ∨ x + 1 < inp'.W) :
    inp'.filteredL y x = inp.filteredL (y + ty) (x + tx) := by
  have h1 := hc.fitH
  have h2 := hc.fitW
  have hm : ∀ y' x', y' < inp'.H → x' < inp'.W →
      maskedImg inp'.imL inp'.hasMskL inp'.mskL inp'.validL y' x'
        = maskedImg inp.imL inp.hasMskL inp.mskL inp.validL (y' + ty) (x' + tx) := by
    intro y' x' hy' hx'
    unfold maskedImg
    rw [hc.hasMskL, hc.validL, hc.imL y' x' hy' hx', hc.mskL y' x' hy' hx']
  unfold Input.filteredL
  apply median3_transport' _ _ _ _ _ _ y x ty tx (by omega) (hm y x hy hx)
  intro hin y' x' _ _ _ _
  exact hm y' x' (by omega) (by omega)

/-- `1` when the right image is an interpolated one (width `W - 1`, one more column read) -/
def fracK (k : Nat) : Nat := if k = 0 then 0 else 1

theorem fracK_le (k : Nat) : fracK k ≤ 1 := by unfold fracK; split <;> omega

theorem wr_eq (inp : Input) (k : Nat) : inp.wr k = inp.W - fracK k - 2 * inp.off := by
  unfold Input.wr fracK; split <;> omega

/-- the filtered `k`-th shifted right image of a crop (width `W` for `k = 0`, else `W - 1`, one more column read) -/
theorem filteredR_transport' {inp inp' : Input} {ty tx : Nat} (hc : CropOf inp inp' ty tx) (k y x : Nat)
    (hy : y < inp'.H) (hx : x + fracK k < inp'.W)
    (ht : ty = 0 ∨ 1 ≤ y) (hb : ty + inp'.H = inp.H ∨ y + 1 < inp'.H)
    (hl : tx = 0 ∨ 1 ≤ x) (hr : tx + inp'.W = inp.W ∨ x + 1 + fracK k < inp'.W) :
    inp'.filteredR k y x = inp.filteredR k (y + ty) (x + tx) := by
  have h1 := hc.fitH
  have h2 := hc.fitW
  unfold Input.filteredR
  unfold fracK at hx hr
  by_cases hk : k = 0
  · rw [if_pos hk] at hx hr
    rw [if_pos hk, if_pos hk]
    have hm : ∀ y' x', y' < inp'.H → x' < inp'.W →
        maskedImg inp'.imR inp'.hasMskR inp'.mskR inp'.validR y' x'
          = maskedImg inp.imR inp.hasMskR inp.mskR inp.validR (y' + ty) (x' + tx) := by
      intro y' x' hy' hx'
      unfold maskedImg
      rw [hc.hasMskR, hc.validR, hc.imR y' x' hy' hx', hc.mskR y' x' hy' hx']
    apply median3_transport' _ _ _ _ _ _ y x ty tx (by omega) (hm y x hy (by omega))
    intro hin y' x' _ _ _ _
    exact hm y' x' (by omega) (by omega)
  · rw [if_neg hk] at hx hr
    rw [if_neg hk, if_neg hk]
    have hm : ∀ y' x', y' < inp'.H → x' + 1 < inp'.W →
        shiftedImg inp'.subpix k inp'.imR inp'.hasMskR inp'.mskR inp'.validR y' x'
          = shiftedImg inp.subpix k inp.imR inp.hasMskR inp.mskR inp.validR (y' + ty) (x' + tx) := by
      intro y' x' hy' hx'
      unfold shiftedImg
      have e : x' + tx + 1 = x' + 1 + tx := by omega
      rw [hc.hasMskR, hc.validR, hc.subpix, e, hc.imR y' x' hy' (by omega),
        hc.mskR y' x' hy' (by omega), hc.imR y' (x' + 1) hy' hx',
        hc.mskR y' (x' + 1) hy' hx']
    apply median3_transport' _ _ _ _ _ _ y x ty tx (by omega) (hm y x hy (by omega))
    intro hin y' x' _ _ _ _
    exact hm y' x' (by omega) (by omega)

/-! ### the cross supports of the crop are those of the whole: each side of the crop is the image's border, or the
    arm (and the 3×3 window of its last pixel) stays inside the crop on that side -/

theorem crossL_h' {inp inp' : Input} {ty tx : Nat} (hc : CropOf inp inp' ty tx) (ya xa : Nat)
    (hya : ya < inp'.h) (hxa : xa < inp'.w)
    (ht : ty = 0 ∨ 1 ≤ ya + inp.off) (hb : ty + inp'.H = inp.H ∨ ya + inp.off + 1 < inp'.H)
    (hl : tx = 0 ∨ armBound inp.dist + max 1 inp.off ≤ xa + inp.off)
    (hr : tx + inp'.W = inp.W ∨ xa + inp.off + armBound inp.dist + max 1 inp.off < inp'.W) :
    (inp'.crossL ya xa).left = (inp.crossL (ya + ty) (xa + tx)).left ∧
    (inp'.crossL ya xa).right = (inp.crossL (ya + ty) (xa + tx)).right := by
  have h1 := hc.fitH
  have h2 := hc.fitW
  have ho := hc.off
  unfold Input.h at hya
  unfold Input.w at hxa
  unfold Input.crossL Input.h Input.w
  rw [hc.mr, hc.dist, hc.I]
  rw [ho] at hya hxa ⊢
  apply crossSupport_h_transport' inp.mr _ _ _ _ inp.dist inp.I _ _ ya xa ty tx (by omega) (by omega)
  intro x' hx1 hx2
  unfold crop
  rw [filteredL_transport' hc (ya + inp.off) (x' + inp.off) (by omega) (by omega) (by omega) (by omega)
    (by omega) (by omega)]
  congr 1 <;> omega

theorem crossL_v' {inp inp' : Input} {ty tx : Nat} (hc : CropOf inp inp' ty tx) (ya xa : Nat)
    (hya : ya < inp'.h) (hxa : xa < inp'.w)
    (ht : ty = 0 ∨ armBound inp.dist + max 1 inp.off ≤ ya + inp.off)
    (hb : ty + inp'.H = inp.H ∨ ya + inp.off + armBound inp.dist + max 1 inp.off < inp'.H)
    (hl : tx = 0 ∨ armBound inp.dist + max 1 inp.off ≤ xa + inp.off)
    (hr : tx + inp'.W = inp.W ∨ xa + inp.off + armBound inp.dist + max 1 inp.off < inp'.W) :
    (inp'.crossL ya xa).top = (inp.crossL (ya + ty) (xa + tx)).top ∧
    (inp'.crossL ya xa).bot = (inp.crossL (ya + ty) (xa + tx)).bot := by
  have h1 := hc.fitH
  have h2 := hc.fitW
  have ho := hc.off
  unfold Input.h at hya
  unfold Input.w at hxa
  unfold Input.crossL Input.h Input.w
  rw [hc.mr, hc.dist, hc.I]
  rw [ho] at hya hxa ⊢
  apply crossSupport_v_transport' inp.mr _ _ _ _ inp.dist inp.I _ _ ya xa ty tx (by omega) (by omega)
  intro y' hy1 hy2
  unfold crop
  rw [filteredL_transport' hc (y' + inp.off) (xa + inp.off) (by omega) (by omega) (by omega) (by omega)
    (by omega) (by omega)]
  congr 1 <;> omega

theorem crossR_h' {inp inp' : Input} {ty tx : Nat} (hc : CropOf inp inp' ty tx) (k ya xr : Nat)
    (hya : ya < inp'.h) (hxr : xr < inp'.wr k)
    (ht : ty = 0 ∨ 1 ≤ ya + inp.off) (hb : ty + inp'.H = inp.H ∨ ya + inp.off + 1 < inp'.H)
    (hl : tx = 0 ∨ armBound inp.dist + max 1 inp.off ≤ xr + inp.off)
    (hr : tx + inp'.W = inp.W ∨ xr + inp.off + armBound inp.dist + max 1 inp.off + fracK k < inp'.W) :
    (inp'.crossR k ya xr).left = (inp.crossR k (ya + ty) (xr + tx)).left ∧
    (inp'.crossR k ya xr).right = (inp.crossR k (ya + ty) (xr + tx)).right := by
  have h1 := hc.fitH
  have h2 := hc.fitW
  have ho := hc.off
  unfold Input.h at hya
  rw [wr_eq] at hxr
  unfold Input.crossR Input.h
  rw [hc.mr, hc.dist, hc.I, wr_eq, wr_eq]
  rw [ho] at hya hxr ⊢
  have hf := fracK_le k
  apply crossSupport_h_transport' inp.mr _ _ _ _ inp.dist inp.I _ _ ya xr ty tx (by omega) (by omega)
  intro x' hx1 hx2
  unfold crop
  rw [filteredR_transport' hc k (ya + inp.off) (x' + inp.off) (by omega) (by omega) (by omega) (by omega)
    (by omega) (by omega)]
  congr 1 <;> omega

theorem crossR_v' {inp inp' : Input} {ty tx : Nat} (hc : CropOf inp inp' ty tx) (k ya xr : Nat)
    (hya : ya < inp'.h) (hxr : xr < inp'.wr k)
    (ht : ty = 0 ∨ armBound inp.dist + max 1 inp.off ≤ ya + inp.off)
    (hb : ty + inp'.H = inp.H ∨ ya + inp.off + armBound inp.dist + max 1 inp.off < inp'.H)
    (hl : tx = 0 ∨ armBound inp.dist + max 1 inp.off ≤ xr + inp.off)
    (hr : tx + inp'.W = inp.W ∨ xr + inp.off + armBound inp.dist + max 1 inp.off + fracK k < inp'.W) :
    (inp'.crossR k ya xr).top = (inp.crossR k (ya + ty) (xr + tx)).top ∧
    (inp'.crossR k ya xr).bot = (inp.crossR k (ya + ty) (xr + tx)).bot := by
  have h1 := hc.fitH
  have h2 := hc.fitW
  have ho := hc.off
  unfold Input.h at hya
  rw [wr_eq] at hxr
  unfold Input.crossR Input.h
  rw [hc.mr, hc.dist, hc.I, wr_eq, wr_eq]
  rw [ho] at hya hxr ⊢
  have hf := fracK_le k
  apply crossSupport_v_transport' inp.mr _ _ _ _ inp.dist inp.I _ _ ya xr ty tx (by omega) (by omega)
  intro y' hy1 hy2
  unfold crop
  rw [filteredR_transport' hc k (y' + inp.off) (xr + inp.off) (by omega) (by omega) (by omega) (by omega)
    (by omega) (by omega)]
  congr 1 <;> omega

/-! ### the facing column, in integers -/

/-- the facing right column of the (integer) column `x` at disparity `d` is `x + ⌊d⌋`, when that is a column -/
theorem rightCol_eq (d : ℚ) (Wr x : Nat) :
    rightCol d Wr x =
      if 0 ≤ (x : Int) + d.floor ∧ (x : Int) + d.floor < (Wr : Int) then some ((x : Int) + d.floor).toNat else none := by
  unfold rightCol
  have hfl : ((x : ℚ) + d).floor = (x : Int) + d.floor := by
    rw [add_comm, floor_add_nat, add_comm]
  have h1 : (0 ≤ (x : ℚ) + d) ↔ 0 ≤ (x : Int) + d.floor := by
    rw [← hfl]
    constructor
    · intro h; exact Rat.le_floor_iff.mpr (by simpa using h)
    · intro h
      have := Rat.le_floor_iff.mp h
      simpa using this
  have h2 : ((x : ℚ) + d < (Wr : ℚ)) ↔ (x : Int) + d.floor < (Wr : Int) := by
    rw [← hfl]
    constructor
    · intro h; exact Rat.floor_lt_iff.mpr (by simpa using h)
    · intro h
      have := Rat.floor_lt_iff.mp h
      simpa using this
  simp only [h1, h2, hfl]

/-! ### one plane of the crop and of the whole -/

theorem Arms.eq_of (a b : Arms) (h1 : a.left = b.left) (h2 : a.right = b.right) (h3 : a.top = b.top)
    (h4 : a.bot = b.bot) : a = b := by
  cases a; cases b; simp_all

/-- **The region sum and the region size, from the arms** (planes abstract): same facing column (translated), same
    arms at the pixel, same horizontal arms on the rows within `D`, left arms inside the `h' × w'` area and at most
    `D` long, same costs inside the square of radius `D` (clipped to the area). -/
theorem region_transport_arms (P P' : Plane) (ya xa xr ty tx D h' w' : Nat)
    (hrc' : rightCol P'.d P'.Wr xa = some xr) (hrc : rightCol P.d P.Wr (xa + tx) = some (xr + tx))
    (hin : ∀ y', y' < h' → (P'.armsL y' xa).left ≤ xa ∧ xa + (P'.armsL y' xa).right < w' ∧
      (P'.armsL y' xa).left ≤ D ∧ (P'.armsL y' xa).right ≤ D)
    (hinv : (P'.armsL ya xa).top ≤ ya ∧ ya + (P'.armsL ya xa).bot < h' ∧
      (P'.armsL ya xa).top ≤ D ∧ (P'.armsL ya xa).bot ≤ D)
    (hL : P'.armsL ya xa = P.armsL (ya + ty) (xa + tx)) (hR : P'.armsR ya xr = P.armsR (ya + ty) (xr + tx))
    (hrows : ∀ y', ya - D ≤ y' → y' ≤ ya + D → y' < h' →
      (P'.armsL y' xa).left = (P.armsL (y' + ty) (xa + tx)).left ∧
      (P'.armsL y' xa).right = (P.armsL (y' + ty) (xa + tx)).right ∧
      (P'.armsR y' xr).left = (P.armsR (y' + ty) (xr + tx)).left ∧
      (P'.armsR y' xr).right = (P.armsR (y' + ty) (xr + tx)).right)
    (hcv : ∀ a b, ya - D ≤ a → a ≤ ya + D → xa - D ≤ b → b ≤ xa + D → a < h' → b < w' →
      P.cv (a + ty) (b + tx) = P'.cv a b) :
    specSum P (ya + ty) (xa + tx) = specSum P' ya xa ∧ specCount P (ya + ty) (xa + tx) = specCount P' ya xa := by
  have hcomb' : comb P' ya xa = some ⟨min (P'.armsL ya xa).left (P'.armsR ya xr).left,
      min (P'.armsL ya xa).right (P'.armsR ya xr).right,
      min (P'.armsL ya xa).top (P'.armsR ya xr).top,
      min (P'.armsL ya xa).bot (P'.armsR ya xr).bot⟩ := by
    unfold comb; rw [hrc']
  have hcomb : comb P (ya + ty) (xa + tx) = some ⟨min (P'.armsL ya xa).left (P'.armsR ya xr).left,
      min (P'.armsL ya xa).right (P'.armsR ya xr).right,
      min (P'.armsL ya xa).top (P'.armsR ya xr).top,
      min (P'.armsL ya xa).bot (P'.armsR ya xr).bot⟩ := by
    unfold comb; rw [hrc, hL, hR]
  have hrows' : ∀ y', ya - D ≤ y' → y' ≤ ya + D → y' < h' →
      hLeft P (xa + tx) (y' + ty) = hLeft P' xa y' ∧ hRight P (xa + tx) (y' + ty) = hRight P' xa y' ∧
        hLeft P' xa y' ≤ xa ∧ xa + hRight P' xa y' < w' ∧ hLeft P' xa y' ≤ D ∧ hRight P' xa y' ≤ D := by
    intro y' h1 h2 h3
    have e' := hLeft_of_rightCol P' xa xr y' hrc'
    have e := hLeft_of_rightCol P (xa + tx) (xr + tx) (y' + ty) hrc
    have hr := hrows y' h1 h2 h3
    have hi := hin y' h3
    rw [e.1, e.2, e'.1, e'.2, ← hr.1, ← hr.2.1, ← hr.2.2.1, ← hr.2.2.2]
    refine ⟨rfl, rfl, ?_, ?_, ?_, ?_⟩ <;> omega
  exact region_transport P P' ya xa ty tx _ hcomb' hcomb (by simp only; omega)
    (by
      intro y' h1 h2
      simp only at h1 h2
      have := hrows' y' (by omega) (by omega) (by omega)
      exact ⟨this.1, this.2.1, this.2.2.1⟩)
    (by
      intro y' x' h1 h2 h3 h4
      simp only at h1 h2
      have := hrows' y' (by omega) (by omega) (by omega)
      exact hcv y' x' (by omega) (by omega) (by omega) (by omega) (by omega) (by omega))

/-- without a facing column the region is the pixel alone -/
theorem region_none (P : Plane) (y x : Nat) (h : rightCol P.d P.Wr x = none) :
    specSum P y x = c0 (P.cv y x) ∧ specCount P y x = 1 := by
  unfold specSum specCount regionOf comb
  rw [h]
  simp

/-! ### arithmetic of the side conditions (clean contexts for `omega`) -/

theorem side_left (tx D m off xa xr : Nat) (fd : Int) (hxr : (xr : Int) = xa + fd)
    (hL : tx = 0 ∨ D + m + (-fd).toNat ≤ xa + off) :
    (tx = 0 ∨ D + m ≤ xa + off) ∧ (tx = 0 ∨ D + m ≤ xr + off) := by omega

theorem side_right (tx W' W D m off xa xr f : Nat) (fd : Int) (hxr : (xr : Int) = xa + fd)
    (hR : tx + W' = W ∨ xa + off + D + m + (fd + (f : Int)).toNat < W') :
    (tx + W' = W ∨ xa + off + D + m < W') ∧ (tx + W' = W ∨ xr + off + D + m + f < W') := by omega

theorem side_row_top (ty D m off ya y' : Nat) (hm : 1 ≤ m) (hT : ty = 0 ∨ D + m ≤ ya + off) (h1 : ya - D ≤ y') :
    ty = 0 ∨ 1 ≤ y' + off := by omega

theorem side_row_bot (ty H' H D m off ya y' : Nat) (hm : 1 ≤ m) (hB : ty + H' = H ∨ ya + off + D + m < H')
    (h2 : y' ≤ ya + D) : ty + H' = H ∨ y' + off + 1 < H' := by omega

theorem toNat_facing (xa tx xr : Nat) (fd : Int) (hxr : (xr : Int) = xa + fd) :
    ((xa : Int) + fd).toNat = xr ∧ (((xa + tx : Nat) : Int) + fd).toNat = xr + tx := by omega

/-- the facing column exists in the crop iff it exists in the whole -/
theorem side_status (tx W' W D m off xa f : Nat) (fd : Int) (hf : f ≤ 1) (hfit : tx + W' ≤ W)
    (hL : tx = 0 ∨ D + m + (-fd).toNat ≤ xa + off) (hm : off ≤ m)
    (hR : tx + W' = W ∨ xa + off + D + m + (fd + (f : Int)).toNat < W') :
    (0 ≤ (xa : Int) + fd ∧ (xa : Int) + fd < ((W' - f - 2 * off : Nat) : Int)) ↔
    (0 ≤ ((xa + tx : Nat) : Int) + fd ∧ ((xa + tx : Nat) : Int) + fd < ((W - f - 2 * off : Nat) : Int)) := by
  omega

/-- the arms of the crop are those of the whole, at the pixel and on the rows within `armBound dist` -/
theorem arms_crop_eq_whole {inp inp' : Input} {ty tx : Nat} (hc : CropOf inp inp' ty tx) (k : Nat) (fd : Int)
    (ya xa xr : Nat) (hya : ya < inp'.h) (hxa : xa < inp'.w) (hxr : (xr : Int) = xa + fd) (hxrlt : xr < inp'.wr k)
    (hT : ty = 0 ∨ armBound inp.dist + max 1 inp.off ≤ ya + inp.off)
    (hB : ty + inp'.H = inp.H ∨ ya + inp.off + armBound inp.dist + max 1 inp.off < inp'.H)
    (hL : tx = 0 ∨ armBound inp.dist + max 1 inp.off + (-fd).toNat ≤ xa + inp.off)
    (hR : tx + inp'.W = inp.W ∨ xa + inp.off + armBound inp.dist + max 1 inp.off
      + (fd + (fracK k : Nat)).toNat < inp'.W) :
    inp'.crossL ya xa = inp.crossL (ya + ty) (xa + tx) ∧ inp'.crossR k ya xr = inp.crossR k (ya + ty) (xr + tx) ∧
    ∀ y', ya - armBound inp.dist ≤ y' → y' ≤ ya + armBound inp.dist → y' < inp'.h →
      (inp'.crossL y' xa).left = (inp.crossL (y' + ty) (xa + tx)).left ∧
      (inp'.crossL y' xa).right = (inp.crossL (y' + ty) (xa + tx)).right ∧
      (inp'.crossR k y' xr).left = (inp.crossR k (y' + ty) (xr + tx)).left ∧
      (inp'.crossR k y' xr).right = (inp.crossR k (y' + ty) (xr + tx)).right := by
  obtain ⟨hlL, hlR⟩ := side_left tx _ _ inp.off xa xr fd hxr hL
  obtain ⟨hrL, hrR⟩ := side_right tx _ _ _ _ inp.off xa xr _ fd hxr hR
  have hrows : ∀ y', ya - armBound inp.dist ≤ y' → y' ≤ ya + armBound inp.dist → y' < inp'.h →
      (inp'.crossL y' xa).left = (inp.crossL (y' + ty) (xa + tx)).left ∧
      (inp'.crossL y' xa).right = (inp.crossL (y' + ty) (xa + tx)).right ∧
      (inp'.crossR k y' xr).left = (inp.crossR k (y' + ty) (xr + tx)).left ∧
      (inp'.crossR k y' xr).right = (inp.crossR k (y' + ty) (xr + tx)).right := by
    intro y' h1 h2 h3
    have ht := side_row_top ty _ _ inp.off ya y' (by omega) hT h1
    have hb := side_row_bot ty _ _ _ _ inp.off ya y' (by omega) hB h2
    have a := crossL_h' hc y' xa h3 hxa ht hb hlL hrL
    have b := crossR_h' hc k y' xr h3 hxrlt ht hb hlR hrR
    exact ⟨a.1, a.2, b.1, b.2⟩
  have hr0 := hrows ya (Nat.sub_le _ _) (Nat.le_add_right _ _) hya
  have hLv := crossL_v' hc ya xa hya hxa hT hB hlL hrL
  have hRv := crossR_v' hc k ya xr hya hxrlt hT hB hlR hrR
  exact ⟨Arms.eq_of _ _ hr0.1 hr0.2.1 hLv.1 hLv.2, Arms.eq_of _ _ hr0.2.2.1 hr0.2.2.2 hRv.1 hRv.2, hrows⟩

/-- the left arms of an input stay in its area and are at most `armBound dist` long -/
theorem crossL_in (inp : Input) (y x : Nat) (hy : y < inp.h) (hx : x < inp.w) :
    ((inp.crossL y x).left ≤ x ∧ x + (inp.crossL y x).right < inp.w ∧
      (inp.crossL y x).left ≤ armBound inp.dist ∧ (inp.crossL y x).right ≤ armBound inp.dist) ∧
    ((inp.crossL y x).top ≤ y ∧ y + (inp.crossL y x).bot < inp.h ∧
      (inp.crossL y x).top ≤ armBound inp.dist ∧ (inp.crossL y x).bot ≤ armBound inp.dist) := by
  have hin := C11.armsInImage_spec (C11.crossSupport_in_image inp.mr inp.h inp.w inp.dist inp.I
    (crop inp.off inp.filteredL)) hy hx
  have hb := crossSupport_le_bound inp.mr inp.h inp.w inp.dist inp.I (crop inp.off inp.filteredL) y x
  exact ⟨⟨hin.1, hin.2.1, hb.1, hb.2.1⟩, hin.2.2.1, hin.2.2.2, hb.2.2.1, hb.2.2.2⟩

/-- **Generalised transport, inside the aggregated area.**  Area coordinates `(ya, xa)` of the crop; each side of
    the crop is the border of the image, or the pixel is `armBound dist + max 1 off` (`+` the disparity, on the
    column sides) away from it. -/
theorem aggSpec_crop_eq_whole (inp inp' : Input) (ty tx : Nat) (hc : CropOf inp inp' ty tx) (dsp dsp' : Nat)
    (hd : inp'.disp dsp' = inp.disp dsp)
    (hcv : ∀ y x, y < inp'.H → x < inp'.W → inp'.cv y x dsp' = inp.cv (y + ty) (x + tx) dsp)
    (ya xa : Nat) (hya : ya < inp'.h) (hxa : xa < inp'.w)
    (hT : ty = 0 ∨ armBound inp.dist + max 1 inp.off ≤ ya + inp.off)
    (hB : ty + inp'.H = inp.H ∨ ya + inp.off + armBound inp.dist + max 1 inp.off < inp'.H)
    (hL : tx = 0 ∨ armBound inp.dist + max 1 inp.off + (-(inp.disp dsp).floor).toNat ≤ xa + inp.off)
    (hR : tx + inp'.W = inp.W ∨ xa + inp.off + armBound inp.dist + max 1 inp.off
      + ((inp.disp dsp).floor + (fracK (iRight inp.subpix (inp.disp dsp)) : Nat)).toNat < inp'.W) :
    aggSpec (inp'.plane dsp') ya xa = aggSpec (inp.plane dsp) (ya + ty) (xa + tx) := by
  have ho := hc.off
  have hk' : iRight inp'.subpix (inp'.disp dsp') = iRight inp.subpix (inp.disp dsp) := by rw [hc.subpix, hd]
  have hPd' : (inp'.plane dsp').d = inp.disp dsp := hd
  have hPWr' : (inp'.plane dsp').Wr = inp'.W - fracK (iRight inp.subpix (inp.disp dsp)) - 2 * inp.off := by
    show inp'.wr (iRight inp'.subpix (inp'.disp dsp')) = _; rw [hk', wr_eq, ho]
  have hPWr : (inp.plane dsp).Wr = inp.W - fracK (iRight inp.subpix (inp.disp dsp)) - 2 * inp.off := by
    show inp.wr _ = _; rw [wr_eq]
  have hPaR' : (inp'.plane dsp').armsR = inp'.crossR (iRight inp.subpix (inp.disp dsp)) := by
    show inp'.crossR (iRight inp'.subpix (inp'.disp dsp')) = _; rw [hk']
  have hcvA : ∀ a b, a < inp'.h → b < inp'.w →
      (inp.plane dsp).cv (a + ty) (b + tx) = (inp'.plane dsp').cv a b := by
    intro a b ha hb
    show inp.cv (a + ty + inp.off) (b + tx + inp.off) dsp = inp'.cv (a + inp'.off) (b + inp'.off) dsp'
    unfold Input.h at ha
    unfold Input.w at hb
    rw [ho] at ha hb ⊢
    rw [hcv (a + inp.off) (b + inp.off) (by omega) (by omega)]
    congr 1 <;> omega
  have hrc' : rightCol (inp'.plane dsp').d (inp'.plane dsp').Wr xa =
      if 0 ≤ (xa : Int) + (inp.disp dsp).floor ∧ (xa : Int) + (inp.disp dsp).floor
        < ((inp'.W - fracK (iRight inp.subpix (inp.disp dsp)) - 2 * inp.off : Nat) : Int)
      then some ((xa : Int) + (inp.disp dsp).floor).toNat else none := by
    rw [rightCol_eq, hPd', hPWr']
  have hrcW : rightCol (inp.plane dsp).d (inp.plane dsp).Wr (xa + tx) =
      if 0 ≤ ((xa + tx : Nat) : Int) + (inp.disp dsp).floor ∧ ((xa + tx : Nat) : Int) + (inp.disp dsp).floor
        < ((inp.W - fracK (iRight inp.subpix (inp.disp dsp)) - 2 * inp.off : Nat) : Int)
      then some (((xa + tx : Nat) : Int) + (inp.disp dsp).floor).toNat else none := by
    rw [rightCol_eq, show (inp.plane dsp).d = inp.disp dsp from rfl, hPWr]
  have hst := side_status tx inp'.W inp.W (armBound inp.dist) (max 1 inp.off) inp.off xa
    (fracK (iRight inp.subpix (inp.disp dsp))) (inp.disp dsp).floor (fracK_le _) hc.fitW
    hL (Nat.le_max_right _ _) hR
  unfold aggSpec
  rw [← hcvA ya xa hya hxa]
  suffices hreg : specSum (inp.plane dsp) (ya + ty) (xa + tx) = specSum (inp'.plane dsp') ya xa ∧
      specCount (inp.plane dsp) (ya + ty) (xa + tx) = specCount (inp'.plane dsp') ya xa by rw [hreg.1, hreg.2]
  by_cases hs : 0 ≤ (xa : Int) + (inp.disp dsp).floor ∧ (xa : Int) + (inp.disp dsp).floor
      < ((inp'.W - fracK (iRight inp.subpix (inp.disp dsp)) - 2 * inp.off : Nat) : Int)
  · -- a facing column in both
    rw [if_pos hs] at hrc'
    rw [if_pos (hst.1 hs)] at hrcW
    obtain ⟨xr, hxr⟩ : ∃ xr : Nat, (xr : Int) = (xa : Int) + (inp.disp dsp).floor :=
      ⟨((xa : Int) + (inp.disp dsp).floor).toNat, (Int.toNat_of_nonneg hs.1)⟩
    obtain ⟨e1, e2⟩ := toNat_facing xa tx xr _ hxr
    rw [e1] at hrc'
    rw [e2] at hrcW
    have hxrlt : xr < inp'.wr (iRight inp.subpix (inp.disp dsp)) := by
      rw [wr_eq, ho]
      have := hs.2
      rw [← hxr] at this
      exact_mod_cast this
    obtain ⟨hAL, hAR, hrows⟩ := arms_crop_eq_whole hc (iRight inp.subpix (inp.disp dsp)) (inp.disp dsp).floor
      ya xa xr hya hxa hxr hxrlt hT hB hL hR
    have hD : armBound inp'.dist = armBound inp.dist := by rw [hc.dist]
    refine region_transport_arms (inp.plane dsp) (inp'.plane dsp') ya xa xr ty tx (armBound inp.dist) inp'.h inp'.w
      hrc' hrcW ?_ ?_ hAL ?_ ?_ ?_
    · intro y' hy'
      have := (crossL_in inp' y' xa hy' hxa).1
      rw [hD] at this
      exact this
    · have := (crossL_in inp' ya xa hya hxa).2
      rw [hD] at this
      exact this
    · rw [hPaR']; exact hAR
    · rw [hPaR']; exact hrows
    · intro a b _ _ _ _ ha hb
      exact hcvA a b ha hb
  · -- no facing column, neither in the crop nor in the whole: the region is the pixel alone
    rw [if_neg hs] at hrc'
    rw [if_neg (fun h => hs (hst.2 h))] at hrcW
    have r' := region_none (inp'.plane dsp') ya xa hrc'
    have r := region_none (inp.plane dsp) (ya + ty) (xa + tx) hrcW
    rw [r.1, r.2, r'.1, r'.2, hcvA ya xa hya hxa]
    exact ⟨rfl, rfl⟩

/-! ### the whole step -/

/-- one coordinate: "in the aggregated area" has the same truth value in the crop and in the whole -/
theorem side_area1 (t n' n D m off p r r' : Nat) (hm : off ≤ m) (fit : t + n' ≤ n)
    (hlo : t = 0 ∨ D + m + r ≤ p) (hhi : t + n' = n ∨ p + D + m + r' < n') :
    (off ≤ p ∧ p < off + (n' - 2 * off)) ↔ (off ≤ p + t ∧ p + t < off + (n - 2 * off)) := by omega

/-- **Generalised transport (the specification side of the whole step).**  `inp'` is a crop of the scene of `inp`
    (`CropOf`: same configuration, the crop's images and masks are those of the whole at `(+ty, +tx)`), planes `dsp'` /
    `dsp` are the same disparity `d` with the same costs on the crop.  For a pixel `(y, x)` of the crop such that each
    side of the crop EITHER is the border of the image OR lies at least `Rv = armBound dist + max 1 off` (rows),
    `Rv + (−⌊d⌋)⁺` (left), `Rv + (⌊d⌋ + [interpolated right image])⁺` (right) away, the prescribed aggregated cost is
    that of pixel `(y + ty, x + tx)` of the whole. -/
theorem specAgg_crop_eq_whole (inp inp' : Input) (ty tx : Nat) (hc : CropOf inp inp' ty tx) (dsp dsp' : Nat)
    (hd : inp'.disp dsp' = inp.disp dsp)
    (hcv : ∀ y x, y < inp'.H → x < inp'.W → inp'.cv y x dsp' = inp.cv (y + ty) (x + tx) dsp)
    (y x : Nat) (hy : y < inp'.H) (hx : x < inp'.W)
    (hT : ty = 0 ∨ armBound inp.dist + max 1 inp.off ≤ y)
    (hB : ty + inp'.H = inp.H ∨ y + armBound inp.dist + max 1 inp.off < inp'.H)
    (hL : tx = 0 ∨ armBound inp.dist + max 1 inp.off + (-(inp.disp dsp).floor).toNat ≤ x)
    (hR : tx + inp'.W = inp.W ∨ x + armBound inp.dist + max 1 inp.off
      + ((inp.disp dsp).floor + (fracK (iRight inp.subpix (inp.disp dsp)) : Nat)).toNat < inp'.W) :
    specAgg inp' y x dsp' = specAgg inp (y + ty) (x + tx) dsp := by
  have ho := hc.off
  have hay := side_area1 ty inp'.H inp.H (armBound inp.dist) (max 1 inp.off) inp.off y 0 0
    (Nat.le_max_right _ _) hc.fitH hT hB
  have hax := side_area1 tx inp'.W inp.W (armBound inp.dist) (max 1 inp.off) inp.off x _ _
    (Nat.le_max_right _ _) hc.fitW hL hR
  unfold specAgg
  by_cases hA' : inArea inp' y x = true
  · have hA'' := hA'
    unfold inArea Input.h Input.w at hA''
    rw [ho] at hA''
    simp only [decide_eq_true_eq] at hA''
    have hA : inArea inp (y + ty) (x + tx) = true := by
      unfold inArea Input.h Input.w
      simp only [decide_eq_true_eq]
      have h1 := hay.1 ⟨hA''.1, hA''.2.1⟩
      have h2 := hax.1 ⟨hA''.2.2.1, hA''.2.2.2⟩
      exact ⟨h1.1, h1.2, h2.1, h2.2⟩
    rw [if_pos hA', if_pos hA, ho]
    obtain ⟨ya, hya⟩ : ∃ ya, y = ya + inp.off := ⟨y - inp.off, by omega⟩
    obtain ⟨xa, hxa⟩ : ∃ xa, x = xa + inp.off := ⟨x - inp.off, by omega⟩
    subst hya hxa
    have ey : ya + inp.off + ty - inp.off = ya + ty := by omega
    have ex : xa + inp.off + tx - inp.off = xa + tx := by omega
    rw [ey, ex, Nat.add_sub_cancel, Nat.add_sub_cancel]
    exact aggSpec_crop_eq_whole inp inp' ty tx hc dsp dsp' hd hcv ya xa
      (by unfold Input.h; rw [ho]; omega) (by unfold Input.w; rw [ho]; omega) hT hB hL hR
  · have hA : ¬ inArea inp (y + ty) (x + tx) = true := by
      intro hA
      apply hA'
      unfold inArea Input.h Input.w at hA ⊢
      rw [ho]
      simp only [decide_eq_true_eq] at hA ⊢
      have h1 := hay.2 ⟨hA.1, hA.2.1⟩
      have h2 := hax.2 ⟨hA.2.2.1, hA.2.2.2⟩
      exact ⟨h1.1, h1.2, h2.1, h2.2⟩
    rw [if_neg hA', if_neg hA]
    exact hcv y x hy hx

/-- **Cross-based aggregation: crop run = whole run at clipped cones** (the model `Cbca.aggregate`; `nanOutside`:
    hypothesis of C11's theorem — the costs are NaN where the disparity has no facing column).  Generalises
    `cbca_crop_eq_whole` (cone-interior pixels) to every pixel whose cone, clipped to the image, lies in the crop. -/
theorem cbca_crop_eq_whole_clipped (inp inp' : Input) (ty tx : Nat) (hc : CropOf inp inp' ty tx) (dsp dsp' : Nat)
    (hd : inp'.disp dsp' = inp.disp dsp)
    (hcv : ∀ y x, y < inp'.H → x < inp'.W → inp'.cv y x dsp' = inp.cv (y + ty) (x + tx) dsp)
    (hN : nanOutside (inp.plane dsp) = true) (hN' : nanOutside (inp'.plane dsp') = true)
    (y x : Nat) (hy : y < inp'.H) (hx : x < inp'.W)
    (hT : ty = 0 ∨ armBound inp.dist + max 1 inp.off ≤ y)
    (hB : ty + inp'.H = inp.H ∨ y + armBound inp.dist + max 1 inp.off < inp'.H)
    (hL : tx = 0 ∨ armBound inp.dist + max 1 inp.off + (-(inp.disp dsp).floor).toNat ≤ x)
    (hR : tx + inp'.W = inp.W ∨ x + armBound inp.dist + max 1 inp.off
      + ((inp.disp dsp).floor + (fracK (iRight inp.subpix (inp.disp dsp)) : Nat)).toNat < inp'.W) :
    aggregate inp' y x dsp' = aggregate inp (y + ty) (x + tx) dsp := by
  rw [aggregate_eq_specAgg inp' dsp' hN', aggregate_eq_specAgg inp dsp hN]
  exact specAgg_crop_eq_whole inp inp' ty tx hc dsp dsp' hd hcv y x hy hx hT hB hL hR

/-! ### the costs are read only inside the square of radius `armBound dist` -/

/-- **The prescribed aggregated cost of `(y, x)` reads the cost volume only inside the square of radius
    `armBound dist` around `(y, x)`** (plane `dsp`; the images and masks decide the region). -/
theorem specAgg_cv_congr (inp : Input) (cv2 : Nat → Nat → Nat → Val) (dsp y x : Nat)
    (h : ∀ i j, y - armBound inp.dist ≤ i → i ≤ y + armBound inp.dist → x - armBound inp.dist ≤ j →
      j ≤ x + armBound inp.dist → inp.cv i j dsp = cv2 i j dsp) :
    specAgg inp y x dsp = specAgg { inp with cv := cv2 } y x dsp := by
  unfold specAgg
  have hAeq : inArea { inp with cv := cv2 } y x = inArea inp y x := rfl
  rw [hAeq]
  by_cases hA : inArea inp y x = true
  · rw [if_pos hA, if_pos hA]
    have hA' := hA
    unfold inArea at hA'
    simp only [decide_eq_true_eq] at hA'
    obtain ⟨ya, hya⟩ : ∃ ya, y = ya + inp.off := ⟨y - inp.off, by omega⟩
    obtain ⟨xa, hxa⟩ : ∃ xa, x = xa + inp.off := ⟨x - inp.off, by omega⟩
    subst hya hxa
    show aggSpec (inp.plane dsp) (ya + inp.off - inp.off) (xa + inp.off - inp.off)
      = aggSpec (Input.plane { inp with cv := cv2 } dsp) (ya + inp.off - inp.off) (xa + inp.off - inp.off)
    rw [Nat.add_sub_cancel, Nat.add_sub_cancel]
    have hyh : ya < inp.h := by omega
    have hxw : xa < inp.w := by omega
    have hcvA : ∀ a b, ya - armBound inp.dist ≤ a → a ≤ ya + armBound inp.dist → xa - armBound inp.dist ≤ b →
        b ≤ xa + armBound inp.dist →
        (Input.plane { inp with cv := cv2 } dsp).cv a b = (inp.plane dsp).cv a b := by
      intro a b h1 h2 h3 h4
      show cv2 (a + inp.off) (b + inp.off) dsp = inp.cv (a + inp.off) (b + inp.off) dsp
      exact (h _ _ (by omega) (by omega) (by omega) (by omega)).symm
    unfold aggSpec
    rw [hcvA ya xa (by omega) (by omega) (by omega) (by omega)]
    suffices hreg : specSum (Input.plane { inp with cv := cv2 } dsp) ya xa = specSum (inp.plane dsp) ya xa ∧
        specCount (Input.plane { inp with cv := cv2 } dsp) ya xa = specCount (inp.plane dsp) ya xa by
      rw [hreg.1, hreg.2]
    cases hrc : rightCol (inp.plane dsp).d (inp.plane dsp).Wr xa with
    | none =>
      have r' := region_none (inp.plane dsp) ya xa hrc
      have r := region_none (Input.plane { inp with cv := cv2 } dsp) ya xa hrc
      rw [r.1, r.2, r'.1, r'.2, hcvA ya xa (by omega) (by omega) (by omega) (by omega)]
      exact ⟨rfl, rfl⟩
    | some xr =>
      exact region_transport_arms (Input.plane { inp with cv := cv2 } dsp) (inp.plane dsp) ya xa xr 0 0
        (armBound inp.dist) inp.h inp.w hrc hrc
        (fun y' hy' => (crossL_in inp y' xa hy' hxw).1) (crossL_in inp ya xa hyh hxw).2 rfl rfl
        (fun _ _ _ _ => ⟨rfl, rfl, rfl, rfl⟩)
        (fun a b h1 h2 h3 h4 _ _ => hcvA a b h1 h2 h3 h4)
  · rw [if_neg hA, if_neg hA]
    exact h y x (by omega) (by omega) (by omega) (by omega)

/-! ### Non-vacuity: the 6 × 8 scene of `C13Cbca` and a 4 × 5 crop starting at (0, 0): the BORDER pixel (0, 1) of the
    crop (top side and left side = the image's borders; `Rv = 2` rows below it, `Rv = 2` columns right of it are in
    the crop) satisfies every hypothesis of `cbca_crop_eq_whole_clipped` -/

def exCrop0 : Input := { exWhole with H := 4, W := 5 }

theorem exCropOf0 : CropOf exWhole exCrop0 0 0 :=
  ⟨rfl, rfl, rfl, rfl, rfl, rfl, rfl, rfl, rfl, by decide, by decide,
   fun _ _ _ _ => rfl, fun _ _ _ _ => rfl, fun _ _ _ _ => rfl, fun _ _ _ _ => rfl⟩

example : aggregate exCrop0 0 1 0 = aggregate exWhole (0 + 0) (1 + 0) 0 :=
  cbca_crop_eq_whole_clipped exWhole exCrop0 0 0 exCropOf0 0 0 rfl (fun _ _ _ _ => rfl)
    (by decide +kernel) (by decide +kernel) 0 1 (by decide) (by decide) (Or.inl rfl)
    (Or.inr (by decide +kernel)) (Or.inl rfl) (Or.inr (by decide +kernel))

end Pandora.C13
