/-
  C20 — Reported margins are a pure, monotone function of the checked pipeline.

  Theorems about `Model/Margins.lean`; the per-class margin formulas and the registration table of
  the check callbacks are regenerated from the source on every run (`Generated/Margins.lean`) and
  proved equal to the documented ones.
-/
import PandoraModel.Model.Margins
import PandoraModel.Generated.Margins
import Mathlib.Tactic.Linarith
import Mathlib.Algebra.Order.Field.Rat

namespace Pandora.C20
open Pandora.Margins Pandora.Machine

/-! ### 1. The source's per-class margins are the documented ones (for every parameter value) -/

/-- half the matching window for every built-in matching cost class -/
theorem matchingCost_margins_documented (c : StepCfg) (rows cols step : Int) (m : String)
    (hm : m ∈ ["sad", "ssd", "zncc", "census"]) :
    Generated.Margins.marginOf "matching_cost" m c rows cols step
      = some (documentedMargin .matchingCost c rows cols step) := by
  simp only [List.mem_cons, List.mem_nil_iff, or_false] at hm
  rcases hm with h | h | h | h <;> subst h <;>
    simp [Generated.Margins.marginOf, documentedMargin, M4.uniform, halfWindow]

/-- median filters: `filter_size * step`; bilateral: `min(rows, cols, int(3 sigma_space + 1)) * step` -/
theorem filter_margins_documented (c : StepCfg) (rows cols step : Int)
    (hm : c.method ∈ ["median", "bilateral", "median_for_intervals"]) :
    Generated.Margins.marginOf "filter" c.method c rows cols step
      = some (documentedMargin .filter c rows cols step) := by
  simp only [List.mem_cons, List.mem_nil_iff, or_false] at hm
  rcases hm with h | h | h <;> rw [h] <;>
    simp [Generated.Margins.marginOf, documentedMargin, M4.uniform, h]

/-- 0 for aggregation, disparity, refinement -/
theorem null_margins_documented (c : StepCfg) (rows cols step : Int) :
    Generated.Margins.marginOf "aggregation" "cbca" c rows cols step = some (documentedMargin .aggregation c rows cols step)
    ∧ Generated.Margins.marginOf "disparity" "wta" c rows cols step = some (documentedMargin .disparity c rows cols step)
    ∧ Generated.Margins.marginOf "refinement" "vfit" c rows cols step = some (documentedMargin .refinement c rows cols step)
    ∧ Generated.Margins.marginOf "refinement" "quadratic" c rows cols step = some (documentedMargin .refinement c rows cols step) := by
  simp [Generated.Margins.marginOf, documentedMargin, M4.zero]

/-- 40 for optimisation: the abstract base class every optimisation plugin inherits from -/
theorem optimization_margins_documented (c : StepCfg) (rows cols step : Int) :
    Generated.Margins.baseMarginOf "optimization" c rows cols step
      = some (documentedMargin .optimization c rows cols step) := by
  simp [Generated.Margins.baseMarginOf, documentedMargin, M4.uniform]

/-- every registered built-in class of a margin-bearing kind is covered by the theorems above -/
theorem registered_classes_covered :
    (Generated.Margins.registered.filter fun r =>
        r.1 == "matching_cost" || r.1 == "filter" || r.1 == "aggregation" || r.1 == "disparity"
        || r.1 == "refinement" || r.1 == "optimization").map (fun r => (r.1, r.2.1))
      = [("aggregation", "cbca"), ("disparity", "wta"), ("filter", "bilateral"), ("filter", "median"),
         ("filter", "median_for_intervals"), ("matching_cost", "census"), ("matching_cost", "sad"),
         ("matching_cost", "ssd"), ("matching_cost", "zncc"), ("refinement", "quadratic"),
         ("refinement", "vfit")] := by decide

def regName : Reg → String
  | .cumulative => "cumulative"
  | .nonCumulative => "non_cumulative"
  | .none => "none"

/-- each `<kind>_check_conf` registers its step's margins the documented way -/
theorem registration_documented :
    Kind.all.all (fun k =>
      (Generated.Margins.registration.find? (fun r => r.1 == k.name ++ "_check_conf")).map (·.2)
        == some (regName (documentedReg k))) = true := by decide


/-! ### 2. The global margins are, per side, the larger of the cumulative sum and each non-cumulative -/

theorem foldl_max_proj (l : List M4) (a : M4) :
    (l.foldl M4.max a).left = l.foldl (fun acc m => max acc m.left) a.left
    ∧ (l.foldl M4.max a).up = l.foldl (fun acc m => max acc m.up) a.up
    ∧ (l.foldl M4.max a).right = l.foldl (fun acc m => max acc m.right) a.right
    ∧ (l.foldl M4.max a).down = l.foldl (fun acc m => max acc m.down) a.down := by
  induction l generalizing a with
  | nil => simp
  | cons x xs ih => simpa [List.foldl_cons, M4.max] using ih (a.max x)

theorem maxMargins_cons (a : M4) (l : List M4) : maxMargins (a :: l) = l.foldl M4.max a := by
  cases l <;> simp [maxMargins]

theorem global_formula (g : Global) :
    g.globalMargins = expectedGlobal g.cumulatives g.nonCumulatives := by
  unfold Global.globalMargins expectedGlobal
  rw [maxMargins_cons]
  obtain ⟨h1, h2, h3, h4⟩ := foldl_max_proj (g.nonCumulatives.map (·.2)) g.cumulatives.sum
  have e : ∀ (f : M4 → Int) (z : Int), (g.nonCumulatives.map (·.2)).foldl (fun acc m => max acc (f m)) z
      = g.nonCumulatives.foldl (fun a e => max a (f e.2)) z := by
    intro f z; rw [List.foldl_map]
  cases hx : List.foldl M4.max (MDict.sum g.cumulatives) (List.map (fun x => x.2) g.nonCumulatives)
  simp only [hx] at h1 h2 h3 h4
  simp only [h1, h2, h3, h4, e]

/-! ### 3. Non-negativity -/

theorem foldl_max_ge (l : List (String × M4)) (f : M4 → Int) (z : Int) :
    z ≤ l.foldl (fun a e => max a (f e.2)) z := by
  induction l generalizing z with
  | nil => simp
  | cons x xs ih => exact Int.le_trans (Int.le_max_left _ _) (ih _)

theorem sum_nonneg_aux (l : MDict) (acc : M4) (ha : acc.nonneg) (h : ∀ e ∈ l, e.2.nonneg) :
    (l.foldl (fun acc e => acc.add e.2) acc).nonneg := by
  induction l generalizing acc with
  | nil => simpa
  | cons x xs ih =>
    apply ih
    · have hx := h x (by simp)
      show (acc.add x.2).nonneg
      unfold M4.nonneg M4.add at *
      simp only []
      omega
    · intro e he; exact h e (by simp [he])

theorem sum_nonneg (l : MDict) (h : ∀ e ∈ l, e.2.nonneg) : l.sum.nonneg :=
  sum_nonneg_aux l M4.zero (by simp [M4.nonneg, M4.zero]) h

/-- the global margins are non-negative as soon as the cumulative ones are -/
theorem global_nonneg (g : Global) (h : ∀ e ∈ g.cumulatives, e.2.nonneg) : g.globalMargins.nonneg := by
  rw [global_formula]
  have hs := sum_nonneg g.cumulatives h
  unfold expectedGlobal M4.nonneg at *
  refine ⟨?_, ?_, ?_, ?_⟩
  · exact Int.le_trans hs.1 (foldl_max_ge _ (·.left) _)
  · exact Int.le_trans hs.2.1 (foldl_max_ge _ (·.up) _)
  · exact Int.le_trans hs.2.2.1 (foldl_max_ge _ (·.right) _)
  · exact Int.le_trans hs.2.2.2 (foldl_max_ge _ (·.down) _)

theorem valid_nonneg (m : M4) (h : m.valid = true) : m.nonneg := by
  simpa [M4.valid, M4.nonneg, and_assoc] using h

theorem uniform_nonneg (v : Int) (h : 0 ≤ v) : (M4.uniform v).nonneg := by
  simp [M4.uniform, M4.nonneg, h]

theorem ratTrunc_nonneg (q : Rat) (hq : 0 ≤ q) : 0 ≤ ratTrunc q := by
  simp only [ratTrunc, hq, if_true]
  exact Rat.le_floor_iff.mpr (by simpa using hq)

/-- documented margins are non-negative for every parameter value the schemas admit -/
theorem documentedMargin_nonneg (k : Kind) (c : StepCfg) (rows cols step : Int)
    (hw : 1 ≤ c.windowSize) (hf : 0 ≤ c.filterSize) (hs : 0 ≤ step) (hr : 0 ≤ rows) (hc : 0 ≤ cols)
    (hsig : 0 ≤ c.sigmaSpace) : (documentedMargin k c rows cols step).nonneg := by
  cases k <;> simp only [documentedMargin] <;>
    first
    | exact uniform_nonneg _ (by decide)
    | (simp [M4.nonneg]; done)
    | skip
  · -- matching cost: half window
    apply uniform_nonneg
    unfold halfWindow
    apply ratTrunc_nonneg
    have : (0 : Rat) ≤ ((c.windowSize - 1 : Int) : Rat) := by exact_mod_cast (by omega : (0 : Int) ≤ c.windowSize - 1)
    exact div_nonneg this (by norm_num)
  · -- filter
    split
    · apply uniform_nonneg
      have h3 : 0 ≤ ratTrunc (3 * c.sigmaSpace + 1) := by
        apply ratTrunc_nonneg
        linarith
      have hm : 0 ≤ min (min rows cols) (ratTrunc (3 * c.sigmaSpace + 1)) := by omega
      exact Int.mul_nonneg hm hs
    · apply uniform_nonneg
      exact Int.mul_nonneg hf hs


/-! ### 4. What `check_conf` registers: exactly the margin-bearing steps, in order, documented values -/

/-- the registrations of one round, in order (the round fails at a name that is not a step kind) -/
def entries (rows cols : Int) : List StepCfg → Int → List Entry
  | [], _ => []
  | c :: cs, step =>
    match entryOf rows cols step c with
    | none => []
    | some (e, step') => e :: entries rows cols cs step'

def stepEnd : List StepCfg → Int → Int
  | [], step => step
  | c :: cs, step =>
    match Kind.ofName? (kindOf c.name) with
    | none => step
    | some k => stepEnd cs (stepAfter step c k)

def applyEntries : List Entry → Global → Option Global
  | [], g => some g
  | e :: es, g =>
    match applyEntry g e with
    | none => none
    | some g' => applyEntries es g'

def KnownKinds (p : List StepCfg) : Prop := ∀ c ∈ p, (Kind.ofName? (kindOf c.name)).isSome = true

theorem round_eq_applyEntries (rows cols : Int) :
    ∀ (p : List StepCfg) (s : MgState), KnownKinds p →
      checkRoundMargins rows cols p s =
        (applyEntries (entries rows cols p s.step) s.g).map (fun g => { g := g, step := stepEnd p s.step }) := by
  intro p
  induction p with
  | nil => intro s _; simp [checkRoundMargins, entries, applyEntries, stepEnd]
  | cons c cs ih =>
    intro s hk
    have hc := hk c (by simp)
    have hcs : KnownKinds cs := fun x hx => hk x (by simp [hx])
    cases hkind : Kind.ofName? (kindOf c.name) with
    | none => simp [hkind] at hc
    | some k =>
      simp only [checkRoundMargins, checkStepMargins, entries, entryOf, hkind, applyEntries, stepEnd]
      cases happ : applyEntry s.g _ with
      | none => simp
      | some g' =>
        simp only []
        rw [ih _ hcs]

def cumOf (es : List Entry) : MDict := (es.filter (fun e => e.reg == Reg.cumulative)).map (fun e => (e.name, e.m))
def nonOf (es : List Entry) : MDict := (es.filter (fun e => e.reg == Reg.nonCumulative)).map (fun e => (e.name, e.m))

theorem entries_cum (rows cols : Int) : ∀ (p : List StepCfg) (step : Int), KnownKinds p →
    cumOf (entries rows cols p step) = expectedEntries .cumulative rows cols p step
    ∧ nonOf (entries rows cols p step) = expectedEntries .nonCumulative rows cols p step := by
  intro p
  induction p with
  | nil => intro _ _; simp [entries, cumOf, nonOf, expectedEntries]
  | cons c cs ih =>
    intro step hk
    have hc := hk c (by simp)
    have hcs : KnownKinds cs := fun x hx => hk x (by simp [hx])
    cases hkind : Kind.ofName? (kindOf c.name) with
    | none => simp [hkind] at hc
    | some k =>
      obtain ⟨h1, h2⟩ := ih (stepAfter step c k) hcs
      simp only [entries, entryOf, hkind, expectedEntries]
      constructor
      · simp only [cumOf] at h1 ⊢
        cases hr : documentedReg k <;> simp [h1]
      · simp only [nonOf] at h2 ⊢
        cases hr : documentedReg k <;> simp [h2]

theorem set_fresh (d : MDict) (k : String) (v : M4) (h : d.has k = false) : d.set k v = d ++ [(k, v)] := by
  unfold MDict.set
  have h' : d.any (fun e => e.1 == k) = false := h
  simp [h']

/-- on a fresh GlobalMargins, distinct step names: the two dictionaries list exactly the
    registrations, in order -/
theorem applyEntries_fresh : ∀ (es : List Entry) (g : Global),
    (es.map (·.name)).Nodup →
    (∀ e ∈ es, e.m.valid = true) →
    (∀ e ∈ es, g.cumulatives.has e.name = false ∧ g.nonCumulatives.has e.name = false) →
    applyEntries es g =
      some { cumulatives := g.cumulatives ++ cumOf es, nonCumulatives := g.nonCumulatives ++ nonOf es } := by
  intro es
  induction es with
  | nil => intro g _ _ _; simp [applyEntries, cumOf, nonOf]
  | cons e es ih =>
    intro g hnd hv hfresh
    have hnd2 : (∀ x ∈ es, ¬x.name = e.name) ∧ (es.map (·.name)).Nodup := by simpa using hnd
    have hnd' : (es.map (·.name)).Nodup := hnd2.2
    have hnotin : ∀ x ∈ es, x.name ≠ e.name := hnd2.1
    have hve := hv e (by simp)
    obtain ⟨hfc, hfn⟩ := hfresh e (by simp)
    have hv' : ∀ x ∈ es, x.m.valid = true := fun x hx => hv x (by simp [hx])
    have hkeys : ∀ (d : MDict) (x : Entry), x ∈ es → d.has x.name = false →
        MDict.has (d ++ [(e.name, e.m)]) x.name = false := by
      intro d x hx hd
      simp [MDict.has] at hd ⊢
      exact ⟨hd, fun h => hnotin x hx h.symm⟩
    cases hr : e.reg with
    | none =>
      simp only [applyEntries, applyEntry, hr]
      rw [ih g hnd' hv' (fun x hx => hfresh x (by simp [hx]))]
      simp [cumOf, nonOf, hr]
    | cumulative =>
      simp only [applyEntries, applyEntry, hr, hve, Global.addCumulative, hfn, set_fresh _ _ _ hfc]
      simp only [Bool.not_true, Bool.false_eq_true, if_false]
      have := ih { cumulatives := g.cumulatives ++ [(e.name, e.m)], nonCumulatives := g.nonCumulatives }
        hnd' hv' (fun x hx => ⟨hkeys _ x hx (hfresh x (by simp [hx])).1, (hfresh x (by simp [hx])).2⟩)
      rw [this]
      simp [cumOf, nonOf, hr]
    | nonCumulative =>
      simp only [applyEntries, applyEntry, hr, hve, Global.addNonCumulative, hfc, set_fresh _ _ _ hfn]
      simp only [Bool.not_true, Bool.false_eq_true, if_false]
      have := ih { cumulatives := g.cumulatives, nonCumulatives := g.nonCumulatives ++ [(e.name, e.m)] }
        hnd' hv' (fun x hx => ⟨(hfresh x (by simp [hx])).1, hkeys _ x hx (hfresh x (by simp [hx])).2⟩)
      rw [this]
      simp [cumOf, nonOf, hr]


theorem entries_names (rows cols : Int) : ∀ (q : List StepCfg) (st : Int), KnownKinds q →
    (entries rows cols q st).map (·.name) = q.map (·.name) := by
  intro q
  induction q with
  | nil => intro _ _; simp [entries]
  | cons c cs ih =>
    intro st hq
    have hc := hq c (by simp)
    cases hkind : Kind.ofName? (kindOf c.name) with
    | none => simp [hkind] at hc
    | some k =>
      simp [entries, entryOf, hkind, ih _ (fun x hx => hq x (by simp [hx]))]

/-- **The reported margins list exactly the margin-bearing steps with the documented values.**
    On a fresh machine, for a pipeline whose step names are distinct and are step kinds, and whose
    parameters are in their domains (margins non-negative): after one checking round the cumulative
    and non-cumulative dictionaries are the expected lists, in pipeline order. -/
theorem margins_listed (rows cols : Int) (p : List StepCfg) (hk : KnownKinds p)
    (hnd : (p.map (·.name)).Nodup)
    (hv : ∀ e ∈ entries rows cols p 1, e.m.valid = true) :
    checkRoundMargins rows cols p {} =
      some { g := { cumulatives := expectedEntries .cumulative rows cols p 1,
                    nonCumulatives := expectedEntries .nonCumulative rows cols p 1 },
             step := stepEnd p 1 } := by
  have hnames := entries_names rows cols
  rw [round_eq_applyEntries rows cols p {} hk]
  have hfresh := applyEntries_fresh (entries rows cols p 1) {} (by rw [hnames p 1 hk]; exact hnd) hv
    (by intro e _; simp [MDict.has])
  obtain ⟨h1, h2⟩ := entries_cum rows cols p 1 hk
  simp only [hfresh]
  simp [h1, h2]

/-! ### 5. The second (right/left) round changes nothing -/

/-- the registration `e` is already in `g`, with the same value -/
def Present (g : Global) (e : Entry) : Prop :=
  e.m.valid = true ∧
  match e.reg with
  | .none => True
  | .cumulative => g.nonCumulatives.has e.name = false ∧ g.cumulatives.has e.name = true
      ∧ ∀ x ∈ g.cumulatives, x.1 = e.name → x.2 = e.m
  | .nonCumulative => g.cumulatives.has e.name = false ∧ g.nonCumulatives.has e.name = true
      ∧ ∀ x ∈ g.nonCumulatives, x.1 = e.name → x.2 = e.m

theorem set_same (d : MDict) (k : String) (v : M4) (hh : d.has k = true)
    (hv : ∀ x ∈ d, x.1 = k → x.2 = v) : d.set k v = d := by
  unfold MDict.set
  have h' : d.any (fun e => e.1 == k) = true := hh
  simp only [h', if_true]
  conv => rhs; rw [← List.map_id d]
  apply List.map_congr_left
  intro x hx
  by_cases hxk : x.1 = k
  · have := hv x hx hxk
    simp [hxk]
    rw [← hxk, ← this]
  · simp [hxk]

theorem applyEntries_noop : ∀ (es : List Entry) (g : Global), (∀ e ∈ es, Present g e) →
    applyEntries es g = some g := by
  intro es
  induction es with
  | nil => intro g _; rfl
  | cons e es ih =>
    intro g h
    have he := h e (by simp)
    have hstep : applyEntry g e = some g := by
      obtain ⟨hv, hp⟩ := he
      unfold applyEntry
      cases hr : e.reg with
      | none => rfl
      | cumulative =>
        simp only [hr] at hp
        obtain ⟨h1, h2, h3⟩ := hp
        simp [hv, Global.addCumulative, h1, set_same _ _ _ h2 h3]
      | nonCumulative =>
        simp only [hr] at hp
        obtain ⟨h1, h2, h3⟩ := hp
        simp [hv, Global.addNonCumulative, h1, set_same _ _ _ h2 h3]
    simp only [applyEntries, hstep]
    exact ih g (fun x hx => h x (by simp [hx]))

theorem eq_of_nodup_names : ∀ (es : List Entry), (es.map (·.name)).Nodup →
    ∀ x ∈ es, ∀ y ∈ es, x.name = y.name → x = y := by
  intro es
  induction es with
  | nil => intro _ x hx; simp at hx
  | cons a as ih =>
    intro hnd x hx y hy hxy
    have h2 : (∀ z ∈ as, ¬z.name = a.name) ∧ (as.map (·.name)).Nodup := by simpa using hnd
    simp only [List.mem_cons] at hx hy
    rcases hx with rfl | hx <;> rcases hy with rfl | hy
    · rfl
    · exact absurd hxy.symm (h2.1 y hy)
    · exact absurd hxy (h2.1 x hx)
    · exact ih h2.2 x hx y hy hxy

/-- in a dictionary with distinct keys built from `es`, every entry of `es` is present -/
theorem present_of_fresh (es : List Entry) (hnd : (es.map (·.name)).Nodup)
    (hv : ∀ e ∈ es, e.m.valid = true) :
    ∀ e ∈ es, Present { cumulatives := cumOf es, nonCumulatives := nonOf es } e := by
  intro e he
  refine ⟨hv e he, ?_⟩
  have huniq : ∀ x ∈ es, x.name = e.name → x = e := by
    intro x hx hname
    exact eq_of_nodup_names es hnd x hx e he hname
  cases hr : e.reg with
  | none => trivial
  | cumulative =>
    refine ⟨?_, ?_, ?_⟩
    · simp only [MDict.has, nonOf, List.any_eq_false]
      intro x hx
      simp only [List.mem_map, List.mem_filter] at hx
      obtain ⟨y, ⟨hy, hyr⟩, rfl⟩ := hx
      intro hn
      have := huniq y hy (by simpa using hn)
      subst this
      simp [hr] at hyr
    · simp only [MDict.has, cumOf, List.any_eq_true]
      exact ⟨(e.name, e.m), by simp only [List.mem_map, List.mem_filter]; exact ⟨e, ⟨he, by simp [hr]⟩, rfl⟩, by simp⟩
    · intro x hx hn
      simp only [cumOf, List.mem_map, List.mem_filter] at hx
      obtain ⟨y, ⟨hy, _⟩, rfl⟩ := hx
      have := huniq y hy hn
      subst this; rfl
  | nonCumulative =>
    refine ⟨?_, ?_, ?_⟩
    · simp only [MDict.has, cumOf, List.any_eq_false]
      intro x hx
      simp only [List.mem_map, List.mem_filter] at hx
      obtain ⟨y, ⟨hy, hyr⟩, rfl⟩ := hx
      intro hn
      have := huniq y hy (by simpa using hn)
      subst this
      simp [hr] at hyr
    · simp only [MDict.has, nonOf, List.any_eq_true]
      exact ⟨(e.name, e.m), by simp only [List.mem_map, List.mem_filter]; exact ⟨e, ⟨he, by simp [hr]⟩, rfl⟩, by simp⟩
    · intro x hx hn
      simp only [nonOf, List.mem_map, List.mem_filter] at hx
      obtain ⟨y, ⟨hy, _⟩, rfl⟩ := hx
      have := huniq y hy hn
      subst this; rfl


/-- a pipeline that starts with its matching cost step (every accepted non-empty pipeline does) -/
def StartsWithMatchingCost : List StepCfg → Prop
  | [] => True
  | c :: _ => Kind.ofName? (kindOf c.name) = some Kind.matchingCost

theorem entries_step_indep (rows cols : Int) (p : List StepCfg) (h : StartsWithMatchingCost p)
    (hne : p ≠ []) (s s' : Int) :
    entries rows cols p s = entries rows cols p s' ∧ stepEnd p s = stepEnd p s' := by
  cases p with
  | nil => exact absurd rfl hne
  | cons c cs =>
    simp only [StartsWithMatchingCost] at h
    simp [entries, entryOf, stepEnd, h, stepAfter]

/-- **The second (right/left) checking round a validation step triggers changes nothing**
    (images of equal shape): same keys, same order, same values, same global margins. -/
theorem second_round_noop (rows cols : Int) (p : List StepCfg) (hk : KnownKinds p)
    (hnd : (p.map (·.name)).Nodup) (hmc : StartsWithMatchingCost p)
    (hv : ∀ e ∈ entries rows cols p 1, e.m.valid = true) :
    checkMargins rows cols rows cols p {} = checkRoundMargins rows cols p {} := by
  unfold checkMargins
  rw [margins_listed rows cols p hk hnd hv]
  simp only []
  by_cases hval : hasKind .validation (p.map (·.name)) = true
  · simp only [hval, if_true]
    by_cases hne : p = []
    · subst hne; simp [checkRoundMargins, expectedEntries, stepEnd]
    · rw [round_eq_applyEntries rows cols p _ hk]
      obtain ⟨he, hs⟩ := entries_step_indep rows cols p hmc hne (stepEnd p 1) 1
      simp only [he, hs]
      obtain ⟨h1, h2⟩ := entries_cum rows cols p 1 hk
      have hnames := entries_names rows cols p 1 hk
      have hpres := present_of_fresh (entries rows cols p 1) (by rw [hnames]; exact hnd) hv
      rw [h1, h2] at hpres
      rw [applyEntries_noop _ _ hpres]
      rfl
  · simp [hval]

/-! ### 6. Monotonicity: adding a step never decreases the global margins -/

theorem foldl_max_mono (l : List (String × M4)) (f : M4 → Int) (a b : Int) (h : a ≤ b) :
    l.foldl (fun acc e => max acc (f e.2)) a ≤ l.foldl (fun acc e => max acc (f e.2)) b := by
  induction l generalizing a b with
  | nil => simpa
  | cons x xs ih => exact ih _ _ (by show max a (f x.2) ≤ max b (f x.2); omega)

theorem foldl_max_insert (l1 l2 : List (String × M4)) (x : String × M4) (f : M4 → Int) (z : Int) :
    (l1 ++ l2).foldl (fun acc e => max acc (f e.2)) z
      ≤ (l1 ++ x :: l2).foldl (fun acc e => max acc (f e.2)) z := by
  simp only [List.foldl_append, List.foldl_cons]
  exact foldl_max_mono l2 f _ _ (Int.le_max_left _ _)

theorem sum_proj_aux (l : MDict) (acc : M4) :
    (l.foldl (fun acc e => acc.add e.2) acc).left = acc.left + (l.map (·.2.left)).sum
    ∧ (l.foldl (fun acc e => acc.add e.2) acc).up = acc.up + (l.map (·.2.up)).sum
    ∧ (l.foldl (fun acc e => acc.add e.2) acc).right = acc.right + (l.map (·.2.right)).sum
    ∧ (l.foldl (fun acc e => acc.add e.2) acc).down = acc.down + (l.map (·.2.down)).sum := by
  induction l generalizing acc with
  | nil => simp
  | cons x xs ih =>
    obtain ⟨h1, h2, h3, h4⟩ := ih (acc.add x.2)
    simp only [List.foldl_cons, List.map_cons, List.sum_cons]
    rw [h1, h2, h3, h4]
    simp only [M4.add]
    omega

theorem sum_insert_le (l1 l2 : MDict) (x : String × M4) (hx : x.2.nonneg) :
    M4.le (MDict.sum (l1 ++ l2)) (MDict.sum (l1 ++ x :: l2)) := by
  unfold MDict.sum M4.le
  obtain ⟨a1, a2, a3, a4⟩ := sum_proj_aux (l1 ++ l2) M4.zero
  obtain ⟨b1, b2, b3, b4⟩ := sum_proj_aux (l1 ++ x :: l2) M4.zero
  simp only [a1, a2, a3, a4, b1, b2, b3, b4, List.map_append, List.map_cons, List.sum_append, List.sum_cons]
  unfold M4.nonneg at hx
  omega

/-- adding a cumulative margin (any position) never decreases the global margins -/
theorem global_mono_cumulative (c1 c2 non : MDict) (x : String × M4) (hx : x.2.nonneg) :
    M4.le (expectedGlobal (c1 ++ c2) non) (expectedGlobal (c1 ++ x :: c2) non) := by
  obtain ⟨h1, h2, h3, h4⟩ := sum_insert_le c1 c2 x hx
  unfold expectedGlobal M4.le
  exact ⟨foldl_max_mono non (·.left) _ _ h1, foldl_max_mono non (·.up) _ _ h2,
         foldl_max_mono non (·.right) _ _ h3, foldl_max_mono non (·.down) _ _ h4⟩

/-- adding a non-cumulative margin (any position) never decreases the global margins -/
theorem global_mono_nonCumulative (cum n1 n2 : MDict) (x : String × M4) :
    M4.le (expectedGlobal cum (n1 ++ n2)) (expectedGlobal cum (n1 ++ x :: n2)) := by
  unfold expectedGlobal M4.le
  exact ⟨foldl_max_insert n1 n2 x (·.left) _, foldl_max_insert n1 n2 x (·.up) _,
         foldl_max_insert n1 n2 x (·.right) _, foldl_max_insert n1 n2 x (·.down) _⟩

/-- inserting a step that is not a matching cost step leaves the other steps' entries unchanged and
    adds its own entry at its place -/
theorem expectedEntries_insert (reg : Reg) (rows cols : Int) (c : StepCfg) (k : Kind)
    (hk : Kind.ofName? (kindOf c.name) = some k) (hmc : k ≠ Kind.matchingCost) :
    ∀ (p1 p2 : List StepCfg) (st : Int),
      ∃ st', expectedEntries reg rows cols (p1 ++ c :: p2) st =
        expectedEntries reg rows cols p1 st ++
          ((if documentedReg k = reg then [(c.name, documentedMargin k c rows cols st')] else [])
            ++ expectedEntries reg rows cols p2 st')
      ∧ expectedEntries reg rows cols (p1 ++ p2) st =
        expectedEntries reg rows cols p1 st ++ expectedEntries reg rows cols p2 st' := by
  intro p1
  induction p1 with
  | nil =>
    intro p2 st
    refine ⟨st, ?_, ?_⟩
    · simp only [List.nil_append, expectedEntries, hk, stepAfter, hmc, if_false]
      split <;> simp
    · simp [expectedEntries]
  | cons a as ih =>
    intro p2 st
    cases ha : Kind.ofName? (kindOf a.name) with
    | none =>
      obtain ⟨st', h1, h2⟩ := ih p2 st
      exact ⟨st', by simp [expectedEntries, ha, h1], by simp [expectedEntries, ha, h2]⟩
    | some ka =>
      obtain ⟨st', h1, h2⟩ := ih p2 (stepAfter st a ka)
      refine ⟨st', ?_, ?_⟩
      · simp only [List.cons_append, expectedEntries, ha, h1]
        split <;> simp
      · simp only [List.cons_append, expectedEntries, ha, h2]
        split <;> simp

/-- **The global margins never decrease when a step is added** (anywhere in the pipeline; the
    added step is not a second matching cost step, which no accepted pipeline can contain). -/
theorem global_monotone (rows cols : Int) (c : StepCfg) (k : Kind)
    (hk : Kind.ofName? (kindOf c.name) = some k) (hmc : k ≠ Kind.matchingCost)
    (hnn : ∀ st, (documentedMargin k c rows cols st).nonneg) (p1 p2 : List StepCfg) :
    M4.le
      (expectedGlobal (expectedEntries .cumulative rows cols (p1 ++ p2) 1)
                      (expectedEntries .nonCumulative rows cols (p1 ++ p2) 1))
      (expectedGlobal (expectedEntries .cumulative rows cols (p1 ++ c :: p2) 1)
                      (expectedEntries .nonCumulative rows cols (p1 ++ c :: p2) 1)) := by
  obtain ⟨s1, hc1, hc2⟩ := expectedEntries_insert .cumulative rows cols c k hk hmc p1 p2 1
  obtain ⟨s2, hn1, hn2⟩ := expectedEntries_insert .nonCumulative rows cols c k hk hmc p1 p2 1
  rw [hc1, hc2, hn1, hn2]
  cases hr : documentedReg k with
  | none => simp [M4.le]
  | cumulative =>
    simp only [if_true, reduceCtorEq, if_false, List.nil_append, List.singleton_append]
    exact global_mono_cumulative _ _ _ _ (hnn s1)
  | nonCumulative =>
    simp only [if_true, reduceCtorEq, if_false, List.nil_append, List.singleton_append]
    exact global_mono_nonCumulative _ _ _ _

/-! ### 7. Non-vacuity -/

def examplePipeline : List StepCfg :=
  [{ name := "matching_cost", method := "zncc", windowSize := 5, stepParam := 2 },
   { name := "disparity", method := "wta" },
   { name := "filter", method := "median", filterSize := 3 },
   { name := "validation", method := "cross_checking_accurate" },
   { name := "filter.1", method := "bilateral", sigmaSpace := 2 }]

example : KnownKinds examplePipeline := by
  intro c hc
  simp only [examplePipeline, List.mem_cons, List.mem_nil_iff, or_false] at hc
  rcases hc with rfl | rfl | rfl | rfl | rfl <;> decide
example : (examplePipeline.map (·.name)).Nodup := by decide
example : StartsWithMatchingCost examplePipeline := by
  show Kind.ofName? (kindOf "matching_cost") = some Kind.matchingCost
  decide
example : ((entries 20 30 examplePipeline 1).all fun e => e.m.valid) = true := by decide +kernel
example : (checkMargins 20 30 20 30 examplePipeline {}).map (·.g.globalMargins) = some ⟨14, 14, 14, 14⟩ := by
  decide +kernel

end Pandora.C20
