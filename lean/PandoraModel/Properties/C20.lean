/- C20 — theorems (placeholder until the property is built). -/
