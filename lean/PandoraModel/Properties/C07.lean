/- C07 — theorems (work in progress). -/
import PandoraModel.Model.CrossCheck
import PandoraModel.Properties.Flags

namespace Pandora.C07
open Pandora Pandora.CrossCheck

/-- the "outside the right image" branch of the code can never be taken -/
theorem outside_never (ncol : Nat) (q : Option Int) : outsideRightAsWritten ncol q = false := by
  cases q with
  | none => rfl
  | some q =>
    simp only [outsideRightAsWritten, Bool.and_eq_false_iff, decide_eq_false_iff_not]
    omega

end Pandora.C07
