/-
  C07 — Cross-checking flags exactly the left-right inconsistent pixels, nothing else.

  Theorems about the executable model `Model/CrossCheck.lean` (`ccPixel`, `check`, `validationRun`) and
  its executable specification (`clausesValid`, `clausesPix`).  Any map size, any disparities
  (rational or NaN), any flag words, any threshold, any interval.
-/
import PandoraModel.Model.PipelineRun
import PandoraModel.Model.CrossCheck
import PandoraModel.Properties.Flags
import PandoraModel.Generated.Constants
import PandoraModel.Generated.RefineCC
import Mathlib.Tactic.Linarith
import Mathlib.Tactic.Ring
import Mathlib.Algebra.Order.Field.Basic

namespace Pandora.C07
open Pandora Pandora.CrossCheck

/-! ## Rounding -/

theorem floor_frac (x : ℚ) : 0 ≤ x - (x.floor : ℚ) ∧ x - (x.floor : ℚ) < 1 := by
  have h1 := Rat.floor_le x
  have h2 := Rat.lt_floor_add_one x
  push_cast at h2
  constructor <;> linarith

/-- `nearestInts x` are exactly the integers within 1/2 of `x` -/
theorem mem_nearestInts (x : ℚ) (n : Int) : n ∈ nearestInts x ↔ |x - (n : ℚ)| ≤ 1 / 2 := by
  obtain ⟨h0, h1⟩ := floor_frac x
  have key : ∀ k : Int, |x - ((x.floor + k : Int) : ℚ)| ≤ 1 / 2 ↔
      (k = 0 ∧ x - (x.floor : ℚ) ≤ 1 / 2) ∨ (k = 1 ∧ 1 / 2 ≤ x - (x.floor : ℚ)) := by
    intro k
    rw [abs_le]
    push_cast
    constructor
    · rintro ⟨ha, hb⟩
      have hk0 : (0 : ℚ) - 1 < (k : ℚ) := by linarith
      have hk1 : (k : ℚ) < 2 := by linarith
      have hk0' : (-1 : Int) < k := by exact_mod_cast hk0
      have hk1' : k < 2 := by exact_mod_cast hk1
      have : k = 0 ∨ k = 1 := by omega
      rcases this with rfl | rfl
      · left; exact ⟨rfl, by push_cast at hb; linarith⟩
      · right; exact ⟨rfl, by push_cast at ha; linarith⟩
    · rintro (⟨rfl, h⟩ | ⟨rfl, h⟩) <;> push_cast <;> constructor <;> linarith
  have hn : n = x.floor + (n - x.floor) := by ring
  rw [hn, key]
  unfold nearestInts
  simp only
  split
  · rename_i hlt
    simp only [List.mem_singleton]
    constructor
    · intro h; left; exact ⟨by omega, by linarith⟩
    · rintro (⟨h, -⟩ | ⟨-, h⟩)
      · omega
      · linarith
  · rename_i hnlt
    split
    · rename_i hgt
      simp only [List.mem_singleton]
      constructor
      · intro h; right; exact ⟨by omega, by linarith⟩
      · rintro (⟨-, h⟩ | ⟨h, -⟩)
        · linarith
        · omega
    · rename_i hngt
      have heq : x - (x.floor : ℚ) = 1 / 2 := le_antisymm (not_lt.mp hngt) (not_lt.mp hnlt)
      simp only [List.mem_cons, List.not_mem_nil, or_false]
      constructor
      · rintro (h | h)
        · left; exact ⟨by omega, by linarith⟩
        · right; exact ⟨by omega, by linarith⟩
      · rintro (⟨h, -⟩ | ⟨h, -⟩)
        · left; omega
        · right; omega

/-- numpy's `rint` returns a nearest integer -/
theorem rint_mem_nearest (x : ℚ) : rint x ∈ nearestInts x := by
  unfold rint nearestInts
  simp only
  split
  · simp
  · split
    · simp
    · split <;> simp

theorem rint_nearest (x : ℚ) : |x - (rint x : ℚ)| ≤ 1 / 2 := (mem_nearestInts x _).mp (rint_mem_nearest x)

/-- a single nearest integer: `rint` is that one -/
theorem rint_of_singleton (x : ℚ) (n : Int) (h : nearestInts x = [n]) : rint x = n := by
  have := rint_mem_nearest x
  rw [h] at this
  simpa using this

/-- on an exact half `rint` takes the even neighbour -/
theorem rint_even_on_tie (x : ℚ) (h : x - (x.floor : ℚ) = 1 / 2) : rint x % 2 = 0 := by
  unfold rint
  simp only [h, lt_self_iff_false, ↓reduceIte]
  split
  · assumption
  · omega

/-- the "outside the right image" branch of the code can never be taken (root cause of C07-F1) -/
theorem outside_never (ncol : Nat) (q : Option Int) : outsideRightAsWritten ncol q = false := by
  cases q with
  | none => rfl
  | some q =>
    simp only [outsideRightAsWritten, Bool.and_eq_false_iff, decide_eq_false_iff_not]
    omega

/-! ## Flag words -/

/-- a pixel that is not flagged invalid has bits 8 and 9 clear -/
theorem valid_bits_clear (flag : Nat) (h : Flags.isInvalid flag = false) :
    bitAt flag 8 = 0 ∧ bitAt flag 9 = 0 := by
  have h0 : flag &&& Flags.pixelInvalid = 0 := by
    simpa [Flags.isInvalid] using h
  have t8 : flag.testBit 8 = false := by
    have := congrArg (fun n => Nat.testBit n 8) h0
    simp only [Nat.testBit_and, Nat.zero_testBit] at this
    have e : Nat.testBit Flags.pixelInvalid 8 = true := by decide
    rw [e, Bool.and_true] at this
    exact this
  have t9 : flag.testBit 9 = false := by
    have := congrArg (fun n => Nat.testBit n 9) h0
    simp only [Nat.testBit_and, Nat.zero_testBit] at this
    have e : Nat.testBit Flags.pixelInvalid 9 = true := by decide
    rw [e, Bool.and_true] at this
    exact this
  rw [Nat.testBit_eq_decide_div_mod_eq] at t8 t9
  simp only [decide_eq_false_iff_not] at t8 t9
  unfold bitAt
  constructor <;> omega

/-- `+= OCCLUSION; += MISMATCH * k; -= OCCLUSION * k` on a word whose bits 8 and 9 are clear -/
theorem flag_arith (flag k : Nat) (h8 : bitAt flag 8 = 0) (h9 : bitAt flag 9 = 0) (hk : k = 0 ∨ k = 1) :
    let f := flag + Flags.occlusion + Flags.mismatch * k - Flags.occlusion * k
    bitAt f 9 = k ∧ bitAt f 8 = 1 - k ∧ sameExcept89 f flag = true := by
  simp only [bitAt, Flags.occlusion, Flags.mismatch, sameExcept89, Bool.and_eq_true, beq_iff_eq] at *
  norm_num at *
  rcases hk with rfl | rfl <;> omega

/-! ## The mismatch search -/

theorem comp_cases (ncol : Nat) (dR : List Val) (c : Nat) (range : List Int) :
    comp ncol dR c range = 0 ∨ comp ncol dR c range = 1 := by
  unfold comp
  simp only
  split
  · right; rfl
  · omega

theorem comp_eq_one_iff (ncol : Nat) (dR : List Val) (c : Nat) (range : List Int) :
    comp ncol dR c range = 1 ↔ ∃ d ∈ range, matchAt ncol dR c d = true := by
  unfold comp
  simp only
  have hpos : 0 < (range.filter (matchAt ncol dR c)).length ↔ ∃ d ∈ range, matchAt ncol dR c d = true := by
    rw [List.length_pos_iff_exists_mem]
    simp only [List.mem_filter]
  constructor
  · intro h
    apply hpos.mp
    split at h <;> omega
  · intro h
    have := hpos.mpr h
    split <;> omega

theorem dispRightAt_eq_cell (ncol : Nat) (dR : List Val) (idx : Int) (h : dR.length = ncol) :
    dispRightAt ncol dR idx = cell dR idx := by
  simp only [dispRightAt, cell, h]

/-- a strict witness is found by the search -/
theorem witness_strict_comp (P : Params) (ncol : Nat) (dR : List Val) (c : Nat) (h : dR.length = ncol)
    (hw : witness true P dR c = true) : comp ncol dR c (arange P.dmin P.dmax) = 1 := by
  rw [comp_eq_one_iff]
  simp only [witness, List.any_eq_true] at hw
  obtain ⟨d, hd, hm⟩ := hw
  refine ⟨d, hd, ?_⟩
  simp only [matchAt, dispRightAt_eq_cell _ _ _ h]
  cases hc : cell dR ((c : Int) + d) with
  | none => rw [hc] at hm; cases hm
  | some v =>
    cases v with
    | nan => rw [hc] at hm; cases hm
    | num v =>
      rw [hc] at hm
      simp only [↓reduceIte, beq_iff_eq] at hm
      simp only [beq_iff_eq]
      exact rint_of_singleton v (-d) hm

/-- what the search finds is a (loose) witness -/
theorem comp_witness_loose (P : Params) (ncol : Nat) (dR : List Val) (c : Nat) (h : dR.length = ncol)
    (hk : comp ncol dR c (arange P.dmin P.dmax) = 1) : witness false P dR c = true := by
  rw [comp_eq_one_iff] at hk
  obtain ⟨d, hd, hm⟩ := hk
  simp only [witness, List.any_eq_true]
  refine ⟨d, hd, ?_⟩
  simp only [matchAt, dispRightAt_eq_cell _ _ _ h] at hm
  cases hc : cell dR ((c : Int) + d) with
  | none => rw [hc] at hm; cases hm
  | some v =>
    cases v with
    | nan => rw [hc] at hm; cases hm
    | num v =>
      rw [hc] at hm
      simp only [beq_iff_eq] at hm
      simp only [Bool.false_eq_true, ↓reduceIte, List.contains_eq_mem, decide_eq_true_eq]
      rw [← hm]
      exact rint_mem_nearest v

/-- `arange lo hi` is the integer interval `[lo, hi]` -/
theorem mem_arange (lo hi d : Int) : d ∈ arange lo hi ↔ lo ≤ d ∧ d ≤ hi := by
  simp only [arange, List.mem_map, List.mem_range]
  constructor
  · rintro ⟨k, hk, rfl⟩; omega
  · rintro ⟨h1, h2⟩
    exact ⟨(d - lo).toNat, by omega, by omega⟩

/-! ## One pixel -/

/-- what `+= OCCLUSION; += MISMATCH * comp; -= OCCLUSION * comp` leaves satisfies every clause of a pixel
    that is not consistent: mismatch iff the search found a witness, occlusion otherwise, never both, no
    other bit touched. -/
theorem flagged_clauses (P : Params) (ncol : Nat) (dL dR : List Val) (c flag : Nat) (conf : Conf) (q : Option Int)
    (hlen : dR.length = ncol) (hv : Flags.isInvalid flag = false)
    (hcons : consistentOpt P dL dR c q = false)
    (hconf : confOKOpt dL dR c conf q = true) :
    allOK (clausesValid P dL dR c flag
      ⟨flag + Flags.occlusion + Flags.mismatch * comp ncol dR c (arange P.dmin P.dmax)
        - Flags.occlusion * comp ncol dR c (arange P.dmin P.dmax), conf⟩ q) = true := by
  obtain ⟨h8, h9⟩ := valid_bits_clear flag hv
  have hk := comp_cases ncol dR c (arange P.dmin P.dmax)
  obtain ⟨b9, b8, hsame⟩ := flag_arith flag _ h8 h9 hk
  simp only [clausesValid, hcons, Bool.false_eq_true, ↓reduceIte, allOK, List.all_cons, List.all_nil, Bool.and_true,
    Bool.and_eq_true, hsame, hconf, and_true, b9, b8]
  rcases hk with hk | hk
  · -- nothing found: occlusion; there is no strict witness
    have hns : witness true P dR c = false := by
      by_contra hw
      have := witness_strict_comp P ncol dR c hlen (by simpa using hw)
      omega
    simp [hk, hns]
  · -- found: mismatch; it is a loose witness
    have hwl := comp_witness_loose P ncol dR c hlen hk
    simp [hk, hwl]


theorem cell_inrange (g : List Val) (i : Int) (h0 : 0 ≤ i) (h1 : i < (g.length : Int)) :
    cell g i = some (g.getD i.toNat .nan) := by
  simp [cell, h0, h1]

/-- a pixel whose correspondent lies in the right image: the confidence cell is the left-right
    distance, the pixel is kept iff that distance is within the threshold, and otherwise flagged
    mismatch / occlusion as the statement says -/
theorem ccInside_clauses (P : Params) (ncol : Nat) (dL dR : List Val) (c flag : Nat) (qi : Int)
    (hlen : dR.length = ncol) (hv : Flags.isInvalid flag = false) (h0 : 0 ≤ qi) (h1 : qi < (ncol : Int)) :
    allOK (clausesValid P dL dR c flag (ccInside P ncol dL dR c flag qi) (some qi)) = true := by
  have hcell : cell dR qi = some (dR.getD qi.toNat .nan) := cell_inrange dR qi h0 (by rw [hlen]; exact h1)
  have hdist : distance dL dR c qi
      = some (absSum (nanToInf (dR.getD qi.toNat .nan)) (nanToInf (dL.getD c .nan))) := by
    simp only [distance, hcell]
  unfold ccInside
  simp only
  cases hx : absSum (nanToInf (dR.getD qi.toNat .nan)) (nanToInf (dL.getD c .nan)) with
  | inf =>
    simp only [Ext.gt, ↓reduceIte]
    apply flagged_clauses P ncol dL dR c flag _ (some qi) hlen hv
    · simp only [consistentOpt, consistentAt, hdist, hx]
    · simp only [confOKOpt, hdist, hx, beq_self_eq_true]
  | fin x =>
    simp only [Ext.gt]
    by_cases hgt : P.threshold < x
    · simp only [hgt, decide_true, ↓reduceIte]
      apply flagged_clauses P ncol dL dR c flag _ (some qi) hlen hv
      · simp only [consistentOpt, consistentAt, hdist, hx, decide_eq_false_iff_not, not_le]; exact hgt
      · simp only [confOKOpt, hdist, hx, beq_self_eq_true]
    · have hle : x ≤ P.threshold := not_lt.mp hgt
      simp only [hgt, decide_false, Bool.false_eq_true, ↓reduceIte]
      have hcons : consistentOpt P dL dR c (some qi) = true := by
        simp only [consistentOpt, consistentAt, hdist, hx, decide_eq_true_eq]; exact hle
      simp only [clausesValid, hcons, ↓reduceIte, allOK, List.all_cons, List.all_nil, Bool.and_true, beq_self_eq_true,
        Bool.true_and, confOKOpt, hdist, hx]

/-- the choice among several nearest integers: if the outcome is right for one of them, the pixel's
    clauses hold -/
theorem clausesPix_of_candidate (P : Params) (dL dR : List Val) (c flag : Nat) (o : PixOut) (qi : Int)
    (hv : Flags.isInvalid flag = false) (hmem : qi ∈ correspondents dL c)
    (hok : allOK (clausesValid P dL dR c flag o (some qi)) = true) :
    allOK (clausesPix P false dL dR c flag o) = true := by
  unfold clausesPix
  simp only [Bool.false_eq_true, ↓reduceIte, hv]
  cases hl : correspondents dL c with
  | nil => rw [hl] at hmem; cases hmem
  | cons q qs =>
    cases qs with
    | nil =>
      rw [hl] at hmem
      simp only [List.mem_singleton] at hmem
      subst hmem
      exact hok
    | cons q' qs' =>
      simp only
      cases hf : List.find? (fun q => allOK (clausesValid P dL dR c flag o (some q))) (q :: q' :: qs') with
      | some q'' =>
        simp only
        have := List.find?_some hf
        exact this
      | none =>
        exfalso
        rw [List.find?_eq_none] at hf
        rw [hl] at hmem
        exact absurd hok (by simpa using hf qi hmem)

variable (V : Variant)

/-- **C07, one pixel whose correspondent is in the image (or that was already invalid).** -/
theorem ccPixel_spec_partial (P : Params) (ncol : Nat) (dL dR : List Val) (c flag : Nat)
    (hlen : dR.length = ncol)
    (hin : Flags.isInvalid flag = false → insideRight ncol (colRight c (dL.getD c .nan)) = true) :
    allOK (clausesPix P false dL dR c flag (ccPixel V P ncol dL dR c flag)) = true := by
  by_cases hv : Flags.isInvalid flag = true
  · simp [clausesPix, ccPixel, hv, allOK]
  · have hv' : Flags.isInvalid flag = false := by simpa using hv
    have hi := hin hv'
    cases hd : dL.getD c .nan with
    | nan => rw [hd] at hi; simp [colRight, insideRight] at hi
    | num d =>
      rw [hd] at hi
      simp only [colRight, insideRight, Bool.and_eq_true, decide_eq_true_eq] at hi
      have hmodel : ccPixel V P ncol dL dR c flag = ccInside P ncol dL dR c flag ((c : Int) + rint d) := by
        simp only [ccPixel, hv', Bool.false_eq_true, ↓reduceIte, hd, colRight, insideRight, hi.1, hi.2, decide_true,
          Bool.and_self]
      rw [hmodel]
      apply clausesPix_of_candidate P dL dR c flag _ ((c : Int) + rint d) hv'
      · simp only [correspondents, hd, List.mem_map]; exact ⟨rint d, rint_mem_nearest d, rfl⟩
      · exact ccInside_clauses P ncol dL dR c flag _ hlen hv' hi.1 hi.2


/-! ### Facts that hold for every pixel, whatever the inputs -/

/-- pixels already invalid are not re-examined -/
theorem ccPixel_invalid (P : Params) (ncol : Nat) (dL dR : List Val) (c flag : Nat)
    (h : Flags.isInvalid flag = true) : ccPixel V P ncol dL dR c flag = ⟨flag, .nan⟩ := by
  simp [ccPixel, h]

/-- **C07-F1, in general**: a valid pixel whose correspondent is not in the right image (or has none)
    comes out exactly as it went in — it is never flagged. -/
theorem ccPixel_outside_unflagged (P : Params) (ncol : Nat) (dL dR : List Val) (c flag : Nat)
    (hv : Flags.isInvalid flag = false) (hout : insideRight ncol (colRight c (dL.getD c .nan)) = false) :
    ccPixel .asIs P ncol dL dR c flag = ⟨flag, .nan⟩ := by
  simp only [ccPixel, ccOutside, hv, Bool.false_eq_true, ↓reduceIte, hout, outside_never]

theorem ccInside_flag_cases (P : Params) (ncol : Nat) (dL dR : List Val) (c flag : Nat) (qi : Int) :
    (ccInside P ncol dL dR c flag qi).flag = flag
    ∨ (ccInside P ncol dL dR c flag qi).flag = flag + Flags.occlusion
    ∨ (ccInside P ncol dL dR c flag qi).flag = flag + Flags.mismatch := by
  unfold ccInside
  simp only
  split
  · rcases comp_cases ncol dR c (arange P.dmin P.dmax) with h | h <;> rw [h]
    · right; left; simp
    · right; right; simp only [Flags.occlusion, Flags.mismatch]; omega
  · left; rfl

theorem ccPixel_flag_cases (P : Params) (ncol : Nat) (dL dR : List Val) (c flag : Nat) :
    (ccPixel V P ncol dL dR c flag).flag = flag
    ∨ (ccPixel V P ncol dL dR c flag).flag = flag + Flags.occlusion
    ∨ (ccPixel V P ncol dL dR c flag).flag = flag + Flags.mismatch := by
  unfold ccPixel
  split
  · left; rfl
  · simp only
    split
    · split
      · exact ccInside_flag_cases ..
      · left; rfl
    · cases V <;> simp only [ccOutside, outside_never, Bool.false_eq_true, ↓reduceIte]
      · left; trivial
      · right; left; trivial
      · rcases comp_cases ncol dR c (arange P.dmin P.dmax) with h | h <;> rw [h]
        · right; left; simp
        · right; right; simp only [Flags.occlusion, Flags.mismatch]; omega

/-- **never both, no other bit**: on a previously valid pixel the step sets at most one of bits 8
    and 9 and touches no other bit — for every input -/
theorem ccPixel_never_both (P : Params) (ncol : Nat) (dL dR : List Val) (c flag : Nat)
    (hv : Flags.isInvalid flag = false) :
    ¬(bitAt (ccPixel V P ncol dL dR c flag).flag 8 = 1 ∧ bitAt (ccPixel V P ncol dL dR c flag).flag 9 = 1)
    ∧ sameExcept89 (ccPixel V P ncol dL dR c flag).flag flag = true := by
  obtain ⟨h8, h9⟩ := valid_bits_clear flag hv
  rcases ccPixel_flag_cases V P ncol dL dR c flag with h | h | h <;> rw [h] <;>
    simp only [bitAt, sameExcept89, Flags.occlusion, Flags.mismatch, Bool.and_eq_true, beq_iff_eq] at * <;>
    norm_num at * <;> omega


/-! ## The whole map -/

theorem zipWith3_getElem? {α β γ δ : Type} (f : α → β → γ → δ) :
    ∀ (as : List α) (bs : List β) (cs : List γ) (i : Nat) (a : α) (b : β) (c : γ),
      as[i]? = some a → bs[i]? = some b → cs[i]? = some c → (zipWith3 f as bs cs)[i]? = some (f a b c) := by
  intro as
  induction as with
  | nil => intro bs cs i a b c ha; simp at ha
  | cons x xs ih =>
    intro bs cs i a b c ha hb hc
    cases bs with
    | nil => simp at hb
    | cons y ys =>
      cases cs with
      | nil => simp at hc
      | cons z zs =>
        cases i with
        | zero =>
          simp only [List.getElem?_cons_zero, Option.some.injEq] at ha hb hc
          subst ha hb hc
          simp [zipWith3]
        | succ i =>
          simp only [List.getElem?_cons_succ] at ha hb hc
          simp only [zipWith3, List.getElem?_cons_succ]
          exact ih ys zs i a b c ha hb hc

/-- every output cell is the per-pixel function of row `r` (then `mask_border`) -/
theorem check_pix (P : Params) (A B : Dataset) (r c : Nat) (dL dR : List Val) (mL : List Nat)
    (hA : A.disp[r]? = some dL) (hB : B.disp[r]? = some dR) (hM : A.mask[r]? = some mL) (hc : c < dL.length) :
    outPix (check V P A B) r c =
      ⟨if P.offset > 0 ∧ isBorder P.offset A.disp.length dL.length r c = true then Flags.leftNodataOrBorder
        else (ccPixel V P dL.length dL dR c (mL.getD c 0)).flag,
       (ccPixel V P dL.length dL dR c (mL.getD c 0)).conf⟩ := by
  have hrow := zipWith3_getElem? (ccRow V P) A.disp B.disp A.mask r dL dR mL hA hB hM
  have hlen : (ccRow V P dL dR mL).length = dL.length := by simp [ccRow]
  have hcell : (ccRow V P dL dR mL)[c]? = some (ccPixel V P dL.length dL dR c (mL.getD c 0)) := by
    simp [ccRow, hc]
  simp only [outPix, check, List.getD_eq_getElem?_getD, List.getElem?_mapIdx, List.getElem?_map, hrow, hcell,
    Option.map_some, Option.getD_some, hlen]

/-- rows and columns of the two datasets line up -/
def WfShapes (A B : Dataset) : Prop :=
  A.disp.length = B.disp.length ∧ A.disp.length = A.mask.length ∧
  ∀ (r : Nat) (dL dR : List Val) (mL : List Nat), A.disp[r]? = some dL → B.disp[r]? = some dR → A.mask[r]? = some mL →
    dR.length = dL.length ∧ mL.length = dL.length

/--
  **C07, the whole map — partial.**  For maps of any size and any content, every output cell `(r, c)`
  of `disparity_checking(A, B)` satisfies its clauses (`border_bit0_only`, `invalid_not_reexamined`,
  `kept_iff_consistent`, `mismatch_iff_witness`, `occlusion_otherwise`, `never_both`, `only_bits_8_9`,
  `conf_band_value`), **provided** the correspondent of every previously valid, non-border pixel lies in
  the right image (hypothesis `hin`).

  Full-strength statement (false of the code — `cc_outside_counterexample`, finding C07-F1): the same
  without `hin`.
-/
theorem check_spec_partial (P : Params) (A B : Dataset) (hw : WfShapes A B)
    (hin : ∀ (r c : Nat) (dL : List Val) (mL : List Nat), A.disp[r]? = some dL → A.mask[r]? = some mL → c < dL.length →
      ¬(P.offset > 0 ∧ isBorder P.offset A.disp.length dL.length r c = true) →
      Flags.isInvalid (mL.getD c 0) = false → insideRight dL.length (colRight c (dL.getD c .nan)) = true)
    (r c : Nat) (dL dR : List Val) (mL : List Nat)
    (hA : A.disp[r]? = some dL) (hB : B.disp[r]? = some dR) (hM : A.mask[r]? = some mL) (hc : c < dL.length) :
    allOK (clausesPix P (decide (P.offset > 0) && isBorder P.offset A.disp.length dL.length r c)
      dL dR c (mL.getD c 0) (outPix (check V P A B) r c)) = true := by
  rw [check_pix V P A B r c dL dR mL hA hB hM hc]
  obtain ⟨-, -, hrows⟩ := hw
  obtain ⟨hlenR, -⟩ := hrows r dL dR mL hA hB hM
  by_cases hb : P.offset > 0 ∧ isBorder P.offset A.disp.length dL.length r c = true
  · have : (decide (P.offset > 0) && isBorder P.offset A.disp.length dL.length r c) = true := by
      simp [hb.1, hb.2]
    simp [clausesPix, this, hb, allOK]
  · have hb' : (decide (P.offset > 0) && isBorder P.offset A.disp.length dL.length r c) = false := by
      by_contra hcon
      simp only [Bool.not_eq_false, Bool.and_eq_true, decide_eq_true_eq] at hcon
      exact hb hcon
    rw [hb']
    simp only [hb, ↓reduceIte]
    exact ccPixel_spec_partial V P dL.length dL dR c (mL.getD c 0) hlenR
      (fun hv => hin r c dL mL hA hM hc hb hv)

/-- the step does not modify any disparity -/
theorem check_disp_unchanged (P : Params) (A B : Dataset) : (check V P A B).disp = A.disp := rfl

/-- the validity mask of the dataset checked *against* plays no role -/
theorem check_other_mask_irrelevant (P : Params) (A B : Dataset) (m : Grid Nat) :
    check V P A B = check V P A { disp := B.disp, mask := m } := rfl

/-- **right_same_rule**: `validation_run` checks the right map against the left one by the very same
    function, and — the first check not having modified the left disparities — against the *original*
    left map. -/
theorem validationRun_right_same_rule (PL PR : Params) (L R : Dataset) :
    (validationRun V PL PR L R).1 = check V PL L R ∧ (validationRun V PL PR L R).2 = check V PR R L := by
  constructor
  · rfl
  · simp only [validationRun]
    rfl


/-! ## The repaired step (proposed_fixes/C07-outside-right.diff): the statement without exception -/

/-- a correspondent outside the right image is not consistent, and nothing is owed to the confidence band -/
theorem outside_not_consistent (P : Params) (ncol : Nat) (dL dR : List Val) (c : Nat) (conf : Conf) (qi : Int)
    (hlen : dR.length = ncol) (hout : ¬(0 ≤ qi ∧ qi < (ncol : Int))) :
    consistentOpt P dL dR c (some qi) = false ∧ confOKOpt dL dR c conf (some qi) = true := by
  have hcell : cell dR qi = none := by
    simp only [cell, hlen]
    rw [if_neg hout]
  simp only [consistentOpt, consistentAt, confOKOpt, distance, hcell, and_self]

/-- **C07, one pixel, repaired code (`ruleFix`): every clause, for every input.** -/
theorem ccPixel_ruleFix_spec (P : Params) (ncol : Nat) (dL dR : List Val) (c flag : Nat) (hlen : dR.length = ncol) :
    allOK (clausesPix P false dL dR c flag (ccPixel .ruleFix P ncol dL dR c flag)) = true := by
  by_cases hin : Flags.isInvalid flag = false → insideRight ncol (colRight c (dL.getD c .nan)) = true
  · exact ccPixel_spec_partial .ruleFix P ncol dL dR c flag hlen hin
  · simp only [Classical.not_imp, Bool.not_eq_true] at hin
    obtain ⟨hv, hout⟩ := hin
    have hmodel : ccPixel .ruleFix P ncol dL dR c flag
        = ⟨flag + Flags.occlusion + Flags.mismatch * comp ncol dR c (arange P.dmin P.dmax)
            - Flags.occlusion * comp ncol dR c (arange P.dmin P.dmax), .nan⟩ := by
      simp only [ccPixel, ccOutside, hv, Bool.false_eq_true, ↓reduceIte, hout]
    rw [hmodel]
    cases hd : dL.getD c .nan with
    | nan =>
      -- no correspondent at all
      have hcor : correspondents dL c = [] := by simp only [correspondents, hd]
      simp only [clausesPix, Bool.false_eq_true, ↓reduceIte, hv, hcor]
      exact flagged_clauses P ncol dL dR c flag .nan none hlen hv rfl rfl
    | num d =>
      rw [hd] at hout
      simp only [colRight, insideRight, Bool.and_eq_false_iff, decide_eq_false_iff_not] at hout
      have hout' : ¬(0 ≤ (c : Int) + rint d ∧ (c : Int) + rint d < (ncol : Int)) := by
        rintro ⟨h0, h1⟩
        rcases hout with h | h
        · exact h h0
        · exact h h1
      obtain ⟨hnc, hcf⟩ := outside_not_consistent P ncol dL dR c .nan _ hlen hout'
      apply clausesPix_of_candidate P dL dR c flag _ ((c : Int) + rint d) hv
      · simp only [correspondents, hd, List.mem_map]; exact ⟨rint d, rint_mem_nearest d, rfl⟩
      · exact flagged_clauses P ncol dL dR c flag .nan (some _) hlen hv hnc hcf

/-- **C07, the whole map, repaired code: the statement holds at every cell of every map.** -/
theorem check_spec_ruleFix (P : Params) (A B : Dataset) (hw : WfShapes A B)
    (r c : Nat) (dL dR : List Val) (mL : List Nat)
    (hA : A.disp[r]? = some dL) (hB : B.disp[r]? = some dR) (hM : A.mask[r]? = some mL) (hc : c < dL.length) :
    allOK (clausesPix P (decide (P.offset > 0) && isBorder P.offset A.disp.length dL.length r c)
      dL dR c (mL.getD c 0) (outPix (check .ruleFix P A B) r c)) = true := by
  rw [check_pix .ruleFix P A B r c dL dR mL hA hB hM hc]
  obtain ⟨-, -, hrows⟩ := hw
  obtain ⟨hlenR, -⟩ := hrows r dL dR mL hA hB hM
  by_cases hb : P.offset > 0 ∧ isBorder P.offset A.disp.length dL.length r c = true
  · have : (decide (P.offset > 0) && isBorder P.offset A.disp.length dL.length r c) = true := by
      simp [hb.1, hb.2]
    simp [clausesPix, this, hb, allOK]
  · have hb' : (decide (P.offset > 0) && isBorder P.offset A.disp.length dL.length r c) = false := by
      by_contra hcon
      simp only [Bool.not_eq_false, Bool.and_eq_true, decide_eq_true_eq] at hcon
      exact hb hcon
    rw [hb']
    simp only [hb, ↓reduceIte]
    exact ccPixel_ruleFix_spec P dL.length dL dR c (mL.getD c 0) hlenR

/-! ## Tie to the source, non-vacuity, counterexample -/

/-- the constants the model uses are the ones `pandora/constants.py` defines now -/
theorem flags_tied :
    Flags.occlusion = Generated.Constants.PANDORA_MSK_PIXEL_OCCLUSION
    ∧ Flags.mismatch = Generated.Constants.PANDORA_MSK_PIXEL_MISMATCH
    ∧ Flags.leftNodataOrBorder = Generated.Constants.PANDORA_MSK_PIXEL_LEFT_NODATA_OR_BORDER
    ∧ Flags.pixelInvalid = Generated.Constants.PANDORA_MSK_PIXEL_INVALID := by decide

def exParams : Params := { threshold := 1, dmin := -2, dmax := 3, offset := 0 }
def exA : Dataset := { disp := [[.num 0, .num 1, .num (-1), .num (1/2), .num 0]], mask := [[0, 0, 4, 0, 2]] }
def exB : Dataset := { disp := [[.num 1, .num 3, .num 2, .num 0, .num 0]], mask := [[0, 0, 0, 0, 0]] }

/-- non-vacuity: a map whose valid pixels all have their correspondent in the image (the hypothesis of
    `check_spec_partial`), with a kept pixel, a mismatch, an occlusion, a kept tie and an invalid pixel -/
example : (check .asIs exParams exA exB).mask = [[0, 512, 4 + 256, 0, 2]]
    ∧ (check .asIs exParams exA exB).conf = [[.fin 1, .fin 3, .fin 2, .fin (1/2), .nan]]
    ∧ ((List.range 5).all fun c =>
        insideRight 5 (colRight c ((exA.disp.getD 0 []).getD c .nan))) = true := by
  decide +kernel

/-- **C07-F1** (clauses `kept_iff_consistent`, `mismatch_iff_witness` false of the code): `dL = 3` at the
    last of four columns: the correspondent (column 6) is outside the right image and the pixel stays
    unflagged, although `round(dR(p + d)) = -d` for `d = -2`.  The repaired model flags it mismatch; the
    `|` repair flags it occlusion. -/
theorem cc_outside_counterexample :
    (check .asIs exParams { disp := [[.num 0, .num 0, .num 0, .num 3]], mask := [[0, 0, 0, 0]] }
        { disp := [[.num 2, .num 2, .num 2, .num 2]], mask := [[0, 0, 0, 0]] }).mask = [[256, 256, 512, 0]]
    ∧ failingPix exParams false [.num 0, .num 0, .num 0, .num 3] [.num 2, .num 2, .num 2, .num 2] 3 0 ⟨0, .nan⟩
        = ["kept_iff_consistent", "mismatch_iff_witness"]
    ∧ (check .ruleFix exParams { disp := [[.num 0, .num 0, .num 0, .num 3]], mask := [[0, 0, 0, 0]] }
        { disp := [[.num 2, .num 2, .num 2, .num 2]], mask := [[0, 0, 0, 0]] }).mask = [[256, 256, 512, 512]]
    ∧ (check .orFix exParams { disp := [[.num 0, .num 0, .num 0, .num 3]], mask := [[0, 0, 0, 0]] }
        { disp := [[.num 2, .num 2, .num 2, .num 2]], mask := [[0, 0, 0, 0]] }).mask = [[256, 256, 512, 256]] := by
  decide +kernel


/-! ## The source as it is now (`Generated/RefineCC.lean`, regenerated from the source text on every run) -/

/-- which repair of C07-F1 the source carries, read from its text -/
def sourceVariant : Variant :=
  if Generated.RefineCC.outsideSearched then .ruleFix
  else if Generated.RefineCC.outsideIsOr then .orFix else .asIs

/-- **C07 for the source as it is now**: `check_spec_partial` at the variant regenerated from the source
    (`inside_right`, `invalid`, `col_right` and the search are recognised textually by the translator or the
    build has no `Generated/RefineCC.lean`). -/
theorem source_check_spec (P : Params) (A B : Dataset) (hw : WfShapes A B)
    (hin : ∀ (r c : Nat) (dL : List Val) (mL : List Nat), A.disp[r]? = some dL → A.mask[r]? = some mL → c < dL.length →
      ¬(P.offset > 0 ∧ isBorder P.offset A.disp.length dL.length r c = true) →
      Flags.isInvalid (mL.getD c 0) = false → insideRight dL.length (colRight c (dL.getD c .nan)) = true)
    (r c : Nat) (dL dR : List Val) (mL : List Nat)
    (hA : A.disp[r]? = some dL) (hB : B.disp[r]? = some dR) (hM : A.mask[r]? = some mL) (hc : c < dL.length) :
    allOK (clausesPix P (decide (P.offset > 0) && isBorder P.offset A.disp.length dL.length r c)
      dL dR c (mL.getD c 0) (outPix (check sourceVariant P A B) r c)) = true :=
  check_spec_partial sourceVariant P A B hw hin r c dL dR mL hA hB hM hc

end Pandora.C07
