/- C07 — theorems (placeholder until the property is built). -/
