/-
  C12 — the connection scan of `pandora/interval_tools.py: create_connected_graph` REGENERATED from the Python source
  (`Generated/KernelsRegul.lean`, translator/gen_kernels_regul.py: the conditions of the `continue` / `break` / store are
  translated, the control skeleton is `Model/PyScanGraph.lean`) builds, for EVERY list of segments, the hand model's
  symmetric `Confidence.connectionGraph` — the matrix the regularisation closes and aggregates over.
-/
import PandoraModel.Model.Confidence
import PandoraModel.Model.PyScanGraph
import PandoraModel.Generated.KernelsRegul
import Mathlib.Tactic.Linarith

set_option linter.unusedSimpArgs false
set_option linter.unusedVariables false
set_option linter.unreachableTactic false
set_option linter.unusedTactic false

namespace Pandora.C12KernelsRegul
open Pandora Pandora.Confidence Pandora.PyScanGraph

/-- `border_left` as `np.argwhere` hands it over: row `a` is `(row, col)` of the left end of segment `a` -/
def blOf (segs : List (Pos × Pos)) : Nat → Nat → Int :=
  fun a c => if c = 0 then (((segs.getD a ((0, 0), (0, 0))).1.1 : Nat) : Int) else (((segs.getD a ((0, 0), (0, 0))).1.2 : Nat) : Int)

/-- `border_right` (inclusive right end) -/
def brOf (segs : List (Pos × Pos)) : Nat → Nat → Int :=
  fun a c => if c = 0 then (((segs.getD a ((0, 0), (0, 0))).2.1 : Nat) : Int) else (((segs.getD a ((0, 0), (0, 0))).2.2 : Nat) : Int)

/-- what one visit of the hand model's `connScan` does -/
def actOf (si sk : Pos × Pos) : Act :=
  if sk.1.1 = si.1.1 then .skip
  else if sk.1.1 > si.1.1 + 1 then .stop
  else if sk.1.2 ≤ si.2.2 ∧ sk.2.2 ≥ si.1.2 then .mark else .skip

/-- the translated conditions are the hand model's: whatever arrays hold the ends of segments `si`, `sk` at rows `i`, `k` -/
theorem connAct_of (bl br : Nat → Nat → Int) (i k : Nat) (si sk : Pos × Pos)
    (hi0 : bl i 0 = ((si.1.1 : Nat) : Int)) (hi1 : bl i 1 = ((si.1.2 : Nat) : Int))
    (hi2 : br i 0 = ((si.2.1 : Nat) : Int)) (hi3 : br i 1 = ((si.2.2 : Nat) : Int))
    (hk0 : bl k 0 = ((sk.1.1 : Nat) : Int)) (hk1 : bl k 1 = ((sk.1.2 : Nat) : Int))
    (hk2 : br k 0 = ((sk.2.1 : Nat) : Int)) (hk3 : br k 1 = ((sk.2.2 : Nat) : Int)) :
    Generated.KernelsRegul.connAct bl br i k = actOf si sk := by
  simp only [Generated.KernelsRegul.connAct, hi0, hi1, hi2, hi3, hk0, hk1, hk2, hk3, actOf, Bool.and_eq_true, Bool.or_eq_true,
    Bool.not_eq_true', decide_eq_true_eq, decide_eq_false_iff_not]
  -- every path of the generated conditions against every path of the model's: linear integer arithmetic
  split_ifs <;> first | rfl | omega

theorem connAct_eq (segs : List (Pos × Pos)) (i k : Nat) :
    Generated.KernelsRegul.connAct (blOf segs) (brOf segs) i k
      = actOf (segs.getD i ((0, 0), (0, 0))) (segs.getD k ((0, 0), (0, 0))) := by
  apply connAct_of <;> simp [blOf, brOf]

theorem map_false_eq {α β : Type} (a : List α) (b : List β) (h : a.length = b.length) :
    a.map (fun _ => false) = b.map (fun _ => false) := by
  induction a generalizing b with
  | nil => cases b with
    | nil => rfl
    | cons y b => simp at h
  | cons x a ih => cases b with
    | nil => simp at h
    | cons y b => simp only [List.map_cons]; rw [ih b (by simpa using h)]

/-- the scan over `k = s, s+1, …` is `connScan` over the corresponding segments -/
theorem scan_eq (si : Pos × Pos) (rest : List (Pos × Pos)) (s : Nat) (act : Nat → Act)
    (h : ∀ j (hj : j < rest.length), act (s + j) = actOf si rest[j]) :
    scanBools act (List.range' s rest.length) = connScan si.1 si.2 rest := by
  induction rest generalizing s with
  | nil => rfl
  | cons sk rest ih =>
    have h0 : act s = actOf si sk := by
      have := h 0 (by simp)
      simp only [Nat.add_zero, List.getElem_cons_zero] at this
      exact this
    have hrest : ∀ j (hj : j < rest.length), act (s + 1 + j) = actOf si rest[j] := by
      intro j hj
      have := h (j + 1) (by simpa using hj)
      simpa [Nat.add_assoc, Nat.add_comm 1 j] using this
    have ih' := ih (s + 1) hrest
    obtain ⟨lk, rk⟩ := sk
    simp only [List.length_cons, List.range'_succ, scanBools, connScan, h0, actOf]
    by_cases h1 : lk.1 = si.1.1
    · simp [h1, ih']
    · by_cases h2 : lk.1 > si.1.1 + 1
      · simp only [h1, h2, if_true, if_false]
        congr 1
        exact map_false_eq _ _ (by simp)
      · by_cases h3 : lk.2 ≤ si.2.2 <;> by_cases h4 : rk.2 ≥ si.1.2 <;> simp [h1, h2, h3, h4, ih']

/-- the Boolean row of iteration `i` of the generated nest -/
theorem connRow_eq (segs : List (Pos × Pos)) (i : Nat) (hi : i < segs.length) :
    Generated.KernelsRegul.connRow segs.length (blOf segs) (brOf segs) i
      = connScan segs[i].1 segs[i].2 (segs.drop (i + 1)) := by
  unfold Generated.KernelsRegul.connRow rangeFrom Generated.KernelsRegul.connLo
  have hl : (segs.drop (i + 1)).length = segs.length - (i + 1) := by simp
  rw [← hl]
  apply scan_eq segs[i] (segs.drop (i + 1)) (i + 1)
  intro j hj
  rw [connAct_eq]
  have hj' : i + 1 + j < segs.length := by rw [hl] at hj; omega
  simp [List.getD_eq_getElem?_getD, List.getElem?_eq_getElem hi, List.getElem?_eq_getElem hj']

theorem upperRows_getD (l : List (Pos × Pos)) (s j : Nat) (hj : j < l.length) :
    (upperRows s l).getD j [] = List.replicate (s + j + 1) false ++ connScan l[j].1 l[j].2 (l.drop (j + 1)) := by
  induction l generalizing s j with
  | nil => simp at hj
  | cons x l ih =>
    obtain ⟨a, b⟩ := x
    cases j with
    | zero => simp [upperRows]
    | succ j =>
      have hj' : j < l.length := by simpa using hj
      have := ih (s + 1) j hj'
      simp only [upperRows, List.getD_cons_succ, List.getElem_cons_succ, List.drop_succ_cons]
      rw [this]
      congr 2
      omega

/-- an entry of the upper triangle of the hand model -/
theorem matGet_upper (segs : List (Pos × Pos)) (a b : Nat) (ha : a < segs.length) (hab : a < b) :
    matGet (upperRows 0 segs) a b = (connScan segs[a].1 segs[a].2 (segs.drop (a + 1))).getD (b - (a + 1)) false := by
  unfold matGet
  rw [upperRows_getD segs 0 a ha]
  simp only [List.getD_eq_getElem?_getD, Nat.zero_add]
  rw [List.getElem?_append_right (by simp; omega)]
  simp

/-- **the connection matrix: the generated nest is the hand model.**  For every list of segments (any rows, columns,
    order, overlaps, length), `connection_graph` as `create_connected_graph` builds it today is
    `Confidence.connectionGraph`. -/
theorem connectionGraph_generated_eq (segs : List (Pos × Pos)) :
    Generated.KernelsRegul.connectionGraph segs.length (blOf segs) (brOf segs) = Confidence.connectionGraph segs := by
  unfold Generated.KernelsRegul.connectionGraph Confidence.connectionGraph symMatrix
  apply List.map_congr_left
  intro a ha
  apply List.map_congr_left
  intro b hb
  have ha' : a < segs.length := by simpa using ha
  have hb' : b < segs.length := by simpa using hb
  simp only [marked, Generated.KernelsRegul.connLo]
  rcases Nat.lt_trichotomy a b with hab | hab | hab
  · have h1 : a + 1 ≤ b := hab
    have h2 : ¬ b + 1 ≤ a := by omega
    simp only [h1, h2, decide_true, decide_false, Bool.true_and, Bool.false_and, Bool.or_false, hab, if_true]
    rw [connRow_eq segs a ha', matGet_upper segs a b ha' hab]
  · subst hab
    simp
  · have h1 : ¬ a + 1 ≤ b := by omega
    have h2 : b + 1 ≤ a := hab
    have h3 : ¬ a < b := by omega
    simp only [h1, h2, h3, decide_true, decide_false, Bool.true_and, Bool.false_and, Bool.false_or, hab, if_true, if_false]
    rw [connRow_eq segs b hb', matGet_upper segs b a hb' hab]

/-! ## The closure nest and the whole `create_connected_graph` -/

theorem length_connectionGraph (segs : List (Pos × Pos)) : (Confidence.connectionGraph segs).length = segs.length := by
  simp [Confidence.connectionGraph]

theorem length_row_connectionGraph (segs : List (Pos × Pos)) (i : Nat) (hi : i < segs.length) :
    ((Confidence.connectionGraph segs).getD i []).length = segs.length := by
  simp [Confidence.connectionGraph, List.getD_eq_getElem?_getD, hi]

theorem any_range_succ (n : Nat) (g : Nat → Bool) :
    (List.range (n + 1)).any g = (g 0 || (List.range n).any (fun l => g (l + 1))) := by
  rw [List.range_succ_eq_map]
  simp [List.any_map, Function.comp_def]

/-- `.any()` over the rows selected by a mask = `any` over the indices whose mask entry is set -/
theorem any_zip_eq (a : List (List Bool)) (b : List Bool) (h : a.length = b.length) (f : List Bool → Bool) :
    ((a.zip b).filterMap (fun p => if p.2 then some p.1 else none)).any f
      = (List.range b.length).any (fun l => b.getD l false && f (a.getD l [])) := by
  induction a generalizing b with
  | nil =>
    cases b with
    | nil => rfl
    | cons y b => simp at h
  | cons x a ih =>
    cases b with
    | nil => simp at h
    | cons y b =>
      have h' : a.length = b.length := by simpa using h
      rw [List.length_cons, any_range_succ]
      simp only [List.zip_cons_cons, List.filterMap_cons, List.getD_cons_zero, List.getD_cons_succ]
      rw [← ih b h']
      cases y <;> simp

/-- one pass of the generated closure is the hand model's `closureStep` -/
theorem closure_step_eq (conn : List (List Bool)) (lines : List Bool) (h : conn.length = lines.length) :
    tabulateB lines.length (fun j => (anyCol (selectRows conn lines) j || lines.getD j false)) = closureStep conn lines := by
  unfold tabulateB closureStep
  apply List.map_congr_left
  intro j _
  unfold anyCol selectRows
  rw [any_zip_eq conn lines h, Bool.or_comm]
  rfl

/-- the same with the operands of the `or` commuted in the source -/
theorem closure_step_eq' (conn : List (List Bool)) (lines : List Bool) (h : conn.length = lines.length) :
    tabulateB lines.length (fun j => (lines.getD j false || anyCol (selectRows conn lines) j)) = closureStep conn lines := by
  rw [← closure_step_eq conn lines h]
  unfold tabulateB
  apply List.map_congr_left
  intro j _
  rw [Bool.or_comm]

theorem length_closureStep (conn : List (List Bool)) (lines : List Bool) : (closureStep conn lines).length = lines.length := by
  simp [closureStep]

/-- the iteration `for _ in range(1, depth)` -/
theorem iter_eq (conn : List (List Bool)) (n k : Nat) (lines : List Bool) (hc : conn.length = n) (hl : lines.length = n)
    (body : List Bool → List Bool)
    (hb : ∀ v : List Bool, v.length = n → body v = closureStep conn v) :
    iter body k lines = Confidence.iterate (closureStep conn) k lines ∧ (Confidence.iterate (closureStep conn) k lines).length = n := by
  induction k generalizing lines with
  | zero => exact ⟨rfl, hl⟩
  | succ k ih =>
    have h1 := hb lines hl
    have h2 : (closureStep conn lines).length = n := by rw [length_closureStep, hl]
    simp only [iter, Confidence.iterate, h1]
    exact ih (closureStep conn lines) h2

theorem set_true_eq (lines : List Bool) (i : Nat) :
    lines.set i true = (List.range lines.length).map (fun k => if k = i then true else lines.getD k false) := by
  apply List.ext_getElem
  · simp
  · intro k h1 h2
    simp only [List.getElem_set, List.getElem_map, List.getElem_range, List.getD_eq_getElem?_getD]
    have hk : k < lines.length := by simpa using h1
    by_cases hik : i = k
    · simp [hik]
    · have : ¬ k = i := fun h => hik h.symm
      simp [hik, this, List.getElem?_eq_getElem hk]

/-- one row of the closure nest, for ANY body of the iteration that is `closureStep` on rows of length `n` -/
theorem closeRow_core (conn : List (List Bool)) (n depth i : Nat) (body : List Bool → List Bool)
    (hb : ∀ v : List Bool, v.length = n → body v = closureStep conn v)
    (hc : conn.length = n) (hl : (conn.getD i []).length = n) :
    (iter body (depth - 1) (conn.getD i [])).set i true
      = (List.range n).map (fun k =>
          if k = i then true else (Confidence.iterate (closureStep conn) (depth - 1) (conn.getD i [])).getD k false) := by
  obtain ⟨h1, h2⟩ := iter_eq conn n (depth - 1) (conn.getD i []) hc hl body hb
  rw [h1, set_true_eq, h2]

/-- **`create_connected_graph`: the generated function is the hand model.**  For every list of segments and every depth
    (`0`: identity; otherwise the connection scan, `depth − 1` closure passes per row, the diagonal set), the matrix the
    source builds today is `Confidence.connectedGraph`. -/
theorem createConnectedGraph_generated_eq (segs : List (Pos × Pos)) (depth : Nat) :
    Generated.KernelsRegul.createConnectedGraph segs.length (blOf segs) (brOf segs) depth
      = Confidence.connectedGraph segs depth := by
  unfold Generated.KernelsRegul.createConnectedGraph Confidence.connectedGraph
  by_cases hd : depth = 0
  · simp [hd, eye]
  · simp only [hd, if_false]
    rw [connectionGraph_generated_eq]
    apply List.map_congr_left
    intro i hi
    have hi' : i < segs.length := by simpa using hi
    have hc := length_connectionGraph segs
    have hl := length_row_connectionGraph segs i hi'
    simp only [Generated.KernelsRegul.closeRow, rowOf]
    refine closeRow_core (Confidence.connectionGraph segs) segs.length depth i _ ?_ hc hl
    intro v hv
    rw [← hv]
    first
      | exact closure_step_eq _ v (by rw [hc, hv])
      | exact closure_step_eq' _ v (by rw [hc, hv])

/-- transfer: `interval_regularization` of the hand model is `graph_regularization` run on the matrix the GENERATED
    `create_connected_graph` builds from the segments — so `intervalRegularization_widens` (quantile 1 only widens) and the
    correspondence of C12 speak about the graph the source defines today -/
theorem intervalRegularization_over_generated (inf sup amb : Grid Val) (thr : Rat) (k depth : Nat) (q : Rat) :
    intervalRegularization inf sup amb thr k depth q
      = (let segs := (borders thr k amb).1.zip (borders thr k amb).2
         graphRegularization inf sup segs
           (Generated.KernelsRegul.createConnectedGraph segs.length (blOf segs) (brOf segs) depth) q) := by
  simp only [intervalRegularization, createConnectedGraph_generated_eq]

-- non-vacuity: two rows of segments, overlapping and not, and a far row (the `break`)
example : Confidence.connectionGraph [((0, 0), (0, 2)), ((0, 5), (0, 7)), ((1, 1), (1, 4)), ((1, 6), (1, 9)), ((3, 0), (3, 9))]
    = [[false, false, true, false, false], [false, false, false, true, false], [true, false, false, false, false],
       [false, true, false, false, false], [false, false, false, false, false]] := by decide +kernel

end Pandora.C12KernelsRegul
