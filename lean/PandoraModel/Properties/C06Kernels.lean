/-
  C06 — the refinement kernels REGENERATED from the Python source (`Generated/Kernels.lean`, written by
  translator/gen_kernels.py with the expression-level translator translator/pyexpr.py) are equal, for all
  inputs, to the hand-written method functions of `Model/Refinement.lean`.
-/
import PandoraModel.Model.Refinement
import PandoraModel.Model.PyExpr
import PandoraModel.Generated.Kernels
import PandoraModel.Generated.KernelsSelfTest  -- the translator's own test functions, checked by evaluation
import PandoraModel.Properties.C06
import Mathlib.Tactic.Linarith
import Mathlib.Tactic.Tauto
import Mathlib.Tactic.Ring
import Mathlib.Tactic.FieldSimp
import Mathlib.Algebra.Order.Field.Basic

namespace Pandora.C06Kernels
open Pandora Pandora.Refinement Pandora.PyExpr

def encOut (r : MOut) : Val × Val × Int := (.num r.shift, .num r.cost, (r.flag : Int))
def encRes : Res MOut → PyRes (Val × Val × Int)
  | .ok r => .ok (encOut r)
  | .err _ => .zeroDivision

@[simp] theorem vlt_num (a b : ℚ) : vlt (.num a) (.num b) = decide (a < b) := rfl
@[simp] theorem vle_num (a b : ℚ) : vle (.num a) (.num b) = decide (a ≤ b) := rfl
@[simp] theorem veq_num (a b : ℚ) : veq (.num a) (.num b) = decide (a = b) := rfl
@[simp] theorem vne_num (a b : ℚ) : vne (.num a) (.num b) = !decide (a = b) := rfl
@[simp] theorem vadd_num (a b : ℚ) : vadd (.num a) (.num b) = .num (a + b) := rfl
@[simp] theorem vsub_num (a b : ℚ) : vsub (.num a) (.num b) = .num (a - b) := rfl
@[simp] theorem vmul_num (a b : ℚ) : vmul (.num a) (.num b) = .num (a * b) := rfl
@[simp] theorem vdiv_num (a b : ℚ) : vdiv (.num a) (.num b) = .num (a / b) := rfl
@[simp] theorem vneg_num (a : ℚ) : vneg (.num a) = .num (-a) := rfl
@[simp] theorem vabs_num (a : ℚ) : vabs (.num a) = .num (rabs a) := rfl
@[simp] theorem vpow_num (a : ℚ) (n : Nat) : vpow (.num a) n = .num (rpow a n) := rfl
@[simp] theorem visZero_num (a : ℚ) : visZero (.num a) = decide (a = 0) := rfl
@[simp] theorem vmax_num (a b : ℚ) : vmax (.num a) (.num b) = .num (rmax a b) := by
  simp only [vmax, rmax, vlt_num, decide_eq_true_eq]; split_ifs <;> rfl
@[simp] theorem vmin_num (a b : ℚ) : vmin (.num a) (.num b) = .num (rmin a b) := by
  simp only [vmin, rmin, vlt_num, decide_eq_true_eq]; split_ifs <;> rfl

theorem clamp1_eq (x : ℚ) : clamp1 x = rmin 1 (rmax (-1) x) := by
  unfold clamp1 rmin rmax; split_ifs <;> linarith
theorem rmax_rmin_eq (x : ℚ) : rmax (-1) (rmin 1 x) = rmin 1 (rmax (-1) x) := by
  unfold rmin rmax; split_ifs <;> linarith
theorem ratAbs_eq_rabs (x : ℚ) : ratAbs x = rabs x := rfl

/-- closes one leaf of the case analysis: no goal left, contradictory guards (linear arithmetic, `≠` split),
    or the equality of the returned numbers (ring normal form / cleared denominators) -/
macro "kernel_leaf" : tactic => `(tactic| first
    | done
    | (exfalso; linarith (config := {splitNe := true}))
    | (ring_nf; done)
    | (field_simp; ring1)
    | linarith
    | (constructor <;> first | (ring_nf; done) | (field_simp; ring1) | linarith | grind)
    | grind)

/-- `generated kernel = encRes (hand model)`: split on the measure and on NaN-ness of the two neighbours, unfold both
    sides to `if` trees over `ℚ` (the hand model's `clamp1` / `ratAbs` rewritten into the translator's `rmin` /
    `rmax` / `rabs`), split every `if`, close each leaf by arithmetic — nothing is closed by syntactic identity of
    the two texts; if a leaf survives, `rabs` / `rmin` / `rmax` are unfolded as well and the leaves split again. -/
macro "kernel_eq " f:ident : tactic => `(tactic| (
  intro c0 c2 d c1 measure
  by_cases h : measure = "max" <;> cases c0 <;> cases c2 <;>
    simp [$f:ident, vfit, quadratic, h, stoppedBit, Flags.stoppedInterpolation, sgn, encRes, encOut, clamp1_eq,
      rmax_rmin_eq, ratAbs_eq_rabs, rpow, tiny, Pandora.C06.sourceVariant, Pandora.Generated.RefineCC.quadraticFlatGuard]
  all_goals split_ifs
  all_goals (try simp_all)
  all_goals first
    | kernel_leaf
    | (simp only [rabs, rmin, rmax] at *
       split_ifs at * <;> (try simp_all) <;> kernel_leaf)))

open Pandora.Generated.Kernels Pandora.C06

/-! ## The two equalities -/

theorem vfitMethod_eq : ∀ (c0 c2 d : Val) (c1 : ℚ) (measure : String),
    vfitMethod c0 (.num c1) c2 d measure = encRes (vfit (measure == "max") c0 c1 c2) := by
  kernel_eq vfitMethod

/-- `sourceVariant.fixFlat` is what T11 read in quadratic.py (the `alpha == 0` guard is present or not): the
    generated kernel is the hand model at that variant — with the guard it never raises, without it it raises
    exactly where the model says `Err.zeroDivision` -/
theorem quadraticMethod_eq : ∀ (c0 c2 d : Val) (c1 : ℚ) (measure : String),
    quadraticMethod c0 (.num c1) c2 d measure
      = encRes (quadratic sourceVariant.fixFlat (measure == "max") c0 c1 c2) := by
  kernel_eq quadraticMethod

/-! ## Exact correspondence of the encodings

  generated kernel                                  hand model (`Model/Refinement.lean`)
  `cost0 cost1 cost2 : Val`                          `c0 : Val`, `c1 : ℚ` (the loop never passes a NaN centre), `c2 : Val`
  `disp : Val` (not read by either method)           —
  `measure : String`                                 `isMax = (measure == "max")`
  `PyRes.ok (shift, cost, code) : Val × Val × Int`   `Res.ok ⟨shift, cost, flag⟩ : ℚ × ℚ × ℕ`, numbers as `Val.num`, `flag` cast
  `PyRes.zeroDivision`                               `Res.err .zeroDivision` (the only error a method returns: `runMethod_err`)
-/

/-- back from the generated encoding (total; exact on everything a method returns, `decRes_encRes`) -/
def decRes : PyRes (Val × Val × Int) → Res MOut
  | .ok (s, y, f) => .ok ⟨s.get, y.get, f.toNat⟩
  | .zeroDivision => .err .zeroDivision

theorem runMethod_err (ff : Bool) (m : Method) (isMax : Bool) (c0 c2 : Val) (c1 : ℚ) (e : Err)
    (h : runMethod ff m isMax c0 c1 c2 = .err e) : e = .zeroDivision := by
  rcases runMethod_total ff m isMax c0 c2 c1 with ⟨r, hr⟩ | ⟨_, _, hz⟩
  · rw [hr] at h; cases h
  · rw [hz] at h; cases h; rfl

theorem decRes_encRes (x : Res MOut) (h : ∀ e, x = .err e → e = .zeroDivision) : decRes (encRes x) = x := by
  cases x with
  | ok r => cases r; simp [encRes, encOut, decRes, Val.get]
  | err e => simp [encRes, decRes, h e rfl]

theorem encRes_eq_ok (x : Res MOut) (s y : Val) (f : Int) (h : encRes x = .ok (s, y, f)) :
    ∃ r, x = .ok r ∧ s = .num r.shift ∧ y = .num r.cost ∧ f = (r.flag : Int) := by
  cases x with
  | ok r => simp only [encRes, encOut, PyRes.ok.injEq, Prod.mk.injEq] at h; exact ⟨r, rfl, h.1.symm, h.2.1.symm, h.2.2.symm⟩
  | err e => simp [encRes] at h

/-- the method of the model's `Method`, as the source defines it today -/
def kernelMethod (m : Method) (c0 c1 c2 d : Val) (measure : String) : PyRes (Val × Val × Int) :=
  match m with
  | .vfit => vfitMethod c0 c1 c2 d measure
  | .quadratic => quadraticMethod c0 c1 c2 d measure

/-- **The generated kernels are the hand model's method functions**, for every input the loop can pass
    (any neighbours, NaN included; a numeric centre; any disparity; any measure string). -/
theorem kernelMethod_eq (m : Method) (c0 c2 d : Val) (c1 : ℚ) (measure : String) :
    kernelMethod m c0 (.num c1) c2 d measure
      = encRes (runMethod sourceVariant.fixFlat m (measure == "max") c0 c1 c2) := by
  cases m <;> simp only [kernelMethod, runMethod, vfitMethod_eq, quadraticMethod_eq]

/-- the string the loop passes for a measure -/
def measureOf (isMax : Bool) : String := if isMax then "max" else "min"

theorem measureOf_eq (isMax : Bool) : (measureOf isMax == "max") = isMax := by cases isMax <;> decide

/-- ... and conversely the hand model is computed by the generated kernels -/
theorem runMethod_eq_kernel (m : Method) (isMax : Bool) (c0 c2 d : Val) (c1 : ℚ) :
    runMethod sourceVariant.fixFlat m isMax c0 c1 c2
      = decRes (kernelMethod m c0 (.num c1) c2 d (measureOf isMax)) := by
  rw [kernelMethod_eq, measureOf_eq, decRes_encRes _ (fun e => runMethod_err _ _ _ _ _ _ e)]

/-! ## The method-level theorems of C06, for the functions the source defines -/

/-- `method_stop` for the generated kernels: a NaN neighbour or a centre that is not an extremum gives
    (0, the centre cost, bit 3). -/
theorem kernel_method_stop (m : Method) (c0 c2 d : Val) (c1 : ℚ) (measure : String)
    (h : c0 = .nan ∨ c2 = .nan ∨
      ∃ a0 a2, c0 = .num a0 ∧ c2 = .num a2 ∧ isExtremum (measure == "max") a0 c1 a2 = false) :
    kernelMethod m c0 (.num c1) c2 d measure = .ok (.num 0, .num c1, (stoppedBit : Int)) := by
  rw [kernelMethod_eq, method_stop _ _ _ _ _ _ h]; rfl

/-- `method_refine` for the generated kernels: on three numbers with the centre an extremum the function of the
    source returns (shift, fitted cost, 0) with `|shift| ≤ 1/2`, the fitted cost not worse than the centre and the
    fitted point required by the statement — or it is `quadratic` without its `alpha == 0` guard on three equal
    costs, which raises ZeroDivisionError. -/
theorem kernel_method_refine (m : Method) (d : Val) (measure : String) (a0 c1 a2 tol : ℚ)
    (hext : isExtremum (measure == "max") a0 c1 a2 = true) (htol : 0 ≤ tol)
    (hnt : m = .vfit → (tiny ≤ tol ∨ vslopeOf (measure == "max") a0 c1 a2 = 0
      ∨ tiny ≤ vslopeOf (measure == "max") a0 c1 a2)) :
    (m = .quadratic ∧ sourceVariant.fixFlat = false ∧ a0 = c1 ∧ a2 = c1
      ∧ kernelMethod m (.num a0) (.num c1) (.num a2) d measure = .zeroDivision) ∨
    (¬(m = .quadratic ∧ sourceVariant.fixFlat = false ∧ a0 = c1 ∧ a2 = c1) ∧
     ∃ s y : ℚ, kernelMethod m (.num a0) (.num c1) (.num a2) d measure = .ok (.num s, .num y, 0)
      ∧ -(1/2) ≤ s ∧ s ≤ 1/2 ∧ (if (measure == "max") then c1 ≤ y else y ≤ c1)
      ∧ fitOK m (measure == "max") a0 c1 a2 s y tol = true) := by
  rcases method_refine sourceVariant.fixFlat m (measure == "max") a0 c1 a2 tol hext htol hnt with
    ⟨hm, hff, e0, e2, he⟩ | ⟨hne, r, hr, hf, h1, h2, h3, h4⟩
  · left; refine ⟨hm, hff, e0, e2, ?_⟩; rw [kernelMethod_eq, he]; rfl
  · right; refine ⟨hne, r.shift, r.cost, ?_, h1, h2, h3, h4⟩
    rw [kernelMethod_eq, hr]; simp [encRes, encOut, hf]

/-- `vfit_shift_le_half` for the generated kernel: whatever the costs, what `Vfit.refinement_method` returns is a
    triple of numbers whose shift is within half a sample; it never raises. -/
theorem vfitMethod_shift_le_half (c0 c2 d : Val) (c1 : ℚ) (measure : String) :
    ∃ (s y : ℚ) (f : Nat), vfitMethod c0 (.num c1) c2 d measure = .ok (.num s, .num y, (f : Int))
      ∧ -(1/2) ≤ s ∧ s ≤ 1/2 := by
  rcases runMethod_total false .vfit (measure == "max") c0 c2 c1 with ⟨r, hr⟩ | ⟨hm, -⟩
  · simp only [runMethod] at hr
    have hb := vfit_shift_le_half (measure == "max") c0 c2 c1 r hr
    exact ⟨r.shift, r.cost, r.flag, by rw [vfitMethod_eq, hr]; rfl, hb.1, hb.2⟩
  · cases hm

/-- `quadratic_raises_iff` for the generated kernel -/
theorem quadraticMethod_raises_iff (d : Val) (measure : String) (a0 c1 a2 : ℚ)
    (hext : isExtremum (measure == "max") a0 c1 a2 = true) :
    quadraticMethod (.num a0) (.num c1) (.num a2) d measure = .zeroDivision
      ↔ (sourceVariant.fixFlat = false ∧ a0 = c1 ∧ a2 = c1) := by
  rw [quadraticMethod_eq, ← quadratic_raises_iff sourceVariant.fixFlat (measure == "max") a0 c1 a2 hext]
  constructor
  · intro h
    cases hq : quadratic sourceVariant.fixFlat (measure == "max") (.num a0) c1 (.num a2) with
    | ok r => rw [hq] at h; simp [encRes] at h
    | err e => rw [runMethod_err sourceVariant.fixFlat .quadratic (measure == "max") (.num a0) (.num a2) c1 e hq]
  · intro h; rw [h]; rfl

/-- with the `alpha == 0` guard in quadratic.py (what T11 reads today) no method of the source raises -/
theorem kernelMethod_total (hflat : sourceVariant.fixFlat = true) (m : Method) (c0 c2 d : Val) (c1 : ℚ)
    (measure : String) : ∃ (s y : ℚ) (f : Nat), kernelMethod m c0 (.num c1) c2 d measure = .ok (.num s, .num y, (f : Int)) := by
  rcases runMethod_total sourceVariant.fixFlat m (measure == "max") c0 c2 c1 with ⟨r, hr⟩ | ⟨-, hff, -⟩
  · exact ⟨r.shift, r.cost, r.flag, by rw [kernelMethod_eq, hr]; rfl⟩
  · rw [hflat] at hff; cases hff

/-! ## The per-pixel decision of `loop_refinement` -/

/-- the test that lets the method run, as the source writes it today (`Generated.Kernels.refineGuard`, an expression
    translated out of the loop: `dsp` the sample index, `n_disp` the length of the cost row, `disp[row, col]`,
    `d_min`, `d_max`), is the model's `notAtEnd` at the variant T11 reads in the same file -/
theorem refineGuard_eq (P : Params) (hP : P.variant.fixEnds = sourceVariant.fixEnds) (n : Nat) (dv : ℚ) (dsp : Int) :
    refineGuard dsp (n : Int) dv P.dmin P.dmax = notAtEnd P n dv dsp := by
  simp only [refineGuard, notAtEnd, hP, sourceVariant, Generated.RefineCC.endTestOnIndex]
  rw [Bool.eq_iff_iff]
  simp [bne, beq_eq_decide]
  try tauto

/-! ## Pixel and map level: the loop body with the generated kernels in place of the hand-written methods -/

/-- `refinePixel` of Model/Refinement.lean, the test that lets the method run and the call of the method replaced by
    what the source defines (arguments as `loop_refinement` passes them: the three cells, `disp[row, col]`, the
    measure string) -/
def refinePixelK (P : Params) (x : PixIn) : Res PixOut :=
  if Flags.isInvalid x.flag then .ok ⟨.nan, x.d, x.flag⟩
  else
    match x.d with
    | .nan => .err .nanDisparity
    | .num dv =>
      let dsp := pyInt ((dv - P.dmin) * (P.subpix : Rat))
      match pyGet x.costs dsp with
      | none => .err .outOfBounds
      | some .nan => .ok ⟨.nan, x.d, x.flag⟩
      | some (.num c1) =>
        if refineGuard dsp (x.costs.length : Int) dv P.dmin P.dmax then
          match pyGet x.costs (dsp - 1), pyGet x.costs (dsp + 1) with
          | some c0, some c2 =>
            match decRes (kernelMethod P.method c0 (.num c1) c2 x.d (measureOf P.isMax)) with
            | .ok r => .ok ⟨.num r.cost, .num (dv + r.shift / (P.subpix : Rat)), addFlag P.variant.fixOr x.flag r.flag⟩
            | .err e => .err e
          | _, _ => .err .outOfBounds
        else .ok ⟨.num c1, x.d, addFlag P.variant.fixOr x.flag stoppedBit⟩

theorem refinePixelK_eq (P : Params) (hP : P.variant.fixFlat = sourceVariant.fixFlat)
    (hE : P.variant.fixEnds = sourceVariant.fixEnds) (x : PixIn) :
    refinePixelK P x = refinePixel P x := by
  simp only [refinePixelK, refinePixel, ← runMethod_eq_kernel, hP, refineGuard_eq P hE]
  try rfl

def loopRefinementK (P : Params) (g : List (List PixIn)) : Res (List (List PixOut)) :=
  mapRes (mapRes (refinePixelK P)) g

/-- the whole step with the regenerated kernels is the model's step: every theorem of `Properties/C06.lean` about
    `refinePixel` / `loopRefinement` at the source's variant (`loop_spec`, `loop_total`, `refinePixel_total`, …) is a
    theorem about the loop running the functions the source defines today -/
theorem loopRefinementK_eq (P : Params) (hP : P.variant.fixFlat = sourceVariant.fixFlat)
    (hE : P.variant.fixEnds = sourceVariant.fixEnds) (g : List (List PixIn)) :
    loopRefinementK P g = loopRefinement P g := by
  have : refinePixelK P = refinePixel P := funext (refinePixelK_eq P hP hE)
  simp only [loopRefinementK, loopRefinement, this]

/-- **C06 for the source as it is now, kernels included**: `source_pixel_spec` with the regenerated kernels -/
theorem kernel_pixel_spec (P : Params) (x : PixIn) (tol : ℚ) (hP : P.variant = sourceVariant)
    (hp : pixHyp P x = true) (htol : 0 ≤ tol)
    (hnt : P.method = .vfit → tiny ≤ tol ∨ notTinyCosts x.costs = true) :
    (∃ o, refinePixelK P x = .ok o ∧ specOK P x o tol = true) ∨
    (P.method = .quadratic ∧ P.variant.fixFlat = false ∧ refinePixelK P x = .err .zeroDivision
      ∧ ∃ d c, classify P x = .refine d c c c) := by
  rw [refinePixelK_eq P (by rw [hP]) (by rw [hP]) x]
  exact source_pixel_spec P x tol hP hp htol hnt

/-! ## Outside the hand model: a NaN centre

  `loop_refinement` never calls a method with a NaN centre (`refinePixel`: `some .nan` is answered before), so the
  hand model takes `c1 : ℚ`.  The generated kernels are defined there too (they are the Python functions): with
  numeric neighbours, NaN is not "greater", so the extremum test passes and NaN propagates; `min(1.0, max(-1.0, nan))`
  is -1.0 (Python's and numba's `max` keep the first argument against NaN). -/

set_option linter.unusedSimpArgs false in
theorem vfitMethod_nan_centre (a0 a2 : ℚ) (d : Val) (measure : String) :
    vfitMethod (.num a0) .nan (.num a2) d measure = .ok (.nan, .nan, 0) := by
  by_cases h : measure = "max" <;>
    simp [vfitMethod, h, vmul, vsub, vlt, vabs, vdiv, vadd, veq, visZero, Val.map2, Val.map]

set_option linter.unusedSimpArgs false in
theorem quadraticMethod_nan_centre (a0 a2 : ℚ) (d : Val) (measure : String) :
    quadraticMethod (.num a0) .nan (.num a2) d measure = .ok (.num (-1), .nan, 0) := by
  by_cases h : measure = "max" <;>
    simp [quadraticMethod, h, vmul, vsub, vlt, vabs, vdiv, vadd, veq, vmin, vmax, vpow, visZero, Val.map2, Val.map]

/-! ## Non-vacuity: concrete inputs -/

-- a refined pixel (vfit, cost to be minimised): slope 4 on the left, apex at +1/4 with cost 0
example : vfitMethod (.num 5) (.num 1) (.num 3) (.num 0) "min" = .ok (.num (1/4), .num 0, 0) := by decide +kernel
-- a similarity measure, quadratic: parabola through (-1, 1), (0, 4), (1, 3)
example : quadraticMethod (.num 1) (.num 4) (.num 3) (.num 2) "max" = .ok (.num (1/4), .num (33/8), 0) := by
  decide +kernel
-- stopped: NaN neighbour / not an extremum
example : kernelMethod .quadratic .nan (.num 4) (.num 3) (.num 2) "max" = .ok (.num 0, .num 4, 8) := by decide +kernel
example : kernelMethod .vfit (.num 0) (.num 4) (.num 3) (.num 2) "min" = .ok (.num 0, .num 4, 8) := by decide +kernel
-- the hypotheses of `kernel_method_refine` / `kernel_method_stop` on these inputs
example : isExtremum ("min" == "max") 5 1 3 = true ∧ tiny ≤ vslopeOf ("min" == "max") 5 1 3 := by decide +kernel
example : isExtremum ("max" == "max") 1 4 3 = true := by decide +kernel
example : isExtremum ("min" == "max") 0 4 3 = false := by decide +kernel

end Pandora.C06Kernels
