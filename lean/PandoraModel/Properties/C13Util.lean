/-
  C13 — tools shared by the step localities (`C13Median`, `C13Refinement`, `C13CrossCheck`, …).

  * cones given by explicit bounds on the offsets of a stencil (no `coneOf` computation needed);
  * arrays with explicit sizes seen as partial images (`toImg`, from `C13Steps`), rectangular crops of
    arrays, and the bridge "the array of a crop = the whole partial image, restricted and re-indexed";
  * `crop_run_eq_whole`: for a local, translation-equivariant step on partial images, running it on the
    array of a crop gives at a pixel what running it on the whole array gives at the corresponding pixel,
    as soon as the part of the cone that lies in the image lies in the crop.
-/
import PandoraModel.Properties.C13
import PandoraModel.Properties.C13Steps

namespace Pandora.C13
open Pandora.Locality

/-- the square cone of radius `R` -/
def Cone.square (R : Nat) : Cone := ⟨R, R, R, R⟩

/-- a cone on the pixel's own row: `l` columns to the left, `r` to the right -/
def Cone.row (l r : Nat) : Cone := ⟨0, 0, l, r⟩

/-- every offset of the list lies in the cone -/
def OffsIn (R : Cone) (offs : List Px) : Prop :=
  ∀ d ∈ offs, -(R.up : Int) ≤ d.1 ∧ d.1 ≤ R.down ∧ -(R.left : Int) ≤ d.2 ∧ d.2 ≤ R.right

/-- **A stencil is local with any cone that contains its offsets.** -/
theorem stencil_local_of_bounds {α β : Type} (R : Cone) (offs : List Px) (G : List (Option α) → Option β)
    (h : OffsIn R offs) : Local R (stencil offs G) := by
  intro a b p hab
  unfold stencil
  congr 1
  apply List.map_congr_left
  intro d hd
  apply hab
  have := h d hd
  unfold inCone
  simp only
  omega

theorem inCone_self (R : Cone) (p : Px) : inCone R p p := by
  unfold inCone; omega

/-! ### arrays, crops -/

/-- the pixel is a cell of an `ny × nx` array -/
def InImage (ny nx : Nat) (q : Px) : Prop := 0 ≤ q.1 ∧ q.1 < ny ∧ 0 ≤ q.2 ∧ q.2 < nx

instance (ny nx : Nat) : DecidablePred (InImage ny nx) := fun q => by unfold InImage; infer_instance

/-- the rectangle of `ny' × nx'` cells whose first cell is `(r0, c0)` -/
def InRect (r0 c0 ny' nx' : Nat) (q : Px) : Prop :=
  (r0 : Int) ≤ q.1 ∧ q.1 < r0 + ny' ∧ (c0 : Int) ≤ q.2 ∧ q.2 < c0 + nx'

instance (r0 c0 ny' nx' : Nat) : DecidablePred (InRect r0 c0 ny' nx') := fun q => by
  unfold InRect; infer_instance

/-- the array of a crop: `ny' × nx'` cells starting at `(r0, c0)`, re-indexed from `(0, 0)` -/
def cropArr {α : Type} (r0 c0 : Nat) (data : Nat → Nat → α) : Nat → Nat → α := fun r c => data (r + r0) (c + c0)

theorem toImg_some {α : Type} (ny nx : Nat) (data : Nat → Nat → α) (r c : Nat) (hr : r < ny) (hc : c < nx) :
    toImg ny nx data ((r : Int), (c : Int)) = some (data r c) := by
  unfold toImg
  have : (0 : Int) ≤ (r : Int) ∧ (r : Int) < ny ∧ (0 : Int) ≤ (c : Int) ∧ (c : Int) < nx := by omega
  simp only [this, and_self, if_true, Int.toNat_natCast]

theorem toImg_none {α : Type} (ny nx : Nat) (data : Nat → Nat → α) (q : Px) (h : ¬ InImage ny nx q) :
    toImg ny nx data q = none := by
  unfold toImg
  unfold InImage at h
  rw [if_neg h]

theorem toImg_eq_none_iff {α : Type} (ny nx : Nat) (data : Nat → Nat → α) (q : Px) :
    toImg ny nx data q = none ↔ ¬ InImage ny nx q := by
  unfold toImg InImage
  by_cases h : 0 ≤ q.1 ∧ q.1 < ny ∧ 0 ≤ q.2 ∧ q.2 < nx <;> simp [h]

theorem toImg_congr {α : Type} (ny nx : Nat) (a b : Nat → Nat → α) (h : ∀ r c, r < ny → c < nx → a r c = b r c) :
    toImg ny nx a = toImg ny nx b := by
  funext q
  unfold toImg
  by_cases hq : 0 ≤ q.1 ∧ q.1 < ny ∧ 0 ≤ q.2 ∧ q.2 < nx
  · rw [if_pos hq, if_pos hq, h _ _ (by omega) (by omega)]
  · rw [if_neg hq, if_neg hq]

/-- **The array of a crop is the whole partial image, restricted to the crop and re-indexed.** -/
theorem toImg_crop {α : Type} (ny nx r0 c0 ny' nx' : Nat) (data : Nat → Nat → α)
    (hfit : r0 + ny' ≤ ny ∧ c0 + nx' ≤ nx) :
    toImg ny' nx' (cropArr r0 c0 data)
      = shift ((r0 : Int), (c0 : Int)) (restrict (InRect r0 c0 ny' nx') (toImg ny nx data)) := by
  funext q
  unfold shift restrict toImg cropArr InRect
  simp only
  by_cases h : 0 ≤ q.1 ∧ q.1 < ny' ∧ 0 ≤ q.2 ∧ q.2 < nx'
  · have h1 : (r0 : Int) ≤ q.1 + r0 ∧ q.1 + r0 < r0 + ny' ∧ (c0 : Int) ≤ q.2 + c0 ∧ q.2 + c0 < c0 + nx' := by omega
    have h2 : (0 : Int) ≤ q.1 + r0 ∧ q.1 + r0 < ny ∧ (0 : Int) ≤ q.2 + c0 ∧ q.2 + c0 < nx := by omega
    rw [if_pos h, if_pos h1, if_pos h2]
    have e1 : (q.1 + (r0 : Int)).toNat = q.1.toNat + r0 := by omega
    have e2 : (q.2 + (c0 : Int)).toNat = q.2.toNat + c0 := by omega
    rw [e1, e2]
  · have h1 : ¬ ((r0 : Int) ≤ q.1 + r0 ∧ q.1 + r0 < r0 + ny' ∧ (c0 : Int) ≤ q.2 + c0 ∧ q.2 + c0 < c0 + nx') := by omega
    rw [if_neg h, if_neg h1]

/-- **Crop run = whole run, on arrays.**  `f` is a step on partial images, local with cone `R` and
    translation equivariant.  Running it on the array of the crop `[r0, r0+ny') × [c0, c0+nx')` gives at
    crop pixel `p` what running it on the whole `ny × nx` array gives at `p + (r0, c0)`, provided every
    pixel of the cone of `p + (r0, c0)` is in the crop or outside the image. -/
theorem crop_run_eq_whole {α β : Type} {R : Cone} {f : Img α → Img β} (hf : Local R f) (he : Equivariant f)
    (ny nx r0 c0 ny' nx' : Nat) (data : Nat → Nat → α) (hfit : r0 + ny' ≤ ny ∧ c0 + nx' ≤ nx) (p : Px)
    (hcone : ∀ q, inCone R (p.1 + r0, p.2 + c0) q → InRect r0 c0 ny' nx' q ∨ ¬ InImage ny nx q) :
    f (toImg ny' nx' (cropArr r0 c0 data)) p = f (toImg ny nx data) (p.1 + r0, p.2 + c0) := by
  rw [toImg_crop ny nx r0 c0 ny' nx' data hfit]
  apply crop_anywhere hf he
  intro q hq
  rcases hcone q hq with h | h
  · exact Or.inl h
  · exact Or.inr (toImg_none ny nx data q h)

/-- two arrays side by side as one array of pairs -/
def zipArr {α β : Type} (a : Nat → Nat → α) (b : Nat → Nat → β) : Nat → Nat → α × β := fun r c => (a r c, b r c)

theorem cropArr_zipArr {α β : Type} (r0 c0 : Nat) (a : Nat → Nat → α) (b : Nat → Nat → β) :
    cropArr r0 c0 (zipArr a b) = zipArr (cropArr r0 c0 a) (cropArr r0 c0 b) := rfl

/-- a cone wholly inside the image and inside the crop satisfies the premise of `crop_run_eq_whole` -/
theorem cone_in_crop_of_bounds (R : Cone) (r0 c0 ny' nx' ny nx : Nat) (p : Px)
    (h : (R.up : Int) ≤ p.1 ∧ p.1 + R.down < ny' ∧ (R.left : Int) ≤ p.2 ∧ p.2 + R.right < nx') :
    ∀ q, inCone R (p.1 + r0, p.2 + c0) q → InRect r0 c0 ny' nx' q ∨ ¬ InImage ny nx q := by
  intro q hq
  left
  unfold inCone at hq
  unfold InRect
  simp only at hq
  omega

end Pandora.C13
