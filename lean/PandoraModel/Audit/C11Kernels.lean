import PandoraModel.Properties.C11Kernels
-- the cross-support kernel regenerated from the Python source (Generated/KernelsCbca.lean, T14) is the hand model
#print axioms Pandora.C11Kernels.forLoop_arm
#print axioms Pandora.C11Kernels.jump_eq
#print axioms Pandora.C11Kernels.crossSupport_generated_eq
#print axioms Pandora.C11Kernels.crossSupport_generated_eq_source
#print axioms Pandora.C11Kernels.crossSupport_generated_spec
#print axioms Pandora.C11Kernels.crossSupport_generated_total
