import PandoraModel.Properties.C10
open Pandora.C10 Pandora.Filter Pandora.Blocks
#print axioms blocked_eq_direct
#print axioms sorted_isKth
#print axioms nanmedian_isMedian
#print axioms isMedian_between
#print axioms medianFilter_eq_direct
#print axioms medianFilter_block_independent
#print axioms median_cell
#print axioms medianFilterDisparity_spec
#print axioms medianBand_spec
#print axioms source_median_spec
#print axioms kernel_eq_weightedMean
#print axioms weightedMean_between
#print axioms bilateralFilter_eq_direct
#print axioms bilateralFilter_block_independent
#print axioms bilateralFilterDisparity_spec
#print axioms source_bilateral_window
#print axioms source_bilateral_spec
#print axioms invalidMask_documented
#print axioms regularize_flagSpec
#print axioms regularize_other_bits
#print axioms regularize_validity
#print axioms regularize_idempotent
