import PandoraModel.Properties.C10
import PandoraModel.Properties.C10C12
import PandoraModel.Properties.C10Kernels
import PandoraModel.Properties.C10KernelsIntervals
open Pandora.C10 Pandora.Filter Pandora.Blocks
#print axioms blocked_eq_direct
#print axioms sorted_isKth
#print axioms nanmedian_isMedian
#print axioms isMedian_between
#print axioms medianFilter_eq_direct
#print axioms medianFilter_block_independent
#print axioms median_cell
#print axioms medianFilterDisparity_spec
#print axioms medianBand_spec
#print axioms source_median_spec
#print axioms kernel_eq_weightedMean
#print axioms weightedMean_between
#print axioms bilateralFilter_eq_direct
#print axioms bilateralFilter_block_independent
#print axioms bilateralFilterDisparity_spec
#print axioms source_bilateral_window
#print axioms source_bilateral_spec
#print axioms invalidMask_documented
#print axioms regularize_flagSpec
#print axioms regularize_other_bits
#print axioms regularize_validity
#print axioms regularize_idempotent
-- C10 ∘ C12: median_for_intervals with C12's regularisation model as the producer of the bands and of the mask
#print axioms Pandora.C10C12.graphRegularization_frame
#print axioms Pandora.C10C12.regularization_frame
#print axioms Pandora.C10C12.intervals_noreg
#print axioms Pandora.C10C12.intervals_bands_median
#print axioms Pandora.C10C12.intervals_regMask
#print axioms Pandora.C10C12.intervals_flags
#print axioms Pandora.C10C12.intervals_flagSpec
#print axioms Pandora.C10C12.intervals_bit11_iff
#print axioms Pandora.IntervalRuns.borders_length
#print axioms Pandora.IntervalRuns.cover_runs
#print axioms Pandora.IntervalRuns.inSegments_iff
#print axioms Pandora.C10C12.intervals_bit11_lowConfidence
#print axioms Pandora.C10C12.intervals_other_bits
#print axioms Pandora.C10C12.intervals_validity
#print axioms Pandora.C10C12.intervals_border
#print axioms Pandora.C10C12.intervals_frame
#print axioms Pandora.C10C12.changed_implies_flagged
#print axioms Pandora.C10C12.changed_implies_bit11
#print axioms Pandora.C10C12.intervals_widen
#print axioms Pandora.C10C12.intervals_twice_flags
#print axioms Pandora.C10C12.flagged_unchanged_example
-- T15: the numpy glue of the median filter regenerated from the source (translator/pyarr.py) = the model
#print axioms Pandora.C10Kernels.blockedSt_eq
#print axioms Pandora.C10Kernels.medianFilter_generated
#print axioms Pandora.C10Kernels.filterDisparityMedian_generated
#print axioms Pandora.C10Kernels.filterDisparityMedian_spec
#print axioms Pandora.C10Kernels.medianFilter_generated_spec
#print axioms Pandora.C10Kernels.bilateralKernel_generated
#print axioms Pandora.C10Kernels.filterBilateral_generated
#print axioms Pandora.C10Kernels.filterDisparityBilateral_generated
#print axioms Pandora.C10Kernels.filterDisparityBilateral_spec
-- T15: the glue of median_for_intervals regenerated from the source = the composed model (C10 o C12)
#print axioms Pandora.C10KernelsIntervals.bandStep_spec
#print axioms Pandora.C10KernelsIntervals.medianForIntervals_generated
#print axioms Pandora.C10KernelsIntervals.medianForIntervals_generated_spec
#print axioms Pandora.C10KernelsIntervals.medianForIntervals_generated_bands
