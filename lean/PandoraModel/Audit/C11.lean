import PandoraModel.Properties.C11
import PandoraModel.Properties.C11Kernels
import PandoraModel.Properties.C11KernelsSteps
import PandoraModel.Properties.C11KernelsGlue
open Pandora.C11
#print axioms armCoded_eq_armRef
#print axioms crossSupport_eq_crossRef
#print axioms armRef_ok
#print axioms armOk_iff
#print axioms arms_counterexample_distance_one
#print axioms s1At_diff
#print axioms step2_eq_rowsum
#print axioms step4_eq_colsum
#print axioms mem_region
#print axioms nodup_region
#print axioms step4_eq_regionsum
#print axioms sum4_eq_card
#print axioms aggOut_isNan
#print axioms aggOut_spec
#print axioms crossSupport_in_image
#print axioms aggregate_spec_coded
#print axioms cbca_spec
#print axioms cbca_spec_source
#print axioms nan_stays
#print axioms no_new_nan
#print axioms plane_independent
#print axioms median3_isNan
#print axioms filteredL_isNan
#print axioms filteredR_isNan
-- the cross-support kernel regenerated from the Python source (Generated/KernelsCbca.lean, T14) is the hand model
-- (same list as Audit/C11Kernels.lean)
#print axioms Pandora.C11Kernels.forLoop_arm
#print axioms Pandora.C11Kernels.jump_eq
#print axioms Pandora.C11Kernels.crossSupport_generated_eq
#print axioms Pandora.C11Kernels.crossSupport_generated_eq_source
#print axioms Pandora.C11Kernels.crossSupport_generated_spec
#print axioms Pandora.C11Kernels.crossSupport_generated_total
-- the integral-image kernels regenerated from the Python source (Generated/KernelsCbcaSteps.lean, T14 array-state kernels)
-- are the hand model
#print axioms Pandora.C11KernelsSteps.forLoop_inv
#print axioms Pandora.C11KernelsSteps.cbcaStep1_generated_eq
#print axioms Pandora.C11KernelsSteps.cbcaStep3_generated_eq
#print axioms Pandora.C11KernelsSteps.cbcaStep2_generated_eq
#print axioms Pandora.C11KernelsSteps.cbcaStep4_generated_eq
#print axioms Pandora.C11KernelsSteps.cbcaSteps_generated_chain
-- the numpy glue of cost_volume_aggregation / computes_cross_supports regenerated from the Python source
-- (Generated/KernelsCbcaGlue.lean) is the hand model
#print axioms Pandora.C11KernelsGlue.iRight_generated_eq
#print axioms Pandora.C11KernelsGlue.leftCol_generated_eq
#print axioms Pandora.C11KernelsGlue.facing_generated_eq
#print axioms Pandora.C11KernelsGlue.facingCol_nat
#print axioms Pandora.C11KernelsGlue.wired_generated
#print axioms Pandora.C11KernelsGlue.aggInit_generated_eq
#print axioms Pandora.C11KernelsGlue.aggPlane_generated_eq
#print axioms Pandora.C11KernelsGlue.aggregate_generated
#print axioms Pandora.C11KernelsGlue.aggregate_generated_spec
#print axioms Pandora.C11KernelsGlue.leftCrop_generated_eq
#print axioms Pandora.C11KernelsGlue.rightCrop_generated_eq
#print axioms Pandora.C11KernelsGlue.cvCrop_generated_eq
#print axioms Pandora.C11KernelsGlue.writeBack_generated_eq
#print axioms Pandora.C11KernelsGlue.cropBox_model
#print axioms Pandora.C11KernelsGlue.prepLeft_generated_eq
#print axioms Pandora.C11KernelsGlue.prepRight_generated_eq
-- the whole generated cost_volume_aggregation (sequential loop with `agg` as state) = Cbca.aggregate, and C11's clauses about it
#print axioms Pandora.C11KernelsGlue.cbcaStep1_generated_eq_of
#print axioms Pandora.C11KernelsGlue.aggPlane_generated_eq_of
#print axioms Pandora.C11KernelsGlue.aggLoopBody_frame
#print axioms Pandora.C11KernelsGlue.aggLoopBody_reads
#print axioms Pandora.C11KernelsGlue.forPlanes_inv
#print axioms Pandora.C11KernelsGlue.costVolumeAggregation_generated_eq
#print axioms Pandora.C11KernelsGlue.costVolumeAggregation_generated_model
#print axioms Pandora.C11KernelsGlue.costVolumeAggregation_generated_spec
#print axioms Pandora.C11KernelsGlue.costVolumeAggregation_generated_plane_independent
#print axioms Pandora.C11KernelsGlue.nanReplacement_generated_eq
#print axioms Pandora.C11KernelsGlue.shiftMask_generated_width
#print axioms Pandora.C11KernelsGlue.cmaxUpdate_generated_eq
#print axioms Pandora.C11KernelsGlue.leftMaskTest_generated_eq
#print axioms Pandora.C11KernelsGlue.rightMaskTest_generated_eq
#print axioms Pandora.C11KernelsGlue.shiftMaskTest_generated_eq
