import PandoraModel.Properties.C18
open Pandora.C18
#print axioms prange_nests_safe
#print axioms prange_nests_listed
#print axioms non_own_cell_stores
#print axioms order_independent
#print axioms runOrder_cell
#print axioms const_store_cell
#print axioms const_store_order_independent
#print axioms exec_agree
#print axioms rerun_agree
#print axioms run_reads_initialised
#print axioms callback_effects_initialised
#print axioms shared_schema_keys_uniform
#print axioms process_state_is_the_plugin_registries
