import PandoraModel.Properties.C13
import PandoraModel.Properties.C13Steps
import PandoraModel.Properties.C13Util
import PandoraModel.Properties.C13Median
import PandoraModel.Properties.C13Bilateral
import PandoraModel.Properties.C13Refinement
import PandoraModel.Properties.C13CrossCheck
import PandoraModel.Properties.C13MatchingCost
import PandoraModel.Properties.C13Pipeline
import PandoraModel.Properties.C13Cbca
import PandoraModel.Properties.C13Wiring
open Pandora.C13
#print axioms Local.comp
#print axioms Local.pair
#print axioms pointwise_local
#print axioms stencil_local
#print axioms stencil_equivariant
#print axioms Equivariant.comp
#print axioms crop_eq_whole
#print axioms crop_anywhere
#print axioms stencil_vflip
#print axioms toDisp_is_wtaStep
#print axioms wtaStep_local
#print axioms wta_crop_eq_whole
#print axioms stencil_local_of_bounds
#print axioms toImg_crop
#print axioms crop_run_eq_whole
#print axioms medianStep_local
#print axioms medianStep_equivariant
#print axioms medianFilterDisparity_is_medianStep
#print axioms median_crop_eq_whole
#print axioms refineStep_local
#print axioms refineStep_equivariant
#print axioms loopRefinement_ok_iff
#print axioms loopRefinement_is_refineStep
#print axioms refine_crop_eq_whole
#print axioms ccPixel_eq_rel
#print axioms ccPixelRel_congr
#print axioms ccStep_local
#print axioms ccCone_offset_zero
#print axioms ccStep_equivariant
#print axioms check_is_ccStep
#print axioms cc_crop_eq_whole
#print axioms valueSpec_transport
#print axioms specCell_eq_core
#print axioms coreCell_transport
#print axioms mcCellStep_local
#print axioms mcCellStep_equivariant
#print axioms specCell_is_mcCellStep
#print axioms costVolume_is_mcCellStep
#print axioms mc_crop_eq_whole
#print axioms costVolume_crop_eq_whole
#print axioms mcConeK_le
#print axioms mcRowStep_local
#print axioms mcRowStep_equivariant
#print axioms costVolume_is_mcRowStep
#print axioms costStage_local
#print axioms wtaStage_local
#print axioms refineStage_local
#print axioms filterStage_local
#print axioms filterStage_equivariant
#print axioms ccStage_local
#print axioms ccStage_equivariant
#print axioms pipeline_crop_eq_whole
#print axioms filter_crop_eq_whole
#print axioms pipeCone_documented
#print axioms rightDisp_local
#print axioms rightDisp_equivariant
#print axioms bilateralKernel_congr
#print axioms bilateralStep_local
#print axioms bilateralStep_equivariant
#print axioms bilateralFilterDisparity_is_bilateralStep
#print axioms bilateral_crop_eq_whole
#print axioms filtStage_local
#print axioms filtStage_equivariant
#print axioms bilateralStage_local
#print axioms ccOn_local
#print axioms ccOn_equivariant
#print axioms aggOut_eq_aggSpec
#print axioms region_transport
#print axioms armCoded_transport
#print axioms crossSupport_le_bound
#print axioms crossSupport_horizontal_transport
#print axioms crossSupport_vertical_transport
#print axioms median3_transport
#print axioms filteredL_transport
#print axioms filteredR_transport
#print axioms crossL_horizontal
#print axioms crossL_vertical
#print axioms crossR_horizontal
#print axioms crossR_vertical
#print axioms rightCol_transport
#print axioms cbca_crop_eq_whole
#print axioms ccStep_congr
#print axioms ccOnT_eq_ccOn
#print axioms ccOnT_local
#print axioms ccOnT_equivariant
#print axioms pipeConeT_documented
#print axioms mc_wta_crop_eq_whole
