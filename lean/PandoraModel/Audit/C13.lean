import PandoraModel.Properties.C13
import PandoraModel.Properties.C13Steps
import PandoraModel.Properties.C13Util
import PandoraModel.Properties.C13Median
open Pandora.C13
#print axioms Local.comp
#print axioms Local.pair
#print axioms pointwise_local
#print axioms stencil_local
#print axioms stencil_equivariant
#print axioms Equivariant.comp
#print axioms crop_eq_whole
#print axioms crop_anywhere
#print axioms stencil_vflip
#print axioms toDisp_is_wtaStep
#print axioms wtaStep_local
#print axioms wta_crop_eq_whole
#print axioms stencil_local_of_bounds
#print axioms toImg_crop
#print axioms crop_run_eq_whole
#print axioms medianStep_local
#print axioms medianStep_equivariant
#print axioms medianFilterDisparity_is_medianStep
#print axioms median_crop_eq_whole
