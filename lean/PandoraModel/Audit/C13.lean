import PandoraModel.Properties.C13
import PandoraModel.Properties.C13Steps
import PandoraModel.Properties.C13Util
import PandoraModel.Properties.C13Median
import PandoraModel.Properties.C13Bilateral
import PandoraModel.Properties.C13Refinement
import PandoraModel.Properties.C13CrossCheck
import PandoraModel.Properties.C13MatchingCost
import PandoraModel.Properties.C13Pipeline
import PandoraModel.Properties.C13Cbca
import PandoraModel.Properties.C13Wiring
import PandoraModel.Properties.C13Flags
import PandoraModel.Properties.C13PipelineCost
import PandoraModel.Properties.C13Run
import PandoraModel.Properties.C13Flip
import PandoraModel.Properties.C13FlipMc
import PandoraModel.Properties.C13FlipPipeline
import PandoraModel.Properties.C13FlipBilateral
import PandoraModel.Properties.C13FlipFlags
import PandoraModel.Properties.C13RunFlip
import PandoraModel.Properties.C13CbcaClip
import PandoraModel.Properties.C13CbcaStep
import PandoraModel.Properties.C13PipelineCbca
import PandoraModel.Properties.C13CbcaFlip
import PandoraModel.Properties.C13RunCbca
import PandoraModel.Properties.C13RunCbcaFlip
import PandoraModel.Properties.C13RunBool
import PandoraModel.Properties.C13RunMemo
open Pandora.C13
#print axioms Local.comp
#print axioms Local.pair
#print axioms pointwise_local
#print axioms stencil_local
#print axioms stencil_equivariant
#print axioms Equivariant.comp
#print axioms crop_eq_whole
#print axioms crop_anywhere
#print axioms stencil_vflip
#print axioms toDisp_is_wtaStep
#print axioms wtaStep_local
#print axioms wta_crop_eq_whole
#print axioms stencil_local_of_bounds
#print axioms toImg_crop
#print axioms crop_run_eq_whole
#print axioms medianStep_local
#print axioms medianStep_equivariant
#print axioms medianFilterDisparity_is_medianStep
#print axioms median_crop_eq_whole
#print axioms refineStep_local
#print axioms refineStep_equivariant
#print axioms loopRefinement_ok_iff
#print axioms loopRefinement_is_refineStep
#print axioms refine_crop_eq_whole
#print axioms ccPixel_eq_rel
#print axioms ccPixelRel_congr
#print axioms ccStep_local
#print axioms ccCone_offset_zero
#print axioms ccStep_equivariant
#print axioms check_is_ccStep
#print axioms cc_crop_eq_whole
#print axioms valueSpec_transport
#print axioms specCell_eq_core
#print axioms coreCell_transport
#print axioms mcCellStep_local
#print axioms mcCellStep_equivariant
#print axioms specCell_is_mcCellStep
#print axioms costVolume_is_mcCellStep
#print axioms mc_crop_eq_whole
#print axioms costVolume_crop_eq_whole
#print axioms mcConeK_le
#print axioms mcRowStep_local
#print axioms mcRowStep_equivariant
#print axioms costVolume_is_mcRowStep
#print axioms costStage_local
#print axioms wtaStage_local
#print axioms refineStage_local
#print axioms filterStage_local
#print axioms filterStage_equivariant
#print axioms ccStage_local
#print axioms ccStage_equivariant
#print axioms pipeline_crop_eq_whole
#print axioms filter_crop_eq_whole
#print axioms pipeCone_documented
#print axioms rightDisp_local
#print axioms rightDisp_equivariant
#print axioms bilateralKernel_congr
#print axioms bilateralStep_local
#print axioms bilateralStep_equivariant
#print axioms bilateralFilterDisparity_is_bilateralStep
#print axioms bilateral_crop_eq_whole
#print axioms filtStage_local
#print axioms filtStage_equivariant
#print axioms bilateralStage_local
#print axioms ccOn_local
#print axioms ccOn_equivariant
#print axioms aggOut_eq_aggSpec
#print axioms region_transport
#print axioms armCoded_transport
#print axioms crossSupport_le_bound
#print axioms crossSupport_horizontal_transport
#print axioms crossSupport_vertical_transport
#print axioms median3_transport
#print axioms filteredL_transport
#print axioms filteredR_transport
#print axioms crossL_horizontal
#print axioms crossL_vertical
#print axioms crossR_horizontal
#print axioms crossR_vertical
#print axioms rightCol_transport
#print axioms cbca_crop_eq_whole
#print axioms ccStep_congr
#print axioms ccOnT_eq_ccOn
#print axioms ccOnT_local
#print axioms ccOnT_equivariant
#print axioms pipeConeT_documented
#print axioms mc_wta_crop_eq_whole
#print axioms atOrigin_equivariant
#print axioms atOrigin_local
#print axioms flagWord0_congr
#print axioms flagStep_local
#print axioms flagStep_equivariant
#print axioms flagCone_le_costCone
#print axioms word_of_bits
#print axioms border0_eq
#print axioms inIdx0_eq
#print axioms rInv0_eq
#print axioms nodataNear0_eq
#print axioms specCell_isNan
#print axioms rowStep_at
#print axioms allNan_eq
#print axioms modelMask_eq_flagWord0
#print axioms modelMask_is_flagStep
#print axioms composedMask_is_flagStep
#print axioms flags_crop_eq_whole
#print axioms refineCone_flags
#print axioms pipeline_crop_eq_whole_flags
#print axioms pipeline_crop_eq_whole_flags_both
#print axioms filter_crop_eq_whole_flags
#print axioms pipeConeT_documented_flags
#print axioms wtaStage_local_of_cost
#print axioms refineStage_local_of_cost
#print axioms filterStage_local_of_cost
#print axioms ccStage_local_of_cost
#print axioms rightDisp_local_of_cost
#print axioms pipeline_crop_eq_whole_of_cost
#print axioms filter_crop_eq_whole_of_cost
#print axioms pipeConeOf_documented
#print axioms gridImg_tabulate
#print axioms costStage_run
#print axioms flags_run
#print axioms afterFilter_is_filterStage
#print axioms leftDataset_rect
#print axioms fullRun_is_ccStage
#print axioms leftRun_is_filterStage
#print axioms run_crop_eq_whole
#print axioms leftRun_crop_eq_whole
#print axioms runCone_documented
#print axioms leftInInterval_of_B
#print axioms vflip_vflip
#print axioms rectDom_toImg
#print axioms toImg_flipArr
#print axioms flip_run_eq
#print axioms wtaStep_vflip
#print axioms refineStep_vflip
#print axioms ccStep_vflip
#print axioms nanmedian_perm
#print axioms medianStep_vflip
#print axioms sumZ_reverse
#print axioms allZ_reverse
#print axioms winSum_vflip
#print axioms winAll_vflip
#print axioms winCount_vflip
#print axioms valueSpec_vflip
#print axioms maskOk_vflip
#print axioms coreCell_vflip
#print axioms windowsIn_vflip
#print axioms mcCellStep_vflip
#print axioms mcRowStep_vflip
#print axioms mcRow_flip_run
#print axioms noAgg_vflip
#print axioms mcStage_vflip
#print axioms costStage_vflip
#print axioms wtaStage_vflip
#print axioms refineStage_vflip
#print axioms medianStage_vflip
#print axioms filterStage_vflip
#print axioms filtStage_vflip
#print axioms ccOn_vflip
#print axioms ccStage_vflip
#print axioms rightDisp_vflip
#print axioms pipeline_flip
#print axioms filter_flip
#print axioms pipeline_flip_lr
#print axioms bilateralKernel_flipRows
#print axioms bilateralStep_vflip
#print axioms bilateralStage_vflip
#print axioms flagStep_vflip
#print axioms pipeFlags_vflip
#print axioms flags_flip_run
#print axioms pipeline_flip_flags
#print axioms pipeline_flip_flags_both
#print axioms filter_flip_flags
#print axioms run_flip
#print axioms aggregate_eq_specAgg
#print axioms armCoded_transport'
#print axioms median3_transport'
#print axioms filteredL_transport'
#print axioms filteredR_transport'
#print axioms crossL_h'
#print axioms crossL_v'
#print axioms crossR_h'
#print axioms crossR_v'
#print axioms arms_crop_eq_whole
#print axioms rightCol_eq
#print axioms side_status
#print axioms region_transport_arms
#print axioms region_none
#print axioms aggSpec_crop_eq_whole
#print axioms specAgg_crop_eq_whole
#print axioms cbca_crop_eq_whole_clipped
#print axioms specAgg_cv_congr
#print axioms cbcaAt_congr
#print axioms cbcaStep_local
#print axioms cbcaStep_congr
#print axioms cbcaStep_equivariant
#print axioms window_cropOf
#print axioms window_specAgg
#print axioms aggregate_is_cbcaStep
#print axioms cbca_crop_run_eq_whole
#print axioms pipeline_cbca_crop_eq_whole
#print axioms filter_cbca_crop_eq_whole
#print axioms costStage_cbca_local
#print axioms cbcaCostCone_documented
#print axioms cbcaCone_le
#print axioms cbcaStep_costs_outside_irrelevant
#print axioms pipeline_cbca_flags_crop_eq_whole
#print axioms filter_cbca_flags_crop_eq_whole
#print axioms cbcaCostCone_le_costCone
#print axioms cbcaPipeCone_documented
#print axioms mcStage_run
#print axioms wtaStage_runR
#print axioms afterRefineR_is_refineStage
#print axioms afterFilterR_is_filterStage
#print axioms afterFilterR_swap_is_rightDisp
#print axioms fullRunR_is_ccStage
#print axioms runR_crop_eq_whole
#print axioms runR_flip
#print axioms cbca_nanmedian_perm
#print axioms median3_flip
#print axioms filteredL_flip
#print axioms filteredR_flip
#print axioms crossSupport_flip
#print axioms crossL_flip
#print axioms crossR_flip
#print axioms sumRange_reverse
#print axioms sumRangeN_reverse
#print axioms region_flip
#print axioms specAgg_flip
#print axioms nanOutside_flip
#print axioms aggregate_flip
#print axioms cbcaAt_negView
#print axioms cbcaStep_vflip
#print axioms aggregate_flip_run
#print axioms pipeline_flip_cbca
#print axioms filter_flip_cbca
#print axioms pipeline_flip_flags_cbca
#print axioms pipeline_flip_flags_both_cbca
#print axioms filter_flip_flags_cbca
#print axioms cbcaStep_strip
#print axioms disp_in_interval
#print axioms costRows_cbca
#print axioms rightCol_isSome_of_rightInside
#print axioms nanOutsideOK_of_mc
#print axioms runCbca_crop_eq_whole
#print axioms runCbca_flip
#print axioms runOK_of_B
#print axioms cropRun_of_B
#print axioms docCone_bounds
#print axioms cone_of_B
#print axioms run_crop_eq_whole_of_B
#print axioms afterTail_tailOf
#print axioms extRunR_left_flag
#print axioms refine_readsInside
#print axioms median_readsInside
#print axioms bilateral_readsInside
#print axioms afterTailMemo_eqIn
#print axioms extRunMemo_eq
#print axioms tailOf_readsInside
