import PandoraModel.Properties.C08
import PandoraModel.Properties.C08C07
open Pandora.C08
#print axioms swapName_invol
#print axioms exec_swap
#print axioms exec_comm
#print axioms execs_comm
#print axioms xyz_equivariant
#print axioms symBlock_equivariant
#print axioms symCallback_equivariant
#print axioms wiring_symmetric
#print axioms wiring_callbacks
#print axioms prepare_mirrors_interval
#print axioms validation_shape
#print axioms validation_cc_equivariant
#print axioms validation_equivariant
#print axioms runSeq_equivariant
#print axioms mirror
#print axioms right_eq_mirror_left
#print axioms initStore_mirror
#print axioms crossCheckFacts_of_model
#print axioms mirror_with_crossCheck_model
