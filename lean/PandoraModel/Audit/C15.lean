import PandoraModel.Properties.C15
open Pandora.C15
#print axioms levelSizes_length
#print axioms levelSizes_last
#print axioms ceilDiv_le
#print axioms zoom_covers
#print axioms boundAfter_eq
#print axioms coarsest_interval
#print axioms user_interval_at_scale
#print axioms finest_interval
#print axioms zoomIndex_lt
#print axioms parent_near
#print axioms mcScales_block
#print axioms scales_executed
#print axioms coarse_blocks_stop_at_multiscale
#print axioms Pandora.C01.run_accepts
#print axioms Pandora.C01.runTable_documented
