import PandoraModel.Properties.C20
open Pandora.C20
#print axioms matchingCost_margins_documented
#print axioms filter_margins_documented
#print axioms null_margins_documented
#print axioms optimization_margins_documented
#print axioms registered_classes_covered
#print axioms registration_documented
#print axioms global_formula
#print axioms global_nonneg
#print axioms documentedMargin_nonneg
#print axioms round_eq_applyEntries
#print axioms applyEntries_fresh
#print axioms margins_listed
#print axioms applyEntries_noop
#print axioms second_round_noop
#print axioms global_mono_cumulative
#print axioms global_mono_nonCumulative
#print axioms global_monotone
