import PandoraModel.Properties.C02
import PandoraModel.Properties.C02Zncc
import PandoraModel.Properties.C02Kernels
import PandoraModel.Properties.C02Census
import PandoraModel.Properties.C02KernelsMc
import PandoraModel.Properties.C02KernelsMcCost
import PandoraModel.Properties.C02KernelsMcArr
import PandoraModel.Properties.C02KernelsMasked
import PandoraModel.Properties.C02KernelsMaskedComp
#print axioms Pandora.C02.popcount_source_eq_model
#print axioms Pandora.C02.typeMeasure_source_eq_model
#print axioms Pandora.C02.cmax_source_eq_model
#print axioms Pandora.C02.costVolume_eq_specWith_of_raw
#print axioms Pandora.C02.costVolume_eq_spec_of_raw
#print axioms Pandora.C02.rawOK_sad_ssd
#print axioms Pandora.C02.rawOK_zncc
#print axioms Pandora.C02.rawOK_census_bits
#print axioms Pandora.C02.rawOK_census
#print axioms Pandora.C02.costVolume_eq_spec_sad_ssd
#print axioms Pandora.C02.costVolume_eq_spec_zncc
#print axioms Pandora.C02.costVolume_eq_spec_census
#print axioms Pandora.C02.popcount_correct
#print axioms Pandora.C02.nan_iff_not_computable
#print axioms Pandora.C02.costVolume_eq_spec
#print axioms Pandora.C02.cost_le_cmaxExact
#print axioms Pandora.C02.cmax_bound_up
#print axioms Pandora.C02.cmax_bound_partial
#print axioms Pandora.C02.cmax_bound_census
#print axioms Pandora.C02.cmax_bound_zncc
#print axioms Pandora.C02.cmax_bound_counterexample
#print axioms Pandora.MC.pointInterval_closed
#print axioms Pandora.MC.shiftRight_px
#print axioms Pandora.MC.meanRaster_eq
#print axioms Pandora.MC.rawSadSsd_eq
#print axioms Pandora.MC.rawZncc_eq
#print axioms Pandora.MC.rawCensus_eq
#print axioms Pandora.MC.valueCensusBits_eq
#print axioms Pandora.MC.cause_computable_iff
#print axioms Pandora.MC.masked_cell
#print axioms Pandora.MC.cauchy_window
-- zncc algebra (Properties/C02Zncc.lean): E[XY]−E[X]E[Y] = E[(X−EX)(Y−EY)], Cauchy–Schwarz, |zncc|² ≤ 1
#print axioms Pandora.C02.cov_eq_centred
#print axioms Pandora.C02.var_eq_centred
#print axioms Pandora.C02.var_nonneg
#print axioms Pandora.C02.var_eq_zero_iff
#print axioms Pandora.C02.boxSum_cauchy_schwarz
#print axioms Pandora.C02.cov_sq_le_var_mul_var
#print axioms Pandora.C02.corr_sq_le_one
#print axioms Pandora.C02.valueSpec_zncc_eq_centred
#print axioms Pandora.C02.rawZncc_cellOK
#print axioms Pandora.C02.rawZncc_isNan_iff
#print axioms Pandora.C02.costVolume_nan_or_raw
#print axioms Pandora.C02.zncc_costVolume_cellOK
#print axioms Pandora.C02.zncc_sq_le_one
-- point_interval regenerated from the Python source by translator/pyexpr.py (Properties/C02Kernels.lean)
#print axioms Pandora.C02Kernels.pointInterval_eq
#print axioms Pandora.C02Kernels.pointInterval_eq_rat
#print axioms Pandora.C02Kernels.pointInterval_eq_nonempty
#print axioms Pandora.C02Kernels.pointInterval_mem_p
#print axioms Pandora.C02Kernels.pointInterval_q_of_p
#print axioms Pandora.C02Kernels.dspIndex_eq
#print axioms Pandora.C02Kernels.dspIndex_toNat
#print axioms Pandora.C02Census.bitCount_eq_rec
#print axioms Pandora.C02Census.popcount32b_generated_eq_model
#print axioms Pandora.C02Census.popcount32b_correct
#print axioms Pandora.C02Census.popcount32b_correct_25
#print axioms Pandora.C02Census.popcount32b_correct_9
#print axioms Pandora.C02Census.popcount32b_le
#print axioms Pandora.C02Census.popcount32b_no_wrap
#print axioms Pandora.C02Census.bitCount_xor_eq_hamming
#print axioms Pandora.C02Census.census_cost_eq_hamming
#print axioms Pandora.C02KernelsMc.iRight_core
#print axioms Pandora.C02KernelsMc.iRightCensus_eq
#print axioms Pandora.C02KernelsMc.iRightSadSsd_eq
#print axioms Pandora.C02KernelsMc.iRightZncc_eq
#print axioms Pandora.C02KernelsMc.iRight_lt
#print axioms Pandora.C02KernelsMc.pStd_mem
#print axioms Pandora.C02KernelsMc.qStd_eq
#print axioms Pandora.C02KernelsMc.std_lengths
#print axioms Pandora.C02KernelsMc.shapes_eq_model
#print axioms Pandora.C02KernelsMcCost.adCostBand3_eq
#print axioms Pandora.C02KernelsMcCost.adCostBand2_eq
#print axioms Pandora.C02KernelsMcCost.adCostMono_eq
#print axioms Pandora.C02KernelsMcCost.sdCostBand3_eq
#print axioms Pandora.C02KernelsMcCost.sdCostBand2_eq
#print axioms Pandora.C02KernelsMcCost.sdCostMono_eq
#print axioms Pandora.C02KernelsMcCost.cost_operands_eq_model
#print axioms Pandora.C02KernelsMcCost.pixelWise_eq_generated
#print axioms Pandora.C02KernelsMcCost.pixelWiseAggregation_eq
#print axioms Pandora.C02KernelsMcCost.aggOutShape_enlarged
#print axioms Pandora.C02KernelsMcCost.reNan_eq
#print axioms Pandora.C02KernelsMcCost.rawSadSsd_eq_generated
#print axioms Pandora.C02KernelsMcCost.censusCost_eq
#print axioms Pandora.C02KernelsMcCost.census_operands_eq_model
#print axioms Pandora.C02KernelsMcCost.censusCost_eq_hamming
#print axioms Pandora.C02KernelsMcCost.censusCost_window3
#print axioms Pandora.C02KernelsMcCost.censusCost_window5
#print axioms Pandora.C02KernelsMcCost.rawCensus_eq_generated
#print axioms Pandora.C02KernelsMcCost.znccCov_eq
#print axioms Pandora.C02KernelsMcCost.divideStandardCell_eq
#print axioms Pandora.C02KernelsMcCost.divideStandard_partition
#print axioms Pandora.C02KernelsMcCost.divideStandard_eq_model
#print axioms Pandora.C02KernelsMcCost.stdRadicand_eq_model
#print axioms Pandora.C02KernelsMcCost.rawZncc_cell_eq_generated
#print axioms Pandora.C02KernelsMcCost.meanRaster_nonneg
#print axioms Pandora.C02KernelsMcArr.censusTransform_eq
#print axioms Pandora.C02KernelsMcArr.censusShape_eq
#print axioms Pandora.C02KernelsMcArr.census_generated_window3
#print axioms Pandora.C02KernelsMcArr.census_generated_window5
#print axioms Pandora.C02KernelsMcArr.meanRasterPx_eq_model
#print axioms Pandora.C02KernelsMcArr.meanRasterPx_eq_mean
#print axioms Pandora.C02KernelsMcArr.stdRadicandPx_eq_model
#print axioms Pandora.C02KernelsMcArr.shiftedCols_eq
#print axioms Pandora.C02KernelsMcArr.shift_eq_model

-- ==== block of ext-c04 (translator/gen_kernels_cv_masked.py): the per-cell NaN decisions of cv_masked / masks_dilatation
#print axioms Pandora.C02KernelsMasked.gridOutside_iff
#print axioms Pandora.C02KernelsMasked.gridOutside_eq
#print axioms Pandora.C02KernelsMasked.intervalMask_isNan
#print axioms Pandora.C02KernelsMasked.costVolume_nan_of_gridOutside
#print axioms Pandora.C02KernelsMasked.intervalMask_of_not_gridOutside
#print axioms Pandora.C02KernelsMasked.iMaskRight_eq
#print axioms Pandora.C02KernelsMasked.cvMaskedStep_isNan
#print axioms Pandora.C02KernelsMasked.cvMaskedStep_other
#print axioms Pandora.C02KernelsMasked.leftDilInput_eq
#print axioms Pandora.C02KernelsMasked.rightDilInput_eq
#print axioms Pandora.C02KernelsMasked.leftMaskNan_eq
#print axioms Pandora.C02KernelsMasked.rightMaskNan_eq
#print axioms Pandora.C02KernelsMasked.genStep_eq
#print axioms Pandora.C02KernelsMasked.cvMaskedFold_generated_eq
#print axioms Pandora.C02KernelsMasked.genCvMaskedNan_eq
#print axioms Pandora.C02KernelsMasked.generated_nan_iff_not_computable
