import PandoraModel.Properties.C02
#print axioms Pandora.C02.popcount_source_eq_model
#print axioms Pandora.C02.typeMeasure_source_eq_model
#print axioms Pandora.C02.cmax_source_eq_model
#print axioms Pandora.C02.costVolume_eq_specWith_of_raw
#print axioms Pandora.C02.costVolume_eq_spec_of_raw
#print axioms Pandora.C02.rawOK_sad_ssd
#print axioms Pandora.C02.rawOK_zncc
#print axioms Pandora.C02.rawOK_census_bits
#print axioms Pandora.C02.rawOK_census
#print axioms Pandora.C02.costVolume_eq_spec_sad_ssd
#print axioms Pandora.C02.costVolume_eq_spec_zncc
#print axioms Pandora.C02.costVolume_eq_spec_census
#print axioms Pandora.C02.popcount_correct
#print axioms Pandora.C02.nan_iff_not_computable
#print axioms Pandora.C02.costVolume_eq_spec
