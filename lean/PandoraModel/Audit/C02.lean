import PandoraModel.Properties.C02
#print axioms Pandora.C02.popcount_source_eq_model
#print axioms Pandora.C02.typeMeasure_source_eq_model
#print axioms Pandora.C02.cmax_source_eq_model
