import PandoraModel.Properties.C01
open Pandora.C01
#print axioms checkTable_documented
#print axioms runTable_documented
#print axioms rightWriters_documented
#print axioms scaleWriters_documented
#print axioms state_not_assigned
#print axioms checkLoop_path
#print axioms checkLoop_ok_iff
#print axioms checkLoop_not_path_seqErr
#print axioms checkConf_accepts
#print axioms checkConf_accepts_fresh
#print axioms checkConf_ok_imp
#print axioms checkConf_rejects_not_path
#print axioms runStep_spec
#print axioms runScale_last
#print axioms runScale_coarse
#print axioms runScales_spec
#print axioms run_accepts
#print axioms history_inv
#print axioms history_identical
#print axioms source_accepts_iff_path
#print axioms source_accepts
#print axioms source_rejects
#print axioms source_history
