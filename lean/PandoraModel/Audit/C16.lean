import PandoraModel.Properties.C16
import PandoraModel.Properties.C16Kernels
import PandoraModel.Properties.C16KernelsDataset
open Pandora.C16
#print axioms getWindow_eq_spec
#print axioms windowSpec_inside
#print axioms detect_eq_same
#print axioms mskValue_cases
#print axioms read_samples
#print axioms read_bandNames
#print axioms read_replaced
#print axioms read_nodataIff
#print axioms read_invalidIff
#print axioms read_validOtherwise
#print axioms read_noMask
#print axioms read_disparity
#print axioms read_classifSegm
#print axioms read_coords
#print axioms read_spec_window
#print axioms read_spec
#print axioms read_crop
#print axioms roi_spec
#print axioms getWindow_current_counterexample
#print axioms mask_current_counterexample
#print axioms source_params_known
#print axioms source_getWindow
#print axioms source_read_spec
#print axioms source_roi_spec
#print axioms fixed_getWindow
#print axioms fixed_read_spec
#print axioms fixed_roi_spec
-- get_window regenerated from the Python source by translator/pyexpr.py (Properties/C16Kernels.lean)
#print axioms Pandora.C16Kernels.getWindow_eq_fixed
#print axioms Pandora.C16Kernels.getWindow_eq_source
#print axioms Pandora.C16Kernels.getWindow_raises_iff
#print axioms Pandora.C16Kernels.encWindow_spec
#print axioms Pandora.C16Kernels.getWindow_eq_spec
-- T15: add_mask / add_no_data / add_disparity / the tail of create_dataset_from_inputs regenerated = the model
#print axioms Pandora.C16KernelsDataset.noDataPixels_eq
#print axioms Pandora.C16KernelsDataset.wrap_loses_the_mask
#print axioms Pandora.C16KernelsDataset.addNoData_generated
#print axioms Pandora.C16KernelsDataset.addMask_generated
#print axioms Pandora.C16KernelsDataset.addDisparity_generated
#print axioms Pandora.C16KernelsDataset.generatedDS_eq
#print axioms Pandora.C16KernelsDataset.generated_read_spec
