import PandoraModel.Properties.C06
import PandoraModel.Properties.C06Kernels
import PandoraModel.Properties.C06KernelsLoop
open Pandora.C06
#print axioms flags_tied
#print axioms source_literals
#print axioms source_pixel_spec
#print axioms vfit_shift_le_half
#print axioms method_refine
#print axioms method_stop
#print axioms quadratic_raises_iff
#print axioms parab_interpolates
#print axioms parab_apex_optimal
#print axioms vshape_apex_optimal
#print axioms vshape_apex_unique
#print axioms ends_agree_of_onGrid
#print axioms ends_agree_offGrid
#print axioms refinePixel_core
#print axioms inside_of_onGrid
#print axioms refinePixel_spec
#print axioms vfit_pixel_spec
#print axioms refinePixel_spec_offGrid
#print axioms refinePixel_total
#print axioms loop_spec
#print axioms loop_total
#print axioms refinePixel_spec_repaired
#print axioms refinePixel_core_repaired
#print axioms loop_spec_repaired
#print axioms addFlag_stopped
#print axioms quadratic_flat_counterexample
#print axioms bit3_twice_counterexample
#print axioms offgrid_wraparound_counterexample
#print axioms offgrid_past_end_counterexample
#print axioms repaired_on_counterexamples
-- the kernels regenerated from the Python source (Generated/Kernels.lean) are the hand model's methods
#print axioms Pandora.C06Kernels.vfitMethod_eq
#print axioms Pandora.C06Kernels.quadraticMethod_eq
#print axioms Pandora.C06Kernels.kernelMethod_eq
#print axioms Pandora.C06Kernels.runMethod_eq_kernel
#print axioms Pandora.C06Kernels.kernel_method_stop
#print axioms Pandora.C06Kernels.kernel_method_refine
#print axioms Pandora.C06Kernels.vfitMethod_shift_le_half
#print axioms Pandora.C06Kernels.quadraticMethod_raises_iff
#print axioms Pandora.C06Kernels.kernelMethod_total
#print axioms Pandora.C06Kernels.refineGuard_eq
#print axioms Pandora.C06Kernels.refinePixelK_eq
#print axioms Pandora.C06Kernels.loopRefinementK_eq
#print axioms Pandora.C06Kernels.kernel_pixel_spec
#print axioms Pandora.C06Kernels.vfitMethod_nan_centre
#print axioms Pandora.C06Kernels.quadraticMethod_nan_centre
#print axioms Pandora.C06KernelsLoop.loopRefinementPx_eq
#print axioms Pandora.C06KernelsLoop.loopRefinementGen_eq
#print axioms Pandora.C06KernelsLoop.generated_pixel_spec
#print axioms Pandora.C06KernelsLoop.loopRefinementPx_invalid
#print axioms Pandora.C06KernelsLoop.loopApproxRefinementPx_invalid
#print axioms Pandora.C06KernelsLoop.wiring_subpixel
#print axioms Pandora.C06KernelsLoop.wiring_approximate
#print axioms Pandora.C06KernelsLoop.loopApproxRefinementPx_eq
