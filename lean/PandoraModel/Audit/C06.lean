import PandoraModel.Properties.C06
open Pandora.C06
#print axioms clamp1_le
