import PandoraModel.Properties.C06
open Pandora.C06
#print axioms flags_tied
#print axioms vfit_shift_le_half
#print axioms method_refine
#print axioms method_stop
#print axioms quadratic_raises_iff
#print axioms parab_interpolates
#print axioms parab_apex_optimal
#print axioms vshape_apex_optimal
#print axioms vshape_apex_unique
#print axioms ends_agree_of_onGrid
#print axioms ends_agree_offGrid
#print axioms refinePixel_core
#print axioms inside_of_onGrid
#print axioms refinePixel_spec
#print axioms vfit_pixel_spec
#print axioms refinePixel_spec_offGrid
#print axioms refinePixel_total
#print axioms loop_spec
#print axioms loop_total_vfit
#print axioms quadratic_flat_counterexample
#print axioms bit3_twice_counterexample
#print axioms offgrid_wraparound_counterexample
#print axioms offgrid_past_end_counterexample
