import PandoraModel.Properties.C07
open Pandora.C07
#print axioms outside_never
