import PandoraModel.Properties.C07
open Pandora.C07
#print axioms flags_tied
#print axioms mem_nearestInts
#print axioms rint_mem_nearest
#print axioms rint_nearest
#print axioms rint_even_on_tie
#print axioms outside_never
#print axioms valid_bits_clear
#print axioms flag_arith
#print axioms comp_eq_one_iff
#print axioms witness_strict_comp
#print axioms comp_witness_loose
#print axioms mem_arange
#print axioms flagged_clauses
#print axioms ccInside_clauses
#print axioms ccPixel_spec_partial
#print axioms ccPixel_invalid
#print axioms ccPixel_outside_unflagged
#print axioms ccPixel_never_both
#print axioms check_pix
#print axioms check_spec_partial
#print axioms check_disp_unchanged
#print axioms check_other_mask_irrelevant
#print axioms validationRun_right_same_rule
#print axioms ccPixel_ruleFix_spec
#print axioms check_spec_ruleFix
#print axioms cc_outside_counterexample
