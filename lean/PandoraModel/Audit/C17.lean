import PandoraModel.Properties.C17
open Pandora.C17
#print axioms datasetClauses_all
#print axioms checkFeatures_ok_iff
#print axioms checkDataset_ok_iff
#print axioms checkFeatures_error_class
#print axioms checkDatasets_ok_iff_parts
#print axioms checkDatasets_ok_iff_wellFormed
#print axioms base_sides_equal
#print axioms img_entry
#print axioms aux_entry
#print axioms nodata_entry_partial
#print axioms accepts_int_int
#print axioms integer_disp_entry
#print axioms none_disp_entry
#print axioms grid_disp_entry
#print axioms checkDisparities_range
#print axioms checkDisparities_singleton
#print axioms checkDisparities_grid
#print axioms checkDisparities_none
#print axioms checkAux_ok_iff
#print axioms nodata_nan_list_counterexample
#print axioms disp_list_counterexample
