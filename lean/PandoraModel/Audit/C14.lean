import PandoraModel.Properties.C14
import PandoraModel.Properties.C14Kernels
import PandoraModel.Properties.C14KernelsStep
open Pandora.C14 Pandora.Interp
-- tie to the source (tables regenerated on every run): directions, flag updates with the raising operator,
-- constants, and the variant (guards of e1d31ca present)
#print axioms source_dirs
#print axioms source_flag_ops
#print axioms source_constants
#print axioms source_guarded
-- kernels of the code against the notions of the specification
#print axioms sub_add_eq_replaceBit
#print axioms raise_sub_eq_replaceBit
#print axioms ray_leaves_mc
#print axioms ray_leaves_sgm
#print axioms scanMc_nan_eq
#print axioms scanMc_zero_eq
#print axioms findValidNeighbors_eq
#print axioms occlMcCore_eq
#print axioms occlusionSum3x3_ne_zero
#print axioms median_between
#print axioms secondLowestAbs_spec
-- the property: every guarded text of the kernels (+= or |=), instantiated at the variant read from the source
#print axioms outcome
#print axioms pixel_ok
#print axioms spec_holds
#print axioms spec_holds_source
#print axioms unflagged_untouched
#print axioms filled_bits
#print axioms border_bit0_only_mccnn
#print axioms border_bit0_only
-- the same statement is false of the earlier texts of the kernels (repaired findings; inputs in corpus/C14)
#print axioms mccnn_mismatch_nan_counterexample
#print axioms mccnn_mismatch_zero_counterexample
#print axioms sgm_mismatch_nan_counterexample
#print axioms sgm_occlusion_nan_counterexample
#print axioms stale_filled_bit_add_counterexample
#print axioms stale_filled_bit_or_ok
-- the kernels regenerated from the Python source (Generated/KernelsInterp.lean, T14) are the hand model
#print axioms Pandora.C14Kernels.forLoop_scanAcc
#print axioms Pandora.C14Kernels.findValidNeighborsAt_generated_eq
#print axioms Pandora.C14Kernels.findValidNeighbors_generated_eq_table
#print axioms Pandora.C14Kernels.findValidNeighbors_generated_eq
#print axioms Pandora.C14Kernels.occlusionSgm_generated_eq
#print axioms Pandora.C14Kernels.sumBand2_eq
#print axioms Pandora.C14Kernels.mismatchSgm_generated_eq
#print axioms Pandora.C14Kernels.rowMask_eq
#print axioms Pandora.C14Kernels.occlusionMcCnn_generated_eq
#print axioms Pandora.C14Kernels.truncRat_half
#print axioms Pandora.C14Kernels.forLoop_scanLoop
#print axioms Pandora.C14Kernels.mcDirs_half
#print axioms Pandora.C14Kernels.mismatchMcCnn_generated_eq
#print axioms Pandora.C14Kernels.nodataSgm_generated_eq
-- T15: the whole interpolated_disparity step (both classes) regenerated as an array program calling the regenerated kernels
#print axioms Pandora.C14KernelsStep.mismMcPixel_congr
#print axioms Pandora.C14KernelsStep.occlSgmPixel_congr
#print axioms Pandora.C14KernelsStep.runKernel_agree
#print axioms Pandora.C14KernelsStep.mccnn_step_generated
#print axioms Pandora.C14KernelsStep.sgm_step_generated
#print axioms Pandora.C14KernelsStep.attrs_source
#print axioms Pandora.C14KernelsStep.spec_congr
#print axioms Pandora.C14KernelsStep.mccnn_step_spec
#print axioms Pandora.C14KernelsStep.sgm_step_spec
