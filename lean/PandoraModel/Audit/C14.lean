import PandoraModel.Properties.C14
open Pandora.C14 Pandora.C14.R Pandora.Interp
-- tie to the source (tables regenerated on every run)
#print axioms source_dirs
#print axioms source_flag_ops
#print axioms source_constants
-- kernels of the code against the notions of the specification
#print axioms sub_add_eq_replaceBit
#print axioms ray_leaves_mc
#print axioms ray_leaves_sgm
#print axioms scanMc_eq
#print axioms findValidNeighbors_eq
#print axioms occlMcPixel_eq
#print axioms occlusionSum3x3_ne_zero
#print axioms median_between
#print axioms secondLowestAbs_spec
-- the property
#print axioms outcome
#print axioms pixel_ok
#print axioms spec_holds_partial
#print axioms unflagged_untouched
#print axioms filled_bits
#print axioms border_bit0_only_mccnn
#print axioms border_bit0_only
#print axioms mccnn_occlusion_full
-- the code with proposed_fixes/C14-fill-from-nothing.diff applied (Model/InterpRepaired.lean): full strength
#print axioms spec_holds_repaired
-- the full-strength statement is false of the code: counterexamples (replayed from corpus/C14)
#print axioms mccnn_mismatch_nan_counterexample
#print axioms mccnn_mismatch_zero_counterexample
#print axioms sgm_mismatch_nan_counterexample
#print axioms sgm_occlusion_nan_counterexample
#print axioms stale_filled_bit_counterexample
