import PandoraModel.Properties.C14
open Pandora.C14
#print axioms source_dirs
#print axioms source_flag_ops
#print axioms source_constants
