import PandoraModel.Properties.C03
open Pandora.C03 Pandora.Blocks
#print axioms arange_sorted
#print axioms arraySplit_contig
#print axioms blocked_eq_direct
#print axioms blocked_independent
#print axioms argFirstAux_spec
#print axioms argFirst_spec
#print axioms winner_facts
#print axioms wtaPixel_spec
#print axioms argSplit_eq_direct
#print axioms toDisp_block_independent
#print axioms toDisp_spec
#print axioms source_blocks_spec
#print axioms cvAfter_eq
