import PandoraModel.Properties.C03
import PandoraModel.Properties.C03Kernels
open Pandora.C03 Pandora.Blocks
#print axioms arange_sorted
#print axioms arraySplit_contig
#print axioms blocked_eq_direct
#print axioms blocked_independent
#print axioms argFirstAux_spec
#print axioms argFirst_spec
#print axioms winner_facts
#print axioms wtaPixel_spec
#print axioms argSplit_eq_direct
#print axioms toDisp_block_independent
#print axioms toDisp_spec
#print axioms source_blocks_spec
#print axioms cvAfter_eq
-- T15: the numpy glue of to_disp / argmin_split / argmax_split regenerated from the source = the model
#print axioms Pandora.C03Kernels.arg_substituted
#print axioms Pandora.C03Kernels.toDisp_generated
#print axioms Pandora.C03Kernels.toDisp_generated_cv
#print axioms Pandora.C03Kernels.toDisp_generated_spec
#print axioms Pandora.C03Kernels.carried_fields
#print axioms Pandora.C03Kernels.toDispDataset_core
#print axioms Pandora.C03Kernels.toDispDataset_frame
#print axioms Pandora.C03Kernels.toDispDataset_private
