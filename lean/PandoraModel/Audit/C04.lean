import PandoraModel.Properties.C04
open Pandora.C04
-- the end-point tests of criteria.py equal the set statements
#print axioms vmBit1_iff
#print axioms vmBit2_iff
#print axioms allocRight_eq
#print axioms dilated_eq_nodataInWindow
-- the mask built with the cost volume: every clause, every pixel
#print axioms criteria_interior
#print axioms criteria_border
#print axioms toDisp_invalid_iff
#print axioms criteria_spec
#print axioms criteria_spec_disp
#print axioms invalidNotSample_of_outside
#print axioms flagInit_modelMask
-- `+` equals `|` on a clear bit; steps change only their own bits
#print axioms add_two_pow_eq_or
#print axioms testBit_sub_two_pow
#print axioms stepFlag_testBit
#print axioms replacementOK_of_clear
#print axioms stepOK_of_clear
-- any pipeline
#print axioms run_lt_4096
#print axioms run_ok_partial
#print axioms run_ok_of_or
#print axioms repeated_refinement_counterexample
#print axioms repeated_interpolation_counterexample
#print axioms border_regularized_counterexample
-- the source as regenerated on this run
#print axioms sites_documented
#print axioms refinement_returns_documented
#print axioms constants_documented
#print axioms source_reg_or
#print axioms source_story
#print axioms source_repeated_refinement
