import PandoraModel.Properties.C04
open Pandora.C04
#print axioms wip
