import PandoraModel.Properties.C04
import PandoraModel.Properties.C04C02
import PandoraModel.Properties.C04Kernels
import PandoraModel.Properties.C04KernelsComp
open Pandora.C04
-- the end-point tests of criteria.py equal the set statements
#print axioms vmBit1_iff
#print axioms vmBit2_iff
#print axioms allocRight_eq
#print axioms dilated_eq_nodataInWindow
-- the mask built with the cost volume: every clause, every pixel
#print axioms criteria_interior
#print axioms criteria_border
#print axioms toDisp_invalid_iff
#print axioms criteria_spec
#print axioms criteria_spec_disp
#print axioms invalidNotSample_of_outside
#print axioms flagInit_modelMask
-- `+` equals `|` on a clear bit; steps change only their own bits
#print axioms add_two_pow_eq_or
#print axioms testBit_sub_two_pow
#print axioms stepFlag_testBit
#print axioms replacementOK_of_clear
#print axioms stepOK_of_clear
-- any pipeline
#print axioms run_lt_4096
#print axioms run_ok_partial
#print axioms run_ok_of_or
#print axioms repeated_refinement_counterexample
#print axioms repeated_interpolation_counterexample
#print axioms border_regularized_counterexample
-- the source as regenerated on this run
#print axioms sites_documented
#print axioms refinement_returns_documented
#print axioms constants_documented
#print axioms source_reg_or
#print axioms source_story
#print axioms source_repeated_refinement
-- C04 ∘ C02 (Properties/C04C02.lean): `computable` is a theorem about the matching-cost model
#print axioms Pandora.C04C02.maskOk_eq
#print axioms Pandora.C04C02.rightOk_eq
#print axioms Pandora.C04C02.nDisp_eq
#print axioms Pandora.C04C02.computable_iff_cause
#print axioms Pandora.C04C02.rawPlane_isNan_iff
#print axioms Pandora.C04C02.rawOK_rawVal
#print axioms Pandora.C04C02.nan_iff_not_computable
#print axioms Pandora.C04C02.nan_iff_not_computable_of_wf
#print axioms Pandora.C04C02.mcAllNan_eq
#print axioms Pandora.C04C02.composedMask_eq
#print axioms Pandora.C04C02.invalid_iff_all_costs_nan
#print axioms Pandora.C04C02.invalid_iff_all_costs_nan_of_wf
#print axioms Pandora.C04C02.composed_spec
#print axioms Pandora.C04C02.composed_spec_disp
-- the decisions of criteria.py regenerated from the source (Generated/KernelsCriteria.lean) = the hand model
#print axioms Pandora.C04Kernels.validityMaskCol_eq
#print axioms Pandora.C04Kernels.validityMaskCol_bit1_iff
#print axioms Pandora.C04Kernels.validityMaskCol_flag
#print axioms Pandora.C04Kernels.leftMaskedPred_eq
#print axioms Pandora.C04Kernels.rightMaskedPred_eq
#print axioms Pandora.C04Kernels.allocLeftPx_eq
#print axioms Pandora.C04Kernels.validIndex_eq
#print axioms Pandora.C04Kernels.validIndex_iff
#print axioms Pandora.C04Kernels.rangeLen_eq
#print axioms Pandora.C04Kernels.rightIterPx_eq
#print axioms Pandora.C04Kernels.maskInvalidPx_eq
#print axioms Pandora.C04Kernels.maskBorderPx_eq
-- the generated pieces composed as the source composes them (Properties/C04KernelsComp.lean)
#print axioms Pandora.C04Kernels.pyRange_bounds
#print axioms Pandora.C04Kernels.gatherCol_eq
#print axioms Pandora.C04Kernels.rightMaskCell_eq
#print axioms Pandora.C04Kernels.genStep_eq
#print axioms Pandora.C04Kernels.genRightLoop_eq
#print axioms Pandora.C04Kernels.genRightLoop_closed
#print axioms Pandora.C04Kernels.genStage1_eq
#print axioms Pandora.C04Kernels.genFinalMask_eq
#print axioms Pandora.C04Kernels.genFinalMask_spec
#print axioms Pandora.C04Kernels.genFinalMask_interior
