import PandoraModel.Properties.C09
#print axioms Pandora.C09.specCell_indep
#print axioms Pandora.C09.specCellWith_indep
#print axioms Pandora.C09.cost_indep
#print axioms Pandora.C09.outside_pixel_interval_nan
#print axioms Pandora.C09.slice_of_larger
#print axioms Pandora.C09.grid_inside_same
#print axioms Pandora.C09.stored_interval
#print axioms Pandora.C09.wta_in_pixel_interval
#print axioms Pandora.C09.pixel_interval_in_global
