import PandoraModel.Properties.C19
import PandoraModel.Properties.C19C05
import PandoraModel.Properties.C19C20
open Pandora.C19
#print axioms bandLoop_eq
#print axioms bandLoop_names
#print axioms bandLoop_px
#print axioms saveResults_spec
#print axioms source_table_documented
#print axioms source_saveResults_spec
#print axioms complete_asUser
#print axioms checkInput_asUser
#print axioms refeed_spec
#print axioms refeed_rejected_when_written
#print axioms checkPipeline_fixpoint
#print axioms checkPipeline_names
#print axioms expectedRun_false_noRight
#print axioms rightDisparityRan_true
#print axioms right_product_iff_validation
#print axioms source_adds_margins
#print axioms source_refeed_spec
#print axioms fixed_refeed_spec
#print axioms refeed_current_counterexample
-- C19 ∘ C05 / C17: the configuration `main` saves is accepted again by `checkConf` and completes to itself
#print axioms Pandora.C19C05.checkConf_reads_two_keys
#print axioms Pandora.C19C05.saved_config_replays
#print axioms Pandora.C19C05.source_main_facts
#print axioms Pandora.C19C05.source_saved_config_replays
#print axioms Pandora.C19C05.saved_config_is_result_plus_margins
#print axioms Pandora.C19C05.accepted_sides
#print axioms Pandora.C19C05.dispOfJ_derived
#print axioms Pandora.C19C05.savedOfDict_mainSaved
#print axioms Pandora.C19C05.stepCheck_idempotent
#print axioms Pandora.C19C05.checkPipelineSection_checkPipeline
#print axioms Pandora.C19C05.saved_pipeline_fixpoint
#print axioms Pandora.C19C05.saved_pipeline_names
#print axioms Pandora.C19C05.generated_indicator_facts
#print axioms Pandora.C19C05.classCheck_indicator
#print axioms Pandora.C19C05.construct_indicator
#print axioms Pandora.C19C05.checkPipelineSection_of_checked
#print axioms Pandora.C19C05.checked_of_checkPipelineSection
#print axioms Pandora.C19C05.runPipeline_checked
#print axioms Pandora.C19C05.saved_pipeline_fixpoint_run
#print axioms Pandora.C19C05.saved_config_replays_run
#print axioms Pandora.C19C05.source_saved_config_replays_run
#print axioms Pandora.C19C05.saved_config_replays_any
#print axioms Pandora.C19C05.source_saved_config_replays_any
#print axioms Pandora.C19C05.source_run_writes_indicator
#print axioms Pandora.C19C05.runPipeline_id_of_no_confidence
#print axioms Pandora.C19C05.source_refeed_spec_of_checkConf
#print axioms Pandora.C19C05.refeed_models_agree
-- C19 ∘ C20: the saved margins are the expected margins of the saved pipeline; config.json is a fix-point of `main`
#print axioms Pandora.C19C20.exprLower_sound
#print axioms Pandora.C19C20.schemaLower_sound
#print axioms Pandora.C19C20.generated_marginSafe
#print axioms Pandora.C19C20.accepted_goodCfg
#print axioms Pandora.C19C20.entries_valid
#print axioms Pandora.C19C20.accepted_pipeline_facts
#print axioms Pandora.C19C20.accepted_margins_defined
#print axioms Pandora.C19C20.stepCfgsOf_runPipeline
#print axioms Pandora.C19C20.saved_margins_expected
#print axioms Pandora.C19C20.main_config_defined
#print axioms Pandora.C19C20.main_config_fixpoint
#print axioms Pandora.C19C20.margins_shape_independent
#print axioms Pandora.C19C20.expectedMarginsJ_shape_independent
