import PandoraModel.Properties.C19
open Pandora.C19
#print axioms bandLoop_eq
#print axioms bandLoop_names
#print axioms bandLoop_px
#print axioms saveResults_spec
#print axioms source_table_documented
#print axioms source_saveResults_spec
#print axioms complete_asUser
#print axioms checkInput_asUser
#print axioms refeed_spec
#print axioms refeed_rejected_when_written
#print axioms checkPipeline_fixpoint
#print axioms checkPipeline_names
#print axioms expectedRun_false_noRight
#print axioms rightDisparityRan_true
#print axioms right_product_iff_validation
#print axioms source_adds_margins
#print axioms source_refeed_spec
#print axioms fixed_refeed_spec
#print axioms refeed_current_counterexample
