import PandoraModel.Properties.C12
import PandoraModel.Properties.C12Kernels
import PandoraModel.Properties.C12KernelsBounds
import PandoraModel.Properties.C12KernelsSampled
import PandoraModel.Properties.C12KernelsRiskSampled
import PandoraModel.Properties.C12Names
import PandoraModel.Properties.C12KernelsRegul
import PandoraModel.Properties.C12KernelsGraphReg
import PandoraModel.Properties.C12KernelsBorders
open Pandora.C12
-- tie to the source
#print axioms stems_from_source
#print axioms prefix_from_source
#print axioms indicator_rule_from_source
-- ambiguity
#print axioms twoDimEtas_eq
#print axioms pixelCmp_eq
#print axioms pixelAmbiguity_spec
#print axioms pixelSampled_spec
#print axioms ambiguity_def
#print axioms normalize_unit
#print axioms ambiguity_normalised_range
#print axioms normalize_constant_nan
#print axioms ambiguity_normalised_counterexample
#print axioms ambiguity_max_counterexample
#print axioms arange_wf
#print axioms ambCount_neg
#print axioms max_measure_fix_correct
-- risk
#print axioms card_le_span
#print axioms pixelRisk_spec
#print axioms risk_order_spec
#print axioms pixelRisk_order
#print axioms pixelRisk_nan_iff
#print axioms risk_def
#print axioms risk_order
-- interval bounds
#print axioms possibility_eq
#print axioms pixelBounds_def
#print axioms pixelBounds_bracket
#print axioms wtaIdx_best
#print axioms wtaIdx_none_iff
#print axioms bounds_def
#print axioms bounds_bracket_wta
-- regularisation
#print axioms graphRegularization_widens
#print axioms intervalRegularization_widens
-- bands
#print axioms runStep_frame
#print axioms runSteps_frame
#print axioms existing_bands_prefix
#print axioms later_disparity_same
#print axioms indicatorOf_eq_suffix
#print axioms names_as_specified
#print axioms indicator_two_dots_counterexample
-- std_intensity
#print axioms windowSums_direct
#print axioms varRaster_spec
#print axioms stdBandSq_spec
-- the kernels regenerated from the Python source (translator/pyvec.py, Generated/KernelsConf.lean) = the hand model
#print axioms Pandora.C12Kernels.tile_eq
#print axioms Pandora.C12Kernels.computeAmbiguity_generated_eq
#print axioms Pandora.C12Kernels.computeRisk_generated_eq
-- compute_interval_bounds regenerated = the hand model, for every argsort returning a permutation (Properties/C12KernelsBounds.lean)
#print axioms Pandora.C12Kernels.iminL_eq_of
#print axioms Pandora.C12Kernels.imaxL_eq_of
#print axioms Pandora.C12Kernels.filter_perm_selIdx
#print axioms Pandora.C12Kernels.computeIntervalBounds_generated_run
#print axioms Pandora.C12Kernels.computeIntervalBounds_generated_eq_of_le
#print axioms Pandora.C12Kernels.computeIntervalBounds_generated_eq
#print axioms Pandora.C12Kernels.computeIntervalBounds_generated_empty
#print axioms Pandora.C12Kernels.computeIntervalBounds_generated_shapeError_iff
#print axioms Pandora.C12Kernels.computeIntervalBounds_generated_no_shapeError
#print axioms Pandora.C12Kernels.computeIntervalBounds_generated_all_nan
#print axioms Pandora.C12Kernels.computeIntervalBounds_generated_finite
#print axioms Pandora.C12Kernels.bounds_def_generated
#print axioms Pandora.C12Kernels.bounds_bracket_wta_generated
-- compute_ambiguity_and_sampled_ambiguity regenerated = (pixelAmbiguity, pixelSampled) (Properties/C12KernelsSampled.lean)
#print axioms Pandora.C12Kernels.computeAmbiguitySampled_generated_eq
-- the naming glue read from the source, evaluated (Properties/C12Names.lean): indicator = suffix, names = specification, every step name
#print axioms Pandora.C12Names.evalRule_golden
#print axioms Pandora.C12Names.pySplit_none_eq
#print axioms Pandora.C12Names.indicatorOneCut_eq
#print axioms Pandora.C12Names.indicator_generated_eq_spec
#print axioms Pandora.C12Names.indicator_unrepaired_eq_model
#print axioms Pandora.C12Names.stems_lookup
#print axioms Pandora.C12Names.names_generated_eq_spec
-- the connection scan of create_connected_graph regenerated = Confidence.connectionGraph (Properties/C12KernelsRegul.lean)
#print axioms Pandora.C12KernelsRegul.connAct_of
#print axioms Pandora.C12KernelsRegul.scan_eq
#print axioms Pandora.C12KernelsRegul.connRow_eq
#print axioms Pandora.C12KernelsRegul.connectionGraph_generated_eq
#print axioms Pandora.C12KernelsRegul.closure_step_eq
#print axioms Pandora.C12KernelsRegul.closeRow_core
#print axioms Pandora.C12KernelsRegul.createConnectedGraph_generated_eq
#print axioms Pandora.C12KernelsRegul.intervalRegularization_over_generated
-- compute_risk_and_sampled_risk regenerated = (pixelRisk, pixelSampledRisk) (Properties/C12KernelsRiskSampled.lean)
#print axioms Pandora.C12Kernels.pixelRisk_eq_mean
#print axioms Pandora.C12Kernels.computeRiskSampled_generated_eq
-- the aggregation loop of graph_regularization regenerated = Confidence.graphRegularization (Properties/C12KernelsGraphReg.lean)
#print axioms Pandora.C12KernelsRegul.agg_eq
#print axioms Pandora.C12KernelsRegul.setSlice_eq
#print axioms Pandora.C12KernelsRegul.graphRegularization_generated_eq
#print axioms Pandora.C12KernelsRegul.intervalRegularization_all_generated
#print axioms Pandora.C12KernelsRegul.quantile1_widens_generated
-- the segment extraction and the whole interval_regularization regenerated = the hand model (Properties/C12KernelsBorders.lean)
#print axioms Pandora.C12KernelsRegul.whereEq_left
#print axioms Pandora.C12KernelsRegul.whereEq_right
#print axioms Pandora.C12KernelsRegul.regulBorders_generated_eq
#print axioms Pandora.C12KernelsRegul.length_borders
#print axioms Pandora.C12KernelsRegul.intervalRegularization_generated_eq
#print axioms Pandora.C12KernelsRegul.quantile1_widens_whole_generated
