import PandoraModel.Properties.C12
open Pandora.C12
#print axioms stems_from_source
#print axioms prefix_from_source
#print axioms indicator_rule_from_source
