/-
  C04 — lemmas about the criteria model (Model/Criteria.lean): the end-point tests of
  `validity_mask` equal the set statements, the counting loop of `allocate_right_mask`,
  the dilation.  Core Lean only.
-/
import PandoraModel.Model.Criteria

namespace Pandora.C04
open Pandora.Criteria Pandora.Flags

/-! ### `range(d_min, d_max + 1)` -/

theorem mem_dispList {a b d : Int} : d ∈ dispList a b ↔ a ≤ d ∧ d ≤ b := by
  unfold dispList
  simp only [List.mem_map, List.mem_range]
  constructor
  · rintro ⟨i, hi, rfl⟩; omega
  · intro h
    refine ⟨(d - a).toNat, ?_, ?_⟩ <;> omega

theorem length_dispList (a b : Int) : (dispList a b).length = (b - a + 1).toNat := by
  simp [dispList]

theorem dispList_ne_nil {a b : Int} (h : a ≤ b) : dispList a b ≠ [] := by
  intro h0
  have : a ∈ dispList a b := mem_dispList.mpr ⟨Int.le_refl a, h⟩
  simp [h0] at this

/-! ### interior columns -/

/-- the column is not in the left/right border strip -/
def ColInterior (I : Input) (c : Nat) : Prop := I.off ≤ c ∧ c + I.off < I.cols

theorem inIdx_iff (I : Input) (c : Nat) (d : Int) :
    inIdx I c d = true ↔ (I.off : Int) ≤ (c : Int) + d ∧ (c : Int) + d ≤ (I.cols : Int) - 1 - (I.off : Int) := by
  simp [inIdx]

theorem inSet_eq_nil_iff (I : Input) (c : Nat) :
    inSet I c = [] ↔ ∀ d : Int, I.dmin ≤ d → d ≤ I.dmax → inIdx I c d = false := by
  unfold inSet
  rw [List.filter_eq_nil_iff]
  constructor
  · intro h d h1 h2
    have := h d (mem_dispList.mpr ⟨h1, h2⟩)
    simpa using this
  · intro h d hd
    have ⟨h1, h2⟩ := mem_dispList.mp hd
    simp [h d h1 h2]

/-- geometric bit 1 of `validity_mask`: the end-point test equals "no disparity of the interval has its
    window inside the right image" -/
theorem vmBit1_iff (I : Input) (c : Nat) (hc : ColInterior I c) (hd : I.dmin ≤ I.dmax) :
    vmBit1 I c = true ↔ inSet I c = [] := by
  obtain ⟨hc1, hc2⟩ := hc
  rw [inSet_eq_nil_iff]
  unfold vmBit1 Input.colAt Input.colLast
  by_cases hneg : I.dmax < 0
  · simp only [hneg, if_true, decide_eq_true_eq]
    constructor
    · intro h d _ h2
      have : ¬ ((I.off : Int) ≤ (c : Int) + d ∧ (c : Int) + d ≤ (I.cols : Int) - 1 - (I.off : Int)) := by omega
      simpa [inIdx] using this
    · intro h
      have := h I.dmax hd (Int.le_refl _)
      simp only [inIdx, decide_eq_false_iff_not] at this
      omega
  · by_cases hpos : I.dmin > 0
    · simp only [hneg, hpos, if_true, if_false, decide_eq_true_eq]
      constructor
      · intro h d h1 _
        have : ¬ ((I.off : Int) ≤ (c : Int) + d ∧ (c : Int) + d ≤ (I.cols : Int) - 1 - (I.off : Int)) := by omega
        simpa [inIdx] using this
      · intro h
        have := h I.dmin (Int.le_refl _) hd
        simp only [inIdx, decide_eq_false_iff_not] at this
        omega
    · simp only [hneg, hpos, if_false]
      constructor
      · intro h; cases h
      · intro h
        have := h 0 (by omega) (by omega)
        simp only [inIdx, decide_eq_false_iff_not] at this
        omega

/-- bit 2 of `validity_mask`: the end-point test equals "some disparity of the interval has its window
    inside the right image and some other has not" -/
theorem vmBit2_iff (I : Input) (c : Nat) (hc : ColInterior I c) (hd : I.dmin ≤ I.dmax) :
    vmBit2 I c = true ↔
      (inSet I c ≠ [] ∧ ∃ d : Int, I.dmin ≤ d ∧ d ≤ I.dmax ∧ inIdx I c d = false) := by
  obtain ⟨hc1, hc2⟩ := hc
  rw [Ne, inSet_eq_nil_iff]
  unfold vmBit2 Input.colAt Input.colLast
  by_cases hneg : I.dmax < 0
  · simp only [hneg, if_true, Bool.and_eq_true, decide_eq_true_eq]
    constructor
    · rintro ⟨h1, h2⟩
      refine ⟨?_, I.dmin, Int.le_refl _, hd, ?_⟩
      · intro h
        have := h I.dmax hd (Int.le_refl _)
        simp only [inIdx, decide_eq_false_iff_not] at this
        omega
      · simp only [inIdx, decide_eq_false_iff_not]; omega
    · rintro ⟨h1, d, hd1, hd2, hd3⟩
      simp only [inIdx, decide_eq_false_iff_not] at hd3
      refine ⟨?_, by omega⟩
      apply Classical.byContradiction
      intro hlt
      apply h1
      intro d' _ h2'
      simp only [inIdx, decide_eq_false_iff_not]; omega
  · by_cases hpos : I.dmin > 0
    · simp only [hneg, hpos, if_true, if_false, Bool.and_eq_true, decide_eq_true_eq]
      constructor
      · rintro ⟨h1, h2⟩
        refine ⟨?_, I.dmax, hd, Int.le_refl _, ?_⟩
        · intro h
          have := h I.dmin (Int.le_refl _) hd
          simp only [inIdx, decide_eq_false_iff_not] at this
          omega
        · simp only [inIdx, decide_eq_false_iff_not]; omega
      · rintro ⟨h1, d, hd1, hd2, hd3⟩
        simp only [inIdx, decide_eq_false_iff_not] at hd3
        refine ⟨?_, by omega⟩
        apply Classical.byContradiction
        intro hlt
        apply h1
        intro d' h1' _
        simp only [inIdx, decide_eq_false_iff_not]; omega
    · simp only [hneg, hpos, if_false, Bool.or_eq_true, decide_eq_true_eq]
      constructor
      · intro h
        refine ⟨?_, ?_⟩
        · intro h0
          have := h0 0 (by omega) (by omega)
          simp only [inIdx, decide_eq_false_iff_not] at this
          omega
        · rcases h with h | h
          · exact ⟨I.dmin, Int.le_refl _, hd, by simp only [inIdx, decide_eq_false_iff_not]; omega⟩
          · exact ⟨I.dmax, hd, Int.le_refl _, by simp only [inIdx, decide_eq_false_iff_not]; omega⟩
      · rintro ⟨_, d, hd1, hd2, hd3⟩
        simp only [inIdx, decide_eq_false_iff_not] at hd3
        omega

/-- the two tests of `validity_mask` never select the same column -/
theorem vmBit1_vmBit2_excl (I : Input) (c : Nat) : vmBit1 I c = true → vmBit2 I c = false := by
  unfold vmBit1 vmBit2
  by_cases hneg : I.dmax < 0
  · simp only [hneg, if_true, decide_eq_true_eq, Bool.and_eq_false_iff, decide_eq_false_iff_not]
    intro h; left; omega
  · by_cases hpos : I.dmin > 0
    · simp only [hneg, hpos, if_true, if_false, decide_eq_true_eq, Bool.and_eq_false_iff, decide_eq_false_iff_not]
      intro h; left; omega
    · simp [hneg, hpos]

/-! ### the counting loop of `allocate_right_mask` -/

/-- the disparity `d` counts for `b_2_7`: its right position is outside the image or masked invalid -/
def sat7 (I : Input) (r c : Nat) (d : Int) : Bool := !inIdx I c d || rInvAt I r ((c : Int) + d)
/-- the disparity `d` counts for `no_data_right`: outside the image or nodata in the right window -/
def satN (I : Input) (r c : Nat) (d : Int) : Bool := !inIdx I c d || rDilAt I r ((c : Int) + d)

/-- closed form of the loop state after the disparities `pre` (at most `n` of them) -/
def stateAfter (I : Input) (r c n f0 : Nat) (pre : List Int) : RState :=
  let b := if vmBit1 I c then 0 else pre.countP (sat7 I r c)
  let nd := if vmBit1 I c then 0 else pre.countP (satN I r c)
  { b27 := b, ndr := nd,
    flag := f0 + (if pre ≠ [] ∧ pre.length = n ∧ b = n then inValidityMaskRight else 0)
              + (if pre ≠ [] ∧ pre.length = n ∧ nd = n then rightNodataOrRangeMissing else 0) }

theorem rightIter_stateAfter (I : Input) (r c n f0 : Nat) (pre : List Int) (d : Int)
    (hlen : pre.length + 1 ≤ n) :
    rightIter I r c n (stateAfter I r c n f0 pre) d = stateAfter I r c n f0 (pre ++ [d]) := by
  have hc7 : pre.countP (sat7 I r c) ≤ pre.length := List.countP_le_length
  have hcN : pre.countP (satN I r c) ≤ pre.length := List.countP_le_length
  have e7 : (if inIdx I c d = true then (if rInvAt I r ((c : Int) + d) = true then 1 else 0) else 1)
      = (if sat7 I r c d = true then 1 else 0) := by
    unfold sat7; cases inIdx I c d <;> cases rInvAt I r ((c : Int) + d) <;> rfl
  have eN : (if inIdx I c d = true then (if rDilAt I r ((c : Int) + d) = true then 1 else 0) else 1)
      = (if satN I r c d = true then 1 else 0) := by
    unfold satN; cases inIdx I c d <;> cases rDilAt I r ((c : Int) + d) <;> rfl
  unfold rightIter stateAfter
  simp only [e7, eN, List.countP_append, List.countP_singleton, List.length_append, List.length_singleton]
  by_cases hb : vmBit1 I c = true
  · simp only [hb, if_true]
    have hn : ¬ (0 = n) := by omega
    have hn' : (0 == n) = false := by simp; omega
    simp [hn, hn']
  · simp only [hb]
    have hlt : ¬ (pre.length = n) := by omega
    simp only [hlt, false_and, and_false, if_false, Nat.add_zero]
    have hne : pre ++ [d] ≠ [] := by simp
    simp only [hne, ne_eq, not_false_eq_true, true_and, Bool.false_eq_true, if_false]
    by_cases h7 : sat7 I r c d = true <;> by_cases hN : satN I r c d = true <;>
      simp only [h7, hN, if_true, if_false, beq_iff_eq, Bool.false_eq_true] <;>
      (repeat' split) <;> (try rfl) <;> (try omega) <;> simp_all <;> omega

theorem foldl_rightIter (I : Input) (r c n f0 : Nat) (ds pre : List Int) (hlen : pre.length + ds.length ≤ n) :
    ds.foldl (rightIter I r c n) (stateAfter I r c n f0 pre) = stateAfter I r c n f0 (pre ++ ds) := by
  induction ds generalizing pre with
  | nil => simp
  | cons d ds ih =>
    simp only [List.foldl_cons]
    rw [rightIter_stateAfter I r c n f0 pre d (by simp at hlen; omega)]
    rw [ih (pre ++ [d]) (by simp at hlen ⊢; omega)]
    simp

/-- the right mask raises bit 7 at `(r, c)` -/
def right7 (I : Input) (r c : Nat) : Bool :=
  !vmBit1 I c && (dispList I.dmin I.dmax).all (sat7 I r c)
/-- the right mask raises bit 1 at `(r, c)` -/
def rightN (I : Input) (r c : Nat) : Bool :=
  !vmBit1 I c && (dispList I.dmin I.dmax).all (satN I r c)

/-- `allocate_right_mask` adds 128 exactly where every disparity of the interval is outside the image or
    masked, 2 exactly where every one is outside or sees nodata — never on the `bit_1` columns -/
theorem allocRight_eq (I : Input) (f r c : Nat) (hd : I.dmin ≤ I.dmax) :
    allocRight I f r c = f + (if right7 I r c then inValidityMaskRight else 0)
                           + (if rightN I r c then rightNodataOrRangeMissing else 0) := by
  unfold allocRight
  have h0 : ({ b27 := 0, ndr := 0, flag := f } : RState)
      = stateAfter I r c (dispList I.dmin I.dmax).length f [] := by
    simp [stateAfter]
  simp only [h0]
  rw [foldl_rightIter I r c _ f _ [] (by simp)]
  have hne := dispList_ne_nil hd
  simp only [stateAfter, List.nil_append, ne_eq, hne, not_false_eq_true, true_and]
  unfold right7 rightN
  by_cases hb : vmBit1 I c = true
  · have hpos : 0 < (dispList I.dmin I.dmax).length := List.length_pos_iff.mpr hne
    have : ¬ (0 = (dispList I.dmin I.dmax).length) := by omega
    simp [hb, this]
  · simp only [hb, Bool.not_false, Bool.true_and, List.all_eq_true]
    simp [List.countP_eq_length]

/-! ### dilation: the window loop of the model equals the scan of the specification -/

/-- some nodata cell of the image lies in the window centred on `(r, c)` -/
def NodataNear (rows cols off : Nat) (m : Nat → Nat → Cls) (r c : Nat) : Prop :=
  ∃ r' c', r' < rows ∧ c' < cols ∧ r' ≤ r + off ∧ r ≤ r' + off ∧ c' ≤ c + off ∧ c ≤ c' + off ∧ m r' c' = Cls.nodata

theorem dilated_iff (rows cols off : Nat) (m : Nat → Nat → Cls) (r c : Nat) :
    dilated rows cols off m r c = true ↔ NodataNear rows cols off m r c := by
  unfold dilated NodataNear
  simp only [List.any_eq_true, List.mem_range, Bool.and_eq_true, decide_eq_true_eq, beq_iff_eq]
  constructor
  · rintro ⟨i, hi, j, hj, ⟨h1, h2, h3, h4⟩, hm⟩
    exact ⟨r + i - off, c + j - off, h2, h4, by omega, by omega, by omega, by omega, hm⟩
  · rintro ⟨r', c', h1, h2, h3, h4, h5, h6, hm⟩
    refine ⟨r' + off - r, by omega, c' + off - c, by omega, ⟨by omega, by omega, by omega, by omega⟩, ?_⟩
    have e1 : r + (r' + off - r) - off = r' := by omega
    have e2 : c + (c' + off - c) - off = c' := by omega
    rw [e1, e2]; exact hm

theorem nodataInWindow_iff (rows cols off : Nat) (m : Nat → Nat → Cls) (r c : Nat) :
    nodataInWindow rows cols off m r c = true ↔ NodataNear rows cols off m r c := by
  unfold nodataInWindow NodataNear
  simp only [List.any_eq_true, List.mem_range, Bool.and_eq_true, decide_eq_true_eq, beq_iff_eq]
  constructor
  · rintro ⟨r', h1, c', h2, ⟨h3, h4, h5, h6⟩, hm⟩
    exact ⟨r', c', h1, h2, h3, h4, h5, h6, hm⟩
  · rintro ⟨r', c', h1, h2, h3, h4, h5, h6, hm⟩
    exact ⟨r', h1, c', h2, ⟨h3, h4, h5, h6⟩, hm⟩

theorem dilated_eq_nodataInWindow (rows cols off : Nat) (m : Nat → Nat → Cls) (r c : Nat) :
    dilated rows cols off m r c = nodataInWindow rows cols off m r c := by
  rw [Bool.eq_iff_iff, dilated_iff, nodataInWindow_iff]

end Pandora.C04
