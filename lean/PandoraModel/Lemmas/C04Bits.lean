/-
  C04 — the bit tests of the code (`flag & bit != 0`, `flag & PANDORA_MSK_PIXEL_INVALID != 0`) and the two
  ways of raising a bit (`+=`, `|=`) expressed with `Nat.testBit` / div-mod, so that `omega` and Boolean
  reasoning apply.  Core Lean only.
-/
import PandoraModel.Model.Flags

namespace Pandora.C04
open Pandora.Flags

theorem and_two_pow_eq (f k : Nat) : f &&& 2 ^ k = if f.testBit k then 2 ^ k else 0 := by
  apply Nat.eq_of_testBit_eq
  intro i
  rw [Nat.testBit_and, Nat.testBit_two_pow]
  by_cases h : k = i
  · subst h
    cases hb : f.testBit k <;> simp [Nat.testBit_two_pow_self]
  · cases hb : f.testBit k <;> simp [h, Nat.testBit_two_pow_of_ne h]

theorem hasBit_two_pow (f k : Nat) : hasBit f (2 ^ k) = f.testBit k := by
  unfold hasBit
  rw [and_two_pow_eq]
  cases h : f.testBit k
  · simp
  · have : 2 ^ k ≠ 0 := Nat.ne_of_gt (Nat.two_pow_pos k)
    simp

theorem and_two_pow_ne_zero (f k : Nat) : ((f &&& 2 ^ k) != 0) = f.testBit k := hasBit_two_pow f k

theorem and_two_pow_eq_zero (f k : Nat) : ((f &&& 2 ^ k) == 0) = !f.testBit k := by
  have := and_two_pow_ne_zero f k
  cases h : f.testBit k <;> simp_all

theorem testBit_divmod (f k : Nat) : f.testBit k = decide (f / 2 ^ k % 2 = 1) :=
  Nat.testBit_eq_decide_div_mod_eq

/-- `f & (a | b) != 0` splits -/
theorem and_or_ne_zero (f a b : Nat) : ((f &&& (a ||| b)) != 0) = (((f &&& a) != 0) || ((f &&& b) != 0)) := by
  rw [Nat.and_or_distrib_left, Bool.eq_iff_iff]
  simp only [bne_iff_ne, ne_eq, Nat.or_eq_zero_iff, Bool.or_eq_true]
  omega

theorem pixelInvalid_eq : pixelInvalid = 2 ^ 0 ||| (2 ^ 1 ||| (2 ^ 6 ||| (2 ^ 7 ||| (2 ^ 8 ||| 2 ^ 9)))) := by decide

/-- `flag & PANDORA_MSK_PIXEL_INVALID != 0` tests the bits 0, 1, 6, 7, 8, 9 -/
theorem isInvalid_eq (f : Nat) :
    isInvalid f = (f.testBit 0 || (f.testBit 1 || (f.testBit 6 || (f.testBit 7 || (f.testBit 8 || f.testBit 9))))) := by
  unfold isInvalid
  rw [pixelInvalid_eq]
  simp only [and_or_ne_zero, and_two_pow_ne_zero]

/-! ### raising and lowering one bit -/

/-- `+=` on a clear bit is `|=` -/
theorem add_two_pow_eq_or (f k : Nat) (h : f.testBit k = false) : f + 2 ^ k = f ||| 2 ^ k := by
  -- f = 2^(k+1) * a + r with r < 2^k
  have hr : f % 2 ^ (k + 1) < 2 ^ k := by
    rw [testBit_divmod] at h
    have h' : f / 2 ^ k % 2 = 0 := by
      have := Nat.mod_two_eq_zero_or_one (f / 2 ^ k)
      simp at h; omega
    rw [Nat.pow_succ, Nat.mod_mul, h']
    simp
    exact Nat.mod_lt _ (Nat.two_pow_pos k)
  have hf : f = 2 ^ (k + 1) * (f / 2 ^ (k + 1)) + f % 2 ^ (k + 1) := (Nat.div_add_mod f _).symm
  generalize f / 2 ^ (k + 1) = a at hf
  generalize f % 2 ^ (k + 1) = r at hf hr
  subst hf
  have h1 : r + 2 ^ k < 2 ^ (k + 1) := by rw [Nat.pow_succ]; omega
  have h2 : r < 2 ^ (k + 1) := by rw [Nat.pow_succ]; omega
  calc 2 ^ (k + 1) * a + r + 2 ^ k = 2 ^ (k + 1) * a + (r + 2 ^ k) := by omega
    _ = 2 ^ (k + 1) * a ||| (r + 2 ^ k) := Nat.two_pow_add_eq_or_of_lt h1 a
    _ = 2 ^ (k + 1) * a ||| (r ||| 2 ^ k) := by rw [Nat.or_two_pow_eq_add_of_lt hr]
    _ = (2 ^ (k + 1) * a ||| r) ||| 2 ^ k := by rw [Nat.or_assoc]
    _ = (2 ^ (k + 1) * a + r) ||| 2 ^ k := by rw [Nat.two_pow_add_eq_or_of_lt h2 a]

theorem testBit_or_two_pow (f k j : Nat) : (f ||| 2 ^ k).testBit j = (f.testBit j || decide (k = j)) := by
  rw [Nat.testBit_or, Nat.testBit_two_pow]

theorem testBit_add_two_pow (f k j : Nat) (h : f.testBit k = false) :
    (f + 2 ^ k).testBit j = (f.testBit j || decide (k = j)) := by
  rw [add_two_pow_eq_or f k h, testBit_or_two_pow]

/-- `-=` of a set bit clears that bit and nothing else -/
theorem testBit_sub_two_pow (f k j : Nat) (h : f.testBit k = true) :
    (f - 2 ^ k).testBit j = (f.testBit j && !decide (k = j)) := by
  have hge : 2 ^ k ≤ f := Nat.ge_two_pow_of_testBit h
  have hclear : (f - 2 ^ k).testBit k = false := by
    rw [testBit_divmod] at h ⊢
    have h' : f / 2 ^ k % 2 = 1 := by simpa using h
    have : (f - 2 ^ k) / 2 ^ k = f / 2 ^ k - 1 := by
      have := Nat.sub_mul_div f (2 ^ k) 1
      simpa using this
    rw [this]
    simp only [decide_eq_false_iff_not]
    have hq : 1 ≤ f / 2 ^ k := by
      have := Nat.div_le_div_right (c := 2 ^ k) hge
      rwa [Nat.div_self (Nat.two_pow_pos k)] at this
    omega
  have hf : f = (f - 2 ^ k) + 2 ^ k := by omega
  have key := testBit_add_two_pow (f - 2 ^ k) k j hclear
  rw [← hf] at key
  by_cases hkj : k = j
  · subst hkj; simp [hclear]
  · simp [hkj] at key ⊢; exact key.symm

end Pandora.C04
