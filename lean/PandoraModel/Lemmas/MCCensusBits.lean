/-
  census: the number computed by the code — `popcount32b` of the xor of the two bit-packed census strings — is the
  Hamming distance of the two strings of comparisons "neighbour > centre", for the two window sizes the census
  class accepts (3 and 5).  (File generated once by a script and then kept as source: the 9- and 25-element lists.)
-/
import PandoraModel.Lemmas.MCBits
import PandoraModel.Lemmas.MCCensus

namespace Pandora.MC
open Pandora.MC.Popcount

/-- comparison bit of the census transform at window position `(a, b)` (top-left corner `(r, c)`, half window `o`) -/
def cmpBit (A : Img) (r c : Int) (o a b : Nat) : Bool := decide (A.px (r + a) (c + b) > A.px (r + o) (c + o))

theorem ite_toNat (p : Prop) [Decidable p] : (if p then (1 : Nat) else 0) = (decide p).toNat := by
  by_cases h : p <;> simp [h]

theorem ite_bool_toNat (b : Bool) : (if b = true then (1 : Nat) else 0) = b.toNat := by cases b <;> rfl

theorem censusBits3 (A : Img) (r c : Int) :
    censusBits 3 A r c = packLE [cmpBit A r c 1 2 2, cmpBit A r c 1 2 1, cmpBit A r c 1 2 0, cmpBit A r c 1 1 2, cmpBit A r c 1 1 1, cmpBit A r c 1 1 0, cmpBit A r c 1 0 2, cmpBit A r c 1 0 1, cmpBit A r c 1 0 0] := by
  have hr : List.range 3 = [0, 1, 2] := rfl
  have hh : half 3 = 1 := rfl
  unfold censusBits
  simp only [hr, hh, List.foldl_cons, List.foldl_nil, ite_toNat, Nat.shiftLeft_eq, packLE]
  unfold cmpBit
  simp only [Nat.cast_ofNat, Nat.cast_zero, Nat.cast_one]
  omega

theorem censusBits5 (A : Img) (r c : Int) :
    censusBits 5 A r c = packLE [cmpBit A r c 2 4 4, cmpBit A r c 2 4 3, cmpBit A r c 2 4 2, cmpBit A r c 2 4 1, cmpBit A r c 2 4 0, cmpBit A r c 2 3 4, cmpBit A r c 2 3 3, cmpBit A r c 2 3 2, cmpBit A r c 2 3 1, cmpBit A r c 2 3 0, cmpBit A r c 2 2 4, cmpBit A r c 2 2 3, cmpBit A r c 2 2 2, cmpBit A r c 2 2 1, cmpBit A r c 2 2 0, cmpBit A r c 2 1 4, cmpBit A r c 2 1 3, cmpBit A r c 2 1 2, cmpBit A r c 2 1 1, cmpBit A r c 2 1 0, cmpBit A r c 2 0 4, cmpBit A r c 2 0 3, cmpBit A r c 2 0 2, cmpBit A r c 2 0 1, cmpBit A r c 2 0 0] := by
  have hr : List.range 5 = [0, 1, 2, 3, 4] := rfl
  have hh : half 5 = 2 := rfl
  unfold censusBits
  simp only [hr, hh, List.foldl_cons, List.foldl_nil, ite_toNat, Nat.shiftLeft_eq, packLE]
  unfold cmpBit
  simp only [Nat.cast_ofNat, Nat.cast_zero, Nat.cast_one]
  omega

theorem census_hamming3 (A B : Img) (r c : Int) :
    popcount32b (censusBits 3 A (r - 1) (c - 1) ^^^ censusBits 3 B (r - 1) (c - 1)) =
      winCount 1 (fun a b => decide (A.px a b > A.px r c) != decide (B.px a b > B.px r c)) r c := by
  rw [censusBits3, censusBits3, packLE_xor]
  swap
  · rfl
  simp only [List.zipWith_cons_cons, List.zipWith_nil_right]
  rw [popcount32b_pack9]
  unfold winCount cmpBit
  simp only [sumZ, ite_bool_toNat, Nat.cast_ofNat, Nat.cast_zero, Nat.cast_one]
  have e0 : r - 1 + 0 = r - 1 := by ring
  have f0 : c - 1 + 0 = c - 1 := by ring
  have e1 : r - 1 + 1 = r := by ring
  have f1 : c - 1 + 1 = c := by ring
  have e2 : r - 1 + 2 = r + 1 := by ring
  have f2 : c - 1 + 2 = c + 1 := by ring
  simp only [e0, f0, e1, f1, e2, f2]
  omega

theorem census_hamming5 (A B : Img) (r c : Int) :
    popcount32b (censusBits 5 A (r - 2) (c - 2) ^^^ censusBits 5 B (r - 2) (c - 2)) =
      winCount 2 (fun a b => decide (A.px a b > A.px r c) != decide (B.px a b > B.px r c)) r c := by
  rw [censusBits5, censusBits5, packLE_xor]
  swap
  · rfl
  simp only [List.zipWith_cons_cons, List.zipWith_nil_right]
  rw [popcount32b_pack25]
  unfold winCount cmpBit
  simp only [sumZ, ite_bool_toNat, Nat.cast_ofNat, Nat.cast_zero, Nat.cast_one]
  have e0 : r - 2 + 0 = r - 2 := by ring
  have f0 : c - 2 + 0 = c - 2 := by ring
  have e1 : r - 2 + 1 = r - 1 := by ring
  have f1 : c - 2 + 1 = c - 1 := by ring
  have e2 : r - 2 + 2 = r := by ring
  have f2 : c - 2 + 2 = c := by ring
  have e3 : r - 2 + 3 = r + 1 := by ring
  have f3 : c - 2 + 3 = c + 1 := by ring
  have e4 : r - 2 + 4 = r + 2 := by ring
  have f4 : c - 2 + 4 = c + 2 := by ring
  simp only [e0, f0, e1, f1, e2, f2, e3, f3, e4, f4]
  omega

/-- the value the code computes for census is the textbook Hamming distance -/
theorem valueCensusBits_eq (x : Input) (hm : x.meas = .census) (hw : x.w = 3 ∨ x.w = 5) (r c k : Int) :
    valueCensusBits x r c k = valueSpec x r c k := by
  unfold valueCensusBits valueSpec
  simp only [hm]
  rcases hw with hw | hw
  · have hh : half 3 = 1 := rfl
    rw [hw, hh]
    have := census_hamming3 x.L (interpImg x k) r c
    simp only [Nat.cast_one]
    rw [this]
    rfl
  · have hh : half 5 = 2 := rfl
    rw [hw, hh]
    have := census_hamming5 x.L (interpImg x k) r c
    simp only [Nat.cast_ofNat]
    rw [this]
    rfl

end Pandora.MC
