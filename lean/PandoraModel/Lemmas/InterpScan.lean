/- Scanning lemmas for C14: the fuel loops of the kernels against "first valid pixel on the ray". -/
import PandoraModel.Model.Interp

namespace Pandora.Interp
open Pandora

/-- what the search predicate of a scan stops on: the edge, or a valid pixel -/
def stopAt (m : DMap) (pos : Nat → Int × Int) (j : Nat) : Bool := !m.inside (pos j) || m.validAt (pos j)

/-- the `break` loop = search of the first step that is outside the image or on a valid pixel -/
theorem scanLoop_eq (init : Val) (m : DMap) (pos : Nat → Int × Int) : ∀ fuel i, scanLoop init m pos fuel i =
    match (List.range' i fuel).find? (stopAt m pos) with
    | none => init
    | some j => if m.inside (pos j) then m.dispAt (pos j) else .nan := by
  intro fuel
  induction fuel with
  | zero => intro i; simp [scanLoop]
  | succ n ih =>
    intro i
    rw [List.range'_succ, List.find?_cons]
    unfold scanLoop
    by_cases hin : m.inside (pos i) = true
    · by_cases hv : m.validAt (pos i) = true
      · simp [stopAt, hin, hv]
      · simp only [Bool.not_eq_true] at hv
        simp [stopAt, hin, hv, ih (i + 1)]
    · simp only [Bool.not_eq_true] at hin
      simp [stopAt, hin]

/-- the first valid pixel of a ray cut at the edge, as a search over the steps -/
theorem firstValid_takeWhile (m : DMap) (pos : Nat → Int × Int) (l : List Nat) :
    firstValid m ((l.map pos).takeWhile m.inside) =
    match l.find? (stopAt m pos) with
    | none => none
    | some j => if m.inside (pos j) then some (m.dispAt (pos j)) else none := by
  induction l with
  | nil => simp [firstValid]
  | cons x t ih =>
    rw [List.map_cons, List.find?_cons]
    by_cases hin : m.inside (pos x) = true
    · rw [List.takeWhile_cons_of_pos hin]
      by_cases hv : m.validAt (pos x) = true
      · simp [firstValid, stopAt, hin, hv]
      · simp only [Bool.not_eq_true] at hv
        unfold firstValid at ih ⊢
        rw [List.find?_cons_of_neg (by simp [hv])]
        simp [stopAt, hin, hv, ih]
    · rw [List.takeWhile_cons_of_neg hin]
      simp only [Bool.not_eq_true] at hin
      simp [firstValid, stopAt, hin]

theorem firstValid_rayPts (m : DMap) (pos : Nat → Int × Int) :
    firstValid m (rayPts m pos) =
    match (List.range' 1 (max m.cols m.rows)).find? (stopAt m pos) with
    | none => none
    | some j => if m.inside (pos j) then some (m.dispAt (pos j)) else none :=
  firstValid_takeWhile m pos _

/-! ### geometry: after `max rows cols` steps every ray has left the image -/

theorem truncHalf_two (i : Nat) : truncHalf 2 i = i := by
  unfold truncHalf; exact Int.mul_tdiv_cancel_left _ (by decide)

theorem truncHalf_neg_two (i : Nat) : truncHalf (-2) i = -(i : Int) := by
  unfold truncHalf
  rw [show (-2 * (i : Int)) = 2 * (-(i : Int)) by omega]
  exact Int.mul_tdiv_cancel_left _ (by decide)

theorem inside_false_of {m : DMap} {p : Int × Int}
    (h : p.1 < 0 ∨ (m.rows : Int) ≤ p.1 ∨ p.2 < 0 ∨ (m.cols : Int) ≤ p.2) : m.inside p = false := by
  cases hb : m.inside p
  · rfl
  · simp [DMap.inside] at hb; omega

theorem ray_leaves_mc {m : DMap} {r c : Nat} (hr : r < m.rows) (hc : c < m.cols) {d : Int × Int}
    (hd : d ∈ dirs16) {i : Nat} (hi : max m.cols m.rows ≤ i) : m.inside (posMc r c d i) = false := by
  have h1 : m.cols ≤ i := Nat.le_trans (Nat.le_max_left _ _) hi
  have h2 : m.rows ≤ i := Nat.le_trans (Nat.le_max_right _ _) hi
  apply inside_false_of
  simp only [dirs16, List.mem_cons, List.mem_nil_iff, or_false] at hd
  rcases hd with rfl | rfl | rfl | rfl | rfl | rfl | rfl | rfl | rfl | rfl | rfl | rfl | rfl | rfl | rfl | rfl <;>
    simp only [posMc, truncHalf_two, truncHalf_neg_two] <;> omega

theorem ray_leaves_sgm {m : DMap} {r c : Nat} (hr : r < m.rows) (hc : c < m.cols) {d : Int × Int}
    (hd : d ∈ dirs8) {i : Nat} (hi : max m.cols m.rows ≤ i) : m.inside (posSgm r c d i) = false := by
  have h1 : m.cols ≤ i := Nat.le_trans (Nat.le_max_left _ _) hi
  have h2 : m.rows ≤ i := Nat.le_trans (Nat.le_max_right _ _) hi
  apply inside_false_of
  simp only [dirs8, List.mem_cons, List.mem_nil_iff, or_false] at hd
  rcases hd with rfl | rfl | rfl | rfl | rfl | rfl | rfl | rfl <;> simp only [posSgm] <;> omega


/-! ### the two scanning loops of the code against the specification's rays -/

theorem not_stopAt (m : DMap) (pos : Nat → Int × Int) (i : Nat) :
    (m.inside (pos i) && !m.validAt (pos i)) = !stopAt m pos i := by
  unfold stopAt; cases m.inside (pos i) <;> cases m.validAt (pos i) <;> rfl

theorem runOff_eq (m : DMap) (r c : Nat) (d : Int × Int) :
    runOff m r c d = (List.range' 1 (max m.cols m.rows - 1)).all fun i => !stopAt m (posMc r c d) i := by
  unfold runOff; congr 1; funext i; exact not_stopAt m _ i

/-- mc-cnn mismatch, one direction, accumulator initialised with `np.zeros` (the kernel before e1d31ca): the loop
    `for i in range(1, max_path_length)` returns the disparity of the first valid pixel of the ray, NaN when the
    ray leaves the image first — and the initial 0 when all its `max(rows, cols) − 1` steps stay inside on invalid
    pixels (finding F6b). -/
theorem scanMc_zero_eq (m : DMap) (r c : Nat) (hc : c < m.cols) (d : Int × Int) :
    scanLoop (.num 0) m (posMc r c d) (max m.cols m.rows - 1) 1 =
      if runOff m r c d then .num 0 else (firstValid m (rayPts m (posMc r c d))).getD .nan := by
  have hM : max m.cols m.rows = (max m.cols m.rows - 1) + 1 := by
    have : 1 ≤ max m.cols m.rows := Nat.le_trans (by omega) (Nat.le_max_left m.cols m.rows)
    omega
  rw [scanLoop_eq, firstValid_rayPts, runOff_eq]
  generalize hS : List.range' 1 (max m.cols m.rows - 1) = S
  have hfull : List.range' 1 (max m.cols m.rows) = S ++ [1 + (max m.cols m.rows - 1)] := by
    rw [← hS]; conv => lhs; rw [hM]
    rw [List.range'_concat]; simp
  rw [hfull, List.find?_append]
  cases hf : S.find? (stopAt m (posMc r c d)) with
  | none =>
    have : (S.all fun i => !stopAt m (posMc r c d) i) = true := by
      rw [List.all_eq_true]; intro x hx
      have := (List.find?_eq_none.mp hf) x hx
      simpa using this
    simp [this]
  | some j =>
    have hj : stopAt m (posMc r c d) j = true := List.find?_some hf
    have hmem : j ∈ S := List.mem_of_find?_eq_some hf
    have : (S.all fun i => !stopAt m (posMc r c d) i) = false := by
      rw [List.all_eq_false]; exact ⟨j, hmem, by simp [hj]⟩
    simp only [this, Option.some_or]
    by_cases hin : m.inside (posMc r c d j) = true <;> simp [hin]

/-- mc-cnn mismatch, one direction, accumulator initialised with NaN (the kernel since e1d31ca): exactly the
    disparity of the first valid pixel of the ray, or NaN -/
theorem scanMc_nan_eq (m : DMap) (r c : Nat) (hr : r < m.rows) (hc : c < m.cols) (d : Int × Int) (hd : d ∈ dirs16) :
    scanLoop .nan m (posMc r c d) (max m.cols m.rows - 1) 1 = (firstValid m (rayPts m (posMc r c d))).getD .nan := by
  have hM : max m.cols m.rows = (max m.cols m.rows - 1) + 1 := by
    have : 1 ≤ max m.cols m.rows := Nat.le_trans (by omega) (Nat.le_max_left m.cols m.rows)
    omega
  rw [scanLoop_eq, firstValid_rayPts]
  generalize hS : List.range' 1 (max m.cols m.rows - 1) = S
  have hfull : List.range' 1 (max m.cols m.rows) = S ++ [max m.cols m.rows] := by
    rw [← hS]; conv => lhs; rw [hM]
    rw [List.range'_concat]; simp; omega
  rw [hfull, List.find?_append]
  cases hf : S.find? (stopAt m (posMc r c d)) with
  | none =>
    have hout := ray_leaves_mc hr hc hd (Nat.le_refl (max m.cols m.rows))
    simp [stopAt, hout]
  | some j =>
    simp only [Option.some_or]
    by_cases hin : m.inside (posMc r c d j) = true <;> simp [hin]

theorem posSgm_zero (r c : Nat) (d : Int × Int) : posSgm r c d 0 = ((r : Int), (c : Int)) := by
  simp [posSgm]

theorem posSgm_succ (r c : Nat) (d : Int × Int) (k : Nat) :
    posSgm r c d (k + 1) = ((posSgm r c d k).1 + d.2, (posSgm r c d k).2 + d.1) := by
  simp only [posSgm, Int.natCast_succ, Int.mul_add, Int.mul_one, Int.add_assoc]

/-- the accumulating loop of `find_valid_neighbors` visits `start + i·d` -/
theorem scanAcc_eq (m : DMap) (r c : Nat) (d : Int × Int) : ∀ fuel k,
    scanAcc m d fuel (posSgm r c d k) = scanLoop (.num 0) m (posSgm r c d) fuel (k + 1) := by
  intro fuel
  induction fuel with
  | zero => intro k; simp [scanAcc, scanLoop]
  | succ n ih =>
    intro k
    unfold scanAcc scanLoop
    simp only [← posSgm_succ]
    rw [ih (k + 1)]

/-- `find_valid_neighbors`: per direction, the first valid pixel of the ray or NaN (never the initial 0) -/
theorem findValidNeighbors_eq (m : DMap) (r c : Nat) (hr : r < m.rows) (hc : c < m.cols) :
    findValidNeighbors m r c = dirs8.map fun d => (firstValid m (rayPts m (posSgm r c d))).getD .nan := by
  unfold findValidNeighbors
  apply List.map_congr_left
  intro d hd
  rw [← posSgm_zero r c d, scanAcc_eq, scanLoop_eq, firstValid_rayPts]
  have hM : 1 ≤ max m.cols m.rows := Nat.le_trans (by omega) (Nat.le_max_left m.cols m.rows)
  cases hf : (List.range' (0 + 1) (max m.cols m.rows)).find? (stopAt m (posSgm r c d)) with
  | none =>
    exfalso
    have hmem : max m.cols m.rows ∈ List.range' (0 + 1) (max m.cols m.rows) := by
      rw [List.mem_range'_1]; omega
    have := (List.find?_eq_none.mp hf) _ hmem
    simp [stopAt, ray_leaves_sgm hr hc hd (Nat.le_refl _)] at this
  | some j =>
    by_cases hin : m.inside (posSgm r c d j) = true <;> simp [hin]

end Pandora.Interp
