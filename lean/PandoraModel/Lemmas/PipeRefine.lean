/-
  C09 pipeline composition — refinement: a map that enters the step on the sample grid, every valid pixel inside
  its own interval (`refineReadyB`, i.e. `C06.pixHyp` at every pixel), leaves it with every valid pixel inside its
  own interval, hence inside the global one; validity and bits 8 / 9 are as they were.

  Derived from `C06.refinePixel_spec` (every clause of the C06 specification, in particular `inside_interval`,
  `stopped_iff`, `only_bit3`, `invalid_untouched`) through `C06.mapRes_all2`; `C06.sample_facts` excludes the class
  `ill_formed` for which the specification has no clause.
-/
import PandoraModel.Lemmas.PipeCrossCheck
import PandoraModel.Properties.C06

namespace Pandora.C09P
open Pandora Pandora.Pipeline Pandora.Refinement

/-- the decidable hypothesis evaluated by the driver is C06's `pixHyp` -/
theorem refineReadyPix_eq (P : Params) (x : PixIn) : refineReadyPix P x = C06.pixHyp P x := rfl

/-- the per-pixel diagnosis the driver reports is empty exactly when the hypothesis holds -/
theorem refineReadyFailures_nil (P : Params) (x : PixIn) : refineReadyFailures P x = [] ↔ refineReadyPix P x = true := by
  unfold refineReadyFailures refineReadyPix
  cases wfPixB P x <;> cases onGridPixB P x <;> cases (P.variant.fixOr || bitAt x.flag 3 == 0) <;> simp
  all_goals (split <;> split <;> simp)

/-! ### flag words: everything but bit 3 -/

theorem sameExceptBit3_testBit {f g : Nat} (h : sameExceptBit3 f g = true) (k : Nat) (hk : k ≠ 3) :
    f.testBit k = g.testBit k := by
  simp only [sameExceptBit3, Bool.and_eq_true, beq_iff_eq] at h
  obtain ⟨h8, h16⟩ := h
  by_cases hlt : k < 3
  · have e1 : f.testBit k = (f % 2 ^ 3).testBit k := by rw [Nat.testBit_mod_two_pow]; simp [hlt]
    have e2 : g.testBit k = (g % 2 ^ 3).testBit k := by rw [Nat.testBit_mod_two_pow]; simp [hlt]
    rw [e1, e2]
    have : f % 2 ^ 3 = g % 2 ^ 3 := by simpa using h8
    rw [this]
  · have hk4 : k - 4 + 4 = k := by omega
    have e1 : f.testBit k = (f / 2 ^ 4).testBit (k - 4) := by rw [Nat.testBit_div_two_pow, hk4]
    have e2 : g.testBit k = (g / 2 ^ 4).testBit (k - 4) := by rw [Nat.testBit_div_two_pow, hk4]
    rw [e1, e2]
    have : f / 2 ^ 4 = g / 2 ^ 4 := by simpa using h16
    rw [this]

theorem sameExceptBit3_isInvalid {f g : Nat} (h : sameExceptBit3 f g = true) : Flags.isInvalid f = Flags.isInvalid g := by
  rw [C04.isInvalid_eq, C04.isInvalid_eq]
  rw [sameExceptBit3_testBit h 0 (by decide), sameExceptBit3_testBit h 1 (by decide), sameExceptBit3_testBit h 6 (by decide),
    sameExceptBit3_testBit h 7 (by decide), sameExceptBit3_testBit h 8 (by decide), sameExceptBit3_testBit h 9 (by decide)]

/-- what the pipeline needs to know of a refined pixel -/
structure PixKept (x : PixIn) (o : PixOut) : Prop where
  invalid : Flags.isInvalid o.flag = Flags.isInvalid x.flag
  bit8 : o.flag.testBit 8 = x.flag.testBit 8
  bit9 : o.flag.testBit 9 = x.flag.testBit 9
  inside : Flags.isInvalid o.flag = false → ∃ q, o.d = .num q ∧ x.pmin ≤ q ∧ q ≤ x.pmax

theorem PixKept.of_same {x : PixIn} {o : PixOut} (hf : o.flag = x.flag) (hd : o.d = x.d)
    (hin : Flags.isInvalid x.flag = false → ∃ q, x.d = .num q ∧ x.pmin ≤ q ∧ q ≤ x.pmax) : PixKept x o :=
  ⟨by rw [hf], by rw [hf], by rw [hf], fun hv => by rw [hf] at hv; rw [hd]; exact hin hv⟩

theorem PixKept.of_bit3 {x : PixIn} {o : PixOut} (hf : sameExceptBit3 o.flag x.flag = true) (hd : o.d = x.d)
    (hin : Flags.isInvalid x.flag = false → ∃ q, x.d = .num q ∧ x.pmin ≤ q ∧ q ≤ x.pmax) : PixKept x o :=
  ⟨sameExceptBit3_isInvalid hf, sameExceptBit3_testBit hf 8 (by decide), sameExceptBit3_testBit hf 9 (by decide),
    fun hv => by rw [sameExceptBit3_isInvalid hf] at hv; rw [hd]; exact hin hv⟩

/-- a valid well-formed pixel is not in the class `ill_formed` (nor `invalid`) -/
theorem classify_wellformed (P : Params) (x : PixIn) (hwf : C06.wfPix P x = true) (hv : Flags.isInvalid x.flag = false) :
    classify P x ≠ .invalid ∧ classify P x ≠ .illFormed := by
  have W := C06.wfPix_facts P x hwf
  obtain ⟨dv, hd, h1, h2⟩ := W.disp hv
  obtain ⟨-, hs0, hs1, -⟩ := C06.sample_facts P x W dv (le_trans W.pmin_ge h1) (le_trans h2 W.pmax_le)
  unfold classify
  rw [hv, hd]
  simp only [Bool.false_eq_true, if_false]
  have hnot : ¬ (sampleOf P dv < 0 ∨ (x.costs.length : Int) ≤ sampleOf P dv) := by omega
  rw [if_neg hnot]
  constructor <;> (repeat' split) <;> simp

/-- **One pixel**: whatever C06 assumes of a pixel and proves of its output gives what the pipeline needs. -/
theorem pixKept_of_spec (P : Params) (x : PixIn) (o : PixOut) (tol : Rat) (hp : C06.pixHyp P x = true)
    (hs : specOK P x o tol = true) : PixKept x o := by
  simp only [C06.pixHyp, Bool.and_eq_true] at hp
  obtain ⟨⟨hwf, -⟩, -⟩ := hp
  have W := C06.wfPix_facts P x hwf
  have hin : Flags.isInvalid x.flag = false → ∃ q, x.d = .num q ∧ x.pmin ≤ q ∧ q ≤ x.pmax := W.disp
  unfold specOK at hs
  cases hcls : classify P x with
  | invalid =>
    rw [clauses, hcls] at hs
    simp only [List.all_cons, List.all_nil, Bool.and_true, Bool.and_eq_true, beq_iff_eq] at hs
    exact PixKept.of_same hs.2 hs.1 hin
  | illFormed =>
    cases hv : Flags.isInvalid x.flag with
    | false => exact absurd hcls (classify_wellformed P x hwf hv).2
    | true =>
      exfalso
      unfold classify at hcls
      rw [hv] at hcls
      simp at hcls
  | centreNan =>
    rw [clauses, hcls] at hs
    simp only [List.all_cons, List.all_nil, Bool.and_true, Bool.and_eq_true, beq_iff_eq] at hs
    exact PixKept.of_same hs.2 hs.1 hin
  | atIntervalEnd =>
    rw [clauses, hcls] at hs
    simp only [List.all_cons, List.all_nil, Bool.and_true, Bool.and_eq_true, beq_iff_eq] at hs
    exact PixKept.of_bit3 hs.2 hs.1.1 hin
  | neighbourNan =>
    rw [clauses, hcls] at hs
    simp only [List.all_cons, List.all_nil, Bool.and_true, Bool.and_eq_true, beq_iff_eq] at hs
    exact PixKept.of_bit3 hs.2 hs.1.1 hin
  | notExtremum =>
    rw [clauses, hcls] at hs
    simp only [List.all_cons, List.all_nil, Bool.and_true, Bool.and_eq_true, beq_iff_eq] at hs
    exact PixKept.of_bit3 hs.2 hs.1.1 hin
  | refine d c0 c1 c2 =>
    rw [clauses, hcls] at hs
    cases hod : o.d with
    | nan => rw [hod] at hs; simp [valNum?] at hs
    | num d' =>
      cases hoc : o.coeff with
      | nan => rw [hod, hoc] at hs; simp [valNum?] at hs
      | num y =>
        rw [hod, hoc] at hs
        simp only [valNum?, List.all_cons, List.all_nil, Bool.and_true, Bool.and_eq_true, beq_iff_eq,
          decide_eq_true_eq] at hs
        obtain ⟨hflag, -, -, -, -, -, hinside⟩ := hs
        exact ⟨by rw [hflag], by rw [hflag], by rw [hflag], fun _ => ⟨d', hod, hinside.1.2, hinside.2⟩⟩

/-! ### the whole map -/

theorem all2_get {α β : Type} (p : α → β → Bool) : ∀ (l : List α) (r : List β), all2 p l r = true →
    l.length = r.length ∧ ∀ (i : Nat) (a : α), l[i]? = some a → ∃ b, r[i]? = some b ∧ p a b = true := by
  intro l
  induction l with
  | nil =>
    intro r h
    cases r with
    | nil => exact ⟨rfl, fun i a ha => by simp at ha⟩
    | cons b r => simp [all2] at h
  | cons a l ih =>
    intro r h
    cases r with
    | nil => simp [all2] at h
    | cons b r =>
      simp only [all2, Bool.and_eq_true] at h
      obtain ⟨hlen, hget⟩ := ih r h.2
      refine ⟨by simp [hlen], ?_⟩
      intro i a' ha'
      cases i with
      | zero =>
        simp only [List.getElem?_cons_zero, Option.some.injEq] at ha'
        subst ha'
        exact ⟨b, by simp, h.1⟩
      | succ i =>
        simp only [List.getElem?_cons_succ] at ha' ⊢
        exact hget i a' ha'

/-- the per-pixel relation the step guarantees, as a Boolean so that `C06.mapRes_all2` carries it over the map -/
def keptB (P : Params) (x : PixIn) (o : PixOut) : Bool := !C06.pixHyp P x || specOK P x o tiny

theorem refinePixel_keptB (P : Params) (x : PixIn) (o : PixOut) (h : refinePixel P x = .ok o) : keptB P x o = true := by
  unfold keptB
  cases hp : C06.pixHyp P x with
  | false => rfl
  | true =>
    rcases C06.refinePixel_spec P x tiny hp (le_of_lt C06.tiny_pos) (fun _ => Or.inl (le_refl _)) with ⟨o', ho', hs⟩ | ⟨-, -, herr, -⟩
    · rw [h] at ho'; cases ho'; simp [hs]
    · rw [h] at herr; cases herr

theorem refineStep_dims (D : RefineData) (m m' : DMap) (h : refineStep D m = some m') :
    m'.rows = m.rows ∧ m'.cols = m.cols := by
  unfold refineStep at h
  cases hl : loopRefinement D.P (pixGrid D m) with
  | err e => rw [hl] at h; cases h
  | ok o =>
    rw [hl] at h
    simp only [Option.some.injEq] at h
    subst h
    exact ⟨rfl, rfl⟩

/-- every pixel of a map the step returns is the refined pixel of the input (`C06.mapRes_all2`) -/
theorem refineStep_pixel (D : RefineData) (m m' : DMap) (h : refineStep D m = some m') (r c : Nat)
    (hr : r < m.rows) (hc : c < m.cols) :
    ∃ o : PixOut, m'.disp r c = o.d ∧ m'.flag r c = o.flag ∧ keptB D.P (pixIn D m r c) o = true := by
  unfold refineStep at h
  cases hl : loopRefinement D.P (pixGrid D m) with
  | err e => rw [hl] at h; cases h
  | ok o =>
    rw [hl] at h
    simp only [Option.some.injEq] at h
    subst h
    have hall : all2 (all2 (keptB D.P)) (pixGrid D m) o = true :=
      C06.mapRes_all2 (mapRes (refinePixel D.P)) (all2 (keptB D.P))
        (fun row orow hrow => C06.mapRes_all2 (refinePixel D.P) (keptB D.P) (refinePixel_keptB D.P) row orow hrow)
        (pixGrid D m) o hl
    obtain ⟨-, hrows⟩ := all2_get _ _ _ hall
    obtain ⟨orow, horow, hrow⟩ := hrows r _ (tabulate_row m.rows m.cols (pixIn D m) r hr)
    obtain ⟨-, hcells⟩ := all2_get _ _ _ hrow
    obtain ⟨y, hy, hk⟩ := hcells c (pixIn D m r c) (by simp [hc])
    refine ⟨y, ?_, ?_, hk⟩
    · change (cellD o noPix r c).d = y.d
      simp [cellD, horow, hy]
    · change (cellD o noPix r c).flag = y.flag
      simp [cellD, horow, hy]

theorem refineReady_pix {D : RefineData} {m : DMap} (h : refineReadyB D m = true) (r c : Nat) (hr : r < m.rows)
    (hc : c < m.cols) : C06.pixHyp D.P (pixIn D m r c) = true := by
  unfold refineReadyB at h
  rw [C14.allPx_iff] at h
  rw [← refineReadyPix_eq]
  exact h r c hr hc

/-- **Refinement**: a map entering the step on the sample grid with every valid pixel inside its own interval
    (`refineReadyB`) leaves it — when the step returns — with every valid pixel inside its own interval. -/
theorem refineStep_bounded (D : RefineData) (m m' : DMap) (hready : refineReadyB D m = true)
    (h : refineStep D m = some m') : BoundedBy D.pmin D.pmax m' := by
  intro r c hr hc hv
  obtain ⟨hrows, hcols⟩ := refineStep_dims D m m' h
  rw [hrows] at hr; rw [hcols] at hc
  obtain ⟨o, hd, hf, hk⟩ := refineStep_pixel D m m' h r c hr hc
  have hp := refineReady_pix hready r c hr hc
  simp only [keptB, hp, Bool.not_true, Bool.false_or] at hk
  have K := pixKept_of_spec D.P _ o tiny hp hk
  rw [hf] at hv; rw [hd]
  exact K.inside hv

/-- bits 8 and 9 are not touched -/
theorem refineStep_oneFlag (D : RefineData) (m m' : DMap) (hready : refineReadyB D m = true)
    (h : refineStep D m = some m') (ho : OneFlag m) : OneFlag m' := by
  intro r c hr hc h8
  obtain ⟨hrows, hcols⟩ := refineStep_dims D m m' h
  rw [hrows] at hr; rw [hcols] at hc
  obtain ⟨o, -, hf, hk⟩ := refineStep_pixel D m m' h r c hr hc
  have hp := refineReady_pix hready r c hr hc
  simp only [keptB, hp, Bool.not_true, Bool.false_or] at hk
  have K := pixKept_of_spec D.P _ o tiny hp hk
  rw [hf] at h8 ⊢
  rw [K.bit8] at h8; rw [K.bit9]
  exact ho r c hr hc h8

/-- the pixel intervals of a map ready for refinement lie inside the global interval (part of `C06.wfPix`) -/
theorem refineReady_intervals {D : RefineData} {m : DMap} (hready : refineReadyB D m = true) (r c : Nat)
    (hr : r < m.rows) (hc : c < m.cols) : D.P.dmin ≤ D.pmin r c ∧ D.pmax r c ≤ D.P.dmax := by
  have hp := refineReady_pix hready r c hr hc
  simp only [C06.pixHyp, Bool.and_eq_true] at hp
  have W := C06.wfPix_facts D.P _ hp.1.1
  exact ⟨W.pmin_ge, W.pmax_le⟩

/-- … hence inside the global interval -/
theorem refineStep_bounded_global (D : RefineData) (m m' : DMap) (hready : refineReadyB D m = true)
    (h : refineStep D m = some m') : BoundedValid D.P.dmin D.P.dmax m' := by
  obtain ⟨hrows, hcols⟩ := refineStep_dims D m m' h
  apply BoundedBy.mono (refineStep_bounded D m m' hready h)
  · intro r c hr hc
    rw [hrows] at hr; rw [hcols] at hc
    exact (refineReady_intervals hready r c hr hc).1
  · intro r c hr hc
    rw [hrows] at hr; rw [hcols] at hc
    exact (refineReady_intervals hready r c hr hc).2

end Pandora.C09P
