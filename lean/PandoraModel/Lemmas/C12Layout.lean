/-
  C12 — list/layout lemmas: the flat `np.repeat / reshape / .T / flatten` layout used by the ambiguity
  and risk kernels is the (disparity, eta) product it is meant to be.  Core Lean only.
-/
import PandoraModel.Model.Confidence

namespace Pandora.C12
open Pandora Pandora.Confidence

/-! ### generic list facts -/

theorem npRepeat_nil {α} (k : Nat) : npRepeat ([] : List α) k = [] := rfl

theorem npRepeat_cons {α} (x : α) (xs : List α) (k : Nat) :
    npRepeat (x :: xs) k = List.replicate k x ++ npRepeat xs k := by
  unfold npRepeat
  rw [List.flatMap_cons]

theorem length_npRepeat {α} (xs : List α) (k : Nat) : (npRepeat xs k).length = xs.length * k := by
  induction xs with
  | nil => simp [npRepeat_nil]
  | cons x xs ih =>
    rw [npRepeat_cons, List.length_append, ih, List.length_replicate, List.length_cons, Nat.succ_mul, Nat.add_comm]

theorem chunks_append {α} (k n : Nat) (l₁ l₂ : List α) (h : l₁.length = k) :
    chunks k (n + 1) (l₁ ++ l₂) = l₁ :: chunks k n l₂ := by
  subst h
  simp [chunks]

/-- reshaping the concatenation of `n` blocks of length `k` into `(n, k)` gives back the blocks -/
theorem chunks_flatMap {α β} (xs : List α) (g : α → List β) (k : Nat) (hg : ∀ x ∈ xs, (g x).length = k) :
    chunks k xs.length (xs.flatMap g) = xs.map g := by
  induction xs with
  | nil => simp [chunks]
  | cons x xs ih =>
    rw [List.flatMap_cons, List.length_cons, chunks_append k _ _ _ (hg x (by simp))]
    rw [ih (fun y hy => hg y (by simp [hy]))]
    simp

theorem zipWith_replicate_left {α β γ} (f : α → β → γ) (a : α) (l : List β) (n : Nat) (h : l.length ≤ n) :
    List.zipWith f (List.replicate n a) l = l.map (f a) := by
  induction l generalizing n with
  | nil => simp
  | cons b l ih =>
    cases n with
    | zero => simp at h
    | succ n =>
      simp only [List.replicate_succ, List.zipWith_cons_cons, List.map_cons]
      rw [ih n (by simpa using h)]

theorem zipWith_replicate_left_eq {α β γ} (f : α → β → γ) (a : α) (l : List β) :
    List.zipWith f (List.replicate l.length a) l = l.map (f a) :=
  zipWith_replicate_left f a l l.length (Nat.le_refl _)

/-- zipping two concatenations of blocks of pairwise equal lengths zips block by block -/
theorem zipWith_flatMap_flatMap {ι α β γ} (f : α → β → γ) (xs : List ι) (g : ι → List α) (h : ι → List β)
    (hl : ∀ x ∈ xs, (g x).length = (h x).length) :
    List.zipWith f (xs.flatMap g) (xs.flatMap h) = xs.flatMap (fun x => List.zipWith f (g x) (h x)) := by
  induction xs with
  | nil => simp
  | cons x xs ih =>
    simp only [List.flatMap_cons]
    rw [List.zipWith_append (hl x (by simp)), ih (fun y hy => hl y (by simp [hy]))]

theorem flatten_replicate_eq_flatMap {ι β} (xs : List ι) (ys : List β) :
    (List.replicate xs.length ys).flatten = xs.flatMap (fun _ => ys) := by
  induction xs with
  | nil => simp
  | cons x xs ih => simp [List.replicate_succ, ih]

/-- `np.repeat(xs, n)` zipped with `n_x` tiled copies of `ys` (`n = len(ys)`) is the product `xs × ys` -/
theorem zipWith_repeat_tile {α β γ} (f : α → β → γ) (xs : List α) (ys : List β) :
    List.zipWith f (npRepeat xs ys.length) (List.replicate xs.length ys).flatten
      = xs.flatMap (fun x => ys.map (f x)) := by
  rw [flatten_replicate_eq_flatMap, npRepeat, zipWith_flatMap_flatMap f xs _ _ (by simp)]
  congr 1
  funext x
  exact zipWith_replicate_left_eq f x ys

theorem map_getD_range {α β} (l : List α) (d : α) (f : α → β) :
    (List.range l.length).map (fun i => f (l.getD i d)) = l.map f := by
  apply List.ext_getElem
  · simp
  · intro i h1 h2
    simp at h1
    simp [List.getD_eq_getElem?_getD, h1]

theorem map_getD_range' {α} (l : List α) (d : α) : (List.range l.length).map (fun i => l.getD i d) = l := by
  simpa using map_getD_range l d id

/-! ### the eta grid layout -/

theorem reshape_repeat (etas : List Rat) (nd : Nat) (h : 0 < nd) :
    reshapeRows (npRepeat etas nd) nd = etas.map (List.replicate nd) := by
  unfold reshapeRows
  rw [length_npRepeat, Nat.mul_div_cancel _ h]
  exact chunks_flatMap etas (List.replicate nd) nd (by simp)

theorem transpose_replicate_rows (etas : List Rat) (nd : Nat) :
    transposeN 0 nd (etas.map (List.replicate nd)) = List.replicate nd etas := by
  unfold transposeN column
  rw [List.map_congr_left (g := fun _ => etas)]
  · rw [List.map_const', List.length_range]
  · intro j hj
    simp at hj
    rw [List.map_map]
    conv => rhs; rw [← List.map_id etas]
    apply List.map_congr_left
    intro e _
    simp [List.getD_eq_getElem?_getD, hj]

/-- `two_dim_etas` is the eta grid tiled once per disparity (index `d * n_eta + i ↦ eta_i`) -/
theorem twoDimEtas_eq (etas : List Rat) (nd : Nat) (h : 0 < nd) :
    twoDimEtas etas nd = (List.replicate nd etas).flatten := by
  unfold twoDimEtas
  rw [reshape_repeat etas nd h, transpose_replicate_rows]

theorem length_flatten_replicate {α} (n : Nat) (l : List α) : (List.replicate n l).flatten.length = n * l.length := by
  induction n with
  | zero => simp
  | succ n ih => simp [List.replicate_succ, ih, Nat.succ_mul, Nat.add_comm]

/-! ### the comparison array of a pixel -/

/-- the comparison the kernel makes for disparity cell `c` and sample `e` is the specification's
    "within eta of the best" for a `min` measure -/
theorem leExt_normNeg (mn mx m e : Rat) (c : Val) :
    leExt (normNeg mn mx c) ((m - mn) / (mx - mn) + e) = Spec.within false mn mx m e c := by
  cases c with
  | nan => rfl
  | num q => simp only [normNeg, leExt, Spec.within, Spec.norm]; exact decide_eq_decide.mpr Iff.rfl

/-- flat index `d * n_eta + i` of the comparison array holds "cell `d` is within `eta_i` of the best" -/
theorem pixelCmp_eq (mn mx : Rat) (etas : List Rat) (curve : Curve) (m : Rat) (hnd : 0 < curve.length) :
    pixelCmp mn mx etas curve m
      = curve.flatMap (fun c => etas.map (fun e => Spec.within false mn mx m e c)) := by
  unfold pixelCmp
  simp only []
  rw [twoDimEtas_eq etas curve.length hnd]
  rw [zipWith_replicate_left _ _ _ _ (by rw [length_flatten_replicate]; exact Nat.le_refl _)]
  have h1 : ((List.replicate curve.length etas).flatten).map (fun x => (m - mn) / (mx - mn) + x)
      = (List.replicate (curve.map (normNeg mn mx)).length (etas.map (fun x => (m - mn) / (mx - mn) + x))).flatten := by
    rw [List.length_map, List.map_flatten, List.map_replicate]
  rw [h1]
  have h2 : etas.length = (etas.map (fun x => (m - mn) / (mx - mn) + x)).length := by simp
  rw [h2, zipWith_repeat_tile, List.flatMap_map]
  congr 1
  funext c
  rw [List.map_map]
  apply List.map_congr_left
  intro e _
  exact leExt_normNeg mn mx m e c

theorem sum_map_const {β} (ys : List β) (n : Nat) : (ys.map (fun _ => n)).sum = ys.length * n := by
  induction ys with
  | nil => simp
  | cons y ys ih => simp [ih, Nat.succ_mul, Nat.add_comm]

theorem count_add_sum {β} (ys : List β) (q : β → Bool) (f : β → Nat) :
    (ys.map q).count true + (ys.map f).sum = (ys.map (fun y => f y + if q y = true then 1 else 0)).sum := by
  induction ys with
  | nil => simp
  | cons y ys ih =>
    simp only [List.map_cons, List.sum_cons, List.count_cons]
    cases hq : q y <;> simp <;> omega

/-- counting the `true`s of a (rows × columns) product column by column -/
theorem count_flatMap_map {α β} (xs : List α) (ys : List β) (p : α → β → Bool) :
    (xs.flatMap (fun x => ys.map (p x))).count true = (ys.map (fun y => xs.countP (fun x => p x y))).sum := by
  induction xs with
  | nil => simp [sum_map_const]
  | cons x xs ih =>
    rw [List.flatMap_cons, List.count_append, ih, count_add_sum]
    simp only [List.countP_cons]

theorem numsOf_nil_iff (l : List Val) : numsOf l = [] ↔ ∀ c ∈ l, c = Val.nan := by
  induction l with
  | nil => simp [numsOf]
  | cons c l ih =>
    cases c with
    | nan => simpa [numsOf] using ih
    | num q => simp [numsOf]

theorem lmin_eq_none (l : List Rat) : lmin l = none ↔ l = [] := by
  cases l with
  | nil => simp [lmin]
  | cons x xs => cases h : lmin xs <;> simp [lmin, h]

theorem lmax_eq_none (l : List Rat) : lmax l = none ↔ l = [] := by
  cases l with
  | nil => simp [lmax]
  | cons x xs => cases h : lmax xs <;> simp [lmax, h]

/-- **ambiguity_def** (pixel level, `min` measure): the kernel's flat count is the ambiguity integral
    of the specification — for every curve, every eta grid, every normalisation range `mn ≠ mx` -/
theorem pixelAmbiguity_spec (mn mx : Rat) (etas : List Rat) (curve : Curve) (hne : mx ≠ mn) :
    pixelAmbiguity mn mx etas curve = Spec.ambCount false mn mx etas curve := by
  unfold pixelAmbiguity pixelBest Spec.ambCount Spec.ambAt Spec.best
  simp only [Bool.false_eq_true, if_false]
  cases hm : lmin (numsOf curve) with
  | none =>
    have hall : ∀ c ∈ curve, c = Val.nan := (numsOf_nil_iff curve).1 ((lmin_eq_none _).1 hm)
    have : ∀ e : Rat, curve.countP (Spec.within false mn mx ((none : Option Rat).getD 0) e) = curve.length := by
      intro e
      rw [List.countP_eq_length]
      intro c hc
      rw [hall c hc]; rfl
    simp only [this]
    rw [sum_map_const]
  | some m =>
    simp only [hne, if_false, Option.getD_some]
    cases hc : curve with
    | nil => simp [pixelCmp, npRepeat, twoDimEtas, reshapeRows, chunks, transposeN, sum_map_const]
    | cons c cs =>
      rw [← hc, pixelCmp_eq mn mx etas curve m (by rw [hc]; simp)]
      exact count_flatMap_map curve etas (fun c e => Spec.within false mn mx m e c)

/-- `sampled_ambiguity[row, col, i]` is `Amb(eta_i)` -/
theorem pixelSampled_spec (mn mx : Rat) (etas : List Rat) (curve : Curve) (hne : mx ≠ mn) :
    pixelSampled mn mx etas curve = etas.map (Spec.ambAt false mn mx curve) := by
  unfold pixelSampled pixelBest Spec.ambAt Spec.best
  simp only [Bool.false_eq_true, if_false]
  cases hm : lmin (numsOf curve) with
  | none =>
    have hall : ∀ c ∈ curve, c = Val.nan := (numsOf_nil_iff curve).1 ((lmin_eq_none _).1 hm)
    have : ∀ e : Rat, curve.countP (Spec.within false mn mx ((none : Option Rat).getD 0) e) = curve.length := by
      intro e
      rw [List.countP_eq_length]
      intro c hc
      rw [hall c hc]; rfl
    simp only [this]
    rw [List.map_const', ]
  | some m =>
    simp only [hne, if_false, Option.getD_some]
    cases hc : curve with
    | nil => simp [pixelCmp, npRepeat, chunks, column, List.map_const']
    | cons c cs =>
      rw [← hc, pixelCmp_eq mn mx etas curve m (by rw [hc]; simp)]
      rw [chunks_flatMap curve _ etas.length (by simp)]
      unfold column
      simp only [List.map_map]
      have : ∀ i ∈ List.range etas.length,
          (List.map ((fun r : List Bool => r.getD i false) ∘ fun c => etas.map (fun e => Spec.within false mn mx m e c)) curve).count true
          = curve.countP (Spec.within false mn mx m (etas.getD i 0)) := by
        intro i hi
        simp at hi
        rw [List.count_eq_countP, List.countP_map]
        apply List.countP_congr
        intro c _
        simp [List.getD_eq_getElem?_getD, hi]
      rw [List.map_congr_left this]
      exact map_getD_range etas 0 (fun e => curve.countP (Spec.within false mn mx m e))

end Pandora.C12
