/-
  C12 — risk: the kernel's per-eta disparity sets are the specification's index sets; a set of `k`
  distinct indices spans at least `k - 1`, hence `0 ≤ risk_min ≤ risk_max`.
-/
import PandoraModel.Lemmas.C12Layout
import Mathlib.Tactic.Linarith
import Mathlib.Algebra.Order.Field.Basic

namespace Pandora.C12
open Pandora Pandora.Confidence

theorem flatMap_getD_range {β} (curve : Curve) (g : Val → List β) :
    curve.flatMap g = (List.range curve.length).flatMap (fun d => g (curve.getD d .nan)) := by
  conv => lhs; rw [← map_getD_range' curve .nan]
  rw [List.flatMap_map]

theorem zipWith_map_map {ι α β γ} (f : α → β → γ) (l : List ι) (g : ι → α) (h : ι → β) :
    List.zipWith f (l.map g) (l.map h) = l.map (fun x => f (g x) (h x)) := by
  induction l with
  | nil => rfl
  | cons x l ih => simp [ih]

theorem filterMap_ite {α} (l : List α) (p : α → Bool) :
    (l.map (fun d => if p d = true then some d else none)).filterMap id = l.filter p := by
  induction l with
  | nil => rfl
  | cons x l ih =>
    cases hp : p x <;> simp [hp, ih]

theorem chunks_flatMap_range {β} (n k : Nat) (g : Nat → List β) (hg : ∀ d, (g d).length = k) :
    chunks k n ((List.range n).flatMap g) = (List.range n).map g := by
  have := chunks_flatMap (List.range n) g k (fun d _ => hg d)
  rwa [List.length_range] at this

/-- the disparities kept for sample `i` (column `i` of `disp_cv` after dropping the NaNs) are the
    indices within `eta_i` of the best -/
theorem riskColumns (mn mx : Rat) (etas : List Rat) (curve : Curve) (m : Rat) (hnd : 0 < curve.length) :
    (List.range etas.length).map (fun i =>
        (column none (chunks etas.length curve.length
          (List.zipWith (fun d keep => if keep = true then some d else none)
            (npRepeat (List.range curve.length) etas.length) (pixelCmp mn mx etas curve m))) i).filterMap id)
      = etas.map (fun e => (List.range curve.length).filter (fun d =>
          Spec.within false mn mx m e (curve.getD d .nan))) := by
  rw [pixelCmp_eq mn mx etas curve m hnd, flatMap_getD_range curve]
  unfold npRepeat
  rw [zipWith_flatMap_flatMap _ _ _ _ (by simp)]
  have hrow : ∀ d : Nat,
      List.zipWith (fun d keep => if keep = true then some d else none) (List.replicate etas.length d)
        (etas.map (fun e => Spec.within false mn mx m e (curve.getD d .nan)))
      = etas.map (fun e => if Spec.within false mn mx m e (curve.getD d .nan) = true then some d else none) := by
    intro d
    rw [zipWith_replicate_left _ _ _ _ (by simp), List.map_map]
    rfl
  simp only [hrow]
  rw [chunks_flatMap_range curve.length etas.length _ (by simp)]
  unfold column
  simp only [List.map_map]
  have : ∀ i ∈ List.range etas.length,
      (List.map ((fun r : List (Option Nat) => r.getD i none) ∘ fun d =>
          etas.map (fun e => if Spec.within false mn mx m e (curve.getD d .nan) = true then some d else none))
        (List.range curve.length)).filterMap id
      = (List.range curve.length).filter (fun d => Spec.within false mn mx m (etas.getD i 0) (curve.getD d .nan)) := by
    intro i hi
    simp at hi
    rw [← filterMap_ite]
    congr 1
    apply List.map_congr_left
    intro d _
    simp [List.getD_eq_getElem?_getD, hi]
  rw [List.map_congr_left this]
  exact map_getD_range etas 0 (fun e => (List.range curve.length).filter (fun d =>
    Spec.within false mn mx m e (curve.getD d .nan)))

/-! ### increasing index lists -/

theorem lminNat_sorted (l : List Nat) (h : l.Pairwise (· < ·)) : lminNat l = l.head? := by
  induction l with
  | nil => rfl
  | cons x xs ih =>
    have hx := (List.pairwise_cons.1 h)
    rw [lminNat, ih hx.2]
    cases xs with
    | nil => rfl
    | cons y ys =>
      have : x < y := hx.1 y (by simp)
      simp [Nat.le_of_lt this]

theorem lmaxNat_mem (l : List Nat) (m : Nat) (h : lmaxNat l = some m) : m ∈ l := by
  induction l generalizing m with
  | nil => simp [lmaxNat] at h
  | cons x xs ih =>
    rw [lmaxNat] at h
    cases hm : lmaxNat xs with
    | none => rw [hm] at h; simp at h; simp [h]
    | some m' =>
      rw [hm] at h
      simp only [Option.some.injEq] at h
      by_cases hle : m' ≤ x
      · simp [hle] at h; simp [h]
      · simp [hle] at h; subst h; simp [ih m' hm]

theorem lmaxNat_eq_none (l : List Nat) : lmaxNat l = none ↔ l = [] := by
  cases l with
  | nil => simp [lmaxNat]
  | cons x xs => cases h : lmaxNat xs <;> simp [lmaxNat, h]

theorem lmaxNat_sorted (l : List Nat) (h : l.Pairwise (· < ·)) : lmaxNat l = l.getLast? := by
  induction l with
  | nil => rfl
  | cons x xs ih =>
    have hx := (List.pairwise_cons.1 h)
    rw [lmaxNat, ih hx.2]
    cases xs with
    | nil => rfl
    | cons y ys =>
      have hlast : (y :: ys).getLast? = some ((y :: ys).getLast (by simp)) := List.getLast?_eq_some_getLast (by simp)
      rw [hlast]
      have hmem : (y :: ys).getLast (by simp) ∈ (y :: ys) := List.getLast_mem _
      have : x < (y :: ys).getLast (by simp) := hx.1 _ hmem
      simp only [List.getLast?_cons_cons]
      rw [hlast]
      simp [Nat.not_le_of_lt this]

/-- **card_le_span**: `k` distinct increasing indices span at least `k − 1` -/
theorem card_le_span (l : List Nat) (h : l.Pairwise (· < ·)) (a b : Nat)
    (ha : l.head? = some a) (hb : l.getLast? = some b) : l.length + a ≤ b + 1 := by
  induction l generalizing a with
  | nil => simp at ha
  | cons x xs ih =>
    have hx := (List.pairwise_cons.1 h)
    simp at ha
    subst ha
    cases xs with
    | nil => simp at hb; subst hb; simp; omega
    | cons y ys =>
      have hxy : x < y := hx.1 y (by simp)
      have := ih hx.2 y (by simp) (by simpa using hb)
      simp at this ⊢
      omega

theorem pairwise_filter_range (n : Nat) (p : Nat → Bool) : ((List.range n).filter p).Pairwise (· < ·) :=
  List.Pairwise.filter _ List.pairwise_lt_range

theorem spreadOpt_eq (l : List Nat) (hs : l.Pairwise (· < ·)) (hne : l ≠ []) :
    spreadOpt l = some (Spec.spread l) := by
  unfold spreadOpt
  rw [lminNat_sorted l hs, lmaxNat_sorted l hs]
  unfold Spec.spread
  cases l with
  | nil => exact absurd rfl hne
  | cons x xs =>
    have hlast : (x :: xs).getLast? = some ((x :: xs).getLast (by simp)) := List.getLast?_eq_some_getLast (by simp)
    rw [hlast]
    simp

theorem countP_eq_length_filter_range (curve : Curve) (p : Val → Bool) :
    curve.countP p = ((List.range curve.length).filter (fun d => p (curve.getD d .nan))).length := by
  conv => lhs; rw [← map_getD_range' curve .nan]
  rw [List.countP_map, List.countP_eq_length_filter]
  rfl

theorem lmin_mem (l : List Rat) (m : Rat) (h : lmin l = some m) : m ∈ l := by
  induction l generalizing m with
  | nil => simp [lmin] at h
  | cons x xs ih =>
    rw [lmin] at h
    cases hm : lmin xs with
    | none => rw [hm] at h; simp at h; simp [h]
    | some m' =>
      rw [hm] at h
      simp only [Option.some.injEq] at h
      by_cases hle : x ≤ m'
      · simp [hle] at h; simp [h]
      · simp [hle] at h; subst h; simp [ih m' hm]

theorem lmin_le (l : List Rat) (m : Rat) (h : lmin l = some m) : ∀ y ∈ l, m ≤ y := by
  induction l generalizing m with
  | nil => simp
  | cons x xs ih =>
    rw [lmin] at h
    cases hm : lmin xs with
    | none =>
      rw [hm] at h; simp at h; subst h
      have : xs = [] := (lmin_eq_none xs).1 hm
      subst this; simp
    | some m' =>
      rw [hm] at h
      simp only [Option.some.injEq] at h
      intro y hy
      have hm' := ih m' hm
      by_cases hle : x ≤ m'
      · simp [hle] at h; subst h
        rcases List.mem_cons.1 hy with rfl | hy
        · exact le_refl _
        · exact le_trans hle (hm' y hy)
      · simp [hle] at h; subst h
        rcases List.mem_cons.1 hy with rfl | hy
        · exact le_of_lt (not_le.1 hle)
        · exact hm' y hy

theorem mem_numsOf (l : List Val) (q : Rat) : q ∈ numsOf l ↔ Val.num q ∈ l := by
  induction l with
  | nil => simp [numsOf]
  | cons c l ih =>
    cases c with
    | nan => simpa [numsOf] using ih
    | num r =>
      simp only [numsOf, List.filterMap_cons, List.mem_cons] at ih ⊢
      constructor
      · rintro (h | h)
        · left; rw [h]
        · right; exact ih.1 h
      · rintro (h | h)
        · left; injection h
        · right; exact ih.2 h

/-- with non-negative samples the pixel's best disparity is always within eta: the index sets are non-empty -/
theorem idxWithin_ne_nil (mn mx : Rat) (curve : Curve) (m e : Rat) (hm : lmin (numsOf curve) = some m) (he : 0 ≤ e) :
    (List.range curve.length).filter (fun d => Spec.within false mn mx m e (curve.getD d .nan)) ≠ [] := by
  have hmem : Val.num m ∈ curve := (mem_numsOf curve m).1 (lmin_mem _ _ hm)
  obtain ⟨i, hi, hget⟩ := List.getElem_of_mem hmem
  intro hnil
  have : i ∈ (List.range curve.length).filter (fun d => Spec.within false mn mx m e (curve.getD d .nan)) := by
    rw [List.mem_filter]
    refine ⟨by simpa using hi, ?_⟩
    simp only [List.getD_eq_getElem?_getD, List.getElem?_eq_getElem hi, Option.getD_some, hget, Spec.within]
    simp
    linarith
  rw [hnil] at this
  simp at this

theorem nanMean_some (l : List Rat) (h : l ≠ []) :
    nanMean (l.map some) = Val.num (sumRat l / (l.length : Rat)) := by
  unfold nanMean
  have : (l.map some).filterMap id = l := by
    induction l with
    | nil => rfl
    | cons x xs ih => simp
  simp only [this]
  cases l with
  | nil => exact absurd rfl h
  | cons x xs => simp

def riskVals : Option (Rat × Rat) → Val × Val
  | some (a, b) => (.num a, .num b)
  | none => (.nan, .nan)

/-- **risk_def** (pixel level, `min` measure): `compute_risk` returns the eta-means of the disparity
    spread and of `1 + spread − count`, NaN for a pixel without finite cost — for every curve, every
    non-empty grid of non-negative samples -/
theorem pixelRisk_spec (mn mx : Rat) (etas : List Rat) (curve : Curve) (hne : mx ≠ mn)
    (hpos : ∀ e ∈ etas, 0 ≤ e) (hetas : etas ≠ []) :
    pixelRisk mn mx etas curve (pixelSampled mn mx etas curve) = riskVals (Spec.risk false mn mx etas curve) := by
  rw [pixelSampled_spec mn mx etas curve hne]
  unfold pixelRisk pixelBest Spec.risk Spec.best
  simp only [Bool.false_eq_true, if_false]
  cases hm : lmin (numsOf curve) with
  | none => simp [riskVals]
  | some m =>
    simp only [hne, if_false]
    have hnd : 0 < curve.length := by
      have hmem : Val.num m ∈ curve := (mem_numsOf curve m).1 (lmin_mem _ _ hm)
      exact List.length_pos_of_mem hmem
    rw [riskColumns mn mx etas curve m hnd]
    have hidx : ∀ e, Spec.idxWithin false mn mx curve e
        = (List.range curve.length).filter (fun d => Spec.within false mn mx m e (curve.getD d .nan)) := by
      intro e
      unfold Spec.idxWithin Spec.best
      simp [hm]
    have hsp : (etas.map (fun e => (List.range curve.length).filter (fun d =>
          Spec.within false mn mx m e (curve.getD d .nan)))).map spreadOpt
        = etas.map (fun e => some (Spec.spread (Spec.idxWithin false mn mx curve e))) := by
      rw [List.map_map]
      apply List.map_congr_left
      intro e he
      simp only [Function.comp]
      rw [spreadOpt_eq _ (pairwise_filter_range _ _) (idxWithin_ne_nil mn mx curve m e hm (hpos e he)), hidx e]
    rw [hsp]
    have hcount : ∀ e, (Spec.ambAt false mn mx curve e : Nat) = (Spec.idxWithin false mn mx curve e).length := by
      intro e
      unfold Spec.ambAt Spec.idxWithin
      exact countP_eq_length_filter_range curve _
    rw [zipWith_map_map]
    simp only [Option.map_some, hcount]
    have e1 : etas.map (fun e => some (Spec.spread (Spec.idxWithin false mn mx curve e)))
        = (etas.map (fun e => Spec.spread (Spec.idxWithin false mn mx curve e))).map some := by
      rw [List.map_map]; rfl
    have e2 : etas.map (fun e => some (1 + Spec.spread (Spec.idxWithin false mn mx curve e)
          - ((Spec.idxWithin false mn mx curve e).length : Rat)))
        = (etas.map (fun e => 1 + Spec.spread (Spec.idxWithin false mn mx curve e)
          - ((Spec.idxWithin false mn mx curve e).length : Rat))).map some := by
      rw [List.map_map]; rfl
    rw [e1, e2, nanMean_some _ (by simpa using hetas), nanMean_some _ (by simpa using hetas)]
    simp only [riskVals, Spec.mean, List.map_map, List.length_map]
    rfl

/-! ### `0 ≤ risk_min ≤ risk_max` -/

theorem spread_bounds (l : List Nat) (hs : l.Pairwise (· < ·)) (hne : l ≠ []) :
    0 ≤ 1 + Spec.spread l - (l.length : Rat) ∧ 1 + Spec.spread l - (l.length : Rat) ≤ Spec.spread l := by
  cases l with
  | nil => exact absurd rfl hne
  | cons x xs =>
    have hlast : (x :: xs).getLast? = some ((x :: xs).getLast (by simp)) := List.getLast?_eq_some_getLast (by simp)
    have hspan := card_le_span (x :: xs) hs x _ (by simp) hlast
    have hsp : Spec.spread (x :: xs) = (((x :: xs).getLast (by simp) : Nat) : Rat) - (x : Rat) := by
      unfold Spec.spread; rw [hlast]; simp
    rw [hsp]
    have h1 : (((x :: xs).length + x : Nat) : Rat) ≤ (((x :: xs).getLast (by simp) + 1 : Nat) : Rat) := by
      exact_mod_cast hspan
    have h2 : (1 : Rat) ≤ ((x :: xs).length : Rat) := by
      have : 1 ≤ (x :: xs).length := by simp
      exact_mod_cast this
    push_cast at h1
    constructor <;> linarith

theorem sumRat_map_le {ι} (l : List ι) (f g : ι → Rat) (h : ∀ x ∈ l, f x ≤ g x) :
    sumRat (l.map f) ≤ sumRat (l.map g) := by
  induction l with
  | nil => simp [sumRat]
  | cons x xs ih =>
    simp only [sumRat, List.map_cons, List.foldr_cons] at ih ⊢
    have := h x (by simp)
    have := ih (fun y hy => h y (by simp [hy]))
    linarith

theorem sumRat_map_nonneg {ι} (l : List ι) (f : ι → Rat) (h : ∀ x ∈ l, 0 ≤ f x) : 0 ≤ sumRat (l.map f) := by
  induction l with
  | nil => simp [sumRat]
  | cons x xs ih =>
    simp only [sumRat, List.map_cons, List.foldr_cons] at ih ⊢
    have := h x (by simp)
    have := ih (fun y hy => h y (by simp [hy]))
    linarith

/-- **risk_order** on the specification: `0 ≤ risk_min ≤ risk_max` -/
theorem risk_order_spec (mn mx : Rat) (etas : List Rat) (curve : Curve) (hpos : ∀ e ∈ etas, 0 ≤ e)
    (a b : Rat) (h : Spec.risk false mn mx etas curve = some (a, b)) : 0 ≤ b ∧ b ≤ a := by
  unfold Spec.risk Spec.best at h
  simp only [Bool.false_eq_true, if_false] at h
  cases hm : lmin (numsOf curve) with
  | none => rw [hm] at h; simp at h
  | some m =>
    rw [hm] at h
    simp only [Option.some.injEq, Prod.mk.injEq] at h
    obtain ⟨ha, hb⟩ := h
    have hidx : ∀ e, Spec.idxWithin false mn mx curve e
        = (List.range curve.length).filter (fun d => Spec.within false mn mx m e (curve.getD d .nan)) := by
      intro e
      unfold Spec.idxWithin Spec.best
      simp [hm]
    have hterm : ∀ e ∈ etas,
        0 ≤ 1 + Spec.spread (Spec.idxWithin false mn mx curve e) - ((Spec.idxWithin false mn mx curve e).length : Rat)
        ∧ 1 + Spec.spread (Spec.idxWithin false mn mx curve e) - ((Spec.idxWithin false mn mx curve e).length : Rat)
          ≤ Spec.spread (Spec.idxWithin false mn mx curve e) := by
      intro e he
      rw [hidx e]
      exact spread_bounds _ (pairwise_filter_range _ _) (idxWithin_ne_nil mn mx curve m e hm (hpos e he))
    subst ha hb
    unfold Spec.mean
    simp only [List.map_map, List.length_map]
    have hn : (0 : Rat) ≤ (etas.length : Rat) := by exact_mod_cast Nat.zero_le _
    constructor
    · apply div_nonneg _ hn
      exact sumRat_map_nonneg etas _ (fun e he => (hterm e he).1)
    · apply div_le_div_of_nonneg_right _ hn
      exact sumRat_map_le etas _ _ (fun e he => (hterm e he).2)

/-- **risk_order** on the model of `compute_risk`: wherever the kernel returns numbers,
    `0 ≤ risk_min ≤ risk_max` -/
theorem pixelRisk_order (mn mx : Rat) (etas : List Rat) (curve : Curve) (hne : mx ≠ mn)
    (hpos : ∀ e ∈ etas, 0 ≤ e) (hetas : etas ≠ []) (a b : Rat)
    (h : pixelRisk mn mx etas curve (pixelSampled mn mx etas curve) = (.num a, .num b)) : 0 ≤ b ∧ b ≤ a := by
  rw [pixelRisk_spec mn mx etas curve hne hpos hetas] at h
  cases hr : Spec.risk false mn mx etas curve with
  | none => rw [hr] at h; simp [riskVals] at h
  | some p =>
    obtain ⟨a', b'⟩ := p
    rw [hr] at h
    simp only [riskVals, Prod.mk.injEq, Val.num.injEq] at h
    obtain ⟨rfl, rfl⟩ := h
    exact risk_order_spec mn mx etas curve hpos a' b' hr

/-- the kernel returns NaN exactly for a pixel without finite cost -/
theorem pixelRisk_nan_iff (mn mx : Rat) (etas : List Rat) (curve : Curve) (hne : mx ≠ mn)
    (hpos : ∀ e ∈ etas, 0 ≤ e) (hetas : etas ≠ []) :
    (pixelRisk mn mx etas curve (pixelSampled mn mx etas curve)).1 = Val.nan ↔ ∀ c ∈ curve, c = Val.nan := by
  rw [pixelRisk_spec mn mx etas curve hne hpos hetas]
  unfold Spec.risk Spec.best
  simp only [Bool.false_eq_true, if_false]
  cases hm : lmin (numsOf curve) with
  | none =>
    simp only [riskVals, true_iff]
    exact (numsOf_nil_iff curve).1 ((lmin_eq_none _).1 hm)
  | some m =>
    simp only [riskVals]
    constructor
    · intro h; cases h
    · intro h
      have := (numsOf_nil_iff curve).2 h
      rw [this] at hm; simp [lmin] at hm

end Pandora.C12
