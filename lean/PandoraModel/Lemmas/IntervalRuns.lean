/-
  The segments of `interval_regularization` (C12's model: `leftBorders`, `rightBorders`, `borders`, paired
  globally by `zip` as `np.argwhere` lists them) are exactly the maximal runs of low-confidence pixels of
  each row: a pixel lies in a segment iff its entry of `confidentFlags` is `false`.

  Needs the last flag of every row to be `true` (the code forces the last column to 1, so this is
  `ambiguity_threshold ≤ 1`, which the schema of `median_for_intervals` enforces): then every row has as many
  left borders as right borders, and the global pairing is the row-by-row pairing.
-/
import PandoraModel.Model.FilterIntervals

namespace Pandora.IntervalRuns
open Pandora Pandora.Confidence Pandora.FilterIntervals

/-- last element, `d` on the empty list -/
def lastD : List Bool → Bool → Bool
  | [], d => d
  | f :: rest, _ => lastD rest f

/-- some pair `(l, r)` of the row-wise pairing has `l ≤ c ≤ r` -/
def cover (ls rs : List Nat) (c : Nat) : Bool := (ls.zip rs).any fun p => decide (p.1 ≤ c) && decide (c ≤ p.2)

/-- position `c` of the flags that start at column `j` holds `false` -/
def inFalse (j : Nat) (fs : List Bool) (c : Nat) : Prop := j ≤ c ∧ fs[c - j]? = some false

/-- 1 for an open run -/
def openRun : Bool → Nat
  | true => 0
  | false => 1

/-- as many left borders as right borders, up to the run open at the start and the run open at the end -/
theorem borders_length : ∀ (fs : List Bool) (prev : Bool) (j : Nat),
    (leftBorders prev j fs).length + openRun prev = (rightBorders prev j fs).length + openRun (lastD fs prev) := by
  intro fs
  induction fs with
  | nil => intro prev j; simp [leftBorders, rightBorders, lastD]
  | cons f rest ih =>
    intro prev j
    have := ih f (j + 1)
    simp only [leftBorders, rightBorders, lastD, List.length_append]
    cases prev <;> cases f <;> simp [openRun] at this ⊢ <;> omega

theorem inFalse_cons_true (j : Nat) (rest : List Bool) (c : Nat) :
    inFalse j (true :: rest) c ↔ inFalse (j + 1) rest c := by
  unfold inFalse
  constructor
  · intro ⟨h1, h2⟩
    have hne : c ≠ j := by
      intro e; subst e; simp at h2
    have h3 : c - j = (c - (j + 1)) + 1 := by omega
    rw [h3, List.getElem?_cons_succ] at h2
    exact ⟨by omega, h2⟩
  · intro ⟨h1, h2⟩
    have h3 : c - j = (c - (j + 1)) + 1 := by omega
    refine ⟨by omega, ?_⟩
    rw [h3, List.getElem?_cons_succ]; exact h2

theorem inFalse_cons_false (j : Nat) (rest : List Bool) (c : Nat) :
    inFalse j (false :: rest) c ↔ c = j ∨ inFalse (j + 1) rest c := by
  unfold inFalse
  constructor
  · intro ⟨h1, h2⟩
    by_cases e : c = j
    · exact Or.inl e
    · right
      have h3 : c - j = (c - (j + 1)) + 1 := by omega
      rw [h3, List.getElem?_cons_succ] at h2
      exact ⟨by omega, h2⟩
  · intro h
    rcases h with e | ⟨h1, h2⟩
    · subst e; simp
    · have h3 : c - j = (c - (j + 1)) + 1 := by omega
      refine ⟨by omega, ?_⟩
      rw [h3, List.getElem?_cons_succ]; exact h2

/-- **the row-wise pairing covers exactly the `false` positions** (all runs closed: the last flag is `true`);
    with a run open since column `j0`, that run is covered too -/
theorem cover_runs : ∀ (fs : List Bool) (prev : Bool) (j j0 c : Nat), lastD fs prev = true →
    (prev = true → (cover (leftBorders true j fs) (rightBorders true j fs) c = true ↔ inFalse j fs c)) ∧
    (prev = false → 1 ≤ j → j0 ≤ j →
      (cover (j0 :: leftBorders false j fs) (rightBorders false j fs) c = true ↔ (j0 ≤ c ∧ c < j) ∨ inFalse j fs c)) := by
  intro fs
  induction fs with
  | nil =>
    intro prev j j0 c hl
    simp only [lastD] at hl
    subst hl
    refine ⟨fun _ => ?_, fun h => by cases h⟩
    simp [leftBorders, rightBorders, cover, inFalse]
  | cons f rest ih =>
    intro prev j j0 c hl
    simp only [lastD] at hl
    constructor
    · intro _
      cases f with
      | true =>
        have := (ih true (j + 1) j0 c hl).1 rfl
        simp only [leftBorders, rightBorders, Bool.and_false, Bool.not_true, Bool.false_and, Bool.false_eq_true,
          if_false, List.nil_append]
        rw [this, inFalse_cons_true]
      | false =>
        have := (ih false (j + 1) j c hl).2 rfl (by omega) (by omega)
        simp only [leftBorders, rightBorders, Bool.not_false, Bool.and_true, Bool.not_true, Bool.false_and,
          Bool.false_eq_true, if_false, if_true, List.nil_append, List.singleton_append]
        rw [this, inFalse_cons_false]
        constructor
        · rintro (⟨h1, h2⟩ | h)
          · exact Or.inl (by omega)
          · exact Or.inr h
        · rintro (h | h)
          · exact Or.inl (by omega)
          · exact Or.inr h
    · intro _ hj hj0
      cases f with
      | false =>
        have := (ih false (j + 1) j0 c hl).2 rfl (by omega) (by omega)
        simp only [leftBorders, rightBorders, Bool.false_and, Bool.and_false, Bool.false_eq_true, if_false,
          List.nil_append]
        rw [this, inFalse_cons_false]
        constructor
        · rintro (⟨h1, h2⟩ | h)
          · by_cases e : c = j
            · exact Or.inr (Or.inl e)
            · exact Or.inl ⟨h1, by omega⟩
          · exact Or.inr (Or.inr h)
        · rintro (⟨h1, h2⟩ | h | h)
          · exact Or.inl ⟨h1, by omega⟩
          · exact Or.inl (by omega)
          · exact Or.inr h
      | true =>
        have := (ih true (j + 1) j0 c hl).1 rfl
        simp only [leftBorders, rightBorders, Bool.false_and, Bool.not_false, Bool.true_and, Bool.false_eq_true,
          if_false, if_true, List.nil_append, List.singleton_append]
        have hc : cover (j0 :: leftBorders true (j + 1) rest) ((j - 1) :: rightBorders true (j + 1) rest) c =
            ((decide (j0 ≤ c) && decide (c ≤ j - 1)) || cover (leftBorders true (j + 1) rest) (rightBorders true (j + 1) rest) c) := by
          simp [cover]
        rw [hc, Bool.or_eq_true, this, inFalse_cons_true]
        simp only [Bool.and_eq_true, decide_eq_true_eq]
        constructor
        · rintro (⟨h1, h2⟩ | h)
          · exact Or.inl ⟨h1, by omega⟩
          · exact Or.inr h
        · rintro (⟨h1, h2⟩ | h)
          · exact Or.inl ⟨h1, by omega⟩
          · exact Or.inr h

/-- the flags of a row end with `true` when the threshold is at most 1 -/
theorem confidentFlags_last (thr : Rat) (k : Nat) (row : List Val) (hthr : thr ≤ 1) :
    lastD (confidentFlags thr k row) true = true := by
  have key : ∀ (l : List Bool) (d : Bool), lastD (l ++ [true]) d = true := by
    intro l
    induction l with
    | nil => intro d; rfl
    | cons x xs ih => intro d; exact ih x
  unfold confidentFlags
  by_cases he : (slidingNanMin k row).isEmpty = true
  · have hnil : slidingNanMin k row = [] := List.isEmpty_iff.mp he
    simp [hnil, lastD]
  · simp only [he, Bool.false_eq_true, if_false, hthr, decide_true]
    exact key _ _

theorem zip_flatMap {α β γ} (f : α → List β) (g : α → List γ) :
    ∀ (xs : List α), (∀ x ∈ xs, (f x).length = (g x).length) →
      (xs.flatMap f).zip (xs.flatMap g) = xs.flatMap (fun x => (f x).zip (g x)) := by
  intro xs
  induction xs with
  | nil => intro _; rfl
  | cons x rest ih =>
    intro h
    simp only [List.flatMap_cons]
    rw [List.zip_append (h x (by simp)), ih (fun y hy => h y (by simp [hy]))]

/-- **a pixel lies in a segment of C12's model iff its row's confidence flag is `false`** — the flag being
    "the minimum of the confidence-from-ambiguity over the kernel window (image padded with ones) reaches the
    threshold", forced to `true` in the last column -/
theorem inSegments_iff (thr : Rat) (k : Nat) (amb : Grid Val) (hthr : thr ≤ 1) (r c : Nat) :
    inSegments (segments thr k amb) r c = true ↔
      ∃ row, amb[r]? = some row ∧ (confidentFlags thr k row)[c]? = some false := by
  have hlen : ∀ x ∈ amb.zipIdx,
      ((leftBorders true 0 (confidentFlags thr k x.1)).map (fun c => (x.2, c))).length =
      ((rightBorders true 0 (confidentFlags thr k x.1)).map (fun c => (x.2, c))).length := by
    intro x _
    have := borders_length (confidentFlags thr k x.1) true 0
    rw [confidentFlags_last thr k x.1 hthr] at this
    simpa [openRun] using this
  have hseg : segments thr k amb = amb.zipIdx.flatMap (fun x =>
      ((leftBorders true 0 (confidentFlags thr k x.1)).map (fun c => (x.2, c))).zip
        ((rightBorders true 0 (confidentFlags thr k x.1)).map (fun c => (x.2, c)))) := by
    unfold segments borders
    exact zip_flatMap _ _ _ hlen
  rw [hseg]
  simp only [inSegments, List.any_flatMap, List.any_eq_true]
  constructor
  · rintro ⟨x, hx, p, hp, hcond⟩
    obtain ⟨row, i⟩ := x
    have hrow : amb[i]? = some row := by
      rw [List.mem_zipIdx_iff_getElem?] at hx
      simpa using hx
    rw [List.zip_map, List.mem_map] at hp
    obtain ⟨q, hq, rfl⟩ := hp
    simp only [Prod.map, Bool.and_eq_true, decide_eq_true_eq] at hcond
    obtain ⟨⟨e1, e2⟩, e3⟩ := hcond
    subst e1
    refine ⟨row, hrow, ?_⟩
    have hcov : cover (leftBorders true 0 (confidentFlags thr k row)) (rightBorders true 0 (confidentFlags thr k row)) c = true := by
      simp only [cover, List.any_eq_true, Bool.and_eq_true, decide_eq_true_eq]
      exact ⟨q, hq, e2, e3⟩
    have := ((cover_runs (confidentFlags thr k row) true 0 0 c (confidentFlags_last thr k row hthr)).1 rfl).1 hcov
    simpa [inFalse] using this.2
  · rintro ⟨row, hrow, hf⟩
    have hx : (row, r) ∈ amb.zipIdx := by
      rw [List.mem_zipIdx_iff_getElem?]
      simpa using hrow
    have hcov := ((cover_runs (confidentFlags thr k row) true 0 0 c (confidentFlags_last thr k row hthr)).1 rfl).2
      ⟨Nat.zero_le _, by simpa using hf⟩
    simp only [cover, List.any_eq_true, Bool.and_eq_true, decide_eq_true_eq] at hcov
    obtain ⟨q, hq, e2, e3⟩ := hcov
    refine ⟨(row, r), hx, ((r, q.1), (r, q.2)), ?_, by simp [e2, e3]⟩
    rw [List.zip_map, List.mem_map]
    exact ⟨q, hq, rfl⟩

end Pandora.IntervalRuns
