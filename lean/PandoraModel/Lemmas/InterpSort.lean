/- Sorting / median / order-statistic lemmas for C14. -/
import PandoraModel.Model.Interp
import Mathlib.Tactic.Linarith
import Mathlib.Algebra.Order.Field.Rat

namespace Pandora.Interp
open Pandora

/-! ### insertion sort: permutation, sortedness -/

theorem ins_perm {α} (le : α → α → Bool) (x : α) (l : List α) : (ins le x l).Perm (x :: l) := by
  induction l with
  | nil => simp [ins]
  | cons y t ih =>
    unfold ins
    split
    · exact List.Perm.refl _
    · exact (List.Perm.cons y ih).trans (List.Perm.swap x y t)

theorem isort_perm {α} (le : α → α → Bool) (l : List α) : (isort le l).Perm l := by
  induction l with
  | nil => simp [isort]
  | cons x t ih => exact (ins_perm le x _).trans (List.Perm.cons x ih)

theorem length_isort {α} (le : α → α → Bool) (l : List α) : (isort le l).length = l.length :=
  (isort_perm le l).length_eq

theorem mem_isort {α} (le : α → α → Bool) (l : List α) (x : α) : x ∈ isort le l ↔ x ∈ l :=
  (isort_perm le l).mem_iff

theorem ins_pairwise {α} (le : α → α → Bool) (tot : ∀ a b, le a b = true ∨ le b a = true)
    (tr : ∀ a b c, le a b = true → le b c = true → le a c = true) (x : α) (l : List α)
    (h : l.Pairwise fun a b => le a b = true) : (ins le x l).Pairwise fun a b => le a b = true := by
  induction l with
  | nil => simp [ins]
  | cons y t ih =>
    rw [List.pairwise_cons] at h
    unfold ins
    split
    · rename_i hxy
      rw [List.pairwise_cons]
      refine ⟨?_, List.pairwise_cons.mpr h⟩
      intro z hz
      rcases List.mem_cons.mp hz with rfl | hz
      · exact hxy
      · exact tr _ _ _ hxy (h.1 z hz)
    · rename_i hxy
      rw [List.pairwise_cons]
      refine ⟨?_, ih h.2⟩
      intro z hz
      rcases List.mem_cons.mp ((ins_perm le x t).mem_iff.mp hz) with rfl | hz
      · rcases tot z y with h1 | h1
        · exact absurd h1 hxy
        · exact h1
      · exact h.1 z hz

theorem isort_pairwise {α} (le : α → α → Bool) (tot : ∀ a b, le a b = true ∨ le b a = true)
    (tr : ∀ a b c, le a b = true → le b c = true → le a c = true) (l : List α) :
    (isort le l).Pairwise fun a b => le a b = true := by
  induction l with
  | nil => simp [isort]
  | cons x t ih => exact ins_pairwise le tot tr x _ ih

/-! ### non-NaN entries -/

def numOf : Val → Option Rat
  | .num q => some q
  | .nan => none

theorem nums_eq_filterMap (l : List Val) : nums l = l.filterMap numOf := by
  induction l with
  | nil => rfl
  | cons v t ih =>
    cases v with
    | nan => rw [List.filterMap_cons]; simp [nums, numOf, ih]
    | num q => rw [List.filterMap_cons]; simp [nums, numOf, ih]

theorem mem_nums {l : List Val} {q : Rat} : q ∈ nums l ↔ Val.num q ∈ l := by
  rw [nums_eq_filterMap, List.mem_filterMap]
  constructor
  · rintro ⟨v, hv, h⟩; cases v <;> simp [numOf] at h; subst h; exact hv
  · intro h; exact ⟨_, h, rfl⟩

theorem nums_perm {l l' : List Val} (h : l.Perm l') : (nums l).Perm (nums l') := by
  rw [nums_eq_filterMap, nums_eq_filterMap]; exact h.filterMap _

theorem nums_length_le (l : List Val) : (nums l).length ≤ l.length := by
  rw [nums_eq_filterMap]; exact List.length_filterMap_le _ _

/-- `[f d or NaN | d ∈ ds]` and `[f d | d ∈ ds, f d defined]` have the same numbers -/
theorem nums_map_getD {α} (f : α → Option Val) (ds : List α) :
    nums (ds.map fun d => (f d).getD .nan) = nums (ds.filterMap f) := by
  induction ds with
  | nil => rfl
  | cons d t ih =>
    rw [List.map_cons, List.filterMap_cons]
    cases hf : f d with
    | none => simp [nums, ih]
    | some v => cases v <;> simp [nums, ih]

/-! ### median -/

theorem median_eq_nan_iff (l : List Rat) : median l = .nan ↔ l = [] := by
  unfold median medianSorted
  rw [length_isort]
  constructor
  · intro h
    by_cases h0 : l.length = 0
    · exact List.length_eq_zero_iff.mp h0
    · simp only [h0, if_false] at h
      split at h <;> cases h
  · intro h; subst h; simp

theorem getD_mem {α} (l : List α) (i : Nat) (d : α) (h : i < l.length) : l.getD i d ∈ l := by
  rw [List.getD_eq_getElem?_getD, List.getElem?_eq_getElem h]; exact List.getElem_mem h

/-- the median of a non-empty list lies between two of its entries -/
theorem median_between {l : List Rat} {q : Rat} (h : median l = .num q) :
    ∃ a ∈ l, ∃ b ∈ l, a ≤ q ∧ q ≤ b := by
  unfold median medianSorted at h
  rw [length_isort] at h
  by_cases h0 : l.length = 0
  · simp [h0] at h
  · simp only [h0, if_false] at h
    have hn : 0 < l.length := Nat.pos_of_ne_zero h0
    split at h
    · -- odd
      have hq : q = (isort leRat l).getD (l.length / 2) 0 := by cases h; rfl
      have hm : q ∈ l := by
        rw [hq, ← mem_isort leRat]; apply getD_mem; rw [length_isort]; omega
      exact ⟨q, hm, q, hm, le_refl _, le_refl _⟩
    · -- even
      rename_i hodd
      have hq : q = ((isort leRat l).getD (l.length / 2 - 1) 0 + (isort leRat l).getD (l.length / 2) 0) / 2 := by
        cases h; rfl
      have hx : (isort leRat l).getD (l.length / 2 - 1) 0 ∈ l := by
        rw [← mem_isort leRat]; apply getD_mem; rw [length_isort]; omega
      have hy : (isort leRat l).getD (l.length / 2) 0 ∈ l := by
        rw [← mem_isort leRat]; apply getD_mem; rw [length_isort]; omega
      generalize (isort leRat l).getD (l.length / 2 - 1) 0 = x at hq hx
      generalize (isort leRat l).getD (l.length / 2) 0 = y at hq hy
      rcases le_total x y with hxy | hxy
      · exact ⟨x, hx, y, hy, by rw [hq]; linarith, by rw [hq]; linarith⟩
      · exact ⟨y, hy, x, hx, by rw [hq]; linarith, by rw [hq]; linarith⟩

/-! ### second lowest absolute value -/

theorem absLe_total (a b : Val) : absLe a b = true ∨ absLe b a = true := by
  cases a <;> cases b <;> simp [absLe]
  exact le_total _ _

theorem absLe_trans (a b c : Val) (h1 : absLe a b = true) (h2 : absLe b c = true) : absLe a c = true := by
  cases a <;> cases b <;> cases c <;> simp_all [absLe]
  exact le_trans h1 h2

/-- With at least two finite entries, the entry picked by `argsort(|·|)[1]` is finite and is an entry of
    second-lowest absolute value among the finite ones. -/
theorem secondLowestAbs_spec (vn : List Val) (h2 : 2 ≤ (nums vn).length) :
    ∃ q, secondLowestAbs vn = .num q ∧ isSecondLowestAbs (nums vn) q = true := by
  have hperm := isort_perm absLe vn
  have hsorted := isort_pairwise absLe absLe_total absLe_trans vn
  have hlen : 2 ≤ (nums (isort absLe vn)).length := by rw [(nums_perm hperm).length_eq]; exact h2
  unfold secondLowestAbs
  generalize isort absLe vn = s at hperm hsorted hlen
  match s, hsorted, hlen, hperm with
  | [], _, hlen, _ => simp [nums] at hlen
  | [x], _, hlen, _ => have := nums_length_le [x]; simp at this; omega
  | x :: y :: rest, hsorted, hlen, hperm =>
    rw [List.pairwise_cons, List.pairwise_cons] at hsorted
    obtain ⟨hx, hy, _⟩ := hsorted
    have hrest_nan : y = .nan → nums rest = [] := by
      intro hyn
      rw [nums_eq_filterMap, List.filterMap_eq_nil_iff]
      intro z hz
      have := hy z hz
      rw [hyn] at this
      cases z <;> simp_all [absLe, numOf]
    cases y with
    | nan =>
      exfalso
      have hr := hrest_nan rfl
      cases x <;> simp [nums, hr] at hlen
    | num q =>
      have hxq := hx (.num q) (List.mem_cons_self)
      cases x with
      | nan => simp [absLe] at hxq
      | num p =>
        simp only [absLe, decide_eq_true_eq] at hxq
        refine ⟨q, by simp, ?_⟩
        have hrest : ∀ t ∈ nums rest, absQ q ≤ absQ t := by
          intro t ht
          have := hy (.num t) (mem_nums.mp ht)
          simpa [absLe] using this
        have hnums : nums (.num p :: .num q :: rest) = p :: q :: nums rest := by simp [nums]
        have hp := nums_perm hperm
        rw [hnums] at hp
        unfold isSecondLowestAbs
        rw [← hp.countP_eq, ← hp.countP_eq]
        have hc : (List.contains (nums vn) q) = true := by
          rw [List.contains_iff_mem]; exact hp.mem_iff.mp (by simp)
        have hzero : List.countP (fun y => decide (absQ y < absQ q)) (nums rest) = 0 := by
          rw [List.countP_eq_zero]; intro t ht
          have := hrest t ht
          simp only [decide_eq_true_eq]; exact not_lt.mpr this
        simp only [hc, Bool.true_and, Bool.and_eq_true, decide_eq_true_eq]
        constructor
        · rw [List.countP_cons, List.countP_cons, hzero]
          have : ¬ absQ q < absQ q := lt_irrefl _
          simp only [this, decide_false, Bool.false_eq_true, if_false]
          split <;> omega
        · rw [List.countP_cons, List.countP_cons]
          have h1 : absQ q ≤ absQ q := le_refl _
          simp only [hxq, h1, decide_true, if_true]
          omega

end Pandora.Interp
