/-
  `cv_masked`: the loop over the disparities touches plane `dsp` only; the dilated masks are NaN exactly on
  invalid centres and on windows holding a nodata pixel; together with the per-pixel interval masking the
  result is the cell the specification prescribes.
-/
import PandoraModel.Lemmas.MCZncc

namespace Pandora.MC

open Pandora

/-! ### the first loop of `cv_masked` -/

theorem step_other (x : Input) (gmin : Int) (cv : Volume) (k r c : Int) (j : Nat)
    (hj : j ≠ (k - gmin * (x.sp : Int)).toNat) : cvMaskedStep x gmin cv k r c j = cv r c j := by
  unfold cvMaskedStep
  simp only
  rw [if_neg (fun h => hj h.1)]

theorem step_local (x : Input) (gmin : Int) (cv cv' : Volume) (k r c : Int) (j : Nat)
    (h : cv r c j = cv' r c j) : cvMaskedStep x gmin cv k r c j = cvMaskedStep x gmin cv' k r c j := by
  unfold cvMaskedStep
  simp only
  rw [h]

/-- after the loop over `gmin·sp, gmin·sp + 1, …` plane `j` has been updated once, by disparity `gmin·sp + j` -/
theorem fold_steps (x : Input) (gmin : Int) (raw : Volume) (n : Nat) (r c : Int) (j : Nat) :
    (((List.range n).map (fun (i : Nat) => gmin * (x.sp : Int) + (i : Int))).foldl (cvMaskedStep x gmin) raw) r c j
      = if j < n then cvMaskedStep x gmin raw (gmin * (x.sp : Int) + j) r c j else raw r c j := by
  induction n with
  | zero => simp
  | succ n ih =>
    rw [List.range_succ, List.map_append, List.foldl_append]
    simp only [List.map_cons, List.map_nil, List.foldl_cons, List.foldl_nil]
    by_cases hjn : j = n
    · subst hjn
      rw [if_pos (Nat.lt_succ_self j)]
      apply step_local
      rw [ih, if_neg (Nat.lt_irrefl j)]
    · have hne : j ≠ (gmin * (x.sp : Int) + (n : Int) - gmin * (x.sp : Int)).toNat := by
        have : (gmin * (x.sp : Int) + (n : Int) - gmin * (x.sp : Int)).toNat = n := by omega
        rw [this]; exact hjn
      rw [step_other x gmin _ _ r c j hne, ih]
      by_cases hlt : j < n
      · rw [if_pos hlt, if_pos (Nat.lt_succ_of_lt hlt)]
      · rw [if_neg hlt, if_neg (by omega)]

/-! ### the dilated masks -/

theorem winAll_iff (o : Nat) (f : Int → Int → Bool) (r c : Int) :
    winAll o f r c = true ↔
      ∀ a b : Int, r - o ≤ a → a < r - o + (2 * o + 1 : Nat) → c - o ≤ b → b < c - o + (2 * o + 1 : Nat) → f a b = true := by
  unfold winAll
  rw [allZ_iff_int]
  constructor
  · intro h a b h1 h2 h3 h4
    exact (allZ_iff_int _ _ _).mp (h a h1 h2) b h3 h4
  · intro h a h1 h2
    exact (allZ_iff_int _ _ _).mpr (fun b h3 h4 => h a b h1 h2 h3 h4)

theorem dilated_iff (o rows cols : Nat) (m : Mask) (r c : Int)
    (hin : (o : Int) ≤ r ∧ r + o < rows ∧ (o : Int) ≤ c ∧ c + o < cols) :
    dilated (2 * o + 1) rows cols m r c = true ↔
      ∃ a b : Int, r - o ≤ a ∧ a < r - o + (2 * o + 1 : Nat) ∧ c - o ≤ b ∧ b < c - o + (2 * o + 1 : Nat) ∧ m.code a b = m.nodata := by
  unfold dilated
  have ho : half (2 * o + 1) = o := by unfold half; omega
  simp only [ho]
  rw [anyZ_iff_int]
  constructor
  · rintro ⟨a, h1, h2, h⟩
    obtain ⟨b, h3, h4, hb⟩ := (anyZ_iff_int _ _ _).mp h
    simp only [Bool.and_eq_true, decide_eq_true_eq] at hb
    exact ⟨a, b, h1, h2, h3, h4, hb.2⟩
  · rintro ⟨a, b, h1, h2, h3, h4, hb⟩
    refine ⟨a, h1, h2, (anyZ_iff_int _ _ _).mpr ⟨b, h3, h4, ?_⟩⟩
    simp only [Bool.and_eq_true, decide_eq_true_eq]
    refine ⟨?_, hb⟩
    push_cast at h2 h4
    omega

/-- the mask value the statement prescribes for a centre whose window lies in the image -/
def maskOk (o : Nat) (m : Mask) (r c : Int) : Bool :=
  winAll o (fun a b => ! isNodata m a b) r c && ! isInvalid m r c

theorem maskRaster_eq (o rows cols : Nat) (m : Mask) (r c : Int)
    (hin : (o : Int) ≤ r ∧ r + o < rows ∧ (o : Int) ≤ c ∧ c + o < cols) :
    maskRaster (2 * o + 1) rows cols m r c = if maskOk o m r c = true then Val.num 0 else Val.nan := by
  unfold maskRaster maskOk
  by_cases hp : m.present = true
  · simp only [hp, if_true]
    by_cases hd : dilated (2 * o + 1) rows cols m r c = true
    · have hw : winAll o (fun a b => ! isNodata m a b) r c = false := by
        obtain ⟨a, b, h1, h2, h3, h4, hb⟩ := (dilated_iff o rows cols m r c hin).mp hd
        by_contra hne
        have hall := (winAll_iff o _ r c).mp (by simpa using hne) a b h1 h2 h3 h4
        simp [isNodata, hp, hb] at hall
      simp [hd, hw]
    · have hw : winAll o (fun a b => ! isNodata m a b) r c = true := by
        rw [winAll_iff]
        intro a b h1 h2 h3 h4
        by_contra hne
        apply hd
        rw [dilated_iff o rows cols m r c hin]
        refine ⟨a, b, h1, h2, h3, h4, ?_⟩
        simpa [isNodata, hp] using hne
      simp only [hd, hw, Bool.true_and]
      by_cases hi : isInvalid m r c = true
      · have : m.code r c ≠ m.valid ∧ m.code r c ≠ m.nodata := by
          simpa [isInvalid, hp] using hi
        simp [hi, this]
      · have : ¬ (m.code r c ≠ m.valid ∧ m.code r c ≠ m.nodata) := by
          intro hc; apply hi; simp [isInvalid, hp, hc.1, hc.2]
        simp [hi, this]
  · have hp' : m.present = false := by simpa using hp
    have hw : winAll o (fun a b => ! isNodata m a b) r c = true := by
      rw [winAll_iff]; intro a b _ _ _ _; simp [isNodata, hp']
    simp [hp', hw, isInvalid]

/-! ### what the statement asks of the masks, and when a cost is computable -/

/-- no nodata in the right window(s) and the right centre(s) not invalid; for a fractional disparity both
    interpolation neighbours `c + ⌊d⌋` and `c + ⌊d⌋ + 1` count -/
def maskOkR (x : Input) (r c k : Int) : Bool :=
  maskOk (half x.w) x.mR r (c + k / (x.sp : Int)) &&
    (decide (fracBit k x.sp = 0) || maskOk (half x.w) x.mR r (c + k / (x.sp : Int) + 1))

set_option linter.unusedSimpArgs false in
theorem cause_computable_iff (x : Input) (r c k : Int) :
    cause x r c k = .computable ↔
      (¬ (k < x.dminG r c * (x.sp : Int) ∨ k > x.dmaxG r c * (x.sp : Int))) ∧ LeftInside x r c ∧ RightInside x c k ∧
        maskOk (half x.w) x.mL r c = true ∧ maskOkR x r c k = true := by
  have hf0 := fracBit_nonneg k x.sp
  have hf1 := fracBit_le_one k x.sp
  unfold cause LeftInside RightInside maskOkR maskOk
  simp only
  have hfb : (if k % (x.sp : Int) = 0 then (0 : Int) else 1) = fracBit k x.sp := rfl
  simp only [hfb]
  generalize winAll (half x.w) (fun a b => !isNodata x.mL a b) r c = A
  generalize isInvalid x.mL r c = B
  generalize winAll (half x.w) (fun a b => !isNodata x.mR a b) r (c + k / (x.sp : Int)) = C
  generalize winAll (half x.w) (fun a b => !isNodata x.mR a b) r (c + k / (x.sp : Int) + 1) = E
  generalize isInvalid x.mR r (c + k / (x.sp : Int)) = F
  generalize isInvalid x.mR r (c + k / (x.sp : Int) + 1) = G
  by_cases h1 : (k < x.dminG r c * (x.sp : Int) ∨ k > x.dmaxG r c * (x.sp : Int))
  · simp [h1]
  · by_cases h2 : (((half x.w : Nat) : Int) ≤ r ∧ r + (half x.w : Nat) < x.L.rows ∧ ((half x.w : Nat) : Int) ≤ c ∧ c + (half x.w : Nat) < x.L.cols)
    · by_cases h3 : (((half x.w : Nat) : Int) ≤ c + k / (x.sp : Int) ∧ c + k / (x.sp : Int) + (half x.w : Nat) + fracBit k x.sp < x.R.cols)
      · rcases (by omega : fracBit k x.sp = 0 ∨ fracBit k x.sp = 1) with hfr | hfr
        · rw [hfr] at h3 ⊢
          simp only [add_zero] at h3
          have h3a : ¬ ((x.R.cols : Int) ≤ c + k / (x.sp : Int) + (half x.w : Nat)) := by omega
          cases A <;> cases B <;> cases C <;> cases E <;> cases F <;> cases G <;> simp [h1, h2, h3, h3a]
        · rw [hfr] at h3 ⊢
          have h3a : ¬ ((x.R.cols : Int) ≤ c + k / (x.sp : Int) + (half x.w : Nat) + 1) := by omega
          cases A <;> cases B <;> cases C <;> cases E <;> cases F <;> cases G <;> simp [h1, h2, h3, h3a]
      · simp [h1, h2, h3]
    · simp [h1, h2]

/-! ### one cell through `cv_masked` -/

/-- the computed planes are the textbook value inside both images, NaN elsewhere (proved per measure) -/
def RawOK (x : Input) (val : Int → Int → Int → Cell) : Prop :=
  ∀ k r c : Int, rawPlane x k r c = if LeftInside x r c ∧ RightInside x c k then val r c k else .nan

/-- the cell prescribed by the statement, for a given value function (`valueSpec x` is the textbook one) -/
def specCellWith (val : Int → Int → Int → Cell) (x : Input) (r c k : Int) : Cell :=
  if cause x r c k = .computable then val r c k else .nan

theorem specCell_eq_with (x : Input) (r c k : Int) : specCell x r c k = specCellWith (valueSpec x) x r c k := rfl

theorem addMask_nan (m : Val) : Cell.nan.addMask m = Cell.nan := by cases m <;> rfl

theorem val_zero_add_zero : (Val.num 0 + Val.num 0) = Val.num 0 := by
  show Val.num (0 + 0) = Val.num 0
  norm_num

theorem maskShift_eq (x : Input) (h : Shape x) (r c k : Int) (hl : LeftInside x r c) (hr : RightInside x c k) :
    maskShift x.w x.R.rows x.R.cols x.mR (min 1 (iRight k x.sp)) r (c + k / (x.sp : Int))
      = if maskOkR x r c k = true then Val.num 0 else Val.nan := by
  have hw := window_eq x h
  have hs := h.sp_pos
  have hf0 := fracBit_nonneg k x.sp
  have hf1 := fracBit_le_one k x.sp
  obtain ⟨hl1, hl2, hl3, hl4⟩ := hl
  obtain ⟨hr1, hr2⟩ := hr
  unfold maskShift maskOkR
  have hin0 : ((half x.w : Nat) : Int) ≤ r ∧ r + (half x.w : Nat) < x.R.rows ∧
      ((half x.w : Nat) : Int) ≤ c + k / (x.sp : Int) ∧ c + k / (x.sp : Int) + (half x.w : Nat) < x.R.cols := by
    rw [h.rows_eq]; omega
  have hm0 := maskRaster_eq (half x.w) x.R.rows x.R.cols x.mR r (c + k / (x.sp : Int)) hin0
  rw [← hw] at hm0
  rw [hm0]
  by_cases h0 : k % (x.sp : Int) = 0
  · have hi : iRight k x.sp = 0 := (iRight_eq_zero_iff k x.sp hs).mpr h0
    have hfr : fracBit k x.sp = 0 := by unfold fracBit; simp [h0]
    simp [hi, hfr]
  · have hi : iRight k x.sp ≠ 0 := fun hh => h0 ((iRight_eq_zero_iff k x.sp hs).mp hh)
    have hfr : fracBit k x.sp = 1 := by unfold fracBit; simp [h0]
    have hmin : min 1 (iRight k x.sp) ≠ 0 := by omega
    rw [if_neg hmin]
    have hin1 : ((half x.w : Nat) : Int) ≤ r ∧ r + (half x.w : Nat) < x.R.rows ∧
        ((half x.w : Nat) : Int) ≤ c + k / (x.sp : Int) + 1 ∧ c + k / (x.sp : Int) + 1 + (half x.w : Nat) < x.R.cols := by
      rw [h.rows_eq]; omega
    have hm1 := maskRaster_eq (half x.w) x.R.rows x.R.cols x.mR r (c + k / (x.sp : Int) + 1) hin1
    rw [← hw] at hm1
    rw [hm1, hfr]
    cases maskOk (half x.w) x.mR r (c + k / (x.sp : Int)) <;>
      cases maskOk (half x.w) x.mR r (c + k / (x.sp : Int) + 1) <;> simp

/-- the body of one iteration of the first loop of `cv_masked`, applied to the plane of its own disparity -/
theorem masked_cell (x : Input) (h : Shape x) (val : Int → Int → Int → Cell) (hraw : RawOK x val)
    (gmin : Int) (raw : Volume) (k r c : Int) (j : Nat)
    (hj : j = (k - gmin * (x.sp : Int)).toNat) (hrawj : raw r c j = rawPlane x k r c) :
    cvMaskedStep x gmin raw k r c j =
      if LeftInside x r c ∧ RightInside x c k ∧ maskOk (half x.w) x.mL r c = true ∧ maskOkR x r c k = true
      then val r c k else .nan := by
  have hw := window_eq x h
  have hs := h.sp_pos
  have hf0 := fracBit_nonneg k x.sp
  have hf1 := fracBit_le_one k x.sp
  set Rk := shiftRight x.R x.sp (iRight k x.sp) with hRk
  have hcolsR : ((Rk.cols : Nat) : Int) = (x.L.cols : Int) - fracBit k x.sp := by
    rw [hRk, shiftRight_cols x.R k x.sp hs (by rw [h.cols_eq]; exact h.cols_pos), h.cols_eq]
  have hclosed := pointInterval_closed (x.L.cols : Int) (Rk.cols : Int) k x.sp hs
  unfold cvMaskedStep
  simp only [← hRk]
  rw [hrawj, hraw k r c]
  by_cases hin : LeftInside x r c ∧ RightInside x c k
  · obtain ⟨hl, hr⟩ := hin
    have hl' := hl
    have hr' := hr
    obtain ⟨hl1, hl2, hl3, hl4⟩ := hl'
    obtain ⟨hr1, hr2⟩ := hr'
    rw [h.cols_eq] at hr2
    have hp : (pointInterval (x.L.cols : Int) (Rk.cols : Int) k x.sp).p0 ≤ c ∧ c < (pointInterval (x.L.cols : Int) (Rk.cols : Int) k x.sp).p1 := by
      rw [mem_p_iff _ _ k x.sp hs]; omega
    have hpne : (pointInterval (x.L.cols : Int) (Rk.cols : Int) k x.sp).p0 < (pointInterval (x.L.cols : Int) (Rk.cols : Int) k x.sp).p1 := by omega
    have hqne : (pointInterval (x.L.cols : Int) (Rk.cols : Int) k x.sp).q0 < (pointInterval (x.L.cols : Int) (Rk.cols : Int) k x.sp).q1 := by
      rw [hclosed]; simp only; rw [hcolsR]; omega
    rw [if_pos (show j = (k - gmin * (x.sp : Int)).toNat ∧ _ from ⟨hj, hpne, hp.1, hp.2⟩), if_pos hqne,
      q_of_p _ _ k x.sp hs c hp, if_pos (show LeftInside x r c ∧ RightInside x c k from ⟨hl, hr⟩)]
    have hinL : ((half x.w : Nat) : Int) ≤ r ∧ r + (half x.w : Nat) < x.L.rows ∧ ((half x.w : Nat) : Int) ≤ c ∧ c + (half x.w : Nat) < x.L.cols :=
      ⟨hl1, hl2, hl3, hl4⟩
    have hmL := maskRaster_eq (half x.w) x.L.rows x.L.cols x.mL r c hinL
    rw [← hw] at hmL
    rw [hmL, maskShift_eq x h r c k hl hr]
    cases maskOk (half x.w) x.mL r c <;> cases maskOkR x r c k <;> simp [hl, hr, Cell.addMask]
  · rw [if_neg hin]
    have : ¬ (LeftInside x r c ∧ RightInside x c k ∧ maskOk (half x.w) x.mL r c = true ∧ maskOkR x r c k = true) :=
      fun hc => hin ⟨hc.1, hc.2.1⟩
    rw [if_neg this]
    split
    · simp only [addMask_nan]
      split <;> simp
    · rfl

end Pandora.MC
