/-
  C12 — interval bounds: the kernel's possibility is `1 − |c − best| / (max − min)`, its bounds are the
  extreme indices reaching the threshold (±1 around a best), and they bracket every best disparity.
-/
import PandoraModel.Lemmas.C12Risk
import Mathlib.Tactic.FieldSimp
import Mathlib.Tactic.Ring

namespace Pandora.C12
open Pandora Pandora.Confidence

theorem lmax_mem (l : List Rat) (m : Rat) (h : lmax l = some m) : m ∈ l := by
  induction l generalizing m with
  | nil => simp [lmax] at h
  | cons x xs ih =>
    rw [lmax] at h
    cases hm : lmax xs with
    | none => rw [hm] at h; simp at h; simp [h]
    | some m' =>
      rw [hm] at h
      simp only [Option.some.injEq] at h
      by_cases hle : m' ≤ x
      · simp [hle] at h; simp [h]
      · simp [hle] at h; subst h; simp [ih m' hm]

theorem lmax_ge (l : List Rat) (m : Rat) (h : lmax l = some m) : ∀ y ∈ l, y ≤ m := by
  induction l generalizing m with
  | nil => simp
  | cons x xs ih =>
    rw [lmax] at h
    cases hm : lmax xs with
    | none =>
      rw [hm] at h; simp at h; subst h
      have : xs = [] := (lmax_eq_none xs).1 hm
      subst this; simp
    | some m' =>
      rw [hm] at h
      simp only [Option.some.injEq] at h
      intro y hy
      have hm' := ih m' hm
      by_cases hle : m' ≤ x
      · simp [hle] at h; subst h
        rcases List.mem_cons.1 hy with rfl | hy
        · exact le_refl _
        · exact le_trans (hm' y hy) hle
      · simp [hle] at h; subst h
        rcases List.mem_cons.1 hy with rfl | hy
        · exact le_of_lt (not_le.1 hle)
        · exact hm' y hy

/-- `lmax` is characterised by membership and being an upper bound -/
theorem lmax_eq_of (l : List Rat) (m : Rat) (hmem : m ∈ l) (hub : ∀ y ∈ l, y ≤ m) : lmax l = some m := by
  cases h : lmax l with
  | none => rw [(lmax_eq_none l).1 h] at hmem; simp at hmem
  | some m' =>
    have h1 := lmax_mem l m' h
    have h2 := lmax_ge l m' h
    have : m' = m := le_antisymm (hub m' h1) (h2 m hmem)
    rw [this]

theorem numsOf_map (l : List Val) (f : Rat → Rat) : numsOf (l.map (Val.map f)) = (numsOf l).map f := by
  induction l with
  | nil => rfl
  | cons c l ih =>
    cases c with
    | nan => simpa [numsOf, Val.map] using ih
    | num q =>
      simp only [numsOf, List.map_cons, Val.map, List.filterMap_cons] at ih ⊢
      rw [ih]

theorem tfNorm_eq (mn mx tf : Rat) (curve : Curve) (hne : mx ≠ mn) :
    tfNorm mn mx tf curve = curve.map (Val.map (fun c => tf * ((c - mn) / (mx - mn)))) := by
  unfold tfNorm
  simp [hne]

/-- the transformed best: `nanmax(type_factor * norm_cv)` is `type_factor * norm(best)` -/
theorem lmax_tfNorm (isMax : Bool) (mn mx : Rat) (curve : Curve) (hlt : mn < mx) (b : Rat)
    (hb : Spec.best isMax curve = some b) :
    lmax (numsOf (tfNorm mn mx (typeFactor isMax) curve)) = some (typeFactor isMax * ((b - mn) / (mx - mn))) := by
  have hne : mx ≠ mn := ne_of_gt hlt
  have hpos : 0 < mx - mn := by linarith
  rw [tfNorm_eq _ _ _ _ hne, numsOf_map]
  apply lmax_eq_of
  · apply List.mem_map.2
    refine ⟨b, ?_, rfl⟩
    unfold Spec.best at hb
    cases isMax with
    | true => simp at hb; exact lmax_mem _ _ hb
    | false => simp at hb; exact lmin_mem _ _ hb
  · intro y hy
    obtain ⟨c, hc, rfl⟩ := List.mem_map.1 hy
    unfold Spec.best at hb
    cases isMax with
    | true =>
      simp at hb
      have := lmax_ge _ _ hb c hc
      simp only [typeFactor, if_true, one_mul]
      apply div_le_div_of_nonneg_right _ (le_of_lt hpos)
      linarith
    | false =>
      simp at hb
      have := lmin_le _ _ hb c hc
      simp only [typeFactor, Bool.false_eq_true, if_false]
      have : (b - mn) / (mx - mn) ≤ (c - mn) / (mx - mn) := by
        apply div_le_div_of_nonneg_right _ (le_of_lt hpos)
        linarith
      linarith

theorem best_none_iff (isMax : Bool) (curve : Curve) : Spec.best isMax curve = none ↔ ∀ c ∈ curve, c = Val.nan := by
  unfold Spec.best
  cases isMax with
  | true => simp only [if_true]; rw [lmax_eq_none, numsOf_nil_iff]
  | false => simp only [Bool.false_eq_true, if_false]; rw [lmin_eq_none, numsOf_nil_iff]

/-- **possibility**: the kernel's `type_factor * norm + 1 − nanmax(type_factor * norm)` is the documented
    `1 − (c − best)/(max − min)` (resp. `1 − (best − c)/(max − min)` for a max measure) -/
theorem possibility_eq (isMax : Bool) (mn mx : Rat) (curve : Curve) (hlt : mn < mx) (b : Rat)
    (hb : Spec.best isMax curve = some b) :
    possibility mn mx (typeFactor isMax) curve = curve.map (Spec.poss isMax mn mx b) := by
  have hne : mx ≠ mn := ne_of_gt hlt
  have hd : mx - mn ≠ 0 := by intro h; apply hne; linarith
  unfold possibility
  simp only [lmax_tfNorm isMax mn mx curve hlt b hb]
  rw [tfNorm_eq _ _ _ _ hne, List.map_map]
  apply List.map_congr_left
  intro c _
  cases c with
  | nan => rfl
  | num q =>
    simp only [Function.comp, Val.map, Spec.poss]
    congr 1
    cases isMax with
    | true => simp only [typeFactor, if_true]; field_simp; ring
    | false => simp only [typeFactor, Bool.false_eq_true, if_false]; field_simp; ring

theorem possibility_all_nan (mn mx tf : Rat) (curve : Curve) (h : ∀ c ∈ curve, c = Val.nan) :
    possibility mn mx tf curve = curve.map (fun _ => Val.nan) := by
  unfold possibility
  have ht : numsOf (tfNorm mn mx tf curve) = [] := by
    rw [numsOf_nil_iff]
    intro c hc
    unfold tfNorm at hc
    obtain ⟨c', hc', rfl⟩ := List.mem_map.1 hc
    rw [h c' hc']
    split <;> rfl
  simp only [ht, lmax]
  unfold tfNorm
  rw [List.map_map]
  rfl

/-! ### first / last index reaching the threshold -/

theorem sorted_head_le (l : List Nat) (hs : l.Pairwise (· < ·)) (a : Nat) (ha : l.head? = some a) :
    ∀ x ∈ l, a ≤ x := by
  cases l with
  | nil => simp
  | cons y ys =>
    simp at ha; subst ha
    intro x hx
    rcases List.mem_cons.1 hx with rfl | hx
    · exact Nat.le_refl _
    · exact Nat.le_of_lt ((List.pairwise_cons.1 hs).1 x hx)

theorem sorted_le_last (l : List Nat) (hs : l.Pairwise (· < ·)) (b : Nat) (hb : l.getLast? = some b) :
    ∀ x ∈ l, x ≤ b := by
  induction l with
  | nil => simp
  | cons y ys ih =>
    intro x hx
    cases ys with
    | nil => simp at hb hx; subst hb; subst hx; exact Nat.le_refl _
    | cons z zs =>
      have hb' : (z :: zs).getLast? = some b := by simpa using hb
      have hmem : b ∈ (z :: zs) := List.mem_of_getLast? hb'
      rcases List.mem_cons.1 hx with rfl | hx
      · exact Nat.le_of_lt ((List.pairwise_cons.1 hs).1 b hmem)
      · exact ih (List.pairwise_cons.1 hs).2 hb' x hx

theorem best_index (isMax : Bool) (curve : Curve) (b : Rat) (hb : Spec.best isMax curve = some b) :
    ∃ w, w < curve.length ∧ curve.getD w .nan = Val.num b := by
  have hmem : Val.num b ∈ curve := by
    apply (mem_numsOf curve b).1
    unfold Spec.best at hb
    cases isMax with
    | true => simp at hb; exact lmax_mem _ _ hb
    | false => simp at hb; exact lmin_mem _ _ hb
  obtain ⟨i, hi, hget⟩ := List.getElem_of_mem hmem
  exact ⟨i, hi, by simp [List.getD_eq_getElem?_getD, List.getElem?_eq_getElem hi, hget]⟩

theorem poss_best (isMax : Bool) (mn mx b : Rat) : Spec.poss isMax mn mx b (Val.num b) = Val.num 1 := by
  cases isMax <;> simp [Spec.poss]

theorem getD_map_poss (isMax : Bool) (mn mx b : Rat) (curve : Curve) (i : Nat) :
    (curve.map (Spec.poss isMax mn mx b)).getD i .nan = Spec.poss isMax mn mx b (curve.getD i .nan) := by
  simp only [List.getD_eq_getElem?_getD, List.getElem?_map]
  cases curve[i]? <;> rfl

/-- what `boundIdx` returns on a list where some index reaches the threshold -/
theorem boundIdx_some (thr : Rat) (P : List Val) (w : Nat) (hw : w < P.length) (hok : geThr thr (P.getD w .nan) = true) :
    ∃ lo hi, lo < P.length ∧ hi < P.length ∧ lo ≤ w ∧ w ≤ hi ∧
      geThr thr (P.getD lo .nan) = true ∧ geThr thr (P.getD hi .nan) = true ∧
      (∀ j, j < lo → geThr thr (P.getD j .nan) = false) ∧
      (∀ j, j < P.length → geThr thr (P.getD j .nan) = true → j ≤ hi) ∧
      boundIdx thr P = some (if isOne (P.getD lo .nan) then lo - 1 else lo,
                             if isOne (P.getD hi .nan) then min (P.length - 1) (hi + 1) else hi) := by
  have hsort : (selIdx thr P).Pairwise (· < ·) := pairwise_filter_range _ _
  have hwmem : w ∈ selIdx thr P := by
    unfold selIdx; rw [List.mem_filter]; exact ⟨by simpa using hw, hok⟩
  have hne : selIdx thr P ≠ [] := by intro h; rw [h] at hwmem; simp at hwmem
  obtain ⟨lo, hlo⟩ : ∃ lo, (selIdx thr P).head? = some lo := by
    cases h : selIdx thr P with
    | nil => exact absurd h hne
    | cons x xs => exact ⟨x, rfl⟩
  obtain ⟨hi, hhi⟩ : ∃ hi, (selIdx thr P).getLast? = some hi :=
    ⟨_, List.getLast?_eq_some_getLast hne⟩
  have hlomem : lo ∈ selIdx thr P := List.mem_of_head? hlo
  have hhimem : hi ∈ selIdx thr P := List.mem_of_getLast? hhi
  have hmem : ∀ j, j ∈ selIdx thr P ↔ j < P.length ∧ geThr thr (P.getD j .nan) = true := by
    intro j; unfold selIdx; rw [List.mem_filter]; simp
  refine ⟨lo, hi, ((hmem lo).1 hlomem).1, ((hmem hi).1 hhimem).1, sorted_head_le _ hsort lo hlo w hwmem,
    sorted_le_last _ hsort hi hhi w hwmem, ((hmem lo).1 hlomem).2, ((hmem hi).1 hhimem).2, ?_, ?_, ?_⟩
  · intro j hj
    cases hg : geThr thr (P.getD j .nan) with
    | false => rfl
    | true =>
      have : j ∈ selIdx thr P := (hmem j).2 ⟨Nat.lt_trans hj ((hmem lo).1 hlomem).1, hg⟩
      have := sorted_head_le _ hsort lo hlo j this
      omega
  · intro j hj hg
    exact sorted_le_last _ hsort hi hhi j ((hmem j).2 ⟨hj, hg⟩)
  · unfold boundIdx
    simp only [lminNat_sorted _ hsort, lmaxNat_sorted _ hsort, hlo, hhi]

theorem boundIdx_none (thr : Rat) (P : List Val) (h : ∀ i, i < P.length → geThr thr (P.getD i .nan) = false) :
    boundIdx thr P = none := by
  have : selIdx thr P = [] := by
    unfold selIdx
    rw [List.filter_eq_nil_iff]
    intro i hi
    simp only [List.mem_range] at hi
    rw [h i hi]; simp
  unfold boundIdx
  simp [this, lminNat]

/-- **bounds_def** (pixel level, both measure types): the kernel's `(inf, sup)` are the disparities of the
    first and last index whose possibility reaches the threshold, moved one sample outwards when that
    index is a best; NaN for a pixel without finite cost -/
theorem pixelBounds_def (isMax : Bool) (mn mx thr : Rat) (disp : List Rat) (curve : Curve)
    (hlt : mn < mx) (hthr : thr ≤ 1) :
    Spec.boundsOk isMax mn mx thr disp curve
      (pixelBounds mn mx (typeFactor isMax) thr disp curve).1
      (pixelBounds mn mx (typeFactor isMax) thr disp curve).2 = true := by
  unfold Spec.boundsOk pixelBounds
  cases hb : Spec.best isMax curve with
  | none =>
    have hall := (best_none_iff isMax curve).1 hb
    rw [possibility_all_nan _ _ _ _ hall, boundIdx_none]
    · rfl
    · intro i _
      simp only [List.getD_eq_getElem?_getD, List.getElem?_map]
      cases curve[i]? <;> rfl
  | some b =>
    rw [possibility_eq isMax mn mx curve hlt b hb]
    obtain ⟨w, hw, hcw⟩ := best_index isMax curve b hb
    have hP : (curve.map (Spec.poss isMax mn mx b)).length = curve.length := by simp
    have hokw : geThr thr ((curve.map (Spec.poss isMax mn mx b)).getD w .nan) = true := by
      rw [getD_map_poss, hcw, poss_best]; simp [geThr, hthr]
    obtain ⟨lo, hi, hlo, hhi, _, _, oklo, okhi, hbelow, habove, hbi⟩ :=
      boundIdx_some thr _ w (by rw [hP]; exact hw) hokw
    rw [hbi]
    simp only [Bool.and_eq_true, List.any_eq_true, List.all_eq_true, List.mem_range, Bool.or_eq_true,
      decide_eq_true_eq, Bool.not_eq_true', beq_iff_eq]
    rw [hP] at hlo hhi habove
    refine ⟨⟨lo, hlo, ⟨oklo, fun j hj => hbelow j hj⟩, ?_⟩, ⟨hi, hhi, ⟨okhi, fun j hj => ?_⟩, ?_⟩⟩
    · rfl
    · cases hg : geThr thr ((curve.map (Spec.poss isMax mn mx b)).getD j .nan) with
      | false => right; rfl
      | true => left; exact habove j hj hg
    · rw [hP]

theorem pairwise_le_getD (l : List Rat) (h : l.Pairwise (· ≤ ·)) (i j : Nat) (hij : i ≤ j) (hj : j < l.length) :
    l.getD i 0 ≤ l.getD j 0 := by
  have hi : i < l.length := Nat.lt_of_le_of_lt hij hj
  simp only [List.getD_eq_getElem?_getD, List.getElem?_eq_getElem hi, List.getElem?_eq_getElem hj, Option.getD_some]
  rcases Nat.eq_or_lt_of_le hij with rfl | hlt
  · exact le_refl _
  · exact (List.pairwise_iff_getElem.1 h) i j hi hj hlt

/-- **bounds_bracket_wta**: whatever index `w` holds a best cost of the pixel (in particular the
    winner-takes-all index), `inf ≤ disp[w] ≤ sup` — for every curve, threshold `≤ 1`, both measures -/
theorem pixelBounds_bracket (isMax : Bool) (mn mx thr : Rat) (disp : List Rat) (curve : Curve)
    (hlt : mn < mx) (hthr : thr ≤ 1) (hdisp : disp.Pairwise (· ≤ ·)) (hlen : disp.length = curve.length)
    (b : Rat) (hb : Spec.best isMax curve = some b) (w : Nat) (hw : w < curve.length)
    (hcw : curve.getD w .nan = Val.num b) :
    Spec.bracket (pixelBounds mn mx (typeFactor isMax) thr disp curve).1
      (pixelBounds mn mx (typeFactor isMax) thr disp curve).2 (disp.getD w 0) = true := by
  unfold pixelBounds
  rw [possibility_eq isMax mn mx curve hlt b hb]
  have hP : (curve.map (Spec.poss isMax mn mx b)).length = curve.length := by simp
  have hokw : geThr thr ((curve.map (Spec.poss isMax mn mx b)).getD w .nan) = true := by
    rw [getD_map_poss, hcw, poss_best]; simp [geThr, hthr]
  obtain ⟨lo, hi, hlo, hhi, hlow, hwhi, _, _, _, _, hbi⟩ :=
    boundIdx_some thr _ w (by rw [hP]; exact hw) hokw
  rw [hbi]
  rw [hP] at hlo hhi
  simp only [Spec.bracket, Bool.and_eq_true, decide_eq_true_eq]
  constructor
  · apply pairwise_le_getD disp hdisp _ w _ (by rw [hlen]; exact hw)
    split <;> omega
  · apply pairwise_le_getD disp hdisp w _ _
    · split
      · rw [hP, hlen]; omega
      · rw [hlen]; exact hhi
    · split
      · rw [hP]; omega
      · exact hwhi

/-! ### the winner-takes-all index is a best index -/

theorem numsOf_cons_nan (cs : List Val) : numsOf (Val.nan :: cs) = numsOf cs := rfl
theorem numsOf_cons_num (q : Rat) (cs : List Val) : numsOf (Val.num q :: cs) = q :: numsOf cs := rfl

theorem wtaIdxFrom_ne_none (isMax : Bool) (k : Nat) (l : List Val) (hne : numsOf l ≠ []) :
    wtaIdxFrom isMax k l ≠ none := by
  induction l generalizing k with
  | nil => exact absurd rfl hne
  | cons d ds ihd =>
    cases d with
    | nan => rw [wtaIdxFrom]; exact ihd (k + 1) (by simpa [numsOf_cons_nan] using hne)
    | num r =>
      rw [wtaIdxFrom]
      cases wtaIdxFrom isMax (k + 1) ds with
      | none => simp
      | some p =>
        obtain ⟨p1, p2⟩ := p
        simp only
        split <;> split <;> simp

theorem wtaIdxFrom_spec (isMax : Bool) (curve : Curve) :
    ∀ (i j : Nat) (b : Rat), wtaIdxFrom isMax i curve = some (j, b) →
      i ≤ j ∧ j < i + curve.length ∧ curve.getD (j - i) .nan = Val.num b ∧ Spec.best isMax curve = some b := by
  induction curve with
  | nil => intro i j b h; simp [wtaIdxFrom] at h
  | cons c cs ih =>
    intro i j b h
    cases c with
    | nan =>
      rw [wtaIdxFrom] at h
      obtain ⟨h1, h2, h3, h4⟩ := ih (i + 1) j b h
      refine ⟨by omega, by simp; omega, ?_, ?_⟩
      · have : j - i = (j - (i + 1)) + 1 := by omega
        rw [this]; simpa [List.getD_eq_getElem?_getD] using h3
      · unfold Spec.best at h4 ⊢; rw [numsOf_cons_nan]; exact h4
    | num q =>
      rw [wtaIdxFrom] at h
      cases hrec : wtaIdxFrom isMax (i + 1) cs with
      | none =>
        rw [hrec] at h
        simp only [Option.some.injEq, Prod.mk.injEq] at h
        obtain ⟨rfl, rfl⟩ := h
        refine ⟨Nat.le_refl _, by simp, by simp, ?_⟩
        -- no finite cost in the tail
        have htail : numsOf cs = [] := by
          cases hn : numsOf cs with
          | nil => rfl
          | cons y ys =>
            exfalso
            -- a finite cost in the tail would make the recursive call succeed
            exact wtaIdxFrom_ne_none isMax (i + 1) cs (by rw [hn]; simp) hrec
        unfold Spec.best
        rw [numsOf_cons_num, htail]
        cases isMax <;> simp [lmin, lmax]
      | some p =>
        obtain ⟨j', b'⟩ := p
        rw [hrec] at h
        obtain ⟨h1, h2, h3, h4⟩ := ih (i + 1) j' b' hrec
        simp only at h
        unfold Spec.best at h4 ⊢
        rw [numsOf_cons_num]
        cases isMax with
        | true =>
          simp only [if_true] at h h4 ⊢
          rw [lmax, h4]
          by_cases hlt : q < b'
          · simp only [hlt, decide_true, if_true, Option.some.injEq, Prod.mk.injEq] at h
            obtain ⟨rfl, rfl⟩ := h
            refine ⟨by omega, by simp; omega, ?_, ?_⟩
            · have : j' - i = (j' - (i + 1)) + 1 := by omega
              rw [this]; simpa [List.getD_eq_getElem?_getD] using h3
            · simp [not_le.2 hlt]
          · simp only [hlt, decide_false, Bool.false_eq_true, if_false, Option.some.injEq, Prod.mk.injEq] at h
            obtain ⟨rfl, rfl⟩ := h
            refine ⟨Nat.le_refl _, by simp, by simp, ?_⟩
            simp [not_lt.1 hlt]
        | false =>
          simp only [Bool.false_eq_true, if_false] at h h4 ⊢
          rw [lmin, h4]
          by_cases hlt : b' < q
          · simp only [hlt, decide_true, if_true, Option.some.injEq, Prod.mk.injEq] at h
            obtain ⟨rfl, rfl⟩ := h
            refine ⟨by omega, by simp; omega, ?_, ?_⟩
            · have : j' - i = (j' - (i + 1)) + 1 := by omega
              rw [this]; simpa [List.getD_eq_getElem?_getD] using h3
            · simp [not_le.2 hlt]
          · simp only [hlt, decide_false, Bool.false_eq_true, if_false, Option.some.injEq, Prod.mk.injEq] at h
            obtain ⟨rfl, rfl⟩ := h
            refine ⟨Nat.le_refl _, by simp, by simp, ?_⟩
            simp [not_lt.1 hlt]

/-- the winner-takes-all index of the later disparity step holds a best cost of the pixel -/
theorem wtaIdx_best (isMax : Bool) (curve : Curve) (w : Nat) (h : wtaIdx isMax curve = some w) :
    w < curve.length ∧ ∃ b, Spec.best isMax curve = some b ∧ curve.getD w .nan = Val.num b := by
  unfold wtaIdx at h
  cases hr : wtaIdxFrom isMax 0 curve with
  | none => rw [hr] at h; simp at h
  | some p =>
    obtain ⟨j, b⟩ := p
    rw [hr] at h
    simp at h; subst h
    obtain ⟨_, h2, h3, h4⟩ := wtaIdxFrom_spec isMax curve 0 j b hr
    exact ⟨by omega, b, h4, by simpa using h3⟩

/-- `wtaIdx` is `none` exactly on an all-NaN pixel (the pixel then gets `invalid_disparity`) -/
theorem wtaIdx_none_iff (isMax : Bool) (curve : Curve) : wtaIdx isMax curve = none ↔ ∀ c ∈ curve, c = Val.nan := by
  constructor
  · intro h
    rw [← best_none_iff isMax]
    cases hb : Spec.best isMax curve with
    | none => rfl
    | some b =>
      exfalso
      have hne : numsOf curve ≠ [] := by
        intro hn
        have := (best_none_iff isMax curve).2 ((numsOf_nil_iff curve).1 hn)
        rw [this] at hb; cases hb
      unfold wtaIdx at h
      cases hr : wtaIdxFrom isMax 0 curve with
      | none => exact wtaIdxFrom_ne_none isMax 0 curve hne hr
      | some p => rw [hr] at h; simp at h
  · intro hall
    cases hw : wtaIdx isMax curve with
    | none => rfl
    | some w =>
      obtain ⟨_, b, hb, _⟩ := wtaIdx_best isMax curve w hw
      rw [(best_none_iff isMax curve).2 hall] at hb; cases hb

end Pandora.C12
