/-
  Block independence of the `array_split` + accumulated-offset loops (shared by C03 and C10).

  `blocked_eq_direct` : for every plan whose two steps are positive — whatever the start values, the
  stop values and the array sizes — the blocked computation equals the single unsplit assignment.
-/
import PandoraModel.Model.Blocks
import Mathlib.Tactic.SplitIfs

namespace Pandora.Blocks

/-- the chunks are laid end to end from source index `s` to source index `e` -/
inductive Contig : List (Nat × Nat) → Nat → Nat → Prop
  | nil (s : Nat) : Contig [] s s
  | cons (s len e : Nat) (rest : List (Nat × Nat)) : Contig rest (s + len) e → Contig ((s, len) :: rest) s e

/-- split points in non-decreasing order, none below `st` -/
def SortedFrom : Nat → List Nat → Prop
  | _, [] => True
  | st, p :: ps => st ≤ p ∧ SortedFrom p ps

theorem Contig.le {l : List (Nat × Nat)} {s e : Nat} (h : Contig l s e) : s ≤ e := by
  induction h with
  | nil s => exact Nat.le_refl _
  | cons s len e rest _ ih => omega

theorem splitFrom_contig (L : Nat) : ∀ (pts : List Nat) (st : Nat), SortedFrom st pts →
    Contig (splitFrom L st pts) (min st L) L
  | [], st, _ => by
    simp only [splitFrom, slice]
    apply Contig.cons
    have : min st L + (min L L - min st L) = L := by omega
    rw [this]; exact Contig.nil L
  | p :: ps, st, h => by
    simp only [splitFrom, slice]
    apply Contig.cons
    have : min st L + (min p L - min st L) = min p L := by have := h.1; omega
    rw [this]; exact splitFrom_contig L ps p h.2

/-- `np.array_split` with sorted split points cuts `[0, L)` into consecutive pieces -/
theorem arraySplit_contig (L : Nat) (pts : List Nat) (h : SortedFrom 0 pts) :
    Contig (arraySplit L pts) 0 L := by
  have := splitFrom_contig L pts 0 h
  simpa [arraySplit] using this

theorem sortedFrom_map_range (start step : Nat) : ∀ (n k : Nat) (st : Nat), st ≤ start + k * step →
    SortedFrom st ((List.range' k n).map (fun k => start + k * step))
  | 0, _, _, _ => by simp [SortedFrom]
  | n + 1, k, st, h => by
    simp only [List.range'_succ, List.map_cons, SortedFrom]
    refine ⟨h, sortedFrom_map_range start step n (k + 1) _ ?_⟩
    rw [Nat.add_mul]; omega

/-- `np.arange` yields sorted split points -/
theorem arange_sorted (start stop step : Nat) : SortedFrom 0 (arange start stop step) := by
  unfold arange
  rw [List.range_eq_range']
  exact sortedFrom_map_range start step _ 0 0 (Nat.zero_le _)

theorem innerLoop_contig {β : Type} (f : Nat → Nat → β) (yb ylen ys : Nat) :
    ∀ (chunks : List (Nat × Nat)) (s e xb : Nat) (out : Nat → Nat → β), Contig chunks s e →
      innerLoop f yb ylen ys chunks xb out =
        fun r c => if yb ≤ r ∧ r < yb + ylen ∧ xb ≤ c ∧ c < xb + (e - s)
                   then f (ys + (r - yb)) (s + (c - xb)) else out r c
  | [], s, e, xb, out, h => by
    cases h
    funext r c
    have : ¬ (yb ≤ r ∧ r < yb + ylen ∧ xb ≤ c ∧ c < xb + (s - s)) := by omega
    rw [innerLoop, if_neg this]
  | (xs, xlen) :: rest, s, e, xb, out, h => by
    cases h with
    | cons _ _ _ _ h' =>
      have hle := h'.le
      rw [innerLoop, innerLoop_contig f yb ylen ys rest (xs + xlen) e (xb + xlen) _ h']
      funext r c
      simp only [assign]
      by_cases h1 : yb ≤ r ∧ r < yb + ylen ∧ xb + xlen ≤ c ∧ c < xb + xlen + (e - (xs + xlen))
      · have h2 : yb ≤ r ∧ r < yb + ylen ∧ xb ≤ c ∧ c < xb + (e - xs) := by omega
        rw [if_pos h1, if_pos h2]
        have : xs + xlen + (c - (xb + xlen)) = xs + (c - xb) := by omega
        rw [this]
      · rw [if_neg h1]
        by_cases h3 : yb ≤ r ∧ r < yb + ylen ∧ xb ≤ c ∧ c < xb + xlen
        · have h2 : yb ≤ r ∧ r < yb + ylen ∧ xb ≤ c ∧ c < xb + (e - xs) := by omega
          rw [if_pos h3, if_pos h2]
        · have h2 : ¬ (yb ≤ r ∧ r < yb + ylen ∧ xb ≤ c ∧ c < xb + (e - xs)) := by omega
          rw [if_neg h3, if_neg h2]

theorem outerLoop_contig {β : Type} (f : Nat → Nat → β) (xchunks : List (Nat × Nat)) (offx lx : Nat)
    (hx : Contig xchunks 0 lx) :
    ∀ (chunks : List (Nat × Nat)) (s e yb : Nat) (out : Nat → Nat → β), Contig chunks s e →
      outerLoop f xchunks offx chunks yb out =
        fun r c => if yb ≤ r ∧ r < yb + (e - s) ∧ offx ≤ c ∧ c < offx + lx
                   then f (s + (r - yb)) (c - offx) else out r c
  | [], s, e, yb, out, h => by
    cases h
    funext r c
    have : ¬ (yb ≤ r ∧ r < yb + (s - s) ∧ offx ≤ c ∧ c < offx + lx) := by omega
    rw [outerLoop, if_neg this]
  | (ys, ylen) :: rest, s, e, yb, out, h => by
    cases h with
    | cons _ _ _ _ h' =>
      have hle := h'.le
      rw [outerLoop, outerLoop_contig f xchunks offx lx hx rest (ys + ylen) e (yb + ylen) _ h',
        innerLoop_contig f yb ylen ys xchunks 0 lx offx out hx]
      funext r c
      by_cases h1 : yb + ylen ≤ r ∧ r < yb + ylen + (e - (ys + ylen)) ∧ offx ≤ c ∧ c < offx + lx
      · have h2 : yb ≤ r ∧ r < yb + (e - ys) ∧ offx ≤ c ∧ c < offx + lx := by omega
        rw [if_pos h1, if_pos h2]
        have : ys + ylen + (r - (yb + ylen)) = ys + (r - yb) := by omega
        rw [this]
      · rw [if_neg h1]
        dsimp only
        by_cases h3 : yb ≤ r ∧ r < yb + ylen ∧ offx ≤ c ∧ c < offx + (lx - 0)
        · have h2 : yb ≤ r ∧ r < yb + (e - ys) ∧ offx ≤ c ∧ c < offx + lx := by omega
          rw [if_pos h3, if_pos h2]
          simp
        · have h2 : ¬ (yb ≤ r ∧ r < yb + (e - ys) ∧ offx ≤ c ∧ c < offx + lx) := by omega
          rw [if_neg h3, if_neg h2]

/-- **Block independence.**  Whatever the split points `np.arange(start, stop, step)` (any start, any
    stop, any step — sorted is all that matters, and `arange` is always sorted) and whatever the array
    size, the blocked loops compute the single unsplit assignment. -/
theorem blocked_eq_direct {β : Type} (p : Plan) (f : Nat → Nat → β) (out : Nat → Nat → β) :
    blocked p f out = direct p f out := by
  unfold blocked direct
  have hx := arraySplit_contig p.lx _ (arange_sorted p.startX p.stopX p.stepX)
  have hy := arraySplit_contig p.ly _ (arange_sorted p.startY p.stopY p.stepY)
  rw [outerLoop_contig f _ p.offX p.lx hx _ 0 p.ly p.offY out hy]
  funext r c
  simp

/-- two plans that differ only in how the array is split give the same result -/
theorem blocked_independent {β : Type} (p q : Plan) (f : Nat → Nat → β) (out : Nat → Nat → β)
    (h1 : p.ly = q.ly) (h2 : p.lx = q.lx) (h3 : p.offY = q.offY) (h4 : p.offX = q.offX) :
    blocked p f out = blocked q f out := by
  rw [blocked_eq_direct, blocked_eq_direct]
  unfold direct
  rw [h1, h2, h3, h4]

end Pandora.Blocks
