/-
  census: the plane computed by `Census.compute_cost_volume` is, where both windows lie inside their images,
  the popcount of the xor of the two census bit strings — the left one on the window centred on the left pixel,
  the right one on the window centred at `column + d` of the linearly interpolated right image — NaN elsewhere.
-/
import PandoraModel.Lemmas.MCRaw

namespace Pandora.MC

/-- the interpolated right image `(a, b) ↦ R(a, b + k/sp)` as an image -/
def interpImg (x : Input) (k : Int) : Img :=
  { rows := x.R.rows, cols := x.R.cols, px := fun a b => interpR x.R x.sp k a b }

/-- census value as the code forms it (bit strings, xor, `popcount32b`), with both windows centred on `(r, c)`
    — the right one in the interpolated right image -/
def valueCensusBits (x : Input) (r c k : Int) : Cell :=
  .num ((popcount32b (censusBits x.w x.L (r - (half x.w : Nat)) (c - (half x.w : Nat)) ^^^
                      censusBits x.w (interpImg x k) (r - (half x.w : Nat)) (c - (half x.w : Nat))) : Nat) : Rat)

/-- the census string only depends on the pixels it reads -/
theorem censusBits_congr (w : Nat) (A B : Img) (r c r' c' : Int)
    (h : ∀ a b : Int, A.px (r + a) (c + b) = B.px (r' + a) (c' + b)) :
    censusBits w A r c = censusBits w B r' c' := by
  unfold censusBits
  simp only [h]

theorem rawCensus_eq (x : Input) (h : Shape x) (k r c : Int) :
    rawCensus x k r c = if LeftInside x r c ∧ RightInside x c k then valueCensusBits x r c k else .nan := by
  have hw := window_eq x h
  have hs := h.sp_pos
  set o := half x.w with ho
  set Rk := shiftRight x.R x.sp (iRight k x.sp) with hRk
  have hf0 := fracBit_nonneg k x.sp
  have hf1 := fracBit_le_one k x.sp
  have hw1 : ((x.w - 1 : Nat) : Int) = 2 * (o : Int) := by omega
  unfold rawCensus
  simp only [← ho, ← hRk]
  rw [hw1]
  set nxL : Int := (x.L.cols : Int) - 2 * (o : Int) with hnxL
  set nxR : Int := (Rk.cols : Int) - 2 * (o : Int) with hnxR
  have hmem := mem_p_iff nxL nxR k x.sp hs (c - o)
  have hguard : (0 ≤ r - (o : Int) ∧ r - (o : Int) < (x.L.rows : Int) - 2 * (o : Int) ∧ 0 ≤ c - (o : Int) ∧
        c - (o : Int) < (x.L.cols : Int) - 2 * (o : Int) ∧
        (pointInterval nxL nxR k x.sp).p0 ≤ c - (o : Int) ∧ c - (o : Int) < (pointInterval nxL nxR k x.sp).p1)
      ↔ (LeftInside x r c ∧ RightInside x c k) := by
    unfold LeftInside RightInside
    rw [hmem, h.cols_eq]
    simp only [← ho]
    omega
  by_cases hin : LeftInside x r c ∧ RightInside x c k
  · have hg := hguard.mpr hin
    rw [if_pos hg, if_pos hin]
    have hp : (pointInterval nxL nxR k x.sp).p0 ≤ c - (o : Int) ∧ c - (o : Int) < (pointInterval nxL nxR k x.sp).p1 :=
      ⟨hg.2.2.2.2.1, hg.2.2.2.2.2⟩
    rw [q_of_p nxL nxR k x.sp hs _ hp]
    unfold valueCensusBits
    simp only [← ho]
    congr 4
    apply censusBits_congr
    intro a b
    show Rk.px (r - o + a) (c - o + k / (x.sp : Int) + b) = interpR x.R x.sp k (r - o + a) (c - o + b)
    rw [← shiftRight_px x.R k x.sp hs, ← hRk]
    congr 1
    ring
  · rw [if_neg (fun hc => hin (hguard.mp hc)), if_neg hin]

end Pandora.MC
