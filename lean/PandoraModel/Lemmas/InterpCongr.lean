/- C14: rays only read pixels inside the image; the 3×3 occlusion test.  Core Lean only. -/
import PandoraModel.Model.Interp

namespace Pandora.Interp
open Pandora Pandora.Flags

/-- two maps of the same size with the same cells inside the image -/
structure Agree (m m' : DMap) : Prop where
  rows : m.rows = m'.rows
  cols : m.cols = m'.cols
  disp : ∀ r c, r < m.rows → c < m.cols → m.disp r c = m'.disp r c
  flag : ∀ r c, r < m.rows → c < m.cols → m.flag r c = m'.flag r c

theorem inside_iff {m : DMap} {p : Int × Int} :
    m.inside p = true ↔ 0 ≤ p.1 ∧ p.1 < m.rows ∧ 0 ≤ p.2 ∧ p.2 < m.cols := by
  simp [DMap.inside, and_assoc]

theorem inside_toNat {m : DMap} {p : Int × Int} (h : m.inside p = true) :
    p.1.toNat < m.rows ∧ p.2.toNat < m.cols := by
  rw [inside_iff] at h; omega

theorem Agree.inside {m m' : DMap} (h : Agree m m') (p : Int × Int) : m.inside p = m'.inside p := by
  unfold DMap.inside; rw [h.rows, h.cols]

theorem firstValid_congr {m m' : DMap} (h : Agree m m') (L : List (Int × Int))
    (hL : ∀ p ∈ L, m.inside p = true) : firstValid m L = firstValid m' L := by
  induction L with
  | nil => rfl
  | cons p t ih =>
    have hp := inside_toNat (hL p (List.mem_cons_self))
    have hv : m.validAt p = m'.validAt p := by
      unfold DMap.validAt DMap.valid; rw [h.flag _ _ hp.1 hp.2]
    have hd : m.dispAt p = m'.dispAt p := by
      unfold DMap.dispAt; rw [h.disp _ _ hp.1 hp.2]
    have ih' := ih (fun q hq => hL q (List.mem_cons_of_mem _ hq))
    unfold firstValid at ih' ⊢
    rw [List.find?_cons, List.find?_cons, ← hv]
    cases hvp : m.validAt p
    · simpa using ih'
    · simp [hd]

theorem mem_takeWhile_holds {α} (p : α → Bool) : ∀ (l : List α) (x : α), x ∈ l.takeWhile p → p x = true := by
  intro l
  induction l with
  | nil => intro x hx; simp at hx
  | cons y t ih =>
    intro x hx
    by_cases hy : p y = true
    · rw [List.takeWhile_cons_of_pos hy] at hx
      rcases List.mem_cons.mp hx with rfl | hx
      · exact hy
      · exact ih x hx
    · rw [List.takeWhile_cons_of_neg hy] at hx; simp at hx

theorem rayPts_inside (m : DMap) (pos : Nat → Int × Int) : ∀ p ∈ rayPts m pos, m.inside p = true := by
  intro p hp
  exact mem_takeWhile_holds _ _ p hp

theorem rayPts_congr {m m' : DMap} (h : Agree m m') (pos : Nat → Int × Int) : rayPts m pos = rayPts m' pos := by
  unfold rayPts
  rw [h.rows, h.cols]
  congr 1
  funext p; exact h.inside p

theorem firstValid_rayPts_congr {m m' : DMap} (h : Agree m m') (pos : Nat → Int × Int) :
    firstValid m (rayPts m pos) = firstValid m' (rayPts m' pos) := by
  rw [← rayPts_congr h pos]; exact firstValid_congr h _ (rayPts_inside m pos)

theorem sourcesMc_congr {m m' : DMap} (h : Agree m m') (r c : Nat) : sourcesMc m r c = sourcesMc m' r c := by
  unfold sourcesMc; congr 1; funext d; exact firstValid_rayPts_congr h _

theorem sourcesSgm_congr {m m' : DMap} (h : Agree m m') (r c : Nat) : sourcesSgm m r c = sourcesSgm m' r c := by
  unfold sourcesSgm; congr 1; funext d; exact firstValid_rayPts_congr h _

/-- a source is the disparity of a valid pixel of the list -/
theorem firstValid_some {m : DMap} {L : List (Int × Int)} {v : Val} (h : firstValid m L = some v) :
    ∃ p ∈ L, m.validAt p = true ∧ m.dispAt p = v := by
  unfold firstValid at h
  rw [Option.map_eq_some_iff] at h
  obtain ⟨p, hp, hv⟩ := h
  exact ⟨p, List.mem_of_find?_eq_some hp, List.find?_some hp, hv⟩

/-- a source on a ray is the disparity of a valid pixel inside the image -/
theorem ray_source_pixel {m : DMap} {pos : Nat → Int × Int} {v : Val}
    (h : firstValid m (rayPts m pos) = some v) :
    ∃ r c, r < m.rows ∧ c < m.cols ∧ m.valid r c = true ∧ m.disp r c = v := by
  obtain ⟨p, hp, hv, hd⟩ := firstValid_some h
  have := inside_toNat (rayPts_inside m pos p hp)
  exact ⟨p.1.toNat, p.2.toNat, this.1, this.2, hv, hd⟩

/-- a source of the mc-cnn occlusion rule is the disparity of a valid pixel of the same row -/
theorem sourceOcclMc_pixel {m : DMap} {r c : Nat} (hc : c < m.cols) {v : Val} (h : sourceOcclMc m r c = some v) :
    ∃ j, j < m.cols ∧ m.valid r j = true ∧ m.disp r j = v := by
  unfold sourceOcclMc at h
  have key : ∀ L : List (Int × Int), (∀ p ∈ L, p.1 = (r : Int) ∧ 0 ≤ p.2 ∧ p.2 < (m.cols : Int)) →
      firstValid m L = some v → ∃ j, j < m.cols ∧ m.valid r j = true ∧ m.disp r j = v := by
    intro L hL hf
    obtain ⟨p, hp, hv, hd⟩ := firstValid_some hf
    obtain ⟨h1, h2, h3⟩ := hL p hp
    refine ⟨p.2.toNat, by omega, ?_, ?_⟩
    · have : p.1.toNat = r := by omega
      rw [← this]; exact hv
    · have : p.1.toNat = r := by omega
      rw [← this]; exact hd
  split at h
  · rename_i v' hl
    cases h
    apply key _ _ hl
    intro p hp
    simp only [leftPts, List.mem_map, List.mem_reverse, List.mem_range] at hp
    obtain ⟨j, hj, rfl⟩ := hp
    simp; omega
  · apply key _ _ h
    intro p hp
    simp only [rightPts, List.mem_map, List.mem_range'_1] at hp
    obtain ⟨j, hj, rfl⟩ := hp
    simp; omega

/-! ### the 3×3 occlusion test of sgm -/

theorem sum_ne_zero_iff (l : List Nat) : l.sum ≠ 0 ↔ ∃ x ∈ l, x ≠ 0 := by
  induction l with
  | nil => simp
  | cons x t ih =>
    rw [List.sum_cons]
    constructor
    · intro h
      by_cases hx : x = 0
      · have : t.sum ≠ 0 := by omega
        obtain ⟨y, hy, hy0⟩ := ih.mp this
        exact ⟨y, List.mem_cons_of_mem _ hy, hy0⟩
      · exact ⟨x, List.mem_cons_self, hx⟩
    · rintro ⟨y, hy, hy0⟩
      rcases List.mem_cons.mp hy with rfl | hy
      · omega
      · have : t.sum ≠ 0 := ih.mpr ⟨y, hy, hy0⟩
        omega

/-- `np.sum(valid[clipped 3×3 window] & OCCLUSION) != 0` iff a pixel of the clipped 3×3 neighbourhood
    carries bit 8 -/
theorem occlusionSum3x3_ne_zero (m : DMap) (r c : Nat) (hr : r < m.rows) (hc : c < m.cols) :
    (occlusionSum3x3 m r c != 0) = touchesOcclusion m r c := by
  rw [Bool.eq_iff_iff]
  unfold occlusionSum3x3 touchesOcclusion hasBit
  simp only [bne_iff_ne, List.any_eq_true, List.mem_range, Bool.and_eq_true, decide_eq_true_eq]
  rw [sum_ne_zero_iff]
  constructor
  · rintro ⟨x, hx, hx0⟩
    rw [List.mem_map] at hx
    obtain ⟨r', hr', rfl⟩ := hx
    rw [sum_ne_zero_iff] at hx0
    obtain ⟨y, hy, hy0⟩ := hx0
    rw [List.mem_map] at hy
    obtain ⟨c', hc', rfl⟩ := hy
    rw [List.mem_range'_1] at hr' hc'
    exact ⟨r', by omega, c', by omega, ⟨⟨⟨⟨by omega, by omega⟩, by omega⟩, by omega⟩, hy0⟩⟩
  · rintro ⟨r', hr', c', hc', ⟨⟨⟨⟨h1, h2⟩, h3⟩, h4⟩, hy⟩⟩
    refine ⟨_, List.mem_map.mpr ⟨r', List.mem_range'_1.mpr (by omega), rfl⟩, ?_⟩
    rw [sum_ne_zero_iff]
    exact ⟨_, List.mem_map.mpr ⟨c', List.mem_range'_1.mpr (by omega), rfl⟩, hy⟩

end Pandora.Interp
