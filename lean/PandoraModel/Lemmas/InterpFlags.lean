/- C14: the flag words of the four kernels in terms of bits.  Core Lean only. -/
import PandoraModel.Lemmas.InterpBits

namespace Pandora.Interp
open Pandora.Flags

theorem occlusion_pow : occlusion = 2 ^ 8 := rfl
theorem mismatch_pow : mismatch = 2 ^ 9 := rfl
theorem filledOcclusion_pow : filledOcclusion = 2 ^ 4 := rfl
theorem filledMismatch_pow : filledMismatch = 2 ^ 5 := rfl

theorem testBit_replaceBit (f i j m : Nat) :
    (replaceBit f (2 ^ i) (2 ^ j)).testBit m = ((f.testBit m && decide (m ≠ i)) || decide (m = j)) := by
  unfold replaceBit
  simp only [Nat.testBit_or, Nat.testBit_xor, Nat.testBit_and, Nat.testBit_two_pow]
  by_cases hi : i = m
  · subst hi; by_cases hj : j = i
    · subst hj; simp
    · have : ¬ i = j := fun h => hj h.symm
      cases f.testBit i <;> simp [hj, this]
  · have hi' : ¬ m = i := fun h => hi h.symm
    by_cases hj : j = m
    · subst hj; simp [hi, hi']
    · have : ¬ m = j := fun h => hj h.symm
      simp [hi, hi', hj, this]

theorem hasBit_replaceBit (f i j k : Nat) :
    hasBit (replaceBit f (2 ^ i) (2 ^ j)) (2 ^ k) = ((hasBit f (2 ^ k) && decide (k ≠ i)) || decide (k = j)) := by
  rw [hasBit_two_pow, hasBit_two_pow, testBit_replaceBit]

theorem replaceBit_twice (f : Nat) (i j k : Nat) (hj : f.testBit j = false) (hij : i ≠ j) :
    replaceBit (replaceBit f (2 ^ i) (2 ^ j)) (2 ^ j) (2 ^ k) = replaceBit f (2 ^ i) (2 ^ k) := by
  apply Nat.eq_of_testBit_eq; intro m
  rw [testBit_replaceBit, testBit_replaceBit, testBit_replaceBit]
  by_cases h1 : m = j
  · subst h1; simp [hj]
  · simp [h1]

/-- a word with bit 8 or bit 9 is invalid -/
theorem isInvalid_of_testBit {f k : Nat} (hk : (pixelInvalid).testBit k = true) (h : f.testBit k = true) :
    isInvalid f = true := by
  unfold isInvalid
  have : (f &&& pixelInvalid).testBit k = true := by rw [Nat.testBit_and, h, hk]; rfl
  simp only [bne_iff_ne, ne_eq]
  intro h0; rw [h0] at this; simp at this

theorem flagged_eq (f : Nat) : flagged f = (f.testBit 8 || f.testBit 9) := by
  unfold flagged; rw [occlusion_pow, mismatch_pow, hasBit_two_pow, hasBit_two_pow]

theorem not_valid_of_flagged {f : Nat} (h : flagged f = true) : ((f &&& pixelInvalid) == 0) = false := by
  rw [flagged_eq] at h
  have : isInvalid f = true := by
    rcases Bool.or_eq_true _ _ |>.mp h with h8 | h9
    · exact isInvalid_of_testBit (k := 8) (by decide) h8
    · exact isInvalid_of_testBit (k := 9) (by decide) h9
  unfold isInvalid at this
  simpa using this

/-- `-= OCCLUSION; += FILLED_OCCLUSION` -/
theorem fill_occl {f : Nat} (h8 : f.testBit 8 = true) (h4 : f.testBit 4 = false) :
    f - occlusion + filledOcclusion = replaceBit f occlusion filledOcclusion := by
  rw [occlusion_pow, filledOcclusion_pow]; exact sub_add_eq_replaceBit h8 h4

/-- `-= MISMATCH; += FILLED_MISMATCH` -/
theorem fill_mism {f : Nat} (h9 : f.testBit 9 = true) (h5 : f.testBit 5 = false) :
    f - mismatch + filledMismatch = replaceBit f mismatch filledMismatch := by
  rw [mismatch_pow, filledMismatch_pow]; exact sub_add_eq_replaceBit h9 h5

/-- `-= MISMATCH; += OCCLUSION` -/
theorem mism_to_occl {f : Nat} (h9 : f.testBit 9 = true) (h8 : f.testBit 8 = false) :
    f - mismatch + occlusion = replaceBit f mismatch occlusion := by
  rw [mismatch_pow, occlusion_pow]; exact sub_add_eq_replaceBit h9 h8


/-! ### `-= OLD` followed by `+= NEW` or `|= NEW` -/

theorem raise_zero (op : RaiseOp) (g : Nat) : raise op g 0 = g := by cases op <;> simp [raise]

/-- Removing bit `i` (set) and raising bit `j`: with `|=` always, with `+=` when bit `j` was clear, the word has
    bit `i` replaced by bit `j` and every other bit kept. -/
theorem raise_sub_eq_replaceBit {op : RaiseOp} {f i j : Nat} (hi : f.testBit i = true)
    (hj : op = .add → f.testBit j = false) : raise op (f - 2 ^ i) (2 ^ j) = replaceBit f (2 ^ i) (2 ^ j) := by
  cases op with
  | add => exact sub_add_eq_replaceBit hi (hj rfl)
  | or =>
    apply Nat.eq_of_testBit_eq; intro m
    simp only [raise, Nat.testBit_or, sub_two_pow_testBit hi, Nat.testBit_two_pow, testBit_replaceBit]
    by_cases hm : j = m
    · subst hm; simp
    · have : ¬ m = j := fun h => hm h.symm
      simp [hm, this]

/-- `-= OCCLUSION; (+=|‖=) FILLED_OCCLUSION` -/
theorem upd_occl {op : RaiseOp} {f : Nat} (h8 : f.testBit 8 = true) (h4 : op = .add → f.testBit 4 = false) :
    raise op (f - occlusion) filledOcclusion = replaceBit f occlusion filledOcclusion := by
  rw [occlusion_pow, filledOcclusion_pow]; exact raise_sub_eq_replaceBit h8 h4

/-- `-= MISMATCH; (+=|‖=) FILLED_MISMATCH` -/
theorem upd_mism {op : RaiseOp} {f : Nat} (h9 : f.testBit 9 = true) (h5 : op = .add → f.testBit 5 = false) :
    raise op (f - mismatch) filledMismatch = replaceBit f mismatch filledMismatch := by
  rw [mismatch_pow, filledMismatch_pow]; exact raise_sub_eq_replaceBit h9 h5

/-- `-= MISMATCH; (+=|‖=) OCCLUSION` -/
theorem upd_mism_occl {op : RaiseOp} {f : Nat} (h9 : f.testBit 9 = true) (h8 : f.testBit 8 = false) :
    raise op (f - mismatch) occlusion = replaceBit f mismatch occlusion := by
  rw [mismatch_pow, occlusion_pow]; exact raise_sub_eq_replaceBit h9 (fun _ => h8)

end Pandora.Interp
