/-
  zncc: `cov² ≤ varL · varR` (Cauchy–Schwarz over the window), i.e. `|zncc| ≤ 1 = cmax`.
-/
import PandoraModel.Lemmas.MCCmax
import Mathlib.Tactic.FieldSimp

namespace Pandora.MC

/-! ### the window sum is a positive linear functional -/

theorem winSum_add (o : Nat) (f g : Int → Int → Rat) (r c : Int) :
    winSum o (fun a b => f a b + g a b) r c = winSum o f r c + winSum o g r c := by
  unfold winSum
  simp only [sumZ_add_fun]

theorem winSum_mul_const (o : Nat) (f : Int → Int → Rat) (k : Rat) (r c : Int) :
    winSum o (fun a b => f a b * k) r c = winSum o f r c * k := by
  unfold winSum
  simp only [sumZ_mul_const]

theorem sumZ_const (k : Rat) (lo : Int) (n : Nat) : sumZ (0 : Rat) (fun _ => k) lo n = n * k := by
  induction n with
  | zero => simp [sumZ]
  | succ n ih => simp only [sumZ]; rw [ih]; push_cast; ring

theorem winSum_const (o : Nat) (k : Rat) (r c : Int) :
    winSum o (fun _ _ => k) r c = ((2 * o + 1 : Nat) : Rat) * (((2 * o + 1 : Nat) : Rat) * k) := by
  unfold winSum
  simp only [sumZ_const]

theorem sumZ_nonneg (f : Int → Rat) (lo : Int) (n : Nat) (h : ∀ i, 0 ≤ f i) : 0 ≤ sumZ (0 : Rat) f lo n := by
  induction n with
  | zero => simp [sumZ]
  | succ n ih => simp only [sumZ]; have := h (lo + n); linarith

theorem winSum_nonneg (o : Nat) (f : Int → Int → Rat) (r c : Int) (h : ∀ a b, 0 ≤ f a b) : 0 ≤ winSum o f r c := by
  unfold winSum
  exact sumZ_nonneg _ _ _ (fun a => sumZ_nonneg _ _ _ (fun b => h a b))

theorem winSum_congr (o : Nat) (f g : Int → Int → Rat) (r c : Int) (h : ∀ a b, f a b = g a b) :
    winSum o f r c = winSum o g r c := by
  have : f = g := by funext a b; exact h a b
  rw [this]

/-- `N · Σ z² ≥ (Σ z)²` with `N` the number of window positions -/
theorem sum_sq_ge (o : Nat) (z : Int → Int → Rat) (r c : Int) :
    (winSum o z r c) * (winSum o z r c) ≤
      (((2 * o + 1 : Nat) : Rat) * ((2 * o + 1 : Nat) : Rat)) * winSum o (fun a b => z a b * z a b) r c := by
  set N : Rat := ((2 * o + 1 : Nat) : Rat) * ((2 * o + 1 : Nat) : Rat) with hN
  have hNpos : 0 < N := by
    have : (0 : Rat) < ((2 * o + 1 : Nat) : Rat) := by exact_mod_cast Nat.succ_pos _
    exact mul_pos this this
  set S := winSum o z r c with hS
  set Q := winSum o (fun a b => z a b * z a b) r c with hQ
  -- Σ (N z − S)² ≥ 0, expanded
  have hnn : 0 ≤ winSum o (fun a b => (N * z a b - S) * (N * z a b - S)) r c :=
    winSum_nonneg o _ r c (fun a b => mul_self_nonneg _)
  have hexp : winSum o (fun a b => (N * z a b - S) * (N * z a b - S)) r c = N * N * Q - 2 * N * S * S + S * S * N := by
    have e : ∀ a b, (N * z a b - S) * (N * z a b - S) = (z a b * z a b) * (N * N) + (z a b * (-(2 * N * S)) + S * S) := by
      intro a b; ring
    rw [winSum_congr o _ _ r c e, winSum_add, winSum_mul_const, winSum_add, winSum_mul_const, winSum_const]
    rw [hN]
    ring
  rw [hexp] at hnn
  have : 0 ≤ N * (N * Q - S * S) := by nlinarith
  have h2 : 0 ≤ N * Q - S * S := by
    by_contra hneg
    have hneg : N * Q - S * S < 0 := not_le.mp hneg
    have : N * (N * Q - S * S) < 0 := mul_neg_of_pos_of_neg hNpos hneg
    linarith
  linarith

/-- Cauchy–Schwarz in the form needed for zncc:
    `(N·Σxy − Σx·Σy)² ≤ (N·Σx² − (Σx)²)(N·Σy² − (Σy)²)` -/
theorem cauchy_window (o : Nat) (x y : Int → Int → Rat) (r c : Int) :
    let N : Rat := ((2 * o + 1 : Nat) : Rat) * ((2 * o + 1 : Nat) : Rat)
    let A := N * winSum o (fun a b => x a b * x a b) r c - winSum o x r c * winSum o x r c
    let B := N * winSum o (fun a b => y a b * y a b) r c - winSum o y r c * winSum o y r c
    let C := N * winSum o (fun a b => x a b * y a b) r c - winSum o x r c * winSum o y r c
    C * C ≤ A * B := by
  intro N A B C
  -- for every t: A − 2 t C + t² B ≥ 0
  have key : ∀ t : Rat, 0 ≤ A - 2 * t * C + t * t * B := by
    intro t
    have h := sum_sq_ge o (fun a b => x a b + y a b * (-t)) r c
    have e1 : winSum o (fun a b => x a b + y a b * (-t)) r c = winSum o x r c + winSum o y r c * (-t) := by
      rw [winSum_add, winSum_mul_const]
    have e2 : winSum o (fun a b => (x a b + y a b * (-t)) * (x a b + y a b * (-t))) r c =
        winSum o (fun a b => x a b * x a b) r c + (winSum o (fun a b => x a b * y a b) r c * (-(2 * t)) +
          winSum o (fun a b => y a b * y a b) r c * (t * t)) := by
      have e : ∀ a b, (x a b + y a b * (-t)) * (x a b + y a b * (-t)) =
          x a b * x a b + (x a b * y a b * (-(2 * t)) + y a b * y a b * (t * t)) := by intro a b; ring
      rw [winSum_congr o _ _ r c e, winSum_add, winSum_add, winSum_mul_const, winSum_mul_const]
    rw [e1, e2] at h
    show 0 ≤ A - 2 * t * C + t * t * B
    simp only [A, B, C]
    nlinarith [h]
  have hB : 0 ≤ B := by
    have := sum_sq_ge o y r c
    simp only [B]; linarith
  by_cases hB0 : B = 0
  · -- then C = 0
    have hC : C = 0 := by
      by_contra hC
      have h1 := key ((A + 1) / (2 * C))
      rw [hB0] at h1
      have : 2 * ((A + 1) / (2 * C)) * C = A + 1 := by field_simp
      linarith
    rw [hC, hB0]; simp
  · have hBpos : 0 < B := lt_of_le_of_ne hB (Ne.symm hB0)
    have h1 := key (C / B)
    have e : A - 2 * (C / B) * C + C / B * (C / B) * B = A - C * C / B := by field_simp; ring
    rw [e] at h1
    have : C * C / B ≤ A := by linarith
    have := (div_le_iff₀ hBpos).mp this
    linarith

end Pandora.MC
