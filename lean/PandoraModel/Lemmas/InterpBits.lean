/- Bit lemmas for C14: `f - 2^i + 2^j` replaces bit `i` by bit `j`.  Core Lean only. -/
import PandoraModel.Model.Interp

namespace Pandora.Interp
open Pandora.Flags

theorem mod_two_pow_succ_of_clear {f k : Nat} (h : f.testBit k = false) : f % 2 ^ (k + 1) = f % 2 ^ k := by
  rw [Nat.testBit_eq_decide_div_mod_eq] at h
  have h0 : f / 2 ^ k % 2 = 0 := by
    have : ¬ (f / 2 ^ k % 2 = 1) := by simpa using h
    omega
  rw [Nat.mod_pow_succ, h0]; simp

/-- adding a bit that is clear sets it -/
theorem add_two_pow_eq_or {f k : Nat} (h : f.testBit k = false) : f + 2 ^ k = f ||| 2 ^ k := by
  have hlo : f % 2 ^ (k + 1) < 2 ^ k := by
    rw [mod_two_pow_succ_of_clear h]; exact Nat.mod_lt _ (Nat.two_pow_pos k)
  have hf : f = 2 ^ (k + 1) * (f / 2 ^ (k + 1)) + f % 2 ^ (k + 1) := (Nat.div_add_mod f _).symm
  have hp : 2 ^ (k + 1) = 2 * 2 ^ k := by rw [Nat.pow_succ]; omega
  have hlt : f % 2 ^ (k + 1) + 2 ^ k < 2 ^ (k + 1) := by omega
  calc f + 2 ^ k = 2 ^ (k + 1) * (f / 2 ^ (k + 1)) + (f % 2 ^ (k + 1) + 2 ^ k) := by omega
    _ = 2 ^ (k + 1) * (f / 2 ^ (k + 1)) ||| (f % 2 ^ (k + 1) + 2 ^ k) := Nat.two_pow_add_eq_or_of_lt hlt _
    _ = 2 ^ (k + 1) * (f / 2 ^ (k + 1)) ||| (f % 2 ^ (k + 1) ||| 2 ^ k) := by
        rw [Nat.or_two_pow_eq_add_of_lt hlo]
    _ = (2 ^ (k + 1) * (f / 2 ^ (k + 1)) ||| f % 2 ^ (k + 1)) ||| 2 ^ k := by rw [Nat.or_assoc]
    _ = f ||| 2 ^ k := by
        rw [← Nat.two_pow_add_eq_or_of_lt (Nat.mod_lt _ (Nat.two_pow_pos _)), ← hf]

/-- removing a bit that is set clears it and leaves the others -/
theorem sub_two_pow_testBit {f k : Nat} (h : f.testBit k = true) (j : Nat) :
    (f - 2 ^ k).testBit j = (f.testBit j && decide (j ≠ k)) := by
  have hge : 2 ^ k ≤ f := Nat.ge_two_pow_of_testBit h
  -- g := f - 2^k has bit k clear, and f = g + 2^k = g ||| 2^k
  have hg : (f - 2 ^ k).testBit k = false := by
    have h1 : f = 2 ^ k + (f - 2 ^ k) := by omega
    have h2 := Nat.testBit_two_pow_add_eq (f - 2 ^ k) k
    rw [← h1, h] at h2
    cases hb : (f - 2 ^ k).testBit k
    · rfl
    · rw [hb] at h2; simp at h2
  have hor : f = (f - 2 ^ k) ||| 2 ^ k := by
    rw [← add_two_pow_eq_or hg]; omega
  by_cases hjk : j = k
  · subst hjk; simp [hg]
  · have : f.testBit j = (f - 2 ^ k).testBit j := by
      conv => lhs; rw [hor]
      rw [Nat.testBit_or, Nat.testBit_two_pow]
      have : (k = j) = False := by simp; omega
      simp [this]
    simp [this, hjk]

theorem and_two_pow (f k : Nat) : f &&& 2 ^ k = if f.testBit k then 2 ^ k else 0 := by
  apply Nat.eq_of_testBit_eq; intro i
  rw [Nat.testBit_and, Nat.testBit_two_pow]
  by_cases h : f.testBit k = true
  · rw [if_pos h, Nat.testBit_two_pow]
    by_cases hk : k = i
    · subst hk; simp [h]
    · simp [hk]
  · rw [if_neg h]
    by_cases hk : k = i
    · subst hk; simp at h; simp [h]
    · simp [hk]

theorem hasBit_two_pow (f k : Nat) : hasBit f (2 ^ k) = f.testBit k := by
  unfold hasBit
  rw [and_two_pow]
  by_cases h : f.testBit k = true
  · rw [if_pos h, h]; simp
  · rw [if_neg h]; simp at h; simp [h]

/-- `-= 2^i ; += 2^j` on a word with bit `i` set and bit `j` clear replaces bit `i` by bit `j` -/
theorem sub_add_eq_replaceBit {f i j : Nat} (hi : f.testBit i = true) (hj : f.testBit j = false) :
    f - 2 ^ i + 2 ^ j = replaceBit f (2 ^ i) (2 ^ j) := by
  have hgj : (f - 2 ^ i).testBit j = false := by rw [sub_two_pow_testBit hi]; simp [hj]
  rw [add_two_pow_eq_or hgj]
  unfold replaceBit
  apply Nat.eq_of_testBit_eq; intro m
  simp only [Nat.testBit_or, Nat.testBit_xor, Nat.testBit_and, Nat.testBit_two_pow, sub_two_pow_testBit hi]
  by_cases hmi : i = m
  · subst hmi; simp [hi]
  · have : ¬ m = i := fun h => hmi h.symm
    simp [hmi, this]

end Pandora.Interp
