/-
  C12 — frame: a confidence step only appends bands (named from the method and the step name), never
  touches the cost volume nor anything the later disparity step reads; percentile normalisation lands
  in [0, 1] exactly when the clipped map is not constant.
-/
import PandoraModel.Lemmas.C12Regul

namespace Pandora.C12
open Pandora Pandora.Confidence

/-! ### allocation -/

def mkBand (nb : Name × Grid Val) : Band := ⟨confPrefix ++ nb.1, nb.2⟩

def allocStep (st : CState) (nb : Name × Grid Val) : CState :=
  let (d, c) := allocate nb.1 nb.2 st.dispDS st.cvBands
  { st with dispDS := d, cvBands := c }

/-- what a disparity dataset holds after the bands `new` were allocated on it and on the cost volume -/
def dispAfter (old : DispDS) (cvOld : Option (List Band)) (new : List Band) : DispDS :=
  match old with
  | .none => .none
  | .ds (some bs) => .ds (some (bs ++ new))
  | .ds none => if new = [] then .ds none else .ds (some (cvOld.getD [] ++ new))

theorem allocStep_frame (st : CState) (nb : Name × Grid Val) :
    (allocStep st nb).cost = st.cost ∧ (allocStep st nb).isMax = st.isMax ∧ (allocStep st nb).disp = st.disp
    ∧ (allocStep st nb).img = st.img ∧ (allocStep st nb).window = st.window := by
  simp [allocStep]

theorem allocStep_bands (st : CState) (nb : Name × Grid Val) :
    (allocStep st nb).cvBands = some (st.cvBands.getD [] ++ [mkBand nb])
    ∧ (allocStep st nb).dispDS = dispAfter st.dispDS st.cvBands [mkBand nb] := by
  unfold allocStep allocate dispAfter mkBand
  cases hcv : st.cvBands <;> cases hd : st.dispDS with
  | none => simp
  | ds bs => cases bs <;> simp

theorem foldl_alloc (bands : List (Name × Grid Val)) (st : CState) :
    let st' := bands.foldl allocStep st
    st'.cost = st.cost ∧ st'.isMax = st.isMax ∧ st'.disp = st.disp ∧ st'.img = st.img ∧ st'.window = st.window
    ∧ st'.cvBands.getD [] = st.cvBands.getD [] ++ bands.map mkBand
    ∧ (bands ≠ [] → st'.cvBands = some (st.cvBands.getD [] ++ bands.map mkBand))
    ∧ st'.dispDS = dispAfter st.dispDS st.cvBands (bands.map mkBand) := by
  induction bands generalizing st with
  | nil =>
    simp only [List.foldl_nil, List.map_nil, List.append_nil, ne_eq, not_true_eq_false, false_implies, true_and]
    unfold dispAfter
    cases st.dispDS with
    | none => rfl
    | ds bs => cases bs <;> simp
  | cons nb rest ih =>
    simp only [List.foldl_cons]
    obtain ⟨h1, h2, h3, h4, h5, h6, h7, h8⟩ := ih (allocStep st nb)
    obtain ⟨f1, f2, f3, f4, f5⟩ := allocStep_frame st nb
    obtain ⟨b1, b2⟩ := allocStep_bands st nb
    refine ⟨h1.trans f1, h2.trans f2, h3.trans f3, h4.trans f4, h5.trans f5, ?_, ?_, ?_⟩
    · rw [h6, b1]; simp
    · intro _
      cases hr : rest with
      | nil => subst hr; simpa using b1
      | cons x xs =>
        rw [← hr, h7 (by rw [hr]; simp), b1]; simp
    · rw [h8, b1, b2]
      unfold dispAfter
      cases hd : st.dispDS with
      | none => rfl
      | ds bs =>
        cases bs with
        | some l => simp
        | none => simp

/-! ### names -/

theorem methodBands_names (st : CState) (ind : Name) (m : Method) (bands : List (Name × Grid Val))
    (h : methodBands st ind m = some bands) : bands.map (·.1) = (Spec.stems m).map (· ++ ind) := by
  cases m with
  | ambiguity etas n =>
    simp only [methodBands, Option.map_eq_some_iff] at h
    obtain ⟨g, _, rfl⟩ := h
    rfl
  | risk etas =>
    simp only [methodBands, Option.map_eq_some_iff] at h
    obtain ⟨g, _, rfl⟩ := h
    rfl
  | intervalBounds thr reg =>
    simp only [methodBands] at h
    cases hb : computeBounds st.isMax thr st.disp st.cost with
    | none => rw [hb] at h; cases h
    | some g =>
      rw [hb] at h
      cases reg with
      | none => simp at h; subst h; rfl
      | some p =>
        obtain ⟨ambInd, athr, k, depth, q⟩ := p
        simp only at h
        split at h
        · cases h
        · simp at h; subst h; rfl
  | stdIntensity =>
    simp only [methodBands, Option.some.injEq] at h
    subst h; rfl

/-- the names the model gives to the bands of a step -/
def modelNames (s : Step) : List Name :=
  (Spec.stems s.method).map (fun stem => confPrefix ++ (stem ++ indicatorOf s.name))

theorem runStep_frame (st st' : CState) (s : Step) (h : runStep st s = some st') :
    st'.cost = st.cost ∧ st'.isMax = st.isMax ∧ st'.disp = st.disp ∧ st'.img = st.img ∧ st'.window = st.window
    ∧ ∃ new : List Band, new.map (·.name) = modelNames s
      ∧ st'.cvBands.getD [] = st.cvBands.getD [] ++ new
      ∧ st'.dispDS = dispAfter st.dispDS st.cvBands new := by
  unfold runStep at h
  cases hm : methodBands st (indicatorOf s.name) s.method with
  | none => rw [hm] at h; cases h
  | some bands =>
    rw [hm] at h
    simp only [Option.some.injEq] at h
    have hfold := foldl_alloc bands st
    have heq : bands.foldl (fun st (nb : Name × Grid Val) =>
        let (d, c) := allocate nb.1 nb.2 st.dispDS st.cvBands
        { st with dispDS := d, cvBands := c }) st = bands.foldl allocStep st := rfl
    rw [heq] at h
    subst h
    obtain ⟨h1, h2, h3, h4, h5, h6, _, h8⟩ := hfold
    refine ⟨h1, h2, h3, h4, h5, bands.map mkBand, ?_, h6, h8⟩
    have := methodBands_names st _ _ _ hm
    unfold modelNames
    have e : (Spec.stems s.method).map (fun stem => confPrefix ++ (stem ++ indicatorOf s.name))
        = ((Spec.stems s.method).map (· ++ indicatorOf s.name)).map (fun x => confPrefix ++ x) := by
      rw [List.map_map]; rfl
    rw [e, ← this, List.map_map, List.map_map]
    rfl

/-- **bands_only_append / cv_same** for any number and order of confidence steps: the cost volume and
    everything the later disparity step reads are untouched; the band list is the old one followed by
    the new bands, named step by step -/
theorem runSteps_frame (steps : List Step) :
    ∀ (st st' : CState), runSteps st steps = some st' →
      st'.cost = st.cost ∧ st'.isMax = st.isMax ∧ st'.disp = st.disp ∧ st'.img = st.img ∧ st'.window = st.window
      ∧ ∃ new : List Band, new.map (·.name) = steps.flatMap modelNames
        ∧ st'.cvBands.getD [] = st.cvBands.getD [] ++ new := by
  induction steps with
  | nil =>
    intro st st' h
    simp only [runSteps, Option.some.injEq] at h
    subst h
    exact ⟨rfl, rfl, rfl, rfl, rfl, [], rfl, by simp⟩
  | cons s rest ih =>
    intro st st' h
    rw [runSteps] at h
    cases hs : runStep st s with
    | none => rw [hs] at h; cases h
    | some st1 =>
      rw [hs] at h
      obtain ⟨a1, a2, a3, a4, a5, new1, n1, c1, _⟩ := runStep_frame st st1 s hs
      obtain ⟨b1, b2, b3, b4, b5, new2, n2, c2⟩ := ih st1 st' h
      refine ⟨b1.trans a1, b2.trans a2, b3.trans a3, b4.trans a4, b5.trans a5, new1 ++ new2, ?_, ?_⟩
      · rw [List.map_append, n1, n2, List.flatMap_cons]
      · rw [c2, c1, List.append_assoc]

/-- **later_disp_flags_same**: the disparity map of the later winner-takes-all step is the one it would
    be without the confidence steps -/
theorem later_disparity_same (steps : List Step) (st st' : CState) (h : runSteps st steps = some st') :
    (laterDisparity st').1 = (laterDisparity st).1 := by
  obtain ⟨h1, h2, h3, _⟩ := runSteps_frame steps st st' h
  unfold laterDisparity
  simp only [h1, h2, h3]

/-! ### the suffix rule -/

theorem splitDots_no_dot (l : List Char) (h : ∀ c ∈ l, c ≠ '.') : splitDots l = [l] := by
  induction l with
  | nil => rfl
  | cons c cs ih =>
    have hc : c ≠ '.' := h c (by simp)
    rw [splitDots, ih (fun d hd => h d (by simp [hd]))]
    simp [hc]

theorem splitDots_ne_nil (l : List Char) : splitDots l ≠ [] := by
  induction l with
  | nil => simp [splitDots]
  | cons c cs ih =>
    rw [splitDots]
    cases h : splitDots cs with
    | nil => exact absurd h ih
    | cons p ps => simp only; split <;> simp

/-- a step name `kind.suffix` whose suffix has no further dot gets exactly that suffix; a name without a
    dot gets none: on these names the code's rule is the specification's "everything from the first dot" -/
theorem indicatorOf_eq_suffix (kind sfx : List Char) (hk : ∀ c ∈ kind, c ≠ '.') (hs : ∀ c ∈ sfx, c ≠ '.') :
    indicatorOf (kind ++ '.' :: sfx) = Spec.suffixOf (kind ++ '.' :: sfx)
    ∧ indicatorOf kind = Spec.suffixOf kind := by
  constructor
  · have hsplit : splitDots (kind ++ '.' :: sfx) = [kind, sfx] := by
      induction kind with
      | nil => simp [splitDots, splitDots_no_dot sfx hs]
      | cons c cs ih =>
        have hc : c ≠ '.' := hk c (by simp)
        rw [List.cons_append, splitDots, ih (fun d hd => hk d (by simp [hd]))]
        simp [hc]
    unfold indicatorOf Spec.suffixOf
    rw [hsplit]
    simp only
    rw [List.dropWhile_append_of_pos]
    · simp
    · intro c hc; simpa using hk c hc
  · unfold indicatorOf Spec.suffixOf
    rw [splitDots_no_dot kind hk]
    simp only
    symm
    clear hs
    induction kind with
    | nil => rfl
    | cons c cs ih =>
      have hc : c ≠ '.' := hk c (by simp)
      rw [List.dropWhile_cons]
      simp only [bne_iff_ne, ne_eq, hc, not_false_eq_true, if_true]
      exact ih (fun d hd => hk d (by simp [hd]))

/-- the finding F11b: a step name with two dots gets no suffix at all -/
theorem indicator_two_dots_counterexample :
    indicatorOf "cost_volume_confidence.a.b".toList = [] ∧
    Spec.suffixOf "cost_volume_confidence.a.b".toList = ".a.b".toList ∧
    modelNames ⟨"cost_volume_confidence.a.b".toList, .stdIntensity⟩ = modelNames ⟨"cost_volume_confidence".toList, .stdIntensity⟩ := by
  decide

/-! ### percentile normalisation -/

def clipped (perc : Rat) (l : List Rat) : List Rat :=
  l.map (clipRat (percentile l perc) (percentile l (100 - perc)))

/-- **ambiguity_normalised_range**: when the clipped ambiguity map takes two distinct values, every
    normalised ambiguity — and every confidence `1 − ambiguity` — is a finite number of `[0, 1]` -/
theorem normalize_unit (perc : Rat) (l : List Rat)
    (hd : ∃ x ∈ clipped perc l, ∃ y ∈ clipped perc l, x ≠ y) :
    ∀ v ∈ normalizeWithPercentile perc l,
      Spec.inUnit v = true ∧ Spec.inUnit (Val.map (fun x => 1 - x) v) = true := by
  obtain ⟨x, hx, y, hy, hxy⟩ := hd
  unfold normalizeWithPercentile
  simp only
  change ∀ v ∈ (match lmin (clipped perc l), lmax (clipped perc l) with
    | some lo, some hi => if hi = lo then (clipped perc l).map (fun _ => Val.nan)
        else (clipped perc l).map (fun x => Val.num ((x - lo) / (hi - lo)))
    | _, _ => []), _
  cases hlo : lmin (clipped perc l) with
  | none => rw [(lmin_eq_none _).1 hlo] at hx; simp at hx
  | some lo =>
    cases hhi : lmax (clipped perc l) with
    | none => rw [(lmax_eq_none _).1 hhi] at hx; simp at hx
    | some hi =>
      have hlo' := lmin_le _ _ hlo
      have hhi' := lmax_ge _ _ hhi
      have hne : hi ≠ lo := by
        intro h
        apply hxy
        have h1 := hlo' x hx; have h2 := hhi' x hx; have h3 := hlo' y hy; have h4 := hhi' y hy
        rw [h] at h2 h4
        exact le_antisymm (le_trans h2 h3) (le_trans h4 h1)
      have hlt : lo < hi := lt_of_le_of_ne (le_trans (hlo' x hx) (hhi' x hx)) (Ne.symm hne)
      have hpos : 0 < hi - lo := by linarith
      simp only [hne, if_false]
      intro v hv
      obtain ⟨z, hz, rfl⟩ := List.mem_map.1 hv
      have h1 := hlo' z hz
      have h2 := hhi' z hz
      have h0 : 0 ≤ (z - lo) / (hi - lo) := div_nonneg (by linarith) (le_of_lt hpos)
      have h1' : (z - lo) / (hi - lo) ≤ 1 := by rw [div_le_one hpos]; linarith
      simp only [Spec.inUnit, Val.map, Bool.and_eq_true, decide_eq_true_eq]
      exact ⟨⟨h0, h1'⟩, by linarith, by linarith⟩

/-- the finding F11 in general: when the clipped map is constant the band is NaN everywhere -/
theorem normalize_constant_nan (perc : Rat) (l : List Rat)
    (hc : ∀ x ∈ clipped perc l, ∀ y ∈ clipped perc l, x = y) :
    ∀ v ∈ normalizeWithPercentile perc l, v = Val.nan := by
  unfold normalizeWithPercentile
  simp only
  change ∀ v ∈ (match lmin (clipped perc l), lmax (clipped perc l) with
    | some lo, some hi => if hi = lo then (clipped perc l).map (fun _ => Val.nan)
        else (clipped perc l).map (fun x => Val.num ((x - lo) / (hi - lo)))
    | _, _ => []), _
  cases hlo : lmin (clipped perc l) with
  | none => simp
  | some lo =>
    cases hhi : lmax (clipped perc l) with
    | none => simp
    | some hi =>
      have : hi = lo := hc hi (lmax_mem _ _ hhi) lo (lmin_mem _ _ hlo)
      simp [this]

/-- …and it happens within the quantifier of the property: a cost volume with two distinct finite costs
    whose normalised ambiguity band is NaN everywhere -/
theorem ambiguity_normalised_counterexample :
    let v : Volume := [[[.num 0, .num 1]], [[.num 0, .num 1]]]
    globalMin v = some 0 ∧ globalMax v = some 1 ∧
    ambiguityBand [0, 1/2] true 1 v = some [[.nan], [.nan]] := by
  decide +kernel

/-- the finding F10: on a max measure the kernel (best = min) does not count the disparities close to
    the pixel's best (the maximum): unique maximum at index 2, specification 1 per eta, kernel 2 -/
theorem ambiguity_max_counterexample :
    let curve : Curve := [.num 0, .num 0, .num 4]
    pixelAmbiguity 0 4 [0, 1/4] curve = 4 ∧ Spec.ambCount true 0 4 [0, 1/4] curve = 2
    ∧ Spec.ambCount false 0 4 [0, 1/4] curve = 4 := by
  decide +kernel

end Pandora.C12
