/-
  C12 — regularisation with quantile 1 can only widen the intervals.
  Every segment is connected to itself in the graph built by `create_connected_graph`, so the values
  gathered for a segment contain the segment's own pixels; with quantile 1 the regularised lower bound is
  the `nanmin` (quantile 0) and the upper bound the `nanmax` (quantile 1) of the gathered values.
-/
import PandoraModel.Lemmas.C12Bounds

namespace Pandora.C12
open Pandora Pandora.Confidence

/-- cell `(r, c)` of a grid, `none` outside -/
def cell? (g : Grid Val) (r c : Nat) : Option Val := (g[r]?).bind (fun row => row[c]?)

theorem cell?_setRange (g : Grid Val) (r0 c0 c1 : Nat) (x : Val) (r c : Nat) :
    cell? (setRange g r0 c0 c1 x) r c
      = (cell? g r c).map (fun v => if r = r0 ∧ c0 ≤ c ∧ c ≤ c1 then x else v) := by
  unfold cell? setRange
  rw [List.getElem?_mapIdx]
  cases hg : g[r]? with
  | none => rfl
  | some row =>
    simp only [Option.map_some, Option.bind_some]
    by_cases hr : r = r0
    · subst hr
      simp only [if_true, List.getElem?_mapIdx, true_and]
    · simp only [hr, if_false, false_and]
      cases row[c]? <;> rfl

theorem mem_rowSlice (g : Grid Val) (r c c0 c1 : Nat) (v : Val) (h : cell? g r c = some v)
    (h0 : c0 ≤ c) (h1 : c ≤ c1) : v ∈ rowSlice g r c0 c1 := by
  unfold cell? at h
  cases hg : g[r]? with
  | none => rw [hg] at h; cases h
  | some row =>
    rw [hg] at h
    simp only [Option.bind_some] at h
    unfold rowSlice
    have hrow : g.getD r [] = row := by simp [List.getD_eq_getElem?_getD, hg]
    rw [hrow, List.mem_iff_getElem?]
    refine ⟨c - c0, ?_⟩
    rw [List.getElem?_drop, List.getElem?_take]
    have : c0 + (c - c0) = c := by omega
    rw [this]
    simp [Nat.lt_succ_of_le h1, h]

/-! ### numba `nanquantile` at 0 and at 1 -/

theorem nanQuantile_zero (l : List Val) :
    nanQuantile l 0 = valOfOpt (lmin (numsOf l)) := by
  unfold nanQuantile
  cases hx : numsOf l with
  | nil => simp [lmin, valOfOpt]
  | cons x xs =>
    cases xs with
    | nil => simp [lmin, valOfOpt]
    | cons y ys => simp

theorem nanQuantile_one (l : List Val) :
    nanQuantile l 1 = valOfOpt (lmax (numsOf l)) := by
  unfold nanQuantile
  cases hx : numsOf l with
  | nil => simp [lmax, valOfOpt]
  | cons x xs =>
    cases xs with
    | nil => simp [lmax, valOfOpt]
    | cons y ys => simp

theorem nanmin_le_of_mem (l : List Val) (a : Rat) (h : Val.num a ∈ l) :
    ∃ m, nanQuantile l 0 = Val.num m ∧ m ≤ a := by
  rw [nanQuantile_zero]
  have hmem : a ∈ numsOf l := (mem_numsOf l a).2 h
  cases hm : lmin (numsOf l) with
  | none => rw [(lmin_eq_none _).1 hm] at hmem; simp at hmem
  | some m => exact ⟨m, rfl, lmin_le _ _ hm a hmem⟩

theorem nanmax_ge_of_mem (l : List Val) (a : Rat) (h : Val.num a ∈ l) :
    ∃ m, nanQuantile l 1 = Val.num m ∧ a ≤ m := by
  rw [nanQuantile_one]
  have hmem : a ∈ numsOf l := (mem_numsOf l a).2 h
  cases hm : lmax (numsOf l) with
  | none => rw [(lmax_eq_none _).1 hm] at hmem; simp at hmem
  | some m => exact ⟨m, rfl, lmax_ge _ _ hm a hmem⟩

/-! ### the fold of `graph_regularization` -/

/-- the segment's own pixels are among the values gathered for it -/
def SelfConnected (g : Grid Val) (segs : List (Pos × Pos)) (sg : (Pos × Pos) × List Bool) : Prop :=
  ∀ v, v ∈ rowSlice g sg.1.1.1 sg.1.1.2 sg.1.2.2 → v ∈ aggValues g segs sg.2

theorem foldl_widens_inf (inf : Grid Val) (segs : List (Pos × Pos)) (todo : List ((Pos × Pos) × List Bool))
    (f : Grid Val → (Pos × Pos) × List Bool → Grid Val)
    (hf : ∀ g sg, f g sg = setRange g sg.1.1.1 sg.1.1.2 sg.1.2.2 (nanQuantile (aggValues inf segs sg.2) 0))
    (hself : ∀ sg ∈ todo, SelfConnected inf segs sg)
    (g : Grid Val)
    (hinv : ∀ r c a, cell? inf r c = some (Val.num a) → ∃ a', cell? g r c = some (Val.num a') ∧ a' ≤ a) :
    ∀ r c a, cell? inf r c = some (Val.num a) → ∃ a', cell? (todo.foldl f g) r c = some (Val.num a') ∧ a' ≤ a := by
  induction todo generalizing g with
  | nil => simpa using hinv
  | cons sg rest ih =>
    rw [List.foldl_cons]
    apply ih (fun s hs => hself s (by simp [hs]))
    intro r c a ha
    obtain ⟨a', hg, hle⟩ := hinv r c a ha
    rw [hf, cell?_setRange, hg]
    simp only [Option.map_some]
    by_cases hin : r = sg.1.1.1 ∧ sg.1.1.2 ≤ c ∧ c ≤ sg.1.2.2
    · simp only [hin, and_self, if_true]
      obtain ⟨hr, h0, h1⟩ := hin
      have hmem : Val.num a ∈ aggValues inf segs sg.2 :=
        hself sg (by simp) _ (mem_rowSlice inf _ c _ _ _ (by rw [← hr]; exact ha) h0 h1)
      obtain ⟨m, hq, hm⟩ := nanmin_le_of_mem _ a hmem
      exact ⟨m, by rw [hq], hm⟩
    · simp only [hin, if_false]
      exact ⟨a', rfl, hle⟩

theorem foldl_widens_sup (sup : Grid Val) (segs : List (Pos × Pos)) (todo : List ((Pos × Pos) × List Bool))
    (f : Grid Val → (Pos × Pos) × List Bool → Grid Val)
    (hf : ∀ g sg, f g sg = setRange g sg.1.1.1 sg.1.1.2 sg.1.2.2 (nanQuantile (aggValues sup segs sg.2) 1))
    (hself : ∀ sg ∈ todo, SelfConnected sup segs sg)
    (g : Grid Val)
    (hinv : ∀ r c a, cell? sup r c = some (Val.num a) → ∃ a', cell? g r c = some (Val.num a') ∧ a ≤ a') :
    ∀ r c a, cell? sup r c = some (Val.num a) → ∃ a', cell? (todo.foldl f g) r c = some (Val.num a') ∧ a ≤ a' := by
  induction todo generalizing g with
  | nil => simpa using hinv
  | cons sg rest ih =>
    rw [List.foldl_cons]
    apply ih (fun s hs => hself s (by simp [hs]))
    intro r c a ha
    obtain ⟨a', hg, hle⟩ := hinv r c a ha
    rw [hf, cell?_setRange, hg]
    simp only [Option.map_some]
    by_cases hin : r = sg.1.1.1 ∧ sg.1.1.2 ≤ c ∧ c ≤ sg.1.2.2
    · simp only [hin, and_self, if_true]
      obtain ⟨hr, h0, h1⟩ := hin
      have hmem : Val.num a ∈ aggValues sup segs sg.2 :=
        hself sg (by simp) _ (mem_rowSlice sup _ c _ _ _ (by rw [← hr]; exact ha) h0 h1)
      obtain ⟨m, hq, hm⟩ := nanmax_ge_of_mem _ a hmem
      exact ⟨m, by rw [hq], hm⟩
    · simp only [hin, if_false]
      exact ⟨a', rfl, hle⟩

/-! ### every segment is connected to itself -/

theorem connectedGraph_shape (segs : List (Pos × Pos)) (depth : Nat) :
    ∃ F : Nat → Nat → Bool, (∀ i, F i i = true) ∧
      connectedGraph segs depth = (List.range segs.length).map (fun i => (List.range segs.length).map (F i)) := by
  unfold connectedGraph
  by_cases hd : depth = 0
  · exact ⟨fun i k => decide (i = k), by simp, by simp [hd]⟩
  · refine ⟨fun i k => if k = i then true
        else (iterate (closureStep (connectionGraph segs)) (depth - 1) ((connectionGraph segs).getD i [])).getD k false,
      by simp, by simp [hd]⟩

theorem selfConnected_of_shape (g : Grid Val) (segs : List (Pos × Pos)) (F : Nat → Nat → Bool) (hF : ∀ i, F i i = true) :
    ∀ sg ∈ segs.zip ((List.range segs.length).map (fun i => (List.range segs.length).map (F i))),
      SelfConnected g segs sg := by
  intro sg hsg
  obtain ⟨i, hi, hget⟩ := List.getElem_of_mem hsg
  have hi' : i < segs.length := by
    simp only [List.length_zip, List.length_map, List.length_range, Nat.min_self] at hi; exact hi
  rw [List.getElem_zip] at hget
  subst hget
  intro v hv
  unfold aggValues
  rw [List.mem_flatMap]
  refine ⟨(segs[i], true), ?_, by simpa using hv⟩
  rw [List.mem_iff_getElem]
  refine ⟨i, by simp [hi'], ?_⟩
  rw [List.getElem_zip]
  simp [hF i]

/-- **quantile1_widens** on the model of `graph_regularization` with the graph of
    `create_connected_graph`: every finite lower bound stays finite and does not increase, every finite
    upper bound stays finite and does not decrease — for any grids, any segments, any depth -/
theorem graphRegularization_widens (inf sup : Grid Val) (segs : List (Pos × Pos)) (depth : Nat) :
    (∀ r c a, cell? inf r c = some (Val.num a) →
      ∃ a', cell? (graphRegularization inf sup segs (connectedGraph segs depth) 1).1 r c = some (Val.num a') ∧ a' ≤ a)
    ∧ (∀ r c a, cell? sup r c = some (Val.num a) →
      ∃ a', cell? (graphRegularization inf sup segs (connectedGraph segs depth) 1).2 r c = some (Val.num a') ∧ a ≤ a') := by
  obtain ⟨F, hF, hshape⟩ := connectedGraph_shape segs depth
  rw [hshape]
  unfold graphRegularization
  -- the fold on the pair is the pair of the folds
  have hpair : ∀ (todo : List ((Pos × Pos) × List Bool)) (a b : Grid Val),
      todo.foldl (fun (acc : Grid Val × Grid Val) (sg : (Pos × Pos) × List Bool) =>
          (setRange acc.1 sg.1.1.1 sg.1.1.2 sg.1.2.2 (nanQuantile (aggValues inf segs sg.2) (1 - 1)),
           setRange acc.2 sg.1.1.1 sg.1.1.2 sg.1.2.2 (nanQuantile (aggValues sup segs sg.2) 1))) (a, b)
      = (todo.foldl (fun g sg => setRange g sg.1.1.1 sg.1.1.2 sg.1.2.2 (nanQuantile (aggValues inf segs sg.2) 0)) a,
         todo.foldl (fun g sg => setRange g sg.1.1.1 sg.1.1.2 sg.1.2.2 (nanQuantile (aggValues sup segs sg.2) 1)) b) := by
    intro todo
    induction todo with
    | nil => intro a b; rfl
    | cons sg rest ih =>
      intro a b
      simp only [List.foldl_cons]
      rw [ih]
      norm_num
  have hform : ∀ (todo : List ((Pos × Pos) × List Bool)) (ab : Grid Val × Grid Val),
      todo.foldl (fun (acc : Grid Val × Grid Val) (sg : (Pos × Pos) × List Bool) =>
          let (l, r) := sg.1
          (setRange acc.1 l.1 l.2 r.2 (nanQuantile (aggValues inf segs sg.2) (1 - 1)),
           setRange acc.2 l.1 l.2 r.2 (nanQuantile (aggValues sup segs sg.2) 1))) ab
      = todo.foldl (fun (acc : Grid Val × Grid Val) (sg : (Pos × Pos) × List Bool) =>
          (setRange acc.1 sg.1.1.1 sg.1.1.2 sg.1.2.2 (nanQuantile (aggValues inf segs sg.2) (1 - 1)),
           setRange acc.2 sg.1.1.1 sg.1.1.2 sg.1.2.2 (nanQuantile (aggValues sup segs sg.2) 1))) ab := by
    intro todo ab
    rfl
  rw [hform, hpair]
  have hself1 := selfConnected_of_shape inf segs F hF
  have hself2 := selfConnected_of_shape sup segs F hF
  exact ⟨foldl_widens_inf inf segs _ _ (fun _ _ => rfl) hself1 inf (fun r c a h => ⟨a, h, le_refl _⟩),
         foldl_widens_sup sup segs _ _ (fun _ _ => rfl) hself2 sup (fun r c a h => ⟨a, h, le_refl _⟩)⟩

/-- the same for `interval_regularization` as a whole (any ambiguity map, threshold, kernel, depth) -/
theorem intervalRegularization_widens (inf sup amb : Grid Val) (thr : Rat) (k depth : Nat) :
    (∀ r c a, cell? inf r c = some (Val.num a) →
      ∃ a', cell? (intervalRegularization inf sup amb thr k depth 1).1 r c = some (Val.num a') ∧ a' ≤ a)
    ∧ (∀ r c a, cell? sup r c = some (Val.num a) →
      ∃ a', cell? (intervalRegularization inf sup amb thr k depth 1).2 r c = some (Val.num a') ∧ a ≤ a') := by
  unfold intervalRegularization
  exact graphRegularization_widens inf sup _ depth

end Pandora.C12
