/-
  Lemmas about the finite sums / quantifiers of `Model/MatchingCost.lean` (`sumZ`, `allZ`, `anyZ`) and about
  NaN-absorbing addition of `Val`.
-/
import PandoraModel.Model.MatchingCost
import Mathlib.Tactic.Linarith
import Mathlib.Tactic.Ring

namespace Pandora.MC

open Pandora

/-! ### `Val` addition -/

@[simp] theorem val_num_add_num (a b : Rat) : (Val.num a + Val.num b) = Val.num (a + b) := rfl
@[simp] theorem val_add_nan (v : Val) : v + Val.nan = Val.nan := by cases v <;> rfl
@[simp] theorem val_nan_add (v : Val) : Val.nan + v = Val.nan := by cases v <;> rfl

/-! ### `sumZ` -/

theorem sumZ_congr {α : Type} [Add α] (z : α) (f g : Int → α) (lo : Int) (n : Nat)
    (h : ∀ i : Nat, i < n → f (lo + i) = g (lo + i)) : sumZ z f lo n = sumZ z g lo n := by
  induction n with
  | zero => rfl
  | succ n ih =>
    simp only [sumZ]
    rw [ih (fun i hi => h i (Nat.lt_succ_of_lt hi)), h n (Nat.lt_succ_self n)]

/-- re-indexing: `Σ_{i=lo}^{lo+n-1} f (i + d) = Σ_{i=lo+d}^{lo+d+n-1} f i` -/
theorem sumZ_shift {α : Type} [Add α] (z : α) (f : Int → α) (d lo : Int) (n : Nat) :
    sumZ z (fun i => f (i + d)) lo n = sumZ z f (lo + d) n := by
  induction n with
  | zero => rfl
  | succ n ih =>
    simp only [sumZ]
    rw [ih]
    congr 2
    ring

/-- a sum of numbers is the number of the sum -/
theorem sumZ_val_num (g : Int → Val) (q : Int → Rat) (lo : Int) (n : Nat)
    (h : ∀ i : Nat, i < n → g (lo + i) = Val.num (q (lo + i))) :
    sumZ (Val.num 0) g lo n = Val.num (sumZ (0 : Rat) q lo n) := by
  induction n with
  | zero => rfl
  | succ n ih =>
    simp only [sumZ]
    rw [ih (fun i hi => h i (Nat.lt_succ_of_lt hi)), h n (Nat.lt_succ_self n)]
    rfl

/-- one NaN term makes the sum NaN -/
theorem sumZ_val_nan (g : Int → Val) (lo : Int) (n : Nat)
    (h : ∃ i : Nat, i < n ∧ g (lo + i) = Val.nan) : sumZ (Val.num 0) g lo n = Val.nan := by
  induction n with
  | zero => obtain ⟨i, hi, _⟩ := h; omega
  | succ n ih =>
    obtain ⟨i, hi, hg⟩ := h
    simp only [sumZ]
    by_cases hin : i = n
    · subst hin; rw [hg]; simp
    · rw [ih ⟨i, by omega, hg⟩]; simp

/-! ### `allZ`, `anyZ` -/

theorem allZ_iff (f : Int → Bool) (lo : Int) (n : Nat) :
    allZ f lo n = true ↔ ∀ i : Nat, i < n → f (lo + i) = true := by
  induction n with
  | zero => simp [allZ]
  | succ n ih =>
    simp only [allZ, Bool.and_eq_true, ih]
    constructor
    · rintro ⟨h1, h2⟩ i hi
      by_cases hin : i = n
      · subst hin; exact h2
      · exact h1 i (by omega)
    · intro h
      exact ⟨fun i hi => h i (by omega), h n (by omega)⟩

theorem allZ_iff_int (f : Int → Bool) (lo : Int) (n : Nat) :
    allZ f lo n = true ↔ ∀ i : Int, lo ≤ i → i < lo + n → f i = true := by
  rw [allZ_iff]
  constructor
  · intro h i h1 h2
    have := h (i - lo).toNat (by omega)
    have e : lo + ((i - lo).toNat : Int) = i := by omega
    rwa [e] at this
  · intro h i hi
    exact h (lo + i) (by omega) (by omega)

theorem anyZ_iff (f : Int → Bool) (lo : Int) (n : Nat) :
    anyZ f lo n = true ↔ ∃ i : Nat, i < n ∧ f (lo + i) = true := by
  induction n with
  | zero => simp [anyZ]
  | succ n ih =>
    simp only [anyZ, Bool.or_eq_true, ih]
    constructor
    · rintro (⟨i, hi, h⟩ | h)
      · exact ⟨i, by omega, h⟩
      · exact ⟨n, by omega, h⟩
    · rintro ⟨i, hi, h⟩
      by_cases hin : i = n
      · subst hin; exact Or.inr h
      · exact Or.inl ⟨i, by omega, h⟩

theorem anyZ_iff_int (f : Int → Bool) (lo : Int) (n : Nat) :
    anyZ f lo n = true ↔ ∃ i : Int, lo ≤ i ∧ i < lo + n ∧ f i = true := by
  rw [anyZ_iff]
  constructor
  · rintro ⟨i, hi, h⟩
    exact ⟨lo + i, by omega, by omega, h⟩
  · rintro ⟨i, h1, h2, h⟩
    refine ⟨(i - lo).toNat, by omega, ?_⟩
    have e : lo + ((i - lo).toNat : Int) = i := by omega
    rwa [e]

/-! ### two-dimensional window sums of `Val` -/

/-- all cells of the `n × m` block are numbers: the block sum is the number of the block sum -/
theorem sumZ2_val_num (f : Int → Int → Val) (q : Int → Int → Rat) (r c : Int) (n m : Nat)
    (h : ∀ i j : Nat, i < n → j < m → f (r + i) (c + j) = Val.num (q (r + i) (c + j))) :
    sumZ (Val.num 0) (fun a => sumZ (Val.num 0) (fun b => f a b) c m) r n
      = Val.num (sumZ (0 : Rat) (fun a => sumZ (0 : Rat) (fun b => q a b) c m) r n) := by
  apply sumZ_val_num (fun a => sumZ (Val.num 0) (fun b => f a b) c m) (fun a => sumZ (0 : Rat) (fun b => q a b) c m)
  intro i hi
  exact sumZ_val_num (fun b => f (r + i) b) (fun b => q (r + i) b) c m (fun j hj => h i j hi hj)

/-- one NaN cell in the block makes the block sum NaN -/
theorem sumZ2_val_nan (f : Int → Int → Val) (r c : Int) (n m : Nat)
    (h : ∃ i j : Nat, i < n ∧ j < m ∧ f (r + i) (c + j) = Val.nan) :
    sumZ (Val.num 0) (fun a => sumZ (Val.num 0) (fun b => f a b) c m) r n = Val.nan := by
  obtain ⟨i, j, hi, hj, hf⟩ := h
  apply sumZ_val_nan
  exact ⟨i, hi, sumZ_val_nan (fun b => f (r + i) b) c m ⟨j, hj, hf⟩⟩

/-! ### rational sums: splitting, linearity, exchanging the order -/

theorem sumZ_append (g : Int → Rat) (lo : Int) (n m : Nat) :
    sumZ (0 : Rat) g lo (n + m) = sumZ (0 : Rat) g lo n + sumZ (0 : Rat) g (lo + n) m := by
  induction m with
  | zero => simp [sumZ]
  | succ m ih =>
    rw [← Nat.add_assoc]
    simp only [sumZ]
    rw [ih]
    have : lo + ((n + m : Nat) : Int) = lo + (n : Int) + (m : Int) := by push_cast; ring
    rw [this]
    ring

/-- cumulative sum differences: `cum (i + w) − cum i = Σ_{a = i}^{i + w - 1}` -/
theorem sumZ_cum_diff (g : Int → Rat) (i : Int) (w : Nat) (hi : 0 ≤ i) :
    sumZ (0 : Rat) g 0 (i + w).toNat - sumZ (0 : Rat) g 0 i.toNat = sumZ (0 : Rat) g i w := by
  have e : (i + w).toNat = i.toNat + w := by omega
  rw [e, sumZ_append]
  have : (0 : Int) + (i.toNat : Int) = i := by omega
  rw [this]
  ring

theorem sumZ_add_fun (f g : Int → Rat) (lo : Int) (n : Nat) :
    sumZ (0 : Rat) (fun i => f i + g i) lo n = sumZ (0 : Rat) f lo n + sumZ (0 : Rat) g lo n := by
  induction n with
  | zero => simp [sumZ]
  | succ n ih => simp only [sumZ]; rw [ih]; ring

theorem sumZ_zero_fun (lo : Int) (n : Nat) : sumZ (0 : Rat) (fun _ => (0 : Rat)) lo n = 0 := by
  induction n with
  | zero => rfl
  | succ n ih => simp only [sumZ]; rw [ih]; ring

/-- `Σ_b Σ_a f a b = Σ_a Σ_b f a b` -/
theorem sumZ_swap (f : Int → Int → Rat) (r c : Int) (n m : Nat) :
    sumZ (0 : Rat) (fun b => sumZ (0 : Rat) (fun a => f a b) r n) c m
      = sumZ (0 : Rat) (fun a => sumZ (0 : Rat) (fun b => f a b) c m) r n := by
  induction n with
  | zero => simp only [sumZ]; exact sumZ_zero_fun c m
  | succ n ih =>
    simp only [sumZ]
    rw [sumZ_add_fun, ih]

theorem sumZ_mul_const (f : Int → Rat) (k : Rat) (lo : Int) (n : Nat) :
    sumZ (0 : Rat) (fun i => f i * k) lo n = sumZ (0 : Rat) f lo n * k := by
  induction n with
  | zero => simp [sumZ]
  | succ n ih => simp only [sumZ]; rw [ih]; ring

end Pandora.MC
