/-
  C09 pipeline composition — occlusion / mismatch filling preserves `BoundedValid` and `OneFlag`; the validation
  step (cross-checking, then the optional filling) does too.

  Derived from `C14.outcome` (every pixel is untouched, or stays flagged — hence invalid —, or is filled with a
  finite value lying between two valid disparities of the input map: `betweenValid`, `C14.betweenValid_iff`), for
  the well-formed maps of C14 (`Interp.wf`), whose conditions the cross-checking establishes
  (`crossCheckStep_oneFlag`, `crossCheckStep_borderClean`) or follow from `BoundedValid` (`validFinite`).
-/
import PandoraModel.Lemmas.PipeCrossCheck
import PandoraModel.Properties.C14

namespace Pandora.C09P
open Pandora Pandora.Pipeline
open Pandora.Interp hiding DMap

theorem interpolate_rows (v : Variant) (meth : Method) (off : Nat) (a : DMap) : (interpolate v meth off a).rows = a.rows := by
  cases meth <;> rfl
theorem interpolate_cols (v : Variant) (meth : Method) (off : Nat) (a : DMap) : (interpolate v meth off a).cols = a.cols := by
  cases meth <;> rfl

theorem isInvalid_false_of_valid {m : DMap} {r c : Nat} (h : m.valid r c = true) : Flags.isInvalid (m.flag r c) = false := by
  rw [valid_eq_not_isInvalid] at h
  simpa using h

/-- **Filling preserves `BoundedValid`** on the well-formed maps of C14 (`C14.outcome`). -/
theorem interpolate_bounded (v : Variant) (hg : v.guard = true) (meth : Method) (off : Nat) (a : DMap) (lo hi : Rat)
    (hwf : wf v.op meth off a = true) (h : BoundedValid lo hi a) : BoundedValid lo hi (interpolate v meth off a) := by
  intro r c hr hc hv
  rw [interpolate_rows] at hr; rw [interpolate_cols] at hc
  cases C14.outcome v hg meth off a hwf hr hc with
  | untouched _ hd hg' _ =>
    rw [hg'] at hv; rw [hd]
    exact h r c hr hc hv
  | unfilled _ _ _ _ hfg =>
    rw [C14.isInvalid_of_flagged hfg] at hv; cases hv
  | filled _ _ _ _ q hd _ hbd _ =>
    obtain ⟨⟨r1, c1, v1, hr1, hc1, hv1, hd1, hle1⟩, ⟨r2, c2, v2, hr2, hc2, hv2, hd2, hle2⟩⟩ := (C14.betweenValid_iff a q).1 hbd
    obtain ⟨q1, hq1, hlo, -⟩ := h r1 c1 hr1 hc1 (isInvalid_false_of_valid hv1)
    obtain ⟨q2, hq2, -, hhi⟩ := h r2 c2 hr2 hc2 (isInvalid_false_of_valid hv2)
    rw [hd1] at hq1; cases hq1
    rw [hd2] at hq2; cases hq2
    exact ⟨q, hd, le_trans hlo hle1, le_trans hle2 hhi⟩

/-- **Filling preserves `OneFlag`**: an untouched pixel keeps its word, a filled one carries neither bit, an unfilled
    one keeps its word or has bit 9 replaced by bit 8. -/
theorem interpolate_oneFlag (v : Variant) (hg : v.guard = true) (meth : Method) (off : Nat) (a : DMap)
    (hwf : wf v.op meth off a = true) (h : OneFlag a) : OneFlag (interpolate v meth off a) := by
  intro r c hr hc h8
  rw [interpolate_rows] at hr; rw [interpolate_cols] at hc
  cases C14.outcome v hg meth off a hwf hr hc with
  | untouched _ _ hg' _ =>
    rw [hg'] at h8 ⊢
    exact h r c hr hc h8
  | unfilled _ _ _ hg' _ =>
    rw [hg'] at h8 ⊢
    cases hk : kindOf meth a r c <;> rw [hk] at h8 <;> simp only [unfilledFlag] at h8 ⊢
    · exact h r c hr hc h8
    · exact h r c hr hc h8
    · exact h r c hr hc h8
    · rw [mismatch_pow, occlusion_pow, testBit_replaceBit]; simp
  | filled _ _ _ hng _ _ _ _ _ =>
    rw [flagged_eq, h8] at hng
    simp at hng

/-- every valid pixel carries a number: the first condition of `Interp.wf` -/
theorem validFinite_of_bounded {lo hi : Rat} {a : DMap} (h : BoundedValid lo hi a) : validFinite a = true := by
  unfold validFinite
  rw [C14.allPx_iff]
  intro r c hr hc
  cases hv : a.valid r c with
  | false => simp
  | true =>
    obtain ⟨q, hq, -, -⟩ := h r c hr hc (isInvalid_false_of_valid hv)
    simp [hq, Val.isNum, Val.isNan]

/-- a bounded map as a cross-checking with offset `off` leaves it is a well-formed input of the `|=` kernels -/
theorem wf_of_parts {lo hi : Rat} {meth : Method} {off : Nat} {a : DMap} (hb : BoundedValid lo hi a)
    (ho : OneFlag a) (hbc : borderClean off a = true) : wf .or meth off a = true := by
  unfold wf
  simp [validFinite_of_bounded hb, (oneFlag_iff a).2 ho, hbc]

/-- **The validation step preserves `BoundedValid` and `OneFlag`.** -/
theorem validationStep_inv (V : CrossCheck.Variant) (P : CrossCheck.Params) (other : Grid Val) (fill : Option Fill)
    (lo hi : Rat) (m : DMap) (hp : (Step.validation V P other fill).paramsOK m)
    (hb : BoundedValid lo hi m) (ho : OneFlag m) :
    BoundedValid lo hi (validationStep V P other fill m) ∧ OneFlag (validationStep V P other fill m) := by
  obtain ⟨hshape, hfill⟩ := hp
  have hb1 := crossCheckStep_bounded V P other _ _ m hshape hb
  have ho1 := crossCheckStep_oneFlag V P other m hshape ho
  cases fill with
  | none => exact ⟨hb1, ho1⟩
  | some f =>
    obtain ⟨hguard, hop⟩ := hfill f rfl
    have hwf : wf f.variant.op f.method P.offset (crossCheckStep V P other m) = true := by
      rw [hop]
      exact wf_of_parts hb1 ho1 (crossCheckStep_borderClean V P other m hshape)
    exact ⟨interpolate_bounded f.variant hguard f.method P.offset _ lo hi hwf hb1,
      interpolate_oneFlag f.variant hguard f.method P.offset _ hwf ho1⟩

theorem validationStep_rows (V : CrossCheck.Variant) (P : CrossCheck.Params) (other : Grid Val) (fill : Option Fill) (m : DMap) :
    (validationStep V P other fill m).rows = m.rows := by
  cases fill with
  | none => rfl
  | some f =>
    change (interpolate f.variant f.method P.offset (crossCheckStep V P other m)).rows = m.rows
    rw [interpolate_rows]; rfl

theorem validationStep_cols (V : CrossCheck.Variant) (P : CrossCheck.Params) (other : Grid Val) (fill : Option Fill) (m : DMap) :
    (validationStep V P other fill m).cols = m.cols := by
  cases fill with
  | none => rfl
  | some f =>
    change (interpolate f.variant f.method P.offset (crossCheckStep V P other m)).cols = m.cols
    rw [interpolate_cols]; rfl

end Pandora.C09P
