/-
  C12 — the repair proposed for finding F10 (negate the cost volume of a max measure before the kernels) is
  correct with respect to the specification.
-/
import PandoraModel.Lemmas.C12Std
namespace Pandora.C12
open Pandora Pandora.Confidence

/-! ### the proposed repair of F10 is correct: the kernels on the negated volume compute the max-measure specification -/

def negCurve (curve : Curve) : Curve := curve.map (Val.map (fun c => -c))

theorem lmin_map_neg (l : List Rat) : lmin (l.map (fun c => -c)) = (lmax l).map (fun c => -c) := by
  induction l with
  | nil => rfl
  | cons x xs ih =>
    simp only [List.map_cons, lmin, lmax, ih]
    cases lmax xs with
    | none => rfl
    | some m =>
      simp only [Option.map_some, neg_le_neg_iff]
      split <;> rfl

theorem best_neg (curve : Curve) : Spec.best false (negCurve curve) = (Spec.best true curve).map (fun c => -c) := by
  unfold Spec.best negCurve
  simp only [Bool.false_eq_true, if_false, if_true]
  rw [numsOf_map, lmin_map_neg]

theorem within_neg (mn mx b e : Rat) (hne : mx ≠ mn) (c : Val) :
    Spec.within false (-mx) (-mn) (-b) e (Val.map (fun c => -c) c) = Spec.within true mn mx b e c := by
  cases c with
  | nan => rfl
  | num q =>
    simp only [Val.map, Spec.within, Spec.norm, Bool.false_eq_true, if_false, if_true]
    have hd : mx - mn ≠ 0 := by intro h; apply hne; linarith
    have hd' : -mn - -mx ≠ 0 := by intro h; apply hd; linarith
    have e1 : (-q - -mx) / (-mn - -mx) = 1 - (q - mn) / (mx - mn) := by
      rw [eq_sub_iff_add_eq, div_add_div _ _ hd' hd, div_eq_one_iff_eq (mul_ne_zero hd' hd)]; ring
    have e2 : (-b - -mx) / (-mn - -mx) = 1 - (b - mn) / (mx - mn) := by
      rw [eq_sub_iff_add_eq, div_add_div _ _ hd' hd, div_eq_one_iff_eq (mul_ne_zero hd' hd)]; ring
    apply decide_eq_decide.mpr
    rw [e1, e2]
    constructor <;> intro h <;> linarith

/-- on the negated curve (and the negated, swapped normalisation range) the min-measure ambiguity integral is the
    max-measure one of the original curve -/
theorem ambCount_neg (mn mx : Rat) (etas : List Rat) (curve : Curve) (hne : mx ≠ mn) :
    Spec.ambCount false (-mx) (-mn) etas (negCurve curve) = Spec.ambCount true mn mx etas curve := by
  unfold Spec.ambCount Spec.ambAt
  congr 1
  apply List.map_congr_left
  intro e _
  rw [best_neg]
  unfold negCurve
  rw [List.countP_map]
  apply List.countP_congr
  intro c _
  simp only [Function.comp]
  cases hb : Spec.best true curve with
  | some b => simp only [Option.map_some, Option.getD_some]; rw [within_neg mn mx b e hne c]
  | none =>
    simp only [Option.map_none, Option.getD_none]
    have h0 := within_neg mn mx 0 e hne c
    rw [neg_zero] at h0
    rw [h0]

/-- **the repair `C12-max-measure` is correct** (pixel level): `compute_ambiguity` run on the negated cost volume
    — whose global minimum and maximum are `−mx` and `−mn` — returns the max-measure ambiguity of the specification -/
theorem max_measure_fix_correct (mn mx : Rat) (etas : List Rat) (curve : Curve) (hne : mx ≠ mn) :
    pixelAmbiguity (-mx) (-mn) etas (negCurve curve) = Spec.ambCount true mn mx etas curve := by
  rw [pixelAmbiguity_spec (-mx) (-mn) etas (negCurve curve) (by intro h; apply hne; linarith)]
  exact ambCount_neg mn mx etas curve hne

end Pandora.C12
