/-
  C09 pipeline composition — the disparity step: the map winner-takes-all leaves has every valid pixel inside its
  own interval (`C09.wta_in_pixel_interval`), and is what refinement needs (`refineReadyB`): on the sample grid,
  one cost per sample, NaN outside the pixel's interval (`C09.outside_pixel_interval_nan`), pixel intervals inside
  the global one (`gridMin_le`, `le_gridMax`).
-/
import PandoraModel.Lemmas.PipeRefine
import PandoraModel.Properties.C09

namespace Pandora.C09P
open Pandora Pandora.Pipeline Pandora.MC Pandora.IntervalWta

/-- what is assumed of the flag words the matching-cost step computed (C04's subject): a pixel without any
    numeric cost is flagged invalid -/
def FlagsCoverAllNan (x : Input) (better : Cell → Cell → Bool) (flags : Nat → Nat → Nat) : Prop :=
  ∀ r c : Nat, r < x.L.rows → c < x.L.cols →
    wta better (fun j => costVolume x (r : Int) (c : Int) j)
      (nDisp (gridMin x.dminG x.L.rows x.L.cols) (gridMax x.dmaxG x.L.rows x.L.cols) x.sp) = none →
    Flags.isInvalid (flags r c) = true

theorem flagsCover_of_B (x : Input) (better : Cell → Cell → Bool) (flags : Nat → Nat → Nat)
    (h : flagsCoverB x better flags = true) : FlagsCoverAllNan x better flags := by
  intro r c hr hc hw
  simp only [flagsCoverB, List.all_eq_true, List.mem_range, Bool.or_eq_true] at h
  rcases h r hr c hc with h1 | h1
  · rw [hw] at h1; cases h1
  · exact h1

theorem wtaMap_disp_some (x : Input) (better : Cell → Cell → Bool) (flags : Nat → Nat → Nat) (invalid : Val) (r c j : Nat)
    (hw : wta better (fun j => costVolume x (r : Int) (c : Int) j)
      (nDisp (gridMin x.dminG x.L.rows x.L.cols) (gridMax x.dmaxG x.L.rows x.L.cols) x.sp) = some j) :
    (wtaMap x better flags invalid).disp r c = .num (sampleDisp x j) := by
  simp only [wtaMap, hw]

/-- a rational bound on a sample disparity is an integer bound on its numerator -/
theorem le_sample_iff (a g : Int) (j sp : Nat) (hsp : 0 < sp) :
    ((a : Int) : Rat) ≤ (((g * (sp : Int) + (j : Int) : Int)) : Rat) / ((sp : Int) : Rat) ↔ a * (sp : Int) ≤ g * (sp : Int) + j := by
  have hs : (0 : Rat) < ((sp : Int) : Rat) := by exact_mod_cast hsp
  rw [le_div_iff₀ hs]
  constructor
  · intro h; exact_mod_cast h
  · intro h; exact_mod_cast h

theorem sample_le_iff (a g : Int) (j sp : Nat) (hsp : 0 < sp) :
    (((g * (sp : Int) + (j : Int) : Int)) : Rat) / ((sp : Int) : Rat) ≤ ((a : Int) : Rat) ↔ g * (sp : Int) + j ≤ a * (sp : Int) := by
  have hs : (0 : Rat) < ((sp : Int) : Rat) := by exact_mod_cast hsp
  rw [div_le_iff₀ hs]
  constructor
  · intro h; exact_mod_cast h
  · intro h; exact_mod_cast h

/-- **Right after the disparity step every valid pixel lies in its own interval** (`C09.wta_in_pixel_interval`). -/
theorem wtaMap_in_pixel_interval (x : Input) (better : Cell → Cell → Bool) (flags : Nat → Nat → Nat) (invalid : Val)
    (hsp : 0 < x.sp) (hflags : FlagsCoverAllNan x better flags) :
    BoundedBy (fun r c => ((x.dminG (r : Int) (c : Int) : Int) : Rat)) (fun r c => ((x.dmaxG (r : Int) (c : Int) : Int) : Rat))
      (wtaMap x better flags invalid) := by
  intro r c hr hc hv
  change r < x.L.rows at hr; change c < x.L.cols at hc
  change Flags.isInvalid (flags r c) = false at hv
  cases hw : wta better (fun j => costVolume x (r : Int) (c : Int) j)
      (nDisp (gridMin x.dminG x.L.rows x.L.cols) (gridMax x.dmaxG x.L.rows x.L.cols) x.sp) with
  | none => rw [hflags r c hr hc hw] at hv; cases hv
  | some j =>
    obtain ⟨-, -, hin⟩ := C09.wta_in_pixel_interval x better r c j hw
    unfold C09.InPixelInterval at hin
    refine ⟨sampleDisp x j, wtaMap_disp_some x better flags invalid r c j hw, ?_, ?_⟩
    · exact (le_sample_iff _ _ j x.sp hsp).2 hin.1
    · exact (sample_le_iff _ _ j x.sp hsp).2 hin.2

/-- … hence in the global one (`C09.pixel_interval_in_global`, here through `gridMin_le` / `le_gridMax`) -/
theorem wtaMap_in_global_interval (x : Input) (better : Cell → Cell → Bool) (flags : Nat → Nat → Nat) (invalid : Val)
    (hsp : 0 < x.sp) (hflags : FlagsCoverAllNan x better flags) :
    BoundedValid ((gridMin x.dminG x.L.rows x.L.cols : Int) : Rat) ((gridMax x.dmaxG x.L.rows x.L.cols : Int) : Rat)
      (wtaMap x better flags invalid) := by
  apply BoundedBy.mono (wtaMap_in_pixel_interval x better flags invalid hsp hflags)
  · intro r c hr hc
    change r < x.L.rows at hr; change c < x.L.cols at hc
    have := gridMin_le x.dminG x.L.rows x.L.cols (r : Int) (c : Int) ⟨by omega, by exact_mod_cast hr⟩ ⟨by omega, by exact_mod_cast hc⟩
    exact_mod_cast this
  · intro r c hr hc
    change r < x.L.rows at hr; change c < x.L.cols at hc
    have := le_gridMax x.dmaxG x.L.rows x.L.cols (r : Int) (c : Int) ⟨by omega, by exact_mod_cast hr⟩ ⟨by omega, by exact_mod_cast hc⟩
    exact_mod_cast this

/-! ### the map winner-takes-all leaves is what refinement needs -/

theorem sample_outside_iff_lt (a g : Int) (i sp : Nat) (hsp : 0 < sp) :
    ((g : Int) : Rat) + (i : Rat) / (sp : Rat) < ((a : Int) : Rat) ↔ g * (sp : Int) + i < a * (sp : Int) := by
  have hs : (0 : Rat) < (sp : Rat) := by exact_mod_cast hsp
  have e : ((g : Int) : Rat) + (i : Rat) / (sp : Rat) = (((g : Int) : Rat) * (sp : Rat) + (i : Rat)) / (sp : Rat) := by
    field_simp
  rw [e, div_lt_iff₀ hs]
  constructor
  · intro h; exact_mod_cast h
  · intro h; exact_mod_cast h

theorem sample_outside_iff_gt (a g : Int) (i sp : Nat) (hsp : 0 < sp) :
    ((a : Int) : Rat) < ((g : Int) : Rat) + (i : Rat) / (sp : Rat) ↔ a * (sp : Int) < g * (sp : Int) + i := by
  have hs : (0 : Rat) < (sp : Rat) := by exact_mod_cast hsp
  have e : ((g : Int) : Rat) + (i : Rat) / (sp : Rat) = (((g : Int) : Rat) * (sp : Rat) + (i : Rat)) / (sp : Rat) := by
    field_simp
  rw [e, lt_div_iff₀ hs]
  constructor
  · intro h; exact_mod_cast h
  · intro h; exact_mod_cast h

/-- the winner is a sample of the interval -/
theorem sampleDisp_onGrid (x : Input) (val : Cell → Val) (method : Refinement.Method) (isMax : Bool)
    (variant : Refinement.Variant) (hsp : 0 < x.sp) (j : Nat) :
    Refinement.onGrid (refineDataOf x val method isMax variant).P (sampleDisp x j) = true := by
  have hs : ((x.sp : Int) : Rat) ≠ 0 := by
    have : (0 : Rat) < ((x.sp : Int) : Rat) := by exact_mod_cast hsp
    exact ne_of_gt this
  have e : (sampleDisp x j - (refineDataOf x val method isMax variant).P.dmin)
      * (((refineDataOf x val method isMax variant).P.subpix : Nat) : Rat) = ((j : Int) : Rat) := by
    simp only [sampleDisp, refineDataOf]
    push_cast
    push_cast at hs
    field_simp
    ring
  unfold Refinement.onGrid
  rw [e]
  simp

/-- **The map the disparity step leaves is ready for refinement**: on the sample grid, every valid pixel inside its
    own interval, one cost per sample, NaN outside the pixel's interval, bit 3 clear. -/
theorem wtaMap_refineReady (x : Input) (better : Cell → Cell → Bool) (flags : Nat → Nat → Nat) (invalid : Val)
    (val : Cell → Val) (method : Refinement.Method) (isMax : Bool) (variant : Refinement.Variant)
    (hsp : 0 < x.sp) (hg : gridMin x.dminG x.L.rows x.L.cols ≤ gridMax x.dmaxG x.L.rows x.L.cols)
    (hval : val .nan = .nan) (hflags : FlagsCoverAllNan x better flags)
    (hbit3 : ∀ r c, r < x.L.rows → c < x.L.cols → variant.fixOr = true ∨ Refinement.bitAt (flags r c) 3 = 0) :
    refineReadyB (refineDataOf x val method isMax variant) (wtaMap x better flags invalid) = true := by
  unfold refineReadyB
  rw [C14.allPx_iff]
  intro r c hr hc
  change r < x.L.rows at hr; change c < x.L.cols at hc
  have hB := wtaMap_in_pixel_interval x better flags invalid hsp hflags r c hr hc
  have hs' : (0 : Int) < (x.sp : Int) := by exact_mod_cast hsp
  have hnn : 0 ≤ (gridMax x.dmaxG x.L.rows x.L.cols - gridMin x.dminG x.L.rows x.L.cols) * (x.sp : Int) :=
    Int.mul_nonneg (by omega) (le_of_lt hs')
  have hlen : ((refineDataOf x val method isMax variant).costs r c).length
      = ((gridMax x.dmaxG x.L.rows x.L.cols - gridMin x.dminG x.L.rows x.L.cols) * (x.sp : Int)).toNat + 1 := by
    simp only [refineDataOf, List.length_map, List.length_range]
    exact nDisp_eq _ _ _ hsp hg
  have hmin := gridMin_le x.dminG x.L.rows x.L.cols (r : Int) (c : Int) ⟨by omega, by exact_mod_cast hr⟩ ⟨by omega, by exact_mod_cast hc⟩
  have hmax := le_gridMax x.dmaxG x.L.rows x.L.cols (r : Int) (c : Int) ⟨by omega, by exact_mod_cast hr⟩ ⟨by omega, by exact_mod_cast hc⟩
  simp only [refineReadyPix, Bool.and_eq_true]
  refine ⟨⟨?_, ?_⟩, ?_⟩
  · -- `wfPix`
    simp only [wfPixB, Bool.and_eq_true, decide_eq_true_eq]
    refine ⟨⟨⟨⟨⟨?_, ?_⟩, ?_⟩, ?_⟩, ?_⟩, ?_⟩
    · exact hsp
    · change ((((refineDataOf x val method isMax variant).costs r c).length : Int) : Rat) = _
      rw [hlen]
      simp only [refineDataOf]
      have : ((((gridMax x.dmaxG x.L.rows x.L.cols - gridMin x.dminG x.L.rows x.L.cols) * (x.sp : Int)).toNat : Nat) : Int)
          = (gridMax x.dmaxG x.L.rows x.L.cols - gridMin x.dminG x.L.rows x.L.cols) * (x.sp : Int) := Int.toNat_of_nonneg hnn
      have thisQ := congrArg (Int.cast : Int → Rat) this
      push_cast at thisQ
      push_cast
      rw [thisQ]
    · change ((gridMin x.dminG x.L.rows x.L.cols : Int) : Rat) ≤ ((x.dminG (r : Int) (c : Int) : Int) : Rat)
      exact_mod_cast hmin
    · change ((x.dmaxG (r : Int) (c : Int) : Int) : Rat) ≤ ((gridMax x.dmaxG x.L.rows x.L.cols : Int) : Rat)
      exact_mod_cast hmax
    · change (Flags.isInvalid (flags r c) || _) = true
      cases hv : Flags.isInvalid (flags r c) with
      | true => rfl
      | false =>
        obtain ⟨q, hq, h1, h2⟩ := hB hv
        change (false || match (wtaMap x better flags invalid).disp r c with
          | .num dv => decide (((x.dminG (r : Int) (c : Int) : Int) : Rat) ≤ dv) && decide (dv ≤ ((x.dmaxG (r : Int) (c : Int) : Int) : Rat))
          | .nan => false) = true
        rw [hq]
        simp [h1, h2]
    · -- costs outside the pixel's interval are NaN
      rw [List.all_eq_true]
      intro i hi
      rw [List.mem_range] at hi
      change i < ((refineDataOf x val method isMax variant).costs r c).length at hi
      simp only [Bool.or_eq_true, Bool.not_eq_true', beq_iff_eq]
      by_cases hout : C09.InPixelInterval x (r : Int) (c : Int) (gridMin x.dminG x.L.rows x.L.cols * (x.sp : Int) + (i : Int))
      · left
        unfold C09.InPixelInterval at hout
        simp only [Bool.or_eq_false_iff, decide_eq_false_iff_not]
        change ¬ (((gridMin x.dminG x.L.rows x.L.cols : Int) : Rat) + (i : Rat) / (x.sp : Rat) < ((x.dminG (r : Int) (c : Int) : Int) : Rat))
          ∧ ¬ (((x.dmaxG (r : Int) (c : Int) : Int) : Rat) < ((gridMin x.dminG x.L.rows x.L.cols : Int) : Rat) + (i : Rat) / (x.sp : Rat))
        rw [sample_outside_iff_lt _ _ _ _ hsp, sample_outside_iff_gt _ _ _ _ hsp]
        omega
      · right
        have hnan := C09.outside_pixel_interval_nan x (r : Int) (c : Int) i hout
        have hi' : i < nDisp (gridMin x.dminG x.L.rows x.L.cols) (gridMax x.dmaxG x.L.rows x.L.cols) x.sp := by
          rw [nDisp_eq _ _ _ hsp hg]; rw [hlen] at hi; exact hi
        change ((refineDataOf x val method isMax variant).costs r c).getD i .nan = .nan
        simp only [refineDataOf, List.getD_eq_getElem?_getD, List.getElem?_map, List.getElem?_range hi', Option.map_some,
          Option.getD_some, hnan, hval]
  · -- on the sample grid
    change (Flags.isInvalid (flags r c) || _) = true
    cases hv : Flags.isInvalid (flags r c) with
    | true => rfl
    | false =>
      cases hw : wta better (fun j => costVolume x (r : Int) (c : Int) j)
          (nDisp (gridMin x.dminG x.L.rows x.L.cols) (gridMax x.dmaxG x.L.rows x.L.cols) x.sp) with
      | none => rw [hflags r c hr hc hw] at hv; cases hv
      | some j =>
        change (false || match (wtaMap x better flags invalid).disp r c with
          | .num dv => Refinement.onGrid (refineDataOf x val method isMax variant).P dv
          | .nan => true) = true
        rw [wtaMap_disp_some x better flags invalid r c j hw]
        simp [sampleDisp_onGrid x val method isMax variant hsp j]
  · -- bit 3 not yet raised
    change (variant.fixOr || Refinement.bitAt (flags r c) 3 == 0) = true
    rcases hbit3 r c hr hc with h | h
    · simp [h]
    · simp [h]

end Pandora.C09P
