/-
  `cmax`: every computable sad / ssd / census cost is bounded by the expression whose integer rounding the code
  stores as `cmax`.
-/
import PandoraModel.Lemmas.MCRaw

namespace Pandora.MC

/-! ### extrema of an image (`np.amin`, `np.amax`) -/

theorem ratMin_le_left (a b : Rat) : ratMin a b ≤ a := by unfold ratMin; split <;> linarith
theorem ratMin_le_right (a b : Rat) : ratMin a b ≤ b := by unfold ratMin; split <;> linarith
theorem le_ratMax_left (a b : Rat) : a ≤ ratMax a b := by unfold ratMax; split <;> linarith
theorem le_ratMax_right (a b : Rat) : b ≤ ratMax a b := by unfold ratMax; split <;> linarith

theorem foldl_ratMin_le (xs : List Rat) (x : Rat) :
    xs.foldl ratMin x ≤ x ∧ ∀ y ∈ xs, xs.foldl ratMin x ≤ y := by
  induction xs generalizing x with
  | nil => simp
  | cons a as ih =>
    simp only [List.foldl_cons, List.mem_cons, forall_eq_or_imp]
    obtain ⟨h1, h2⟩ := ih (ratMin x a)
    exact ⟨le_trans h1 (ratMin_le_left _ _), le_trans h1 (ratMin_le_right _ _), h2⟩

theorem le_foldl_ratMax (xs : List Rat) (x : Rat) :
    x ≤ xs.foldl ratMax x ∧ ∀ y ∈ xs, y ≤ xs.foldl ratMax x := by
  induction xs generalizing x with
  | nil => simp
  | cons a as ih =>
    simp only [List.foldl_cons, List.mem_cons, forall_eq_or_imp]
    obtain ⟨h1, h2⟩ := ih (ratMax x a)
    exact ⟨le_trans (le_ratMax_left _ _) h1, le_trans (le_ratMax_right _ _) h1, h2⟩

def imgCells (img : Img) : List Rat :=
  (List.range img.rows).flatMap (fun (r : Nat) => (List.range img.cols).map (fun (c : Nat) => img.px r c))

theorem mem_imgCells (img : Img) (r c : Int) (hr : 0 ≤ r ∧ r < img.rows) (hc : 0 ≤ c ∧ c < img.cols) :
    img.px r c ∈ imgCells img := by
  unfold imgCells
  rw [List.mem_flatMap]
  refine ⟨r.toNat, List.mem_range.mpr (by omega), ?_⟩
  rw [List.mem_map]
  refine ⟨c.toNat, List.mem_range.mpr (by omega), ?_⟩
  have e1 : ((r.toNat : Nat) : Int) = r := by omega
  have e2 : ((c.toNat : Nat) : Int) = c := by omega
  rw [e1, e2]

theorem imgMin_le (img : Img) (r c : Int) (hr : 0 ≤ r ∧ r < img.rows) (hc : 0 ≤ c ∧ c < img.cols) :
    imgFold ratMin img ≤ img.px r c := by
  have hm := mem_imgCells img r c hr hc
  unfold imgFold
  change (match imgCells img with | [] => 0 | v :: vs => vs.foldl ratMin v) ≤ img.px r c
  cases hcells : imgCells img with
  | nil => rw [hcells] at hm; simp at hm
  | cons v vs =>
    rw [hcells] at hm
    simp only
    rcases List.mem_cons.mp hm with h | h
    · rw [h]; exact (foldl_ratMin_le vs v).1
    · exact (foldl_ratMin_le vs v).2 _ h

theorem le_imgMax (img : Img) (r c : Int) (hr : 0 ≤ r ∧ r < img.rows) (hc : 0 ≤ c ∧ c < img.cols) :
    img.px r c ≤ imgFold ratMax img := by
  have hm := mem_imgCells img r c hr hc
  unfold imgFold
  change img.px r c ≤ (match imgCells img with | [] => 0 | v :: vs => vs.foldl ratMax v)
  cases hcells : imgCells img with
  | nil => rw [hcells] at hm; simp at hm
  | cons v vs =>
    rw [hcells] at hm
    simp only
    rcases List.mem_cons.mp hm with h | h
    · rw [h]; exact (le_foldl_ratMax vs v).1
    · exact (le_foldl_ratMax vs v).2 _ h

/-! ### the interpolated right image stays between the extrema of the right image -/

theorem interpR_bounds (R : Img) (sp : Nat) (hs : 0 < sp) (k r c : Int) (lo hi : Rat)
    (h0 : lo ≤ R.px r (c + k / (sp : Int)) ∧ R.px r (c + k / (sp : Int)) ≤ hi)
    (h1 : fracBit k sp = 1 → lo ≤ R.px r (c + k / (sp : Int) + 1) ∧ R.px r (c + k / (sp : Int) + 1) ≤ hi) :
    lo ≤ interpR R sp k r c ∧ interpR R sp k r c ≤ hi := by
  have hs' : (0 : Int) < sp := by exact_mod_cast hs
  unfold interpR
  simp only
  by_cases ht : k % (sp : Int) = 0
  · rw [if_pos ht]; exact h0
  · rw [if_neg ht]
    have hfr : fracBit k sp = 1 := by unfold fracBit; simp [ht]
    obtain ⟨a1, a2⟩ := h0
    obtain ⟨b1, b2⟩ := h1 hfr
    have htn := Int.emod_nonneg k (ne_of_gt hs')
    have htl := Int.emod_lt_of_pos k hs'
    have hsq : (0 : Rat) < ((sp : Int) : Rat) := by exact_mod_cast hs'
    set s : Rat := ((sp : Int) : Rat)
    set t : Rat := ((k % (sp : Int) : Int) : Rat) with htdef
    have ht0 : 0 ≤ t := by rw [htdef]; exact_mod_cast htn
    have ht1 : t ≤ s := by rw [htdef]; exact Int.cast_le.mpr (le_of_lt htl)
    have hcast : (((sp : Int) - k % (sp : Int) : Int) : Rat) = s - t := by rw [Int.cast_sub]
    rw [hcast]
    set A := R.px r (c + k / (sp : Int))
    set B := R.px r (c + k / (sp : Int) + 1)
    have hα : 0 ≤ (s - t) / s := div_nonneg (by linarith) (le_of_lt hsq)
    have hβ : 0 ≤ t / s := div_nonneg ht0 (le_of_lt hsq)
    have hsum : (s - t) / s + t / s = 1 := by rw [← add_div, sub_add_cancel, div_self (ne_of_gt hsq)]
    constructor
    · have e1 : (s - t) / s * lo ≤ (s - t) / s * A := mul_le_mul_of_nonneg_left a1 hα
      have e2 : t / s * lo ≤ t / s * B := mul_le_mul_of_nonneg_left b1 hβ
      have : lo = (s - t) / s * lo + t / s * lo := by rw [← add_mul, hsum, one_mul]
      linarith
    · have e1 : (s - t) / s * A ≤ (s - t) / s * hi := mul_le_mul_of_nonneg_left a2 hα
      have e2 : t / s * B ≤ t / s * hi := mul_le_mul_of_nonneg_left b2 hβ
      have : hi = (s - t) / s * hi + t / s * hi := by rw [← add_mul, hsum, one_mul]
      linarith

/-! ### sums -/

theorem sumZ_le_const (f : Int → Rat) (M : Rat) (lo : Int) (n : Nat) (h : ∀ i : Nat, i < n → f (lo + i) ≤ M) :
    sumZ (0 : Rat) f lo n ≤ n * M := by
  induction n with
  | zero => simp [sumZ]
  | succ n ih =>
    simp only [sumZ]
    have := ih (fun i hi => h i (Nat.lt_succ_of_lt hi))
    have := h n (Nat.lt_succ_self n)
    push_cast
    linarith

theorem winSum_le_const (o : Nat) (g : Int → Int → Rat) (M : Rat) (r c : Int)
    (h : ∀ a b : Int, r - o ≤ a → a ≤ r + o → c - o ≤ b → b ≤ c + o → g a b ≤ M) :
    winSum o g r c ≤ ((2 * o + 1 : Nat) : Rat) * (((2 * o + 1 : Nat) : Rat) * M) := by
  unfold winSum
  apply sumZ_le_const
  intro i hi
  apply sumZ_le_const
  intro j hj
  exact h _ _ (by omega) (by omega) (by omega) (by omega)

theorem ratAbs_le (q M : Rat) (h1 : q ≤ M) (h2 : -q ≤ M) : ratAbs q ≤ M := by
  unfold ratAbs; split <;> linarith

theorem ratAbs_nonneg' (q : Rat) : 0 ≤ ratAbs q := by unfold ratAbs; split <;> linarith

theorem le_ratAbs (q : Rat) : q ≤ ratAbs q := by unfold ratAbs; split <;> linarith
theorem neg_le_ratAbs (q : Rat) : -q ≤ ratAbs q := by unfold ratAbs; split <;> linarith

/-- the un-rounded bound of `cmax` for sad: `max(|maxL − minR|, |maxR − minL|) · w²` -/
def sadBound (x : Input) : Rat :=
  ratMax (ratAbs (imgFold ratMax x.L - imgFold ratMin x.R)) (ratAbs (imgFold ratMax x.R - imgFold ratMin x.L)) *
    (((x.w : Nat) : Rat) * ((x.w : Nat) : Rat))

/-- pixels of both windows are inside their images, hence between the extrema -/
theorem window_pixels_bounded (x : Input) (h : Shape x) (r c k : Int) (hl : LeftInside x r c) (hr : RightInside x c k)
    (a b : Int) (ha1 : r - (half x.w : Nat) ≤ a) (ha2 : a ≤ r + (half x.w : Nat))
    (hb1 : c - (half x.w : Nat) ≤ b) (hb2 : b ≤ c + (half x.w : Nat)) :
    (imgFold ratMin x.L ≤ x.L.px a b ∧ x.L.px a b ≤ imgFold ratMax x.L) ∧
    (imgFold ratMin x.R ≤ interpR x.R x.sp k a b ∧ interpR x.R x.sp k a b ≤ imgFold ratMax x.R) := by
  obtain ⟨hl1, hl2, hl3, hl4⟩ := hl
  obtain ⟨hr1, hr2⟩ := hr
  have hf0 := fracBit_nonneg k x.sp
  have hf1 := fracBit_le_one k x.sp
  have hrows := h.rows_eq
  refine ⟨⟨imgMin_le x.L a b ⟨by omega, by omega⟩ ⟨by omega, by omega⟩,
           le_imgMax x.L a b ⟨by omega, by omega⟩ ⟨by omega, by omega⟩⟩, ?_⟩
  apply interpR_bounds x.R x.sp h.sp_pos k a b
  · exact ⟨imgMin_le x.R a _ ⟨by omega, by omega⟩ ⟨by omega, by omega⟩,
           le_imgMax x.R a _ ⟨by omega, by omega⟩ ⟨by omega, by omega⟩⟩
  · intro hfr
    exact ⟨imgMin_le x.R a _ ⟨by omega, by omega⟩ ⟨by omega, by omega⟩,
           le_imgMax x.R a _ ⟨by omega, by omega⟩ ⟨by omega, by omega⟩⟩

/-- sad: every computable cost is at most `max(|maxL − minR|, |maxR − minL|) · w²` -/
theorem sad_value_le (x : Input) (h : Shape x) (hm : x.meas = .sad) (r c k : Int)
    (hl : LeftInside x r c) (hr : RightInside x c k) :
    ∃ q, valueSpec x r c k = .num q ∧ q ≤ sadBound x := by
  unfold valueSpec
  simp only [hm]
  refine ⟨_, rfl, ?_⟩
  have hw := window_eq x h
  set M := ratMax (ratAbs (imgFold ratMax x.L - imgFold ratMin x.R)) (ratAbs (imgFold ratMax x.R - imgFold ratMin x.L)) with hM
  have hb := winSum_le_const (half x.w) (fun a b => ratAbs (x.L.px a b - interpR x.R x.sp k a b)) M r c (by
    intro a b ha1 ha2 hb1 hb2
    obtain ⟨⟨l1, l2⟩, r1, r2⟩ := window_pixels_bounded x h r c k hl hr a b ha1 ha2 hb1 hb2
    apply ratAbs_le
    · have := le_ratAbs (imgFold ratMax x.L - imgFold ratMin x.R)
      have := le_ratMax_left (ratAbs (imgFold ratMax x.L - imgFold ratMin x.R)) (ratAbs (imgFold ratMax x.R - imgFold ratMin x.L))
      linarith
    · have := le_ratAbs (imgFold ratMax x.R - imgFold ratMin x.L)
      have := le_ratMax_right (ratAbs (imgFold ratMax x.L - imgFold ratMin x.R)) (ratAbs (imgFold ratMax x.R - imgFold ratMin x.L))
      linarith)
  unfold sadBound
  rw [← hM]
  have e : ((2 * half x.w + 1 : Nat) : Rat) = ((x.w : Nat) : Rat) := by rw [← hw]
  rw [e] at hb
  linarith

/-- the un-rounded bound of `cmax` for ssd: `max(|maxL − minR|², |maxR − minL|²) · w²` -/
def ssdBound (x : Input) : Rat :=
  ratMax (ratAbs (imgFold ratMax x.L - imgFold ratMin x.R) * ratAbs (imgFold ratMax x.L - imgFold ratMin x.R))
      (ratAbs (imgFold ratMax x.R - imgFold ratMin x.L) * ratAbs (imgFold ratMax x.R - imgFold ratMin x.L)) *
    (((x.w : Nat) : Rat) * ((x.w : Nat) : Rat))

theorem sq_le_of_abs (d u : Rat) (h1 : d ≤ ratAbs u) (h2 : -d ≤ ratAbs u) : d * d ≤ ratAbs u * ratAbs u := by
  have hu : 0 ≤ ratAbs u := by unfold ratAbs; split <;> linarith
  by_cases hd : 0 ≤ d
  · exact mul_le_mul h1 h1 hd hu
  · have hd' : 0 ≤ -d := by linarith
    have := mul_le_mul h2 h2 hd' hu
    linarith [this, neg_mul_neg d d]

/-- ssd: every computable cost is at most `max(|maxL − minR|², |maxR − minL|²) · w²` -/
theorem ssd_value_le (x : Input) (h : Shape x) (hm : x.meas = .ssd) (r c k : Int)
    (hl : LeftInside x r c) (hr : RightInside x c k) :
    ∃ q, valueSpec x r c k = .num q ∧ q ≤ ssdBound x := by
  unfold valueSpec
  simp only [hm]
  refine ⟨_, rfl, ?_⟩
  have hw := window_eq x h
  set u := imgFold ratMax x.L - imgFold ratMin x.R with hu
  set v := imgFold ratMax x.R - imgFold ratMin x.L with hv
  set M := ratMax (ratAbs u * ratAbs u) (ratAbs v * ratAbs v) with hM
  have hb := winSum_le_const (half x.w)
    (fun a b => (x.L.px a b - interpR x.R x.sp k a b) * (x.L.px a b - interpR x.R x.sp k a b)) M r c (by
    intro a b ha1 ha2 hb1 hb2
    obtain ⟨⟨l1, l2⟩, r1, r2⟩ := window_pixels_bounded x h r c k hl hr a b ha1 ha2 hb1 hb2
    set d := x.L.px a b - interpR x.R x.sp k a b with hd
    by_cases hpos : 0 ≤ d
    · have h1 : d ≤ ratAbs u := by have := le_ratAbs u; linarith
      have h2 : -d ≤ ratAbs u := by have : 0 ≤ ratAbs u := ratAbs_nonneg' u; linarith
      exact le_trans (sq_le_of_abs d u h1 h2) (le_ratMax_left _ _)
    · have h1 : -d ≤ ratAbs v := by have := le_ratAbs v; linarith
      have h2 : d ≤ ratAbs v := by have : 0 ≤ ratAbs v := ratAbs_nonneg' v; linarith
      exact le_trans (sq_le_of_abs d v h2 h1) (le_ratMax_right _ _))
  unfold ssdBound
  rw [← hu, ← hv, ← hM]
  have e : ((2 * half x.w + 1 : Nat) : Rat) = ((x.w : Nat) : Rat) := by rw [← hw]
  rw [e] at hb
  linarith

/-- census: the Hamming distance is at most the number of window positions `w²` -/
theorem winCount_le (o : Nat) (f : Int → Int → Bool) (r c : Int) : winCount o f r c ≤ (2 * o + 1) * (2 * o + 1) := by
  unfold winCount
  have inner : ∀ (a : Int) (n : Nat), sumZ (0 : Nat) (fun b => if f a b then 1 else 0) (c - o) n ≤ n := by
    intro a n
    induction n with
    | zero => simp [sumZ]
    | succ n ih => simp only [sumZ]; split <;> omega
  have outer : ∀ (g : Int → Nat) (m : Nat), (∀ a, g a ≤ m) → ∀ (n : Nat), sumZ (0 : Nat) g (r - o) n ≤ n * m := by
    intro g m hg n
    induction n with
    | zero => simp [sumZ]
    | succ n ih =>
      simp only [sumZ]
      have := hg (r - o + n)
      calc _ ≤ n * m + m := by omega
        _ = (n + 1) * m := by ring
  exact outer (fun a => sumZ (0 : Nat) (fun b => if f a b then 1 else 0) (c - o) (2 * o + 1)) (2 * o + 1)
    (fun a => inner a (2 * o + 1)) (2 * o + 1)

end Pandora.MC
