/-
  Bit strings: packing, xor, and `popcount32b` of a packed string of at most 25 bits (5×5 census).
-/
import PandoraModel.Lemmas.MCPopcount

namespace Pandora.MC.Popcount

/-- little-endian packing: head = least significant bit -/
def packLE : List Bool → Nat
  | [] => 0
  | b :: bs => b.toNat + 2 * packLE bs

theorem packLE_eq_digits (bs : List Bool) : packLE bs = digits 2 (bs.map Bool.toNat) := by
  induction bs with
  | nil => rfl
  | cons b bs ih => simp only [packLE, List.map_cons, digits, ih]

theorem toNat_lt_two (b : Bool) : b.toNat < 2 := by cases b <;> decide

/-- xor of two packed strings of the same length is the packed string of the bitwise differences -/
theorem packLE_xor : ∀ (bs bs' : List Bool), bs.length = bs'.length →
    packLE bs ^^^ packLE bs' = packLE (List.zipWith (fun a b => a != b) bs bs')
  | [], [], _ => by simp [packLE]
  | [], _ :: _, h => by simp at h
  | _ :: _, [], h => by simp at h
  | b :: bs, b' :: bs', h => by
    have ih := packLE_xor bs bs' (by simpa using h)
    simp only [packLE, List.zipWith_cons_cons]
    rw [← ih]
    have hb := toNat_lt_two b
    have hb' := toNat_lt_two b'
    set X := packLE bs
    set Y := packLE bs'
    have hdiv : (b.toNat + 2 * X ^^^ b'.toNat + 2 * Y) / 2 = X ^^^ Y := by
      rw [Nat.xor_div_two]
      congr 1 <;> omega
    have hmod : (b.toNat + 2 * X ^^^ b'.toNat + 2 * Y) % 2 = (b != b').toNat := by
      have := @Nat.xor_mod_two_pow (b.toNat + 2 * X) (b'.toNat + 2 * Y) 1
      simp only [Nat.pow_one] at this
      rw [this]
      have e1 : (b.toNat + 2 * X) % 2 = b.toNat := by omega
      have e2 : (b'.toNat + 2 * Y) % 2 = b'.toNat := by omega
      rw [e1, e2]
      cases b <;> cases b' <;> decide
    have := Nat.mod_add_div (b.toNat + 2 * X ^^^ b'.toNat + 2 * Y) 2
    rw [hdiv, hmod] at this
    exact this.symm

theorem pop2_pair (a b : Bool) : pop2 (a.toNat + 2 * b.toNat) = a.toNat + b.toNat := by
  cases a <;> cases b <;> decide

theorem pair_lt (a b : Bool) : a.toNat + 2 * b.toNat < 4 := by
  have := toNat_lt_two a; have := toNat_lt_two b; omega

/-- `popcount32b` of 25 packed bits is the number of set bits -/
theorem popcount32b_pack25 (b0 b1 b2 b3 b4 b5 b6 b7 b8 b9 b10 b11 b12 b13 b14 b15 b16 b17 b18 b19 b20 b21 b22 b23 b24 : Bool) :
    popcount32b (packLE [b0, b1, b2, b3, b4, b5, b6, b7, b8, b9, b10, b11, b12, b13, b14, b15, b16, b17, b18, b19, b20,
      b21, b22, b23, b24]) =
      b0.toNat + b1.toNat + b2.toNat + b3.toNat + b4.toNat + b5.toNat + b6.toNat + b7.toNat + b8.toNat + b9.toNat +
        b10.toNat + b11.toNat + b12.toNat + b13.toNat + b14.toNat + b15.toNat + b16.toNat + b17.toNat + b18.toNat +
        b19.toNat + b20.toNat + b21.toNat + b22.toNat + b23.toNat + b24.toNat := by
  rw [packLE_eq_digits, ← digits_pairUp 2]
  simp only [List.map_cons, List.map_nil, pairUp]
  have e : (2 : Nat) * 2 = 4 := rfl
  rw [e]
  have pad : digits 4 [b0.toNat + 2 * b1.toNat, b2.toNat + 2 * b3.toNat, b4.toNat + 2 * b5.toNat, b6.toNat + 2 * b7.toNat,
        b8.toNat + 2 * b9.toNat, b10.toNat + 2 * b11.toNat, b12.toNat + 2 * b13.toNat, b14.toNat + 2 * b15.toNat,
        b16.toNat + 2 * b17.toNat, b18.toNat + 2 * b19.toNat, b20.toNat + 2 * b21.toNat, b22.toNat + 2 * b23.toNat,
        b24.toNat]
      = digits 4 [b0.toNat + 2 * b1.toNat, b2.toNat + 2 * b3.toNat, b4.toNat + 2 * b5.toNat, b6.toNat + 2 * b7.toNat,
        b8.toNat + 2 * b9.toNat, b10.toNat + 2 * b11.toNat, b12.toNat + 2 * b13.toNat, b14.toNat + 2 * b15.toNat,
        b16.toNat + 2 * b17.toNat, b18.toNat + 2 * b19.toNat, b20.toNat + 2 * b21.toNat, b22.toNat + 2 * b23.toNat,
        b24.toNat + 2 * false.toNat, false.toNat + 2 * false.toNat, false.toNat + 2 * false.toNat,
        false.toNat + 2 * false.toNat] := by
    simp [digits]
  rw [pad, popcount32b_digits _ _ _ _ _ _ _ _ _ _ _ _ _ _ _ _ (pair_lt ..) (pair_lt ..) (pair_lt ..) (pair_lt ..)
    (pair_lt ..) (pair_lt ..) (pair_lt ..) (pair_lt ..) (pair_lt ..) (pair_lt ..) (pair_lt ..) (pair_lt ..)
    (pair_lt ..) (pair_lt ..) (pair_lt ..) (pair_lt ..)]
  simp only [pop2_pair]
  simp only [Bool.toNat_false]
  omega

/-- the same for 9 bits (3×3 census) -/
theorem popcount32b_pack9 (b0 b1 b2 b3 b4 b5 b6 b7 b8 : Bool) :
    popcount32b (packLE [b0, b1, b2, b3, b4, b5, b6, b7, b8]) =
      b0.toNat + b1.toNat + b2.toNat + b3.toNat + b4.toNat + b5.toNat + b6.toNat + b7.toNat + b8.toNat := by
  have h := popcount32b_pack25 b0 b1 b2 b3 b4 b5 b6 b7 b8 false false false false false false false false false false
    false false false false false false
  have e : packLE [b0, b1, b2, b3, b4, b5, b6, b7, b8, false, false, false, false, false, false, false, false, false,
      false, false, false, false, false, false, false] = packLE [b0, b1, b2, b3, b4, b5, b6, b7, b8] := by
    simp [packLE]
  rw [e] at h
  rw [h]
  simp

end Pandora.MC.Popcount
