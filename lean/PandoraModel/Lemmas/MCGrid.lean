/-
  `get_min_max_from_grid`: the folds over the disparity grids bound every cell, and are the constant on a
  constant grid.
-/
import PandoraModel.Lemmas.MCIndex

namespace Pandora.MC

theorem foldl_min_le (xs : List Int) (x : Int) :
    xs.foldl min x ≤ x ∧ ∀ y ∈ xs, xs.foldl min x ≤ y := by
  induction xs generalizing x with
  | nil => simp
  | cons a as ih =>
    simp only [List.foldl_cons, List.mem_cons, forall_eq_or_imp]
    obtain ⟨h1, h2⟩ := ih (min x a)
    refine ⟨le_trans h1 (min_le_left _ _), le_trans h1 (min_le_right _ _), h2⟩

theorem le_foldl_max (xs : List Int) (x : Int) :
    x ≤ xs.foldl max x ∧ ∀ y ∈ xs, y ≤ xs.foldl max x := by
  induction xs generalizing x with
  | nil => simp
  | cons a as ih =>
    simp only [List.foldl_cons, List.mem_cons, forall_eq_or_imp]
    obtain ⟨h1, h2⟩ := ih (max x a)
    refine ⟨le_trans (le_max_left _ _) h1, le_trans (le_max_right _ _) h1, h2⟩

def gridCells (g : Int → Int → Int) (rows cols : Nat) : List Int :=
  (List.range rows).flatMap (fun (r : Nat) => (List.range cols).map (fun (c : Nat) => g r c))

theorem mem_gridCells (g : Int → Int → Int) (rows cols : Nat) (r c : Int)
    (hr : 0 ≤ r ∧ r < rows) (hc : 0 ≤ c ∧ c < cols) : g r c ∈ gridCells g rows cols := by
  unfold gridCells
  rw [List.mem_flatMap]
  refine ⟨r.toNat, List.mem_range.mpr (by omega), ?_⟩
  rw [List.mem_map]
  refine ⟨c.toNat, List.mem_range.mpr (by omega), ?_⟩
  have e1 : ((r.toNat : Nat) : Int) = r := by omega
  have e2 : ((c.toNat : Nat) : Int) = c := by omega
  rw [e1, e2]

theorem gridMin_le (g : Int → Int → Int) (rows cols : Nat) (r c : Int)
    (hr : 0 ≤ r ∧ r < rows) (hc : 0 ≤ c ∧ c < cols) : gridMin g rows cols ≤ g r c := by
  have hm := mem_gridCells g rows cols r c hr hc
  unfold gridMin gridFold
  change (match gridCells g rows cols with | [] => 0 | x :: xs => xs.foldl min x) ≤ g r c
  cases hcells : gridCells g rows cols with
  | nil => rw [hcells] at hm; simp at hm
  | cons x xs =>
    rw [hcells] at hm
    simp only
    rcases List.mem_cons.mp hm with h | h
    · rw [h]; exact (foldl_min_le xs x).1
    · exact (foldl_min_le xs x).2 _ h

theorem le_gridMax (g : Int → Int → Int) (rows cols : Nat) (r c : Int)
    (hr : 0 ≤ r ∧ r < rows) (hc : 0 ≤ c ∧ c < cols) : g r c ≤ gridMax g rows cols := by
  have hm := mem_gridCells g rows cols r c hr hc
  unfold gridMax gridFold
  change g r c ≤ (match gridCells g rows cols with | [] => 0 | x :: xs => xs.foldl max x)
  cases hcells : gridCells g rows cols with
  | nil => rw [hcells] at hm; simp at hm
  | cons x xs =>
    rw [hcells] at hm
    simp only
    rcases List.mem_cons.mp hm with h | h
    · rw [h]; exact (le_foldl_max xs x).1
    · exact (le_foldl_max xs x).2 _ h

theorem foldl_const (op : Int → Int → Int) (hop : ∀ a, op a a = a) (a : Int) (xs : List Int)
    (h : ∀ y ∈ xs, y = a) : xs.foldl op a = a := by
  induction xs with
  | nil => rfl
  | cons y ys ih =>
    simp only [List.foldl_cons]
    have hy : y = a := h y (List.mem_cons_self ..)
    rw [hy, hop]
    exact ih (fun z hz => h z (List.mem_cons_of_mem _ hz))

theorem gridFold_const (op : Int → Int → Int) (hop : ∀ a, op a a = a) (a : Int) (rows cols : Nat)
    (hr : 0 < rows) (hc : 0 < cols) : gridFold op (fun _ _ => a) rows cols = a := by
  unfold gridFold
  have hall : ∀ y ∈ gridCells (fun _ _ => a) rows cols, y = a := by
    intro y hy
    unfold gridCells at hy
    rw [List.mem_flatMap] at hy
    obtain ⟨_, _, hy⟩ := hy
    rw [List.mem_map] at hy
    obtain ⟨_, _, hy⟩ := hy
    exact hy.symm
  have hne : gridCells (fun _ _ => a) rows cols ≠ [] := by
    intro he
    have := mem_gridCells (fun _ _ => a) rows cols 0 0 ⟨le_refl _, by exact_mod_cast hr⟩ ⟨le_refl _, by exact_mod_cast hc⟩
    rw [he] at this
    simp at this
  change (match gridCells (fun _ _ => a) rows cols with | [] => 0 | x :: xs => xs.foldl op x) = a
  cases hcells : gridCells (fun _ _ => a) rows cols with
  | nil => exact absurd hcells hne
  | cons x xs =>
    simp only
    rw [hcells] at hall
    have hx : x = a := hall x (List.mem_cons_self ..)
    rw [hx]
    exact foldl_const op hop a xs (fun y hy => hall y (List.mem_cons_of_mem _ hy))

theorem gridMin_const (a : Int) (rows cols : Nat) (hr : 0 < rows) (hc : 0 < cols) :
    gridMin (fun _ _ => a) rows cols = a := gridFold_const min (fun a => min_self a) a rows cols hr hc

theorem gridMax_const (a : Int) (rows cols : Nat) (hr : 0 < rows) (hc : 0 < cols) :
    gridMax (fun _ _ => a) rows cols = a := gridFold_const max (fun a => max_self a) a rows cols hr hc

/-- per-pixel `min ≤ max` on a non-empty grid gives global `min ≤ max` -/
theorem gridMin_le_gridMax (dmin dmax : Int → Int → Int) (rows cols : Nat) (hr : 0 < rows) (hc : 0 < cols)
    (h00 : dmin 0 0 ≤ dmax 0 0) : gridMin dmin rows cols ≤ gridMax dmax rows cols := by
  have h1 := gridMin_le dmin rows cols 0 0 ⟨le_refl _, by exact_mod_cast hr⟩ ⟨le_refl _, by exact_mod_cast hc⟩
  have h2 := le_gridMax dmax rows cols 0 0 ⟨le_refl _, by exact_mod_cast hr⟩ ⟨le_refl _, by exact_mod_cast hc⟩
  omega

end Pandora.MC
