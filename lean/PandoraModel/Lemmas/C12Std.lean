/-
  C12 — std_intensity: the integral-image computation of `compute_mean_raster` (cumulative sums down the
  rows, then along the columns, and window differences) is the direct sum over the window.
-/
import PandoraModel.Lemmas.C12Frame

set_option linter.unusedSimpArgs false

namespace Pandora.C12
open Pandora Pandora.Confidence

theorem sumRat_nil : sumRat [] = 0 := rfl
theorem sumRat_cons (x : Rat) (xs : List Rat) : sumRat (x :: xs) = x + sumRat xs := rfl

theorem sumRat_append (a b : List Rat) : sumRat (a ++ b) = sumRat a + sumRat b := by
  induction a with
  | nil => simp [sumRat_nil]
  | cons x xs ih => rw [List.cons_append, sumRat_cons, sumRat_cons, ih]; ring

theorem cumsum0_getElem? (l : List Rat) : ∀ (acc : Rat) (i : Nat), i ≤ l.length →
    (cumsum0 acc l)[i]? = some (acc + sumRat (l.take i)) := by
  induction l with
  | nil => intro acc i hi; simp at hi; subst hi; simp [cumsum0, sumRat_nil]
  | cons x xs ih =>
    intro acc i hi
    cases i with
    | zero => simp [cumsum0, sumRat_nil]
    | succ i =>
      rw [cumsum0, List.getElem?_cons_succ, ih (acc + x) i (by simpa using hi)]
      simp only [List.take_succ_cons, sumRat_cons]
      congr 1; ring

theorem cumsum0_length (l : List Rat) (acc : Rat) : (cumsum0 acc l).length = l.length + 1 := by
  induction l generalizing acc with
  | nil => rfl
  | cons x xs ih => simp [cumsum0, ih]

/-- `c[w:] − c[:-w]` of the padded cumulative sum is the sliding window sum -/
theorem slidingSums_getElem? (w : Nat) (l : List Rat) (i : Nat) (hi : i + w ≤ l.length) :
    (slidingSums w l)[i]? = some (sumRat ((l.drop i).take w)) := by
  unfold slidingSums
  simp only [List.getElem?_zipWith, List.getElem?_drop, List.getElem?_take, cumsum0_length]
  rw [cumsum0_getElem? l 0 (w + i) (by omega), cumsum0_getElem? l 0 i (by omega)]
  have hlt : i < l.length + 1 - w := by omega
  simp only [hlt, if_true, Option.map_some, Option.bind_some]
  have : l.take (w + i) = l.take i ++ (l.drop i).take w := by
    rw [Nat.add_comm, List.take_add]
  simp [this, sumRat_append]

theorem slidingSums_length (w : Nat) (l : List Rat) : (slidingSums w l).length = l.length + 1 - w := by
  unfold slidingSums
  simp only [List.length_zipWith, List.length_drop, List.length_take, cumsum0_length]
  omega

theorem take_drop_eq_map_range (l : List Rat) (i w : Nat) (h : i + w ≤ l.length) :
    (l.drop i).take w = (List.range w).map (fun k => l.getD (i + k) 0) := by
  apply List.ext_getElem?
  intro k
  simp only [List.getElem?_take, List.getElem?_drop, List.getElem?_map, List.getElem?_range]
  by_cases hk : k < w
  · have : i + k < l.length := by omega
    simp [hk, List.getD_eq_getElem?_getD, List.getElem?_eq_getElem this]
  · simp [hk]

theorem slidingSums_getD (w : Nat) (l : List Rat) (i : Nat) (hi : i + w ≤ l.length) :
    (slidingSums w l).getD i 0 = sumRat ((List.range w).map (fun k => l.getD (i + k) 0)) := by
  rw [List.getD_eq_getElem?_getD, slidingSums_getElem? w l i hi, take_drop_eq_map_range l i w hi]
  rfl

theorem sumRat_exchange {α β} (l1 : List α) (l2 : List β) (F : α → β → Rat) :
    sumRat (l1.map (fun i => sumRat (l2.map (fun j => F i j))))
      = sumRat (l2.map (fun j => sumRat (l1.map (fun i => F i j)))) := by
  induction l1 with
  | nil =>
    simp only [List.map_nil, sumRat_nil]
    induction l2 with
    | nil => rfl
    | cons y ys ih => simp only [List.map_cons, sumRat_cons, ← ih]; ring
  | cons x xs ih =>
    simp only [List.map_cons, sumRat_cons, ih]
    clear ih
    induction l2 with
    | nil => simp [sumRat_nil]
    | cons y ys ih2 =>
      simp only [List.map_cons, sumRat_cons]
      rw [← ih2]; ring

theorem getD_map_of_lt {α β} (l : List α) (f : α → β) (r : Nat) (da : α) (db : β) (h : r < l.length) :
    (l.map f).getD r db = f (l.getD r da) := by
  simp [List.getD_eq_getElem?_getD, List.getElem?_map, List.getElem?_eq_getElem h]

/-- an image is rectangular with `ncols` columns -/
def Rect (img : Grid Rat) (ncols : Nat) : Prop := ∀ row ∈ img, row.length = ncols

/-- **std_def, integral image**: `windowSums w img` at `(r, c)` is the direct sum of the `w × w` window
    whose top-left corner is `(r, c)` — for every rectangular image and every window that fits -/
theorem windowSums_row (w : Nat) (img : Grid Rat) (ncols : Nat) (hrect : Rect img ncols)
    (r : Nat) (hr : r + w ≤ img.length) (hne : img ≠ []) (hpos : 0 < ncols) :
    (windowSums w img).getD r []
      = slidingSums w ((List.range ncols).map (fun c' =>
          sumRat ((List.range w).map (fun i => (img.getD (r + i) []).getD c' 0)))) := by
  have hhead : (img.headD []).length = ncols := by
    cases img with
    | nil => exact absurd rfl hne
    | cons x xs => exact hrect x (by simp)
  unfold windowSums
  simp only [hhead]
  -- columns, summed down the rows
  have hcols : ∀ c', c' < ncols →
      ((transposeRat ncols img).map (slidingSums w)).getD c' [] = slidingSums w (img.map (fun row => row.getD c' 0)) := by
    intro c' hc'
    simp [transposeRat, transposeN, column, List.getD_eq_getElem?_getD, hc']
  -- number of rows after the first pass
  have hR : (((transposeRat ncols img).map (slidingSums w)).headD []).length = img.length + 1 - w := by
    have : ((transposeRat ncols img).map (slidingSums w)).headD []
        = ((transposeRat ncols img).map (slidingSums w)).getD 0 [] := by
      cases ((transposeRat ncols img).map (slidingSums w)) <;> rfl
    rw [this, hcols 0 hpos, slidingSums_length]
    simp
  rw [hR]
  -- row r of the transposed intermediate
  have hrow : (transposeRat (img.length + 1 - w) ((transposeRat ncols img).map (slidingSums w))).getD r []
      = (List.range ncols).map (fun c' => sumRat ((List.range w).map (fun i => (img.getD (r + i) []).getD c' 0))) := by
    have hrlt : r < img.length + 1 - w := by omega
    simp only [transposeRat, transposeN, List.getD_eq_getElem?_getD, List.getElem?_map, List.getElem?_range, hrlt,
      Option.map_some, Option.getD_some]
    unfold column
    rw [List.map_map, List.map_map]
    apply List.map_congr_left
    intro c' hc'
    simp only [List.mem_range] at hc'
    simp only [Function.comp]
    rw [slidingSums_getD w (img.map (fun row => row.getD c' 0)) r (by simpa using hr)]
    congr 1
    apply List.map_congr_left
    intro i hi
    simp only [List.mem_range] at hi
    have hlt : r + i < img.length := by omega
    simp [List.getD_eq_getElem?_getD, List.getElem?_map, List.getElem?_eq_getElem hlt]
  have hrlt : r < img.length + 1 - w := by omega
  have hlen : (transposeRat (img.length + 1 - w) ((transposeRat ncols img).map (slidingSums w))).length
      = img.length + 1 - w := by simp [transposeRat, transposeN]
  rw [getD_map_of_lt _ (slidingSums w) r [] [] (by rw [hlen]; exact hrlt), hrow]

/-- **std_def, integral image**: `windowSums w img` at `(r, c)` is the direct sum of the `w × w` window
    whose top-left corner is `(r, c)` — for every rectangular image and every window that fits -/
theorem windowSums_direct (w : Nat) (img : Grid Rat) (ncols : Nat) (hrect : Rect img ncols)
    (r c : Nat) (hr : r + w ≤ img.length) (hc : c + w ≤ ncols) (hne : img ≠ []) (hpos : 0 < ncols) :
    ((windowSums w img).getD r []).getD c 0 = Spec.windowSumAt w img id r c := by
  rw [windowSums_row w img ncols hrect r hr hne hpos]
  rw [slidingSums_getD w _ c (by simpa using hc)]
  unfold Spec.windowSumAt
  rw [sumRat_exchange]
  congr 1
  apply List.map_congr_left
  intro j hj
  simp only [List.mem_range] at hj
  have hlt : c + j < ncols := by omega
  simp [List.getD_eq_getElem?_getD, List.getElem?_map, List.getElem?_range, hlt]

theorem windowSums_row_length (w : Nat) (img : Grid Rat) (ncols : Nat) (hrect : Rect img ncols)
    (r : Nat) (hr : r + w ≤ img.length) (hne : img ≠ []) (hpos : 0 < ncols) :
    ((windowSums w img).getD r []).length = ncols + 1 - w := by
  rw [windowSums_row w img ncols hrect r hr hne hpos, slidingSums_length]
  simp

theorem windowSumAt_map (w : Nat) (img : Grid Rat) (ncols : Nat) (hrect : Rect img ncols) (f : Rat → Rat)
    (r c : Nat) (hr : r + w ≤ img.length) (hc : c + w ≤ ncols) :
    Spec.windowSumAt w (img.map (fun row => row.map f)) id r c = Spec.windowSumAt w img f r c := by
  unfold Spec.windowSumAt
  congr 1
  apply List.map_congr_left
  intro i hi
  simp only [List.mem_range] at hi
  congr 1
  apply List.map_congr_left
  intro j hj
  simp only [List.mem_range] at hj
  have hlt : r + i < img.length := by omega
  have hrow : (img[r + i]).length = ncols := hrect _ (List.getElem_mem hlt)
  have hlt2 : c + j < (img[r + i]).length := by omega
  simp [List.getD_eq_getElem?_getD, List.getElem?_map, List.getElem?_eq_getElem hlt, List.getElem?_eq_getElem hlt2]

theorem rect_map (img : Grid Rat) (ncols : Nat) (hrect : Rect img ncols) (f : Rat → Rat) :
    Rect (img.map (fun row => row.map f)) ncols := by
  intro row hrow
  obtain ⟨r0, hr0, rfl⟩ := List.mem_map.1 hrow
  simpa using hrect r0 hr0

theorem windowSums_length (w : Nat) (img : Grid Rat) (ncols : Nat) (hrect : Rect img ncols) (hne : img ≠ [])
    (hpos : 0 < ncols) : (windowSums w img).length = img.length + 1 - w := by
  have hhead : (img.headD []).length = ncols := by
    cases img with
    | nil => exact absurd rfl hne
    | cons x xs => exact hrect x (by simp)
  unfold windowSums
  simp only [hhead, List.length_map]
  have h0 : ((transposeRat ncols img).map (slidingSums w)).headD []
      = slidingSums w (img.map (fun row => row.getD 0 0)) := by
    have : ((transposeRat ncols img).map (slidingSums w)).headD []
        = ((transposeRat ncols img).map (slidingSums w)).getD 0 [] := by
      cases ((transposeRat ncols img).map (slidingSums w)) <;> rfl
    rw [this]
    simp [transposeRat, transposeN, column, List.getD_eq_getElem?_getD, hpos]
  rw [h0, slidingSums_length]
  simp [transposeRat, transposeN]

/-- **std_def** (variance raster): `E[x²] − E[x]²` computed through the two integral images is the
    population variance of the window — for every rectangular image and window that fits -/
theorem varRaster_spec (w : Nat) (img : Grid Rat) (ncols : Nat) (hrect : Rect img ncols)
    (r c : Nat) (hr : r + w ≤ img.length) (hc : c + w ≤ ncols) (hne : img ≠ []) (hpos : 0 < ncols) :
    ((varRaster w img).getD r []).getD c 0 = Spec.windowVar w img r c := by
  have hsq := rect_map img ncols hrect (fun x => x * x)
  have hne2 : img.map (fun row => row.map (fun x => x * x)) ≠ [] := by simpa using hne
  have h1 := windowSums_direct w img ncols hrect r c hr hc hne hpos
  have h2 := windowSums_direct w (img.map (fun row => row.map (fun x => x * x))) ncols hsq r c (by simpa using hr) hc hne2 hpos
  rw [windowSumAt_map w img ncols hrect _ r c hr hc] at h2
  have l1 := windowSums_length w img ncols hrect hne hpos
  have l2 := windowSums_length w _ ncols hsq hne2 hpos
  simp only [List.length_map] at l2
  unfold varRaster Spec.windowVar
  simp only
  have hrlt : r < img.length + 1 - w := by omega
  -- row r of the zip
  have hrowz : ∀ (A B : Grid Rat) (F : List Rat → List Rat → List Rat), r < A.length → r < B.length →
      (List.zipWith F A B).getD r [] = F (A.getD r []) (B.getD r []) := by
    intro A B F ha hb
    simp [List.getD_eq_getElem?_getD, List.getElem?_zipWith, List.getElem?_eq_getElem ha, List.getElem?_eq_getElem hb]
  rw [hrowz _ _ _ (by rw [l1]; exact hrlt) (by rw [l2]; exact hrlt)]
  -- cell c of the zipped rows: both rows are long enough because their cell c is determined above
  set A := (windowSums w img).getD r [] with hA
  set B := (windowSums w (img.map (fun row => row.map (fun x => x * x)))).getD r [] with hB
  have hca : c < A.length := by
    rw [hA, windowSums_row_length w img ncols hrect r hr hne hpos]; omega
  have hcb : c < B.length := by
    rw [hB, windowSums_row_length w _ ncols hsq r (by simpa using hr) hne2 hpos]; omega
  have : (List.zipWith (fun a b => b / ((w * w : Nat) : Rat) - a / ((w * w : Nat) : Rat) * (a / ((w * w : Nat) : Rat))) A B).getD c 0
      = (B.getD c 0) / ((w * w : Nat) : Rat) - (A.getD c 0) / ((w * w : Nat) : Rat) * ((A.getD c 0) / ((w * w : Nat) : Rat)) := by
    simp [List.getD_eq_getElem?_getD, List.getElem?_zipWith, List.getElem?_eq_getElem hca, List.getElem?_eq_getElem hcb]
  rw [this, h1, h2]

/-- **std_def** (the band, squared): NaN on the frame of `(w−1)/2` pixels and outside the image, the
    population variance of the centred `w × w` window inside — for every odd window, every rectangular
    image at least as large as the window -/
theorem stdBandSq_spec (off : Nat) (img : Grid Rat) (ncols : Nat) (hrect : Rect img ncols)
    (hne : img ≠ []) (hpos : 0 < ncols) (r c : Nat) :
    cell (stdBandSq (2 * off + 1) img) r c
      = if off ≤ r ∧ r + off < img.length ∧ off ≤ c ∧ c + off < ncols
        then Val.num (Spec.windowVar (2 * off + 1) img (r - off) (c - off)) else Val.nan := by
  have hhead : (img.headD []).length = ncols := by
    cases img with
    | nil => exact absurd rfl hne
    | cons x xs => exact hrect x (by simp)
  have hoff : (2 * off + 1 - 1) / 2 = off := by omega
  unfold stdBandSq cell
  simp only [hoff, hhead]
  by_cases h0 : off = 0
  · subst h0
    simp only [if_true, Nat.zero_le, true_and, Nat.add_zero, Nat.sub_zero]
    by_cases hin : r < img.length ∧ c < ncols
    · obtain ⟨hr, hc⟩ := hin
      have hv := varRaster_spec 1 img ncols hrect r c (by omega) (by omega) hne hpos
      simp only [Nat.mul_zero, Nat.zero_add, hr, hc, and_self, if_true]
      rw [← hv]
      -- the mapped raster has the same cells
      have hrows : (varRaster 1 img).length = img.length := by
        unfold varRaster
        simp only [List.length_zipWith]
        rw [windowSums_length 1 img ncols hrect hne hpos,
          windowSums_length 1 _ ncols (rect_map img ncols hrect _) (by simpa using hne) hpos]
        simp
      have hrl : r < (varRaster 1 img).length := by rw [hrows]; exact hr
      rw [getD_map_of_lt _ _ r [] [] hrl]
      by_cases hcl : c < ((varRaster 1 img).getD r []).length
      · rw [getD_map_of_lt _ _ c 0 Val.nan hcl]
      · exfalso
        apply hcl
        unfold varRaster
        have l1 := windowSums_length 1 img ncols hrect hne hpos
        have l2 := windowSums_length 1 _ ncols (rect_map img ncols hrect (fun x => x * x)) (by simpa using hne) hpos
        simp only [List.length_map] at l2
        have hr1 : r < (windowSums 1 img).length := by rw [l1]; omega
        have hr2 : r < (windowSums 1 (img.map (fun row => row.map (fun x => x * x)))).length := by rw [l2]; omega
        simp only [List.getD_eq_getElem?_getD, List.getElem?_zipWith, List.getElem?_eq_getElem hr1,
          List.getElem?_eq_getElem hr2, Option.getD_some, List.length_zipWith]
        have a1 := windowSums_row_length 1 img ncols hrect r (by omega) hne hpos
        have a2 := windowSums_row_length 1 _ ncols (rect_map img ncols hrect (fun x => x * x)) r (by simpa using (by omega : r + 1 ≤ img.length)) (by simpa using hne) hpos
        simp only [List.getD_eq_getElem?_getD, List.getElem?_eq_getElem hr1, List.getElem?_eq_getElem hr2,
          Option.getD_some] at a1 a2
        rw [a1, a2]; omega
    · have : ¬ (r < img.length ∧ c < ncols) := hin
      simp only [Nat.mul_zero, Nat.zero_add, this, if_false]
      by_cases hr : r < img.length
      · have hc : ¬ c < ncols := fun hc => hin ⟨hr, hc⟩
        have hrows : (varRaster 1 img).length = img.length := by
          unfold varRaster
          simp only [List.length_zipWith]
          rw [windowSums_length 1 img ncols hrect hne hpos,
            windowSums_length 1 _ ncols (rect_map img ncols hrect _) (by simpa using hne) hpos]
          simp
        rw [getD_map_of_lt _ _ r [] [] (by rw [hrows]; exact hr)]
        have hlen : ((varRaster 1 img).getD r []).length ≤ ncols := by
          unfold varRaster
          have l1 := windowSums_length 1 img ncols hrect hne hpos
          have l2 := windowSums_length 1 _ ncols (rect_map img ncols hrect (fun x => x * x)) (by simpa using hne) hpos
          simp only [List.length_map] at l2
          have hr1 : r < (windowSums 1 img).length := by rw [l1]; omega
          have hr2 : r < (windowSums 1 (img.map (fun row => row.map (fun x => x * x)))).length := by rw [l2]; omega
          simp only [List.getD_eq_getElem?_getD, List.getElem?_zipWith, List.getElem?_eq_getElem hr1,
            List.getElem?_eq_getElem hr2, Option.getD_some, List.length_zipWith]
          have a1 := windowSums_row_length 1 img ncols hrect r (by omega) hne hpos
          simp only [List.getD_eq_getElem?_getD, List.getElem?_eq_getElem hr1, Option.getD_some] at a1
          rw [a1]; omega
        simp only [List.getD_eq_getElem?_getD] at hlen
        rw [List.getD_eq_getElem?_getD, List.getElem?_eq_none (by simp; omega)]
        rfl
      · have hrows : (varRaster 1 img).length = img.length := by
          unfold varRaster
          simp only [List.length_zipWith]
          rw [windowSums_length 1 img ncols hrect hne hpos,
            windowSums_length 1 _ ncols (rect_map img ncols hrect _) (by simpa using hne) hpos]
          simp
        rw [List.getD_eq_getElem?_getD (l := List.map _ _), List.getElem?_eq_none (by simp; omega)]
        rfl
  · simp only [h0, if_false]
    by_cases hr : r < img.length
    · by_cases hc : c < ncols
      · simp only [List.getD_eq_getElem?_getD, List.getElem?_map, List.getElem?_range, hr, hc, Option.map_some,
          Option.getD_some]
        by_cases hin : off ≤ r ∧ r + off < img.length ∧ off ≤ c ∧ c + off < ncols
        · obtain ⟨i1, i2, i3, i4⟩ := hin
          have hcond : off ≤ r ∧ r < img.length - off ∧ off ≤ c ∧ c < ncols - off := ⟨i1, by omega, i3, by omega⟩
          simp only [hcond, and_self, if_true, i1, i2, i3, i4]
          have hv := varRaster_spec (2 * off + 1) img ncols hrect (r - off) (c - off) (by omega) (by omega) hne hpos
          simp only [List.getD_eq_getElem?_getD] at hv
          rw [hv]
        · have hcond : ¬ (off ≤ r ∧ r < img.length - off ∧ off ≤ c ∧ c < ncols - off) := by
            intro ⟨a, b, c', d⟩; exact hin ⟨a, by omega, c', by omega⟩
          simp only [hcond, if_false, hin]
      · have hin : ¬ (off ≤ r ∧ r + off < img.length ∧ off ≤ c ∧ c + off < ncols) := by
          intro ⟨_, _, _, d⟩; omega
        simp only [hin, if_false]
        have hnone : (List.range ncols)[c]? = none := List.getElem?_eq_none (by simp; omega)
        simp only [List.getD_eq_getElem?_getD, List.getElem?_map, List.getElem?_range, hr, Option.map_some,
          Option.getD_some, hnone, Option.map_none, Option.getD_none]
    · have hin : ¬ (off ≤ r ∧ r + off < img.length ∧ off ≤ c ∧ c + off < ncols) := by
        intro ⟨_, b, _, _⟩; omega
      simp only [hin, if_false]
      have hnone : (List.range img.length)[r]? = none := List.getElem?_eq_none (by simp; omega)
      simp only [List.getD_eq_getElem?_getD, List.getElem?_map, hnone, Option.map_none,
        Option.getD_none, List.getElem?_nil]

end Pandora.C12
