/-
  C09 pipeline composition — the two disparity filters preserve `BoundedValid`.

  Derived from `C10.medianFilterDisparity_spec` and `C10.bilateralFilterDisparity_spec` (a filtered valid pixel lies
  between the smallest and the largest valid disparity of its window; the other pixels keep their disparity; the
  flags are not written).  Missing from the existing lemmas, proved here about the existing model: the smallest /
  largest value of a non-empty list is one of its values (`minOf_mem`, `maxOf_mem`; C10 only had
  `minOf_le` / `le_maxOf`), and "non-negative factors with a positive weight for the pixel itself" implies the
  per-window condition `wfWeightsAt` of C10 (`wfWeightsAt_of_weightsOK`).
-/
import PandoraModel.Lemmas.PipeBasic
import PandoraModel.Properties.C10

namespace Pandora.C09P
open Pandora Pandora.Pipeline Pandora.Filter

/-! ### (missing lemmas) `minOf` / `maxOf` are attained -/

theorem foldl_min_mem (xs : List Rat) : ∀ a : Rat, xs.foldl (fun a b => if b < a then b else a) a ∈ a :: xs := by
  induction xs with
  | nil => intro a; simp
  | cons x xs ih =>
    intro a
    simp only [List.foldl_cons]
    by_cases h : x < a
    · rw [if_pos h]
      rcases List.mem_cons.1 (ih x) with h1 | h1
      · rw [h1]; simp
      · exact List.mem_cons_of_mem _ (List.mem_cons_of_mem _ h1)
    · rw [if_neg h]
      rcases List.mem_cons.1 (ih a) with h1 | h1
      · rw [h1]; simp
      · exact List.mem_cons_of_mem _ (List.mem_cons_of_mem _ h1)

theorem foldl_max_mem (xs : List Rat) : ∀ a : Rat, xs.foldl (fun a b => if a < b then b else a) a ∈ a :: xs := by
  induction xs with
  | nil => intro a; simp
  | cons x xs ih =>
    intro a
    simp only [List.foldl_cons]
    by_cases h : a < x
    · rw [if_pos h]
      rcases List.mem_cons.1 (ih x) with h1 | h1
      · rw [h1]; simp
      · exact List.mem_cons_of_mem _ (List.mem_cons_of_mem _ h1)
    · rw [if_neg h]
      rcases List.mem_cons.1 (ih a) with h1 | h1
      · rw [h1]; simp
      · exact List.mem_cons_of_mem _ (List.mem_cons_of_mem _ h1)

theorem minOf_mem (vs : List Rat) (h : vs ≠ []) : minOf vs ∈ vs := by
  cases vs with
  | nil => exact absurd rfl h
  | cons x xs => exact foldl_min_mem xs x

theorem maxOf_mem (vs : List Rat) (h : vs ≠ []) : maxOf vs ∈ vs := by
  cases vs with
  | nil => exact absurd rfl h
  | cons x xs => exact foldl_max_mem xs x

/-- a value between the smallest and the largest of a non-empty list of bounded values is bounded -/
theorem between_bounds {vs : List Rat} {m lo hi : Rat} (hne : vs ≠ []) (hall : ∀ v ∈ vs, lo ≤ v ∧ v ≤ hi)
    (hb : between vs m = true) : lo ≤ m ∧ m ≤ hi := by
  simp only [between, Bool.and_eq_true, decide_eq_true_eq] at hb
  exact ⟨le_trans (hall _ (minOf_mem vs hne)).1 hb.1, le_trans hb.2 (hall _ (maxOf_mem vs hne)).2⟩

/-! ### the NaN-masked map the filters work on -/

theorem masked_of_valid (flags : Nat → Nat → Nat) (disp : Img) (r c : Nat)
    (hv : Flags.isInvalid (flags r c) = false) : masked Flags.pixelInvalid flags disp r c = disp r c := by
  unfold masked maskCell
  unfold Flags.isInvalid at hv
  rw [hv]; simp

theorem masked_num (flags : Nat → Nat → Nat) (disp : Img) (r c : Nat) (v : Rat)
    (h : masked Flags.pixelInvalid flags disp r c = .num v) :
    Flags.isInvalid (flags r c) = false ∧ disp r c = .num v := by
  unfold masked maskCell at h
  unfold Flags.isInvalid
  split at h
  · cases h
  · rename_i hne
    exact ⟨by simpa using hne, h⟩

/-- every valid value of the window of an interior pixel is the disparity of a valid pixel of the map -/
theorem window_values_bounded {lo hi : Rat} {m : DMap} (h : BoundedValid lo hi m) (before after r c : Nat)
    (hint : interior before after m.rows m.cols r c = true) (p : Nat × Nat) (hp : p.1 < before + after + 1 ∧ p.2 < before + after + 1)
    (v : Rat) (hv : masked Flags.pixelInvalid m.flag m.disp (r - before + p.1) (c - before + p.2) = .num v) :
    lo ≤ v ∧ v ≤ hi := by
  simp only [interior, Bool.and_eq_true, decide_eq_true_eq] at hint
  obtain ⟨hval, hd⟩ := masked_num _ _ _ _ _ hv
  obtain ⟨q, hq, h1, h2⟩ := h (r - before + p.1) (c - before + p.2) (by omega) (by omega) hval
  rw [hd] at hq; cases hq
  exact ⟨h1, h2⟩

/-! ### median -/

theorem mem_nums {l : List Val} {v : Rat} : v ∈ nums l ↔ Val.num v ∈ l := by
  unfold nums
  rw [List.mem_filterMap]
  constructor
  · rintro ⟨a, ha, hav⟩
    cases a with
    | nan => simp [num?] at hav
    | num q => simp only [num?, Option.some.injEq] at hav; rw [← hav]; exact ha
  · intro h; exact ⟨_, h, rfl⟩

/-- **The median filter preserves `BoundedValid`** (from `C10.medianFilterDisparity_spec`). -/
theorem medianStep_bounded (s : Blocks.Split) (fs : Nat) (lo hi : Rat) (m : DMap)
    (hp : (Step.median s fs).paramsOK m) (h : BoundedValid lo hi m) : BoundedValid lo hi (medianStep s fs m) := by
  obtain ⟨hy, hx, hodd, hny, hnx⟩ := hp
  intro r c hr hc hv
  change r < m.rows at hr; change c < m.cols at hc
  change Flags.isInvalid (m.flag r c) = false at hv
  obtain ⟨q, hq, h1, h2⟩ := h r c hr hc hv
  have spec := C10.medianFilterDisparity_spec s Flags.pixelInvalid fs m.rows m.cols m.flag m.disp hy hx hodd hny hnx r c
  change ∃ q', medianFilterDisparity s Flags.pixelInvalid fs m.rows m.cols m.flag m.disp r c = .num q' ∧ lo ≤ q' ∧ q' ≤ hi
  generalize medianFilterDisparity s Flags.pixelInvalid fs m.rows m.cols m.flag m.disp r c = out at spec
  unfold medianCellSpec medianCellFailures at spec
  rw [masked_of_valid _ _ _ _ hv, hq] at spec
  simp only at spec
  by_cases hint : interior (fs / 2) (fs / 2) m.rows m.cols r c = true
  · simp only [hint, Bool.not_true, Bool.false_eq_true, if_false] at spec
    cases hout : out with
    | nan => rw [hout] at spec; simp at spec
    | num q' =>
      rw [hout] at spec
      have hbetween : between (nums (centredWindow (masked Flags.pixelInvalid m.flag m.disp) (fs / 2) (fs / 2) r c)) q' = true := by
        by_contra hcon
        simp [hcon] at spec
      refine ⟨q', rfl, ?_⟩
      apply between_bounds _ _ hbetween
      · -- the pixel itself is in its window
        intro hnil
        have hmem : q ∈ nums (centredWindow (masked Flags.pixelInvalid m.flag m.disp) (fs / 2) (fs / 2) r c) := by
          rw [mem_nums]
          unfold centredWindow
          refine List.mem_map.2 ⟨(fs / 2, fs / 2), (C10.mem_cells _ _ _).2 ⟨by omega, by omega⟩, ?_⟩
          simp only [interior, Bool.and_eq_true, decide_eq_true_eq] at hint
          have e1 : r - fs / 2 + fs / 2 = r := by omega
          have e2 : c - fs / 2 + fs / 2 = c := by omega
          simp only [e1, e2]
          rw [masked_of_valid _ _ _ _ hv, hq]
        rw [hnil] at hmem; simp at hmem
      · intro v hvm
        rw [mem_nums] at hvm
        unfold centredWindow at hvm
        obtain ⟨p, hpc, hpv⟩ := List.mem_map.1 hvm
        exact window_values_bounded h (fs / 2) (fs / 2) r c hint p ((C10.mem_cells _ _ _).1 hpc) v hpv
  · simp only [hint, Bool.not_false, if_true] at spec
    by_cases he : (out == Val.num q) = true
    · exact ⟨q, by simpa using he, h1, h2⟩
    · simp [he] at spec

/-! ### bilateral -/

theorem sum_pos_of_mem (l : List Rat) (hnn : ∀ x ∈ l, 0 ≤ x) (x : Rat) (hx : x ∈ l) (hpos : 0 < x) : 0 < l.sum := by
  induction l with
  | nil => simp at hx
  | cons y ys ih =>
    rw [List.sum_cons]
    have hys : 0 ≤ ys.sum := by
      have : ∀ (zs : List Rat), (∀ z ∈ zs, 0 ≤ z) → 0 ≤ zs.sum := by
        intro zs
        induction zs with
        | nil => intro _; simp
        | cons z zs ihz =>
          intro hz
          rw [List.sum_cons]
          exact add_nonneg (hz z (List.mem_cons_self ..)) (ihz (fun w hw => hz w (List.mem_cons_of_mem _ hw)))
      exact this ys (fun z hz => hnn z (List.mem_cons_of_mem _ hz))
    rcases List.mem_cons.1 hx with rfl | hx'
    · exact add_pos_of_pos_of_nonneg hpos hys
    · exact add_pos_of_nonneg_of_pos (hnn y (List.mem_cons_self ..))
        (ih (fun z hz => hnn z (List.mem_cons_of_mem _ hz)) hx')

theorem mem_validPairs {wts : Weights} {w : Nat} {win : Nat → Nat → Val} {ctr : Rat} {q : Rat × Rat} :
    q ∈ validPairs wts w win ctr ↔
      ∃ p ∈ cells w, ∃ v, win p.1 p.2 = .num v ∧ q = (wts.spatial p.1 p.2 * wts.range (v - ctr), v) := by
  unfold validPairs
  rw [List.mem_filterMap]
  constructor
  · rintro ⟨p, hp, hq⟩
    cases hw : win p.1 p.2 with
    | nan => rw [hw] at hq; simp at hq
    | num v =>
      rw [hw] at hq
      simp only [Option.some.injEq] at hq
      exact ⟨p, hp, v, hw, hq.symm⟩
  · rintro ⟨p, hp, v, hw, hq⟩
    exact ⟨p, hp, by rw [hw, hq]⟩

/-- (missing lemma) non-negative factors and a positive weight for the pixel itself give C10's per-window
    condition, whatever the window holds, as soon as its centre is the pixel -/
theorem wfWeightsAt_of_weightsOK {wts : Weights} {w : Nat} (hw : 0 < w) (hok : WeightsOK wts w) (win : Nat → Nat → Val) (ctr : Rat)
    (hcentre : win (w / 2) (w / 2) = .num ctr) : wfWeightsAt wts w win ctr = true := by
  have hnn : ∀ p ∈ validPairs wts w win ctr, 0 ≤ p.1 := by
    intro p hp
    obtain ⟨p', _, v, _, rfl⟩ := mem_validPairs.1 hp
    exact mul_nonneg (hok.spatial_nonneg _ _) (hok.range_nonneg _)
  simp only [wfWeightsAt, Bool.and_eq_true, List.all_eq_true, decide_eq_true_eq]
  refine ⟨hnn, ?_⟩
  apply sum_pos_of_mem _ _ (wts.spatial (w / 2) (w / 2) * wts.range 0)
  · refine List.mem_map.2 ⟨(wts.spatial (w / 2) (w / 2) * wts.range (ctr - ctr), ctr), ?_, by simp⟩
    exact mem_validPairs.2 ⟨(w / 2, w / 2), (C10.mem_cells _ _ _).2 ⟨by omega, by omega⟩, ctr, hcentre, rfl⟩
  · exact hok.centre_pos
  · intro x hx
    obtain ⟨p, hp, rfl⟩ := List.mem_map.1 hx
    exact hnn p hp

/-- **The bilateral filter preserves `BoundedValid`** (from `C10.bilateralFilterDisparity_spec`). -/
theorem bilateralStep_bounded (s : Blocks.Split) (wts : Weights) (w : Nat) (lo hi : Rat) (m : DMap)
    (hp : (Step.bilateral s wts w).paramsOK m) (h : BoundedValid lo hi m) :
    BoundedValid lo hi (bilateralStep s wts w m) := by
  obtain ⟨hy, hx, hw, hny, hnx, hok⟩ := hp
  intro r c hr hc hv
  change r < m.rows at hr; change c < m.cols at hc
  change Flags.isInvalid (m.flag r c) = false at hv
  obtain ⟨q, hq, h1, h2⟩ := h r c hr hc hv
  have hmq : masked Flags.pixelInvalid m.flag m.disp r c = .num q := by rw [masked_of_valid _ _ _ _ hv, hq]
  by_cases hint : interior (w / 2) (w - 1 - w / 2) m.rows m.cols r c = true
  · have hcentre : (fun a b => masked Flags.pixelInvalid m.flag m.disp (r - w / 2 + a) (c - w / 2 + b)) (w / 2) (w / 2)
        = .num q := by
      simp only [interior, Bool.and_eq_true, decide_eq_true_eq] at hint
      have e1 : r - w / 2 + w / 2 = r := by omega
      have e2 : c - w / 2 + w / 2 = c := by omega
      simp only [e1, e2, hmq]
    have spec := C10.bilateralFilterDisparity_spec s wts Flags.pixelInvalid w m.rows m.cols m.flag m.disp hy hx hw hny hnx r c
      (fun ctr hctr => by
        rw [hmq] at hctr; cases hctr
        exact wfWeightsAt_of_weightsOK hw hok _ _ hcentre)
    change ∃ q', bilateralFilterDisparity s wts Flags.pixelInvalid w m.rows m.cols m.flag m.disp r c = .num q' ∧ lo ≤ q' ∧ q' ≤ hi
    generalize bilateralFilterDisparity s wts Flags.pixelInvalid w m.rows m.cols m.flag m.disp r c = out at spec
    unfold bilateralCellSpec bilateralCellFailures at spec
    rw [hmq] at spec
    simp only [hint, Bool.not_true, Bool.false_eq_true, if_false] at spec
    cases hout : out with
    | nan => rw [hout] at spec; simp at spec
    | num q' =>
      rw [hout] at spec
      set ps := validPairs wts w (fun a b => masked Flags.pixelInvalid m.flag m.disp (r - w / 2 + a) (c - w / 2 + b)) q
        with hps
      have hbetween : between (ps.map (fun p => p.2)) q' = true := by
        by_contra hcon
        simp [hcon] at spec
      refine ⟨q', rfl, ?_⟩
      apply between_bounds _ _ hbetween
      · intro hnil
        have hmem : q ∈ ps.map (fun p => p.2) :=
          List.mem_map.2 ⟨(wts.spatial (w / 2) (w / 2) * wts.range (q - q), q),
            mem_validPairs.2 ⟨(w / 2, w / 2), (C10.mem_cells _ _ _).2 ⟨by omega, by omega⟩, q, hcentre, rfl⟩, rfl⟩
        rw [hnil] at hmem; simp at hmem
      · intro v hvm
        obtain ⟨pr, hpr, rfl⟩ := List.mem_map.1 hvm
        obtain ⟨p, hpc, v, hwv, rfl⟩ := mem_validPairs.1 hpr
        have hpc' := (C10.mem_cells _ _ _).1 hpc
        have hsz : w / 2 + (w - 1 - w / 2) + 1 = w := by omega
        exact window_values_bounded h (w / 2) (w - 1 - w / 2) r c hint p (by rw [hsz]; exact hpc') v hwv
  · -- outside the interior the pixel keeps its disparity (`C10.bilateralFilter_eq_direct`: the specification theorem
    -- asks for the weight condition at every pixel although it only uses it in the interior)
    refine ⟨q, ?_, h1, h2⟩
    change bilateralFilterDisparity s wts Flags.pixelInvalid w m.rows m.cols m.flag m.disp r c = .num q
    unfold bilateralFilterDisparity
    simp only [hmq, Val.isNum, Val.isNan, Bool.not_false, if_true]
    rw [C10.bilateralFilter_eq_direct s wts w m.rows m.cols _ hy hx hw hny hnx r c, hmq]
    simp only [Val.isNan, Bool.false_eq_true, if_false, hint]

end Pandora.C09P
