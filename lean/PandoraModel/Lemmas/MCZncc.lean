/-
  zncc: the mean raster computed with two cumulative sums is the window mean; the plane computed by
  `Zncc.compute_cost_volume` is the textbook zero-mean normalised cross-correlation.
-/
import PandoraModel.Lemmas.MCRaw

namespace Pandora.MC

/-- `compute_mean_raster` (cumulative sums and differences) = mean over the `w × w` window whose
    top-left corner is `(i, j)` -/
theorem meanRaster_eq (w : Nat) (f : Int → Int → Rat) (i j : Int) (hi : 0 ≤ i) (hj : 0 ≤ j) :
    meanRaster w f i j
      = sumZ (0 : Rat) (fun a => sumZ (0 : Rat) (fun b => f a b) j w) i w / ((w * w : Nat) : Rat) := by
  unfold meanRaster
  simp only
  congr 1
  rw [sumZ_cum_diff (fun j' => sumZ (0 : Rat) (fun i' => f i' j') 0 (i + w).toNat - sumZ (0 : Rat) (fun i' => f i' j') 0 i.toNat) j w hj]
  have : ∀ j' : Int, sumZ (0 : Rat) (fun i' => f i' j') 0 (i + w).toNat - sumZ (0 : Rat) (fun i' => f i' j') 0 i.toNat
      = sumZ (0 : Rat) (fun a => f a j') i w := fun j' => sumZ_cum_diff (fun i' => f i' j') i w hi
  simp only [this]
  exact sumZ_swap f i j w w

/-- the mean raster at truncated coordinates `(r - o, c - o)` is the mean of the window centred on `(r, c)` -/
theorem meanRaster_centre (x : Input) (h : Shape x) (f : Int → Int → Rat) (r c : Int)
    (hr : ((half x.w : Nat) : Int) ≤ r) (hc : ((half x.w : Nat) : Int) ≤ c) :
    meanRaster x.w f (r - (half x.w : Nat)) (c - (half x.w : Nat))
      = winSum (half x.w) f r c / ((x.w * x.w : Nat) : Rat) := by
  rw [meanRaster_eq x.w f _ _ (by omega) (by omega)]
  congr 1
  unfold winSum
  rw [← window_eq x h]

/-- local form of the hypothesis `noTinyVariance`: the `1e-15` threshold of `compute_std_raster` does not
    fire on a non-zero variance of the window of `f` centred on `(r, c)` -/
def NoTiny (x : Input) (f : Int → Int → Rat) (r c : Int) : Prop :=
  let n : Rat := ((x.w * x.w : Nat) : Rat)
  let e := winSum (half x.w) f r c / n
  let e2 := winSum (half x.w) (fun a b => f a b * f a b) r c / n
  (e2 - e * e = 0 ∨ ¬ (e2 - e * e < tiny * ratAbs e2))

theorem ratAbs_nonneg (q : Rat) : 0 ≤ ratAbs q := by
  unfold ratAbs; split <;> linarith

theorem tiny_pos : 0 < tiny := by unfold tiny; norm_num

/-- under `NoTiny` the radicand of `compute_std_raster` is the plain variance, and it is non-negative -/
theorem varRaster_centre (x : Input) (h : Shape x) (f : Int → Int → Rat) (r c : Int)
    (hr : ((half x.w : Nat) : Int) ≤ r) (hc : ((half x.w : Nat) : Int) ≤ c) (hnt : NoTiny x f r c) :
    let n : Rat := ((x.w * x.w : Nat) : Rat)
    let e := winSum (half x.w) f r c / n
    let e2 := winSum (half x.w) (fun a b => f a b * f a b) r c / n
    varRaster x.w f (r - (half x.w : Nat)) (c - (half x.w : Nat)) = e2 - e * e ∧ 0 ≤ e2 - e * e := by
  intro n e e2
  unfold varRaster
  simp only
  rw [meanRaster_centre x h f r c hr hc, meanRaster_centre x h (fun a b => f a b * f a b) r c hr hc]
  have ha := ratAbs_nonneg e2
  have ht := tiny_pos
  unfold NoTiny at hnt
  simp only at hnt
  change (e2 - e * e = 0 ∨ ¬ (e2 - e * e < tiny * ratAbs e2)) at hnt
  change (if e2 - e * e < tiny * ratAbs e2 then 0 else e2 - e * e) = e2 - e * e ∧ 0 ≤ e2 - e * e
  rcases hnt with h0 | hge
  · rw [h0]
    refine ⟨?_, le_refl _⟩
    split <;> rfl
  · rw [if_neg hge]
    refine ⟨rfl, ?_⟩
    have : tiny * ratAbs e2 ≤ e2 - e * e := not_lt.mp hge
    have : 0 ≤ tiny * ratAbs e2 := mul_nonneg (le_of_lt ht) ha
    linarith

/-! ### column shifts -/

theorem meanRaster_shift_col (w : Nat) (f : Int → Int → Rat) (D i j : Int) (hi : 0 ≤ i) (hj : 0 ≤ j) (hjD : 0 ≤ j + D) :
    meanRaster w f i (j + D) = meanRaster w (fun a b => f a (b + D)) i j := by
  rw [meanRaster_eq w f i (j + D) hi hjD, meanRaster_eq w _ i j hi hj]
  congr 1
  apply sumZ_congr
  intro a _
  exact (sumZ_shift (0 : Rat) (fun b => f (i + a) b) D j w).symm

theorem varRaster_shift_col (w : Nat) (f : Int → Int → Rat) (D i j : Int) (hi : 0 ≤ i) (hj : 0 ≤ j) (hjD : 0 ≤ j + D) :
    varRaster w f i (j + D) = varRaster w (fun a b => f a (b + D)) i j := by
  unfold varRaster
  simp only
  rw [meanRaster_shift_col w f D i j hi hj hjD, meanRaster_shift_col w (fun r c => f r c * f r c) D i j hi hj hjD]

theorem q0_eq (nxL nxR k : Int) (sp : Nat) (hs : 0 < sp) :
    (pointInterval nxL nxR k sp).q0 = (pointInterval nxL nxR k sp).p0 + k / (sp : Int) := by
  rw [pointInterval_closed nxL nxR k sp hs]
  simp only
  omega

/-! ### the zncc plane -/

theorem rawZncc_eq (x : Input) (h : Shape x) (hm : x.meas = .zncc) (k r c : Int)
    (hntL : LeftInside x r c → NoTiny x x.L.px r c)
    (hntR : LeftInside x r c → NoTiny x (fun a b => interpR x.R x.sp k a b) r c) :
    rawZncc x k r c = if LeftInside x r c ∧ RightInside x c k then valueSpec x r c k else .nan := by
  have hw := window_eq x h
  have hs := h.sp_pos
  set o := half x.w with ho
  set Rk := shiftRight x.R x.sp (iRight k x.sp) with hRk
  set D := k / (x.sp : Int) with hD
  set g : Int → Int → Rat := fun a b => interpR x.R x.sp k a b with hg
  have hf0 := fracBit_nonneg k x.sp
  have hf1 := fracBit_le_one k x.sp
  have hRkg : (fun a b => Rk.px a (b + D)) = g := by
    funext a b; rw [hRk, hD]; exact shiftRight_px x.R k x.sp hs a b
  have hq0 := q0_eq (x.L.cols : Int) (Rk.cols : Int) k x.sp hs
  have hclosed := pointInterval_closed (x.L.cols : Int) (Rk.cols : Int) k x.sp hs
  unfold rawZncc
  simp only [← ho, ← hRk]
  -- the guard of the assignment `cv_crop[disp_index, p0 : p_std[1], :] = zncc_`
  have hguard : (0 ≤ r - (o : Int) ∧ r - (o : Int) < (x.L.rows : Int) - 2 * (o : Int) ∧ 0 ≤ c - (o : Int) ∧
        c - (o : Int) < (x.L.cols : Int) - 2 * (o : Int) ∧
        (pointInterval (x.L.cols : Int) (Rk.cols : Int) k x.sp).p0 ≤ c - (o : Int) ∧
        c - (o : Int) < (pointInterval (x.L.cols : Int) (Rk.cols : Int) k x.sp).p1 - 2 * (o : Int))
      ↔ (LeftInside x r c ∧ RightInside x c k) := by
    unfold LeftInside RightInside
    rw [hclosed, h.cols_eq]
    simp only [← ho, ← hD]
    omega
  by_cases hin : LeftInside x r c ∧ RightInside x c k
  · rw [if_pos (hguard.mpr hin), if_pos hin]
    have hntL := hntL hin.1
    have hntR := hntR hin.1
    obtain ⟨⟨hl1, hl2, hl3, hl4⟩, hr1, hr2⟩ := hin
    simp only [← ho, ← hD] at hl1 hl2 hl3 hl4 hr1 hr2
    set p0 := (pointInterval (x.L.cols : Int) (Rk.cols : Int) k x.sp).p0 with hp0
    have hp0le : p0 ≤ c - o := (hguard.mpr ⟨⟨by simpa [← ho] using hl1, by simpa [← ho] using hl2, by simpa [← ho] using hl3, by simpa [← ho] using hl4⟩, by simpa [← ho, ← hD] using hr1, by simpa [← ho, ← hD] using hr2⟩).2.2.2.2.1
    have e1 : p0 + (c - (o : Int) - p0) = c - o := by ring
    have e2 : (pointInterval (x.L.cols : Int) (Rk.cols : Int) k x.sp).q0 + (c - (o : Int) - p0) = (c - o) + D := by
      rw [hq0]; ring
    rw [e1, e2]
    -- the three mean rasters and the two variance rasters, as window means centred on (r, c)
    have hmL := meanRaster_centre x h x.L.px r c (by simpa [← ho] using hl1) (by simpa [← ho] using hl3)
    have hmR : meanRaster x.w Rk.px (r - o) (c - o + D) = winSum o g r c / ((x.w * x.w : Nat) : Rat) := by
      rw [meanRaster_shift_col x.w Rk.px D (r - o) (c - o) (by omega) (by omega) (by omega), hRkg]
      exact meanRaster_centre x h g r c (by simpa [← ho] using hl1) (by simpa [← ho] using hl3)
    have hvL := varRaster_centre x h x.L.px r c (by simpa [← ho] using hl1) (by simpa [← ho] using hl3) hntL
    have hvR' := varRaster_centre x h g r c (by simpa [← ho] using hl1) (by simpa [← ho] using hl3) hntR
    have hvR : varRaster x.w Rk.px (r - o) (c - o + D) = varRaster x.w g (r - o) (c - o) := by
      rw [varRaster_shift_col x.w Rk.px D (r - o) (c - o) (by omega) (by omega) (by omega), hRkg]
    have hmP : meanRaster x.w (fun r c' => x.L.px r (p0 + c') * Rk.px r ((pointInterval (x.L.cols : Int) (Rk.cols : Int) k x.sp).q0 + c'))
          (r - o) (c - o - p0) = winSum o (fun a b => x.L.px a b * g a b) r c / ((x.w * x.w : Nat) : Rat) := by
      have hfun : (fun (r : Int) (c' : Int) => x.L.px r (p0 + c') * Rk.px r ((pointInterval (x.L.cols : Int) (Rk.cols : Int) k x.sp).q0 + c'))
          = (fun a b => (fun a b => x.L.px a b * g a b) a (b + p0)) := by
        funext a b
        have : (pointInterval (x.L.cols : Int) (Rk.cols : Int) k x.sp).q0 + b = (b + p0) + D := by rw [hq0]; ring
        rw [this, ← hRkg]
        simp only
        congr 2
        ring
      rw [hfun, ← meanRaster_shift_col x.w (fun a b => x.L.px a b * g a b) p0 (r - o) (c - o - p0) (by omega) (by omega) (by omega)]
      have : c - (o : Int) - p0 + p0 = c - o := by ring
      rw [this]
      exact meanRaster_centre x h (fun a b => x.L.px a b * g a b) r c (by simpa [← ho] using hl1) (by simpa [← ho] using hl3)
    simp only [← ho] at hmL hvL hvR'
    rw [hmP, hmL, hmR, hvL.1, hvR, hvR'.1]
    unfold valueSpec
    simp only [hm, ← ho, ← hg]
    set n : Rat := ((x.w * x.w : Nat) : Rat)
    set vL := winSum o (fun a b => x.L.px a b * x.L.px a b) r c / n - winSum o x.L.px r c / n * (winSum o x.L.px r c / n) with hvLdef
    set vR := winSum o (fun a b => g a b * g a b) r c / n - winSum o g r c / n * (winSum o g r c / n) with hvRdef
    have hL0 : 0 ≤ vL := hvL.2
    have hR0 : 0 ≤ vR := hvR'.2
    by_cases hz : vL = 0 ∨ vR = 0
    · have : ¬ (vL * vR > 0) := by
        rcases hz with hz | hz <;> rw [hz] <;> simp
      rw [if_neg this, if_pos hz]
    · have hL : 0 < vL := lt_of_le_of_ne hL0 (fun e => hz (Or.inl e.symm))
      have hR : 0 < vR := lt_of_le_of_ne hR0 (fun e => hz (Or.inr e.symm))
      rw [if_pos (mul_pos hL hR), if_neg hz]
  · rw [if_neg (fun hc => hin (hguard.mp hc)), if_neg hin]

end Pandora.MC
