/-
  C04 — lemmas about the flag arithmetic of the later steps (Model/FlagSteps.lean): bounds that hold
  whatever `+=` carries, and bit-level closed forms that hold when the bit being added is clear
  (or the site uses `|=`).  Core Lean only.
-/
import PandoraModel.Lemmas.C04Bits
import PandoraModel.Model.FlagSteps

namespace Pandora.C04
open Pandora.Flags Pandora.FlagSteps

/-! ### no undocumented bit, whatever the pipeline (and whatever `+=` carries) -/

theorem raise_lt (op : AddOp) (f b : Nat) (h : f + b < 4096) : raise op f b < 4096 := by
  cases op
  · exact h
  · have h1 : f < 2 ^ 12 := by omega
    have h2 : b < 2 ^ 12 := by omega
    exact Nat.or_lt_two_pow h1 h2

theorem raise_zero (op : AddOp) (f : Nat) : raise op f 0 = f := by
  cases op <;> simp [raise]

/-- a pixel that is not invalid has none of the bits 0, 1, 6, 7, 8, 9: below 4096 it is at most
    4 + 8 + 16 + 32 + 1024 + 2048 -/
theorem valid_le (f : Nat) (hv : isInvalid f = false) (h : f < 4096) : f ≤ 3132 := by
  rw [isInvalid_eq] at hv
  simp only [Bool.or_eq_false_iff, testBit_divmod, decide_eq_false_iff_not] at hv
  obtain ⟨h0, h1, h6, h7, h8, h9⟩ := hv
  simp only [Nat.pow_zero, Nat.div_one, Nat.pow_one] at h0 h1
  simp only [Nat.reducePow] at h6 h7 h8 h9
  omega


theorem ge_of_and_ne_zero (f k : Nat) (h : ((f &&& 2 ^ k) != 0) = true) : 2 ^ k ≤ f := by
  rw [and_two_pow_ne_zero] at h
  exact Nat.ge_two_pow_of_testBit h

theorem refinePix_lt (ops : Ops) (f : Nat) (st : Bool) (h : f < 4096) : refinePix ops f st < 4096 := by
  unfold refinePix
  cases hv : isInvalid f
  · have := valid_le f hv h
    simp only [Bool.false_eq_true, if_false]
    apply raise_lt
    cases st <;> simp [stoppedInterpolation] <;> omega
  · simpa using h

theorem crossCheckPix_lt (ops : Ops) (f : Nat) (d : CC) (h : f < 4096) : crossCheckPix ops f d < 4096 := by
  unfold crossCheckPix
  cases hv : isInvalid f
  · have hle := valid_le f hv h
    simp only [Bool.false_eq_true, if_false]
    cases d <;> simp only [occlusion, mismatch, Nat.mul_zero, Nat.mul_one, raise_zero, Nat.sub_zero]
    · exact h
    · -- mismatch: + 256, + 512, - 256
      cases ops.cc <;> simp only [raise]
      · omega
      · have h1 : f ||| 256 < 2 ^ 12 := Nat.or_lt_two_pow (by omega) (by omega)
        have h2 : (f ||| 256) ||| 512 < 2 ^ 12 := Nat.or_lt_two_pow h1 (by omega)
        omega
    · exact raise_lt _ _ _ (by omega)
  · simpa using h

theorem mcCnnPix_lt (ops : Ops) (f : Nat) (fo fm : Bool) (h : f < 4096) : mcCnnPix ops f fo fm < 4096 := by
  unfold mcCnnPix
  have h1 : (if ((f &&& occlusion) != 0) = true then
      raise ops.fill (f - occlusion * (if fo = true then 1 else 0)) (filledOcclusion * (if fo = true then 1 else 0))
      else f) < 4096 := by
    split
    · rename_i hb
      have hge : 2 ^ 8 ≤ f := ge_of_and_ne_zero f 8 (by simpa [occlusion] using hb)
      cases fo <;> simp only [occlusion, filledOcclusion, Bool.false_eq_true, if_false, if_true, Nat.mul_zero,
        Nat.mul_one, raise_zero, Nat.sub_zero]
      · exact h
      · exact raise_lt _ _ _ (by omega)
    · exact h
  simp only []
  generalize (if ((f &&& occlusion) != 0) = true then
      raise ops.fill (f - occlusion * (if fo = true then 1 else 0)) (filledOcclusion * (if fo = true then 1 else 0))
      else f) = f1 at h1 ⊢
  split
  · rename_i hb
    have hge : 2 ^ 9 ≤ f1 := ge_of_and_ne_zero f1 9 (by simpa [mismatch] using hb)
    split
    · exact raise_lt _ _ _ (by simp only [mismatch, filledMismatch]; omega)
    · exact h1
  · exact h1

theorem sgmPix_lt (ops : Ops) (f : Nat) (near fm fo : Bool) (h : f < 4096) : sgmPix ops f near fm fo < 4096 := by
  unfold sgmPix
  have h1 : (if ((f &&& mismatch) != 0) = true then
      (if near = true then raise ops.fill (f - mismatch) occlusion
       else (if fm = true then raise ops.fill (f - mismatch) filledMismatch else f))
      else f) < 4096 := by
    split
    · rename_i hb
      have hge : 2 ^ 9 ≤ f := ge_of_and_ne_zero f 9 (by simpa [mismatch] using hb)
      split
      · exact raise_lt _ _ _ (by simp only [mismatch, occlusion]; omega)
      · split
        · exact raise_lt _ _ _ (by simp only [mismatch, filledMismatch]; omega)
        · exact h
    · exact h
  simp only []
  generalize (if ((f &&& mismatch) != 0) = true then
      (if near = true then raise ops.fill (f - mismatch) occlusion
       else (if fm = true then raise ops.fill (f - mismatch) filledMismatch else f))
      else f) = f1 at h1 ⊢
  split
  · rename_i hb
    have hge : 2 ^ 8 ≤ f1 := ge_of_and_ne_zero f1 8 (by simpa [occlusion] using hb)
    split
    · exact raise_lt _ _ _ (by simp only [occlusion, filledOcclusion]; omega)
    · exact h1
  · exact h1

theorem stepFlag_lt (ops : Ops) (hreg : ops.reg = .or) (border : Bool) (s : Step) (f : Nat) (h : f < 4096) :
    stepFlag ops border s f < 4096 := by
  cases s <;> simp only [stepFlag, borderPix]
  · exact refinePix_lt ops f _ h
  · exact h
  · split
    · rw [hreg]; simp only [raise, intervalRegularized]
      exact Nat.or_lt_two_pow (n := 12) h (by omega)
    · exact h
  · split
    · simp [leftNodataOrBorder]
    · exact crossCheckPix_lt ops f _ h
  · split
    · simp [leftNodataOrBorder]
    · exact mcCnnPix_lt ops f _ _ h
  · exact sgmPix_lt ops f _ _ _ h


/-- **No undocumented bit** (`no_undocumented_bit`, full strength): whatever sequence of steps runs — any
    length, any repetition, any decisions — and whether the bit-raising sites use `+=` (carries included) or
    `|=`, a flag below 4096 stays below 4096.  (Only `median_for_intervals` must keep its `|=`.) -/
theorem run_lt_4096 (ops : Ops) (hreg : ops.reg = .or) (border : Bool) (steps : List Step) (f : Nat)
    (h : f < 4096) : runFlags ops border steps f < 4096 := by
  unfold runFlags
  induction steps generalizing f with
  | nil => simpa using h
  | cons s ss ih =>
    simp only [List.foldl_cons]
    exact ih _ (stepFlag_lt ops hreg border s f h)


/-! ### bit-level closed forms of the step functions -/

/-- raising bit `k` with `|=`, or with `+=` when the bit is clear, sets bit `k` and nothing else -/
theorem raise_testBit (op : AddOp) (f k j : Nat) (h : op = .or ∨ f.testBit k = false) :
    (raise op f (2 ^ k)).testBit j = (f.testBit j || decide (k = j)) := by
  cases op
  · rcases h with h | h
    · cases h
    · exact testBit_add_two_pow f k j h
  · exact testBit_or_two_pow f k j

theorem and256 (f : Nat) : ((f &&& 256) != 0) = f.testBit 8 := and_two_pow_ne_zero f 8
theorem and512 (f : Nat) : ((f &&& 512) != 0) = f.testBit 9 := and_two_pow_ne_zero f 9

theorem raise_zero' (op : AddOp) (f : Nat) : raise op f 0 = f := by cases op <;> simp [raise]

/-- refinement: bit 3 raised on a valid pixel whose interpolation stopped; nothing else changes.
    Needs `|=`, or bit 3 still clear. -/
theorem refinePix_testBit (ops : Ops) (f : Nat) (st : Bool) (j : Nat)
    (h : ops.refine = .or ∨ f.testBit 3 = false) :
    (refinePix ops f st).testBit j = (f.testBit j || (decide (3 = j) && st && !isInvalid f)) := by
  unfold refinePix
  cases hv : isInvalid f
  · cases st
    · simp [raise_zero']
    · simp only [Bool.false_eq_true, if_false, if_true, stoppedInterpolation]
      have := raise_testBit ops.refine f 3 j h
      simpa using this
  · simp

/-- cross-checking: on a pixel that is not invalid (its bits 8 and 9 are therefore clear) `+ 256 + 512·comp − 256·comp`
    raises bit 8 (occlusion) or bit 9 (mismatch) and nothing else — for `+=` as well as `|=`. -/
theorem crossCheckPix_testBit (ops : Ops) (f : Nat) (d : CC) (j : Nat) :
    (crossCheckPix ops f d).testBit j =
      (f.testBit j || (!isInvalid f && ((decide (d = .occlusion) && decide (8 = j)) || (decide (d = .mismatch) && decide (9 = j))))) := by
  unfold crossCheckPix
  cases hv : isInvalid f
  · have hv' := hv
    rw [isInvalid_eq] at hv'
    simp only [Bool.or_eq_false_iff] at hv'
    obtain ⟨_, _, _, _, h8, h9⟩ := hv'
    cases d <;> simp only [Bool.false_eq_true, if_false, occlusion, mismatch, Nat.mul_zero, Nat.mul_one, raise_zero',
      Nat.sub_zero]
    · simp
    · -- mismatch
      have e1 : ∀ i, (raise ops.cc f 256).testBit i = (f.testBit i || decide (8 = i)) :=
        fun i => raise_testBit ops.cc f 8 i (Or.inr h8)
      have h9' : (raise ops.cc f 256).testBit 9 = false := by rw [e1]; simp [h9]
      have e2 : ∀ i, (raise ops.cc (raise ops.cc f 256) 512).testBit i = ((f.testBit i || decide (8 = i)) || decide (9 = i)) :=
        fun i => by rw [raise_testBit ops.cc _ 9 i (Or.inr h9'), e1]
      have h8' : (raise ops.cc (raise ops.cc f 256) 512).testBit 8 = true := by rw [e2]; simp
      rw [testBit_sub_two_pow _ 8 j h8', e2]
      by_cases hj : 8 = j
      · subst hj; simp [h8]
      · simp [hj]
    · -- occlusion
      rw [raise_testBit ops.cc f 8 j (Or.inr h8)]; simp
  · simp


/-- mc-cnn interpolation: an occlusion that finds a valid pixel on its row becomes "filled occlusion"
    (8 → 4), a mismatch that finds one along a scan direction becomes "filled mismatch" (9 → 5); nothing else
    changes.  Needs `|=`, or bits 4 and 5 still clear. -/
theorem mcCnnPix_testBit (ops : Ops) (f : Nat) (fo fm : Bool) (j : Nat)
    (h : ops.fill = .or ∨ (f.testBit 4 = false ∧ f.testBit 5 = false)) :
    (mcCnnPix ops f fo fm).testBit j =
      ((f.testBit j && !(f.testBit 8 && fo && decide (8 = j)) && !(f.testBit 9 && fm && decide (9 = j)))
        || (f.testBit 8 && fo && decide (4 = j)) || (f.testBit 9 && fm && decide (5 = j))) := by
  unfold mcCnnPix
  simp only [and256, and512, occlusion, mismatch, filledOcclusion, filledMismatch]
  -- first pass
  have p1 : ∀ i, (if f.testBit 8 = true then
        raise ops.fill (f - 256 * (if fo = true then 1 else 0)) (16 * (if fo = true then 1 else 0)) else f).testBit i
      = ((f.testBit i && !(f.testBit 8 && fo && decide (8 = i))) || (f.testBit 8 && fo && decide (4 = i))) := by
    intro i
    cases h8 : f.testBit 8
    · simp
    · cases fo
      · simp [raise_zero']
      · simp only [if_true, Nat.mul_one, Bool.true_and]
        have hs : ∀ i, (f - 256).testBit i = (f.testBit i && !decide (8 = i)) := fun i => testBit_sub_two_pow f 8 i h8
        have h4 : ops.fill = .or ∨ (f - 256).testBit 4 = false := by
          rcases h with h | h
          · exact Or.inl h
          · right; rw [hs]; simp [h.1]
        have := raise_testBit ops.fill (f - 256) 4 i h4
        simp only [Nat.reducePow] at this
        rw [this, hs]
  generalize (if f.testBit 8 = true then
        raise ops.fill (f - 256 * (if fo = true then 1 else 0)) (16 * (if fo = true then 1 else 0)) else f) = f1 at p1 ⊢
  have e9 : f1.testBit 9 = f.testBit 9 := by rw [p1]; simp
  rw [e9]
  cases h9 : f.testBit 9
  · simp [p1]
  · cases fm
    · simp [p1]
    · simp only [if_true]
      have h9' : f1.testBit 9 = true := by rw [e9, h9]
      have hs : ∀ i, (f1 - 512).testBit i = (f1.testBit i && !decide (9 = i)) := fun i => testBit_sub_two_pow f1 9 i h9'
      have h5 : ops.fill = .or ∨ (f1 - 512).testBit 5 = false := by
        rcases h with h | h
        · exact Or.inl h
        · right; rw [hs, p1]; simp [h.2]
      have := raise_testBit ops.fill (f1 - 512) 5 j h5
      simp only [Nat.reducePow] at this
      rw [this, hs, p1]
      by_cases a : 8 = j <;> by_cases b : 9 = j <;> by_cases c : 4 = j <;> by_cases d : 5 = j <;>
        simp [a, b, c, d] <;> omega

set_option maxRecDepth 4000 in
/-- sgm interpolation: a mismatch next to an occlusion is treated as an occlusion (9 → 8), another mismatch with a
    valid neighbour in sight becomes "filled mismatch" (9 → 5), an occlusion with two valid neighbours in sight
    "filled occlusion" (8 → 4); nothing else changes.
    Needs `|=`, or bits 4 and 5 still clear and not both 8 and 9 set. -/
theorem sgmPix_testBit (ops : Ops) (f : Nat) (near fm fo : Bool) (j : Nat)
    (h : ops.fill = .or ∨ (f.testBit 4 = false ∧ f.testBit 5 = false ∧ (f.testBit 8 && f.testBit 9) = false)) :
    (sgmPix ops f near fm fo).testBit j =
      ((((f.testBit j && !(f.testBit 9 && (near || fm) && decide (9 = j))) || (f.testBit 9 && near && decide (8 = j))
          || (f.testBit 9 && !near && fm && decide (5 = j)))
        && !((f.testBit 8 || (f.testBit 9 && near)) && fo && decide (8 = j)))
       || ((f.testBit 8 || (f.testBit 9 && near)) && fo && decide (4 = j))) := by
  unfold sgmPix
  simp only [occlusion, mismatch, filledOcclusion, filledMismatch]
  simp only [and256, and512]
  have p1 : ∀ i, (if f.testBit 9 = true then
        (if near = true then raise ops.fill (f - 512) 256
         else (if fm = true then raise ops.fill (f - 512) 32 else f)) else f).testBit i
      = ((f.testBit i && !(f.testBit 9 && (near || fm) && decide (9 = i))) || (f.testBit 9 && near && decide (8 = i))
          || (f.testBit 9 && !near && fm && decide (5 = i))) := by
    intro i
    cases h9 : f.testBit 9
    · simp
    · have hs : ∀ i, (f - 512).testBit i = (f.testBit i && !decide (9 = i)) := fun i => testBit_sub_two_pow f 9 i h9
      cases near
      · cases fm
        · simp
        · simp only [Bool.false_eq_true, if_false, if_true]
          have h5 : ops.fill = .or ∨ (f - 512).testBit 5 = false := by
            rcases h with h | h
            · exact Or.inl h
            · right; rw [hs]; simp [h.2.1]
          have := raise_testBit ops.fill (f - 512) 5 i h5
          simp only [Nat.reducePow] at this
          rw [this, hs]; simp
      · simp only [if_true]
        have h8 : ops.fill = .or ∨ (f - 512).testBit 8 = false := by
          rcases h with h | h
          · exact Or.inl h
          · right; rw [hs]
            have := h.2.2; rw [h9] at this; simp at this; simp [this]
        have := raise_testBit ops.fill (f - 512) 8 i h8
        simp only [Nat.reducePow] at this
        rw [this, hs]; simp
  generalize (if f.testBit 9 = true then
        (if near = true then raise ops.fill (f - 512) 256
         else (if fm = true then raise ops.fill (f - 512) 32 else f)) else f) = f1 at p1 ⊢
  have e8 : f1.testBit 8 = (f.testBit 8 || (f.testBit 9 && near)) := by rw [p1]; simp
  rw [← e8]
  cases h8 : f1.testBit 8
  · simp [p1]
  · cases fo
    · simp [p1]
    · simp only [if_true]
      have hs : ∀ i, (f1 - 256).testBit i = (f1.testBit i && !decide (8 = i)) := fun i => testBit_sub_two_pow f1 8 i h8
      have h4 : ops.fill = .or ∨ (f1 - 256).testBit 4 = false := by
        rcases h with h | h
        · exact Or.inl h
        · right; rw [hs, p1]; simp [h.1]
      have := raise_testBit ops.fill (f1 - 256) 4 j h4
      simp only [Nat.reducePow] at this
      rw [this, hs, p1]
      simp

/-! ### each step changes only its own bits -/

/-- the bits the step is about to raise with `+=` are clear (nothing to check for `|=`) -/
def RaiseClear (ops : Ops) (s : Step) (f : Nat) : Prop :=
  match s with
  | .refine _ => ops.refine = .or ∨ f.testBit 3 = false
  | .interpMcCnn _ _ => ops.fill = .or ∨ (f.testBit 4 = false ∧ f.testBit 5 = false)
  | .interpSgm _ _ _ => ops.fill = .or ∨ (f.testBit 4 = false ∧ f.testBit 5 = false ∧ (f.testBit 8 && f.testBit 9) = false)
  | _ => True

theorem intervals_testBit (ops : Ops) (hreg : ops.reg = .or) (f : Nat) (reg : Bool) (j : Nat) :
    (stepFlag ops false (.filterIntervals reg) f).testBit j = (f.testBit j || (reg && decide (11 = j))) := by
  simp only [stepFlag, hreg, raise, intervalRegularized]
  cases reg
  · simp
  · have := testBit_or_two_pow f 11 j
    simp only [Nat.reducePow] at this
    simpa using this

/-- the flag after a step, bit by bit (no border rewrite) -/
def expectedBit (s : Step) (f : Nat) (j : Nat) : Bool :=
  match s with
  | .refine st => f.testBit j || (decide (3 = j) && st && !isInvalid f)
  | .filter => f.testBit j
  | .filterIntervals reg => f.testBit j || (reg && decide (11 = j))
  | .crossCheck d => f.testBit j || (!isInvalid f && ((decide (d = .occlusion) && decide (8 = j)) || (decide (d = .mismatch) && decide (9 = j))))
  | .interpMcCnn fo fm =>
      (f.testBit j && !(f.testBit 8 && fo && decide (8 = j)) && !(f.testBit 9 && fm && decide (9 = j)))
        || (f.testBit 8 && fo && decide (4 = j)) || (f.testBit 9 && fm && decide (5 = j))
  | .interpSgm near fm fo =>
      (((f.testBit j && !(f.testBit 9 && (near || fm) && decide (9 = j))) || (f.testBit 9 && near && decide (8 = j))
          || (f.testBit 9 && !near && fm && decide (5 = j)))
        && !((f.testBit 8 || (f.testBit 9 && near)) && fo && decide (8 = j)))
       || ((f.testBit 8 || (f.testBit 9 && near)) && fo && decide (4 = j))

/-- **`+` is `|`**: when the bit being added is clear (or the site uses `|=`), the flag after the step is the
    flag before with exactly the step's own bit changes. -/
theorem stepFlag_testBit (ops : Ops) (hreg : ops.reg = .or) (s : Step) (f j : Nat) (h : RaiseClear ops s f) :
    (stepFlag ops false s f).testBit j = expectedBit s f j := by
  cases s with
  | refine st => exact refinePix_testBit ops f st j h
  | filter => rfl
  | filterIntervals reg => exact intervals_testBit ops hreg f reg j
  | crossCheck d =>
    show (borderPix false (crossCheckPix ops f d)).testBit j = _
    exact crossCheckPix_testBit ops f d j
  | interpMcCnn fo fm =>
    show (borderPix false (mcCnnPix ops f fo fm)).testBit j = _
    exact mcCnnPix_testBit ops f fo fm j h
  | interpSgm near fm fo => exact sgmPix_testBit ops f near fm fo j h

theorem stepFlag_border_rewrite (ops : Ops) (s : Step) (f : Nat) (h : rewritesBorder s = true) :
    stepFlag ops true s f = leftNodataOrBorder := by
  cases s <;> simp [rewritesBorder] at h <;> simp [stepFlag, borderPix]

theorem stepFlag_border_irrelevant (ops : Ops) (s : Step) (f : Nat) (b : Bool) (h : rewritesBorder s = false) :
    stepFlag ops b s f = stepFlag ops false s f := by
  cases s <;> simp [rewritesBorder] at h <;> simp [stepFlag]


theorem expected_raised_own (s : Step) (f k : Nat) (h : (expectedBit s f k && !f.testBit k) = true) :
    (ownRaise s).testBit k = true := by
  cases s <;> simp only [expectedBit, ownRaise, stoppedInterpolation, intervalRegularized, occlusion, mismatch,
    filledOcclusion, filledMismatch] at h ⊢
  · -- refine
    cases hf : f.testBit k <;> simp [hf] at h
    obtain ⟨⟨rfl, _⟩, _⟩ := h; decide
  · cases hf : f.testBit k <;> simp [hf] at h
  · cases hf : f.testBit k <;> simp [hf] at h
    obtain ⟨_, rfl⟩ := h; decide
  · cases hf : f.testBit k <;> simp [hf] at h
    rcases h.2 with ⟨_, rfl⟩ | ⟨_, rfl⟩ <;> decide
  · cases hf : f.testBit k <;> simp [hf] at h
    rcases h with ⟨_, rfl⟩ | ⟨_, rfl⟩ <;> decide
  · by_cases a : 4 = k
    · subst a; decide
    · by_cases b : 5 = k
      · subst b; decide
      · by_cases c : 8 = k
        · subst c; decide
        · cases hf : f.testBit k <;> simp [hf, a, b, c] at h

theorem expected_cleared_may (s : Step) (f k : Nat) (h : (f.testBit k && !expectedBit s f k) = true) :
    (mayClear s).testBit k = true := by
  cases s <;> simp only [expectedBit, mayClear, occlusion, mismatch] at h ⊢
  · cases hf : f.testBit k <;> simp [hf] at h
  · cases hf : f.testBit k <;> simp [hf] at h
  · cases hf : f.testBit k <;> simp [hf] at h
  · cases hf : f.testBit k <;> simp [hf] at h
  · by_cases a : 8 = k
    · subst a; decide
    · by_cases b : 9 = k
      · subst b; decide
      · cases hf : f.testBit k <;> simp [hf, a, b] at h
  · by_cases a : 8 = k
    · subst a; decide
    · by_cases b : 9 = k
      · subst b; decide
      · cases hf : f.testBit k <;> simp [hf, a, b] at h

end Pandora.C04
