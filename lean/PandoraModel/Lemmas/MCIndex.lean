/-
  Index arithmetic of the matching-cost model: `point_interval` in closed form, the shifted right images as
  linear interpolation, the disparity range as an arithmetic progression.
-/
import PandoraModel.Lemmas.MCSums

namespace Pandora.MC

/-- `1` when the disparity `k/sp` is fractional, `0` when it is an integer -/
def fracBit (k : Int) (sp : Nat) : Int := if k % (sp : Int) = 0 then 0 else 1

theorem fracBit_nonneg (k : Int) (sp : Nat) : 0 ≤ fracBit k sp := by unfold fracBit; split <;> omega
theorem fracBit_le_one (k : Int) (sp : Nat) : fracBit k sp ≤ 1 := by unfold fracBit; split <;> omega

/-- `⌈k/s⌉ = ⌊k/s⌋ + [k mod s ≠ 0]`, in the form `(-k)/s = -(k/s) - [k mod s ≠ 0]` -/
theorem neg_ediv (k : Int) (sp : Nat) (hs : 0 < sp) :
    (-k) / (sp : Int) = -(k / (sp : Int)) - fracBit k sp := by
  have hs' : (0 : Int) < sp := by exact_mod_cast hs
  have h1 := Int.mul_ediv_add_emod k sp
  have h2 := Int.emod_nonneg k (ne_of_gt hs')
  have h3 := Int.emod_lt_of_pos k hs'
  unfold fracBit
  split
  · rename_i h0
    have : -k = (-(k / (sp : Int))) * sp := by
      have : k = (sp : Int) * (k / sp) := by omega
      calc -k = -((sp : Int) * (k / sp)) := by rw [← this]
        _ = (-(k / (sp : Int))) * sp := by ring
    rw [this, Int.mul_ediv_cancel _ (ne_of_gt hs')]
    ring
  · rename_i h0
    have hq : (-k) / (sp : Int) = -(k / (sp : Int)) - 1 ∧ (-k) % (sp : Int) = sp - k % sp := by
      rw [Int.ediv_emod_unique hs']
      refine ⟨?_, by omega, by omega⟩
      have : (sp : Int) * (-(k / (sp : Int)) - 1) = -((sp : Int) * (k / sp)) - sp := by ring
      rw [this]; omega
    rw [hq.1]

theorem add_mul_ediv (a b : Int) (sp : Nat) (hs : 0 < sp) : (b * (sp : Int) + a) / (sp : Int) = b + a / sp := by
  have hs' : (sp : Int) ≠ 0 := by exact_mod_cast (Nat.pos_iff_ne_zero.mp hs)
  rw [Int.add_comm, Int.add_mul_ediv_right _ _ hs', Int.add_comm]

/-- closed form of `point_interval` for the disparity `k/sp`: with `D = ⌊k/sp⌋` and `e = [fractional]`,
    `p = [max 0 (-D), min nxL (nxL - D - e))` and `q = [max 0 D, min nxR (nxR + D + e))` -/
theorem pointInterval_closed (nxL nxR k : Int) (sp : Nat) (hs : 0 < sp) :
    pointInterval nxL nxR k sp =
      ⟨max 0 (-(k / (sp : Int))), min nxL (nxL - k / (sp : Int) - fracBit k sp),
       max 0 (k / (sp : Int)), min nxR (nxR + k / (sp : Int) + fracBit k sp)⟩ := by
  have hs' : (0 : Int) < sp := by exact_mod_cast hs
  have hne : (sp : Int) ≠ 0 := ne_of_gt hs'
  have hneg := neg_ediv k sp hs
  have hf0 := fracBit_nonneg k sp
  have hf1 := fracBit_le_one k sp
  unfold pointInterval
  simp only [fdiv, cdiv]
  by_cases hk : k < 0
  · simp only [hk, if_true]
    have hD : k / (sp : Int) < 0 := Int.ediv_neg_of_neg_of_pos hk hs'
    have e1 : max (0 - k) 0 = -k := by omega
    have e2 : min (nxL * (sp : Int) - k) (nxL * sp) = nxL * sp := by omega
    have e3 : max (0 + k) 0 = 0 := by omega
    have e4 : min (nxR * (sp : Int) + k) (nxR * sp) = nxR * sp + k := by omega
    rw [e1, e2, e3, e4]
    have a1 : -(- -k / (sp : Int)) = -(k / (sp : Int)) := by rw [Int.neg_neg]
    have a2 : -(-(nxL * (sp : Int)) / sp) = nxL := by
      have : -(nxL * (sp : Int)) = (-nxL) * sp := by ring
      rw [this, Int.mul_ediv_cancel _ hne]; ring
    have a3 : -(-(0 : Int) / (sp : Int)) = 0 := by simp
    have a4 : -(-(nxR * (sp : Int) + k) / sp) = nxR + k / (sp : Int) + fracBit k sp := by
      have : -(nxR * (sp : Int) + k) = (-nxR) * sp + (-k) := by ring
      rw [this, add_mul_ediv _ _ sp hs, hneg]; ring
    rw [a1, a2, a3, a4]
    congr 1 <;> omega
  · simp only [hk, if_false]
    have hk' : 0 ≤ k := by omega
    have hD : 0 ≤ k / (sp : Int) := Int.ediv_nonneg hk' (le_of_lt hs')
    have e1 : max (0 - k) 0 = 0 := by omega
    have e2 : min (nxL * (sp : Int) - k) (nxL * sp) = nxL * sp + (-k) := by omega
    have e3 : max (0 + k) 0 = k := by omega
    have e4 : min (nxR * (sp : Int) + k) (nxR * sp) = nxR * sp := by omega
    rw [e1, e2, e3, e4]
    have a1 : (0 : Int) / (sp : Int) = 0 := by simp
    have a2 : (nxL * (sp : Int) + -k) / sp = nxL - k / (sp : Int) - fracBit k sp := by
      rw [add_mul_ediv _ _ sp hs, hneg]; ring
    have a4 : nxR * (sp : Int) / sp = nxR := Int.mul_ediv_cancel _ hne
    rw [a1, a2, a4]
    congr 1 <;> omega

/-- membership in the left column range, independently of the right width -/
theorem mem_p_iff (nxL nxR k : Int) (sp : Nat) (hs : 0 < sp) (c : Int) :
    ((pointInterval nxL nxR k sp).p0 ≤ c ∧ c < (pointInterval nxL nxR k sp).p1) ↔
      (0 ≤ c ∧ c < nxL ∧ 0 ≤ c + k / (sp : Int) ∧ c + k / (sp : Int) + fracBit k sp < nxL) := by
  rw [pointInterval_closed nxL nxR k sp hs]
  have hf0 := fracBit_nonneg k sp
  simp only
  omega

/-- the right column facing left column `c` is `c + ⌊k/sp⌋` -/
theorem q_of_p (nxL nxR k : Int) (sp : Nat) (hs : 0 < sp) (c : Int)
    (h : (pointInterval nxL nxR k sp).p0 ≤ c ∧ c < (pointInterval nxL nxR k sp).p1) :
    (pointInterval nxL nxR k sp).q0 + (c - (pointInterval nxL nxR k sp).p0) = c + k / (sp : Int) := by
  have := (mem_p_iff nxL nxR k sp hs c).mp h
  rw [pointInterval_closed nxL nxR k sp hs]
  simp only
  omega

/-! ### the shifted right images are the linear interpolation of the right image -/

theorem iRight_eq (k : Int) (sp : Nat) (hs : 0 < sp) : ((iRight k sp : Nat) : Int) = k % (sp : Int) := by
  have hs' : (sp : Int) ≠ 0 := by exact_mod_cast (Nat.pos_iff_ne_zero.mp hs)
  have := Int.emod_nonneg k hs'
  unfold iRight
  omega

theorem iRight_eq_zero_iff (k : Int) (sp : Nat) (hs : 0 < sp) : iRight k sp = 0 ↔ k % (sp : Int) = 0 := by
  have := iRight_eq k sp hs
  omega

/-- column `c + ⌊k/sp⌋` of `img_right_shift[i_right]` is the right image interpolated at `c + k/sp` -/
theorem shiftRight_px (R : Img) (k : Int) (sp : Nat) (hs : 0 < sp) (r c : Int) :
    (shiftRight R sp (iRight k sp)).px r (c + k / (sp : Int)) = interpR R sp k r c := by
  have hs' : (0 : Int) < sp := by exact_mod_cast hs
  have hne : (sp : Int) ≠ 0 := ne_of_gt hs'
  have hi := iRight_eq k sp hs
  have hlt := Int.emod_lt_of_pos k hs'
  have hnn := Int.emod_nonneg k hne
  unfold shiftRight interpR
  by_cases h0 : k % (sp : Int) = 0
  · have : iRight k sp = 0 := (iRight_eq_zero_iff k sp hs).mpr h0
    simp [this, h0]
  · have hi0 : iRight k sp ≠ 0 := fun h => h0 ((iRight_eq_zero_iff k sp hs).mp h)
    simp only [hi0, if_false, h0]
    unfold zoomCol
    have e1 : ((iRight k sp : Nat) : Int) + (c + k / (sp : Int)) * (sp : Int) = (c + k / (sp : Int)) * sp + k % sp := by
      rw [hi]; ring
    have e2 : ((c + k / (sp : Int)) * (sp : Int) + k % sp) / sp = c + k / sp := by
      rw [add_mul_ediv _ _ sp hs, Int.ediv_eq_zero_of_lt hnn hlt]; ring
    have e3 : ((c + k / (sp : Int)) * (sp : Int) + k % sp) % sp = k % sp := by
      rw [Int.add_comm, Int.add_mul_emod_self_right, Int.emod_emod_of_dvd _ (dvd_refl _)]
    simp only [e1, e2, e3, h0, if_false]

theorem shiftRight_rows (R : Img) (sp i : Nat) : (shiftRight R sp i).rows = R.rows := by
  unfold shiftRight; split <;> rfl

theorem shiftRight_cols (R : Img) (k : Int) (sp : Nat) (hs : 0 < sp) (hc : 0 < R.cols) :
    (((shiftRight R sp (iRight k sp)).cols : Nat) : Int) = (R.cols : Int) - fracBit k sp := by
  unfold shiftRight fracBit
  by_cases h0 : k % (sp : Int) = 0
  · have : iRight k sp = 0 := (iRight_eq_zero_iff k sp hs).mpr h0
    simp [this, h0]
  · have hi0 : iRight k sp ≠ 0 := fun h => h0 ((iRight_eq_zero_iff k sp hs).mp h)
    simp only [hi0, if_false, h0]
    omega

/-! ### the disparity range is the arithmetic progression `gmin·sp, gmin·sp + 1, …, gmax·sp` -/

theorem dispRange_eq (gmin gmax : Int) (sp : Nat) (hs : 0 < sp) (hg : gmin ≤ gmax) :
    dispRange gmin gmax sp =
      (List.range (((gmax - gmin) * (sp : Int)).toNat + 1)).map (fun (j : Nat) => gmin * (sp : Int) + (j : Int)) := by
  unfold dispRange
  by_cases h1 : sp = 1
  · subst h1
    simp only [if_true]
    have : (gmax + 1 - gmin).toNat = ((gmax - gmin) * ((1 : Nat) : Int)).toNat + 1 := by
      simp only [Nat.cast_one, Int.mul_one]; omega
    rw [this]
    apply List.map_congr_left
    intro j _
    simp
  · simp only [h1, if_false]
    rw [List.range_succ, List.map_append]
    congr 1
    simp only [List.map_cons, List.map_nil]
    have hs' : (0 : Int) ≤ sp := by exact_mod_cast (Nat.zero_le sp)
    have hnn : 0 ≤ (gmax - gmin) * (sp : Int) := Int.mul_nonneg (by omega) hs'
    have : (((gmax - gmin) * (sp : Int)).toNat : Int) = (gmax - gmin) * sp := Int.toNat_of_nonneg hnn
    rw [this]
    congr 1
    ring

theorem nDisp_eq (gmin gmax : Int) (sp : Nat) (hs : 0 < sp) (hg : gmin ≤ gmax) :
    nDisp gmin gmax sp = ((gmax - gmin) * (sp : Int)).toNat + 1 := by
  unfold nDisp; rw [dispRange_eq gmin gmax sp hs hg]; simp

theorem dispRange_getD (gmin gmax : Int) (sp : Nat) (hs : 0 < sp) (hg : gmin ≤ gmax) (j : Nat)
    (hj : j < nDisp gmin gmax sp) : (dispRange gmin gmax sp).getD j 0 = gmin * (sp : Int) + j := by
  rw [nDisp_eq gmin gmax sp hs hg] at hj
  rw [dispRange_eq gmin gmax sp hs hg]
  simp [List.getD, hj]

end Pandora.MC
