/-
  C09 pipeline composition — the common predicate `BoundedValid` (and `OneFlag`) over the common map
  representation `Interp.DMap`, with their decidable forms.
-/
import PandoraModel.Model.PipelineBound
import PandoraModel.Lemmas.C04Bits
import PandoraModel.Properties.C14

namespace Pandora.C09P
open Pandora Pandora.Pipeline

/-! ## 1. The common predicate -/

/-- every pixel of the map whose flag word is valid carries a number in `[lo r c, hi r c]` -/
def BoundedBy (lo hi : Nat → Nat → Rat) (m : DMap) : Prop :=
  ∀ r c, r < m.rows → c < m.cols → Flags.isInvalid (m.flag r c) = false →
    ∃ q, m.disp r c = .num q ∧ lo r c ≤ q ∧ q ≤ hi r c

/-- every pixel of the map whose flag word is valid carries a number in `[lo, hi]` -/
def BoundedValid (lo hi : Rat) (m : DMap) : Prop := BoundedBy (fun _ _ => lo) (fun _ _ => hi) m

/-- no flag word carries both bit 8 (occlusion) and bit 9 (mismatch) -/
def OneFlag (m : DMap) : Prop :=
  ∀ r c, r < m.rows → c < m.cols → (m.flag r c).testBit 8 = true → (m.flag r c).testBit 9 = false

theorem valid_eq_not_isInvalid (m : DMap) (r c : Nat) : m.valid r c = !Flags.isInvalid (m.flag r c) := by
  unfold Interp.DMap.valid Flags.isInvalid
  cases h : (m.flag r c &&& Flags.pixelInvalid) == 0 <;> simp_all

theorem BoundedBy.mono {lo hi lo' hi' : Nat → Nat → Rat} {m : DMap} (h : BoundedBy lo hi m)
    (hlo : ∀ r c, r < m.rows → c < m.cols → lo' r c ≤ lo r c) (hhi : ∀ r c, r < m.rows → c < m.cols → hi r c ≤ hi' r c) :
    BoundedBy lo' hi' m := by
  intro r c hr hc hv
  obtain ⟨q, hq, h1, h2⟩ := h r c hr hc hv
  exact ⟨q, hq, le_trans (hlo r c hr hc) h1, le_trans h2 (hhi r c hr hc)⟩

/-- the decidable form evaluated by the driver is the predicate -/
theorem boundedByB_iff (lo hi : Nat → Nat → Rat) (m : DMap) : boundedByB lo hi m = true ↔ BoundedBy lo hi m := by
  unfold boundedByB BoundedBy
  rw [C14.allPx_iff]
  constructor
  · intro h r c hr hc hv
    have := h r c hr hc
    rw [valid_eq_not_isInvalid, hv] at this
    cases hd : m.disp r c with
    | nan => rw [hd] at this; simp at this
    | num q =>
      rw [hd] at this
      simp only [Bool.not_false, Bool.not_true, Bool.false_or, Bool.and_eq_true, decide_eq_true_eq] at this
      exact ⟨q, rfl, this.1, this.2⟩
  · intro h r c hr hc
    rw [valid_eq_not_isInvalid]
    cases hv : Flags.isInvalid (m.flag r c) with
    | true => simp
    | false =>
      obtain ⟨q, hq, h1, h2⟩ := h r c hr hc hv
      rw [hq]; simp [h1, h2]

theorem boundedValidB_iff (lo hi : Rat) (m : DMap) : boundedValidB lo hi m = true ↔ BoundedValid lo hi m :=
  boundedByB_iff _ _ m

theorem oneFlag_iff (m : DMap) : Interp.oneFlag m = true ↔ OneFlag m := by
  unfold Interp.oneFlag OneFlag
  rw [C14.allPx_iff]
  constructor
  · intro h r c hr hc h8
    have := h r c hr hc
    rw [Interp.occlusion_pow, Interp.mismatch_pow, Interp.hasBit_two_pow, Interp.hasBit_two_pow, h8] at this
    simpa using this
  · intro h r c hr hc
    rw [Interp.occlusion_pow, Interp.mismatch_pow, Interp.hasBit_two_pow, Interp.hasBit_two_pow]
    cases h8 : (m.flag r c).testBit 8 with
    | false => simp
    | true => simp [h r c hr hc h8]

end Pandora.C09P
