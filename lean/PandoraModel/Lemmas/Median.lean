/-
  Order statistics: the sort-based median of the model is the median in the counting sense, and lies
  between the smallest and the largest value.  (Used by C10.)
-/
import PandoraModel.Model.Filter
import Mathlib.Data.List.Sort
import Mathlib.Algebra.Order.Field.Rat
import Mathlib.Tactic.Linarith

namespace Pandora.Filter
open List

theorem insertSorted_eq (x : Rat) (l : List Rat) : insertSorted x l = List.orderedInsert (· ≤ ·) x l := by
  induction l with
  | nil => rfl
  | cons y ys ih => simp [insertSorted, List.orderedInsert, ih]

theorem sortRat_eq (l : List Rat) : sortRat l = List.insertionSort (· ≤ ·) l := by
  induction l with
  | nil => rfl
  | cons x xs ih => simp [sortRat, List.insertionSort, ih, insertSorted_eq]

theorem sortRat_perm (l : List Rat) : sortRat l ~ l := by
  rw [sortRat_eq]; exact List.perm_insertionSort _ l

theorem sortRat_sorted (l : List Rat) : List.Pairwise (· ≤ ·) (sortRat l) := by
  rw [sortRat_eq]; exact List.pairwise_insertionSort _ l

theorem sortRat_length (l : List Rat) : (sortRat l).length = l.length := (sortRat_perm l).length_eq

theorem isKth_of_split (l1 l2 : List Rat) (x : Rat) (h1 : ∀ a ∈ l1, a ≤ x) (h2 : ∀ b ∈ l2, x ≤ b) :
    isKth (l1 ++ x :: l2) l1.length x = true := by
  simp only [isKth, Bool.and_eq_true, decide_eq_true_eq]
  refine ⟨⟨by simp, ?_⟩, ?_⟩
  · -- nothing at or after the position of x is smaller
    unfold countLt
    rw [List.countP_append, List.countP_cons]
    have h0 : List.countP (fun v => decide (v < x)) l2 = 0 := by
      rw [List.countP_eq_zero]
      intro a ha
      have := h2 a ha
      simpa using this
    have hle : List.countP (fun v => decide (v < x)) l1 ≤ l1.length := List.countP_le_length
    simp [h0]; omega
  · -- everything before x is at most x
    unfold countLe
    rw [List.countP_append, List.countP_cons]
    have hall : List.countP (fun v => decide (v ≤ x)) l1 = l1.length := by
      rw [List.countP_eq_length]
      intro a ha
      have := h1 a ha
      simpa using this
    rw [hall]
    simp

/-- in a sorted list the element at index `k` is a `k`-th smallest value -/
theorem sorted_isKth (s : List Rat) (hs : List.Pairwise (· ≤ ·) s) (k : Nat) (hk : k < s.length) :
    isKth s k s[k] = true := by
  have hsplit : s.take k ++ s[k] :: s.drop (k + 1) = s := by
    rw [List.getElem_cons_drop hk, List.take_append_drop]
  have hs' := hs
  rw [← hsplit, List.pairwise_append] at hs'
  obtain ⟨_, hright, hcross⟩ := hs'
  have hright' := List.pairwise_cons.1 hright
  have hlen : (s.take k).length = k := by simp; omega
  have e := isKth_of_split (s.take k) (s.drop (k + 1)) s[k]
    (fun a ha => hcross a ha s[k] List.mem_cons_self) (fun b hb => hright'.1 b hb)
  rw [hlen, hsplit] at e
  exact e

theorem isKth_perm {l₁ l₂ : List Rat} (h : l₁ ~ l₂) (k : Nat) (x : Rat) : isKth l₁ k x = isKth l₂ k x := by
  unfold isKth countLt countLe
  rw [h.countP_eq, h.countP_eq]
  congr 2
  simp [h.mem_iff]

theorem getD_eq_getElem (s : List Rat) (k : Nat) (hk : k < s.length) : s.getD k 0 = s[k] := by
  simp [List.getD, List.getElem?_eq_getElem hk]

/-- **the model's `nanmedian` is the median** of the non-NaN values, in the counting sense -/
theorem nanmedian_isMedian (l : List Val) (hne : nums l ≠ []) :
    ∃ m, nanmedian l = .num m ∧ isMedian (nums l) m = true := by
  set vs := nums l with hvs
  set s := sortRat vs with hsdef
  have hperm : s ~ vs := sortRat_perm vs
  have hsorted := sortRat_sorted vs
  have hlen : s.length = vs.length := hperm.length_eq
  have hpos : 0 < vs.length := List.length_pos_iff.2 hne
  unfold nanmedian medianSorted
  rw [← hvs, ← hsdef]
  have hz : ¬ s.length = 0 := by omega
  rw [if_neg hz]
  by_cases hodd : s.length % 2 = 1
  · rw [if_pos hodd]
    have hk : s.length / 2 < s.length := by omega
    refine ⟨_, rfl, ?_⟩
    unfold isMedian
    rw [← hlen, if_pos hodd, getD_eq_getElem s _ hk, ← isKth_perm hperm]
    exact sorted_isKth s hsorted _ hk
  · rw [if_neg hodd]
    have hk1 : s.length / 2 - 1 < s.length := by omega
    have hk2 : s.length / 2 < s.length := by omega
    refine ⟨_, rfl, ?_⟩
    unfold isMedian
    rw [← hlen, if_neg hodd, getD_eq_getElem s _ hk1, getD_eq_getElem s _ hk2]
    refine List.any_eq_true.2 ⟨s[s.length / 2 - 1], hperm.mem_iff.1 (List.getElem_mem hk1), ?_⟩
    refine List.any_eq_true.2 ⟨s[s.length / 2], hperm.mem_iff.1 (List.getElem_mem hk2), ?_⟩
    rw [← isKth_perm hperm, ← isKth_perm hperm, sorted_isKth s hsorted _ hk1, sorted_isKth s hsorted _ hk2]
    simp

/-! ### between the smallest and the largest value -/

theorem foldl_min_le (xs : List Rat) : ∀ (a : Rat),
    xs.foldl (fun a b => if b < a then b else a) a ≤ a
    ∧ ∀ v ∈ xs, xs.foldl (fun a b => if b < a then b else a) a ≤ v := by
  induction xs with
  | nil => intro a; simp
  | cons x xs ih =>
    intro a
    simp only [List.foldl_cons]
    by_cases h : x < a
    · rw [if_pos h]
      obtain ⟨h1, h2⟩ := ih x
      refine ⟨le_trans h1 (le_of_lt h), ?_⟩
      intro v hv
      rcases List.mem_cons.1 hv with rfl | hv
      · exact h1
      · exact h2 v hv
    · rw [if_neg h]
      obtain ⟨h1, h2⟩ := ih a
      refine ⟨h1, ?_⟩
      intro v hv
      rcases List.mem_cons.1 hv with rfl | hv
      · exact le_trans h1 (not_lt.1 h)
      · exact h2 v hv

theorem foldl_max_ge (xs : List Rat) : ∀ (a : Rat),
    a ≤ xs.foldl (fun a b => if a < b then b else a) a
    ∧ ∀ v ∈ xs, v ≤ xs.foldl (fun a b => if a < b then b else a) a := by
  induction xs with
  | nil => intro a; simp
  | cons x xs ih =>
    intro a
    simp only [List.foldl_cons]
    by_cases h : a < x
    · rw [if_pos h]
      obtain ⟨h1, h2⟩ := ih x
      refine ⟨le_trans (le_of_lt h) h1, ?_⟩
      intro v hv
      rcases List.mem_cons.1 hv with rfl | hv
      · exact h1
      · exact h2 v hv
    · rw [if_neg h]
      obtain ⟨h1, h2⟩ := ih a
      refine ⟨h1, ?_⟩
      intro v hv
      rcases List.mem_cons.1 hv with rfl | hv
      · exact le_trans (not_lt.1 h) h1
      · exact h2 v hv

theorem minOf_le (vs : List Rat) (v : Rat) (hv : v ∈ vs) : minOf vs ≤ v := by
  cases vs with
  | nil => simp at hv
  | cons x xs =>
    obtain ⟨h1, h2⟩ := foldl_min_le xs x
    rcases List.mem_cons.1 hv with rfl | hv
    · exact h1
    · exact h2 v hv

theorem le_maxOf (vs : List Rat) (v : Rat) (hv : v ∈ vs) : v ≤ maxOf vs := by
  cases vs with
  | nil => simp at hv
  | cons x xs =>
    obtain ⟨h1, h2⟩ := foldl_max_ge xs x
    rcases List.mem_cons.1 hv with rfl | hv
    · exact h1
    · exact h2 v hv

theorem isKth_mem {vs : List Rat} {k : Nat} {x : Rat} (h : isKth vs k x = true) : x ∈ vs := by
  simp only [isKth, Bool.and_eq_true] at h
  simpa [List.contains_iff_mem] using h.1.1

/-- a median lies between the smallest and the largest value -/
theorem isMedian_between (vs : List Rat) (m : Rat) (h : isMedian vs m = true) : between vs m = true := by
  unfold isMedian at h
  simp only [between, Bool.and_eq_true, decide_eq_true_eq]
  by_cases hodd : vs.length % 2 = 1
  · rw [if_pos hodd] at h
    have := isKth_mem h
    exact ⟨minOf_le vs m this, le_maxOf vs m this⟩
  · rw [if_neg hodd] at h
    obtain ⟨a, ha, h⟩ := List.any_eq_true.1 h
    obtain ⟨b, hb, h⟩ := List.any_eq_true.1 h
    simp only [Bool.and_eq_true, beq_iff_eq] at h
    obtain ⟨_, hm⟩ := h
    have ha1 := minOf_le vs a ha
    have ha2 := le_maxOf vs a ha
    have hb1 := minOf_le vs b hb
    have hb2 := le_maxOf vs b hb
    subst hm
    constructor
    · rw [le_div_iff₀ (by norm_num : (0 : Rat) < 2)]; linarith
    · rw [div_le_iff₀ (by norm_num : (0 : Rat) < 2)]; linarith

end Pandora.Filter
