/- mc-cnn occlusion kernel (reversed mask + argmax, then the same to the right) against
   "nearest valid pixel on the left, otherwise on the right".  Core Lean only. -/
import PandoraModel.Model.Interp

namespace Pandora.Interp
open Pandora Pandora.Flags

theorem findIdx_map_id {α} (p : α → Bool) (js : List α) : (js.map p).findIdx (fun b => b) = js.findIdx p := by
  induction js with
  | nil => rfl
  | cons x t ih => simp [List.findIdx_cons, ih]

theorem find?_findIdx {α} (p : α → Bool) (js : List α) (j : α) (h : js.find? p = some j) :
    js.findIdx p < js.length ∧ js[js.findIdx p]? = some j := by
  induction js with
  | nil => simp at h
  | cons x t ih =>
    rw [List.find?_cons] at h
    rw [List.findIdx_cons]
    by_cases hx : p x = true
    · simp [hx] at h ⊢; exact h
    · simp only [Bool.not_eq_true] at hx
      simp only [hx] at h
      simp only [hx, cond_false]
      have := ih h
      exact ⟨by rw [List.length_cons]; exact Nat.succ_lt_succ this.1, by rw [List.getElem?_cons_succ]; exact this.2⟩

/-- `argmax` of a mask whose first entry (the pixel itself) is False: 0 when no candidate is valid,
    otherwise 1 + the position of the first valid candidate, where the mask is True -/
theorem argmax_false_cons {α} (p : α → Bool) (js : List α) :
    (js.find? p = none →
      argmaxBool (false :: js.map p) = 0 ∧ (false :: js.map p).getD (argmaxBool (false :: js.map p)) false = false) ∧
    (∀ j, js.find? p = some j →
      argmaxBool (false :: js.map p) ≠ 0 ∧ (false :: js.map p).getD (argmaxBool (false :: js.map p)) false = true
      ∧ js[argmaxBool (false :: js.map p) - 1]? = some j) := by
  have hidx : (false :: js.map p).findIdx (fun b => b) = js.findIdx p + 1 := by
    rw [List.findIdx_cons, findIdx_map_id]; simp
  constructor
  · intro hnone
    have : js.findIdx p = js.length := by
      rw [List.findIdx_eq_length]; intro x hx; simpa using (List.find?_eq_none.mp hnone) x hx
    unfold argmaxBool
    simp [hidx, this]
  · intro j hj
    obtain ⟨hlt, hget⟩ := find?_findIdx p js j hj
    have hpj : p j = true := List.find?_some hj
    unfold argmaxBool
    simp only [hidx, List.length_cons, List.length_map, Nat.add_lt_add_iff_right, hlt, if_true]
    refine ⟨by omega, ?_, by simpa using hget⟩
    rw [List.getD_eq_getElem?_getD, List.getElem?_cons_succ, List.getElem?_map, hget]
    simp [hpj]

theorem firstValid_row (m : DMap) (r : Nat) (js : List Nat) :
    firstValid m (js.map fun (j : Nat) => ((r : Int), (j : Int))) = (js.find? (m.valid r)).map (m.disp r) := by
  unfold firstValid
  rw [List.find?_map]
  simp only [Option.map_map]
  have h1 : (m.validAt ∘ fun (j : Nat) => ((r : Int), (j : Int))) = m.valid r := by
    funext j; simp [DMap.validAt]
  rw [h1]
  congr 1

theorem reverse_range_getElem? (c k j : Nat) (h : (List.range c).reverse[k]? = some j) : j + (k + 1) = c := by
  rw [List.getElem?_eq_some_iff] at h
  obtain ⟨hk, hj⟩ := h
  simp at hk
  rw [List.getElem_reverse] at hj
  simp at hj
  omega

theorem range'_getElem? (s n k j : Nat) (h : (List.range' s n)[k]? = some j) : j = s + k := by
  rw [List.getElem?_eq_some_iff] at h
  obtain ⟨_, hj⟩ := h
  simp at hj
  omega

/-- The search of `interpolate_occlusion_mc_cnn` for a pixel carrying bit 8 (hence invalid): the disparity of
    the nearest valid pixel on the left, otherwise of the nearest on the right, with `msk[arg_valid] = True`;
    without any valid pixel in the row the pixel's own disparity with `msk[arg_valid] = False`. -/
theorem occlMcCore_eq (m : DMap) (r c : Nat) (hc : c < m.cols) (hinv : m.valid r c = false) :
    occlMcCore m r c =
      match sourceOcclMc m r c with
      | some v => (v, true)
      | none => (m.disp r c, false) := by
  unfold occlMcCore
  -- the two masks of the code start with the pixel itself (False), followed by the candidates
  have hL : ((List.range (c + 1)).map fun j => m.valid r j).reverse
      = false :: ((List.range c).reverse.map (m.valid r)) := by
    rw [List.range_succ, List.map_append, List.reverse_append]; simp [hinv]
  have hR : ((List.range (m.cols - c)).map fun k => m.valid r (c + k))
      = false :: ((List.range' (c + 1) (m.cols - (c + 1))).map (m.valid r)) := by
    have : m.cols - c = (m.cols - (c + 1)) + 1 := by omega
    rw [this, List.range_succ_eq_map, List.map_cons, List.map_map, List.range'_eq_map_range, List.map_map]
    simp only [Nat.add_zero, hinv]
    congr 1
    apply List.map_congr_left; intro k _; simp [Function.comp]; congr 1; omega
  rw [hL, hR]
  unfold sourceOcclMc leftPts rightPts
  rw [firstValid_row, firstValid_row]
  obtain ⟨hLn, hLs⟩ := argmax_false_cons (m.valid r) (List.range c).reverse
  obtain ⟨hRn, hRs⟩ := argmax_false_cons (m.valid r) (List.range' (c + 1) (m.cols - (c + 1)))
  cases hl : (List.range c).reverse.find? (m.valid r) with
  | some j =>
    obtain ⟨ha, hb, hj⟩ := hLs j hl
    have hja := reverse_range_getElem? c _ j hj
    have hne : (argmaxBool (false :: List.map (m.valid r) (List.range c).reverse) == 0) = false := by
      simpa using ha
    simp only [hne, hb, Option.map_some, Bool.false_eq_true, if_false]
    have : c - argmaxBool (false :: List.map (m.valid r) (List.range c).reverse) = j := by omega
    rw [this]
  | none =>
    obtain ⟨ha, _⟩ := hLn hl
    simp only [ha, beq_self_eq_true, if_true, Option.map_none]
    cases hr : (List.range' (c + 1) (m.cols - (c + 1))).find? (m.valid r) with
    | some j =>
      obtain ⟨ha', hb', hj'⟩ := hRs j hr
      have hja := range'_getElem? _ _ _ j hj'
      simp only [hb', Option.map_some]
      have : c + argmaxBool (false :: List.map (m.valid r) (List.range' (c + 1) (m.cols - (c + 1)))) = j := by omega
      rw [this]
    | none =>
      obtain ⟨ha', hb'⟩ := hRn hr
      simp [ha']

end Pandora.Interp
