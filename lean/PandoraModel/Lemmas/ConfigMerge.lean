/-
  `update_conf` on dictionaries of dictionaries (core Lean only, no generated table): the lemmas the
  whole-function theorems of C05 (`Properties/C05Whole.lean`) and C17 (`Properties/C17Whole.lean`)
  share.  Nothing here depends on a table regenerated from the source, so a broken table of one
  property does not break the other property's file through this one.

    1. dictionaries (`d[k] = v`, lookup, extensionality)
    2. JSON-like values: `wfVal` (no dictionary, at any depth, has a key twice — true of every Python
       dictionary) and `deepRw` (what `update_conf` makes of a value merged into nothing: the three
       magic strings of every nested dictionary rewritten, lists left alone)
    3. `update_conf`, item by item: `updateConf_inv` (what a successful merge looks like),
       `updateConf_intro` (when it succeeds)
    4. merging into nothing (`updateConf_fresh`), merging a checked dictionary back into the
       dictionary it completes (`updateVal_self`, `updateConf_replace`)
-/
import PandoraModel.Model.Config

namespace Pandora.Merge
open Pandora Pandora.Config

/-! ### 1. Dictionaries -/

theorem hasKey_iff_mem_keys (d : Dict) (k : String) : Dict.hasKey d k = true ↔ k ∈ Dict.keys d := by
  induction d with
  | nil => simp [Dict.hasKey, Dict.lookup, Dict.keys]
  | cons kv rest ih =>
    obtain ⟨k', v⟩ := kv
    by_cases h : k' = k
    · simp [Dict.hasKey, Dict.lookup, Dict.keys, h]
    · have : Dict.hasKey ((k', v) :: rest) k = Dict.hasKey rest k := by
        simp [Dict.hasKey, Dict.lookup, h]
      rw [this, ih]
      simp [Dict.keys, List.mem_cons, Ne.symm h]

theorem lookup_none_iff (d : Dict) (k : String) : Dict.lookup d k = none ↔ k ∉ Dict.keys d := by
  rw [← hasKey_iff_mem_keys]
  simp [Dict.hasKey]

theorem lookup_isSome_iff (d : Dict) (k : String) : (Dict.lookup d k).isSome = true ↔ k ∈ Dict.keys d :=
  hasKey_iff_mem_keys d k

theorem mem_keys_of_lookup {d : Dict} {k : String} {v : JVal} (h : Dict.lookup d k = some v) :
    k ∈ Dict.keys d := by
  rw [← lookup_isSome_iff, h]; rfl

theorem setKey_absent (d : Dict) (k : String) (v : JVal) (h : Dict.lookup d k = none) :
    Dict.setKey d k v = d ++ [(k, v)] := by
  induction d with
  | nil => simp [Dict.setKey]
  | cons kv rest ih =>
    obtain ⟨k', v'⟩ := kv
    by_cases hk : k' = k
    · simp [Dict.lookup, hk] at h
    · simp [Dict.lookup, hk] at h
      simp [Dict.setKey, hk, ih h]

theorem keys_setKey_present (d : Dict) (k : String) (v : JVal) (h : Dict.lookup d k ≠ none) :
    Dict.keys (Dict.setKey d k v) = Dict.keys d := by
  induction d with
  | nil => simp [Dict.lookup] at h
  | cons kv rest ih =>
    obtain ⟨k', v'⟩ := kv
    by_cases hk : k' = k
    · simp [Dict.setKey, hk, Dict.keys]
    · simp [Dict.lookup, hk] at h
      have := ih h
      simp [Dict.setKey, hk, Dict.keys] at this ⊢
      exact this

theorem lookup_setKey (d : Dict) (k k' : String) (v : JVal) :
    Dict.lookup (Dict.setKey d k v) k' = if k = k' then some v else Dict.lookup d k' := by
  induction d with
  | nil =>
    by_cases h : k = k' <;> simp [Dict.setKey, Dict.lookup, h]
  | cons kv rest ih =>
    obtain ⟨k0, v0⟩ := kv
    by_cases h0 : k0 = k
    · subst h0
      by_cases h : k0 = k' <;> simp [Dict.setKey, Dict.lookup, h]
    · by_cases h : k = k'
      · subst h
        simp [Dict.setKey, Dict.lookup, h0, ih]
      · by_cases h1 : k0 = k'
        · subst h1
          simp [Dict.setKey, Dict.lookup, h0, h]
        · simp [Dict.setKey, Dict.lookup, h0, h1, ih, h]

theorem setKey_same (d : Dict) (k : String) (v : JVal) (h : Dict.lookup d k = some v) :
    Dict.setKey d k v = d := by
  induction d with
  | nil => simp [Dict.lookup] at h
  | cons kv rest ih =>
    obtain ⟨k', v'⟩ := kv
    by_cases e : k' = k
    · subst e; simp [Dict.lookup] at h; subst h; simp [Dict.setKey]
    · simp [Dict.lookup, e] at h; simp [Dict.setKey, e, ih h]

theorem mem_of_lookup (d : Dict) (k : String) (v : JVal) (h : Dict.lookup d k = some v) : (k, v) ∈ d := by
  induction d with
  | nil => simp [Dict.lookup] at h
  | cons kv rest ih =>
    obtain ⟨k', v'⟩ := kv
    by_cases e : k' = k
    · subst e; simp [Dict.lookup] at h; subst h; simp
    · simp [Dict.lookup, e] at h; exact List.mem_cons_of_mem _ (ih h)

theorem lookup_of_mem (d : Dict) (k : String) (v : JVal) (hnd : (Dict.keys d).Nodup) (h : (k, v) ∈ d) :
    Dict.lookup d k = some v := by
  induction d with
  | nil => simp at h
  | cons kv rest ih =>
    obtain ⟨k', v'⟩ := kv
    simp only [Dict.keys, List.map_cons, List.nodup_cons] at hnd
    simp only [List.mem_cons, Prod.mk.injEq] at h
    rcases h with ⟨rfl, rfl⟩ | h
    · simp [Dict.lookup]
    · have hne : k' ≠ k := by
        intro e; subst e
        exact hnd.1 (List.mem_map_of_mem (f := (·.1)) h)
      simp [Dict.lookup, hne, ih hnd.2 h]

theorem nodup_iff (d : Dict) : Dict.nodup d = true ↔ (Dict.keys d).Nodup := by
  induction d with
  | nil => simp [Dict.nodup, Dict.keys]
  | cons kv rest ih =>
    obtain ⟨k, v⟩ := kv
    simp only [Dict.nodup, Bool.and_eq_true, Bool.not_eq_true', Dict.keys, List.map_cons, List.nodup_cons]
    rw [ih]
    have : Dict.hasKey rest k = false ↔ k ∉ Dict.keys rest := by
      rw [← hasKey_iff_mem_keys]; simp
    simp only [Dict.keys] at this
    rw [this]
    exact Iff.rfl

/-- two dictionaries without duplicate keys, with the same keys in the same order and the same
    lookups, are equal -/
theorem dict_ext : ∀ (a b : Dict), Dict.keys a = Dict.keys b → (Dict.keys a).Nodup →
    (∀ k, Dict.lookup a k = Dict.lookup b k) → a = b := by
  intro a
  induction a with
  | nil => intro b hk _ _; cases b <;> simp [Dict.keys] at hk ⊢
  | cons x xs ih =>
    intro b hk hnd hl
    cases b with
    | nil => simp [Dict.keys] at hk
    | cons y ys =>
      obtain ⟨k, v⟩ := x
      obtain ⟨k', v'⟩ := y
      simp only [Dict.keys, List.map_cons, List.cons.injEq] at hk
      obtain ⟨rfl, hk2⟩ := hk
      simp only [Dict.keys, List.map_cons, List.nodup_cons] at hnd
      have hv : v = v' := by
        have := hl k
        simpa [Dict.lookup] using this
      subst hv
      have : xs = ys := by
        apply ih ys hk2 hnd.2
        intro q
        by_cases e : k = q
        · subst e
          have h1 : Dict.lookup xs k = none := (lookup_none_iff xs k).2 hnd.1
          have h2 : Dict.lookup ys k = none := by
            apply (lookup_none_iff ys k).2
            have : Dict.keys ys = Dict.keys xs := hk2.symm
            rw [this]; exact hnd.1
          rw [h1, h2]
        · have := hl q
          simpa [Dict.lookup, e] using this
      rw [this]

/-! ### 2. JSON-like values -/

mutual
/-- no dictionary inside the value has a key twice (dictionaries inside lists are not looked at:
    `update_conf` does not enter lists) -/
def wfVal : JVal → Bool
  | .obj kvs => wfDict kvs
  | _ => true
def wfDict : Dict → Bool
  | [] => true
  | (k, v) :: rest => !(Dict.hasKey rest k) && (wfVal v && wfDict rest)
end

mutual
/-- `update_conf({}, v)`-style deep copy: every leaf of every nested dictionary goes through
    `rewriteLeaf` (`"NaN"`, `"inf"`, `"-inf"` become floats); lists are leaves -/
def deepRw : JVal → JVal
  | .obj kvs => .obj (deepRwD kvs)
  | v => rewriteLeaf v
def deepRwD : Dict → Dict
  | [] => []
  | (k, v) :: rest => (k, deepRw v) :: deepRwD rest
end

@[simp] theorem deepRw_obj (kvs : Dict) : deepRw (.obj kvs) = .obj (deepRwD kvs) := by simp [deepRw]

theorem deepRw_leaf (v : JVal) (h : v.isObj = false) : deepRw v = rewriteLeaf v := by
  cases v <;> simp [JVal.isObj] at h <;> simp [deepRw]

@[simp] theorem deepRwD_nil : deepRwD [] = [] := by simp [deepRwD]

@[simp] theorem deepRwD_cons (k : String) (v : JVal) (rest : Dict) :
    deepRwD ((k, v) :: rest) = (k, deepRw v) :: deepRwD rest := by simp [deepRwD]

@[simp] theorem wfVal_obj (kvs : Dict) : wfVal (.obj kvs) = wfDict kvs := by simp [wfVal]

theorem wfVal_leaf (v : JVal) (h : v.isObj = false) : wfVal v = true := by
  cases v <;> simp [JVal.isObj] at h <;> simp [wfVal]

@[simp] theorem wfDict_nil : wfDict [] = true := by simp [wfDict]

theorem wfDict_cons (k : String) (v : JVal) (rest : Dict) :
    wfDict ((k, v) :: rest) = (!(Dict.hasKey rest k) && (wfVal v && wfDict rest)) := by simp [wfDict]

theorem keys_deepRwD (d : Dict) : Dict.keys (deepRwD d) = Dict.keys d := by
  induction d with
  | nil => simp [Dict.keys]
  | cons kv rest ih =>
    obtain ⟨k, v⟩ := kv
    simp only [Dict.keys, List.map_cons] at ih ⊢
    simp [ih]

theorem lookup_deepRwD (d : Dict) (k : String) :
    Dict.lookup (deepRwD d) k = (Dict.lookup d k).map deepRw := by
  induction d with
  | nil => simp [Dict.lookup]
  | cons kv rest ih =>
    obtain ⟨k', v⟩ := kv
    by_cases h : k' = k <;> simp [Dict.lookup, h, ih]

theorem mem_deepRwD {d : Dict} {k : String} {v : JVal} (h : (k, v) ∈ deepRwD d) :
    ∃ u, (k, u) ∈ d ∧ v = deepRw u := by
  induction d with
  | nil => simp at h
  | cons kv rest ih =>
    obtain ⟨k', v'⟩ := kv
    simp only [deepRwD_cons, List.mem_cons, Prod.mk.injEq] at h
    rcases h with ⟨rfl, rfl⟩ | h
    · exact ⟨v', by simp, rfl⟩
    · obtain ⟨u, hu, hv⟩ := ih h
      exact ⟨u, List.mem_cons_of_mem _ hu, hv⟩

theorem wfDict_keys_nodup (d : Dict) (h : wfDict d = true) : (Dict.keys d).Nodup := by
  induction d with
  | nil => simp [Dict.keys]
  | cons kv rest ih =>
    obtain ⟨k, v⟩ := kv
    simp only [wfDict_cons, Bool.and_eq_true, Bool.not_eq_true'] at h
    simp only [Dict.keys, List.map_cons, List.nodup_cons]
    refine ⟨?_, ih h.2.2⟩
    have : k ∉ Dict.keys rest := by
      rw [← hasKey_iff_mem_keys]; simp [h.1]
    simpa [Dict.keys] using this

theorem wfDict_mem {d : Dict} (h : wfDict d = true) {k : String} {v : JVal} (hm : (k, v) ∈ d) :
    wfVal v = true := by
  induction d with
  | nil => simp at hm
  | cons kv rest ih =>
    obtain ⟨k', v'⟩ := kv
    simp only [wfDict_cons, Bool.and_eq_true] at h
    simp only [List.mem_cons, Prod.mk.injEq] at hm
    rcases hm with ⟨rfl, rfl⟩ | hm
    · exact h.2.1
    · exact ih h.2.2 hm

/-- a dictionary is well-formed iff its keys are distinct and its values are well-formed -/
theorem wfDict_iff (d : Dict) :
    wfDict d = true ↔ (Dict.keys d).Nodup ∧ ∀ kv ∈ d, wfVal kv.2 = true := by
  constructor
  · intro h
    exact ⟨wfDict_keys_nodup d h, fun kv hm => wfDict_mem h (k := kv.1) (v := kv.2) hm⟩
  · induction d with
    | nil => intro _; simp
    | cons kv rest ih =>
      obtain ⟨k, v⟩ := kv
      intro ⟨hnd, hv⟩
      simp only [Dict.keys, List.map_cons, List.nodup_cons] at hnd
      simp only [wfDict_cons, Bool.and_eq_true, Bool.not_eq_true']
      refine ⟨?_, hv (k, v) (by simp), ih ⟨hnd.2, fun kv hm => hv kv (List.mem_cons_of_mem _ hm)⟩⟩
      have : ¬ (Dict.hasKey rest k = true) := by
        rw [hasKey_iff_mem_keys]; simpa [Dict.keys] using hnd.1
      simpa using this

theorem rewriteLeaf_idem (v : JVal) : rewriteLeaf (rewriteLeaf v) = rewriteLeaf v := by
  unfold rewriteLeaf
  by_cases h1 : v = .str "NaN"
  · simp [h1]
  · by_cases h2 : v = .str "inf"
    · simp [h2]
    · by_cases h3 : v = .str "-inf"
      · simp [h3]
      · simp [h1, h2, h3]

theorem rewriteLeaf_isObj (v : JVal) : (rewriteLeaf v).isObj = v.isObj := by
  unfold rewriteLeaf
  by_cases h1 : v = .str "NaN"
  · simp [h1, JVal.isObj]
  · by_cases h2 : v = .str "inf"
    · simp [h2, JVal.isObj]
    · by_cases h3 : v = .str "-inf"
      · simp [h3, JVal.isObj]
      · simp [h1, h2, h3]

mutual
theorem deepRw_idem : ∀ v : JVal, deepRw (deepRw v) = deepRw v
  | .obj kvs => by simp [deepRwD_idem kvs]
  | .null => by simp [deepRw, rewriteLeaf]
  | .bool _ => by simp [deepRw, rewriteLeaf]
  | .int _ => by simp [deepRw, rewriteLeaf]
  | .float _ => by simp [deepRw, rewriteLeaf]
  | .list _ => by simp [deepRw, rewriteLeaf]
  | .str s => by
    have h : (rewriteLeaf (.str s)).isObj = false := by rw [rewriteLeaf_isObj]; rfl
    rw [deepRw_leaf (.str s) rfl, deepRw_leaf _ h, rewriteLeaf_idem]
theorem deepRwD_idem : ∀ d : Dict, deepRwD (deepRwD d) = deepRwD d
  | [] => by simp
  | (k, v) :: rest => by simp [deepRw_idem v, deepRwD_idem rest]
end

mutual
theorem wfVal_deepRw : ∀ v : JVal, wfVal v = true → wfVal (deepRw v) = true
  | .obj kvs, h => by simpa using wfDict_deepRwD kvs (by simpa using h)
  | .null, _ => by simp [deepRw, rewriteLeaf, wfVal]
  | .bool _, _ => by simp [deepRw, rewriteLeaf, wfVal]
  | .int _, _ => by simp [deepRw, rewriteLeaf, wfVal]
  | .float _, _ => by simp [deepRw, rewriteLeaf, wfVal]
  | .list _, _ => by simp [deepRw, rewriteLeaf, wfVal]
  | .str s, _ => by
    apply wfVal_leaf
    rw [deepRw_leaf (.str s) rfl, rewriteLeaf_isObj]; rfl
theorem wfDict_deepRwD : ∀ d : Dict, wfDict d = true → wfDict (deepRwD d) = true
  | [], _ => by simp
  | (k, v) :: rest, h => by
    simp only [wfDict_cons, Bool.and_eq_true, Bool.not_eq_true'] at h
    simp only [deepRwD_cons, wfDict_cons, Bool.and_eq_true, Bool.not_eq_true']
    refine ⟨?_, wfVal_deepRw v h.2.1, wfDict_deepRwD rest h.2.2⟩
    have h1 : ¬ (Dict.hasKey rest k = true) := by simp [h.1]
    have h2 : ¬ (Dict.hasKey (deepRwD rest) k = true) := by
      rw [hasKey_iff_mem_keys, keys_deepRwD, ← hasKey_iff_mem_keys]; exact h1
    simpa using h2
end

/-- a value `update_conf` leaves as it is -/
def fixedVal (v : JVal) : Prop := deepRw v = v

theorem fixedVal_deepRw (v : JVal) : fixedVal (deepRw v) := deepRw_idem v

theorem fixedVal_of_leaf (v : JVal) (h : v.isObj = false) (hr : rewriteLeaf v = v) : fixedVal v := by
  unfold fixedVal; rw [deepRw_leaf v h, hr]

theorem fixedVal_leaf_rewrite {v : JVal} (h : v.isObj = false) (hf : fixedVal v) : rewriteLeaf v = v := by
  unfold fixedVal at hf; rwa [deepRw_leaf v h] at hf

theorem fixedDict_mem {d : Dict} (h : deepRwD d = d) {k : String} {v : JVal} (hm : (k, v) ∈ d) :
    fixedVal v := by
  induction d with
  | nil => simp at hm
  | cons kv rest ih =>
    obtain ⟨k', v'⟩ := kv
    simp only [deepRwD_cons, List.cons.injEq, Prod.mk.injEq, true_and] at h
    simp only [List.mem_cons, Prod.mk.injEq] at hm
    rcases hm with ⟨rfl, rfl⟩ | hm
    · exact h.1
    · exact ih h.2 hm

theorem fixedDict_of_mem (d : Dict) (h : ∀ kv ∈ d, fixedVal kv.2) : deepRwD d = d := by
  induction d with
  | nil => simp
  | cons kv rest ih =>
    obtain ⟨k, v⟩ := kv
    simp only [deepRwD_cons, List.cons.injEq, Prod.mk.injEq, true_and]
    exact ⟨h (k, v) (by simp), ih (fun kv hm => h kv (List.mem_cons_of_mem _ hm))⟩

/-! ### 3. `update_conf`, item by item -/

theorem updateConf_nil (g : Bool) (d : Dict) : updateConf g d [] = .ok d := by simp [updateConf]

theorem updateConf_cons (g : Bool) (d : Dict) (k : String) (v : JVal) (rest : Dict) :
    updateConf g d ((k, v) :: rest) =
      match updateVal g (Dict.lookup d k) v with
      | .error e => .error e
      | .ok v' => updateConf g (Dict.setKey d k v') rest := by
  rw [updateConf]
  cases updateVal g (Dict.lookup d k) v <;> rfl

theorem updateVal_leaf (g : Bool) (dv : Option JVal) (v : JVal) (h : v.isObj = false) :
    updateVal g dv v = .ok (rewriteLeaf v) := by
  cases v <;> simp [JVal.isObj] at h <;> simp [updateVal]

theorem updateVal_obj_none (g : Bool) (sub : Dict) :
    updateVal g none (.obj sub) = (updateConf g [] sub).map JVal.obj := by
  simp [updateVal]

theorem updateVal_obj_obj (g : Bool) (dsub sub : Dict) :
    updateVal g (some (.obj dsub)) (.obj sub) = (updateConf g dsub sub).map JVal.obj := by
  simp [updateVal]

/-- a dictionary met where the default holds something else: refused outright under `strictMerge`;
    otherwise an empty one leaves the default in place and a non-empty one raises -/
theorem updateVal_obj_other (g : Bool) (other : JVal) (sub : Dict) (h : other.isObj = false) :
    updateVal g (some other) (.obj sub) =
      if g then .error .type
      else match sub with
        | [] => .ok other
        | (_, .obj _) :: _ => .error .attr
        | _ :: _ => .error .type := by
  cases other <;> simp [JVal.isObj] at h <;> cases g <;> simp [updateVal] <;>
    (split <;> simp_all)

/-- what a successful `update_conf(d, e)` looks like (`e` without duplicate keys): the keys of `d`
    keep their place, the new keys of `e` follow in the order of `e`; a key `e` does not name keeps
    the value of `d`; a key `e` names holds what `updateVal` makes of `e`'s value and `d`'s value -/
theorem updateConf_inv (g : Bool) :
    ∀ (e d out : Dict), (Dict.keys e).Nodup → updateConf g d e = .ok out →
      Dict.keys out = Dict.keys d ++ (Dict.keys e).filter (fun k => !(Dict.keys d).contains k) ∧
      (∀ k, Dict.lookup e k = none → Dict.lookup out k = Dict.lookup d k) ∧
      (∀ k v, Dict.lookup e k = some v →
        ∃ v', updateVal g (Dict.lookup d k) v = .ok v' ∧ Dict.lookup out k = some v') := by
  intro e
  induction e with
  | nil =>
    intro d out _ h
    simp [updateConf] at h
    subst h
    simp [Dict.keys, Dict.lookup]
  | cons kv rest ih =>
    intro d out hnd h
    obtain ⟨k, v⟩ := kv
    simp only [Dict.keys, List.map_cons, List.nodup_cons] at hnd
    rw [updateConf_cons] at h
    cases hv : updateVal g (Dict.lookup d k) v with
    | error e => simp [hv] at h
    | ok v' =>
      simp only [hv] at h
      obtain ⟨hkeys, hnone, hsome⟩ := ih (Dict.setKey d k v') out hnd.2 h
      have hkrest : Dict.lookup rest k = none := (lookup_none_iff rest k).2 hnd.1
      refine ⟨?_, ?_, ?_⟩
      · rw [hkeys]
        cases hl : Dict.lookup d k with
        | none =>
          have hm : k ∉ Dict.keys d := (lookup_none_iff d k).1 hl
          rw [setKey_absent d k _ hl]
          simp only [Dict.keys, List.map_append, List.map_cons, List.map_nil, List.filter_cons]
          simp only [Dict.keys] at hm
          simp [hm]
          apply List.filter_congr
          intro x hx
          have : x ≠ k := fun e => hnd.1 (e ▸ hx)
          simp [this]
        | some old =>
          have hm : k ∈ Dict.keys d := mem_keys_of_lookup hl
          rw [keys_setKey_present d k _ (by simp [hl])]
          simp only [Dict.keys, List.map_cons, List.filter_cons]
          simp only [Dict.keys] at hm
          simp [hm]
      · intro q hq
        have hne : k ≠ q := by
          intro e; subst e; simp [Dict.lookup] at hq
        have hq' : Dict.lookup rest q = none := by simpa [Dict.lookup, hne] using hq
        rw [hnone q hq', lookup_setKey]; simp [hne]
      · intro q u hq
        by_cases e : k = q
        · subst e
          have hu : u = v := by simpa [Dict.lookup] using hq.symm
          subst hu
          refine ⟨v', hv, ?_⟩
          rw [hnone k hkrest, lookup_setKey]; simp
        · have hq' : Dict.lookup rest q = some u := by simpa [Dict.lookup, e] using hq
          obtain ⟨u', hu', hlu'⟩ := hsome q u hq'
          rw [lookup_setKey] at hu'
          simp only [e, if_false] at hu'
          exact ⟨u', hu', hlu'⟩

/-- `update_conf(d, e)` succeeds as soon as every item of `e` can be merged with what `d` holds
    under its key -/
theorem updateConf_intro (g : Bool) :
    ∀ (e d : Dict), (Dict.keys e).Nodup →
      (∀ k v, Dict.lookup e k = some v → ∃ v', updateVal g (Dict.lookup d k) v = .ok v') →
      ∃ out, updateConf g d e = .ok out := by
  intro e
  induction e with
  | nil => intro d _ _; exact ⟨d, by simp [updateConf]⟩
  | cons kv rest ih =>
    intro d hnd hitems
    obtain ⟨k, v⟩ := kv
    simp only [Dict.keys, List.map_cons, List.nodup_cons] at hnd
    obtain ⟨v', hv⟩ := hitems k v (by simp [Dict.lookup])
    rw [updateConf_cons, hv]
    apply ih (Dict.setKey d k v') hnd.2
    intro q u hq
    have hne : k ≠ q := by
      intro e; subst e
      have := (lookup_none_iff rest k).2 hnd.1
      rw [this] at hq; cases hq
    rw [lookup_setKey]; simp only [hne, if_false]
    exact hitems q u (by simpa [Dict.lookup, hne] using hq)

/-- a failing item makes the whole merge fail -/
theorem updateConf_item_error (g : Bool) (e d : Dict) (hnd : (Dict.keys e).Nodup) (k : String) (v : JVal)
    (hk : Dict.lookup e k = some v) (err : Err) (hv : updateVal g (Dict.lookup d k) v = .error err)
    (out : Dict) : updateConf g d e ≠ .ok out := by
  intro h
  obtain ⟨_, _, hsome⟩ := updateConf_inv g e d out hnd h
  obtain ⟨v', hv', _⟩ := hsome k v hk
  rw [hv] at hv'; cases hv'

/-! ### 4. Merging into nothing; merging a completed dictionary back -/

mutual
/-- a value merged where the default has nothing: a deep copy with the magic strings rewritten -/
theorem updateVal_none (g : Bool) : ∀ v : JVal, wfVal v = true → updateVal g none v = .ok (deepRw v)
  | .obj sub, h => by
    have := updateConf_fresh g sub [] (by simpa using h) (by intro k _; simp [Dict.lookup])
    simp [updateVal, this, Except.map]
  | .null, _ => by simp [updateVal, deepRw]
  | .bool _, _ => by simp [updateVal, deepRw]
  | .int _, _ => by simp [updateVal, deepRw]
  | .float _, _ => by simp [updateVal, deepRw]
  | .str _, _ => by simp [updateVal, deepRw]
  | .list _, _ => by simp [updateVal, deepRw]
/-- items whose keys are all new are appended, deep-copied -/
theorem updateConf_fresh (g : Bool) : ∀ (items cur : Dict), wfDict items = true →
    (∀ k ∈ Dict.keys items, Dict.lookup cur k = none) →
    updateConf g cur items = .ok (cur ++ deepRwD items)
  | [], cur, _, _ => by simp [updateConf]
  | (k, v) :: rest, cur, h, hnew => by
    simp only [wfDict_cons, Bool.and_eq_true, Bool.not_eq_true'] at h
    have hk : Dict.lookup cur k = none := hnew k (by simp [Dict.keys])
    have hknr : k ∉ Dict.keys rest := by
      rw [← hasKey_iff_mem_keys]; simp [h.1]
    rw [updateConf_cons, hk, updateVal_none g v h.2.1]
    simp only
    rw [setKey_absent cur k _ hk, updateConf_fresh g rest (cur ++ [(k, deepRw v)]) h.2.2]
    · simp
    · intro q hq
      have hne : k ≠ q := fun e => hknr (e ▸ hq)
      have : Dict.lookup cur q = none := hnew q (by simp [Dict.keys] at hq ⊢; exact Or.inr hq)
      rw [← setKey_absent cur k _ hk, lookup_setKey]; simp [hne, this]
end

mutual
/-- a value that is already what `update_conf` would make of it, merged onto itself -/
theorem updateVal_self (g : Bool) : ∀ v : JVal, wfVal v = true → fixedVal v →
    updateVal g (some v) v = .ok v
  | .obj sub, h, hf => by
    have hf' : deepRwD sub = sub := by
      unfold fixedVal at hf; simpa using hf
    have := updateConf_sub g sub sub (by simpa using h) hf' (fun _ _ hl => hl)
    simp [updateVal, this, Except.map]
  | .null, _, _ => by simp [updateVal, rewriteLeaf]
  | .bool _, _, _ => by simp [updateVal, rewriteLeaf]
  | .int _, _, _ => by simp [updateVal, rewriteLeaf]
  | .float _, _, _ => by simp [updateVal, rewriteLeaf]
  | .list _, _, _ => by simp [updateVal, rewriteLeaf]
  | .str s, _, hf => by
    have := fixedVal_leaf_rewrite (v := .str s) rfl hf
    simp [updateVal, this]
/-- merging a part of a dictionary into that dictionary changes nothing -/
theorem updateConf_sub (g : Bool) : ∀ (e d : Dict), wfDict e = true → deepRwD e = e →
    (∀ k v, Dict.lookup e k = some v → Dict.lookup d k = some v) → updateConf g d e = .ok d
  | [], d, _, _, _ => by simp [updateConf]
  | (k, v) :: rest, d, h, hf, hsub => by
    simp only [wfDict_cons, Bool.and_eq_true, Bool.not_eq_true'] at h
    simp only [deepRwD_cons, List.cons.injEq, Prod.mk.injEq, true_and] at hf
    have hk : Dict.lookup d k = some v := hsub k v (by simp [Dict.lookup])
    have hknr : Dict.lookup rest k = none := by
      cases hl : Dict.lookup rest k with
      | none => rfl
      | some u => simp [Dict.hasKey, hl] at h
    rw [updateConf_cons, hk, updateVal_self g v h.2.1 hf.1]
    simp only
    rw [setKey_same d k v hk]
    apply updateConf_sub g rest d h.2.2 hf.2
    intro q u hq
    have hne : k ≠ q := by
      intro e; subst e; rw [hknr] at hq; cases hq
    exact hsub q u (by simpa [Dict.lookup, hne] using hq)
end

/-- merging `e` into `d` returns `e` itself when `e` has the keys of `d` first and every value of
    `e` merges into what `d` holds under its key to itself -/
theorem updateConf_replace (g : Bool) (d e : Dict) (X : List String) (hnd : (Dict.keys e).Nodup)
    (hkeys : Dict.keys e = Dict.keys d ++ X)
    (hitem : ∀ k v, Dict.lookup e k = some v → updateVal g (Dict.lookup d k) v = .ok v) :
    updateConf g d e = .ok e := by
  obtain ⟨out, hout⟩ := updateConf_intro g e d hnd (fun k v hl => ⟨v, hitem k v hl⟩)
  obtain ⟨hk, hnone, hsome⟩ := updateConf_inv g e d out hnd hout
  have hdisj : ∀ x ∈ X, x ∉ Dict.keys d := by
    intro x hx hd
    rw [hkeys] at hnd
    exact (List.nodup_append.1 hnd).2.2 x hd x hx rfl
  have hfilter : (Dict.keys e).filter (fun k => !(Dict.keys d).contains k) = X := by
    rw [hkeys, List.filter_append]
    have h1 : (Dict.keys d).filter (fun k => !(Dict.keys d).contains k) = [] := by
      rw [List.filter_eq_nil_iff]; intro a ha; simp [ha]
    have h2 : X.filter (fun k => !(Dict.keys d).contains k) = X := by
      rw [List.filter_eq_self]; intro a ha; simp [hdisj a ha]
    rw [h1, h2]; rfl
  have hkeysEq : Dict.keys out = Dict.keys e := by rw [hk, hfilter, hkeys]
  have : out = e := by
    apply dict_ext out e hkeysEq (by rw [hkeysEq]; exact hnd)
    intro k
    cases hl : Dict.lookup e k with
    | some v =>
      obtain ⟨v', hv', hlo⟩ := hsome k v hl
      rw [hitem k v hl] at hv'; cases hv'
      exact hlo
    | none =>
      rw [hnone k hl]
      have : k ∉ Dict.keys d := by
        intro hd
        have : k ∈ Dict.keys e := by rw [hkeys]; exact List.mem_append_left _ hd
        exact (lookup_none_iff e k).1 hl this
      exact (lookup_none_iff d k).2 this
  rw [hout, this]

/-- the item hypothesis of `updateConf_replace` for a value that is either the one `d` already
    holds or new to `d` -/
theorem updateVal_kept_or_new (g : Bool) (dv : Option JVal) (v : JVal) (hwf : wfVal v = true)
    (hf : fixedVal v) (h : dv = some v ∨ dv = none) : updateVal g dv v = .ok v := by
  rcases h with rfl | rfl
  · exact updateVal_self g v hwf hf
  · rw [updateVal_none g v hwf, hf]

/-! ### 5. `json_checker` dictionaries -/

theorem acceptsEntries_iff (o : Oracle) (entries : List (String × Bool × Schema)) (kvs : Dict) :
    Schema.acceptsEntries o entries kvs = true ↔
      ∀ e ∈ entries, (match Dict.lookup kvs e.1 with
                      | some v => Schema.accepts o e.2.2 v = true
                      | none => e.2.1 = true) := by
  induction entries with
  | nil => simp [Schema.acceptsEntries]
  | cons e rest ih =>
    obtain ⟨k, opt, s⟩ := e
    simp only [Schema.acceptsEntries, Bool.and_eq_true, ih, List.mem_cons, forall_eq_or_imp]
    constructor
    · intro ⟨h1, h2⟩
      refine ⟨?_, h2⟩
      cases hl : Dict.lookup kvs k <;> simp_all
    · intro ⟨h1, h2⟩
      refine ⟨?_, h2⟩
      cases hl : Dict.lookup kvs k <;> simp_all

/-- `Checker(schema).validate(cfg)` for a dictionary schema: every named key validates (an absent
    one must be optional) and the dictionary has no other key; a non-dictionary is refused -/
theorem dict_accepts_iff (o : Oracle) (entries : List (String × Bool × Schema)) (kvs : Dict) :
    Schema.accepts o (.dict entries) (.obj kvs) = true ↔
      (∀ e ∈ entries, (match Dict.lookup kvs e.1 with
                       | some v => Schema.accepts o e.2.2 v = true
                       | none => e.2.1 = true)) ∧
      (∀ kv ∈ kvs, ∃ e ∈ entries, e.1 = kv.1) := by
  have h : Schema.accepts o (.dict entries) (.obj kvs) =
      (Schema.acceptsEntries o entries kvs && kvs.all (fun kv => entries.any (fun e => e.1 == kv.1))) := by
    rw [Schema.accepts]
  rw [h]
  simp only [Bool.and_eq_true, acceptsEntries_iff, List.all_eq_true, List.any_eq_true, beq_iff_eq]

/-- one expected key: present and valid, or absent and optional -/
def entryOk (o : Oracle) (kvs : Dict) (e : String × Bool × Schema) : Bool :=
  match Dict.lookup kvs e.1 with
  | some v => Schema.accepts o e.2.2 v
  | none => e.2.1

theorem dict_accepts_iff' (o : Oracle) (entries : List (String × Bool × Schema)) (kvs : Dict) :
    Schema.accepts o (.dict entries) (.obj kvs) = true ↔
      (∀ e ∈ entries, entryOk o kvs e = true) ∧ (∀ kv ∈ kvs, ∃ e ∈ entries, e.1 = kv.1) := by
  rw [dict_accepts_iff]
  refine and_congr_left (fun _ => forall_congr' (fun e => imp_congr_right (fun _ => ?_)))
  unfold entryOk
  cases Dict.lookup kvs e.1 <;> simp

theorem dict_accepts_leaf (o : Oracle) (entries : List (String × Bool × Schema)) (v : JVal)
    (h : v.isObj = false) : Schema.accepts o (.dict entries) v = false := by
  cases v <;> simp [JVal.isObj] at h <;> rw [Schema.accepts] <;> intro kvs hk <;> cases hk

end Pandora.Merge
