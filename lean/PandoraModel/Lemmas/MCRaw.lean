/-
  The planes computed by `compute_cost_volume` (before `cv_masked`) equal the textbook value where both
  windows lie inside their images and NaN elsewhere — sad/ssd, census, zncc.
-/
import PandoraModel.Lemmas.MCIndex

namespace Pandora.MC

/-- the window centred on the left pixel lies inside the left image -/
def LeftInside (x : Input) (r c : Int) : Prop :=
  ((half x.w : Nat) : Int) ≤ r ∧ r + (half x.w : Nat) < x.L.rows ∧ ((half x.w : Nat) : Int) ≤ c ∧ c + (half x.w : Nat) < x.L.cols

/-- the window centred at `c + k/sp` (and, for a fractional disparity, its right-hand interpolation
    neighbour) lies inside the right image -/
def RightInside (x : Input) (c k : Int) : Prop :=
  ((half x.w : Nat) : Int) ≤ c + k / (x.sp : Int) ∧ c + k / (x.sp : Int) + (half x.w : Nat) + fracBit k x.sp < x.R.cols

instance (x : Input) (r c : Int) : Decidable (LeftInside x r c) := by unfold LeftInside; infer_instance
instance (x : Input) (c k : Int) : Decidable (RightInside x c k) := by unfold RightInside; infer_instance

/-- structural well-formedness used by the theorems: odd window, positive subpix, same image sizes -/
structure Shape (x : Input) : Prop where
  odd : x.w % 2 = 1
  sp_pos : 0 < x.sp
  rows_eq : x.R.rows = x.L.rows
  cols_eq : x.R.cols = x.L.cols
  cols_pos : 0 < x.L.cols

theorem window_eq (x : Input) (h : Shape x) : x.w = 2 * half x.w + 1 := by
  have := h.odd; unfold half; omega

theorem winSum_shift (o : Nat) (g : Int → Int → Rat) (r c : Int) :
    sumZ (0 : Rat) (fun a => sumZ (0 : Rat) (fun b => g (a - o) (b - o)) c (2 * o + 1)) r (2 * o + 1)
      = winSum o g r c := by
  unfold winSum
  have h1 : ∀ a : Int, sumZ (0 : Rat) (fun b => g (a - o) (b - o)) c (2 * o + 1)
      = sumZ (0 : Rat) (fun b => g (a - o) b) (c - o) (2 * o + 1) := by
    intro a
    have := sumZ_shift (0 : Rat) (fun b => g (a - o) b) (-(o : Int)) c (2 * o + 1)
    simpa [sub_eq_add_neg] using this
  simp only [h1]
  have := sumZ_shift (0 : Rat) (fun a => sumZ (0 : Rat) (fun b => g a b) (c - o) (2 * o + 1)) (-(o : Int)) r (2 * o + 1)
  simpa [sub_eq_add_neg] using this

/-! ### sad / ssd -/

theorem rawSadSsd_eq (x : Input) (h : Shape x) (hm : x.meas = .sad ∨ x.meas = .ssd) (k r c : Int) :
    rawSadSsd x k r c = if LeftInside x r c ∧ RightInside x c k then valueSpec x r c k else .nan := by
  have hw := window_eq x h
  have hs := h.sp_pos
  set o := half x.w with ho
  set Rk := shiftRight x.R x.sp (iRight k x.sp) with hRk
  have hmem := fun (b : Int) => mem_p_iff (x.L.cols : Int) (Rk.cols : Int) k x.sp hs b
  have hf0 := fracBit_nonneg k x.sp
  have hf1 := fracBit_le_one k x.sp
  unfold rawSadSsd
  simp only [← ho, ← hRk]
  by_cases hin : LeftInside x r c ∧ RightInside x c k
  · obtain ⟨⟨hl1, hl2, hl3, hl4⟩, hr1, hr2⟩ := hin
    simp only [← ho] at hl1 hl2 hl3 hl4 hr1 hr2
    rw [h.cols_eq] at hr2
    have hinside : LeftInside x r c ∧ RightInside x c k := by
      refine ⟨⟨?_, ?_, ?_, ?_⟩, ?_, ?_⟩ <;> simp only [← ho] <;> first | assumption | (rw [h.cols_eq]; assumption)
    rw [if_pos hinside]
    -- no border re-NaN
    have hb : ¬ (o > 0 ∧ (r < o ∨ r ≥ (x.L.rows : Int) - o ∨ c < o ∨ c ≥ (x.L.cols : Int) - o)) := by omega
    unfold reNanBorder
    rw [if_neg hb]
    unfold slidingSum
    -- every cell of the block is a number
    have hcell : ∀ i j : Nat, i < x.w → j < x.w →
        enlarge o x.L.rows x.L.cols (pixelWise x.meas x.L Rk k x.sp) (r + i) (c + j)
          = Val.num (pixelCost x.meas (x.L.px (r + i - o) (c + j - o)) (interpR x.R x.sp k (r + i - o) (c + j - o))) := by
      intro i j hi hj
      unfold enlarge
      have hc1 : ((o : Int) ≤ r + i ∧ r + i < o + x.L.rows ∧ (o : Int) ≤ c + j ∧ c + j < o + x.L.cols) := by omega
      rw [if_pos hc1]
      unfold pixelWise
      have hp := (hmem (c + j - o)).mpr (by omega)
      rw [if_pos hp, q_of_p _ _ k x.sp hs _ hp, hRk, shiftRight_px x.R k x.sp hs]
    rw [sumZ2_val_num _ (fun a b => pixelCost x.meas (x.L.px (a - o) (b - o)) (interpR x.R x.sp k (a - o) (b - o))) r c x.w x.w hcell]
    simp only [Cell.ofVal]
    unfold valueSpec
    rcases hm with hm | hm
    · simp only [hm, ← ho, pixelCost]
      congr 1
      rw [hw]
      exact winSum_shift o (fun a b => ratAbs (x.L.px a b - interpR x.R x.sp k a b)) r c
    · simp only [hm, ← ho, pixelCost]
      congr 1
      rw [hw]
      exact winSum_shift o (fun a b => (x.L.px a b - interpR x.R x.sp k a b) * (x.L.px a b - interpR x.R x.sp k a b)) r c
  · rw [if_neg hin]
    -- some cell of the block is NaN
    have hnan : slidingSum x.w (enlarge o x.L.rows x.L.cols (pixelWise x.meas x.L Rk k x.sp)) r c = Val.nan := by
      unfold slidingSum
      apply sumZ2_val_nan
      have key : ∀ i j : Nat, ¬ ((o : Int) ≤ r + i ∧ r + i < o + x.L.rows ∧ (o : Int) ≤ c + j ∧ c + j < o + x.L.cols ∧
            0 ≤ c + j - o + k / (x.sp : Int) ∧ c + j - o + k / (x.sp : Int) + fracBit k x.sp < x.L.cols) →
          enlarge o x.L.rows x.L.cols (pixelWise x.meas x.L Rk k x.sp) (r + i) (c + j) = Val.nan := by
        intro i j hne
        unfold enlarge
        split
        · rename_i hc1
          unfold pixelWise
          have : ¬ ((pointInterval (x.L.cols : Int) (Rk.cols : Int) k x.sp).p0 ≤ c + j - o ∧
              c + j - o < (pointInterval (x.L.cols : Int) (Rk.cols : Int) k x.sp).p1) := by
            rw [hmem]; omega
          rw [if_neg this]
        · rfl
      unfold LeftInside RightInside at hin
      simp only [← ho] at hin
      rw [h.cols_eq] at hin
      by_cases h1 : (o : Int) ≤ r
      · by_cases h2 : r + o < x.L.rows
        · by_cases h3 : (o : Int) ≤ c
          · by_cases h4 : c + o < x.L.cols
            · by_cases h5 : (o : Int) ≤ c + k / (x.sp : Int)
              · exact ⟨0, 2 * o, by omega, by omega, key 0 (2 * o) (by push_cast; omega)⟩
              · exact ⟨0, 0, by omega, by omega, key 0 0 (by push_cast; omega)⟩
            · exact ⟨0, 2 * o, by omega, by omega, key 0 (2 * o) (by push_cast; omega)⟩
          · exact ⟨0, 0, by omega, by omega, key 0 0 (by push_cast; omega)⟩
        · exact ⟨2 * o, 0, by omega, by omega, key (2 * o) 0 (by push_cast; omega)⟩
      · exact ⟨0, 0, by omega, by omega, key 0 0 (by push_cast; omega)⟩
    unfold reNanBorder
    split
    · rfl
    · rw [hnan]; rfl

end Pandora.MC
