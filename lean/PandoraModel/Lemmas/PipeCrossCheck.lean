/-
  C09 pipeline composition — cross-checking preserves `BoundedBy` and `OneFlag`, and leaves the border as the
  filling step expects it.

  Derived from `C07.check_disp_unchanged` (no disparity is modified), `C07.check_pix` (every output flag is the
  per-pixel function, then `mask_border`), `C07.ccPixel_invalid` (invalid pixels are not re-examined) and
  `C07.ccPixel_never_both` (at most one of bits 8 / 9, no other bit).
-/
import PandoraModel.Lemmas.PipeBasic
import PandoraModel.Properties.C07

namespace Pandora.C09P
open Pandora Pandora.Pipeline

/-! ### adapter lemmas: index function ↔ nested lists -/

theorem tabulate_length {β : Type} (rows cols : Nat) (g : Nat → Nat → β) : (Blocks.tabulate rows cols g).length = rows := by
  simp [Blocks.tabulate]

theorem tabulate_row {β : Type} (rows cols : Nat) (g : Nat → Nat → β) (r : Nat) (hr : r < rows) :
    (Blocks.tabulate rows cols g)[r]? = some ((List.range cols).map (fun c => g r c)) := by
  simp [Blocks.tabulate, hr]

theorem cellD_tabulate {β : Type} (rows cols : Nat) (g : Nat → Nat → β) (d : β) (r c : Nat) (hr : r < rows) (hc : c < cols) :
    cellD (Blocks.tabulate rows cols g) d r c = g r c := by
  simp [cellD, Blocks.tabulate, hr, hc]

/-! ### what the step does to one pixel -/

theorem crossCheck_rows (V : CrossCheck.Variant) (P : CrossCheck.Params) (other : Grid Val) (m : DMap) :
    (crossCheckStep V P other m).rows = m.rows := rfl
theorem crossCheck_cols (V : CrossCheck.Variant) (P : CrossCheck.Params) (other : Grid Val) (m : DMap) :
    (crossCheckStep V P other m).cols = m.cols := rfl

/-- no disparity is modified (`C07.check_disp_unchanged`) -/
theorem crossCheck_disp (V : CrossCheck.Variant) (P : CrossCheck.Params) (other : Grid Val) (m : DMap) (r c : Nat)
    (hr : r < m.rows) (hc : c < m.cols) : (crossCheckStep V P other m).disp r c = m.disp r c := by
  change cellD (CrossCheck.check V P (toDataset m) { disp := other, mask := [] }).disp .nan r c = m.disp r c
  rw [C07.check_disp_unchanged]
  exact cellD_tabulate _ _ _ _ r c hr hc

/-- the cost row of the pixel's line in the other map -/
def otherRow (other : Grid Val) (r : Nat) : List Val := other.getD r []

/-- every flag is the per-pixel function of C07, then `mask_border` (`C07.check_pix`) -/
theorem crossCheck_flag (V : CrossCheck.Variant) (P : CrossCheck.Params) (other : Grid Val) (m : DMap) (r c : Nat)
    (hshape : otherShapeOK other m = true) (hr : r < m.rows) (hc : c < m.cols) :
    (crossCheckStep V P other m).flag r c =
      if P.offset > 0 ∧ CrossCheck.isBorder P.offset m.rows m.cols r c = true then Flags.leftNodataOrBorder
      else (CrossCheck.ccPixel V P m.cols ((List.range m.cols).map (fun c => m.disp r c)) (otherRow other r) c
              (m.flag r c)).flag := by
  simp only [otherShapeOK, decide_eq_true_eq] at hshape
  have hA : (toDataset m).disp[r]? = some ((List.range m.cols).map (fun c => m.disp r c)) := tabulate_row _ _ _ r hr
  have hM : (toDataset m).mask[r]? = some ((List.range m.cols).map (fun c => m.flag r c)) := tabulate_row _ _ _ r hr
  have hB : (CrossCheck.Dataset.mk other []).disp[r]? = some (otherRow other r) := by
    have hlt : r < other.length := by omega
    simp [otherRow, hlt]
  have hlen : ((List.range m.cols).map (fun c => m.disp r c)).length = m.cols := by simp
  have hpix := C07.check_pix V P (toDataset m) { disp := other, mask := [] } r c _ _ _ hA hB hM (by rw [hlen]; exact hc)
  have hflag : (crossCheckStep V P other m).flag r c
      = (C07.outPix (CrossCheck.check V P (toDataset m) { disp := other, mask := [] }) r c).flag := rfl
  rw [hflag, hpix]
  have hrows : (toDataset m).disp.length = m.rows := tabulate_length _ _ _
  have hget : ((List.range m.cols).map (fun c => m.flag r c)).getD c 0 = m.flag r c := by simp [hc]
  simp only [hlen, hrows, hget]

/-- the two models write the border test differently (`nrow - off ≤ r` / `rows ≤ r + off`): same pixels -/
theorem isBorder_eq (off : Nat) (m : DMap) (r c : Nat) :
    CrossCheck.isBorder off m.rows m.cols r c = Interp.isBorder m off r c := by
  unfold CrossCheck.isBorder Interp.isBorder
  have e1 : decide (m.rows - off ≤ r) = decide (m.rows ≤ r + off) := by
    apply decide_eq_decide.2; omega
  have e2 : decide (m.cols - off ≤ c) = decide (m.cols ≤ c + off) := by
    apply decide_eq_decide.2; omega
  rw [e1, e2]

/-- a pixel that leaves the step valid entered it valid, outside the border, with the same flag-validity -/
theorem crossCheck_valid_out (V : CrossCheck.Variant) (P : CrossCheck.Params) (other : Grid Val) (m : DMap) (r c : Nat)
    (hshape : otherShapeOK other m = true) (hr : r < m.rows) (hc : c < m.cols)
    (hv : Flags.isInvalid ((crossCheckStep V P other m).flag r c) = false) :
    Flags.isInvalid (m.flag r c) = false := by
  rw [crossCheck_flag V P other m r c hshape hr hc] at hv
  split at hv
  · exact absurd hv (by decide)
  · cases hin : Flags.isInvalid (m.flag r c) with
    | false => rfl
    | true =>
      rw [C07.ccPixel_invalid V P _ _ _ c _ hin] at hv
      rw [hin] at hv; exact hv

/-- **Cross-checking preserves `BoundedBy`** (whatever the bounds: it only writes flags, and never makes a pixel
    valid). -/
theorem crossCheckStep_bounded (V : CrossCheck.Variant) (P : CrossCheck.Params) (other : Grid Val)
    (lo hi : Nat → Nat → Rat) (m : DMap) (hshape : otherShapeOK other m = true) (h : BoundedBy lo hi m) :
    BoundedBy lo hi (crossCheckStep V P other m) := by
  intro r c hr hc hv
  change r < m.rows at hr; change c < m.cols at hc
  rw [crossCheck_disp V P other m r c hr hc]
  exact h r c hr hc (crossCheck_valid_out V P other m r c hshape hr hc hv)

theorem bitAt_eq_testBit (f k : Nat) : (CrossCheck.bitAt f k = 1) ↔ f.testBit k = true := by
  rw [C04.testBit_divmod]; simp [CrossCheck.bitAt]

/-- **Cross-checking preserves `OneFlag`** (`C07.ccPixel_never_both`). -/
theorem crossCheckStep_oneFlag (V : CrossCheck.Variant) (P : CrossCheck.Params) (other : Grid Val) (m : DMap)
    (hshape : otherShapeOK other m = true) (h : OneFlag m) : OneFlag (crossCheckStep V P other m) := by
  intro r c hr hc h8
  change r < m.rows at hr; change c < m.cols at hc
  rw [crossCheck_flag V P other m r c hshape hr hc] at h8 ⊢
  split
  · decide
  · rename_i hb
    rw [if_neg hb] at h8
    cases hin : Flags.isInvalid (m.flag r c) with
    | true =>
      rw [C07.ccPixel_invalid V P _ _ _ c _ hin] at h8 ⊢
      exact h r c hr hc h8
    | false =>
      obtain ⟨hnb, -⟩ := C07.ccPixel_never_both V P m.cols ((List.range m.cols).map (fun c => m.disp r c))
        (otherRow other r) c (m.flag r c) hin
      rw [bitAt_eq_testBit, bitAt_eq_testBit] at hnb
      cases h9 : (CrossCheck.ccPixel V P m.cols ((List.range m.cols).map (fun c => m.disp r c)) (otherRow other r) c
        (m.flag r c)).flag.testBit 9 with
      | false => rfl
      | true => exact absurd ⟨h8, h9⟩ hnb

/-- the border pixels leave the step with bit 0 only (`mask_border`) -/
theorem crossCheckStep_borderClean (V : CrossCheck.Variant) (P : CrossCheck.Params) (other : Grid Val) (m : DMap)
    (hshape : otherShapeOK other m = true) : Interp.borderClean P.offset (crossCheckStep V P other m) = true := by
  unfold Interp.borderClean
  rw [C14.allPx_iff]
  intro r c hr hc
  change r < m.rows at hr; change c < m.cols at hc
  rw [crossCheck_flag V P other m r c hshape hr hc]
  have hb : Interp.isBorder (crossCheckStep V P other m) P.offset r c = CrossCheck.isBorder P.offset m.rows m.cols r c :=
    (isBorder_eq P.offset m r c).symm
  rw [hb]
  by_cases hoff : P.offset > 0
  · cases hbb : CrossCheck.isBorder P.offset m.rows m.cols r c with
    | false => simp
    | true => simp [hoff]
  · simp [hoff]

end Pandora.C09P
