/-
  C09, second half: the part of winner-takes-all that matters for "the disparity lies inside the interval":
  `disparity.py` replaces NaN costs by +inf (min measures) or -inf (max measures), takes the first-occurrence
  `argmin` / `argmax` along the disparity axis, reads the disparity coordinate at that index, and writes the
  invalid value where every cost of the pixel is NaN.  Core Lean only.
-/
import PandoraModel.Model.MatchingCost

namespace Pandora.IntervalWta
open Pandora.MC

/-- a cost after the NaN -> ±inf substitution (`worst` stands for +inf under argmin, -inf under argmax) -/
inductive Ext where
  | fin : Cell → Ext
  | worst : Ext

def subst (c : Cell) : Ext := if c.isNan then .worst else .fin c

/-- strict "is better than" on substituted costs, from a strict order `better` on numeric cells:
    a number beats ±inf, ±inf beats nothing -/
def extBetter (better : Cell → Cell → Bool) : Ext → Ext → Bool
  | .fin a, .fin b => better a b
  | .fin _, .worst => true
  | .worst, _ => false

/-- `np.argmin` / `np.argmax` over indices `0 … n-1`: the first index holding the best value -/
def argBest (better : Cell → Cell → Bool) (f : Nat → Ext) : Nat → Nat
  | 0 => 0
  | 1 => 0
  | n + 2 =>
    let b := argBest better f (n + 1)
    if extBetter better (f (n + 1)) (f b) then n + 1 else b

/-- winner-takes-all on the `n` costs of one pixel: `none` = invalid pixel (all costs NaN) -/
def wta (better : Cell → Cell → Bool) (cells : Nat → Cell) (n : Nat) : Option Nat :=
  if allZ (fun j => (cells j.toNat).isNan) 0 n then none else some (argBest better (fun j => subst (cells j)) n)

/-- numeric order of two exact cells (`zn` cells are not ordered here: the driver only runs the model on
    sad / ssd / census volumes) -/
def numLt (a b : Cell) : Bool :=
  match a, b with
  | .num p, .num q => decide (p < q)
  | _, _ => false

def numGt (a b : Cell) : Bool := numLt b a

end Pandora.IntervalWta
