/-
  C19 — what `main` (pandora/__init__.py) does to the dictionary `check_conf` returned before
  `save_config`, on Python dictionaries (`Dict` / `JVal` of `Model/JVal.lean`), and the pieces needed
  to say what the `margins` entry holds: the checked pipeline read as C20's `List StepCfg`
  (`Model/Margins.lean`) and `GlobalMargins.to_dict()`.  Core Lean only.

  `Model/Save.lean` models the same `main` on an abstract configuration (`SideCfg`, `Saved`);
  `Properties/C19C05.lean` proves that the adapter between the two commutes with `main`.
-/
import PandoraModel.Model.Save
import PandoraModel.Model.Config
import PandoraModel.Model.Margins

namespace Pandora.SaveConfig
open Pandora Pandora.Config Pandora.Save Pandora.Margins

/-! ### 1. `main` on dictionaries -/

/-- a JSON list of integers (Python: bools are integers) -/
def intsOfJ : List JVal → Option (List Int)
  | [] => some []
  | a :: rest =>
    match intOf? a, intsOfJ rest with
    | some x, some xs => some (x :: xs)
    | _, _ => none

/-- Python `[-left[1], -left[0]]` when `right is None` and the left disparity is not a path
    (`-True` is `-1`; the list is one of integers in every configuration `check_conf` accepted);
    anything else: `right` unchanged -/
def derivedRightJ (ld rd : JVal) : JVal :=
  match rd, ld with
  | .null, .list l =>
    match intsOfJ l with
    | some (x :: y :: _) => .list [.int (-y), .int (-x)]
    | _ => rd
  | _, _ => rd

/-- `cfg["input"][side]` -/
def sideDict (cfg : Dict) (side : String) : Option Dict :=
  match Dict.lookup cfg "input" with
  | some (.obj I) =>
    match Dict.lookup I side with
    | some (.obj S) => some S
    | _ => none
  | _ => none

/-- `cfg["input"]["right"]["disp"] = v` -/
def setRightDisp (cfg : Dict) (v : JVal) : Dict :=
  match Dict.lookup cfg "input" with
  | some (.obj I) =>
    match Dict.lookup I "right" with
    | some (.obj R) => Dict.setKey cfg "input" (.obj (Dict.setKey I "right" (.obj (Dict.setKey R "disp" v))))
    | _ => cfg
  | _ => cfg

/-- what the former `main` wrote into the configuration it saved -/
def writeDerived (cfg : Dict) : Dict :=
  match sideDict cfg "left", sideDict cfg "right" with
  | some L, some R =>
    match Dict.lookup L "disp", Dict.lookup R "disp" with
    | some ld, some rd => setRightDisp cfg (derivedRightJ ld rd)
    | _, _ => cfg
  | _, _ => cfg

/-- **Model of `main` from `check_conf`'s result to `save_config`, on dictionaries**: the two things the
    translator reads off `pandora/__init__.py` (`Save.MainFacts`) -/
def mainSavedDict (facts : MainFacts) (cfg : Dict) (margins : JVal) : Dict :=
  let cfg1 := if facts.writesRightDisp then writeDerived cfg else cfg
  if facts.addsMargins then Dict.setKey cfg1 "margins" margins else cfg1

/-! ### 1b. What `pandora.run` writes into the configuration before `main` saves it

  `PandoraMachine.cost_volume_confidence_run(cfg, input_step)` starts with
      cfg["pipeline"][input_step]["indicator"] = ""
      if len(input_step.split(".", 1)) == 2:
          cfg["pipeline"][input_step]["indicator"] = "." + input_step.split(".", 1)[1]
  on the very dictionary `main` got from `check_conf` and saves afterwards: the saved `pipeline` section is
  `check_conf`'s with the `indicator` of every confidence step overwritten by the suffix of the step name.
  (`Save.mainSaved` takes the pipeline as an opaque parameter; it is instantiated with this rewritten one.) -/

/-- `""`, or `"." + step.split(".", 1)[1]`: the step name from its first dot on -/
def indicatorOf (step : String) : String := String.ofList (step.toList.dropWhile (· != '.'))

/-- one step of the pipeline after `run` -/
def runStep (kv : String × JVal) : String × JVal :=
  if Machine.kindOf kv.1 = "cost_volume_confidence" then
    match kv.2 with
    | .obj step => (kv.1, .obj (Dict.setKey step "indicator" (.str (indicatorOf kv.1))))
    | _ => kv
  else kv

/-- the `pipeline` section after `run` -/
def runPipeline (M : Dict) : Dict := M.map runStep

/-- the configuration after `pandora.run(machine, img_left, img_right, cfg)` -/
def runIndicators (cfg : Dict) : Dict :=
  match Dict.lookup cfg "pipeline" with
  | some (.obj M) => Dict.setKey cfg "pipeline" (.obj (runPipeline M))
  | _ => cfg

/-- the pipeline after `run`, given the fact the translator reads off `state_machine.py`
    (`Generated.runWritesIndicator`: the two assignments above are there / `run` writes nothing into `cfg`) -/
def afterRunPipeline (w : Bool) (M : Dict) : Dict := if w then runPipeline M else M

/-- the configuration after `run` -/
def afterRun (w : Bool) (cfg : Dict) : Dict := if w then runIndicators cfg else cfg

/-! ### 2. The checked pipeline as C20's `List StepCfg`; `GlobalMargins.to_dict()` -/

/-- an integer parameter (Python: a bool is an integer); `d` when absent or not an integer -/
def intOfJ (d : Int) : Option JVal → Int
  | some v => (intOf? v).getD d
  | none => d

/-- a numeric parameter as an exact rational; `d` when absent, not a number, or not finite -/
def ratOfJ (d : Rat) : Option JVal → Rat
  | some (.int i) => i
  | some (.bool b) => if b then 1 else 0
  | some (.float (.num q)) => q
  | _ => d

def strOfJ : Option JVal → String
  | some (.str s) => s
  | _ => ""

/-- what a check callback knows about a step when it registers the margins (`Margins.StepCfg`), read off
    the step's *checked* dictionary — the instance attributes `_window_size`, `_filter_size`,
    `_sigma_space`, `cfg["step"]` are set from the dictionary `check_conf` returned; the defaults are those
    of `StepCfg` (a parameter the class does not have).  `method` is read by the margin formulas for
    filter steps only. -/
def stepCfgOfJ (n : String) (v : JVal) : StepCfg :=
  match v with
  | .obj cfg =>
    { name := n, method := strOfJ (Dict.lookup cfg "filter_method"),
      windowSize := intOfJ 5 (Dict.lookup cfg "window_size"),
      filterSize := intOfJ 3 (Dict.lookup cfg "filter_size"),
      sigmaSpace := ratOfJ 6 (Dict.lookup cfg "sigma_space"),
      stepParam := intOfJ 1 (Dict.lookup cfg "step") }
  | _ => { name := n }

def stepCfgsOf (M : Dict) : List StepCfg := M.map (fun kv => stepCfgOfJ kv.1 kv.2)

/-- `Margins.asdict()` -/
def m4ToJ (m : M4) : JVal :=
  .obj [("left", .int m.left), ("up", .int m.up), ("right", .int m.right), ("down", .int m.down)]

def mdictToJ (d : MDict) : JVal := .obj (d.map fun e => (e.1, m4ToJ e.2))

/-- `GlobalMargins.to_dict()` -/
def globalToJ (g : Global) : JVal :=
  .obj [("cumulative margins", mdictToJ g.cumulatives), ("non-cumulative margins", mdictToJ g.nonCumulatives),
        ("global margins", m4ToJ g.globalMargins)]

/-- **what the `margins` entry must be**, from the pipeline and the image shape alone (C20's
    `expectedEntries`, `expectedGlobal`) -/
def expectedMarginsJ (rows cols : Int) (p : List StepCfg) : JVal :=
  .obj [("cumulative margins", mdictToJ (expectedEntries .cumulative rows cols p 1)),
        ("non-cumulative margins", mdictToJ (expectedEntries .nonCumulative rows cols p 1)),
        ("global margins", m4ToJ (expectedGlobal (expectedEntries .cumulative rows cols p 1)
                                                  (expectedEntries .nonCumulative rows cols p 1)))]

/-- the machine's `GlobalMargins` after `check_conf` of the checked pipeline `M` (left image `rows × cols`,
    right image `rows2 × cols2`); `none` = a callback raised while registering a margin -/
def machineMargins (rows cols rows2 cols2 : Int) (M : Dict) : Option Global :=
  (checkMargins rows cols rows2 cols2 (stepCfgsOf M) {}).map (·.g)

/-- **Model of the saved `cfg/config.json`** from `check_conf`'s result `out`, the shapes of the two
    images, the two facts about `main` and the fact about `run`: the machine's margins (registered by the
    check callbacks while `check_conf` checked the pipeline of `out`), `to_dict()`, stored by `main` into the
    configuration `run` has written the indicators into; `none` = a margin registration raised -/
def savedConfig (facts : MainFacts) (runWrites : Bool) (out : Dict) (rows cols rows2 cols2 : Nat) : Option Dict :=
  match Dict.lookup out "pipeline" with
  | some (.obj M) =>
    (machineMargins rows cols rows2 cols2 M).map fun g => mainSavedDict facts (afterRun runWrites out) (globalToJ g)
  | _ => none

end Pandora.SaveConfig
