/-
  Configuration values (core Lean only): what a Python configuration dictionary can hold.

  * `FVal`  : a Python float (NaN, ±inf or an exact rational).
  * `JVal`  : `None | bool | int | float | str | list | dict`; a dict is an association list, so the
              insertion order of Python dictionaries is part of the value and is compared.
  * decidable equality (hand-written: the type is nested), dictionary primitives (`lookup`,
    `setKey` = `d[k] = v`), and the wire format of the driver.

  Wire format (exact): `null`, `true/false`, JSON integers for Python ints, `{"f": r}` for floats with
  `r` an integer, a string "n/d", "nan", "inf" or "-inf"; JSON strings; arrays; `{"o": [[k, v], …]}` for
  dictionaries (ordered).
-/
import PandoraModel.Model.Basic

namespace Pandora

open Lean (Json)

/-- A Python float. -/
inductive FVal where
  | nan | pinf | ninf
  | num (q : Rat)
  deriving DecidableEq, Repr, Inhabited

/-- A configuration value. -/
inductive JVal where
  | null
  | bool (b : Bool)
  | int (i : Int)
  | float (f : FVal)
  | str (s : String)
  | list (l : List JVal)
  | obj (kvs : List (String × JVal))
  deriving Repr, Inhabited

abbrev Dict := List (String × JVal)

namespace JVal

mutual
def beq : JVal → JVal → Bool
  | .null, .null => true
  | .bool a, .bool b => a == b
  | .int a, .int b => a == b
  | .float a, .float b => a == b
  | .str a, .str b => a == b
  | .list a, .list b => beqL a b
  | .obj a, .obj b => beqO a b
  | _, _ => false
def beqL : List JVal → List JVal → Bool
  | [], [] => true
  | x :: xs, y :: ys => beq x y && beqL xs ys
  | _, _ => false
def beqO : List (String × JVal) → List (String × JVal) → Bool
  | [], [] => true
  | (k, x) :: xs, (k', y) :: ys => k == k' && beq x y && beqO xs ys
  | _, _ => false
end

mutual
theorem beq_eq : ∀ (a b : JVal), beq a b = true ↔ a = b
  | .null, b => by cases b <;> simp [beq]
  | .bool x, b => by cases b <;> simp [beq]
  | .int x, b => by cases b <;> simp [beq]
  | .float x, b => by cases b <;> simp [beq]
  | .str x, b => by cases b <;> simp [beq]
  | .list x, b => by
      cases b <;> simp [beq]
      exact beqL_eq x _
  | .obj x, b => by
      cases b <;> simp [beq]
      exact beqO_eq x _
theorem beqL_eq : ∀ (a b : List JVal), beqL a b = true ↔ a = b
  | [], b => by cases b <;> simp [beqL]
  | x :: xs, b => by
      cases b with
      | nil => simp [beqL]
      | cons y ys => simp [beqL, beq_eq x y, beqL_eq xs ys]
theorem beqO_eq : ∀ (a b : List (String × JVal)), beqO a b = true ↔ a = b
  | [], b => by cases b <;> simp [beqO]
  | (k, x) :: xs, b => by
      cases b with
      | nil => simp [beqO]
      | cons y ys =>
        obtain ⟨k', y⟩ := y
        simp [beqO, beq_eq x y, beqO_eq xs ys, and_assoc]
end

instance : DecidableEq JVal := fun a b =>
  if h : beq a b = true then isTrue ((beq_eq a b).1 h) else isFalse (fun e => h ((beq_eq a b).2 e))

def isStr : JVal → Bool
  | .str _ => true
  | _ => false

def isObj : JVal → Bool
  | .obj _ => true
  | _ => false

def isList : JVal → Bool
  | .list _ => true
  | _ => false

def isNull : JVal → Bool
  | .null => true
  | _ => false

def nanV : JVal := .float .nan

end JVal

/-! ### Dictionary primitives (Python `dict` with insertion order) -/

namespace Dict

/-- `d.get(k)` -/
def lookup : Dict → String → Option JVal
  | [], _ => none
  | (k', v) :: rest, k => if k' = k then some v else lookup rest k

/-- `k in d` -/
def hasKey (d : Dict) (k : String) : Bool := (lookup d k).isSome

/-- `d[k] = v`: replaces the value in place when the key exists, appends otherwise -/
def setKey : Dict → String → JVal → Dict
  | [], k, v => [(k, v)]
  | (k', v') :: rest, k, v => if k' = k then (k', v) :: rest else (k', v') :: setKey rest k v

def keys (d : Dict) : List String := d.map (·.1)

/-- no key occurs twice (every Python dictionary) -/
def nodup : Dict → Bool
  | [] => true
  | (k, _) :: rest => !(hasKey rest k) && nodup rest

end Dict

/-! ### Wire format -/

def fvalToJson : FVal → Json
  | .nan => Json.str "nan"
  | .pinf => Json.str "inf"
  | .ninf => Json.str "-inf"
  | .num q => ratToJson q

def fvalOfJson (j : Json) : Except String FVal :=
  match j with
  | Json.str "nan" => .ok .nan
  | Json.str "inf" => .ok .pinf
  | Json.str "-inf" => .ok .ninf
  | _ => (ratOfJson j).map FVal.num

mutual
partial def jvalToJson : JVal → Json
  | .null => Json.null
  | .bool b => Json.bool b
  | .int i => intToJson i
  | .float f => mkObj [("f", fvalToJson f)]
  | .str s => Json.str s
  | .list l => Json.arr (l.map jvalToJson).toArray
  | .obj kvs => mkObj [("o", Json.arr (kvs.map fun (k, v) => Json.arr #[Json.str k, jvalToJson v]).toArray)]
end

partial def jvalOfJson (j : Json) : Except String JVal :=
  match j with
  | Json.null => .ok .null
  | Json.bool b => .ok (.bool b)
  | Json.num n =>
    if n.exponent = 0 then .ok (.int n.mantissa) else .error s!"non-integer bare number {j.compress}"
  | Json.str s => .ok (.str s)
  | Json.arr a => do
    let l ← a.toList.mapM jvalOfJson
    return .list l
  | Json.obj _ =>
    match j.getObjVal? "f" with
    | .ok f => (fvalOfJson f).map JVal.float
    | .error _ =>
      match j.getObjVal? "o" with
      | .ok (Json.arr kvs) => do
        let l ← kvs.toList.mapM fun kv =>
          match kv with
          | Json.arr #[Json.str k, v] => do
            let v ← jvalOfJson v
            pure (k, v)
          | _ => throw "bad dict entry"
        return .obj l
      | _ => .error s!"bad value {j.compress.take 80}"

def dictOfJson (j : Json) : Except String Dict := do
  match ← jvalOfJson j with
  | .obj kvs => pure kvs
  | _ => throw "expected a dictionary"

end Pandora
