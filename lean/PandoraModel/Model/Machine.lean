/-
  Executable model of `pandora/state_machine.py` + the scale loop of `pandora.run`
  (core Lean only).

  What is modelled
  * the `transitions` library semantics used by Pandora (see DESIGN.md §7):
    - a trigger nobody registered            → `AttributeError`   (`Fire.unknownEvent`)
    - a trigger with no transition from the
      current state                           → `MachineError`     (`Fire.cantTrigger`)
    - transitions are tried in registration order; `prepare` callbacks run before the
      conditions are evaluated; the first transition whose conditions hold fires;
      when none does the trigger returns `False` silently (`Fire.condFalse`)
    - the state changes *before* the `after` callbacks run.
  * `PandoraMachine.check_conf`  (add table, one trigger per configured step, wrap
    `MachineError/KeyError/AttributeError` into the sequencing error, remove table,
    `set_state("begin")`, second round right/left when `right_disp_map` is set).
  * `PandoraMachine.run_prepare / run / run_exit` and the two nested loops of `pandora.run`.

  The transition tables are *parameters* here; `Generated/Transitions.lean` (written by the
  translator from the source on every run) instantiates them for the theorems, and the driver
  receives the live tables from the harness.

  Callbacks are abstract: a check callback is an outcome supplied by the environment, a run
  callback is an event appended to the trace (once for the left data, once more for the right
  data when `right_disp_map` is set).
-/
import PandoraModel.Model.Basic

namespace Pandora.Machine

structure Transition where
  trigger : String
  source : String
  dest : String
  conditions : List String := []
  prepare : List String := []
  after : List String := []
  deriving Repr, DecidableEq, Inhabited

/-- `name.split(".")[0]`: the characters before the first dot (written on `List Char` so that the
    kernel can evaluate it in the non-vacuity examples) -/
def kindOf (name : String) : String := String.ofList (name.toList.takeWhile (· != '.'))

/-- The machine attributes the sequencing logic reads or writes. -/
structure MState where
  state : String := "begin"
  table : List Transition := []
  rightDispMap : Bool := false
  currentScale : Nat := 0
  numScales : Nat := 1
  deriving Repr, DecidableEq, Inhabited

/-- Pandora's only condition callback: `is_not_last_scale` (`notLast` = `current_scale != 0`).
    Unknown names are rejected by the translator, never reach the model; they evaluate to `false`. -/
def evalCond (notLast : Bool) (c : String) : Bool :=
  if c = "is_not_last_scale" then notLast else false

inductive Fire where
  | unknownEvent
  | cantTrigger
  | condFalse (prepares : List String)
  | fired (dest : String) (prepares : List String) (after : List String)
  deriving Repr, DecidableEq

/-- Try the candidate transitions in order (`Event._process`). -/
def tryCandidates (notLast : Bool) : List Transition → List String → Fire
  | [], acc => Fire.condFalse acc
  | t :: ts, acc =>
    if t.conditions.all (evalCond notLast) then Fire.fired t.dest (acc ++ t.prepare) t.after
    else tryCandidates notLast ts (acc ++ t.prepare)

/-- what `machine.trigger(trig)` does with the registered table `tbl` in state `st` -/
def fireAt (tbl : List Transition) (st : String) (notLast : Bool) (trig : String) : Fire :=
  if !(tbl.any (fun t => t.trigger == trig)) then Fire.unknownEvent
  else
    let cands := tbl.filter (fun t => t.trigger == trig && t.source == st)
    if cands.isEmpty then Fire.cantTrigger else tryCandidates notLast cands []

def fire (m : MState) (trig : String) : Fire := fireAt m.table m.state (m.currentScale != 0) trig

/-! ### Check phase -/

inductive CbOutcome where
  | ok        -- the callback returned
  | seqErr    -- it raised MachineError / KeyError / AttributeError (wrapped into the sequencing error)
  | otherErr  -- it raised something else (json_checker error, ValueError, ...): propagates as is
  deriving Repr, DecidableEq, Inhabited

/-- Environment of the check phase: what each `<step>_check_conf` does, abstractly. -/
structure CheckEnv where
  /-- outcome of the check callback `cb` for step `name` in round `second` -/
  outcome : (cb : String) → (name : String) → (second : Bool) → CbOutcome
  /-- callbacks that set `right_disp_map` when they succeed (`validation_check_conf`) -/
  setsRight : (cb : String) → Bool

inductive Event where
  | check (cb : String) (name : String) (second : Bool)
  | run (cb : String) (name : String) (scale : Nat) (right : Bool)
  deriving Repr, DecidableEq, Inhabited

abbrev Trace := List Event

inductive Res where
  | ok
  | seqErr     -- MachineError("A problem occurs during Pandora checking ...") / re-raised in run
  | otherErr
  deriving Repr, DecidableEq, Inhabited

/-- run the `after` callbacks of a fired check transition, stopping at the first that raises -/
def runCheckCbs (env : CheckEnv) (name : String) (second : Bool) :
    List String → MState → Trace → Res × MState × Trace
  | [], m, tr => (Res.ok, m, tr)
  | cb :: cbs, m, tr =>
    let tr := tr ++ [Event.check cb name second]
    match env.outcome cb name second with
    | CbOutcome.ok =>
      let m := if env.setsRight cb then { m with rightDispMap := true } else m
      runCheckCbs env name second cbs m tr
    | CbOutcome.seqErr => (Res.seqErr, m, tr)
    | CbOutcome.otherErr => (Res.otherErr, m, tr)

/-- one iteration of the `for input_step in list(cfg["pipeline"])` loop of `check_conf` -/
def checkStep (env : CheckEnv) (second : Bool) (name : String) (m : MState) (tr : Trace) :
    Res × MState × Trace :=
  match fire m ("check_" ++ kindOf name) with
  | Fire.unknownEvent => (Res.seqErr, m, tr)
  | Fire.cantTrigger => (Res.seqErr, m, tr)
  | Fire.condFalse _ => (Res.ok, m, tr)
  | Fire.fired dest _ after =>
    runCheckCbs env name second after { m with state := dest } tr

def checkLoop (env : CheckEnv) (second : Bool) : List String → MState → Trace → Res × MState × Trace
  | [], m, tr => (Res.ok, m, tr)
  | n :: ns, m, tr =>
    match checkStep env second n m tr with
    | (Res.ok, m', tr') => checkLoop env second ns m' tr'
    | r => r

/-- `remove_transitions(tbl)`: every transition whose trigger is named in `tbl` disappears. -/
def removeTable (tbl : List Transition) (m : MState) : MState :=
  { m with table := m.table.filter (fun t => !(tbl.any (fun u => u.trigger == t.trigger))) }

/-- one round of `PandoraMachine.check_conf` (without the recursive second round) -/
def checkRound (tblCheck : List Transition) (env : CheckEnv) (second : Bool) (names : List String)
    (m : MState) (tr : Trace) : Res × MState × Trace :=
  let m1 := { m with table := m.table ++ tblCheck }
  match checkLoop env second names m1 tr with
  | (Res.ok, m2, tr2) => (Res.ok, { removeTable tblCheck m2 with state := "begin" }, tr2)
  | r => r

/-- `PandoraMachine.check_conf(cfg, left, right)` -/
def checkConf (tblCheck : List Transition) (env : CheckEnv) (names : List String) (m : MState)
    (tr : Trace := []) : Res × MState × Trace :=
  match checkRound tblCheck env false names m tr with
  | (Res.ok, m1, tr1) =>
    if m1.rightDispMap then checkRound tblCheck env true names m1 tr1 else (Res.ok, m1, tr1)
  | r => r

/-! ### Run phase -/

/-- callbacks that move to the next scale (`run_multiscale`: `current_scale -= 1`) -/
def decrementsScale (cb : String) : Bool := cb == "run_multiscale"

def emit (cb name : String) (m : MState) : Trace :=
  if m.rightDispMap then
    [Event.run cb name m.currentScale false, Event.run cb name m.currentScale true]
  else [Event.run cb name m.currentScale false]

def runCbs (name : String) : List String → MState → Trace → MState × Trace
  | [], m, tr => (m, tr)
  | cb :: cbs, m, tr =>
    let tr := tr ++ emit cb name m
    let m := if decrementsScale cb then { m with currentScale := m.currentScale - 1 } else m
    runCbs name cbs m tr

/-- `PandoraMachine.run(input_step, cfg)` -/
def runStep (name : String) (m : MState) (tr : Trace) : Res × MState × Trace :=
  match fire m (kindOf name) with
  | Fire.unknownEvent => (Res.seqErr, m, tr)
  | Fire.cantTrigger => (Res.seqErr, m, tr)
  | Fire.condFalse ps =>
    let (m, tr) := runCbs name ps m tr
    (Res.ok, m, tr)
  | Fire.fired dest ps after =>
    let (m, tr) := runCbs name ps m tr
    let (m, tr) := runCbs name after { m with state := dest } tr
    (Res.ok, m, tr)

/-- inner loop of `pandora.run`: trigger step by step, `break` when the machine is back in `begin` -/
def runScale : List String → MState → Trace → Res × MState × Trace
  | [], m, tr => (Res.ok, m, tr)
  | n :: ns, m, tr =>
    match runStep n m tr with
    | (Res.ok, m', tr') => if m'.state == "begin" then (Res.ok, m', tr') else runScale ns m' tr'
    | r => r

/-- outer loop: `for _ in range(pandora_machine.num_scales)` -/
def runScales (names : List String) : Nat → MState → Trace → Res × MState × Trace
  | 0, m, tr => (Res.ok, m, tr)
  | k + 1, m, tr =>
    match runScale names m tr with
    | (Res.ok, m', tr') => runScales names k m' tr'
    | r => r

/-- `run_prepare`: scales, `right_disp_map` from the literal key "validation", add the run table -/
def runPrepare (tblRun : List Transition) (names : List String) (numScales : Nat) (m : MState) : MState :=
  { m with
    numScales := numScales
    currentScale := numScales - 1
    rightDispMap := if names.contains "validation" then true else m.rightDispMap
    table := m.table ++ tblRun }

/-- `pandora.run(machine, left, right, cfg)` with `numScales` as read from the configuration -/
def runPipeline (tblRun : List Transition) (names : List String) (numScales : Nat) (m : MState)
    (tr : Trace := []) : Res × MState × Trace :=
  let m1 := runPrepare tblRun names numScales m
  match runScales names m1.numScales m1 tr with
  | (Res.ok, m2, tr2) => (Res.ok, { removeTable tblRun m2 with state := "begin" }, tr2)
  | r => r

/-! ### The documented automaton (written from the property statement and sequencing.rst) -/

inductive St where
  | begin | costVolume | dispMap
  deriving Repr, DecidableEq, Inhabited

def St.all : List St := [.begin, .costVolume, .dispMap]

def St.name : St → String
  | .begin => "begin"
  | .costVolume => "cost_volume"
  | .dispMap => "disp_map"

inductive Kind where
  | matchingCost | aggregation | optimization | semanticSegmentation | costVolumeConfidence
  | disparity | filter | refinement | validation | multiscale
  deriving Repr, DecidableEq, Inhabited

def Kind.name : Kind → String
  | .matchingCost => "matching_cost"
  | .aggregation => "aggregation"
  | .optimization => "optimization"
  | .semanticSegmentation => "semantic_segmentation"
  | .costVolumeConfidence => "cost_volume_confidence"
  | .disparity => "disparity"
  | .filter => "filter"
  | .refinement => "refinement"
  | .validation => "validation"
  | .multiscale => "multiscale"

def Kind.all : List Kind :=
  [.matchingCost, .aggregation, .optimization, .semanticSegmentation, .costVolumeConfidence,
   .disparity, .filter, .refinement, .validation, .multiscale]

def Kind.ofName? (s : String) : Option Kind := Kind.all.find? (fun k => k.name == s)

/-- The documented machine: matching_cost from begin; aggregation, optimization,
    semantic_segmentation, cost_volume_confidence while in cost_volume; disparity into disp_map;
    then filter, refinement, validation, multiscale. -/
def documented : St → Kind → Option St
  | .begin, .matchingCost => some .costVolume
  | .costVolume, .aggregation => some .costVolume
  | .costVolume, .optimization => some .costVolume
  | .costVolume, .semanticSegmentation => some .costVolume
  | .costVolume, .costVolumeConfidence => some .costVolume
  | .costVolume, .disparity => some .dispMap
  | .dispMap, .filter => some .dispMap
  | .dispMap, .refinement => some .dispMap
  | .dispMap, .validation => some .dispMap
  | .dispMap, .multiscale => some .dispMap
  | _, _ => none

/-- The kinds of `names` spell a path of the documented machine from `st`. -/
def isPath : St → List String → Bool
  | _, [] => true
  | st, n :: ns =>
    match Kind.ofName? (kindOf n) with
    | none => false
    | some k =>
      match documented st k with
      | none => false
      | some st' => isPath st' ns

/-- state reached by a path (total: stays put on an illegal step) -/
def pathEnd : St → List String → St
  | st, [] => st
  | st, n :: ns =>
    match Kind.ofName? (kindOf n) with
    | none => st
    | some k =>
      match documented st k with
      | none => st
      | some st' => pathEnd st' ns

def hasKind (k : Kind) (names : List String) : Bool := names.any (fun n => kindOf n == k.name)


/-! ### Specification of the traces (what "each configured step takes effect exactly once per
    processed scale, in the configured order, left then right" means) -/

def checkCbOf (k : Kind) : String := k.name ++ "_check_conf"

/-- the callbacks through which a step kind takes effect during a run -/
def runCbsOf : Kind → List String
  | .matchingCost => ["matching_cost_prepare", "matching_cost_run"]
  | .multiscale => ["run_multiscale"]
  | k => [k.name ++ "_run"]

def expectedCheckRound (second : Bool) (names : List String) : Trace :=
  names.flatMap fun n =>
    match Kind.ofName? (kindOf n) with
    | some k => [Event.check (checkCbOf k) n second]
    | none => []

/-- the check trace of an accepted pipeline: every step once, in order; once more for the
    right/left round when a validation step is present -/
def expectedCheck (names : List String) : Trace :=
  expectedCheckRound false names ++
    (if hasKind .validation names then expectedCheckRound true names else [])

def sideEvents (cb n : String) (scale : Nat) (right : Bool) : Trace :=
  if right then [Event.run cb n scale false, Event.run cb n scale true]
  else [Event.run cb n scale false]

/-- events of one step at one scale; a `multiscale` step does nothing at the last scale (0) -/
def stepEvents (n : String) (scale : Nat) (right : Bool) : Trace :=
  match Kind.ofName? (kindOf n) with
  | some .multiscale => if scale = 0 then [] else sideEvents "run_multiscale" n scale right
  | some k => (runCbsOf k).flatMap fun cb => sideEvents cb n scale right
  | none => []

/-- the steps up to and including the first `multiscale` step -/
def uptoMultiscale : List String → List String
  | [] => []
  | n :: ns => if kindOf n == Kind.multiscale.name then [n] else n :: uptoMultiscale ns

/-- coarse scales `k, k-1, …, 1`: the prefix up to the multiscale step, once per scale -/
def expectedCoarse (names : List String) (right : Bool) : Nat → Trace
  | 0 => []
  | k + 1 => (uptoMultiscale names).flatMap (fun n => stepEvents n (k + 1) right)
             ++ expectedCoarse names right k

/-- the run trace of an accepted pipeline processed on `numScales` scales -/
def expectedRun (names : List String) (numScales : Nat) (right : Bool) : Trace :=
  expectedCoarse names right (numScales - 1) ++ names.flatMap (fun n => stepEvents n 0 right)

def cleanMachine (m : MState) : Bool := m.state == "begin" && m.table.isEmpty

end Pandora.Machine
