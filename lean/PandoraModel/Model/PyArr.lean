/-
  Run-time support of the definitions written by `translator/pyarr.py` (`Generated/KernelsFilter.lean`,
  `Generated/KernelsWta.lean`): straight-line numpy "array programs" with explicit ALIASING.  Core Lean only.

  * A `Store α` maps array identities (`Nat`) to array contents (`Nat → Nat → α`, the shape travels separately as
    `ny nx`) and knows the next free identity.  A Python name bound to an array is a Lean `Nat`:
      `b = a`                 is `let b := a`                      (same identity: writes through `b` are seen through `a`)
      `b = np.copy(a)`        is `let p := s.copy a; … p.2`        (fresh identity, content copied now)
      `w = sliding_window(a)` is `let w : View := ⟨a, size⟩`       (a VIEW: its windows are read from the content `a` has
                                                                   at the moment a statement uses them)
  * masks (`np.isnan(a)`, `np.isfinite(a)`, `(flags & C) != 0`) are fresh boolean arrays: values, computed from the
    content at the statement that builds them.
  * `a[mask] = v`, `a[mask] = b[mask]` are `Store.maskFill`, `Store.maskCopy`.
  * the block loops read structurally by T8 (`Generated/Blocks.lean`) become ONE statement `blockedSt`: the chunks are
    processed in the order of the code, each block's kernel reads the CURRENT content of the view's base and the block
    is written into the destination before the next block is computed.  When destination and base are different
    arrays this is `Blocks.blocked` of a pure kernel (`Properties/C10Kernels.lean: blockedSt_eq`); when they are the
    same array (a dropped `np.copy`) later blocks read filtered values and no such equality holds.
-/
import PandoraModel.Model.Basic
import PandoraModel.Model.Blocks
import PandoraModel.Model.Filter

namespace Pandora.PyArr
open Pandora

abbrev Arr (α : Type) := Nat → Nat → α
abbrev Mask := Nat → Nat → Bool

/-- array identities → contents; `next` is the first identity never handed out -/
structure Store (α : Type) where
  arr : Nat → Arr α
  next : Nat

namespace Store
variable {α : Type}

/-- rebind the content of array `k` (every name bound to `k` sees it) -/
def set (s : Store α) (k : Nat) (a : Arr α) : Store α :=
  { arr := fun j => if j = k then a else s.arr j, next := s.next }

/-- a fresh array with content `a`: the new store and the new identity -/
def alloc (s : Store α) (a : Arr α) : Store α × Nat :=
  ({ arr := fun j => if j = s.next then a else s.arr j, next := s.next + 1 }, s.next)

/-- `np.copy(x)`, `x.copy(deep=True).data`, `copy.deepcopy(x)` -/
def copy (s : Store α) (k : Nat) : Store α × Nat := s.alloc (s.arr k)

/-- `a[mask] = v` (also `a[np.where(mask)] = v`) -/
def maskFill (s : Store α) (k : Nat) (m : Mask) (v : α) : Store α :=
  s.set k (fun r c => if m r c then v else s.arr k r c)

/-- `a[mask] = b[mask]` -/
def maskCopy (s : Store α) (dst : Nat) (m : Mask) (src : Nat) : Store α :=
  s.set dst (fun r c => if m r c then s.arr src r c else s.arr dst r c)

/-- `a[mask] |= c` on an integer array -/
def maskOr (s : Store Nat) (k : Nat) (m : Mask) (c : Nat) : Store Nat :=
  s.set k (fun r c' => if m r c' then s.arr k r c' ||| c else s.arr k r c')

/-- `a[mask] += c` on an integer array -/
def maskAdd (s : Store Nat) (k : Nat) (m : Mask) (c : Nat) : Store Nat :=
  s.set k (fun r c' => if m r c' then s.arr k r c' + c else s.arr k r c')

/-- a store holding the given arrays at identities 0, 1, … -/
def init (as : List (Arr α)) (dflt : Arr α) : Store α :=
  { arr := fun k => as.getD k dflt, next := as.length }

end Store

/-! ### masks -/

/-- element-wise predicate of the content `a` -/
def maskOf {α : Type} (p : α → Bool) (a : Arr α) : Mask := fun r c => p (a r c)

/-- `~m`, `np.logical_not(m)`, `m == False` -/
def maskNot (m : Mask) : Mask := fun r c => !m r c

/-- `(flags & C) != 0` (`ne = true`) / `(flags & C) == 0` (`ne = false`) -/
def flagMask (ne : Bool) (flags : Nat → Nat → Nat) (c : Nat) : Mask :=
  fun r c' => if ne then (flags r c' &&& c) != 0 else (flags r c' &&& c) == 0

/-- `np.isfinite` on a cell of the model, which has no infinities: not NaN -/
def isfinite (v : Val) : Bool := v.isNum

/-! ### dtype casts and index tuples (dataset construction, `Generated/KernelsDataset.lean`) -/

/-- `.astype(np.int<bits>)` / `.astype(np.uint<bits>)` of an integer, and the store of an integer into an array of
    that dtype: C wrap-around (two's complement) -/
def wrapInt (bits : Nat) (signed : Bool) (v : Int) : Int :=
  if signed then (v + 2 ^ (bits - 1)) % 2 ^ bits - 2 ^ (bits - 1) else v % 2 ^ bits

/-- `idx[0].size != 0` for `idx = np.where(m)`, `m` a (bands, rows, cols) boolean array: some cell is selected -/
def anyIdx3 (nbands rows cols : Nat) (m : Nat → Nat → Nat → Bool) : Bool :=
  (List.range rows).any fun r => (List.range cols).any fun c => (List.range nbands).any fun b => m b r c

/-- `(idx[-2], idx[-1])` as a 2-D index set: the pixels selected in some band -/
def pix2 (nbands : Nat) (m : Nat → Nat → Nat → Bool) : Nat → Nat → Bool :=
  fun r c => (List.range nbands).any fun b => m b r c

/-! ### views and the block statement -/

/-- `sliding_window(base, (w, w))`: no content of its own -/
structure View where
  base : Nat
  w : Nat

/-- shape of the window array of a view over an `ny × nx` array -/
def View.rows (v : View) (ny : Nat) : Nat := ny - v.w + 1
def View.cols (v : View) (nx : Nat) : Nat := nx - v.w + 1

/-- a per-window reduction as a kernel of the block loop: work item `(i, j)` of the content `a` is the window with
    top-left corner `(i, j)` -/
def windowKernel {β : Type} (red : List Val → β) (w : Nat) (a : Arr Val) : Nat → Nat → β :=
  fun i j => red (Filter.window a w i j)

/-- a kernel that sees the window as an index function (`bilateral_kernel`) -/
def windowFnKernel {β : Type} (k : (Nat → Nat → Val) → β) (a : Arr Val) : Nat → Nat → β :=
  fun i j => k (fun p q => a (i + p) (j + q))

/-- `np.nansum(E, axis=(2, 3))` on one `w × w` window given as an index function -/
def nansumW (w : Nat) (f : Nat → Nat → Val) : Rat :=
  Filter.nansum ((Filter.cells w).map (fun p => f p.1 p.2))

/-- the quotient of two `nansum`s in a model without infinities: `0/0` is NaN; `x/0` with `x ≠ 0` is `±inf` in numpy,
    which a `Val` cannot hold — it is NaN here too (with non-negative weights, the hypothesis of C10's theorems, a zero
    total weight forces a zero weighted sum, so the case does not arise there) -/
def nandiv (a b : Rat) : Val := if b = 0 then .nan else .num (a / b)

/-- one block: the kernel is evaluated on the content `base` has NOW, then written into `dst` -/
def assignSt {α : Type} (kern : Arr α → Nat → Nat → α) (dst base : Nat) (s : Store α)
    (yb ylen xb xlen ys xs : Nat) : Store α :=
  s.set dst (Blocks.assign (s.arr dst) yb ylen xb xlen ys xs (kern (s.arr base)))

def innerLoopSt {α : Type} (kern : Arr α → Nat → Nat → α) (dst base : Nat) (yb ylen ys : Nat) :
    List (Nat × Nat) → Nat → Store α → Store α
  | [], _, s => s
  | (xs, xlen) :: rest, xb, s =>
    innerLoopSt kern dst base yb ylen ys rest (xb + xlen) (assignSt kern dst base s yb ylen xb xlen ys xs)

def outerLoopSt {α : Type} (kern : Arr α → Nat → Nat → α) (dst base : Nat) (xchunks : List (Nat × Nat)) (offx : Nat) :
    List (Nat × Nat) → Nat → Store α → Store α
  | [], _, s => s
  | (ys, ylen) :: rest, yb, s =>
    outerLoopSt kern dst base xchunks offx rest (yb + ylen) (innerLoopSt kern dst base yb ylen ys xchunks offx s)

/-- the two nested block loops of the code over the store: same chunks, same offsets as `Blocks.blocked` -/
def blockedSt {α : Type} (p : Blocks.Plan) (kern : Arr α → Nat → Nat → α) (dst base : Nat) (s : Store α) : Store α :=
  outerLoopSt kern dst base (Blocks.arraySplit p.lx (Blocks.arange p.startX p.stopX p.stepX)) p.offX
    (Blocks.arraySplit p.ly (Blocks.arange p.startY p.stopY p.stepY)) p.offY s

end Pandora.PyArr
