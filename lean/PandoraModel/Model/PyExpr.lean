/-
  Run-time support of the definitions written by `translator/pyexpr.py` (`Generated/Kernels.lean`).

  The translator turns a restricted subset of Python (scalar numeric kernels) into Lean source text.
  The generated text only uses: core `Int` / `Rat` arithmetic and `decide` on their order, `Bool`
  connectives, `if … then … else`, `let`, `match` on `Val`, and the few functions below, which are the
  Python / numba meaning of the corresponding operation where core Lean has no operation with exactly
  that meaning.

  Conventions (the project's, see `Model/Refinement.lean`): a Python float is an exact rational or NaN
  (`Val`); rounding is not modelled; there is no infinity.  NaN follows IEEE / Python: it is absorbed by
  every arithmetic operation, every comparison with it is `False` except `!=`.
  `min` / `max` are Python's (and numba's, probed): `max(a, b)` is `b` when `b > a` and `a` otherwise,
  `min(a, b)` is `b` when `b < a` and `a` otherwise — with a NaN operand the *first* argument wins.
  A float division whose divisor is zero raises `ZeroDivisionError` (Python floats and numba's default
  `error_model="python"`): the generated code tests the divisor (`PyRes.zeroDivision`) before it divides.

  Core Lean only.
-/
import PandoraModel.Model.Basic

namespace Pandora.PyExpr
open Pandora

/-- what a translated function returns: its value, or the `ZeroDivisionError` it raises -/
inductive PyRes (α : Type) where
  | ok : α → PyRes α
  | zeroDivision : PyRes α
  deriving DecidableEq, Repr

/-! ### `Int` -/

def iabs (x : Int) : Int := if x < 0 then -x else x
/-- Python `max(a, b)` -/
def imax (a b : Int) : Int := if a < b then b else a
/-- Python `min(a, b)` -/
def imin (a b : Int) : Int := if b < a then b else a
/-- `x ** n` for a literal `n ≥ 1` -/
def ipow (x : Int) : Nat → Int
  | 0 => 1
  | n + 1 => ipow x n * x

/-! ### `Rat` (a float that cannot be NaN) -/

def rabs (x : Rat) : Rat := if x < 0 then -x else x
def rmax (a b : Rat) : Rat := if a < b then b else a
def rmin (a b : Rat) : Rat := if b < a then b else a
def rpow (x : Rat) : Nat → Rat
  | 0 => 1
  | n + 1 => rpow x n * x

/-! ### `Val` (a float that may be NaN) -/

def vneg (a : Val) : Val := a.map (fun x => -x)
def vadd (a b : Val) : Val := Val.map2 (· + ·) a b
def vsub (a b : Val) : Val := Val.map2 (· - ·) a b
def vmul (a b : Val) : Val := Val.map2 (· * ·) a b
/-- division once the divisor is known not to be zero (tested by the generated code, or excluded by a
    dominating guard of the source) -/
def vdiv (a b : Val) : Val := Val.map2 (· / ·) a b
def vabs (a : Val) : Val := a.map rabs
def vpow (a : Val) (n : Nat) : Val := a.map (fun x => rpow x n)

def vlt : Val → Val → Bool
  | .num x, .num y => decide (x < y)
  | _, _ => false
def vle : Val → Val → Bool
  | .num x, .num y => decide (x ≤ y)
  | _, _ => false
def veq : Val → Val → Bool
  | .num x, .num y => decide (x = y)
  | _, _ => false
/-- `a != b` is `not (a == b)`: true when an operand is NaN -/
def vne (a b : Val) : Bool := !veq a b

def vmax (a b : Val) : Val := if vlt a b then b else a
def vmin (a b : Val) : Val := if vlt b a then b else a

/-- the divisor test of a float division: `b == 0.0` (NaN is not zero) -/
def visZero (b : Val) : Bool := veq b (.num 0)

/-! ### glue extension (scalar index arithmetic: `get_window`, `point_interval`, …) -/

/-- what a translated function with a `raise` statement returns: its value, or the name of the exception it
    raises (`"ValueError"`; a tested zero divisor is `"ZeroDivisionError"`) -/
inductive PyOut (α : Type) where
  | ok : α → PyOut α
  | raised : String → PyOut α
  deriving DecidableEq, Repr

/-- `math.ceil(x)` of a float that is not NaN (an `int` in Python 3) -/
def rceil (x : Rat) : Int := x.ceil
/-- `math.floor(x)` -/
def rfloor (x : Rat) : Int := x.floor
/-- `int(x)`: truncation towards zero -/
def rtrunc (x : Rat) : Int := if x < 0 then x.ceil else x.floor

end Pandora.PyExpr
