/-
  Run-time support of `Generated/KernelsMultiscale.lean` (written by `translator/gen_kernels_multiscale.py` on top of
  `translator/pyarr.py`): what `FixedZoomPyramid.disparity_range` needs beyond `Model/PyArr.lean`.  Core Lean only.

  * `Store.full`  — `np.full_like(a, v)`: a fresh array holding `v` everywhere.
  * `pyInt`       — `int(x)` of a float scalar (truncation toward zero), as a cell.
  * `valSub` / `valAdd` — `<reduction> - n`, `<reduction> + n` on a cell (NaN stays NaN).
  * `blockedSt2`  — the T8 block loop whose inner body holds TWO block writes (`disp_min_range[...] = …` then
    `disp_max_range[...] = …`): per block, the first kernel is evaluated on the CURRENT content of the view's base and
    written, then the second one.  That this is two independent `Blocks.blocked` computations needs the three arrays to be
    different (`Properties/C15Kernels.lean: blockedSt2_eq`).
  * `ZoomArgs`, `ZoomFn`, `Store.zoom` — `scipy.ndimage.zoom(a, factor, order=…, mode=…)` stays an UNINTERPRETED library
    function: the generated definition takes it as a parameter and applies it to the keyword arguments read in the
    source; the theorems assume its meaning only for the pinned arguments `order = 0, mode = "nearest"`
    (`zoomNearest`: output `(i, j)` copies input `(zoomIndex ny f i, zoomIndex nx f j)`).
-/
import PandoraModel.Model.PyArr
import PandoraModel.Model.Multiscale

namespace Pandora.PyArr
open Pandora

/-- `np.full_like(a, v)` -/
def Store.full {α : Type} (s : Store α) (v : α) : Store α × Nat := s.alloc (fun _ _ => v)

/-- `int(x)` of a float scalar, stored into a float map -/
def pyInt (q : Rat) : Val := Val.num (Multiscale.ratTrunc q)

/-- `cell - n` / `cell + n` for a natural `n` (`self._marge`) -/
def valSub (v : Val) (n : Nat) : Val := v.map (· - (n : Rat))
def valAdd (v : Val) (n : Nat) : Val := v.map (· + (n : Rat))

/-! ### the block loop with two writes per block -/

def innerLoopSt2 {α : Type} (k1 : Arr α → Nat → Nat → α) (d1 : Nat) (k2 : Arr α → Nat → Nat → α) (d2 : Nat) (base : Nat)
    (yb ylen ys : Nat) : List (Nat × Nat) → Nat → Store α → Store α
  | [], _, s => s
  | (xs, xlen) :: rest, xb, s =>
    innerLoopSt2 k1 d1 k2 d2 base yb ylen ys rest (xb + xlen)
      (assignSt k2 d2 base (assignSt k1 d1 base s yb ylen xb xlen ys xs) yb ylen xb xlen ys xs)

def outerLoopSt2 {α : Type} (k1 : Arr α → Nat → Nat → α) (d1 : Nat) (k2 : Arr α → Nat → Nat → α) (d2 : Nat) (base : Nat)
    (xchunks : List (Nat × Nat)) (offx : Nat) : List (Nat × Nat) → Nat → Store α → Store α
  | [], _, s => s
  | (ys, ylen) :: rest, yb, s =>
    outerLoopSt2 k1 d1 k2 d2 base xchunks offx rest (yb + ylen) (innerLoopSt2 k1 d1 k2 d2 base yb ylen ys xchunks offx s)

/-- the two nested block loops with the writes `d1[block] = k1(chunk)`, `d2[block] = k2(chunk)` in that order -/
def blockedSt2 {α : Type} (p : Blocks.Plan) (k1 : Arr α → Nat → Nat → α) (d1 : Nat) (k2 : Arr α → Nat → Nat → α) (d2 : Nat)
    (base : Nat) (s : Store α) : Store α :=
  outerLoopSt2 k1 d1 k2 d2 base (Blocks.arraySplit p.lx (Blocks.arange p.startX p.stopX p.stepX)) p.offX
    (Blocks.arraySplit p.ly (Blocks.arange p.startY p.stopY p.stepY)) p.offY s

/-! ### `scipy.ndimage.zoom` as an uninterpreted library function with its keyword arguments -/

/-- the keyword arguments of the `zoom` call as they are written in the source (scipy's defaults when absent:
    `order = 3`, `mode = "constant"`) -/
structure ZoomArgs where
  order : Nat
  mode : String
  deriving DecidableEq, Repr

/-- `zoom` applied to its keyword arguments, the input shape `ny nx`, the factor and the input content -/
abbrev ZoomFn := ZoomArgs → Nat → Nat → Nat → Arr Val → Arr Val

/-- `b = zoom(a, factor, …)`: a fresh array (of shape `factor·ny × factor·nx`) -/
def Store.zoom (s : Store Val) (z : ZoomFn) (args : ZoomArgs) (ny nx factor : Nat) (k : Nat) : Store Val × Nat :=
  s.alloc (z args ny nx factor (s.arr k))

/-- the meaning the model gives to `zoom(a, f, order=0, mode="nearest")`: output sample `(i, j)` is the input sample
    `(zoomIndex ny f i, zoomIndex nx f j)` -/
def zoomNearest (ny nx f : Nat) (a : Arr Val) : Arr Val :=
  fun i j => a (Multiscale.zoomIndex ny f i) (Multiscale.zoomIndex nx f j)

/-- the pinned arguments -/
def zoomPinned : ZoomArgs := { order := 0, mode := "nearest" }

end Pandora.PyArr
