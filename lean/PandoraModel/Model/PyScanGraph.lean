/-
  Run-time support of `Generated/KernelsRegul.lean` (translator/gen_kernels_regul.py): the pair-scan nest of
  `pandora/interval_tools.py: create_connected_graph`

      M = np.full((n, n), False)
      for i in prange(n):
          <scalar lets>
          for k in range(lo(i), n):
              if c1: continue
              if c2: break
              if c3: M[i, k] = M[k, i] = True

  The conditions are TRANSLATED (the generated `…Act` function); the control skeleton is this file: one action per visited
  `k` (`skip` = fall through / `continue`, `stop` = `break`, `mark` = the store), the Boolean row of an `i`, and the matrix
  after the nest.  2-D integer arrays are total index functions `Nat → Nat → Int` (the nest only reads rows `< n`; that the
  parameter arrays have `n` rows is the caller's shape, not tested here).  `prange` is read as `range`: distinct `i` write
  distinct cells or the same value `True` (order independence is C18's subject).  Core Lean only.
-/
namespace Pandora.PyScanGraph

inductive Act where
  | skip | stop | mark
  deriving DecidableEq, Repr

/-- one Boolean per visited `k` (in order): was the store executed; after a `break` nothing is -/
def scanBools (act : Nat → Act) : List Nat → List Bool
  | [] => []
  | k :: ks =>
    match act k with
    | .skip => false :: scanBools act ks
    | .stop => false :: ks.map (fun _ => false)
    | .mark => true :: scanBools act ks

/-- `for k in range(lo, n)` -/
def rangeFrom (lo n : Nat) : List Nat := List.range' lo (n - lo)

/-- was `(a, b)` stored by iteration `i = a` of the nest -/
def marked (lo : Nat → Nat) (row : Nat → List Bool) (a b : Nat) : Bool :=
  decide (lo a ≤ b) && (row a).getD (b - lo a) false

/-- the matrix after the nest when the store is `M[i, k] = M[k, i] = True` -/
def symMatrix (n : Nat) (lo : Nat → Nat) (row : Nat → List Bool) : List (List Bool) :=
  (List.range n).map (fun a => (List.range n).map (fun b => marked lo row a b || marked lo row b a))

/-- … when the store is `M[i, k] = True` only -/
def upperMatrix (n : Nat) (lo : Nat → Nat) (row : Nat → List Bool) : List (List Bool) :=
  (List.range n).map (fun a => (List.range n).map (fun b => marked lo row a b))

end Pandora.PyScanGraph

/-! ### Boolean row programs (second nest of `create_connected_graph`): rows are `List Bool`, matrices lists of rows -/
namespace Pandora.PyScanGraph

/-- `M[i, :].copy()` -/
def rowOf (m : List (List Bool)) (i : Nat) : List Bool := m.getD i []
/-- `M[mask, :].copy()`: the rows of `M` whose mask entry is set -/
def selectRows (m : List (List Bool)) (mask : List Bool) : List (List Bool) :=
  (m.zip mask).filterMap (fun p => if p.2 then some p.1 else none)
/-- `P[:, j].any()` -/
def anyCol (p : List (List Bool)) (j : Nat) : Bool := p.any (fun r => r.getD j false)
/-- `for j in range(n): v[j] = f j` where `f j` reads `v` at `j` only (checked by the translator) and `len(v) = n` -/
def tabulateB (n : Nat) (f : Nat → Bool) : List Bool := (List.range n).map f
/-- `for _ in range(a, b): v = body v` -/
def iter {α : Type} (body : α → α) : Nat → α → α
  | 0, v => v
  | k + 1, v => iter body k (body v)
/-- `np.eye(n, dtype=np.bool_)` -/
def eye (n : Nat) : List (List Bool) := (List.range n).map (fun i => (List.range n).map (fun k => decide (i = k)))

end Pandora.PyScanGraph
