/-
  C09, second half — the single-scale tail of a pipeline as a composition of the existing step models.

  Nothing here re-models a step: every step is the model of its own property, applied to one common map
  representation through a small adapter.

    common representation      `Interp.DMap` = (rows, cols, disp : ℕ → ℕ → Val, flag : ℕ → ℕ → ℕ)
    winner-takes-all (C09)     `IntervalWta.wta` on `MC.costVolume`              -> `wtaMap`
    refinement (C06)           `Refinement.loopRefinement` on `List (List PixIn)` -> `refineStep`   (may raise: `none`)
    median / bilateral (C10)   `Filter.medianFilterDisparity`, `Filter.bilateralFilterDisparity` on index functions
    cross-checking (C07)       `CrossCheck.check` on `Dataset` (nested lists)     -> `crossCheckStep`
    filling (C14)              `Interp.interpolate` on `DMap`                     (identity adapter)
    validation                 cross-checking, then the optional filling, with the same `offset_row_col`
    multiscale at the last scale: no effect (C01: `stepEvents … 0 = []`)

  `Step.kind` ties the steps to the documented automaton of `Model/Machine.lean`: in state `disp_map` the machine
  accepts exactly `filter`, `refinement`, `validation`, `multiscale`, in any order and any number of times; a tail is
  a `List Step`.

  The executable predicates at the end (`boundedValidB`, `refineReadyB`, `entryOK`, …) are the hypotheses of the
  theorems of `Properties/C09Pipeline.lean` in decidable form: the driver evaluates them on the maps the real
  machine holds between two steps.  Core Lean only.
-/
import PandoraModel.Model.Interp
import PandoraModel.Model.Filter
import PandoraModel.Model.CrossCheck
import PandoraModel.Model.Refinement
import PandoraModel.Model.IntervalWta
import PandoraModel.Model.Machine

namespace Pandora.Pipeline
open Pandora

abbrev DMap := Interp.DMap

/-! ## Adapters -/

/-- cell `(r, c)` of a nested list, `d` outside -/
def cellD {α : Type} (g : List (List α)) (d : α) (r c : Nat) : α := (g.getD r []).getD c d

/-- the map as the two nested lists the cross-checking model reads -/
def toDataset (m : DMap) : CrossCheck.Dataset :=
  { disp := Blocks.tabulate m.rows m.cols m.disp, mask := Blocks.tabulate m.rows m.cols m.flag }

/-- what the refinement step reads besides the map: its parameters, the cost row of every pixel
    (`cv[row, col, :]`) and the pixel's own disparity interval -/
structure RefineData where
  P : Refinement.Params
  costs : Nat → Nat → List Val
  pmin : Nat → Nat → Rat
  pmax : Nat → Nat → Rat

/-- the pixel as `loop_refinement` sees it -/
def pixIn (D : RefineData) (m : DMap) (r c : Nat) : Refinement.PixIn :=
  { costs := D.costs r c, d := m.disp r c, flag := m.flag r c, pmin := D.pmin r c, pmax := D.pmax r c }

def pixGrid (D : RefineData) (m : DMap) : List (List Refinement.PixIn) :=
  Blocks.tabulate m.rows m.cols (pixIn D m)

def noPix : Refinement.PixOut := { coeff := .nan, d := .nan, flag := 0 }

/-- refinement (C06): `none` when the step raises -/
def refineStep (D : RefineData) (m : DMap) : Option DMap :=
  match Refinement.loopRefinement D.P (pixGrid D m) with
  | .ok o => some { m with disp := fun r c => (cellD o noPix r c).d, flag := fun r c => (cellD o noPix r c).flag }
  | .err _ => none

/-- median filter (C10); the invalidating bits are those of `Flags.pixelInvalid` -/
def medianStep (s : Blocks.Split) (fs : Nat) (m : DMap) : DMap :=
  { m with disp := Filter.medianFilterDisparity s Flags.pixelInvalid fs m.rows m.cols m.flag m.disp }

/-- bilateral filter (C10) of window width `w` -/
def bilateralStep (s : Blocks.Split) (wts : Filter.Weights) (w : Nat) (m : DMap) : DMap :=
  { m with disp := Filter.bilateralFilterDisparity s wts Flags.pixelInvalid w m.rows m.cols m.flag m.disp }

/-- cross-checking (C07) of the map against the disparities `other` of the other image -/
def crossCheckStep (V : CrossCheck.Variant) (P : CrossCheck.Params) (other : Grid Val) (m : DMap) : DMap :=
  let o := CrossCheck.check V P (toDataset m) { disp := other, mask := [] }
  { m with disp := fun r c => cellD o.disp .nan r c, flag := fun r c => cellD o.mask 0 r c }

/-- the optional filling of a validation step -/
structure Fill where
  variant : Interp.Variant
  method : Interp.Method

/-- `validation_run` seen from one of the two maps: cross-checking, then the optional filling, with the
    same `offset_row_col` -/
def validationStep (V : CrossCheck.Variant) (P : CrossCheck.Params) (other : Grid Val) (fill : Option Fill)
    (m : DMap) : DMap :=
  let a := crossCheckStep V P other m
  match fill with
  | none => a
  | some f => Interp.interpolate f.variant f.method P.offset a

/-! ## Steps and tails -/

/-- a step the machine accepts in state `disp_map`, with everything it reads besides the map -/
inductive Step where
  | refine (D : RefineData)
  | median (s : Blocks.Split) (fs : Nat)
  | bilateral (s : Blocks.Split) (wts : Filter.Weights) (w : Nat)
  | validation (V : CrossCheck.Variant) (P : CrossCheck.Params) (other : Grid Val) (fill : Option Fill)
  /-- a `multiscale` step at the last scale: no effect -/
  | multiscale

def Step.kind : Step → Machine.Kind
  | .refine _ => .refinement
  | .median _ _ => .filter
  | .bilateral _ _ _ => .filter
  | .validation _ _ _ _ => .validation
  | .multiscale => .multiscale

def runStep : Step → DMap → Option DMap
  | .refine D, m => refineStep D m
  | .median s fs, m => some (medianStep s fs m)
  | .bilateral s wts w, m => some (bilateralStep s wts w m)
  | .validation V P other fill, m => some (validationStep V P other fill m)
  | .multiscale, m => some m

/-- the tail of a single-scale run after the disparity step (`none`: some step raised) -/
def runSteps : List Step → DMap → Option DMap
  | [], m => some m
  | s :: ss, m =>
    match runStep s m with
    | some m' => runSteps ss m'
    | none => none

/-- the kinds of a tail spell a path of the documented automaton from `disp_map` -/
def acceptedFrom : Machine.St → List Machine.Kind → Bool
  | _, [] => true
  | st, k :: ks =>
    match Machine.documented st k with
    | some st' => acceptedFrom st' ks
    | none => false

/-! ## The disparity step (winner-takes-all on the matching-cost model) -/

/-- the disparity of sample `j`: `(gmin·sp + j) / sp` -/
def sampleDisp (x : MC.Input) (j : Nat) : Rat :=
  (((MC.gridMin x.dminG x.L.rows x.L.cols * (x.sp : Int) + (j : Int) : Int)) : Rat) / ((x.sp : Int) : Rat)

/-- the map the disparity step leaves: the winner of every pixel, `invalid` where every cost is NaN; the flag words
    (computed by the matching-cost step, C04) are a parameter -/
def wtaMap (x : MC.Input) (better : MC.Cell → MC.Cell → Bool) (flags : Nat → Nat → Nat) (invalid : Val) : DMap :=
  { rows := x.L.rows, cols := x.L.cols, flag := flags,
    disp := fun r c =>
      match IntervalWta.wta better (fun j => MC.costVolume x (r : Int) (c : Int) j)
          (MC.nDisp (MC.gridMin x.dminG x.L.rows x.L.cols) (MC.gridMax x.dmaxG x.L.rows x.L.cols) x.sp) with
      | some j => .num (sampleDisp x j)
      | none => invalid }

/-- the refinement data of the same run: the cost rows of the volume (`val` reads a cell as a float), the
    per-pixel intervals, the global interval as first / last disparity coordinate -/
def refineDataOf (x : MC.Input) (val : MC.Cell → Val) (method : Refinement.Method) (isMax : Bool)
    (variant : Refinement.Variant) : RefineData :=
  { P := { variant := variant, method := method, isMax := isMax, subpix := x.sp,
           dmin := ((MC.gridMin x.dminG x.L.rows x.L.cols : Int) : Rat),
           dmax := ((MC.gridMax x.dmaxG x.L.rows x.L.cols : Int) : Rat) },
    costs := fun r c =>
      (List.range (MC.nDisp (MC.gridMin x.dminG x.L.rows x.L.cols) (MC.gridMax x.dmaxG x.L.rows x.L.cols) x.sp)).map
        (fun j => val (MC.costVolume x (r : Int) (c : Int) j)),
    pmin := fun r c => ((x.dminG (r : Int) (c : Int) : Int) : Rat),
    pmax := fun r c => ((x.dmaxG (r : Int) (c : Int) : Int) : Rat) }

/-! ## The hypotheses of the composition theorems, in decidable form (evaluated on the real maps) -/

/-- every pixel whose flag word is valid carries a number in `[lo r c, hi r c]` -/
def boundedByB (lo hi : Nat → Nat → Rat) (m : DMap) : Bool :=
  Interp.allPx m fun r c =>
    !m.valid r c || (match m.disp r c with
      | .num q => decide (lo r c ≤ q) && decide (q ≤ hi r c)
      | .nan => false)

/-- … in the global interval `[lo, hi]` -/
def boundedValidB (lo hi : Rat) (m : DMap) : Bool := boundedByB (fun _ _ => lo) (fun _ _ => hi) m

/-- what `Properties/C06.lean` calls `wfPix` (same text; `refineReadyPix_eq` proves they are the same function):
    one cost per sample, the pixel's interval inside the global one, a valid pixel carries a disparity of its own
    interval, costs outside the pixel's interval are NaN -/
def wfPixB (P : Refinement.Params) (x : Refinement.PixIn) : Bool :=
  decide (1 ≤ P.subpix)
  && decide (((x.costs.length : Int) : Rat) = (P.dmax - P.dmin) * (P.subpix : Rat) + 1)
  && decide (P.dmin ≤ x.pmin) && decide (x.pmax ≤ P.dmax)
  && (Flags.isInvalid x.flag ||
      match x.d with
      | .num dv => decide (x.pmin ≤ dv) && decide (dv ≤ x.pmax)
      | .nan => false)
  && (List.range x.costs.length).all (fun i =>
      !(decide (P.dmin + (i : Rat) / (P.subpix : Rat) < x.pmin) || decide (x.pmax < P.dmin + (i : Rat) / (P.subpix : Rat)))
        || x.costs.getD i .nan == .nan)

/-- `onGridPix` of C06: the disparity of a valid pixel is a sample of the interval -/
def onGridPixB (P : Refinement.Params) (x : Refinement.PixIn) : Bool :=
  Flags.isInvalid x.flag || match x.d with
    | .num dv => Refinement.onGrid P dv
    | .nan => true

/-- `pixHyp` of C06: well-formed, on the grid, bit 3 not yet raised (not needed once flags are or-ed) -/
def refineReadyPix (P : Refinement.Params) (x : Refinement.PixIn) : Bool :=
  wfPixB P x && onGridPixB P x && (P.variant.fixOr || Refinement.bitAt x.flag 3 == 0)

/-- the map entering a refinement step satisfies, at every pixel, what C06 assumes of a pixel -/
def refineReadyB (D : RefineData) (m : DMap) : Bool :=
  Interp.allPx m fun r c => refineReadyPix D.P (pixIn D m r c)

/-- names of the sub-conditions of `refineReadyPix` that fail at a pixel (for the reports of the harness) -/
def refineReadyFailures (P : Refinement.Params) (x : Refinement.PixIn) : List String :=
  (if wfPixB P x then [] else
    (if Flags.isInvalid x.flag ||
        (match x.d with
         | .num dv => decide (x.pmin ≤ dv) && decide (dv ≤ x.pmax)
         | .nan => false) then ["cost_row_malformed"] else ["outside_own_interval"]))
  ++ (if onGridPixB P x then [] else ["off_sample_grid"])
  ++ (if P.variant.fixOr || Refinement.bitAt x.flag 3 == 0 then [] else ["bit3_already_set"])

/-- the flag words of the disparity step mark as invalid every pixel without any numeric cost -/
def flagsCoverB (x : MC.Input) (better : MC.Cell → MC.Cell → Bool) (flags : Nat → Nat → Nat) : Bool :=
  (List.range x.L.rows).all fun r => (List.range x.L.cols).all fun c =>
    (IntervalWta.wta better (fun j => MC.costVolume x (r : Int) (c : Int) j)
      (MC.nDisp (MC.gridMin x.dminG x.L.rows x.L.cols) (MC.gridMax x.dmaxG x.L.rows x.L.cols) x.sp)).isSome
    || Flags.isInvalid (flags r c)

/-- the other map of a cross-checking has one row per row of the map -/
def otherShapeOK (other : Grid Val) (m : DMap) : Bool := decide (m.rows ≤ other.length)

/-- bilateral weights are usable whatever the window holds: no negative factor, a positive weight for the
    pixel itself -/
structure WeightsOK (wts : Filter.Weights) (w : Nat) : Prop where
  spatial_nonneg : ∀ a b, 0 ≤ wts.spatial a b
  range_nonneg : ∀ d, 0 ≤ wts.range d
  centre_pos : 0 < wts.spatial (w / 2) (w / 2) * wts.range 0

/-- the parameters of a step are those under which its own property was proved (`m` only gives the size) -/
def Step.paramsOK : Step → DMap → Prop
  | .refine _, _ => True
  | .median s fs, m => s.beginY = fs / 2 ∧ s.beginX = fs / 2 ∧ fs % 2 = 1 ∧ fs ≤ m.rows ∧ fs ≤ m.cols
  | .bilateral s wts w, m => s.beginY = w / 2 ∧ s.beginX = w / 2 ∧ 0 < w ∧ w ≤ m.rows ∧ w ≤ m.cols ∧ WeightsOK wts w
  | .validation _ _ other fill, m =>
    otherShapeOK other m = true ∧
      (∀ f, fill = some f → f.variant.guard = true ∧ f.variant.op = .or)
  | .multiscale, _ => True

/-- what must hold of the map entering a step, besides the invariant: only refinement asks for something — the map
    is on the sample grid of its cost volume with every valid pixel inside its own interval (`refineReadyB`), and the
    first / last disparity of that cost volume lie in the requested global interval `[lo, hi]` (they are its ends) -/
def Step.entryOK (lo hi : Rat) : Step → DMap → Prop
  | .refine D, m => refineReadyB D m = true ∧ lo ≤ D.P.dmin ∧ D.P.dmax ≤ hi
  | _, _ => True

/-- the run is legal: every step has sound parameters and finds the map it needs -/
def Legal (lo hi : Rat) : List Step → DMap → Prop
  | [], _ => True
  | s :: ss, m => s.paramsOK m ∧ s.entryOK lo hi m ∧ ∀ m', runStep s m = some m' → Legal lo hi ss m'

def Step.isRefine : Step → Bool
  | .refine _ => true
  | _ => false

/-- refinement only right after the disparity step (where the map is still as winner-takes-all left it): no
    filter, no validation, no other refinement before it -/
def refinementFirst : List Step → Bool
  | [] => true
  | .refine _ :: ss => ss.all (fun s => !s.isRefine)
  | s :: ss => (s :: ss).all (fun s => !s.isRefine)

end Pandora.Pipeline
