/-
  Executable model of Pandora's configuration checking (core Lean only).

  Mirrors, in this order:
  * `check_configuration.update_conf`                       → `updateConf`
  * every step class's `check_conf`  (default insertion sequence, the `"NaN"` rewrite, the
    `step != 1` guard, the multiscale refusal of disparity grids, then `Checker(schema).validate`)
                                                             → `runActions`, `classCheck`
    The per-class data (`ClassDesc`: registry names, action list, schema) is *not* written here: the
    translator regenerates it from the source (`Generated/Schemas.lean`) and the driver receives it
    from the harness.
  * the registry dispatch of the abstract classes' `__new__`  → `construct`
  * the ten `<step>_check_conf` callbacks and `PandoraMachine.check_conf` (both rounds),
    `check_band_pipeline`                                    → `stepCallback`, `checkRound`, `machineCheck`
  * `check_pipeline_section`, `check_input_section`, `check_conf`, `concat_conf`
  * `check_dataset(s)` over a dataset descriptor               (C17)

  Sequencing of the steps uses the documented automaton of `Model/Machine.lean`; that the transition
  tables of the source are that automaton is property C01.

  Exceptions are modelled by their class (`Err`); `Err.other` = "raises, class not modelled".
-/
import PandoraModel.Model.Schema
import PandoraModel.Model.Machine

namespace Pandora.Config
open Pandora

inductive Err where
  | checker    -- json_checker.CheckerError and subclasses
  | machine    -- transitions.MachineError (sequencing error; wraps KeyError/AttributeError of a callback)
  | value      -- ValueError
  | type       -- TypeError
  | name       -- NameError (a non-string method name reaches the Python-2 `unicode` branch)
  | key        -- KeyError
  | attr       -- AttributeError
  | index      -- IndexError
  | io         -- rasterio error (file cannot be opened)
  | other      -- raises; class not modelled
  deriving Repr, DecidableEq, Inhabited

def Err.pyName : Err → String
  | .checker => "CheckerError" | .machine => "MachineError" | .value => "ValueError"
  | .type => "TypeError" | .name => "NameError" | .key => "KeyError" | .attr => "AttributeError"
  | .index => "IndexError" | .io => "RasterioError" | .other => "other"

/-! ### update_conf -/

/-- three facts the translator reads from the source (all `false` in the tree the findings of
    C05 / C17 were made on; the proposed fixes turn them to `true`):
    * `bandWhole`: `check_band_pipeline` treats a string `band_used` as one band name instead of
      iterating over its characters;
    * `resetPipelineCfg`: `check_conf` empties `self.pipeline_cfg` before its first round;
    * `strictMerge`: `update_conf` raises `TypeError` when the user gives a dictionary where the
      default holds something that is not a dictionary (even an empty one). -/
structure MachineFlags where
  bandWhole : Bool := false
  resetPipelineCfg : Bool := false
  strictMerge : Bool := false
  deriving Repr, DecidableEq, Inhabited


/-- the three strings `update_conf` turns into floats -/
def rewriteLeaf (v : JVal) : JVal :=
  if v = .str "NaN" then .float .nan
  else if v = .str "inf" then .float .pinf
  else if v = .str "-inf" then .float .ninf
  else v

mutual
/-- the value `update_conf` stores under a key: `dv` is what the (copied) default holds under that
    key (`config.get(key)`), the argument the user's value.  A user dictionary met where the default
    holds a non-dictionary raises on its first item (`TypeError` on the item assignment,
    `AttributeError` on `config.get` when that item is itself a dictionary); when that user
    dictionary is empty nothing happens and the default value is kept. -/
def updateVal (g : Bool) (dv : Option JVal) : JVal → Except Err JVal
  | .obj sub =>
    match dv with
    | none => (updateConf g [] sub).map JVal.obj
    | some (.obj dsub) => (updateConf g dsub sub).map JVal.obj
    | some other =>
      if g then .error .type                 -- `strictMerge`: refused outright
      else
      match sub with
      | [] => .ok other
      | (_, .obj _) :: _ => .error .attr     -- `config.get(…)` on a non-dictionary
      | _ :: _ => .error .type               -- item assignment on a non-dictionary
  | leaf => .ok (rewriteLeaf leaf)
/-- `update_conf(def_cfg, user_cfg)`: `d` is the (copied) default dictionary, the second argument
    the items of the user dictionary in order. -/
def updateConf (g : Bool) (d : Dict) : Dict → Except Err Dict
  | [] => .ok d
  | (k, v) :: rest =>
    match updateVal g (Dict.lookup d k) v with
    | .error e => .error e
    | .ok v' => updateConf g (Dict.setKey d k v') rest
end

/-! ### Step classes -/

/-- what the dataset of one image tells the checks -/
structure ImgInfo where
  /-- `band_im` coordinate (`None` for an undescribed band) -/
  bands : List (Option String) := [none]
  /-- `attrs["disparity_source"]`: `None`, `[min, max]` or the path of a grid -/
  dispSource : JVal := .null
  deriving Repr, Inhabited

/-- one statement of a class's `check_conf` before the schema validation -/
inductive Action where
  /-- `if k not in cfg: cfg[k] = v` -/
  | default (k : String) (v : JVal)
  /-- `if k not in cfg: cfg[k] = v  elif cfg[k] == "NaN": cfg[k] = np.nan` -/
  | defaultElifNaN (k : String) (v : JVal)
  /-- `if k in cfg and cfg[k] != v: raise e` -/
  | guardNe (k : String) (v : JVal) (e : Err)
  /-- `if isinstance(left.attrs["disparity_source"], str) or isinstance(right…, str): raise TypeError` -/
  | refuseGrids
  deriving Repr, Inhabited

structure ClassDesc where
  className : String
  /-- short names under which the class is registered -/
  names : List String
  actions : List Action
  /-- key, is-`OptionalKey`, value schema — in source order -/
  schema : List (String × Bool × Schema)
  deriving Repr, Inhabited

/-- an abstract step class: which key holds the method name, whether `__new__` has the Python-2
    `unicode` branch (a non-string name then raises `NameError`; without it `__new__` returns `None`
    and the caller fails with `AttributeError`), and the registered classes -/
structure KindDesc where
  kind : String
  methodKey : String
  unicodeBranch : Bool
  classes : List ClassDesc
  deriving Repr, Inhabited

def runAction (l r : ImgInfo) (cfg : Dict) : Action → Except Err Dict
  | .default k v => .ok (if Dict.hasKey cfg k then cfg else Dict.setKey cfg k v)
  | .defaultElifNaN k v =>
    match Dict.lookup cfg k with
    | none => .ok (Dict.setKey cfg k v)
    | some cur => .ok (if pyEq cur (.str "NaN") then Dict.setKey cfg k (.float .nan) else cfg)
  | .guardNe k v e =>
    match Dict.lookup cfg k with
    | none => .ok cfg
    | some cur => if pyEq cur v then .ok cfg else .error e
  | .refuseGrids => if l.dispSource.isStr || r.dispSource.isStr then .error .type else .ok cfg

def runActions (l r : ImgInfo) : List Action → Dict → Except Err Dict
  | [], cfg => .ok cfg
  | a :: rest, cfg =>
    match runAction l r cfg a with
    | .error e => .error e
    | .ok cfg' => runActions l r rest cfg'

/-- `<Class>.check_conf(**cfg)` -/
def classCheck (o : Oracle) (c : ClassDesc) (l r : ImgInfo) (cfg : Dict) : Except Err Dict :=
  match runActions l r c.actions cfg with
  | .error e => .error e
  | .ok cfg' => if Schema.accepts o (.dict c.schema) (.obj cfg') then .ok cfg' else .error .checker

def findClass (classes : List ClassDesc) (name : String) : Option ClassDesc :=
  classes.find? (fun c => c.names.contains name)

/-- `Abstract<Kind>(**cfg)`: registry dispatch in `__new__`, then the class's `check_conf` -/
def construct (o : Oracle) (k : KindDesc) (l r : ImgInfo) (cfg : Dict) : Except Err Dict :=
  match Dict.lookup cfg k.methodKey with
  | none => .error .key
  | some (.str m) =>
    match findClass k.classes m with
    | none => .error .key
    | some c => classCheck o c l r cfg
  | some _ => if k.unicodeBranch then .error .name else .error .attr

/-! ### The machine's check callbacks -/

/-- `PandoraMachine.check_band_pipeline(band_list, step, band_used)` for the `band` of a matching
    cost step: `None`/`""` needs a one-band image; a string is iterated character by character
    (`for band in band_used`), each character must be a band name — unless the source wraps the
    string into a list first (`whole`). -/
def bandCheck (whole : Bool) (bands : List (Option String)) (band : JVal) : Bool :=
  match band with
  | .str s =>
    if s = "" then bands.length == 1
    else if whole then bands.contains (some s)
    else s.toList.all (fun ch => bands.contains (some (String.singleton ch)))
  | .null => bands.length == 1
  | _ => false

/-- machine attributes the check callbacks read and write -/
structure CState where
  /-- `self.pipeline_cfg["pipeline"]` -/
  pipelineCfg : Dict := []
  /-- `self.right_disp_map` is set -/
  rightDispMap : Bool := false
  /-- `self.step` -/
  step : JVal := .int 1
  deriving Repr, Inhabited

def kindDesc? (reg : List KindDesc) (kind : String) : Option KindDesc :=
  reg.find? (fun k => k.kind == kind)

/-- The callback `<kind>_check_conf(cfg, input_step)`; `stepCfg = cfg[input_step]`.
    Errors are the exception raised *inside* the callback (the loop wraps some of them). -/
def stepCallback (o : Oracle) (fl : MachineFlags) (reg : List KindDesc) (kind : Machine.Kind) (name : String)
    (stepCfg : JVal) (l r : ImgInfo) (m : CState) : Except Err CState :=
  match stepCfg with
  | .obj cfg =>
    match kindDesc? reg kind.name with
    | none => .error .key
    | some kd =>
      match kind with
      | .optimization =>
        if !(pyEq m.step (.int 1)) then .error .attr
        else
          match construct o kd l r cfg with
          | .error e => .error e
          | .ok out => .ok { m with pipelineCfg := Dict.setKey m.pipelineCfg name (.obj out) }
      | .matchingCost =>
        match construct o kd l r cfg with
        | .error e => .error e
        | .ok out =>
          let m' := { m with pipelineCfg := Dict.setKey m.pipelineCfg name (.obj out),
                             step := (Dict.lookup out "step").getD (.int 1) }
          let band := (Dict.lookup out "band").getD .null
          if bandCheck fl.bandWhole l.bands band && bandCheck fl.bandWhole r.bands band then .ok m'
          else .error .attr
      | .validation =>
        match construct o kd l r cfg with
        | .error e => .error e
        | .ok out =>
          let m' := { m with pipelineCfg := Dict.setKey m.pipelineCfg name (.obj out), rightDispMap := true }
          if l.dispSource.isStr && r.dispSource.isNull then .error .attr else .ok m'
      | .filter =>
        match construct o kd l r cfg with
        | .error e => .error e
        | .ok out =>
          -- `self.margins.add_non_cumulative(step, filter_.margins)`: the bilateral margin is
          -- `int(3 * sigma_space + 1)`, which raises OverflowError on +inf (margins are C20's subject)
          if Dict.lookup out "sigma_space" = some (.float .pinf) then .error .other
          else .ok { m with pipelineCfg := Dict.setKey m.pipelineCfg name (.obj out) }
      | _ =>
        match construct o kd l r cfg with
        | .error e => .error e
        | .ok out => .ok { m with pipelineCfg := Dict.setKey m.pipelineCfg name (.obj out) }
  | _ => .error .type

/-- what the `try … except (MachineError, KeyError, AttributeError)` of the loop makes of an error -/
def wrapErr : Err → Err
  | .key => .machine
  | .attr => .machine
  | .machine => .machine
  | e => e

/-- the loop `for input_step in list(cfg["pipeline"])` of one round, from automaton state `st` -/
def checkLoop (o : Oracle) (fl : MachineFlags) (reg : List KindDesc) (pipeline : Dict) (l r : ImgInfo) :
    Machine.St → List String → CState → Except Err CState
  | _, [], m => .ok m
  | st, n :: ns, m =>
    match Machine.Kind.ofName? (Machine.kindOf n) with
    | none => .error .machine          -- unknown trigger: AttributeError, wrapped
    | some k =>
      match Machine.documented st k with
      | none => .error .machine        -- MachineError: no transition from this state
      | some st' =>
        match stepCallback o fl reg k n ((Dict.lookup pipeline n).getD .null) l r m with
        | .error e => .error (wrapErr e)
        | .ok m' => checkLoop o fl reg pipeline l r st' ns m'

/-- `PandoraMachine.check_conf(cfg, img_left, img_right)`: first round, then the right/left round
    when `right_disp_map` is set -/
def machineCheck (o : Oracle) (fl : MachineFlags) (reg : List KindDesc) (pipeline : Dict) (l r : ImgInfo)
    (m : CState) : Except Err CState :=
  let m0 := if fl.resetPipelineCfg then { m with pipelineCfg := [] } else m
  match checkLoop o fl reg pipeline l r .begin (Dict.keys pipeline) m0 with
  | .error e => .error e
  | .ok m1 =>
    if m1.rightDispMap then checkLoop o fl reg pipeline r l .begin (Dict.keys pipeline) m1 else .ok m1

/-! ### check_pipeline_section -/

def defaultPipeline : Dict := [("pipeline", .obj [])]

/-- `check_pipeline_section(user_cfg, img_left, img_right, machine)`; `user` is what
    `get_config_pipeline` kept (`{"pipeline": …}` or `{}`) -/
def checkPipelineSection (o : Oracle) (fl : MachineFlags) (reg : List KindDesc) (user : Dict) (l r : ImgInfo)
    (m : CState) : Except Err (Dict × CState) :=
  match updateConf fl.strictMerge defaultPipeline user with
  | .error e => .error e
  | .ok cfg =>
    match Dict.lookup cfg "pipeline" with
    | some (.obj pipeline) =>
      match machineCheck o fl reg pipeline l r m with
      | .error e => .error e
      | .ok m' =>
        match updateConf fl.strictMerge cfg [("pipeline", .obj m'.pipelineCfg)] with
        | .error e => .error e
        | .ok cfg2 =>
          match Dict.lookup cfg2 "pipeline" with
          | some (.obj p) => .ok ([("pipeline", .obj p)], m')
          | _ => .error .checker
    | _ => .error .other

/-- `get_config_pipeline` -/
def getConfigPipeline (user : Dict) : Dict :=
  match Dict.lookup user "pipeline" with
  | some p => [("pipeline", p)]
  | none => []

/-- `get_config_input` -/
def getConfigInput (user : Dict) : Dict :=
  match Dict.lookup user "input" with
  | some p => [("input", p)]
  | none => []

/-! ### check_input_section (C17, and the first half of `check_conf`) -/

/-- what rasterio reports about a file -/
structure FileInfo where
  width : Nat
  height : Nat
  count : Nat
  /-- some pixel of band 1 is greater than the same pixel of band 2 (disparity grids) -/
  minGtMax : Bool := false
  /-- band descriptions -/
  bands : List (Option String) := [none]
  deriving Repr, Inhabited, DecidableEq

/-- the file system: `none` = rasterio cannot open the path -/
abbrev Files := String → Option FileInfo

/-- `rasterio_can_open_mandatory` / `rasterio_can_open` -/
def fileOracle (files : Files) : Oracle := fun name v =>
  match name, v with
  | "rasterio_can_open_mandatory", .str p => (files p).isSome
  | "rasterio_can_open", .str p => p == "none" || (files p).isSome
  | "rasterio_can_open", .null => true
  | _, _ => false

/-- the three schema completions selected by the type of the disparities, and the common part:
    regenerated by the translator -/
structure InputSchemas where
  /-- `input_configuration_schema` (`left`, `right`) -/
  baseLeft : List (String × Bool × Schema)
  baseRight : List (String × Bool × Schema)
  integerLeft : List (String × Bool × Schema)
  integerRight : List (String × Bool × Schema)
  gridNoneLeft : List (String × Bool × Schema)
  gridNoneRight : List (String × Bool × Schema)
  gridGridLeft : List (String × Bool × Schema)
  gridGridRight : List (String × Bool × Schema)
  /-- `default_short_configuration_input` -/
  defaults : Dict
  deriving Repr, Inhabited

/-- `dict.update` on a schema dictionary -/
def schemaUpdate (base extra : List (String × Bool × Schema)) : List (String × Bool × Schema) :=
  extra.foldl (fun acc e =>
    if acc.any (fun b => b.1 == e.1) then acc.map (fun b => if b.1 == e.1 then e else b) else acc ++ [e]) base

/-- `d[k]` on a value: `KeyError` when a dictionary lacks the key, `TypeError` on a non-dictionary -/
def subscript (v : JVal) (k : String) : Except Err JVal :=
  match v with
  | .obj kvs =>
    match Dict.lookup kvs k with
    | some x => .ok x
    | none => .error .key
  | _ => .error .type

def intOf? : JVal → Option Int
  | .int i => some i
  | .bool b => some (if b then 1 else 0)
  | _ => none

/-- `check_disparities_from_input(disparity, img)` (after the schema accepted the section) -/
def checkDisparitiesFromInput (files : Files) (disp : JVal) (img : JVal) : Except Err Unit :=
  match disp with
  | .list items =>
    match items with
    | a :: b :: _ =>
      match a.toNum?, b.toNum? with
      | some x, some y => if Num.lt y x then .error .value else .ok ()
      | _, _ => .error .type
    | _ => .error .index
  | .str p =>
    match img with
    | .str ip =>
      match files ip with
      | none => .error .io
      | some im =>
        match files p with
        | none => .error .io
        | some g =>
          if g.count != 2 then .error .attr
          else if g.width != im.width || g.height != im.height then .error .attr
          else if g.minGtMax then .error .value
          else .ok ()
    | _ => .error .type
  | _ => .ok ()

/-- `check_image_dimension` of an optional auxiliary image against its image -/
def checkAux (files : Files) (im : FileInfo) (side : JVal) (key : String) : Except Err Unit :=
  match side with
  | .obj kvs =>
    match Dict.lookup kvs key with
    | none => .ok ()
    | some .null => .ok ()
    | some (.str p) =>
      match files p with
      | none => .error .io
      | some a => if a.width != im.width || a.height != im.height then .error .attr else .ok ()
    | some _ => .error .type
  | _ => .error .type

def checkAuxAll (files : Files) (iml imr : FileInfo) (left right : JVal) : List String → Except Err Unit
  | [] => .ok ()
  | k :: ks =>
    match checkAux files iml left k with
    | .error e => .error e
    | .ok () =>
      match checkAux files imr right k with
      | .error e => .error e
      | .ok () => checkAuxAll files iml imr left right ks

/-- `check_images(cfg["input"])` -/
def checkImages (files : Files) (left right : JVal) : Except Err Unit :=
  match subscript left "img", subscript right "img" with
  | .ok (.str lp), .ok (.str rp) =>
    match files lp, files rp with
    | some iml, some imr =>
      if iml.width != imr.width || iml.height != imr.height then .error .attr
      else checkAuxAll files iml imr left right ["mask", "classif", "segm"]
    | _, _ => .error .io
  | _, _ => .error .type

/-- `check_input_section(user_cfg)`; `user` is what `get_config_input` kept -/
def checkInputSection (files : Files) (fl : MachineFlags) (sch : InputSchemas) (user : Dict) : Except Err Dict :=
  match updateConf fl.strictMerge sch.defaults user with
  | .error e => .error e
  | .ok cfg =>
    match subscript (.obj cfg) "input" with
    | .error e => .error e
    | .ok input =>
      match subscript input "left", subscript input "right" with
      | .error e, _ => .error e
      | .ok left, rightR =>
        match subscript left "disp" with
        | .error e => .error e
        | .ok ldisp =>
          -- schema selection
          let sel : Except Err (List (String × Bool × Schema) × List (String × Bool × Schema)) :=
            if ldisp.isList then .ok (sch.integerLeft, sch.integerRight)
            else
              match rightR with
              | .error e => .error e
              | .ok right =>
                match subscript right "disp" with
                | .error e => .error e
                | .ok rdisp =>
                  if rdisp.isStr then .ok (sch.gridGridLeft, sch.gridGridRight)
                  else .ok (sch.gridNoneLeft, sch.gridNoneRight)
          match sel with
          | .error e => .error e
          | .ok (sl, sr) =>
            let schema : Schema := .dict [("input", false, .dict [
              ("left", false, .dict (schemaUpdate sch.baseLeft sl)),
              ("right", false, .dict (schemaUpdate sch.baseRight sr))])]
            if !(Schema.accepts (fileOracle files) schema (.obj cfg)) then .error .checker
            else
              match rightR with
              | .error e => .error e
              | .ok right =>
                match subscript left "img", subscript right "img", subscript right "disp" with
                | .ok limg, .ok rimg, .ok rdisp =>
                  match checkDisparitiesFromInput files ldisp limg with
                  | .error e => .error e
                  | .ok () =>
                    match checkDisparitiesFromInput files rdisp rimg with
                    | .error e => .error e
                    | .ok () =>
                      match checkImages files left right with
                      | .error e => .error e
                      | .ok () => .ok cfg
                | _, _, _ => .error .other

/-! ### check_conf -/

/-- `get_metadata(img, disp, classif, segm)` as far as the pipeline checks read it -/
def metadata (files : Files) (side : JVal) : ImgInfo :=
  match side with
  | .obj kvs =>
    let bands :=
      match Dict.lookup kvs "img" with
      | some (.str p) => match files p with
        | some fi => fi.bands
        | none => [none]
      | _ => [none]
    { bands := bands, dispSource := (Dict.lookup kvs "disp").getD .null }
  | _ => {}

/-- `check_conf(user_cfg, pandora_machine)` → checked configuration and the machine afterwards -/
def checkConf (files : Files) (sch : InputSchemas) (fl : MachineFlags) (reg : List KindDesc) (user : Dict)
    (m : CState) : Except Err (Dict × CState) :=
  match checkInputSection files fl sch (getConfigInput user) with
  | .error e => .error e
  | .ok cfgInput =>
    let input := (Dict.lookup cfgInput "input").getD .null
    let left := match subscript input "left" with | .ok v => v | .error _ => .null
    let right := match subscript input "right" with | .ok v => v | .error _ => .null
    match checkPipelineSection (fileOracle files) fl reg (getConfigPipeline user)
        (metadata files left) (metadata files right) m with
    | .error e => .error e
    | .ok (cfgPipe, m') =>
      -- concat_conf([cfg_input, cfg_pipeline])
      .ok (cfgPipe.foldl (fun acc kv => Dict.setKey acc kv.1 kv.2) cfgInput, m')

/-! ### check_dataset / check_datasets (C17) -/

/-- what the checks read of an `xarray.Dataset` -/
structure DsDesc where
  /-- data variables in order: name and shape -/
  vars : List (String × List Nat)
  /-- every sample of `im` is NaN -/
  imAllNan : Bool := false
  /-- the `band_im` coordinate when present: for each band name, "is a str" -/
  bandIm : Option (List Bool) := none
  /-- the `band_disp` coordinate of the `disparity` variable when it has one -/
  bandDisp : Option (List String) := none
  /-- some pixel has `min > max` -/
  dispMinGtMax : Bool := false
  attrs : List String
  deriving Repr, Inhabited

def lastTwo (shape : List Nat) : List Nat := shape.drop (shape.length - 2)

def DsDesc.shapeOf (d : DsDesc) (name : String) : Option (List Nat) :=
  (d.vars.find? (fun v => v.1 == name)).map (·.2)

def mandatoryAttrs : List String := ["no_data_img", "valid_pixels", "no_data_mask", "crs", "transform"]

/-- the tests `check_dataset` makes, as booleans -/
structure DsFeatures where
  /-- `"im" in dataset` -/
  hasIm : Bool
  /-- no `band_im` coordinate, or every band name is a `str` -/
  bandNamesStr : Bool
  /-- `np.isnan(dataset["im"].data).all()` -/
  allNan : Bool
  /-- `"disparity" in dataset` -/
  hasDisp : Bool
  /-- the disparity has a `band_disp` coordinate containing "min" and "max" -/
  dispBands : Bool
  /-- some pixel has min > max -/
  minGtMax : Bool
  /-- every data variable other than `im` has the last two dimensions of `im` -/
  sameGrid : Bool
  /-- the five mandatory attributes are present -/
  attrs : Bool
  deriving Repr, DecidableEq, Inhabited

def DsDesc.features (d : DsDesc) : DsFeatures :=
  { hasIm := (d.shapeOf "im").isSome
    bandNamesStr := match d.bandIm with | none => true | some bs => bs.all id
    allNan := d.imAllNan
    hasDisp := (d.shapeOf "disparity").isSome
    dispBands := match d.bandDisp with | none => false | some bs => bs.contains "min" && bs.contains "max"
    minGtMax := d.dispMinGtMax
    sameGrid := match d.shapeOf "im" with
      | none => false
      | some s => d.vars.all (fun v => v.1 == "im" || lastTwo v.2 == lastTwo s)
    attrs := mandatoryAttrs.all (fun a => d.attrs.contains a) }

/-- `check_dataset(dataset)`: the tests in the order of the code, each with its exception class
    (`AttributeError` for a missing image / disparity band / attribute and for min > max,
    `TypeError` for band names, `ValueError` for an all-NaN image and a shape mismatch) -/
def checkFeatures (f : DsFeatures) : Except Err Unit :=
  if !f.hasIm then .error .attr
  else if !f.bandNamesStr then .error .type
  else if f.allNan then .error .value
  else if f.hasDisp && !f.dispBands then .error .attr
  else if f.hasDisp && f.minGtMax then .error .attr
  else if !f.sameGrid then .error .value
  else if !f.attrs then .error .attr
  else .ok ()

def checkDataset (d : DsDesc) : Except Err Unit := checkFeatures d.features

/-- `check_datasets(left, right)` -/
def checkDatasets (l r : DsDesc) : Except Err Unit :=
  match checkDataset l with
  | .error e => .error e
  | .ok () =>
    match checkDataset r with
    | .error e => .error e
    | .ok () =>
      if !l.features.hasDisp then .error .attr
      else if ((l.shapeOf "im").map lastTwo) != ((r.shapeOf "im").map lastTwo) then .error .attr
      else .ok ()

end Pandora.Config
