/-
  C17 — the *specification* side (core Lean only, executable), written from the property statement
  and `docs/source/userguide/input.rst`:

  * `datasetsWellFormed`: when a left/right dataset pair is well-formed;
  * `inputVerdict`: the documented forms of the `input` section (three-valued, as in C05: Python's
    `bool ⊂ int` is undecided).

  Every requirement has a sub-identifier (DESIGN.md §15) so that a failure names the requirement.
-/
import PandoraModel.Model.ConfigSpec

namespace Pandora.InputSpec
open Pandora Pandora.Config Pandora.ConfigSpec

/-! ### Datasets -/

/-- the requirements on one dataset, by sub-identifier -/
def datasetClauses (isLeft : Bool) (d : DsDesc) : List (String × Bool) :=
  let f := d.features
  [ ("has_im", f.hasIm),
    ("not_all_nan", !f.allNan),
    ("band_names_str", f.bandNamesStr),
    ("same_grid", f.sameGrid),
    ("attrs", f.attrs),
    ("left_disparity", !isLeft || f.hasDisp),
    ("disp_bands", !f.hasDisp || f.dispBands),
    ("min_le_max", !f.hasDisp || !f.minGtMax) ]

/-- both images have the same number of rows and columns -/
def sameSize (l r : DsDesc) : Bool :=
  match l.shapeOf "im", r.shapeOf "im" with
  | some a, some b => lastTwo a == lastTwo b
  | _, _ => false

def pairClauses (l r : DsDesc) : List (String × Bool) :=
  (datasetClauses true l).map (fun c => ("left." ++ c.1, c.2)) ++
  (datasetClauses false r).map (fun c => ("right." ++ c.1, c.2)) ++
  [("same_size", sameSize l r)]

/-- a left/right pair is well-formed -/
def datasetsWellFormed (l r : DsDesc) : Bool := (pairClauses l r).all (·.2)

def failingClauses (cs : List (String × Bool)) : List String := (cs.filter (fun c => !c.2)).map (·.1)

/-! ### Input section -/

def sideKeys : List String := ["img", "nodata", "disp", "mask", "classif", "segm"]

def fileOf (files : Files) (v : JVal) : Option FileInfo :=
  match v with
  | .str p => files p
  | _ => none

/-- nodata: an integer or NaN (absent ⇒ default −9999) -/
def nodataVerdict : Option JVal → Dom
  | none => .accept
  | some (.int _) => .accept
  | some (.float .nan) => .accept
  | some (.bool _) => .undecided
  | some _ => .reject

/-- mask / classif / segm: absent, None, or a readable image of the size of `im` -/
def auxVerdict (files : Files) (im : Option FileInfo) : Option JVal → Dom
  | none => .accept
  | some .null => .accept
  | some (.str p) =>
    match files p, im with
    | some a, some i => ofBool (a.width == i.width && a.height == i.height)
    | _, _ => .reject
  | some _ => .reject

/-- a disparity grid: readable, two bands, the size of the image, min ≤ max everywhere -/
def gridOk (files : Files) (im : Option FileInfo) (p : String) : Bool :=
  match files p, im with
  | some g, some i => g.count == 2 && g.width == i.width && g.height == i.height && !g.minGtMax
  | _, _ => false

/-- left disparity: `[min, max]` with two integers, min ≤ max, or a grid -/
def leftDispVerdict (files : Files) (im : Option FileInfo) : Option JVal → Dom
  | some (.list [.int a, .int b]) => ofBool (decide (a ≤ b))
  | some (.list [a, b]) =>
    -- two elements, one of them a bool: undecided when they are numbers in order
    match intOf? a, intOf? b with
    | some x, some y => if x ≤ y then .undecided else .reject
    | _, _ => .reject
  | some (.str p) => ofBool (gridOk files im p)
  | _ => .reject

/-- right disparity: absent/None, or a grid when the left one is a grid -/
def rightDispVerdict (files : Files) (im : Option FileInfo) (leftIsGrid : Bool) : Option JVal → Dom
  | none => .accept
  | some .null => .accept
  | some (.str p) => ofBool (leftIsGrid && gridOk files im p)
  | some _ => .reject

def sideClauses (files : Files) (side : String) (cfg : Dict) (leftIsGrid : Bool) : List (String × Dom) :=
  let im := match Dict.lookup cfg "img" with | some v => fileOf files v | none => none
  let get (k : String) := (Dict.lookup cfg k).map rewriteLeaf
  [ (side ++ ".keys", ofBool (cfg.all (fun kv => sideKeys.contains kv.1))),
    (side ++ ".img", ofBool im.isSome),
    (side ++ ".nodata", nodataVerdict (get "nodata")),
    (side ++ ".mask", auxVerdict files im (get "mask")),
    (side ++ ".classif", auxVerdict files im (get "classif")),
    (side ++ ".segm", auxVerdict files im (get "segm")),
    (side ++ ".disp", if side == "left" then leftDispVerdict files im (get "disp")
                      else rightDispVerdict files im leftIsGrid (get "disp")) ]

/-- the documented forms of the `input` section, requirement by requirement; `input` is the value
    of the user's `"input"` key (`none` when the key is absent) -/
def inputClauses (files : Files) (input : Option JVal) : List (String × Dom) :=
  match input with
  | some (.obj kvs) =>
    match Dict.lookup kvs "left", Dict.lookup kvs "right" with
    | some (.obj l), some (.obj r) =>
      let leftIsGrid := match Dict.lookup l "disp" with | some (.str _) => true | _ => false
      let li := match Dict.lookup l "img" with | some v => fileOf files v | none => none
      let ri := match Dict.lookup r "img" with | some v => fileOf files v | none => none
      [("sections", ofBool (kvs.all (fun kv => kv.1 == "left" || kv.1 == "right")))] ++
      sideClauses files "left" l leftIsGrid ++ sideClauses files "right" r leftIsGrid ++
      [("same_size", match li, ri with
                     | some a, some b => ofBool (a.width == b.width && a.height == b.height)
                     | _, _ => .reject)]
    | _, _ => [("sections", .reject)]
  | _ => [("sections", .reject)]

def inputVerdict (files : Files) (input : Option JVal) : Dom :=
  (inputClauses files input).foldl (fun acc c => Dom.and acc c.2) .accept

def rejectingClauses (cs : List (String × Dom)) : List String :=
  (cs.filter (fun c => c.2 == Dom.reject)).map (·.1)

end Pandora.InputSpec
