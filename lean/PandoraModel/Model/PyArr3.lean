/-
  Support of `Generated/KernelsWta.lean` (written by `translator/gen_kernels_wta.py` on top of `translator/pyarr.py`):
  3-D float arrays (cost volumes) in a `Store (List Fl)` — one cost row per pixel, cells NaN / ±inf / exact rationals —
  next to the 2-D maps of `Model/PyArr.lean`.  Core Lean only.

  `np.argmin` / `np.argmax` along the last axis follow numpy: the first NaN when the row holds one (NaN propagates),
  else the first occurrence of the extremum.  Since the maps live in another store than the cost volume, the block loops
  of `argmin_split` / `argmax_split` cannot alias and are `Blocks.blocked` directly.
-/
import PandoraModel.Model.PyArr
import PandoraModel.Model.PyLoops
import PandoraModel.Model.Wta

namespace Pandora.PyArr
open Pandora Pandora.PyLoops

abbrev Mask3 := Nat → Nat → List Bool

/-- element-wise predicate of a 3-D content -/
def mask3Of (p : Fl → Bool) (a : Arr (List Fl)) : Mask3 := fun r c => (a r c).map p

/-- `a[mask3] = v` -/
def Store.maskFill3 (s : Store (List Fl)) (k : Nat) (m : Mask3) (v : Fl) : Store (List Fl) :=
  s.set k (fun r c => List.zipWith (fun b x => if b then v else x) (m r c) (s.arr k r c))

/-- `np.min(mask3, axis=2)` / `np.all(mask3, axis=2)` -/
def all3 (m : Mask3) : Mask := fun r c => (m r c).all id

/-- `np.max(mask3, axis=2)` / `np.any(mask3, axis=2)` -/
def any3 (m : Mask3) : Mask := fun r c => (m r c).any id

def firstNan (l : List Fl) : Option Nat := l.findIdx? Fl.isNan

/-- `np.argmin(row)` -/
def argminFl (l : List Fl) : Nat :=
  match firstNan l with
  | some i => i
  | none => Wta.argFirst Fl.lt l

/-- `np.argmax(row)` -/
def argmaxFl (l : List Fl) : Nat :=
  match firstNan l with
  | some i => i
  | none => Wta.argFirst (fun a b => Fl.lt b a) l

/-- `coords["disp"].data[np.argmin(block, axis=2)]` as a per-pixel kernel of the content of the cost volume -/
def argKernel (isMax : Bool) (disps : List Rat) (a : Arr (List Fl)) : Nat → Nat → Val :=
  fun r c => .num (Wta.dispAt disps (if isMax then argmaxFl (a r c) else argminFl (a r c)))

/-- the dataset `to_disp` returns, as array identities in the four stores (cost volumes, maps, confidence bands,
    flags) together with the stores after the call; `disp_indices` is the map saved into the cost-volume dataset -/
structure DispDataset where
  cvs : Store (List Fl)
  maps : Store Val
  bands : Store (List Val)
  flags : Store Nat
  disparity_map : Nat
  disp_indices : Nat
  confidence_measure : Option Nat
  validity_mask : Nat

end Pandora.PyArr
