/-
  C11 — executable model of `pandora/aggregation/cbca.py` and executable specification of the property
  "cross-based aggregation averages costs over the combined support region".  Core Lean only.

  Conventions.  Arrays are index functions `row y → column x → cell`; sizes are explicit.  (In the source
  the names `col`/`row` are swapped: `n_col_` is the number of image rows. Here `y` is always the image
  row and `x` the image column.)  A float cell is `Val`; in `cross_support` the masked pixels have been
  replaced by `+inf` (`np.nan_to_num(nan=inf)`): the model keeps them as `Val.nan`, "finite" = `isNum`.

  Part A  model: `crossSupport` (four arm loops, "minimum 1" rule as coded, both variants of the
          rule), `nanmedian`/`median3`, masks and shifted right images, `step1 … step4`, `sum4`,
          NaN re-injection and division, the top-level `aggregate`.
  Part B  specification written from the property statement: `armRef`/`crossRef` (declarative arms),
          `region` (the combined support region as an explicit list of pixels), `specSum`/`specCount`,
          `specCell`.
-/
import PandoraModel.Model.Basic

namespace Pandora.Cbca

abbrev Img := Nat → Nat → Val

structure Arms where
  left : Nat
  right : Nat
  top : Nat
  bot : Nat
  deriving Repr, DecidableEq, Inhabited

/-! ## Part A — the model (follows the code) -/

def absR (q : Rat) : Rat := if q < 0 then -q else q

/-- `abs(image[p] - image[q]) >= intensity`; a non-finite operand (`+inf` in the code) gives `inf >= intensity`,
    which is true. -/
def jump (I : Rat) : Val → Val → Bool
  | .num a, .num b => decide (I ≤ absR (a - b))
  | _, _ => true

/-- One arm loop of `cross_support`.  `px k` is the pixel at offset `k` along the arm (`px 0` = the anchor).
    `fuel` = number of iterations the `range(...)` still allows, `k` = iterations done so far (= `left_len`,
    because every completed iteration increments it).  Returns `(arm length, offset of the last value taken
    by the loop variable)`; offset `0` = the loop never ran and the variable still holds the anchor. -/
def armLoop (I : Rat) (px : Nat → Val) : Nat → Nat → Nat × Nat
  | 0, k => (k, k)
  | fuel + 1, k => if jump I (px 0) (px (k + 1)) then (k, k + 1) else armLoop I px fuel (k + 1)

/-- The "minimum support" rule: which pixel `np.isfinite(...)` is applied to.
    `loopVar`  : the last value of the loop variable (the code at the time of writing);
    `neighbour`: the adjacent pixel (the proposed fix C11-min-arm). -/
inductive MinRule where
  | loopVar
  | neighbour
  deriving Repr, DecidableEq, Inhabited

/-- number of iterations of `range(row - 1, max(row - len_arms, -1), -1)` resp.
    `range(row + 1, min(row + len_arms, n))` when `room` pixels lie between the anchor and the border -/
def iters (dist room : Nat) : Nat := min (dist - 1) room

/-- one arm as coded: `max(len, 1 * (neighbour exists) * isfinite(image[...]))` -/
def armCoded (mr : MinRule) (I : Rat) (px : Nat → Val) (dist room : Nat) : Nat :=
  let r := armLoop I px (iters dist room) 0
  let probe := match mr with
    | .loopVar => px r.2
    | .neighbour => px 1
  max r.1 (if decide (1 ≤ room) && probe.isNum then 1 else 0)

/-- `cross_support(image, len_arms, intensity)` at pixel `(y, x)` of an `H × W` image -/
def crossSupport (mr : MinRule) (H W dist : Nat) (I : Rat) (img : Img) (y x : Nat) : Arms :=
  if (img y x).isNum then
    { left := armCoded mr I (fun k => img y (x - k)) dist x
      right := armCoded mr I (fun k => img y (x + k)) dist (W - 1 - x)
      top := armCoded mr I (fun k => img (y - k) x) dist y
      bot := armCoded mr I (fun k => img (y + k) x) dist (H - 1 - y) }
  else ⟨0, 0, 0, 0⟩

/-! ### 3×3 NaN-aware median (the pre-filter `AbstractFilter(median, 3).median_filter`) -/

def finites : List Val → List Rat
  | [] => []
  | .nan :: t => finites t
  | .num q :: t => q :: finites t

def insertSorted (a : Rat) : List Rat → List Rat
  | [] => [a]
  | b :: t => if a ≤ b then a :: b :: t else b :: insertSorted a t

def sortR : List Rat → List Rat
  | [] => []
  | a :: t => insertSorted a (sortR t)

/-- `np.nanmedian`: NaN of an all-NaN window, middle value, or mean of the two middle values -/
def nanmedian (l : List Val) : Val :=
  let s := sortR (finites l)
  let n := s.length
  if n = 0 then .nan
  else if n % 2 = 1 then .num (s.getD (n / 2) 0)
  else .num ((s.getD (n / 2 - 1) 0 + s.getD (n / 2) 0) / 2)

def window3 (g : Img) (y x : Nat) : List Val :=
  [g (y - 1) (x - 1), g (y - 1) x, g (y - 1) (x + 1),
   g y (x - 1), g y x, g y (x + 1),
   g (y + 1) (x - 1), g (y + 1) x, g (y + 1) (x + 1)]

/-- `median_filter` with `filter_size = 3`: interior pixels get the nanmedian of their window, the one-pixel
    border is copied, and `data_median[invalid] = nan` keeps NaN pixels NaN.  (The 100-pixel chunking of
    the implementation is the subject of C10 and is not repeated here.) -/
def median3 (H W : Nat) (g : Img) : Img := fun y x =>
  if (g y x).isNan then .nan
  else if 1 ≤ y ∧ y + 1 < H ∧ 1 ≤ x ∧ x + 1 < W then nanmedian (window3 g y x)
  else g y x

/-! ### masks, shifted right images, crop (`computes_cross_supports`) -/

/-- `left_masked[msk != valid_pixels] = nan` (only when the dataset has a mask) -/
def maskedImg (im : Nat → Nat → Rat) (hasMsk : Bool) (msk : Nat → Nat → Int) (validPx : Int) : Img :=
  fun y x => if hasMsk && msk y x != validPx then .nan else .num (im y x)

/-- the `k`-th shifted right image (`k/s` of a pixel, linear interpolation = scipy `zoom(order=1)` sampled at
    `x + k/s`) with the shifted mask: NaN when either of the two source columns is masked.  Width `W - 1`. -/
def shiftedImg (s k : Nat) (im : Nat → Nat → Rat) (hasMsk : Bool) (msk : Nat → Nat → Int) (validPx : Int) : Img :=
  fun y x =>
    if hasMsk && (msk y x != validPx || msk y (x + 1) != validPx) then .nan
    else .num ((1 - (k : Rat) / s) * im y x + (k : Rat) / s * im y (x + 1))

def crop (off : Nat) (g : Img) : Img := fun y x => g (y + off) (x + off)

/-! ### steps 1–4 for one disparity plane -/

/-- everything `cbca_step_1 … 4` see for one disparity -/
structure Plane where
  H : Nat
  W : Nat
  cv : Nat → Nat → Val
  armsL : Nat → Nat → Arms
  armsR : Nat → Nat → Arms
  /-- number of columns of the (shifted) right cross-support array -/
  Wr : Nat
  /-- the disparity value -/
  d : Rat

/-- a cost with NaN replaced by nothing ("do not propagate nan") -/
def c0 (v : Val) : Rat := v.get 0

/-- `cbca_step_1`, one row: `step1[x] = step1[x-1] + (cv[x] unless NaN)`; at `x = 0` the index `-1` reads the
    extra, never written, zero column -/
def step1 (row : Nat → Val) : Nat → Rat
  | 0 => 0 + c0 (row 0)
  | k + 1 => step1 row k + c0 (row (k + 1))

/-- `step1[y, i]` with Python indexing into an array of `W + 1` columns whose last column stays `0` -/
def s1At (W : Nat) (row : Nat → Val) (i : Int) : Rat :=
  let k : Int := if i < 0 then i + (W + 1) else i
  if 0 ≤ k ∧ k < W then step1 row k.toNat else 0

/-- the column of the right cross support facing column `x`: `range_col + d`, kept where
    `0 <= . < Wr`, then `.astype(int)` -/
def rightCol (d : Rat) (Wr : Nat) (x : Nat) : Option Nat :=
  let c : Rat := (x : Rat) + d
  if 0 ≤ c ∧ c < (Wr : Rat) then some c.floor.toNat else none

/-- `min(cross_left[y, x, k], cross_right[y, x + d, k])` for the four arms; `none` where the loops of
    step 2 / step 4 do not go (no facing column) -/
def comb (P : Plane) (y x : Nat) : Option Arms :=
  match rightCol P.d P.Wr x with
  | none => none
  | some xr =>
    let a := P.armsL y x
    let b := P.armsR y xr
    some ⟨min a.left b.left, min a.right b.right, min a.top b.top, min a.bot b.bot⟩

/-- `cbca_step_2`: `step1[y, x + right] - step1[y, x - left - 1]`, zero where not visited -/
def step2 (P : Plane) (y x : Nat) : Rat :=
  match comb P y x with
  | none => 0
  | some a => s1At P.W (P.cv y) ((x : Int) + a.right) - s1At P.W (P.cv y) ((x : Int) - a.left - 1)

/-- `sum_step2[y, x] += right + left` -/
def sum2 (P : Plane) (y x : Nat) : Nat :=
  match comb P y x with
  | none => 0
  | some a => a.right + a.left

/-- `cbca_step_3`, one column: cumulative sum of step 2 down the rows -/
def step3 (P : Plane) (x : Nat) : Nat → Rat
  | 0 => step2 P 0 x
  | y + 1 => step3 P x y + step2 P (y + 1) x

/-- `step3[i, x]` with Python indexing into `H + 1` rows whose last row stays `0` -/
def s3At (P : Plane) (x : Nat) (i : Int) : Rat :=
  let k : Int := if i < 0 then i + (P.H + 1) else i
  if 0 ≤ k ∧ k < P.H then step3 P x k.toNat else 0

/-- `Σ_{i < n} f (a + i)` — `np.sum` of a slice `[a : a + n]` -/
def sumRangeN (f : Nat → Nat) (a : Nat) : Nat → Nat
  | 0 => 0
  | n + 1 => sumRangeN f a n + f (a + n)

/-- `cbca_step_4`: `step3[y + bot, x] - step3[y - top - 1, x]` -/
def step4 (P : Plane) (y x : Nat) : Rat :=
  match comb P y x with
  | none => 0
  | some a => s3At P x ((y : Int) + a.bot) - s3At P x ((y : Int) - a.top - 1)

/-- `sum4` after `sum4 += 1`: `sum2 + top + bot + np.sum(sum2[y-top : y, x]) + np.sum(sum2[y+1 : y+bot+1, x]) + 1` -/
def sum4 (P : Plane) (y x : Nat) : Nat :=
  (match comb P y x with
   | none => sum2 P y x
   | some a =>
     sum2 P y x + (a.top + a.bot)
       + (if a.top ≠ 0 then sumRangeN (fun y' => sum2 P y' x) (y - a.top) a.top else 0)
       + (if a.bot ≠ 0 then sumRangeN (fun y' => sum2 P y' x) (y + 1) a.bot else 0))
  + 1

/-- float division: `x / 0` is not a number we want to hide -/
def fdiv (s : Rat) (n : Nat) : Val := if n = 0 then .nan else .num (s / n)

/-- `agg += cv; agg *= 0` (NaN where the cost is NaN, else 0), `+= step4`, `/= sum4` -/
def aggOut (P : Plane) (y x : Nat) : Val :=
  match P.cv y x with
  | .nan => .nan
  | .num _ => fdiv (0 + step4 P y x) (sum4 P y x)

/-! ### the whole aggregation step -/

structure Input where
  /-- image size -/
  H : Nat
  W : Nat
  /-- `cv.attrs["offset_row_col"]` -/
  off : Nat
  imL : Nat → Nat → Rat
  hasMskL : Bool
  mskL : Nat → Nat → Int
  validL : Int
  imR : Nat → Nat → Rat
  hasMskR : Bool
  mskR : Nat → Nat → Int
  validR : Int
  dist : Nat
  I : Rat
  subpix : Nat
  /-- `cv.coords["disp"]` -/
  disp : Nat → Rat
  cv : Nat → Nat → Nat → Val
  mr : MinRule

/-- `int((d % 1) * subpixel)` -/
def iRight (subpix : Nat) (d : Rat) : Nat := (((d - (d.floor : Rat)) * subpix).floor).toNat

/-- size of the area the aggregation works on -/
def Input.h (inp : Input) : Nat := inp.H - 2 * inp.off
def Input.w (inp : Input) : Nat := inp.W - 2 * inp.off
/-- width of the cropped cross support of the `k`-th shifted right image -/
def Input.wr (inp : Input) (k : Nat) : Nat := (if k = 0 then inp.W else inp.W - 1) - 2 * inp.off

/-- the median-filtered, masked left image (full size) -/
def Input.filteredL (inp : Input) : Img :=
  median3 inp.H inp.W (maskedImg inp.imL inp.hasMskL inp.mskL inp.validL)

/-- the median-filtered, masked `k`-th shifted right image (full size; width `W` for `k = 0`, else `W - 1`) -/
def Input.filteredR (inp : Input) (k : Nat) : Img :=
  if k = 0 then median3 inp.H inp.W (maskedImg inp.imR inp.hasMskR inp.mskR inp.validR)
  else median3 inp.H (inp.W - 1) (shiftedImg inp.subpix k inp.imR inp.hasMskR inp.mskR inp.validR)

def Input.crossL (inp : Input) : Nat → Nat → Arms :=
  crossSupport inp.mr inp.h inp.w inp.dist inp.I (crop inp.off inp.filteredL)

def Input.crossR (inp : Input) (k : Nat) : Nat → Nat → Arms :=
  crossSupport inp.mr inp.h (inp.wr k) inp.dist inp.I (crop inp.off (inp.filteredR k))

/-- the plane handed to steps 1–4 for disparity index `dsp`, given the cross supports -/
def Input.planeWith (inp : Input) (armsL : Nat → Nat → Arms) (armsR : Nat → Nat → Nat → Arms) (dsp : Nat) : Plane :=
  let k := iRight inp.subpix (inp.disp dsp)
  { H := inp.h, W := inp.w
    cv := fun y x => inp.cv (y + inp.off) (x + inp.off) dsp
    armsL := armsL
    armsR := armsR k
    Wr := inp.wr k
    d := inp.disp dsp }

def Input.plane (inp : Input) (dsp : Nat) : Plane := inp.planeWith inp.crossL inp.crossR dsp

def inArea (inp : Input) (y x : Nat) : Bool :=
  decide (inp.off ≤ y ∧ y < inp.off + inp.h ∧ inp.off ≤ x ∧ x < inp.off + inp.w)

/-- the cost volume after `cost_volume_aggregation`: the inner area (the whole volume when `offset = 0`)
    is replaced by the aggregated costs, the margin is left as it was -/
def aggregateWith (inp : Input) (armsL : Nat → Nat → Arms) (armsR : Nat → Nat → Nat → Arms) (y x dsp : Nat) : Val :=
  if inArea inp y x then aggOut (inp.planeWith armsL armsR dsp) (y - inp.off) (x - inp.off)
  else inp.cv y x dsp

def aggregate (inp : Input) (y x dsp : Nat) : Val := aggregateWith inp inp.crossL inp.crossR y x dsp

/-- `cv.attrs["cmax"]` after the step: `cmax * (2 * cbca_distance - 1) ^ 2`.  An arm is shorter than `cbca_distance`
    (`armStopDistance`), so for `cbca_distance >= 2` a combined support region has at most `(2 * (dist - 1) + 1) ^ 2` pixels: the
    attribute bounds the SUM over a region.  It is metadata of the cost volume, not a clause of C11 (the aggregated cost is the
    mean); the model carries the formula so that the source's update is tied to it (`cmaxUpdate_generated_eq`). -/
def cmaxAfter (cmax : Rat) (dist : Nat) : Rat :=
  cmax * (((2 * (dist : Int) - 1) * (2 * (dist : Int) - 1) : Int) : Rat)


/-! ## Part B — the specification (written from the property statement) -/

/-- number of leading offsets `1 … n` without an intensity jump (a masked pixel counts as a jump) -/
def runLen (I : Rat) (px : Nat → Val) (n : Nat) : Nat :=
  ((List.range n).takeWhile (fun j => !jump I (px 0) (px (j + 1)))).length

/-- Declarative arm.  A masked anchor has no arm.  Otherwise the arm runs over the neighbouring pixels while
    they are inside the image (`room`), closer than `cbca_distance`, not masked and without an intensity
    jump `>= cbca_intensity`; a one-pixel minimum applies when the adjacent pixel exists and is not masked. -/
def armRef (I : Rat) (px : Nat → Val) (dist room : Nat) : Nat :=
  if (px 0).isNum then
    max (runLen I px (min (dist - 1) room)) (if decide (1 ≤ room) && (px 1).isNum then 1 else 0)
  else 0

def crossRef (H W dist : Nat) (I : Rat) (img : Img) (y x : Nat) : Arms :=
  { left := armRef I (fun k => img y (x - k)) dist x
    right := armRef I (fun k => img y (x + k)) dist (W - 1 - x)
    top := armRef I (fun k => img (y - k) x) dist y
    bot := armRef I (fun k => img (y + k) x) dist (H - 1 - y) }

/-- property-level reading of one arm length `L` (used to name the sub-clause that fails):
    `stop_masked`    every pixel of the arm is inside the image and not masked, a masked anchor has no arm;
    `stop_distance`  `L < cbca_distance` (or `L = 1`, the minimum);
    `stop_intensity` an arm longer than the minimum contains no jump;
    `min_one`        the arm is at least one pixel when the adjacent pixel exists and is not masked;
    `maximal`        the arm does not stop earlier than those rules say. -/
def armStopMasked (px : Nat → Val) (room L : Nat) : Bool :=
  (decide (L ≤ room)) && (if (px 0).isNum then (List.range L).all (fun j => (px (j + 1)).isNum) else L == 0)

def armStopDistance (dist L : Nat) : Bool := decide (L ≤ max (dist - 1) 1)

def armStopIntensity (I : Rat) (px : Nat → Val) (L : Nat) : Bool :=
  decide (L ≤ 1) || (List.range L).all (fun j => !jump I (px 0) (px (j + 1)))

def armMinOne (px : Nat → Val) (room L : Nat) : Bool :=
  !((px 0).isNum && decide (1 ≤ room) && (px 1).isNum) || decide (1 ≤ L)

def armMaximal (I : Rat) (px : Nat → Val) (dist room L : Nat) : Bool :=
  !(px 0).isNum || !(decide (L < min (dist - 1) room)) ||
    (if L = 0 then jump I (px 0) (px 1)
     else if L = 1 then jump I (px 0) (px 1) || jump I (px 0) (px 2)
     else jump I (px 0) (px (L + 1)))

def armOk (I : Rat) (px : Nat → Val) (dist room L : Nat) : Bool :=
  armStopMasked px room L && armStopDistance dist L && armStopIntensity I px L && armMinOne px room L
    && armMaximal I px dist room L

/-- The combined support region of `(y, x)`: the vertical arm `y - top … y + bot` in column `x`, and for every
    pixel `(y', x)` of it the horizontal arm `x - l y' … x + r y'`. -/
def region (top bot : Nat) (l r : Nat → Nat) (y x : Nat) : List (Nat × Nat) :=
  (List.range (top + bot + 1)).flatMap fun i =>
    (List.range (l (y - top + i) + r (y - top + i) + 1)).map fun j => (y - top + i, x - l (y - top + i) + j)

def hLeft (P : Plane) (x y' : Nat) : Nat := match comb P y' x with | none => 0 | some a => a.left
def hRight (P : Plane) (x y' : Nat) : Nat := match comb P y' x with | none => 0 | some a => a.right

/-- the region of pixel `(y, x)` at the plane's disparity; without a facing right column there is no right
    arm and the region is the pixel alone -/
def regionOf (P : Plane) (y x : Nat) : List (Nat × Nat) :=
  match comb P y x with
  | none => [(y, x)]
  | some a => region a.top a.bot (hLeft P x) (hRight P x) y x

/-- sum of the computable (non-NaN) input costs over the region -/
def specSum (P : Plane) (y x : Nat) : Rat := ((regionOf P y x).map (fun q => c0 (P.cv q.1 q.2))).sum

/-- number of pixels of the region -/
def specCount (P : Plane) (y x : Nat) : Nat := (regionOf P y x).length

def valEq : Val → Val → Bool
  | .nan, .nan => true
  | .num a, .num b => decide (a = b)
  | _, _ => false

/-- the property at one cell: NaN stays NaN; any other cost becomes `specSum / specCount` (in particular not NaN) -/
def specCell (P : Plane) (y x : Nat) (out : Val) : Bool :=
  match P.cv y x with
  | .nan => out.isNan
  | .num _ => valEq out (.num (specSum P y x / specCount P y x))

/-- every left arm stays inside the `H × W` area (decidable, bounded) -/
def armsInImage (H W : Nat) (arms : Nat → Nat → Arms) : Bool :=
  (List.range H).all fun y => (List.range W).all fun x =>
    let a := arms y x
    decide (a.left ≤ x) && decide (x + a.right < W) && decide (a.top ≤ y) && decide (y + a.bot < H)

/-- costs are NaN where the disparity has no facing right column (what the matching-cost step produces) -/
def nanOutside (P : Plane) : Bool :=
  (List.range P.H).all fun y => (List.range P.W).all fun x =>
    (rightCol P.d P.Wr x).isSome || (P.cv y x).isNan

/-- the cross supports of the specification: declarative arms on the masked, median-filtered images -/
def Input.crossLRef (inp : Input) : Nat → Nat → Arms :=
  crossRef inp.h inp.w inp.dist inp.I (crop inp.off inp.filteredL)

def Input.crossRRef (inp : Input) (k : Nat) : Nat → Nat → Arms :=
  crossRef inp.h (inp.wr k) inp.dist inp.I (crop inp.off (inp.filteredR k))

/-- the plane of the specification for disparity index `dsp`: same costs, declarative arms -/
def Input.planeRef (inp : Input) (dsp : Nat) : Plane := inp.planeWith inp.crossLRef inp.crossRRef dsp

/-- the property for the whole step at cell `(y, x, dsp)` of the cost volume: inside the aggregated area the
    cell satisfies `specCell` for the region built from the declarative arms; the margin is untouched -/
def specAt (inp : Input) (y x dsp : Nat) (out : Val) : Bool :=
  if inArea inp y x then specCell (inp.planeRef dsp) (y - inp.off) (x - inp.off) out
  else valEq out (inp.cv y x dsp)

end Pandora.Cbca
