/-
  Run-time support of the definitions written by `translator/pyloops.py` (`Generated/KernelsCbca.lean`):
  statement-level translation of numba kernels WITH LOOPS (T14).  Extends `Model/PyExpr.lean` (T12).

  What the generated text uses beyond T12:

  * `Fl`     a float cell that may also be `+inf` / `-inf` (the masked pixels of `cross_support` are `+inf`:
             `np.nan_to_num(nan=np.inf)`).  Exact rationals, no rounding; IEEE rules for the infinities and NaN:
             `inf - inf = nan`, `0 * inf = nan`, every comparison with NaN false except `!=`.
  * arrays   total index functions `Int → Int → α` read through `get1/get2/get3` WITH THE SHAPE: a negative index
             wraps around once (`a[-1]` is the last cell: Python / numba `wraparound`), as in the source.  numba does
             not check bounds: an index outside `[-n, n)` reads foreign memory.  The generated code therefore tests every
             read (`inb`), and returns `Res.outOfBounds` when a read was outside the array; the equality theorems show
             `Res.ok …`, i.e. that no such read happens.
  * loops    `for v in range(a, b, s)`: `forRange a b s body st` runs `body i st` for `i = a, a+s, …` (`rangeLen a b s`
             times: Python's `len(range(a, b, s))`), threading the tuple `st` of loop-carried locals; `body` returns
             `(true, st')` on `break`.  Structural recursion on the iteration count — no fuel, nothing partial.
             Python's rule "the loop variable keeps its last value after the loop" is obtained by making the loop
             variable a component of `st` when it is read after the loop.
  * `b2i`    a `bool` used in integer arithmetic (`1 * (row >= 1) * np.isfinite(x)`): `True` is 1, `False` is 0.

  Core Lean only.
-/
import PandoraModel.Model.PyExpr

namespace Pandora.PyLoops
open Pandora

/-- what a translated kernel returns: its value, or "a read outside an array happened" (undefined behaviour in numba) -/
inductive Res (α : Type) where
  | ok : α → Res α
  | outOfBounds : Res α
  deriving DecidableEq, Repr

/-- Python `bool` in arithmetic -/
def b2i (b : Bool) : Int := if b then 1 else 0

/-! ### floats with infinities -/

inductive Fl where
  | nan : Fl
  | pinf : Fl
  | ninf : Fl
  | fin : Rat → Fl
  deriving DecidableEq, Repr, Inhabited

namespace Fl

/-- a `Val` (NaN or number) as a float -/
def ofVal : Val → Fl
  | .nan => nan
  | .num q => fin q

/-- the reading `cross_support` is called with: masked pixels (`Val.nan` in `Model/Cbca.lean`) are `+inf` -/
def ofMasked : Val → Fl
  | .nan => pinf
  | .num q => fin q

def isFinite : Fl → Bool
  | fin _ => true
  | _ => false

def isNan : Fl → Bool
  | nan => true
  | _ => false

def neg : Fl → Fl
  | nan => nan
  | pinf => ninf
  | ninf => pinf
  | fin q => fin (-q)

def abs : Fl → Fl
  | nan => nan
  | pinf => pinf
  | ninf => pinf
  | fin q => fin (PyExpr.rabs q)

def add : Fl → Fl → Fl
  | fin a, fin b => fin (a + b)
  | nan, _ => nan
  | _, nan => nan
  | pinf, ninf => nan
  | ninf, pinf => nan
  | pinf, _ => pinf
  | _, pinf => pinf
  | ninf, _ => ninf
  | _, ninf => ninf

def sub (a b : Fl) : Fl := add a (neg b)

/-- `±inf * q` -/
def infMul (positive : Bool) (q : Rat) : Fl :=
  if q = 0 then nan else if decide (0 < q) = positive then pinf else ninf

def mul : Fl → Fl → Fl
  | fin a, fin b => fin (a * b)
  | nan, _ => nan
  | _, nan => nan
  | pinf, pinf => pinf
  | ninf, ninf => pinf
  | pinf, ninf => ninf
  | ninf, pinf => ninf
  | pinf, fin q => infMul true q
  | fin q, pinf => infMul true q
  | ninf, fin q => infMul false q
  | fin q, ninf => infMul false q

def lt : Fl → Fl → Bool
  | fin a, fin b => decide (a < b)
  | nan, _ => false
  | _, nan => false
  | _, ninf => false
  | ninf, _ => true
  | pinf, _ => false
  | _, pinf => true

def eq : Fl → Fl → Bool
  | fin a, fin b => decide (a = b)
  | pinf, pinf => true
  | ninf, ninf => true
  | _, _ => false

def le (a b : Fl) : Bool := lt a b || eq a b
def ne (a b : Fl) : Bool := !eq a b

/-- Python / numba `max(a, b)`: `b if b > a else a` -/
def max (a b : Fl) : Fl := if lt a b then b else a
def min (a b : Fl) : Fl := if lt b a then b else a

end Fl

/-! ### arrays: index functions read with their shape -/

/-- Python / numba index normalisation: a negative index counts from the end (once) -/
def wrap (n i : Int) : Int := if i < 0 then i + n else i

/-- the (wrapped) index is inside an axis of length `n` -/
def inb (n i : Int) : Bool := decide (0 ≤ wrap n i) && decide (wrap n i < n)

def get1 {α : Type} (a : Int → α) (n0 : Int) (i : Int) : α := a (wrap n0 i)
def get2 {α : Type} (a : Int → Int → α) (n0 n1 : Int) (i j : Int) : α := a (wrap n0 i) (wrap n1 j)
def get3 {α : Type} (a : Int → Int → Int → α) (n0 n1 n2 : Int) (i j k : Int) : α :=
  a (wrap n0 i) (wrap n1 j) (wrap n2 k)

def inb1 (n0 i : Int) : Bool := inb n0 i
def inb2 (n0 n1 i j : Int) : Bool := inb n0 i && inb n1 j
def inb3 (n0 n1 n2 i j k : Int) : Bool := inb n0 i && inb n1 j && inb n2 k

/-- a literal table as an index function (used by the generated `example`s) -/
def tab1 {α : Type} (d : α) (t : List α) (i : Int) : α := t.getD i.toNat d
def tab2 {α : Type} (d : α) (t : List (List α)) (i j : Int) : α := (t.getD i.toNat []).getD j.toNat d
def tab3 {α : Type} (d : α) (t : List (List (List α))) (i j k : Int) : α :=
  ((t.getD i.toNat []).getD j.toNat []).getD k.toNat d

/-! ### `for v in range(a, b, s)` -/

/-- `len(range(a, b, s))` for a literal step `s ≠ 0` (0 for `s = 0`, which the translator refuses) -/
def rangeLen (a b s : Int) : Nat :=
  if 0 < s then ((b - a + s - 1) / s).toNat
  else if s < 0 then ((a - b + (-s) - 1) / (-s)).toNat
  else 0

/-- `n` iterations from `i` with step `s`; `body i st = (break?, st')` -/
def forLoop {σ : Type} (body : Int → σ → Bool × σ) (s : Int) : Nat → Int → σ → σ
  | 0, _, st => st
  | n + 1, i, st =>
    let r := body i st
    if r.1 then r.2 else forLoop body s n (i + s) r.2

def forRange {σ : Type} (a b s : Int) (body : Int → σ → Bool × σ) (st : σ) : σ :=
  forLoop body s (rangeLen a b s) a st

end Pandora.PyLoops
