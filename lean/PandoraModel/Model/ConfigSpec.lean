/-
  C05 — the *specification* side (core Lean only, executable): what the property statement and the
  user guide (`docs/source/userguide/step_by_step/*.rst`) say about every parameter of every
  built-in method.  Written by hand; nothing here is derived from the source code.

  A documented domain is three-valued (`Dom`):
    `accept`     the statement / guide say the value is legal    → the check must accept it
    `reject`     they say it is not (out of range, wrong type)   → the check must refuse it
    `undecided`  the documentation is silent or contradicts itself or the code on a point the
                 property statement does not name (DESIGN.md §9 F15/F16, Python's `bool ⊂ int`):
                 reported in the evidence, not part of the verdict.
-/
import PandoraModel.Model.Config

namespace Pandora.ConfigSpec
open Pandora Pandora.Config

inductive Dom where
  | accept | reject | undecided
  deriving Repr, DecidableEq, Inhabited

def Dom.name : Dom → String
  | .accept => "accept" | .reject => "reject" | .undecided => "undecided"

/-- the shapes of documented domains -/
inductive DomKind where
  /-- int, ≥ 1 and odd (window_size of sad/ssd/zncc, filter_size) -/
  | oddPositiveInt
  /-- census window: 3 or 5 -/
  | census35
  /-- subpix: 1, 2, 4 (guide); the statement only rejects "not 1 or even": even ≥ 6 is undecided -/
  | subpix
  /-- float, > 0 (cbca_intensity, sigma_color, sigma_space); an int is the wrong type; the guide
      says nothing of +inf (an infinite sigma_space overflows the margin computation): undecided -/
  | positiveFloat
  /-- int, > 0 (cbca_distance) -/
  | positiveInt
  /-- int, ≥ n (num_scales, scale_factor ≥ 2; marge, vertical_depth ≥ 0) -/
  | intGe (n : Int)
  /-- eta_max, eta_step: float; ≤ 0 refused (statement); inside (0,1) accepted; ≥ 1: guide says
      "> 0", code refuses — undecided -/
  | etaFloat
  /-- float in [0, 1] (possibility_threshold, quantile_regularization) -/
  | unitClosedFloat
  /-- ambiguity_threshold: guide "> 0 and < 1", code `0 ≤ x ≤ 1`: the endpoints are undecided -/
  | ambiguityThreshold
  /-- ambiguity_kernel_size: guide "≥ 0", code "odd and > 0": 0 and positive even are undecided -/
  | kernelSize
  /-- int or float (cross_checking_threshold) -/
  | number
  /-- int, float, NaN (invalid_disparity; the string "NaN" has been rewritten before) -/
  | numberOrNaN
  | anyStr
  | anyBool
  /-- a band name or None (band) -/
  | strOrNone
  /-- step: only 1 -/
  | stepOne
  /-- interpolated_disparity: "sgm"; the guide writes "mc_cnn", the code "mc-cnn": both undecided -/
  | interpolation
  deriving Repr, DecidableEq, Inhabited

def fPos : FVal → Bool
  | .pinf => true
  | .num q => decide (0 < q)
  | _ => false

/-- `0 < f < 1` -/
def fUnitOpen : FVal → Bool
  | .num q => decide (0 < q) && decide (q < 1)
  | _ => false

/-- `0 ≤ f ≤ 1` -/
def fUnitClosed : FVal → Bool
  | .num q => decide (0 ≤ q) && decide (q ≤ 1)
  | _ => false

/-- `1 ≤ f` (including +inf) -/
def fGeOne : FVal → Bool
  | .pinf => true
  | .num q => decide (1 ≤ q)
  | _ => false

def ofBool (b : Bool) : Dom := if b then .accept else .reject

def DomKind.dom : DomKind → JVal → Dom
  | .oddPositiveInt, .int i => ofBool (decide (1 ≤ i) && decide (i % 2 = 1))
  | .oddPositiveInt, .bool _ => .undecided
  | .oddPositiveInt, _ => .reject
  | .census35, .int i => ofBool (decide (i = 3) || decide (i = 5))
  | .census35, .bool _ => .undecided
  | .census35, _ => .reject
  | .subpix, .int i =>
    if i = 1 || i = 2 || i = 4 then .accept
    else if decide (0 < i) && decide (i % 2 = 0) then .undecided
    else .reject
  | .subpix, .bool _ => .undecided
  | .subpix, _ => .reject
  | .positiveFloat, .float f => if f = .pinf then .undecided else ofBool (fPos f)
  | .positiveFloat, _ => .reject
  | .positiveInt, .int i => ofBool (decide (0 < i))
  | .positiveInt, .bool _ => .undecided
  | .positiveInt, _ => .reject
  | .intGe n, .int i => ofBool (decide (n ≤ i))
  | .intGe _, .bool _ => .undecided
  | .intGe _, _ => .reject
  | .etaFloat, .float f => if fUnitOpen f then .accept else if fGeOne f then .undecided else .reject
  | .etaFloat, _ => .reject
  | .unitClosedFloat, .float f => ofBool (fUnitClosed f)
  | .unitClosedFloat, _ => .reject
  | .ambiguityThreshold, .float f =>
    if fUnitOpen f then .accept
    else if f = .num 0 || f = .num 1 then .undecided
    else .reject
  | .ambiguityThreshold, _ => .reject
  | .kernelSize, .int i =>
    if decide (0 < i) && decide (i % 2 = 1) then .accept
    else if decide (i < 0) then .reject
    else .undecided
  | .kernelSize, .bool _ => .undecided
  | .kernelSize, _ => .reject
  | .number, .int _ => .accept
  | .number, .float _ => .accept
  | .number, .bool _ => .undecided
  | .number, _ => .reject
  | .numberOrNaN, .int _ => .accept
  | .numberOrNaN, .float _ => .accept
  | .numberOrNaN, .bool _ => .undecided
  | .numberOrNaN, _ => .reject
  | .anyStr, .str _ => .accept
  | .anyStr, _ => .reject
  | .anyBool, .bool _ => .accept
  | .anyBool, _ => .reject
  | .strOrNone, .str _ => .accept
  | .strOrNone, .null => .accept
  | .strOrNone, _ => .reject
  | .stepOne, .int i => ofBool (decide (i = 1))
  | .stepOne, .bool _ => .undecided
  | .stepOne, _ => .reject
  | .interpolation, .str s =>
    if s = "sgm" then .accept else if s = "mc-cnn" || s = "mc_cnn" then .undecided else .reject
  | .interpolation, _ => .reject

/-- the documented default of a parameter -/
inductive DocDefault where
  /-- no default: the key may be omitted and then stays absent (`interpolated_disparity`) -/
  | optional
  /-- omitted ⇒ appears with this value -/
  | value (v : JVal)
  /-- omitted ⇒ appears, but guide and code name different values (F16) or the guide does not list
      the parameter: the value is not part of the verdict -/
  | unsettled
  deriving Repr, Inhabited

structure DocParam where
  name : String
  dom : DomKind
  default : DocDefault
  deriving Repr, Inhabited

structure DocClass where
  kind : String
  methodKey : String
  methods : List String
  params : List DocParam
  deriving Repr, Inhabited

def fl (n : Int) (d : Nat := 1) : JVal := .float (.num (mkRat n d))

def matchingCostParams (window : DomKind) : List DocParam := [
  ⟨"window_size", window, .value (.int 5)⟩,
  ⟨"subpix", .subpix, .value (.int 1)⟩,
  ⟨"band", .strOrNone, .value .null⟩,
  ⟨"step", .stepOne, .value (.int 1)⟩]

def regularizationParams : List DocParam := [
  ⟨"regularization", .anyBool, .value (.bool false)⟩,
  ⟨"ambiguity_indicator", .anyStr, .value (.str "")⟩,
  ⟨"ambiguity_threshold", .ambiguityThreshold, .value (fl 6 10)⟩,
  ⟨"ambiguity_kernel_size", .kernelSize, .value (.int 5)⟩,
  ⟨"vertical_depth", .intGe 0, .unsettled⟩,            -- guide 2, code 0
  ⟨"quantile_regularization", .unitClosedFloat, .unsettled⟩]   -- guide 0.9, code 1.0

/-- every built-in method and its parameters (statement first, user guide for the rest) -/
def docTable : List DocClass := [
  ⟨"matching_cost", "matching_cost_method", ["sad", "ssd"], matchingCostParams .oddPositiveInt⟩,
  ⟨"matching_cost", "matching_cost_method", ["census"], matchingCostParams .census35⟩,
  ⟨"matching_cost", "matching_cost_method", ["zncc"], matchingCostParams .oddPositiveInt⟩,
  ⟨"aggregation", "aggregation_method", ["cbca"], [
    ⟨"cbca_intensity", .positiveFloat, .value (fl 30)⟩,
    ⟨"cbca_distance", .positiveInt, .value (.int 5)⟩]⟩,
  ⟨"disparity", "disparity_method", ["wta"], [
    ⟨"invalid_disparity", .numberOrNaN, .value (.int (-9999))⟩]⟩,
  ⟨"refinement", "refinement_method", ["vfit"], []⟩,
  ⟨"refinement", "refinement_method", ["quadratic"], []⟩,
  ⟨"filter", "filter_method", ["median"], [
    ⟨"filter_size", .oddPositiveInt, .value (.int 3)⟩]⟩,
  ⟨"filter", "filter_method", ["bilateral"], [
    ⟨"sigma_color", .positiveFloat, .value (fl 2)⟩,
    ⟨"sigma_space", .positiveFloat, .value (fl 6)⟩]⟩,
  ⟨"filter", "filter_method", ["median_for_intervals"],
    [⟨"filter_size", .oddPositiveInt, .value (.int 3)⟩,
     ⟨"interval_indicator", .anyStr, .unsettled⟩] ++ regularizationParams⟩,   -- not in the guide's table
  ⟨"validation", "validation_method", ["cross_checking_accurate"], [
    ⟨"cross_checking_threshold", .number, .value (fl 1)⟩,
    ⟨"interpolated_disparity", .interpolation, .optional⟩]⟩,
  ⟨"cost_volume_confidence", "confidence_method", ["ambiguity"], [
    ⟨"eta_max", .etaFloat, .value (fl 7 10)⟩,
    ⟨"eta_step", .etaFloat, .value (fl 1 100)⟩,
    ⟨"normalization", .anyBool, .unsettled⟩,             -- guide false, code True
    ⟨"indicator", .anyStr, .value (.str "")⟩]⟩,
  ⟨"cost_volume_confidence", "confidence_method", ["risk"], [
    ⟨"eta_max", .etaFloat, .value (fl 7 10)⟩,
    ⟨"eta_step", .etaFloat, .value (fl 1 100)⟩,
    ⟨"indicator", .anyStr, .value (.str "")⟩]⟩,
  ⟨"cost_volume_confidence", "confidence_method", ["interval_bounds"],
    [⟨"possibility_threshold", .unitClosedFloat, .value (fl 9 10)⟩] ++ regularizationParams ++
    [⟨"indicator", .anyStr, .value (.str "")⟩]⟩,
  ⟨"cost_volume_confidence", "confidence_method", ["std_intensity"], [
    ⟨"indicator", .anyStr, .value (.str "")⟩]⟩,
  ⟨"multiscale", "multiscale_method", ["fixed_zoom_pyramid"], [
    ⟨"num_scales", .intGe 2, .value (.int 2)⟩,
    ⟨"scale_factor", .intGe 2, .value (.int 2)⟩,
    ⟨"marge", .intGe 0, .value (.int 1)⟩]⟩]

/-- the method keys of the kinds without a built-in method (plugins) -/
def pluginKinds : List String := ["optimization", "semantic_segmentation"]

def docClass? (kind method : String) : Option DocClass :=
  docTable.find? (fun c => c.kind == kind && c.methods.contains method)

def DocClass.param? (c : DocClass) (name : String) : Option DocParam :=
  c.params.find? (fun p => p.name == name)

/-! ### Verdict of the documentation on one step and on a pipeline -/

def Dom.and : Dom → Dom → Dom
  | .reject, _ => .reject
  | _, .reject => .reject
  | .undecided, _ => .undecided
  | _, .undecided => .undecided
  | .accept, .accept => .accept

/-- the user configuration as the check sees it: `"NaN"`, `"inf"`, `"-inf"` are floats -/
def rewriteDict (d : Dict) : Dict := d.map (fun kv => (kv.1, rewriteLeaf kv.2))

/-- every key of the step is its method key or a documented parameter with a legal value -/
def paramsVerdict (c : DocClass) : Dict → Dom
  | [] => .accept
  | (k, v) :: rest =>
    let here :=
      if k = c.methodKey then Dom.accept
      else match c.param? k with
        | none => Dom.reject              -- not a parameter of this method
        | some p => p.dom.dom v
    Dom.and here (paramsVerdict c rest)

/-- "band absent from the image": the band the step will use is in both images; no band needs
    one-band images.  An empty band name is undecided (the code treats it as `None`). -/
def bandVerdict (l r : ImgInfo) (band : JVal) : Dom :=
  match band with
  | .null => ofBool (l.bands.length == 1 && r.bands.length == 1)
  | .str s =>
    if s = "" then .undecided
    else ofBool (l.bands.contains (some s) && r.bands.contains (some s))
  | _ => .reject

/-- what the documentation says of one step `name: stepCfg` -/
def stepVerdict (l r : ImgInfo) (kind : Machine.Kind) (stepCfg : JVal) : Dom :=
  match stepCfg with
  | .obj raw =>
    let cfg := rewriteDict raw
    if pluginKinds.contains kind.name then .undecided
    else
      match docTable.find? (fun c => c.kind == kind.name) with
      | none => .reject
      | some anyClass =>
        match Dict.lookup cfg anyClass.methodKey with
        | some (.str m) =>
          match docClass? kind.name m with
          | none => .reject                 -- unknown method name
          | some c =>
            let base := paramsVerdict c cfg
            let extra :=
              match kind with
              | .matchingCost => bandVerdict l r ((Dict.lookup cfg "band").getD .null)
              | .multiscale => ofBool (!(l.dispSource.isStr || r.dispSource.isStr))
              | .validation => ofBool (!((l.dispSource.isStr && r.dispSource.isNull) ||
                                         (r.dispSource.isStr && l.dispSource.isNull)))
              | _ => .accept
            Dom.and base extra
        | _ => .reject                      -- method missing or not a string
  | _ => .reject

def stepsVerdict (l r : ImgInfo) : Machine.St → Dict → Dom
  | _, [] => .accept
  | st, (n, cfg) :: rest =>
    match Machine.Kind.ofName? (Machine.kindOf n) with
    | none => .reject
    | some k =>
      match Machine.documented st k with
      | none => .reject
      | some st' => Dom.and (stepVerdict l r k cfg) (stepsVerdict l r st' rest)

/-- the documentation's verdict on a pipeline section -/
def pipelineVerdict (l r : ImgInfo) (pipeline : Dict) : Dom := stepsVerdict l r .begin pipeline

/-! ### Specification of the returned configuration -/

/-- every user key of the step keeps its (rewritten) value and its position: the user's items are a
    prefix of the returned step -/
def userKeysKept (user result : Dict) : Bool :=
  (result.take user.length) == rewriteDict user

/-- every omitted documented parameter appears, with the documented default when it is settled;
    nothing else is added -/
def defaultsAdded (c : DocClass) (user result : Dict) : Bool :=
  let missing := c.params.filter (fun p =>
    !(Dict.hasKey user p.name) && (match p.default with | .optional => false | _ => true))
  let added := result.drop user.length
  -- exactly the missing parameters are added …
  added.all (fun kv => missing.any (fun p => p.name == kv.1)) &&
  missing.all (fun p =>
    match Dict.lookup added p.name, p.default with
    | some v, .value d => v == d
    | some _, _ => true
    | none, _ => false) &&
  Dict.nodup result

/-- the returned pipeline has the user's steps, in the user's order, each completed -/
def resultOk (user result : Dict) : Bool :=
  Dict.keys result == Dict.keys user &&
  user.all (fun kv =>
    match kv.2, Dict.lookup result kv.1 with
    | .obj ucfg, some (.obj rcfg) =>
      userKeysKept ucfg rcfg &&
      (match Machine.Kind.ofName? (Machine.kindOf kv.1) with
       | none => false
       | some k =>
         match docTable.find? (fun c => c.kind == k.name) with
         | none => true
         | some anyClass =>
           match Dict.lookup ucfg anyClass.methodKey with
           | some (.str m) =>
             match docClass? k.name m with
             | some c => defaultsAdded c ucfg rcfg
             | none => true
           | _ => true)
    | _, _ => false)

end Pandora.ConfigSpec
