/-
  Disparity filters (pandora/filter/median.py, bilateral.py, median_for_intervals.py,
  pandora/common.py `sliding_window`) — executable model and executable specification.  Core Lean only.

  The model follows the code:

    masked = disparity_map.copy();  masked[(validity_mask & PANDORA_MSK_PIXEL_INVALID) != 0] = nan
    valid  = isfinite(masked)
    filtered = median_filter(masked) | filter_bilateral(masked, sigma_space, sigma_color)
    disparity_map[valid] = filtered[valid]                       -- the validity mask is not written

    median_filter(data):
      out = copy(data); invalid = isnan(out)
      windows = sliding_window(data, (fs, fs))                    -- (ny-fs+1) x (nx-fs+1) windows
      block loops (np.array_split at np.arange(100, ny, 100) / np.arange(100, nx, 100), offsets from radius):
          out[y_begin:y_end, x_begin:x_end] = nanmedian(block, axis=(2, 3))
      out[invalid] = nan

    filter_bilateral: the same with win_width = min(ny, nx, int(3*sigma_space + 1)), offset = int(win_width/2),
      blocks of 50, kernel nansum(windows * weights) / nansum(weights),
      weights = gauss_spatial_kernel * normalized_gaussian(windows - centre, sigma_color).

    median_for_intervals: median_filter on the two interval-bound bands (no validity masking);
      with regularization: validity_mask[mask_regularization] |= PANDORA_MSK_PIXEL_INTERVAL_REGULARIZED.

  `np.nanmedian` is modelled as: sort the non-NaN values; middle one, or mean of the two middle ones.
  The two Gaussian factors are parameters (`Weights`); `exp` is outside Lean.
-/
import PandoraModel.Model.Basic
import PandoraModel.Model.Blocks

namespace Pandora.Filter
open Pandora

abbrev Img := Nat → Nat → Val

/-! ### Model -/

/-- `masked[(mask & PANDORA_MSK_PIXEL_INVALID) != 0] = nan` on one cell -/
def maskCell (invalidMask flag : Nat) (d : Val) : Val :=
  if (flag &&& invalidMask) != 0 then .nan else d

def masked (invalidMask : Nat) (flags : Nat → Nat → Nat) (disp : Img) : Img :=
  fun r c => maskCell invalidMask (flags r c) (disp r c)

/-- positions of a `w × w` window, row-major -/
def cells (w : Nat) : List (Nat × Nat) :=
  (List.range w).flatMap (fun a => (List.range w).map (fun b => (a, b)))

/-- `sliding_window(data, (w, w))[i, j]`: the window whose top-left corner is `(i, j)` -/
def window (data : Img) (w i j : Nat) : List Val :=
  (cells w).map (fun p => data (i + p.1) (j + p.2))

def num? : Val → Option Rat
  | .nan => none
  | .num q => some q

/-- the non-NaN values -/
def nums (l : List Val) : List Rat := l.filterMap num?

def insertSorted (x : Rat) : List Rat → List Rat
  | [] => [x]
  | y :: ys => if x ≤ y then x :: y :: ys else y :: insertSorted x ys

def sortRat : List Rat → List Rat
  | [] => []
  | x :: xs => insertSorted x (sortRat xs)

/-- median of a sorted list: the middle value, or the mean of the two middle values -/
def medianSorted (s : List Rat) : Val :=
  if s.length = 0 then .nan
  else if s.length % 2 = 1 then .num (s.getD (s.length / 2) 0)
  else .num ((s.getD (s.length / 2 - 1) 0 + s.getD (s.length / 2) 0) / 2)

/-- `np.nanmedian` over one window -/
def nanmedian (l : List Val) : Val := medianSorted (sortRat (nums l))

/-- `MedianFilter.median_filter(data)` with filter size `fs` on an `ny × nx` array -/
def medianFilter (s : Blocks.Split) (fs ny nx : Nat) (data : Img) : Img :=
  let filled := Blocks.blocked (s.plan (ny - fs + 1) (nx - fs + 1) [ny, nx])
    (fun i j => nanmedian (window data fs i j)) data
  fun r c => if (data r c).isNan then .nan else filled r c

/-- `MedianFilter.filter_disparity`: the new disparity map (the validity mask is left alone) -/
def medianFilterDisparity (s : Blocks.Split) (invalidMask fs ny nx : Nat) (flags : Nat → Nat → Nat)
    (disp : Img) : Img :=
  let m := masked invalidMask flags disp
  let med := medianFilter s fs ny nx m
  fun r c => if (m r c).isNum then med r c else disp r c

/-- `win_width = min(ny_, nx_, int(3 * sigma_space + 1))` -/
def winWidth (ny nx : Nat) (sigmaSpace : Rat) : Nat :=
  min ny (min nx (Rat.floor (3 * sigmaSpace + 1)).toNat)

/-- the two Gaussian factors, supplied per case (computed by Pandora's own `gauss_spatial_kernel` and
    `normalized_gaussian`): `spatial a b` for window position `(a, b)`, `range d` for a disparity
    difference `d` -/
structure Weights where
  spatial : Nat → Nat → Rat
  range : Rat → Rat

/-- `np.nansum` -/
def nansum (l : List Val) : Rat := (nums l).sum

/-- weight of window cell `p`: `gauss_spatial_kernel * normalized_gaussian(window - centre)` (NaN-propagating) -/
def cellWeight (wts : Weights) (win : Nat → Nat → Val) (centre : Val) (p : Nat × Nat) : Val :=
  Val.num (wts.spatial p.1 p.2) * (win p.1 p.2 - centre).map wts.range

/-- `bilateral_kernel` on one window: `nansum(windows * weights) / nansum(weights)`; `0/0` is NaN -/
def bilateralKernel (wts : Weights) (w off : Nat) (win : Nat → Nat → Val) : Val :=
  let centre := win off off
  let weights := (cells w).map (cellWeight wts win centre)
  let pixelWeights := (cells w).map (fun p => win p.1 p.2 * cellWeight wts win centre p)
  if nansum weights = 0 then .nan else .num (nansum pixelWeights / nansum weights)

/-- `BilateralFilter.filter_bilateral(data)` for window width `w` -/
def bilateralFilter (s : Blocks.Split) (wts : Weights) (w ny nx : Nat) (data : Img) : Img :=
  let filled := Blocks.blocked (s.plan (ny - w + 1) (nx - w + 1) [ny, nx])
    (fun i j => bilateralKernel wts w (w / 2) (fun a b => data (i + a) (j + b))) data
  fun r c => if (data r c).isNan then .nan else filled r c

/-- `BilateralFilter.filter_disparity` -/
def bilateralFilterDisparity (s : Blocks.Split) (wts : Weights) (invalidMask w ny nx : Nat)
    (flags : Nat → Nat → Nat) (disp : Img) : Img :=
  let m := masked invalidMask flags disp
  let f := bilateralFilter s wts w ny nx m
  fun r c => if (m r c).isNum then f r c else disp r c

/-- `validity_mask[mask_regularization] |= PANDORA_MSK_PIXEL_INTERVAL_REGULARIZED` -/
def regularizeFlags (bit : Nat) (reg : Nat → Nat → Bool) (flags : Nat → Nat → Nat) : Nat → Nat → Nat :=
  fun r c => if reg r c then flags r c ||| bit else flags r c

/-! ### Specification (written from the property statement; executable) -/

/-- the pixel is at least `before` cells from the top/left edge and `after` cells from the bottom/right edge -/
def interior (before after ny nx r c : Nat) : Bool :=
  decide (before ≤ r) && decide (r + after < ny) && decide (before ≤ c) && decide (c + after < nx)

/-- the pixel's window: `before` cells up/left of it, `after` cells down/right -/
def centredWindow (data : Img) (before after r c : Nat) : List Val :=
  (cells (before + after + 1)).map (fun p => data (r - before + p.1) (c - before + p.2))

def countLt (vs : List Rat) (x : Rat) : Nat := vs.countP (fun v => decide (v < x))
def countLe (vs : List Rat) (x : Rat) : Nat := vs.countP (fun v => decide (v ≤ x))

/-- `x` is a `k`-th smallest value (0-based) of the multiset `vs` -/
def isKth (vs : List Rat) (k : Nat) (x : Rat) : Bool :=
  vs.contains x && decide (countLt vs x ≤ k) && decide (k < countLe vs x)

/-- `m` is the median of the non-empty multiset `vs`: the middle order statistic, or the mean of the two
    middle ones when their number is even -/
def isMedian (vs : List Rat) (m : Rat) : Bool :=
  if vs.length % 2 = 1 then isKth vs (vs.length / 2) m
  else vs.any (fun a => vs.any (fun b =>
    isKth vs (vs.length / 2 - 1) a && isKth vs (vs.length / 2) b && (m == (a + b) / 2)))

def minOf : List Rat → Rat
  | [] => 0
  | x :: xs => xs.foldl (fun a b => if b < a then b else a) x

def maxOf : List Rat → Rat
  | [] => 0
  | x :: xs => xs.foldl (fun a b => if a < b then b else a) x

/-- `between_window_min_max` -/
def between (vs : List Rat) (m : Rat) : Bool := decide (minOf vs ≤ m) && decide (m ≤ maxOf vs)

/-- Per-cell specification of a median filter over `data` (NaN = not a valid value), the cell keeping the
    value `orig` when it is not filtered.  Returns the names of the violated clauses.
    `validClause` names the clause for a cell that is not valid (`invalid_disp_unchanged`). -/
def medianCellFailures (data : Img) (fs ny nx r c : Nat) (orig out : Val) : List String :=
  match data r c with
  | .nan => if out == orig then [] else ["invalid_disp_unchanged"]
  | .num _ =>
    if !interior (fs / 2) (fs / 2) ny nx r c then
      (if out == orig then [] else ["edge_untouched"])
    else
      let vs := nums (centredWindow data (fs / 2) (fs / 2) r c)
      match out with
      | .nan => ["is_median"]
      | .num m =>
        (if isMedian vs m then [] else ["is_median"]) ++
        (if between vs m then [] else ["between_window_min_max"])

def medianCellSpec (data : Img) (fs ny nx r c : Nat) (orig out : Val) : Bool :=
  (medianCellFailures data fs ny nx r c orig out).isEmpty

/-- (weight, value) of every valid cell of the pixel's window, the pixel's own value being `ctr` -/
def validPairs (wts : Weights) (w : Nat) (win : Nat → Nat → Val) (ctr : Rat) : List (Rat × Rat) :=
  (cells w).filterMap (fun p =>
    match win p.1 p.2 with
    | .nan => none
    | .num v => some (wts.spatial p.1 p.2 * wts.range (v - ctr), v))

/-- `Σ w·v / Σ w` -/
def weightedMean (ps : List (Rat × Rat)) : Rat :=
  (ps.map (fun p => p.1 * p.2)).sum / (ps.map (fun p => p.1)).sum

def absRat (q : Rat) : Rat := if q < 0 then -q else q

/-- `|a - b| ≤ tol · max(1, |b|)` -/
def closeTo (tol a b : Rat) : Bool :=
  decide (absRat (a - b) ≤ tol * (if absRat b < 1 then 1 else absRat b))

/-- Per-cell specification of the bilateral filter of window width `w` (`before = w/2`,
    `after = w - 1 - w/2`: an even window has two radii); `tol` is the float tolerance of the comparison
    with the exact weighted mean (0 in the theorems). -/
def bilateralCellFailures (wts : Weights) (tol : Rat) (data : Img) (w ny nx r c : Nat) (orig out : Val) :
    List String :=
  match data r c with
  | .nan => if out == orig then [] else ["invalid_disp_unchanged"]
  | .num ctr =>
    if !interior (w / 2) (w - 1 - w / 2) ny nx r c then
      (if out == orig then [] else ["edge_untouched"])
    else
      let win : Nat → Nat → Val := fun a b => data (r - w / 2 + a) (c - w / 2 + b)
      let ps := validPairs wts w win ctr
      match out with
      | .nan => ["is_weighted_mean"]
      | .num m =>
        (if closeTo tol m (weightedMean ps) then [] else ["is_weighted_mean"]) ++
        (if between (ps.map (fun p => p.2)) m then [] else ["between_window_min_max"])

def bilateralCellSpec (wts : Weights) (tol : Rat) (data : Img) (w ny nx r c : Nat) (orig out : Val) : Bool :=
  (bilateralCellFailures wts tol data w ny nx r c orig out).isEmpty

/-- weights are usable: non-negative everywhere, positive at the window centre for a zero difference -/
def wfWeightsAt (wts : Weights) (w : Nat) (win : Nat → Nat → Val) (ctr : Rat) : Bool :=
  (validPairs wts w win ctr).all (fun p => decide (0 ≤ p.1)) &&
  decide (0 < ((validPairs wts w win ctr).map (fun p => p.1)).sum)

/-- `mask_unchanged` / `bit11_only`: the new flag differs from the old one at most by bit 11 being raised -/
def flagSpec (bit flag out : Nat) (bit11Allowed : Bool) : Bool :=
  out == flag || (bit11Allowed && out == (flag ||| bit))

end Pandora.Filter
