/-
  `json_checker` 2.0 schemas and the bodies of their lambdas, as data, with their evaluation
  (core Lean only).  The translator (`translator/gen_schemas.py`, T4) emits terms of these types
  from the `schema = {…}` literals of the Pandora source; the semantics below is the model of
  `json_checker` and of the Python expression fragment the lambdas use (DESIGN.md §7), sampled by
  the correspondence on every run (`harness/props/C05.py`, value table × live schemas).

  Python fragment (`Expr`, one free variable = the lambda parameter):
    literals, comparisons (chains are desugared by the translator into `and`: all operands are
    pure), `and / or / not` with Python truthiness and operand-returning semantics, `%`, `&`,
    `x in (…)` / `common.is_method(x, […])`, `x is None`, `np.isnan(x)`, `np.isscalar(x)`, `len(x)`.
  `eval` returns `none` where Python raises `TypeError`/`ValueError` (which `json_checker` turns
  into a validation error).  Comparisons and `%` are only translated when one operand is a numeric
  literal, so "the other operand is not a number" is exactly where Python raises.
-/
import PandoraModel.Model.JVal

namespace Pandora

/-! ### Numbers -/

/-- the numeric view of a value (`bool` is a Python `int`) -/
inductive Num where
  | int (i : Int)
  | flt (f : FVal)
  deriving Repr, DecidableEq

def JVal.toNum? : JVal → Option Num
  | .bool b => some (.int (if b then 1 else 0))
  | .int i => some (.int i)
  | .float f => some (.flt f)
  | _ => none

namespace FVal

def ofInt (i : Int) : FVal := .num i

/-- IEEE `<` (false as soon as a NaN is involved) -/
def lt : FVal → FVal → Bool
  | .nan, _ => false
  | _, .nan => false
  | .pinf, _ => false
  | _, .pinf => true
  | _, .ninf => false
  | .ninf, _ => true
  | .num a, .num b => decide (a < b)

def le : FVal → FVal → Bool
  | .nan, _ => false
  | _, .nan => false
  | _, .pinf => true
  | .pinf, _ => false
  | .ninf, _ => true
  | _, .ninf => false
  | .num a, .num b => decide (a ≤ b)

def eq : FVal → FVal → Bool
  | .pinf, .pinf => true
  | .ninf, .ninf => true
  | .num a, .num b => decide (a = b)
  | _, _ => false

end FVal

namespace Num

def lt : Num → Num → Bool
  | .int a, .int b => decide (a < b)
  | .int a, .flt b => FVal.lt (.ofInt a) b
  | .flt a, .int b => FVal.lt a (.ofInt b)
  | .flt a, .flt b => FVal.lt a b

def le : Num → Num → Bool
  | .int a, .int b => decide (a ≤ b)
  | .int a, .flt b => FVal.le (.ofInt a) b
  | .flt a, .int b => FVal.le a (.ofInt b)
  | .flt a, .flt b => FVal.le a b

def eq : Num → Num → Bool
  | .int a, .int b => decide (a = b)
  | .int a, .flt b => FVal.eq (.ofInt a) b
  | .flt a, .int b => FVal.eq a (.ofInt b)
  | .flt a, .flt b => FVal.eq a b

end Num

/-! ### Python expressions -/

inductive CmpOp where
  | lt | le | gt | ge | eq | ne
  deriving Repr, DecidableEq

inductive Expr where
  | var
  | lit (v : JVal)
  | cmp (op : CmpOp) (a b : Expr)
  | and (a b : Expr)
  | or (a b : Expr)
  | not (a : Expr)
  | mod (a : Expr) (m : Int)          -- `a % m`, `m` a positive integer literal
  | bitand (a b : Expr)
  | isIn (a : Expr) (items : List JVal) -- `a in (…)`, `common.is_method(a, […])`
  | isNone (a : Expr)
  | npIsnan (a : Expr)
  | npIsscalar (a : Expr)
  | len (a : Expr)
  deriving Repr, Inhabited, DecidableEq

/-- Python truthiness -/
def JVal.truthy : JVal → Bool
  | .null => false
  | .bool b => b
  | .int i => i != 0
  | .float f => !(FVal.eq f (.num 0))
  | .str s => s != ""
  | .list l => !l.isEmpty
  | .obj kvs => !kvs.isEmpty

/-- Python `==` between a value and a value, for the uses of the fragment: numbers compare
    numerically across `bool/int/float`, anything else structurally -/
def pyEq (a b : JVal) : Bool :=
  match a.toNum?, b.toNum? with
  | some x, some y => Num.eq x y
  | none, none => a == b
  | _, _ => false

def cmpNum (op : CmpOp) (x y : Num) : Bool :=
  match op with
  | .lt => Num.lt x y
  | .le => Num.le x y
  | .gt => Num.lt y x
  | .ge => Num.le y x
  | .eq => Num.eq x y
  | .ne => !(Num.eq x y)

/-- a comparison; ordering a non-number against a number raises `TypeError` -/
def pyCmp (op : CmpOp) (a b : JVal) : Option JVal :=
  match op with
  | .eq => some (.bool (pyEq a b))
  | .ne => some (.bool (!(pyEq a b)))
  | _ =>
    match a.toNum?, b.toNum? with
    | some x, some y => some (.bool (cmpNum op x y))
    | _, _ => none

/-- `a % m` for a positive integer literal `m` (floored, as Python) -/
def pyMod (a : JVal) (m : Int) : Option JVal :=
  match a with
  | .bool b => some (.int ((if b then 1 else 0) % m))
  | .int i => some (.int (i % m))
  | .float (.num q) => some (.float (.num (q - (m : Rat) * ((q / (m : Rat)).floor : Int))))
  | .float _ => some (.float .nan)
  | _ => none     -- str % int is string formatting (TypeError unless the string holds a format), others TypeError

/-- `a & b`; translated only when both operands are comparisons, hence bools (or a raise) -/
def pyBitand (a b : JVal) : Option JVal :=
  match a, b with
  | .bool x, .bool y => some (.bool (x && y))
  | _, _ => none

/-! `np.isnan(x)` followed by a truth test.  `x` is converted with `np.asarray`: a number is a
    0-d array; a (nested) list of numbers of regular shape is an n-d array; anything else (strings,
    `None`, dicts, ragged lists) raises `TypeError`/`ValueError`.  The truth value of an array is its
    only element when it has exactly one, `False` when it is empty, an error otherwise. -/

def fIsNan : FVal → Bool
  | .nan => true
  | _ => false

mutual
/-- shape of the array and its NaN flags in row-major order -/
def npArray : JVal → Option (List Nat × List Bool)
  | .bool _ => some ([], [false])
  | .int _ => some ([], [false])
  | .float f => some ([], [fIsNan f])
  | .list l =>
    match npArrayL l with
    | none => none
    | some (_, none, _) => some ([0], [])
    | some (n, some shape, flags) => some (n :: shape, flags)
  | _ => none
/-- `(number of children, their common shape (none when there is no child), flags)`;
    children of different shapes make a ragged list: `ValueError` -/
def npArrayL : List JVal → Option (Nat × Option (List Nat) × List Bool)
  | [] => some (0, none, [])
  | x :: xs =>
    match npArray x, npArrayL xs with
    | some (sh, fl), some (n, none, _) => some (n + 1, some sh, fl)
    | some (sh, fl), some (n, some sh', fl') =>
      if sh = sh' then some (n + 1, some sh, fl ++ fl') else none
    | _, _ => none
end

/-- truth value of `np.isnan(x)`; `none` = raises -/
def npIsnanTruth (x : JVal) : Option Bool :=
  match npArray x with
  | none => none
  | some (_, []) => some false
  | some (_, [b]) => some b
  | some _ => none

/-- `np.isscalar(x)`: numbers, booleans and strings are scalars; `None`, lists, dicts are not -/
def npIsscalarVal : JVal → Bool
  | .bool _ => true
  | .int _ => true
  | .float _ => true
  | .str _ => true
  | _ => false

namespace Expr

def eval (x : JVal) : Expr → Option JVal
  | .var => some x
  | .lit v => some v
  | .cmp op a b =>
    match eval x a with
    | none => none
    | some va =>
      match eval x b with
      | none => none
      | some vb => pyCmp op va vb
  | .and a b =>
    match eval x a with
    | none => none
    | some va => if va.truthy then eval x b else some va
  | .or a b =>
    match eval x a with
    | none => none
    | some va => if va.truthy then some va else eval x b
  | .not a =>
    match eval x a with
    | none => none
    | some va => some (.bool (!va.truthy))
  | .mod a m =>
    match eval x a with
    | none => none
    | some va => pyMod va m
  | .bitand a b =>
    match eval x a with
    | none => none
    | some va =>
      match eval x b with
      | none => none
      | some vb => pyBitand va vb
  | .isIn a items =>
    match eval x a with
    | none => none
    | some va => some (.bool (items.any (fun it => pyEq va it)))
  | .isNone a =>
    match eval x a with
    | none => none
    | some va => some (.bool va.isNull)
  | .npIsnan a =>
    match eval x a with
    | none => none
    | some va =>
      match npIsnanTruth va with
      | none => none
      | some b => some (.bool b)
  | .npIsscalar a =>
    match eval x a with
    | none => none
    | some va => some (.bool (npIsscalarVal va))
  | .len a =>
    match eval x a with
    | none => none
    | some (.str s) => some (.int s.length)
    | some (.list l) => some (.int l.length)
    | some (.obj kvs) => some (.int kvs.length)
    | some _ => none                       -- `len` of a number or `None`: TypeError

/-- `FunctionChecker`: the value passes iff the function returns something truthy without raising -/
def holds (e : Expr) (x : JVal) : Bool :=
  match eval x e with
  | some v => v.truthy
  | none => false

end Expr

/-! ### Schemas -/

inductive PyType where
  | int | float | str | bool | dict | list
  deriving Repr, DecidableEq

/-- `isinstance(v, t)` -/
def PyType.isInstance : PyType → JVal → Bool
  | .int, .int _ => true
  | .int, .bool _ => true        -- bool is a subclass of int
  | .float, .float _ => true
  | .str, .str _ => true
  | .bool, .bool _ => true
  | .dict, .obj _ => true
  | .list, .list _ => true
  | _, _ => false

/-- `type(v) is t` -/
def PyType.isExactly : PyType → JVal → Bool
  | .int, .int _ => true
  | .float, .float _ => true
  | .str, .str _ => true
  | .bool, .bool _ => true
  | .dict, .obj _ => true
  | .list, .list _ => true
  | _, _ => false

inductive Schema where
  | type (t : PyType)
  | func (body : Expr)                       -- a lambda
  | oracle (name : String)                   -- a named predicate (`rasterio_can_open…`)
  | all (l : List Schema)                    -- `And(…)`
  | any (l : List Schema)                    -- `Or(…)`
  | listOf (l : List Schema)                 -- `[int, int]`
  | dict (entries : List (String × Bool × Schema))   -- key, is `OptionalKey`, schema
  deriving Repr, Inhabited

/-- the named predicates: `oracle name value` -/
abbrev Oracle := String → JVal → Bool

namespace Schema

/-! decidable equality (the type is nested, so it is written by hand and proved correct) -/
mutual
def beq : Schema → Schema → Bool
  | .type a, .type b => a == b
  | .func a, .func b => a == b
  | .oracle a, .oracle b => a == b
  | .all a, .all b => beqL a b
  | .any a, .any b => beqL a b
  | .listOf a, .listOf b => beqL a b
  | .dict a, .dict b => beqE a b
  | _, _ => false
def beqL : List Schema → List Schema → Bool
  | [], [] => true
  | x :: xs, y :: ys => beq x y && beqL xs ys
  | _, _ => false
def beqE : List (String × Bool × Schema) → List (String × Bool × Schema) → Bool
  | [], [] => true
  | (k, o, x) :: xs, (k', o', y) :: ys => k == k' && o == o' && beq x y && beqE xs ys
  | _, _ => false
end

mutual
theorem beq_eq : ∀ (a b : Schema), beq a b = true ↔ a = b
  | .type x, b => by cases b <;> simp [beq]
  | .func x, b => by cases b <;> simp [beq]
  | .oracle x, b => by cases b <;> simp [beq]
  | .all x, b => by
      cases b <;> simp [beq]
      exact beqL_eq x _
  | .any x, b => by
      cases b <;> simp [beq]
      exact beqL_eq x _
  | .listOf x, b => by
      cases b <;> simp [beq]
      exact beqL_eq x _
  | .dict x, b => by
      cases b <;> simp [beq]
      exact beqE_eq x _
theorem beqL_eq : ∀ (a b : List Schema), beqL a b = true ↔ a = b
  | [], b => by cases b <;> simp [beqL]
  | x :: xs, b => by
      cases b with
      | nil => simp [beqL]
      | cons y ys => simp [beqL, beq_eq x y, beqL_eq xs ys]
theorem beqE_eq : ∀ (a b : List (String × Bool × Schema)), beqE a b = true ↔ a = b
  | [], b => by cases b <;> simp [beqE]
  | (k, o, x) :: xs, b => by
      cases b with
      | nil => simp [beqE]
      | cons y ys =>
        obtain ⟨k', o', y⟩ := y
        simp [beqE, beq_eq x y, beqE_eq xs ys, and_assoc]
end

instance : DecidableEq Schema := fun a b =>
  if h : beq a b = true then isTrue ((beq_eq a b).1 h) else isFalse (fun e => h ((beq_eq a b).2 e))

/-- `Or` keeps the alternatives selected by `filtered_by_type(expected, type(current))` -/
def keptByOr (v : JVal) : Schema → Bool
  | .type t => t.isExactly v
  | .func _ => true
  | .oracle _ => true
  | .listOf _ => v.isList
  | .dict _ => v.isObj
  | .all _ => false
  | .any _ => false

mutual
/-- `Validator(schema).validate(v)` reports no error -/
def accepts (o : Oracle) : Schema → JVal → Bool
  | .type t, v => t.isInstance v
  | .func body, v => body.holds v
  | .oracle name, v => o name v
  | .all l, v => acceptsAll o l v
  | .any l, v => acceptsAny o l v
  | .listOf l, v =>
    match v with
    | .list items =>
      match l, items with
      | _, [] => false
      | [], _ => false
      | s :: rest, _ =>
        if (s :: rest).length = items.length then acceptsZip o (s :: rest) items
        else items.all (fun x => accepts o s x)   -- another length: every element against the first schema
    | _ => false
  | .dict entries, v =>
    match v with
    | .obj kvs => acceptsEntries o entries kvs && kvs.all (fun kv => entries.any (fun e => e.1 == kv.1))
    | _ => false
/-- `And`: every component validates -/
def acceptsAll (o : Oracle) : List Schema → JVal → Bool
  | [], _ => true
  | s :: rest, v => accepts o s v && acceptsAll o rest v
/-- `Or`: some kept component validates -/
def acceptsAny (o : Oracle) : List Schema → JVal → Bool
  | [], _ => false
  | s :: rest, v => (keptByOr v s && accepts o s v) || acceptsAny o rest v
/-- list schema of the same length: position by position -/
def acceptsZip (o : Oracle) : List Schema → List JVal → Bool
  | s :: ss, x :: xs => accepts o s x && acceptsZip o ss xs
  | _, _ => true
/-- every expected key (optional ones only when present) is there and validates -/
def acceptsEntries (o : Oracle) : List (String × Bool × Schema) → Dict → Bool
  | [], _ => true
  | (k, opt, s) :: rest, kvs =>
    (match Dict.lookup kvs k with
     | some v => accepts o s v
     | none => opt) && acceptsEntries o rest kvs
end

end Schema

/-- no named predicate is ever true (used where a schema has none) -/
def noOracle : Oracle := fun _ _ => false

end Pandora
