/-
  Executable model of `pandora/cost_volume_confidence/*.py` and `pandora/interval_tools.py`
  (property C12) — core Lean only.

  What is modelled (the algorithm the code uses)
  * `Ambiguity.compute_ambiguity[_and_sampled_ambiguity]`: global `nanmin/nanmax` normalisation,
    the flat `np.repeat / reshape / .T / flatten` layout of the eta grid, NaN cost ↦ −∞,
    `np.sum(normalized_cv <= normalized_min_cost + two_dim_etas)`, the all-NaN pixel value
    `n_eta * n_disp`, the `(n_disp, n_eta)` reshape and column sums of the sampled ambiguity;
    `normalize_with_percentile` (numpy `percentile` linear method, clip, min/max rescale, 0/0 = NaN);
    `1 - ambiguity`.
  * `Risk.compute_risk`: same layout, `disp_cv[...] = nan`, per-eta `nanmin/nanmax`, `nanmean`s.
  * `IntervalBounds.compute_interval_bounds`: possibility `tf*norm + 1 - nanmax(tf*norm)`, the set of
    indices whose possibility reaches the threshold (the `argsort` permutation does not change that
    set: it is modelled as a filter over the indices), ±1 widening when `possibility == 1`, clamping.
  * `interval_tools.interval_regularization`: padded sliding `nanmin`, the `np.diff` borders,
    `argwhere` pairing of left/right borders, `create_connected_graph` (with its `continue/break`
    scan and the depth-1 closure loop), `graph_regularization` with numba's `nanquantile`
    (min / max shortcuts for 0 / 100, `lower*(1-m) + upper*m` otherwise).
  * `StdIntensity`: `compute_mean_raster` as cumulative sums along rows then columns and window
    differences, `E[x²] − E[x]²`, NaN frame of `(w-1)/2` pixels. The model returns the *variance*
    (the square root is taken by the harness; floating point is modelled, not verified).
  * `allocate_confidence_map`: append a band to the cost-volume dataset and to the disparity
    dataset (`None` / no `confidence_measure` yet / has one), the `confidence_from_` prefix;
    the indicator suffix rule of `PandoraMachine.cost_volume_confidence_run`
    (`len(input_step.split(".")) == 2`); the winner-takes-all of the later disparity step.

  The *specification* (declarative, executable) is in the second half of the file (`Spec` namespace).
  Rationals are exact; a float cell is `Val = nan | num q`.
-/
import PandoraModel.Model.Basic

namespace Pandora.Confidence

/-! ## 0. Small list helpers -/

abbrev Curve := List Val
/-- rows × cols × disparities -/
abbrev Volume := List (List Curve)

def numsOf (l : List Val) : List Rat :=
  l.filterMap (fun v => match v with | .num q => some q | .nan => none)

/-- minimum of a list of rationals (`none` on the empty list) -/
def lmin : List Rat → Option Rat
  | [] => none
  | x :: xs =>
    match lmin xs with
    | none => some x
    | some m => some (if x ≤ m then x else m)

def lmax : List Rat → Option Rat
  | [] => none
  | x :: xs =>
    match lmax xs with
    | none => some x
    | some m => some (if m ≤ x then x else m)

def lminNat : List Nat → Option Nat
  | [] => none
  | x :: xs =>
    match lminNat xs with
    | none => some x
    | some m => some (if x ≤ m then x else m)

def lmaxNat : List Nat → Option Nat
  | [] => none
  | x :: xs =>
    match lmaxNat xs with
    | none => some x
    | some m => some (if m ≤ x then x else m)

def sumRat (l : List Rat) : Rat := l.foldr (· + ·) 0

/-- all cells of a volume -/
def cellsOf (v : Volume) : List Val := v.flatten.flatten

/-- `np.nanmin(cv)`, `np.nanmax(cv)` (`none` = NaN: no finite cost at all) -/
def globalMin (v : Volume) : Option Rat := lmin (numsOf (cellsOf v))
def globalMax (v : Volume) : Option Rat := lmax (numsOf (cellsOf v))

/-- `np.arange(start, stop, step)` in exact arithmetic: `ceil((stop-start)/step)` samples -/
def arange (start stop step : Rat) : List Rat :=
  if step ≤ 0 then [] else
  let n := ((stop - start) / step).ceil.toNat
  (List.range n).map (fun (i : Nat) => start + (i : Rat) * step)

/-- `np.repeat(l, k)` -/
def npRepeat {α} (l : List α) (k : Nat) : List α := l.flatMap (List.replicate k)

/-- `l.reshape((n, k))` read row by row -/
def chunks {α} (k : Nat) : Nat → List α → List (List α)
  | 0, _ => []
  | n + 1, l => l.take k :: chunks k n (l.drop k)

/-- `l.reshape((-1, k))` -/
def reshapeRows {α} (l : List α) (k : Nat) : List (List α) := chunks k (l.length / k) l

/-- column `j` of a matrix given as a list of rows -/
def column {α} (d : α) (m : List (List α)) (j : Nat) : List α := m.map (fun r => r.getD j d)

/-- `m.T` for a matrix with `ncols` columns -/
def transposeN {α} (d : α) (ncols : Nat) (m : List (List α)) : List (List α) :=
  (List.range ncols).map (column d m)

/-- `np.repeat(etas, nb_disps).reshape((-1, nb_disps)).T.flatten()` -/
def twoDimEtas (etas : List Rat) (nd : Nat) : List Rat :=
  (transposeN 0 nd (reshapeRows (npRepeat etas nd) nd)).flatten

/-! ## 1. Ambiguity -/

/-- `(c - min_cost) / (max_cost - min_cost)` with `NaN ↦ −∞` (`none`) -/
def normNeg (mn mx : Rat) : Val → Option Rat
  | .nan => none
  | .num c => some ((c - mn) / (mx - mn))

/-- `v <= t` where `none` is −∞ -/
def leExt : Option Rat → Rat → Bool
  | none, _ => true
  | some v, t => decide (v ≤ t)

/-- the flat boolean array `normalized_cv <= normalized_min_cost + two_dim_etas`
    (index `d * n_eta + i`) for a pixel whose smallest finite cost is `m` -/
def pixelCmp (mn mx : Rat) (etas : List Rat) (curve : Curve) (m : Rat) : List Bool :=
  let nd := curve.length
  let ne := etas.length
  let nmin := (m - mn) / (mx - mn)
  let ncv := npRepeat (curve.map (normNeg mn mx)) ne
  let thr := List.zipWith (· + ·) (List.replicate (nd * ne) nmin) (twoDimEtas etas nd)
  List.zipWith leExt ncv thr

/-- the normalised minimum of a pixel is NaN: all costs NaN, or `max_cost == min_cost` (0/0) -/
def pixelBest (mn mx : Rat) (curve : Curve) : Option Rat :=
  match lmin (numsOf curve) with
  | none => none
  | some m => if mx = mn then none else some m

/-- `ambiguity[row, col]` of `compute_ambiguity` -/
def pixelAmbiguity (mn mx : Rat) (etas : List Rat) (curve : Curve) : Nat :=
  match pixelBest mn mx curve with
  | none => etas.length * curve.length
  | some m => (pixelCmp mn mx etas curve m).count true

/-- `sampled_ambiguity[row, col, :]` of `compute_ambiguity_and_sampled_ambiguity` -/
def pixelSampled (mn mx : Rat) (etas : List Rat) (curve : Curve) : List Nat :=
  match pixelBest mn mx curve with
  | none => List.replicate etas.length curve.length
  | some m =>
    let mat := chunks etas.length curve.length (pixelCmp mn mx etas curve m)
    (List.range etas.length).map (fun i => (column false mat i).count true)

def mapVolume {β} (f : Curve → β) (v : Volume) : Grid β := v.map (fun row => row.map f)

/-- `compute_ambiguity(cv, eta_min, eta_max, eta_step)` with the eta grid given explicitly.
    `none`: the cost volume holds no finite cost (numpy would propagate NaN; outside the quantifier) -/
def computeAmbiguity (etas : List Rat) (v : Volume) : Option (Grid Nat) :=
  match globalMin v, globalMax v with
  | some mn, some mx => some (mapVolume (pixelAmbiguity mn mx etas) v)
  | _, _ => none

def computeSampled (etas : List Rat) (v : Volume) : Option (Grid (List Nat)) :=
  match globalMin v, globalMax v with
  | some mn, some mx => some (mapVolume (pixelSampled mn mx etas) v)
  | _, _ => none

/-! ### Percentile normalisation -/

def leRat (a b : Rat) : Bool := decide (a ≤ b)

def insertRat (x : Rat) : List Rat → List Rat
  | [] => [x]
  | y :: ys => if x ≤ y then x :: y :: ys else y :: insertRat x ys

/-- ascending sort (insertion sort: structural, so that the kernel can evaluate it) -/
def sortRat : List Rat → List Rat
  | [] => []
  | x :: xs => insertRat x (sortRat xs)

/-- linear interpolation between closest ranks at the fractional rank `pos ∈ [0, n-1]` of a sorted list -/
def lerpAt (sorted : List Rat) (pos : Rat) : Rat :=
  let lo := pos.floor.toNat
  let g := pos - (lo : Rat)
  let a := sorted.getD lo 0
  let b := sorted.getD (lo + 1) a
  a + (b - a) * g

/-- `np.percentile(a, p)` (method "linear") on a non-empty list; `p` in percent -/
def percentile (l : List Rat) (p : Rat) : Rat :=
  lerpAt (sortRat l) (p / 100 * ((l.length : Rat) - 1))

def clipRat (lo hi x : Rat) : Rat := if x < lo then lo else if hi < x then hi else x

/-- `normalize_with_percentile` on the flattened map (`perc` = `_PERCENTILE` = 1.0):
    clip to the two percentiles, then `(x - min) / (max - min)`; `0/0 = NaN` when the clipped map is constant -/
def normalizeWithPercentile (perc : Rat) (l : List Rat) : List Val :=
  let pmin := percentile l perc
  let pmax := percentile l (100 - perc)
  let c := l.map (clipRat pmin pmax)
  match lmin c, lmax c with
  | some lo, some hi => if hi = lo then c.map (fun _ => Val.nan) else c.map (fun x => Val.num ((x - lo) / (hi - lo)))
  | _, _ => []

def regrid {α} (ncols : Nat) (nrows : Nat) (l : List α) : Grid α := chunks ncols nrows l

/-- the band produced by the `ambiguity` method: `1 - (normalised) ambiguity` -/
def ambiguityBand (etas : List Rat) (normalization : Bool) (perc : Rat) (v : Volume) : Option (Grid Val) :=
  match computeAmbiguity etas v with
  | none => none
  | some amb =>
    let flat : List Rat := amb.flatten.map (fun (n : Nat) => (n : Rat))
    let vals : List Val := if normalization then normalizeWithPercentile perc flat else flat.map Val.num
    let conf := vals.map (Val.map (fun x => 1 - x))
    let ncols := (amb.headD []).length
    some (regrid ncols amb.length conf)

/-! ## 2. Risk -/

/-- `np.nanmean` of a list whose NaN entries are `none` -/
def nanMean (l : List (Option Rat)) : Val :=
  let xs := l.filterMap id
  if xs.isEmpty then .nan else .num (sumRat xs / (xs.length : Rat))

/-- `max_disp[i] - min_disp[i]` for the disparities kept for one sample (`none` = NaN: nothing kept) -/
def spreadOpt (c : List Nat) : Option Rat :=
  match lminNat c, lmaxNat c with
  | some a, some b => some ((b : Rat) - (a : Rat))
  | _, _ => none

/-- `(risk_max[row, col], risk_min[row, col])` of `compute_risk`; `sampled` is
    `sampled_ambiguity[row, col, :]` -/
def pixelRisk (mn mx : Rat) (etas : List Rat) (curve : Curve) (sampled : List Nat) : Val × Val :=
  match pixelBest mn mx curve with
  | none => (.nan, .nan)
  | some m =>
    let nd := curve.length
    let ne := etas.length
    let cmp := pixelCmp mn mx etas curve m
    -- disp_cv = repeat(arange(nd), ne); disp_cv[normalized_cv > min + etas] = nan
    let dispCv : List (Option Nat) :=
      List.zipWith (fun d keep => if keep then some d else none) (npRepeat (List.range nd) ne) cmp
    let mat := chunks ne nd dispCv
    let cols := (List.range ne).map (fun i => (column none mat i).filterMap id)
    let spread : List (Option Rat) := cols.map spreadOpt
    let rmax := nanMean spread
    let rmin := nanMean (List.zipWith (fun s a => s.map (fun s => (1 + s) - (a : Rat))) spread sampled)
    (rmax, rmin)

/-- an optional number as a float cell (`none` = NaN) -/
def optVal : Option Rat → Val
  | some q => .num q
  | none => .nan

/-- `(sampled_risk_max[row, col, :], sampled_risk_min[row, col, :])` of `compute_risk_and_sampled_risk`: per eta the
    spread `max_disp − min_disp` of the disparities kept, and `1 + spread − sampled_ambiguity`; all NaN on a pixel without
    finite cost.  `pixelRisk` is the pair of their `nanmean`s. -/
def pixelSampledRisk (mn mx : Rat) (etas : List Rat) (curve : Curve) (sampled : List Nat) : List Val × List Val :=
  match pixelBest mn mx curve with
  | none => (List.replicate etas.length .nan, List.replicate etas.length .nan)
  | some m =>
    let nd := curve.length
    let ne := etas.length
    let cmp := pixelCmp mn mx etas curve m
    let dispCv : List (Option Nat) :=
      List.zipWith (fun d keep => if keep then some d else none) (npRepeat (List.range nd) ne) cmp
    let mat := chunks ne nd dispCv
    let cols := (List.range ne).map (fun i => (column none mat i).filterMap id)
    let spread : List (Option Rat) := cols.map spreadOpt
    (spread.map optVal, (List.zipWith (fun s a => s.map (fun s => (1 + s) - (a : Rat))) spread sampled).map optVal)

def computeRisk (etas : List Rat) (v : Volume) : Option (Grid (Val × Val)) :=
  match globalMin v, globalMax v with
  | some mn, some mx =>
    some (mapVolume (fun c => pixelRisk mn mx etas c (pixelSampled mn mx etas c)) v)
  | _, _ => none

/-! ## 3. Interval bounds -/

/-- `type_factor * norm_cv` (NaN stays NaN; `max_cost == min_cost` gives 0/0 = NaN everywhere) -/
def tfNorm (mn mx tf : Rat) (curve : Curve) : List Val :=
  curve.map (fun c => if mx = mn then Val.nan else Val.map (fun c => tf * ((c - mn) / (mx - mn))) c)

/-- `possibility = type_factor * norm_cv + 1 - np.nanmax(type_factor * norm_cv)` -/
def possibility (mn mx tf : Rat) (curve : Curve) : List Val :=
  let t := tfNorm mn mx tf curve
  match lmax (numsOf t) with
  | none => t.map (fun _ => Val.nan)
  | some M => t.map (Val.map (fun x => x + 1 - M))

/-- `p >= possibility_threshold` (false on NaN) -/
def geThr (thr : Rat) : Val → Bool
  | .nan => false
  | .num p => decide (thr ≤ p)

/-- the indices selected by `argsorted_poss[mask]` (as a set: in increasing order here) -/
def selIdx (thr : Rat) (poss : List Val) : List Nat :=
  (List.range poss.length).filter (fun i => geThr thr (poss.getD i .nan))

def isOne : Val → Bool
  | .num p => decide (p = 1)
  | .nan => false

/-- the two indices into `disp_interval` (after the ±1 widening and clamping); `none`: no index selected -/
def boundIdx (thr : Rat) (poss : List Val) : Option (Nat × Nat) :=
  let sel := selIdx thr poss
  match lminNat sel, lmaxNat sel with
  | some lo, some hi =>
    let lo' := if isOne (poss.getD lo .nan) then lo - 1 else lo           -- max(0, min_idx - 1)
    let hi' := if isOne (poss.getD hi .nan) then min (poss.length - 1) (hi + 1) else hi
    some (lo', hi')
  | _, _ => none

/-- `(interval_inf[row, col], interval_sup[row, col])` of `compute_interval_bounds` -/
def pixelBounds (mn mx tf thr : Rat) (disp : List Rat) (curve : Curve) : Val × Val :=
  match boundIdx thr (possibility mn mx tf curve) with
  | some (lo, hi) => (.num (disp.getD lo 0), .num (disp.getD hi 0))
  | none => (.nan, .nan)

/-- `type_factor`: −1 for a "min" measure, +1 otherwise -/
def typeFactor (isMax : Bool) : Rat := if isMax then 1 else -1

def computeBounds (isMax : Bool) (thr : Rat) (disp : List Rat) (v : Volume) : Option (Grid (Val × Val)) :=
  match globalMin v, globalMax v with
  | some mn, some mx => some (mapVolume (pixelBounds mn mx (typeFactor isMax) thr disp) v)
  | _, _ => none

/-! ### Winner-takes-all of the later disparity step (`AbstractDisparity.to_disp`) -/

/-- first index of the best finite cost (`np.argmin` after NaN ↦ +∞, `np.argmax` after NaN ↦ −∞);
    `none` when every cost is NaN (the pixel then gets `invalid_disparity`) -/
def wtaIdxFrom (isMax : Bool) : Nat → Curve → Option (Nat × Rat)
  | _, [] => none
  | i, .nan :: cs => wtaIdxFrom isMax (i + 1) cs
  | i, .num c :: cs =>
    match wtaIdxFrom isMax (i + 1) cs with
    | none => some (i, c)
    | some (j, b) => if (if isMax then decide (c < b) else decide (b < c)) then some (j, b) else some (i, c)

def wtaIdx (isMax : Bool) (curve : Curve) : Option Nat := (wtaIdxFrom isMax 0 curve).map (·.1)

/-- disparity map of `to_disp` (`none` = `invalid_disparity`) -/
def wtaMap (isMax : Bool) (disp : List Rat) (v : Volume) : Grid (Option Rat) :=
  mapVolume (fun c => (wtaIdx isMax c).map (fun i => disp.getD i 0)) v

/-! ## 4. Interval regularisation (`pandora/interval_tools.py`) -/

def valOfOpt : Option Rat → Val
  | some m => .num m
  | none => .nan

def nanMinVal (l : List Val) : Val := valOfOpt (lmin (numsOf l))

/-- `np.nanmin(sliding_window_view(hstack(ones(pad), row, ones(pad)), k), axis=-1)`, `pad = k // 2` -/
def slidingNanMin (k : Nat) (row : List Val) : List Val :=
  let pad := k / 2
  let padded := List.replicate pad (Val.num 1) ++ row ++ List.replicate pad (Val.num 1)
  (List.range (padded.length + 1 - k)).map (fun j => nanMinVal ((padded.drop j).take k))

/-- `minimized >= ambiguity_threshold` with the last column forced to 1 -/
def confidentFlags (thr : Rat) (k : Nat) (row : List Val) : List Bool :=
  let m := slidingNanMin k row
  (m.take (m.length - 1)).map (geThr thr) ++ (if m.isEmpty then [] else [decide (thr ≤ 1)])

/-- columns where `np.diff(hstack([1, flags])) == -1` (left borders) -/
def leftBorders : Bool → Nat → List Bool → List Nat
  | _, _, [] => []
  | prev, j, f :: fs => (if prev && !f then [j] else []) ++ leftBorders f (j + 1) fs

/-- columns where the diff is `+1`, minus one (right borders, inclusive) -/
def rightBorders : Bool → Nat → List Bool → List Nat
  | _, _, [] => []
  | prev, j, f :: fs => (if !prev && f then [j - 1] else []) ++ rightBorders f (j + 1) fs

abbrev Pos := Nat × Nat   -- (row, col)

/-- `border_left`, `border_right` as `np.argwhere` lists them (row-major) -/
def borders (thr : Rat) (k : Nat) (amb : Grid Val) : List Pos × List Pos :=
  let rows := amb.zipIdx
  (rows.flatMap (fun (row, r) => (leftBorders true 0 (confidentFlags thr k row)).map (fun c => (r, c))),
   rows.flatMap (fun (row, r) => (rightBorders true 0 (confidentFlags thr k row)).map (fun c => (r, c))))

/-- the scan `for k in range(i + 1, n_segments)` of `create_connected_graph` for segment `(li, ri)`:
    one Boolean per later segment -/
def connScan (li ri : Pos) : List (Pos × Pos) → List Bool
  | [] => []
  | (lk, rk) :: rest =>
    if lk.1 = li.1 then false :: connScan li ri rest                       -- continue
    else if lk.1 > li.1 + 1 then false :: rest.map (fun _ => false)        -- break
    else (decide (lk.2 ≤ ri.2) && decide (rk.2 ≥ li.2)) :: connScan li ri rest

/-- upper triangle: row `i` holds `connection_graph[i, k]` for `k > i` (positions `≤ i` are false) -/
def upperRows : Nat → List (Pos × Pos) → List (List Bool)
  | _, [] => []
  | i, (l, r) :: rest => (List.replicate (i + 1) false ++ connScan l r rest) :: upperRows (i + 1) rest

def matGet (m : List (List Bool)) (i k : Nat) : Bool := (m.getD i []).getD k false

/-- the symmetric `connection_graph` -/
def connectionGraph (segs : List (Pos × Pos)) : List (List Bool) :=
  let up := upperRows 0 segs
  let n := segs.length
  (List.range n).map (fun i => (List.range n).map (fun k =>
    if i < k then matGet up i k else if k < i then matGet up k i else false))

/-- one pass of `list_lines[j] |= connection_graph[list_lines, :][:, j].any()` -/
def closureStep (conn : List (List Bool)) (lines : List Bool) : List Bool :=
  (List.range lines.length).map (fun j =>
    lines.getD j false || (List.range lines.length).any (fun l => lines.getD l false && matGet conn l j))

def iterate {α} (f : α → α) : Nat → α → α
  | 0, x => x
  | n + 1, x => iterate f n (f x)

/-- `create_connected_graph(border_left, border_right, depth)` -/
def connectedGraph (segs : List (Pos × Pos)) (depth : Nat) : List (List Bool) :=
  let n := segs.length
  if depth = 0 then (List.range n).map (fun i => (List.range n).map (fun k => decide (i = k)))
  else
    let conn := connectionGraph segs
    (List.range n).map (fun i =>
      let lines := iterate (closureStep conn) (depth - 1) (conn.getD i [])
      (List.range n).map (fun k => if k = i then true else lines.getD k false))

/-- numba `np.nanquantile(a, q)` -/
def nanQuantile (l : List Val) (q : Rat) : Val :=
  let xs := numsOf l
  match xs with
  | [] => .nan
  | [x] => .num x
  | _ =>
    let p := q * 100
    if p = 100 then valOfOpt (lmax xs)
    else if p = 0 then valOfOpt (lmin xs)
    else
      let s := sortRat xs
      let rank := 1 + ((xs.length : Rat) - 1) * (p / 100)
      let f := rank.floor
      let m := rank - (f : Rat)
      let lower := s.getD (f - 1).toNat 0
      let upper := s.getD f.toNat lower
      .num (lower * (1 - m) + upper * m)

def cell (g : Grid Val) (r c : Nat) : Val := (g.getD r []).getD c .nan

/-- `g[r, c0 : c1 + 1]` -/
def rowSlice (g : Grid Val) (r c0 c1 : Nat) : List Val := ((g.getD r []).take (c1 + 1)).drop c0

/-- `g[r, c0 : c1 + 1] = x` -/
def setRange (g : Grid Val) (r c0 c1 : Nat) (x : Val) : Grid Val :=
  g.mapIdx (fun i row => if i = r then row.mapIdx (fun j v => if c0 ≤ j ∧ j ≤ c1 then x else v) else row)

/-- the values gathered for segment `i`: every pixel of every segment connected to it -/
def aggValues (g : Grid Val) (segs : List (Pos × Pos)) (graphRow : List Bool) : List Val :=
  (segs.zip graphRow).flatMap (fun ((l, r), on) => if on then rowSlice g l.1 l.2 r.2 else [])

/-- `graph_regularization`: returns `(interval_inf_reg, interval_sup_reg)` -/
def graphRegularization (inf sup : Grid Val) (segs : List (Pos × Pos)) (graph : List (List Bool)) (q : Rat) :
    Grid Val × Grid Val :=
  (segs.zip graph).foldl (fun (acc : Grid Val × Grid Val) (sg : (Pos × Pos) × List Bool) =>
      let (l, r) := sg.1
      (setRange acc.1 l.1 l.2 r.2 (nanQuantile (aggValues inf segs sg.2) (1 - q)),
       setRange acc.2 l.1 l.2 r.2 (nanQuantile (aggValues sup segs sg.2) q)))
    (inf, sup)

/-- `interval_regularization(inf, sup, ambiguity, threshold, kernel_size, vertical_depth, quantile)` -/
def intervalRegularization (inf sup amb : Grid Val) (thr : Rat) (k depth : Nat) (q : Rat) : Grid Val × Grid Val :=
  let (ls, rs) := borders thr k amb
  let segs := ls.zip rs
  graphRegularization inf sup segs (connectedGraph segs depth) q

/-! ## 5. std_intensity -/

/-- `np.cumsum` with a leading 0: `[0, a0, a0+a1, …]` -/
def cumsum0 : Rat → List Rat → List Rat
  | acc, [] => [acc]
  | acc, x :: xs => acc :: cumsum0 (acc + x) xs

/-- `c[w:] - c[:-w]` of the padded cumulative sum: sliding sums of width `w` -/
def slidingSums (w : Nat) (l : List Rat) : List Rat :=
  let c := cumsum0 0 l
  List.zipWith (fun a b => a - b) (c.drop w) (c.take (c.length - w))

def transposeRat (ncols : Nat) (m : List (List Rat)) : List (List Rat) := transposeN 0 ncols m

/-- `compute_mean_raster(img, w) * w²`: window sums (cumulative sums down the rows, then along the columns) -/
def windowSums (w : Nat) (img : Grid Rat) : Grid Rat :=
  let ncols := (img.headD []).length
  -- along axis 0 (each column), then back to row-major
  let colsSummed := (transposeRat ncols img).map (slidingSums w)
  let rowsAfter := transposeRat ((colsSummed.headD []).length) colsSummed
  rowsAfter.map (slidingSums w)

/-- variance raster `E[x²] − E[x]²` of `compute_std_raster` (before `sqrt`) -/
def varRaster (w : Nat) (img : Grid Rat) : Grid Rat :=
  let n : Rat := ((w * w : Nat) : Rat)
  let s1 := windowSums w img
  let s2 := windowSums w (img.map (fun r => r.map (fun x => x * x)))
  List.zipWith (fun r1 r2 => List.zipWith (fun a b => b / n - (a / n) * (a / n)) r1 r2) s1 s2

/-- the `std_intensity` band squared: NaN frame of `(w-1)/2` pixels around the variance raster -/
def stdBandSq (w : Nat) (img : Grid Rat) : Grid Val :=
  let off := (w - 1) / 2
  let nrows := img.length
  let ncols := (img.headD []).length
  let var := varRaster w img
  if off = 0 then var.map (fun r => r.map Val.num)
  else
    (List.range nrows).map (fun r => (List.range ncols).map (fun c =>
      -- confidence_measure[off:-off, off:-off] = raster
      if off ≤ r ∧ r < nrows - off ∧ off ≤ c ∧ c < ncols - off then
        Val.num ((var.getD (r - off) []).getD (c - off) 0)
      else Val.nan))

/-! ## 6. Bands: `allocate_confidence_map`, indicator naming, the step, the later disparity -/

abbrev Name := List Char

structure Band where
  name : Name
  data : Grid Val
  deriving Repr, DecidableEq, Inhabited

/-- the disparity dataset handed to a confidence step -/
inductive DispDS where
  | none                                  -- `disp is None`
  | ds (bands : Option (List Band))       -- a dataset, with or without `confidence_measure`
  deriving Repr, DecidableEq, Inhabited

def confPrefix : Name := "confidence_from_".toList

/-- `allocate_confidence_map(name, map, disp, cv)` where `cvBands` is `cv["confidence_measure"]`
    (`none`: the variable does not exist yet) -/
def allocate (name : Name) (map : Grid Val) (disp : DispDS) (cvBands : Option (List Band)) :
    DispDS × Option (List Band) :=
  let b : Band := ⟨confPrefix ++ name, map⟩
  let cv' : List Band :=
    match cvBands with
    | some bs => bs ++ [b]
    | none => [b]
  let disp' : DispDS :=
    match disp with
    | .none => .none
    | .ds (some bs) => .ds (some (bs ++ [b]))
    | .ds none => .ds (some cv')             -- disp["confidence_measure"] = cv["confidence_measure"]
  (disp', some cv')

/-- `input_step.split(".")` on characters -/
def splitDots : List Char → List (List Char)
  | [] => [[]]
  | c :: cs =>
    match splitDots cs with
    | [] => [[c]]   -- unreachable
    | p :: ps => if c = '.' then [] :: p :: ps else (c :: p) :: ps

/-- `cfg["indicator"]` as set by `cost_volume_confidence_run` -/
def indicatorOf (step : Name) : Name :=
  match splitDots step with
  | [_, s] => '.' :: s
  | _ => []

inductive Method where
  | ambiguity (etas : List Rat) (normalization : Bool)
  | risk (etas : List Rat)
  | intervalBounds (thr : Rat) (reg : Option (Name × Rat × Nat × Nat × Rat))
      -- regularisation: ambiguity_indicator, ambiguity_threshold, kernel size, vertical depth, quantile
  | stdIntensity
  deriving Repr, DecidableEq, Inhabited

structure Step where
  name : Name        -- key of the step in the pipeline, e.g. `cost_volume_confidence.amb`
  method : Method
  deriving Repr, DecidableEq, Inhabited

/-- what a confidence step can see -/
structure CState where
  cost : Volume
  isMax : Bool
  disp : List Rat            -- disparity coordinate of the cost volume
  img : Grid Rat             -- selected band of the left image
  window : Nat
  cvBands : Option (List Band)
  dispDS : DispDS
  deriving Repr, DecidableEq, Inhabited

def unzipGrid (g : Grid (Val × Val)) : Grid Val × Grid Val :=
  (g.map (fun r => r.map (·.1)), g.map (fun r => r.map (·.2)))

def findBand (bs : Option (List Band)) (n : Name) : Option (Grid Val) :=
  match bs with
  | none => none
  | some l => (l.find? (fun b => b.name = n)).map (·.data)

/-- the band stems and maps a method produces, in allocation order (`none`: the step raises) -/
def methodBands (st : CState) (ind : Name) : Method → Option (List (Name × Grid Val))
  | .ambiguity etas normalization =>
    (ambiguityBand etas normalization 1 st.cost).map (fun g => [("ambiguity".toList ++ ind, g)])
  | .risk etas =>
    (computeRisk etas st.cost).map (fun g =>
      let (mx, mn) := unzipGrid g
      [("risk_max".toList ++ ind, mx), ("risk_min".toList ++ ind, mn)])
  | .intervalBounds thr reg =>
    match computeBounds st.isMax thr st.disp st.cost with
    | none => none
    | some g =>
      let (inf, sup) := unzipGrid g
      let names := ("interval_bounds_inf".toList ++ ind, "interval_bounds_sup".toList ++ ind)
      match reg with
      | none => some [(names.1, inf), (names.2, sup)]
      | some (ambInd, athr, k, depth, q) =>
        let key := if ambInd = [] then "confidence_from_ambiguity".toList
                   else "confidence_from_ambiguity.".toList ++ ambInd
        match findBand st.cvBands key with
        | none => none      -- KeyError
        | some amb =>
          let (i', s') := intervalRegularization inf sup amb athr k depth q
          some [(names.1, i'), (names.2, s')]
  | .stdIntensity =>
    some [("intensity_std".toList ++ ind, stdBandSq st.window st.img)]

/-- one `cost_volume_confidence` step on one side (`confidence_prediction`) -/
def runStep (st : CState) (s : Step) : Option CState :=
  match methodBands st (indicatorOf s.name) s.method with
  | none => none
  | some bands =>
    some (bands.foldl (fun st (nb : Name × Grid Val) =>
      let (d, c) := allocate nb.1 nb.2 st.dispDS st.cvBands
      { st with dispDS := d, cvBands := c }) st)

def runSteps : CState → List Step → Option CState
  | st, [] => some st
  | st, s :: ss =>
    match runStep st s with
    | none => none
    | some st' => runSteps st' ss

/-- what the later disparity step produces from the state: the disparity map (winner-takes-all of the
    cost volume) and the bands it copies from the cost volume -/
def laterDisparity (st : CState) : Grid (Option Rat) × Option (List Band) :=
  (wtaMap st.isMax st.disp st.cost, st.cvBands)

/-! # Specification (declarative, executable) — written from the property statement

  Conventions fixed here (see DESIGN_NOTES/C12.md):
  * "the pixel's best" is the smallest finite cost for a `min` measure and the largest for a `max` measure;
  * a disparity whose cost is NaN counts as "within eta of the best" for every eta (the code's stated
    intent: a NaN hole raises the ambiguity), hence an all-NaN pixel counts every disparity for every eta;
  * normalised costs are `(c − min_cost) / (max_cost − min_cost)` over the whole volume.
-/
namespace Spec

def best (isMax : Bool) (curve : Curve) : Option Rat :=
  if isMax then lmax (numsOf curve) else lmin (numsOf curve)

def norm (mn mx c : Rat) : Rat := (c - mn) / (mx - mn)

/-- the disparity cell `c` is within `eta` of the pixel's best `b` (normalised costs) -/
def within (isMax : Bool) (mn mx b eta : Rat) : Val → Bool
  | .nan => true
  | .num c => if isMax then decide (norm mn mx b - eta ≤ norm mn mx c) else decide (norm mn mx c ≤ norm mn mx b + eta)

/-- `Amb(x, y, eta)`: number of disparities within `eta` of the best -/
def ambAt (isMax : Bool) (mn mx : Rat) (curve : Curve) (eta : Rat) : Nat :=
  curve.countP (within isMax mn mx ((best isMax curve).getD 0) eta)

/-- the ambiguity integral: sum over the eta grid -/
def ambCount (isMax : Bool) (mn mx : Rat) (etas : List Rat) (curve : Curve) : Nat :=
  (etas.map (ambAt isMax mn mx curve)).sum

/-- indices of the disparities within `eta` of the best -/
def idxWithin (isMax : Bool) (mn mx : Rat) (curve : Curve) (eta : Rat) : List Nat :=
  (List.range curve.length).filter (fun d =>
    within isMax mn mx ((best isMax curve).getD 0) eta (curve.getD d .nan))

/-- `max(d) − min(d)` over an increasing list of indices -/
def spread (l : List Nat) : Rat :=
  match l.head?, l.getLast? with
  | some a, some b => (b : Rat) - (a : Rat)
  | _, _ => 0

def mean (l : List Rat) : Rat := sumRat l / (l.length : Rat)

/-- `(risk_max, risk_min)`: eta-means of the spread and of `1 + spread − count`;
    `none` (NaN) for a pixel without any finite cost -/
def risk (isMax : Bool) (mn mx : Rat) (etas : List Rat) (curve : Curve) : Option (Rat × Rat) :=
  match best isMax curve with
  | none => none
  | some _ =>
    let sets := etas.map (idxWithin isMax mn mx curve)
    some (mean (sets.map spread), mean (sets.map (fun s => 1 + spread s - (s.length : Rat))))

/-- possibility of a cell: `1 − |c − best| / (max_cost − min_cost)` on the side of the measure -/
def poss (isMax : Bool) (mn mx b : Rat) : Val → Val
  | .nan => .nan
  | .num c => .num (if isMax then 1 - (b - c) / (mx - mn) else 1 - (c - b) / (mx - mn))

/-- `(inf, sup)` are the disparities of the first / last index whose possibility reaches the threshold,
    moved one sample outwards (inside the range) when that index has possibility exactly 1 -/
def boundsOk (isMax : Bool) (mn mx thr : Rat) (disp : List Rat) (curve : Curve) (inf sup : Val) : Bool :=
  match best isMax curve with
  | none => inf.isNan && sup.isNan
  | some b =>
    let P := curve.map (poss isMax mn mx b)
    let n := curve.length
    let ok (i : Nat) := geThr thr (P.getD i .nan)
    (List.range n).any (fun lo => ok lo && (List.range lo).all (fun j => !ok j) &&
        inf == .num (disp.getD (if isOne (P.getD lo .nan) then lo - 1 else lo) 0))
    && (List.range n).any (fun hi => ok hi && (List.range n).all (fun j => decide (j ≤ hi) || !ok j) &&
        sup == .num (disp.getD (if isOne (P.getD hi .nan) then min (n - 1) (hi + 1) else hi) 0))

/-- `inf ≤ d ≤ sup` -/
def bracket (inf sup : Val) (d : Rat) : Bool :=
  match inf, sup with
  | .num a, .num b => decide (a ≤ d) && decide (d ≤ b)
  | _, _ => false

def cellWidened (inf sup inf' sup' : Val) : Bool :=
  (match inf with
   | .nan => true
   | .num a => match inf' with | .num a' => decide (a' ≤ a) | .nan => false)
  && (match sup with
   | .nan => true
   | .num b => match sup' with | .num b' => decide (b ≤ b') | .nan => false)

def zipGrid {α β γ} (f : α → β → γ) (a : Grid α) (b : Grid β) : Grid γ :=
  List.zipWith (fun r1 r2 => List.zipWith f r1 r2) a b

/-- regularisation only widens: every finite bound stays finite and moves outwards; same shape -/
def widened (inf sup inf' sup' : Grid Val) : Bool :=
  (inf.map List.length == inf'.map List.length) && (sup.map List.length == sup'.map List.length) &&
  (zipGrid (fun (a : Val × Val) (b : Val × Val) => cellWidened a.1 a.2 b.1 b.2)
    (zipGrid Prod.mk inf sup) (zipGrid Prod.mk inf' sup')).all (fun r => r.all id)

/-- a value is a finite number of `[0, 1]` -/
def inUnit : Val → Bool
  | .nan => false
  | .num x => decide (0 ≤ x) && decide (x ≤ 1)

/-- direct window sum of `f(img[r+i][c+j])`, `i, j < w` -/
def windowSumAt (w : Nat) (img : Grid Rat) (f : Rat → Rat) (r c : Nat) : Rat :=
  sumRat ((List.range w).map (fun i => sumRat ((List.range w).map (fun j => f ((img.getD (r + i) []).getD (c + j) 0)))))

/-- population variance of the `w × w` window whose top-left corner is `(r, c)` -/
def windowVar (w : Nat) (img : Grid Rat) (r c : Nat) : Rat :=
  let n : Rat := ((w * w : Nat) : Rat)
  windowSumAt w img (fun x => x * x) r c / n - (windowSumAt w img id r c / n) * (windowSumAt w img id r c / n)

/-- the suffix a step name carries: everything from its first dot -/
def suffixOf (step : Name) : Name := step.dropWhile (· != '.')

def stems : Method → List Name
  | .ambiguity .. => ["ambiguity".toList]
  | .risk .. => ["risk_max".toList, "risk_min".toList]
  | .intervalBounds .. => ["interval_bounds_inf".toList, "interval_bounds_sup".toList]
  | .stdIntensity => ["intensity_std".toList]

/-- the band names a step must append -/
def expectedNames (s : Step) : List Name := (stems s.method).map (fun st => confPrefix ++ st ++ suffixOf s.name)

end Spec

end Pandora.Confidence
