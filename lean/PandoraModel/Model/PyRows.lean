/-
  Run-time support of `Generated/KernelsRegul.lean: regulBorders / intervalRegularization` (translator/gen_kernels_regul.py):
  the whole-array numpy statements with which `pandora/interval_tools.py: interval_regularization` extracts the segments.
  2-D float arrays are lists of rows of `Val`; every operation below acts row by row (all of them are `axis=1 / -1`
  operations).  The numpy meaning of each is the definition given here (validated on every run against the real function);
  not modelled: the exceptions numpy raises for a kernel larger than the padded row or an array without columns.
  Core Lean only.
-/
import PandoraModel.Model.Confidence

namespace Pandora.PyRows
open Pandora Pandora.Confidence

/-- `np.hstack((np.full((n_row, l), c), m, np.full((n_row, r), c)))` with `c` a number -/
def hstackConst (c : Rat) (l r : Nat) (m : List (List Val)) : List (List Val) :=
  m.map (fun row => List.replicate l (Val.num c) ++ row ++ List.replicate r (Val.num c))

/-- `np.nanmin(sliding_window_view(m, k, axis=1), axis=-1)` (a window of NaNs gives NaN) -/
def slidingNanmin (m : List (List Val)) (k : Nat) : List (List Val) :=
  m.map (fun row => (List.range (row.length + 1 - k)).map (fun j => nanMinVal ((row.drop j).take k)))

/-- `m[:, -1] = c` -/
def setLastCol (m : List (List Val)) (c : Rat) : List (List Val) :=
  m.map (fun row => if row.isEmpty then [] else row.take (row.length - 1) ++ [Val.num c])

/-- `m >= t` (False on NaN) -/
def ge (m : List (List Val)) (t : Rat) : List (List Bool) := m.map (fun row => row.map (geThr t))

def b2i (b : Bool) : Int := if b then 1 else 0

def diffRow : List Int → List Int
  | a :: b :: rest => (b - a) :: diffRow (b :: rest)
  | _ => []

/-- `np.diff(np.hstack([np.ones((n, 1)), b]), axis=-1)` for a Boolean `b` (numpy promotes to 0.0 / 1.0) -/
def diffOnes (b : List (List Bool)) : List (List Int) := b.map (fun row => diffRow (1 :: row.map b2i))

def whereEq (c : Int) : Nat → List Int → List Nat
  | _, [] => []
  | j, v :: vs => (if v = c then [j] else []) ++ whereEq c (j + 1) vs

/-- `np.argwhere(d == c)`: row-major `(row, col)` -/
def argwhere (d : List (List Int)) (c : Int) : List (Nat × Nat) :=
  d.zipIdx.flatMap (fun p => (whereEq c 0 p.1).map (fun j => (p.2, j)))

/-- `a[:, 1] = a[:, 1] - k` -/
def subCol1 (a : List (Nat × Nat)) (k : Nat) : List (Nat × Nat) := a.map (fun p => (p.1, p.2 - k))

end Pandora.PyRows
