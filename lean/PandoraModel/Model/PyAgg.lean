/-
  Run-time support of `Generated/KernelsRegul.lean: graphRegularization` (translator/gen_kernels_regul.py): the aggregation
  loop of `pandora/interval_tools.py: graph_regularization`.  (n, 2) coordinate arrays (`np.argwhere` output: non-negative)
  are `List (Nat × Nat)`; float grids are `List (List Val)`; integer expressions are `Int`, used as indices through
  `Int.toNat` (negative indices / wrap-around are not modelled: the coordinates are non-negative).

  IDIOMS read as one operation (their shape is checked strictly by the reader, their meaning validated against the real
  compiled function on every run):
    * `A[mask]` for an (n, 2) array and a Boolean row                         -> `sel`
    * `n = hstack(([0], (hi - lo).cumsum())); agg = np.full(n[-1], 0); for j in range(len(n) - 1): agg[n[j]:n[j+1]] = G[r_j, lo_j:hi_j]`
      (the block lengths `hi_j - lo_j` are the lengths of the copied slices)   -> `concat count (fun j => slice G r_j lo_j hi_j)`
    * `G[r, lo:hi] = x` (scalar broadcast)                                    -> `setSlice`
    * `np.nanquantile` is a PARAMETER of the generated function (a named library function).
  Core Lean only.
-/
import PandoraModel.Model.Basic

namespace Pandora.PyAgg
open Pandora

/-- `A[mask]` -/
def sel {α : Type} (a : List α) (mask : List Bool) : List α :=
  (a.zip mask).filterMap (fun p => if p.2 then some p.1 else none)

/-- `A[j, c]` of an (n, 2) coordinate array -/
def cell (a : List (Nat × Nat)) (j c : Nat) : Int :=
  if c = 0 then (((a.getD j (0, 0)).1 : Nat) : Int) else (((a.getD j (0, 0)).2 : Nat) : Int)

/-- `G[row, lo:hi]` (clipped at the row end, as Python slices are) -/
def slice (g : List (List Val)) (row lo hi : Int) : List Val := ((g.getD row.toNat []).take hi.toNat).drop lo.toNat

/-- the aggregated vector: the slices of the selected segments one after the other -/
def concat (count : Nat) (f : Nat → List Val) : List Val := (List.range count).flatMap f

/-- `G[row, lo:hi] = x` -/
def setSlice (g : List (List Val)) (row lo hi : Int) (x : Val) : List (List Val) :=
  g.mapIdx (fun i r => if i = row.toNat then r.mapIdx (fun j v => if lo.toNat ≤ j ∧ j < hi.toNat then x else v) else r)

/-- `for i in range(n): state = step i state` -/
def forRange {σ : Type} (n : Nat) (init : σ) (step : Nat → σ → σ) : σ := (List.range n).foldl (fun s i => step i s) init

end Pandora.PyAgg
