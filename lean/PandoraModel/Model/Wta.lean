/-
  Winner-takes-all (pandora/disparity/disparity.py, `WinnerTakesAll.to_disp`, `argmin_split`,
  `argmax_split`) — executable model and executable specification.  Core Lean only.

  The model follows the code:
    indices_nan = isnan(cv);  cv[indices_nan] = +inf (min measures) / -inf (max measures)
    disp = argmin_split(cv) / argmax_split(cv)     -- np.zeros map filled block by block with
                                                   -- disp_coords[np.argmin(block, axis=2)]
    cv[indices_nan] = nan                          -- restore
    disp[np.min(indices_nan, axis=2)] = invalid_disparity
    confidence_measure, validity_mask copied from the cost volume dataset
  `np.argmin` / `np.argmax` are modelled as "index of the first occurrence of the extremum".
-/
import PandoraModel.Model.Basic
import PandoraModel.Model.Blocks

namespace Pandora.Wta
open Pandora

/-- a cost cell after the NaN → ±inf substitution -/
inductive Ext where
  | negInf : Ext
  | fin : Rat → Ext
  | posInf : Ext
  deriving DecidableEq, Repr, Inhabited

/-- strict order of the extended costs -/
def Ext.lt : Ext → Ext → Bool
  | .negInf, .negInf => false
  | .negInf, _ => true
  | .fin _, .negInf => false
  | .fin a, .fin b => decide (a < b)
  | .fin _, .posInf => true
  | .posInf, _ => false

/-- `cv[isnan(cv)] = +inf` (min-type measure) -/
def substMin : Val → Ext
  | .nan => .posInf
  | .num q => .fin q

/-- `cv[isnan(cv)] = -inf` (max-type measure) -/
def substMax : Val → Ext
  | .nan => .negInf
  | .num q => .fin q

/-- `cv[indices_nan] = nan` on one cell: `wasNan` is the saved `indices_nan` entry -/
def restoreCell (wasNan : Bool) (e : Ext) : Val :=
  if wasNan then .nan
  else match e with
    | .fin q => .num q
    | _ => .nan

/-- first occurrence of a least element for the strict order `lt`, with that element
    (`x :: xs` is the non-empty list scanned) -/
def argFirstAux {α : Type} (lt : α → α → Bool) : α → List α → Nat × α
  | x, [] => (0, x)
  | x, y :: ys =>
    let r := argFirstAux lt y ys
    if lt r.2 x then (r.1 + 1, r.2) else (0, x)

/-- `np.argmin` (with `lt := Ext.lt`) / `np.argmax` (with the flipped order): the index of the first
    occurrence of the extremum; 0 on an empty list (numpy raises there — excluded by `WF`). -/
def argFirst {α : Type} (lt : α → α → Bool) : List α → Nat
  | [] => 0
  | x :: xs => (argFirstAux lt x xs).1

def gtExt (a b : Ext) : Bool := Ext.lt b a

/-- the index `np.argmin(cv_x, axis=2)` / `np.argmax(cv_x, axis=2)` of one pixel after substitution -/
def winnerIdx (isMax : Bool) (costs : List Val) : Nat :=
  if isMax then argFirst gtExt (costs.map substMax) else argFirst Ext.lt (costs.map substMin)

/-- `cost_volume.coords["disp"].data[idx]` -/
def dispAt (disps : List Rat) (k : Nat) : Rat := disps.getD k 0

def costAt (costs : List Val) (k : Nat) : Val := costs.getD k .nan

/-- `np.min(indices_nan, axis=2)` on one pixel -/
def allNan (costs : List Val) : Bool := costs.all Val.isNan

/-- one pixel of the disparity map -/
def wtaPixel (isMax : Bool) (disps : List Rat) (costs : List Val) (invalid : Val) : Val :=
  if allNan costs then invalid else .num (dispAt disps (winnerIdx isMax costs))

/-- input of the disparity step -/
structure Input where
  rows : Nat
  cols : Nat
  isMax : Bool
  disps : List Rat
  cv : Nat → Nat → List Val
  invalid : Val

/-- `argmin_split` / `argmax_split`: `disp = np.zeros(...)` filled block by block; the split literals
    (`np.arange(100, ncol, 100)`, `y_begin = 0`, …) are a parameter read from the source -/
def argSplit (s : Blocks.Split) (x : Input) : Nat → Nat → Rat :=
  Blocks.blocked (s.plan x.rows x.cols [x.rows, x.cols, x.disps.length])
    (fun r c => dispAt x.disps (winnerIdx x.isMax (x.cv r c))) (fun _ _ => 0)

/-- the disparity map produced by `to_disp` -/
def toDisp (s : Blocks.Split) (x : Input) : Nat → Nat → Val :=
  fun r c => if allNan (x.cv r c) then x.invalid else .num (argSplit s x r c)

/-- the cost volume after the step: substituted, then restored from `indices_nan` -/
def cvAfter (x : Input) : Nat → Nat → List Val :=
  fun r c => (x.cv r c).map (fun v =>
    restoreCell v.isNan (if x.isMax then substMax v else substMin v))

/-! ### Specification (written from the property statement; every clause is executable) -/

def idxs (costs : List Val) : List Nat := List.range costs.length

/-- the pixel has at least one computable cost -/
def hasCost (costs : List Val) : Bool := costs.any Val.isNum

/-- `c` is at least as good as `c'` -/
def asGood (isMax : Bool) (c c' : Rat) : Bool := if isMax then decide (c' ≤ c) else decide (c ≤ c')

/-- the cost at index `k` is computable and is the minimum (maximum) of the computable costs -/
def isBestIdx (isMax : Bool) (costs : List Val) (k : Nat) : Bool :=
  match costAt costs k with
  | .nan => false
  | .num c => (idxs costs).all (fun j =>
      match costAt costs j with
      | .nan => true
      | .num c' => asGood isMax c c')

/-- `is_sample`: the result is one of the sampled disparities -/
def clauseIsSample (disps : List Rat) (costs : List Val) (out : Val) : Bool :=
  !hasCost costs ||
    match out with
    | .nan => false
    | .num d => (idxs costs).any (fun k => dispAt disps k == d)

/-- `is_best`: the cost at the result is the best of the pixel's computable costs -/
def clauseIsBest (isMax : Bool) (disps : List Rat) (costs : List Val) (out : Val) : Bool :=
  !hasCost costs ||
    match out with
    | .nan => false
    | .num d => (idxs costs).any (fun k => dispAt disps k == d && isBestIdx isMax costs k)

/-- `tie_lowest`: no lower disparity attains the best cost -/
def clauseTieLowest (isMax : Bool) (disps : List Rat) (costs : List Val) (out : Val) : Bool :=
  !hasCost costs ||
    match out with
    | .nan => false
    | .num d => (idxs costs).all (fun j => !isBestIdx isMax costs j || decide (d ≤ dispAt disps j))

/-- `in_pixel_interval`: the result lies in the pixel's requested `[lo, hi]` -/
def clauseInInterval (lo hi : Rat) (costs : List Val) (out : Val) : Bool :=
  !hasCost costs ||
    match out with
    | .nan => false
    | .num d => decide (lo ≤ d) && decide (d ≤ hi)

/-- `all_nan_invalid_value`: no computable cost → exactly `invalid_disparity` (NaN equals NaN) -/
def clauseAllNan (costs : List Val) (invalid out : Val) : Bool :=
  hasCost costs || out == invalid

/-- the per-pixel specification -/
def specPixel (isMax : Bool) (disps : List Rat) (lo hi : Rat) (costs : List Val) (invalid out : Val) : Bool :=
  clauseIsSample disps costs out && clauseIsBest isMax disps costs out &&
  clauseTieLowest isMax disps costs out && clauseInInterval lo hi costs out &&
  clauseAllNan costs invalid out

/-- names of the clauses of `specPixel` that are false (for the violation report) -/
def failedClauses (isMax : Bool) (disps : List Rat) (lo hi : Rat) (costs : List Val) (invalid out : Val) :
    List String :=
  (if clauseIsSample disps costs out then [] else ["is_sample"]) ++
  (if clauseIsBest isMax disps costs out then [] else ["is_best"]) ++
  (if clauseTieLowest isMax disps costs out then [] else ["tie_lowest"]) ++
  (if clauseInInterval lo hi costs out then [] else ["in_pixel_interval"]) ++
  (if clauseAllNan costs invalid out then [] else ["all_nan_invalid_value"])

/-- well-formedness of one pixel's data: as many costs as sampled disparities, at least one sample,
    samples strictly increasing, and the cost is NaN wherever the sample is outside the pixel's interval
    (what the matching-cost step guarantees: C02 `nan_iff_not_computable`/`outside_pixel_interval`) -/
def strictlyIncreasing : List Rat → Bool
  | [] => true
  | [_] => true
  | a :: b :: rest => decide (a < b) && strictlyIncreasing (b :: rest)

def wfPixel (disps : List Rat) (lo hi : Rat) (costs : List Val) : Bool :=
  costs.length == disps.length && strictlyIncreasing disps &&
  (idxs costs).all (fun k =>
    (decide (lo ≤ dispAt disps k) && decide (dispAt disps k ≤ hi)) || (costAt costs k).isNan)

end Pandora.Wta
